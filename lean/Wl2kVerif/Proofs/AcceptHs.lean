import Wl2kVerif.Proofs.AcceptInbound
import Wl2kVerif.Proofs.AcceptHsW
import Wl2kVerif.Proofs.Addr
/-
Acceptance, the HANDSHAKE phase: from the start of `exchange` to the first turn, against the checker
states `start` / `hs` of B2F/InGrammar.lean.

NOTE on imports: `Proofs/AcceptHsLines.lean` imports the `Whole*` chain, whose declarations clash with the
`Emit*`/`Accept*` chain (`sb_FQ`, `sb_FF`, `takeWhile_all`, `afterHs`, `Good`), so it cannot be imported
next to `AcceptBase`. Its lemmas (and the few definitions of `Proofs/WholeHs.lean` they are stated with)
are therefore re-proved here, verbatim, inside the namespace `Wl2k.B2F.AH`.
-/
namespace Wl2k.B2F
open Wl2k Wl2k.Str Wl2k.Strconv Wl2k.B2F.InGrammar Wl2k.B2F.Grammar

namespace AH

/-- what one (cleaned) handshake line does to the loop of `readHandshake` -/
inductive HsVerdict where
  | cont (d : HsData)
  | stop (d : HsData)
  | bad

def hsVerdict (data : HsData) (line : Bytes) : HsVerdict :=
  if isSID line then
    match parseSID line with
    | none => .bad
    | some sid => if !containsSub sid (sb "B2") then .bad else .cont { data with sid := sid }
  else if (sb ";FW").isPrefixOf line then
    match parseFW line with
    | none => .bad
    | some fw => .cont { data with fw := fw }
  else if (sb ";PQ").isPrefixOf line then
    if line.length < 5 then .bad else .cont { data with challenge := line.drop 5 }
  else if line.getLast? = some 62 then .stop data
  else .cont data

/-- events that are peeks only -/
def PeekOnly (pk : List Ev) : Prop := ∀ e ∈ pk, ∃ b, e = Ev.peeked b

theorem peekOnly_nil : PeekOnly [] := fun _ he => by cases he

theorem PeekOnly.cons (b : UInt8) {pk : List Ev} (h : PeekOnly pk) : PeekOnly (.peeked b :: pk) := by
  intro e he
  rcases List.mem_cons.mp he with rfl | he
  · exact ⟨b, rfl⟩
  · exact h e he

/-- the first byte of a CR-terminated line -/
def firstOf (l : Bytes) : UInt8 := l.headD 13

theorem line_cons (l rest : Bytes) : l ++ 13 :: rest = firstOf l :: ((l ++ 13 :: rest).drop 1) := by
  cases l <;> rfl

theorem sb_FW3 : sb ";FW" = [59, 70, 87] := by decide +kernel
theorem sb_PQ3 : sb ";PQ" = [59, 80, 81] := by decide +kernel

/-! ### TARGET 2: the line steps of `readHandshake`, generic handler -/

section Generic
variable {H : Type} (hstep : H → Call → H × Reply)

/-- `nextLineRemoteErr(false)` on an incomplete line -/
theorem run_nextLineRaw_eof (pre : Bytes) (fuel : Nat) (h : H) (tr : List Ev) (h13 : (13 : UInt8) ∉ pre)
    (hf : pre.length < fuel) :
    Proc.run hstep (nextLineRemoteErr false fuel) pre h tr = (.done (.error .eof), [], h, tr) := by
  unfold nextLineRemoteErr
  simp only [bind_eq, pure_eq]
  rw [run_bind, run_readString_eof hstep 13 pre fuel [] h tr h13 hf]
  simp [Proc.run]

/-- one line after which the loop goes on -/
theorem hs_step_cont' (master : Bool) (fuel n : Nat) (data d : HsData) (l rest : Bytes) (h : H) (tr : List Ev)
    (h13 : (13 : UInt8) ∉ l) (hf : l.length < fuel) (hF : ¬ (firstOf l = 70 ∧ master = true))
    (hv : hsVerdict data (cleanString (l ++ [13])) = .cont d) :
    Proc.run hstep (readHandshake master fuel (n + 1) data) (l ++ 13 :: rest) h tr =
      Proc.run hstep (readHandshake master fuel n d) rest h (.peeked (firstOf l) :: tr) := by
  conv => lhs; unfold readHandshake
  rw [line_cons l rest]
  simp only [Proc.run, if_neg hF, bind_eq, pure_eq]
  rw [← line_cons l rest, run_bind, run_nextLineRaw_ok hstep l rest fuel h _ h13 hf]
  simp only
  unfold hsVerdict at hv
  split at hv
  · rename_i h1
    simp only [h1, if_true]
    split at hv
    · cases hv
    · rename_i sid hs
      rw [hs]
      simp only
      split at hv
      · cases hv
      · rename_i h2
        simp only [HsVerdict.cont.injEq] at hv
        subst hv
        simp [h2]
  · rename_i h1
    simp only [h1, Bool.false_eq_true, if_false]
    split at hv
    · rename_i h2
      simp only [h2, if_true, parseFWC_eq]
      split at hv
      · cases hv
      · rename_i fw hfw
        simp only [HsVerdict.cont.injEq] at hv
        subst hv
        simp [hfw]
    · rename_i h2
      simp only [h2, Bool.false_eq_true, if_false]
      split at hv
      · rename_i h3
        simp only [h3, if_true, challengeC_eq]
        split at hv
        · cases hv
        · rename_i h4
          simp only [HsVerdict.cont.injEq] at hv
          subst hv
          simp [h4]
      · rename_i h3
        simp only [h3, Bool.false_eq_true, if_false]
        split at hv
        · cases hv
        · rename_i h4
          simp only [HsVerdict.cont.injEq] at hv
          subst hv
          simp [h4]

/-- the line that ends the slave's loop -/
theorem hs_step_stop' (master : Bool) (fuel n : Nat) (data d : HsData) (l rest : Bytes) (h : H) (tr : List Ev)
    (h13 : (13 : UInt8) ∉ l) (hf : l.length < fuel) (hF : ¬ (firstOf l = 70 ∧ master = true))
    (hv : hsVerdict data (cleanString (l ++ [13])) = .stop d) :
    Proc.run hstep (readHandshake master fuel (n + 1) data) (l ++ 13 :: rest) h tr =
      (.done (.ok d), rest, h, .peeked (firstOf l) :: tr) := by
  conv => lhs; unfold readHandshake
  rw [line_cons l rest]
  simp only [Proc.run, if_neg hF, bind_eq, pure_eq]
  rw [← line_cons l rest, run_bind, run_nextLineRaw_ok hstep l rest fuel h _ h13 hf]
  simp only
  unfold hsVerdict at hv
  split at hv
  · split at hv
    · cases hv
    · split at hv <;> cases hv
  · rename_i h1
    simp only [h1, Bool.false_eq_true, if_false]
    split at hv
    · split at hv <;> cases hv
    · rename_i h2
      simp only [h2, Bool.false_eq_true, if_false]
      split at hv
      · split at hv <;> cases hv
      · rename_i h3
        simp only [h3, Bool.false_eq_true, if_false]
        split at hv
        · rename_i h4
          simp only [HsVerdict.stop.injEq] at hv
          subst hv
          simp [h4, Proc.run]
        · cases hv

/-- the master's loop ends at the peek that sees 'F' -/
theorem hs_step_F' (fuel n : Nat) (data : HsData) (r : Bytes) (h : H) (tr : List Ev) :
    Proc.run hstep (readHandshake true fuel (n + 1) data) (70 :: r) h tr = (.done (.ok data), 70 :: r, h, .peeked 70 :: tr) := by
  conv => lhs; unfold readHandshake
  simp [Proc.run]

/-- an incomplete line: the connection is lost -/
theorem hs_step_eof' (master : Bool) (fuel n : Nat) (data : HsData) (J : Bytes) (h : H) (tr : List Ev)
    (h13 : (13 : UInt8) ∉ J) (hf : J.length < fuel) (hF : ¬ (J.head? = some 70 ∧ master = true)) :
    ∃ pk, PeekOnly pk ∧ Proc.run hstep (readHandshake master fuel (n + 1) data) J h tr = (.done (.error .eof), [], h, pk ++ tr) := by
  conv => enter [1, pk, 2, 1]; unfold readHandshake
  cases J with
  | nil => exact ⟨[], peekOnly_nil, rfl⟩
  | cons b t =>
    have hF' : ¬ (b = 70 ∧ master = true) := by simpa using hF
    simp only [Proc.run, if_neg hF', bind_eq, pure_eq]
    rw [run_bind, run_nextLineRaw_eof hstep (b :: t) fuel h _ h13 hf]
    exact ⟨[.peeked b], peekOnly_nil.cons b, rfl⟩

end Generic

/-! ### TARGET 1: `hsKind` determines `hsVerdict` -/

theorem byte_table' {P : UInt8 → Prop} (h : ∀ n, n < 256 → P (UInt8.ofNat n)) (b : UInt8) : P b := by
  have := h b.toNat b.toNat_lt
  simpa using this

theorem isSolid_Solid : ∀ b : UInt8, isSolid b = true → Solid b :=
  byte_table' (by decide +kernel)

theorem cleanString_one : ∀ b : UInt8, isSolid b = true → cleanString [b, 13] = [b] :=
  byte_table' (by decide +kernel)

theorem cleanString_cr : cleanString [13] = [] := by decide +kernel

theorem joinWith_splitOn (sep : UInt8) : ∀ (s : Bytes), joinWith sep (splitOn sep s) = s
  | [] => rfl
  | b :: t => by
    have ih := joinWith_splitOn sep t
    simp only [splitOn]
    split
    · rename_i hb
      cases hs : splitOn sep t with
      | nil => exact absurd hs (splitOn_ne_nil sep t)
      | cons y r =>
        rw [hs] at ih
        simp only [joinWith, List.nil_append, ih, hb]
    · cases hs : splitOn sep t with
      | nil => exact absurd hs (splitOn_ne_nil sep t)
      | cons y r =>
        rw [hs] at ih
        simp only
        cases r with
        | nil => simp only [joinWith] at ih ⊢; rw [ih]
        | cons z r' => simp only [joinWith, List.cons_append] at ih ⊢; rw [ih]

theorem isText_facts {t : Bytes} (h : isText t = true) : (13 : UInt8) ∉ t ∧ t ≠ [] ∧ cleanString (t ++ [13]) = t := by
  unfold isText at h
  simp only [Bool.and_eq_true, Bool.not_eq_true', List.contains_eq_mem, decide_eq_false_iff_not] at h
  obtain ⟨h13, hm⟩ := h
  refine ⟨h13, ?_, ?_⟩
  · rintro rfl; simp at hm
  · cases t with
    | nil => simp at hm
    | cons a r =>
      by_cases hr : r = []
      · subst hr
        simp only [List.head?_cons, List.getLast?_singleton, Bool.and_self] at hm
        exact cleanString_one a hm
      · obtain ⟨r', z, rfl⟩ := exists_snoc r hr
        have hl : (a :: (r' ++ [z])).getLast? = some z := by
          rw [show a :: (r' ++ [z]) = (a :: r') ++ [z] from rfl]; exact List.getLast?_concat
        rw [hl] at hm
        simp only [List.head?_cons, Bool.and_eq_true] at hm
        exact cleanString_line a r' z (isSolid_Solid a hm.1) (isSolid_Solid z hm.2)

/-- the shape of a line with a feature field -/
theorem sidFeatures_shape {t feats : Bytes} (hl : t.getLast? = some 93) (hf : sidFeatures t = some feats) :
    ∃ pre, t = [91] ++ pre ++ [45] ++ feats ++ [93] ∧ (45 : UInt8) ∉ feats := by
  unfold sidFeatures at hf
  split at hf
  · rename_i r
    split at hf
    · rename_i f y ys hsp
      simp only [Option.some.injEq] at hf
      subst hf
      have hr : r ≠ [] := by rintro rfl; simp at hl
      have hl' : r.getLast? = some 93 := by
        rw [List.getLast?_cons_of_ne_nil hr] at hl; exact hl
      have hrs : r = r.dropLast ++ [93] := by
        have h1 := (List.dropLast_concat_getLast hr).symm
        have h2 : r.getLast hr = 93 := by
          rw [List.getLast?_eq_some_getLast hr] at hl'
          exact Option.some.inj hl'
        rw [h2] at h1; exact h1
      have hsp' : splitOn 45 r.dropLast = (ys.reverse ++ [y]) ++ [f] := by
        have := congrArg List.reverse hsp
        simpa using this
      have hj := joinWith_splitOn 45 r.dropLast
      rw [hsp', joinWith_snoc 45 _ f (by simp)] at hj
      refine ⟨joinWith 45 (ys.reverse ++ [y]), ?_, ?_⟩
      · rw [hrs, ← hj]; simp
      · exact (splitOn_parts 45 r.dropLast f (by rw [hsp']; simp)).1
    · cases hf
  · cases hf

theorem containsSub_nil_B2 : containsSub [] [66, 50] = false := by decide

/-- a good SID line: the loop goes on with a non-empty SID -/
theorem goodSid_verdict (data : HsData) {t : Bytes} (hh : t.head? = some 91) (hl : t.getLast? = some 93)
    (hg : isGoodSid t = true) :
    ∃ sid, sid ≠ [] ∧ hsVerdict data t = .cont { data with sid := sid } := by
  unfold isGoodSid at hg
  simp only [Bool.and_eq_true, Bool.not_eq_true', List.contains_eq_mem, decide_eq_false_iff_not] at hg
  obtain ⟨h10, hm⟩ := hg
  cases hf : sidFeatures t with
  | none => rw [hf] at hm; cases hm
  | some feats =>
    rw [hf] at hm
    simp only at hm
    obtain ⟨pre, ht, h45⟩ := sidFeatures_shape hl hf
    have h10' : (10 : UInt8) ∉ pre ++ feats := by
      intro hx
      apply h10
      rw [ht]
      simp only [List.mem_append] at hx ⊢
      rcases hx with hx | hx
      · exact Or.inl (Or.inl (Or.inl (Or.inr hx)))
      · exact Or.inl (Or.inr hx)
    have hps := parseSID_form pre feats h45 h10'
    rw [← ht] at hps
    refine ⟨toUpper feats, ?_, ?_⟩
    · intro e; rw [e, containsSub_nil_B2] at hm; cases hm
    · have h1 : isSID t = true := by simp [isSID, hh, hl]
      unfold hsVerdict
      simp only [h1, if_true, hps, sb_B2, hm, Bool.not_true, Bool.false_eq_true, if_false]

theorem hsVerdict_nil (data : HsData) : hsVerdict data [] = .cont data := by
  simp [hsVerdict, isSID, sb_FW3, sb_PQ3]

theorem hsKind_verdict (g : InCfg) (data : HsData) (t : Bytes) :
    ((hsKind g t ≠ .bad → (13 : UInt8) ∉ t)) ∧
    (match hsKind g t with
    | .bad => True
    | .sid => ∃ sid, sid ≠ [] ∧ hsVerdict data (cleanString (t ++ [13])) = .cont { data with sid := sid }
    | .fw => ∃ fw, hsVerdict data (cleanString (t ++ [13])) = .cont { data with fw := fw }
    | .pq => g.secure = true ∧ t.drop 5 ≠ [] ∧ hsVerdict data (cleanString (t ++ [13])) = .cont { data with challenge := t.drop 5 }
    | .prompt => hsVerdict data (cleanString (t ++ [13])) = .stop data
    | .banner => hsVerdict data (cleanString (t ++ [13])) = .cont data) := by
  by_cases he : t = []
  · subst he
    have hk : hsKind g [] = .banner := rfl
    rw [hk]
    exact ⟨fun _ => by simp, by simp only [List.nil_append, cleanString_cr]; exact hsVerdict_nil data⟩
  have he' : t.isEmpty = false := by cases t with | nil => exact absurd rfl he | cons _ _ => rfl
  by_cases hT : ¬ isText t = true
  · have hk : hsKind g t = .bad := by
      simp only [hsKind, he', Bool.false_eq_true, if_false, hT, Bool.not_false, if_true]
    rw [hk]; exact ⟨fun h => absurd rfl h, trivial⟩
  have hT : isText t = true := by simpa using hT
  obtain ⟨h13, _, hc⟩ := isText_facts hT
  refine ⟨fun _ => h13, ?_⟩
  rw [hc]
  unfold hsKind
  simp only [he', Bool.false_eq_true, if_false, hT, Bool.not_true]
  by_cases hS : (t.head? == some 91 && t.getLast? == some 93) = true
  · simp only [hS, if_true]
    simp only [Bool.and_eq_true, beq_iff_eq] at hS
    by_cases hG : isGoodSid t = true
    · simp only [hG, if_true]
      exact goodSid_verdict data hS.1 hS.2 hG
    · simp only [hG, Bool.false_eq_true, if_false]
  · simp only [hS, Bool.false_eq_true, if_false]
    have h1 : isSID t = false := by
      cases hb : isSID t with
      | false => rfl
      | true =>
        exfalso; apply hS
        simp only [isSID, Bool.and_eq_true, decide_eq_true_eq] at hb
        simp only [hb.1, hb.2, beq_self_eq_true, Bool.and_self]
    by_cases hFW : ([59, 70, 87] : Bytes).isPrefixOf t = true
    · simp only [hFW, if_true]
      by_cases hP : ([59, 70, 87, 58, 32] : Bytes).isPrefixOf t = true
      · simp only [hP, if_true]
        unfold hsVerdict
        simp only [h1, Bool.false_eq_true, if_false, sb_FW3, hFW, if_true, parseFW, fwPrefix, hP, Bool.not_true]
        exact ⟨_, rfl⟩
      · simp only [hP, Bool.false_eq_true, if_false]
    · simp only [hFW, Bool.false_eq_true, if_false]
      by_cases hPQ : ([59, 80, 81] : Bytes).isPrefixOf t = true
      · simp only [hPQ, if_true]
        by_cases hC : (g.secure && ([59, 80, 81, 58, 32] : Bytes).isPrefixOf t && decide (6 ≤ t.length)) = true
        · simp only [hC, if_true]
          simp only [Bool.and_eq_true, decide_eq_true_eq] at hC
          obtain ⟨⟨hsec, _⟩, hlen⟩ := hC
          refine ⟨hsec, ?_, ?_⟩
          · intro e
            have := congrArg List.length e
            simp only [List.length_drop, List.length_nil] at this
            omega
          · unfold hsVerdict
            have : ¬ t.length < 5 := by omega
            simp only [h1, Bool.false_eq_true, if_false, sb_FW3, hFW, sb_PQ3, hPQ, if_true, this]
        · simp only [hC, Bool.false_eq_true, if_false]
      · simp only [hPQ, Bool.false_eq_true, if_false]
        by_cases hL : (t.getLast? == some 62) = true
        · simp only [hL, if_true]
          simp only [beq_iff_eq] at hL
          unfold hsVerdict
          simp only [h1, Bool.false_eq_true, if_false, sb_FW3, hFW, sb_PQ3, hPQ, hL, if_true]
        · simp only [hL, Bool.false_eq_true, if_false]
          simp only [beq_iff_eq] at hL
          unfold hsVerdict
          simp only [h1, Bool.false_eq_true, if_false, sb_FW3, hFW, sb_PQ3, hPQ, hL]

end AH
open AH

variable {H : Type} (hstep : H → Call → H × Reply)
variable (c : Cfg) (fuel : Nat)

/-! ### residual programs -/

/-- the session state after the handshake -/
def hsState (hs : HsData) : SState := { remoteSID := hs.sid, remoteFW := hs.fw }

/-- what `exchange` does with the result of `handshake` -/
def afterHsk : Except SErr HsData → Proc Result
  | .error e => finish {} true (some e)
  | .ok hs => restOfSession c fuel fuel (!c.hs.master) (hsState hs)

/-- what `handshake` + `exchange` do with our answering handshake (slave) -/
def afterSend (hs : HsData) : Except SErr Unit → Proc Result
  | .error e => finish {} true (some e)
  | .ok () => afterHsk c fuel (.ok hs)

/-- what `handshake` + `exchange` do with the result of `readHandshake` -/
def afterRead : Except SErr HsData → Proc Result
  | .error e => finish {} true (some e)
  | .ok hs =>
    if hs.sid.isEmpty then finish {} true (some (.proto "no-sid"))
    else if !c.hs.master then (sendHandshakeP c hs.challenge).bind (afterSend c fuel hs)
    else afterHsk c fuel (.ok hs)

/-- the rest of the session from inside the handshake's line loop -/
def HsP (m : Nat) (data : HsData) : Proc Result :=
  (readHandshake c.hs.master fuel m data).bind (afterRead c fuel)

def prepP : Proc Bool :=
  if c.hasHandler then Proc.call .prepare fun r => match r with | .err true => .ret false | _ => .ret true else .ret true

theorem handshake_bind_slave (hm : c.hs.master = false) :
    (handshake c fuel).bind (afterHsk c fuel) = HsP c fuel fuel {} := by
  unfold handshake HsP
  simp only [hm, Bool.false_eq_true, if_false, bind_eq, pure_eq, Bool.not_false, if_true]
  rw [Proc.bind_assoc]
  congr
  funext r
  cases r with
  | error e => rfl
  | ok hs =>
    simp only [afterRead, hm, Bool.not_false, if_true]
    split
    · rfl
    · rw [Proc.bind_assoc]
      congr
      funext r
      cases r with
      | error e => rfl
      | ok u => rfl

theorem hsP_zero (data : HsData) : HsP c fuel 0 data = .panic "fuel" := rfl

theorem firstOf_not70 (t : Bytes) (h : ¬ t.head? = some 70) : ¬ firstOf t = 70 := by
  cases t with
  | nil => simp [firstOf]
  | cons a r => simpa [firstOf] using h

theorem head70 (t : Bytes) (h : t.head? = some 70) : ∃ r, t = 70 :: r := by
  cases t with
  | nil => simp at h
  | cons a r => simp at h; exact ⟨r, by rw [h]⟩

/-- the master's loop ends at an `F`: the remote's first turn begins -/
theorem hsP_F (hm : c.hs.master = true) (m : Nat) (data : HsData) (hsid : data.sid.isEmpty = false) (hfuel : 0 < fuel)
    (r : Bytes) (h : H) :
    Proc.run hstep (HsP c fuel (m + 1) data) (70 :: r) h [] =
      Proc.run hstep (TheirP c fuel fuel [] 0 (hsState data) (hsState data) (Kin c fuel (fuel - 1))) (70 :: r) h [.peeked 70] := by
  unfold HsP
  rw [hm, run_bind_done hstep _ (hs_step_F' hstep fuel m data r h [])]
  simp only [afterRead, hsid, hm, Bool.false_eq_true, if_false, Bool.not_true, afterHsk]
  obtain ⟨n, rfl⟩ : ∃ n, fuel = n + 1 := ⟨fuel - 1, by omega⟩
  rw [recv_eq c (n + 1) n _ rfl rfl]
  rfl

section good
variable (g : InCfg)

theorem good_hs (hR : ∀ h c, RA g c (hstep h c).2) (hgm : g.master = c.hs.master)
    (hsec : g.secure = true → c.hs.hasCb = true) (tail : Bytes)
    (hO : ∀ script, GOurs hstep c fuel g tail script) (hT : ∀ script, GTheirs hstep c fuel g tail script) :
    ∀ (script : List RUnit) (m : Nat) (data : HsData), (data.challenge ≠ [] → g.secure = true) →
      (render script ++ tail).length < fuel →
      Good g hstep (fun W => .next (.hs (!data.sid.isEmpty)) W) (HsP c fuel m data) script tail := by
  intro script
  induction script with
  | nil =>
    intro m data hinv hlen
    have hlen' : tail.length < fuel := by simpa [render] using hlen
    have hinp : render [] ++ tail = tail := by simp [render]
    cases m with
    | zero => rw [hsP_zero]; exact Good.done (fun h => by simp [Proc.run, resGood])
    | succ m =>
      by_cases hF : tail.head? = some 70 ∧ c.hs.master = true
      · obtain ⟨hh, hm⟩ := hF
        obtain ⟨r, hr⟩ := head70 tail hh
        by_cases hsid : data.sid.isEmpty = true
        · exact Good.bad (fun W => by simp [conf_nil, verdictOK, tailOK, hgm, hm, hsid, hh])
        · have hsid : data.sid.isEmpty = false := by simpa using hsid
          apply Good.of_run
          intro h
          refine ⟨fun W => .next (.theirs [] 0) W, [],
            TheirP c fuel fuel [] 0 (hsState data) (hsState data) (Kin c fuel (fuel - 1)), h, [.peeked 70], ?_,
            hT [] (fuel - 1) fuel [] 0 [] _ _ .nil rfl hlen, ?_⟩
          · rw [hinp, hr]; exact hsP_F hstep c fuel hm m data hsid (by omega) r h
          · intro W hv
            simp only [conf_nil, verdictOK, tailOK, Bool.and_eq_true, Bool.not_eq_true'] at hv ⊢
            exact hv.1
      · intro h hv
        simp only [conf_nil, verdictOK, tailOK, Bool.and_eq_true, Bool.not_eq_true', List.contains_eq_mem,
          decide_eq_false_iff_not] at hv
        rw [hinp]
        obtain ⟨pk, _, hrun⟩ := hs_step_eof' hstep c.hs.master fuel m data tail h [] hv.1 hlen' hF
        unfold HsP
        rw [run_bind_done hstep _ hrun]
        simp [afterRead, finish, Proc.run, resGood]
  | cons u us ih =>
    intro m data hinv hlen
    cases u with
    | frame title chunks ck => exact Good.bad (fun W => by simp [conf_cons, stepUnit, conf_bad, verdictOK])
    | line t =>
      cases m with
      | zero => rw [hsP_zero]; exact Good.done (fun h => by simp [Proc.run, resGood])
      | succ m =>
        have hinp : render (.line t :: us) ++ tail = t ++ 13 :: (render us ++ tail) := by simp [render_cons, RUnit.bytes]
        have hlen1 : t.length < fuel := by rw [hinp] at hlen; simp only [List.length_append, List.length_cons] at hlen; omega
        have hlen2 : (render us ++ tail).length < fuel := by
          rw [hinp] at hlen; simp only [List.length_append, List.length_cons] at hlen ⊢; omega
        by_cases hF : t.head? = some 70 ∧ c.hs.master = true
        · obtain ⟨hh, hm⟩ := hF
          obtain ⟨r, hr⟩ := head70 t hh
          by_cases hsid : data.sid.isEmpty = true
          · exact Good.bad (fun W => by simp [conf_cons, stepUnit, hsLine, hgm, hm, hh, hsid, conf_bad, verdictOK])
          · have hsid : data.sid.isEmpty = false := by simpa using hsid
            apply Good.of_run
            intro h
            refine ⟨fun W => .next (.theirs [] 0) W, .line t :: us,
              TheirP c fuel fuel [] 0 (hsState data) (hsState data) (Kin c fuel (fuel - 1)), h, [.peeked 70], ?_,
              hT _ (fuel - 1) fuel [] 0 [] _ _ .nil rfl hlen, ?_⟩
            · rw [hinp, hr]; exact hsP_F hstep c fuel hm m data hsid (by omega) _ h
            · intro W hv
              simpa [conf_cons, stepUnit, hsLine, hgm, hm, hh, hsid, writesOf_cons_peeked, writesOf_nil, lineWrites] using hv
        · have hF' : ¬ (firstOf t = 70 ∧ c.hs.master = true) := by
            intro hx
            by_cases h70 : t.head? = some 70
            · exact hF ⟨h70, hx.2⟩
            · exact firstOf_not70 t h70 hx.1
          have hcond : (g.master && t.head? == some 70) = false := by
            rw [hgm]
            cases hmm : c.hs.master with
            | false => rfl
            | true =>
              have : ¬ t.head? = some 70 := fun h70 => hF ⟨h70, hmm⟩
              simp [this]
          obtain ⟨h13i, hk⟩ := hsKind_verdict g data t
          have cont : ∀ d : HsData, hsVerdict data (cleanString (t ++ [13])) = .cont d → (d.challenge ≠ [] → g.secure = true) →
              hsKind g t ≠ .bad →
              (∀ W, stepUnit g (.hs (!data.sid.isEmpty)) W (.line t) = .next (.hs (!d.sid.isEmpty)) W) →
              Good g hstep (fun W => .next (.hs (!data.sid.isEmpty)) W) (HsP c fuel (m + 1) data) (.line t :: us) tail := by
            intro d hv hinv' hnb hstepU
            apply Good.of_run
            intro h
            refine ⟨fun W => .next (.hs (!d.sid.isEmpty)) W, us, HsP c fuel m d, h, [.peeked (firstOf t)], ?_,
              ih m d hinv' hlen2, ?_⟩
            · rw [hinp]
              exact run_bind_congr hstep _ (hs_step_cont' hstep c.hs.master fuel m data d t _ h [] (h13i hnb) hlen1 hF' hv)
            · intro W hv
              simp only [writesOf_cons_peeked, writesOf_nil, lineWrites, List.filter_nil, List.nil_append, conf_cons,
                hstepU] at hv
              exact hv
          cases hkind : hsKind g t with
          | bad => exact Good.bad (fun W => by simp [conf_cons, stepUnit, hsLine, hcond, hkind, conf_bad, verdictOK])
          | sid =>
            rw [hkind] at hk
            obtain ⟨sid, hne, hv⟩ := hk
            refine cont _ hv hinv (by rw [hkind]; simp) (fun W => ?_)
            have : sid.isEmpty = false := by cases sid with | nil => exact absurd rfl hne | cons _ _ => rfl
            simp [stepUnit, hsLine, hcond, hkind, this]
          | fw =>
            rw [hkind] at hk
            obtain ⟨fw, hv⟩ := hk
            exact cont _ hv hinv (by rw [hkind]; simp) (fun W => by simp [stepUnit, hsLine, hcond, hkind])
          | pq =>
            rw [hkind] at hk
            obtain ⟨hs, _, hv⟩ := hk
            exact cont _ hv (fun _ => hs) (by rw [hkind]; simp) (fun W => by simp [stepUnit, hsLine, hcond, hkind])
          | banner =>
            rw [hkind] at hk
            exact cont _ hk hinv (by rw [hkind]; simp) (fun W => by simp [stepUnit, hsLine, hcond, hkind])
          | prompt =>
            rw [hkind] at hk
            simp only at hk
            have h13 := h13i (by rw [hkind]; simp)
            by_cases hms : c.hs.master = true ∨ data.sid.isEmpty = true
            · exact Good.bad (fun W => by
                simp only [conf_cons, stepUnit, hsLine, hcond, hkind, Bool.false_eq_true, if_false]
                rcases hms with hx | hx <;> simp [hgm, hx, conf_bad, verdictOK])
            · have hm : c.hs.master = false := by
                cases hmm : c.hs.master with
                | false => rfl
                | true => exact absurd (Or.inl hmm) hms
              have hsid : data.sid.isEmpty = false := by
                cases hss : data.sid.isEmpty with
                | false => rfl
                | true => exact absurd (Or.inr hss) hms
              apply Good.of_run
              intro h
              have hrun1 := hs_step_stop' hstep c.hs.master fuel m data data t (render us ++ tail) h [] h13 hlen1 hF' hk
              obtain ⟨r, h', evs, hrun2, hq⟩ := run_emits hstep hR
                (sendHandshakeP_emits g c data.challenge (fun hc => ⟨hinv hc, hsec (hinv hc)⟩)) (render us ++ tail) h
                [.peeked (firstOf t)]
              obtain ⟨rfl, w, hws, hw59, _⟩ := hq
              refine ⟨ourTurn, us, restOfSession c fuel fuel true (hsState data), h', evs ++ [.peeked (firstOf t)], ?_,
                hO us fuel _ rfl rfl hlen2, ?_⟩
              · rw [hinp]
                unfold HsP
                rw [run_bind_done hstep _ hrun1]
                simp only [afterRead, hsid, hm, Bool.false_eq_true, if_false, Bool.not_false, if_true]
                rw [run_bind_done hstep _ hrun2]
                simp only [afterSend, afterHsk, hm, Bool.not_false]
              · intro W hv
                have hlw : lineWrites (writesOf (evs ++ [.peeked (firstOf t)])) = [w] := by
                  rw [writesOf_append, writesOf_peeked, hws]
                  simp only [lineWrites, List.nil_append, List.filter_cons, head59_keep w hw59, if_true, List.filter_nil]
                rw [hlw] at hv
                simp only [conf_cons, stepUnit, hsLine, hcond, hkind, Bool.false_eq_true, if_false] at hv
                simpa [hgm, hm, hsid] using hv

/-! ### the start of `exchange` -/

theorem exchange_eq : exchange c fuel = (prepP c).bind fun b =>
    if (!b) = true then finish {} true (some (.proto "prepare-failed")) else (handshake c fuel).bind (afterHsk c fuel) := by
  unfold exchange prepP
  simp only [bind_eq]
  congr

/-- the master's `handshake`: MOTD, our handshake, then the line loop -/
def afterSendM : Except SErr Unit → Proc Result
  | .error e => finish {} true (some e)
  | .ok () => HsP c fuel fuel {}

theorem handshake_bind_master (hm : c.hs.master = true) :
    (handshake c fuel).bind (afterHsk c fuel) =
      (writeLines c.motd).bind fun _ => (sendHandshakeP c []).bind (afterSendM c fuel) := by
  unfold handshake
  simp only [hm, if_true, bind_eq, pure_eq]
  rw [Proc.bind_assoc, Proc.bind_assoc]
  congr
  funext _
  congr
  funext r
  cases r with
  | error e => rfl
  | ok u =>
    cases u
    simp only [afterSendM, HsP]
    rw [Proc.bind_assoc, hm]
    congr
    funext r
    cases r with
    | error e => rfl
    | ok hs =>
      simp only [afterRead, hm, Bool.not_true, Bool.false_eq_true, if_false]
      split <;> rfl

theorem writeLines_emits' (R : Call → Reply → Prop) (ls : List Bytes) :
    Emits R (fun _ ws => ws = ls.map (· ++ [13])) (writeLines ls) := by
  induction ls with
  | nil => exact .ret () rfl
  | cons l ls ih =>
    simp only [writeLines]
    refine .write _ _ (ih.mono ?_)
    intro _ ws h
    simp [h]

theorem prepP_emits : Emits (RA g) (fun b ws => b = true ∧ ws = []) (prepP c) := by
  unfold prepP
  split
  · refine .call _ _ (fun r hr => ?_)
    have hne : r ≠ .err true := hr.2
    cases r with
    | err a =>
      cases a with
      | true => exact absurd rfl hne
      | false => exact .ret _ ⟨rfl, rfl⟩
    | _ => exact .ret _ ⟨rfl, rfl⟩
  · exact .ret _ ⟨rfl, rfl⟩

theorem start_append (hm : g.master = true) (A A' W : List Bytes) (h : start g A = .next (.hs false) A') :
    start g (A ++ W) = .next (.hs false) (A' ++ W) := by
  simp only [start, hm, if_true] at h ⊢
  induction A with
  | nil => simp at h
  | cons a A ih =>
    simp only [List.cons_append, List.dropWhile_cons] at h ⊢
    by_cases hp : endsPrompt a = true
    · simp only [hp, Bool.not_true, Bool.false_eq_true, if_false, Step.next.injEq, true_and] at h ⊢
      rw [h]
    · have hp : endsPrompt a = false := by simpa using hp
      simp only [hp, Bool.not_false, if_true] at h ⊢
      exact ih h

theorem good_exchange_slave (hR : ∀ h c, RA g c (hstep h c).2) (hm : c.hs.master = false) (hgm : g.master = c.hs.master)
    (hsec : g.secure = true → c.hs.hasCb = true) (tail : Bytes)
    (hO : ∀ script, GOurs hstep c fuel g tail script) (hT : ∀ script, GTheirs hstep c fuel g tail script)
    (script : List RUnit) (hlen : (render script ++ tail).length < fuel) :
    Good g hstep (start g) (exchange c fuel) script tail := by
  apply Good.of_run
  intro h
  obtain ⟨b, h', evs, hrun, hb, hws⟩ := run_emits hstep hR (prepP_emits c g) (render script ++ tail) h []
  subst hb
  refine ⟨fun W => .next (.hs false) W, script, HsP c fuel fuel {}, h', evs ++ [], ?_,
    good_hs hstep c fuel g hR hgm hsec tail hO hT script fuel {} (fun hx => absurd rfl hx) hlen, ?_⟩
  · rw [exchange_eq, run_bind_done hstep _ hrun]
    simp only [Bool.not_true, Bool.false_eq_true, if_false]
    rw [handshake_bind_slave c fuel hm]
  · intro W hv
    rw [List.append_nil, hws] at hv
    have hg : g.master = false := by rw [hgm, hm]
    simpa [start, hg, lineWrites] using hv

theorem good_exchange_master (hR : ∀ h c, RA g c (hstep h c).2) (hh : HsOK c) (hm : c.hs.master = true)
    (hgm : g.master = c.hs.master) (hsec : g.secure = true → c.hs.hasCb = true) (tail : Bytes)
    (hO : ∀ script, GOurs hstep c fuel g tail script) (hT : ∀ script, GTheirs hstep c fuel g tail script)
    (script : List RUnit) (hlen : (render script ++ tail).length < fuel) :
    Good g hstep (start g) (exchange c fuel) script tail := by
  apply Good.of_run
  intro h
  obtain ⟨b, h1, evs1, hrun1, hb, hws1⟩ := run_emits hstep hR (prepP_emits c g) (render script ++ tail) h []
  subst hb
  obtain ⟨u, h2, evs2, hrun2, hws2⟩ :=
    run_emits hstep hR (writeLines_emits' (RA g) c.motd) (render script ++ tail) h1 (evs1 ++ [])
  obtain ⟨r, h3, evs3, hrun3, hq⟩ :=
    run_emits hstep hR (sendHandshakeP_emits g c [] (fun hx => absurd rfl hx)) (render script ++ tail) h2 (evs2 ++ (evs1 ++ []))
  obtain ⟨rfl, w, hws3, hw59, hwp⟩ := hq
  refine ⟨fun W => .next (.hs false) W, script, HsP c fuel fuel {}, h3, evs3 ++ (evs2 ++ (evs1 ++ [])), ?_,
    good_hs hstep c fuel g hR hgm hsec tail hO hT script fuel {} (fun hx => absurd rfl hx) hlen, ?_⟩
  · rw [exchange_eq, run_bind_done hstep _ hrun1]
    simp only [Bool.not_true, Bool.false_eq_true, if_false]
    rw [handshake_bind_master c fuel hm, run_bind_done hstep _ hrun2, run_bind_done hstep _ hrun3]
    rfl
  · intro W hv
    have hg : g.master = true := by rw [hgm, hm]
    have hw : writesOf (evs3 ++ (evs2 ++ (evs1 ++ []))) = c.motd.map (· ++ [13]) ++ [w] ++ [] := by
      simp only [writesOf_append, hws1, hws2, hws3, List.nil_append, List.append_nil]
    rw [hw, start_append g hg _ _ W (master_start g hg c.motd hh.motd w hw59 (hwp hm) [])] at hv
    simpa [lineWrites] using hv

/-- **the handshake phase**: from the start of `exchange` to the first turn -/
theorem good_exchange {H : Type} (hstep : H → Call → H × Reply) (c : Cfg) (fuel : Nat) (g : InCfg)
    (hR : ∀ h c, RA g c (hstep h c).2) (hh : HsOK c) (hgm : g.master = c.hs.master)
    (hsec : g.secure = true → c.hs.hasCb = true) (tail : Bytes)
    (hO : ∀ script, GOurs hstep c fuel g tail script) (hT : ∀ script, GTheirs hstep c fuel g tail script)
    (script : List RUnit) (hlen : (render script ++ tail).length < fuel) :
    Good g hstep (start g) (exchange c fuel) script tail := by
  cases hm : c.hs.master with
  | false => exact good_exchange_slave hstep c fuel g hR hm hgm hsec tail hO hT script hlen
  | true => exact good_exchange_master hstep c fuel g hR hh hm hgm hsec tail hO hT script hlen

end good

end Wl2k.B2F
