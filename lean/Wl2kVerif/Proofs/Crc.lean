import Wl2kVerif.Props.C07
/-
Helper lemmas for the CRC theorems (C07 `crc_eq_xmodem`, C04 `adjacent_pair_caught`).

The table-driven "augmented" CRC of `lzhuf/crc.go` (`udpCRC16`, two zero bytes appended) is related
to the bit-serial CRC-16/XMODEM register through one algebraic fact: on 16-bit states

    udpCRC16 b s = bit8 s ^^^ b            (`udp_eq_bit8`)

where `bit8` is eight steps of the bit-serial register (`xmodemBit`), i.e. multiplication by x^8
modulo the generator. `xmodemBit` is linear over `^^^` (`xmodemBit_xor`) and has trivial kernel on
16-bit values (`xmodemBit_eq_zero`); everything else follows from these.
-/
namespace Wl2k.Crc
open Wl2k Wl2k.Lzhuf Wl2k.Props.C07

/-! ### xor algebra on `Nat` -/

theorem xor_left_comm (a b c : Nat) : a ^^^ (b ^^^ c) = b ^^^ (a ^^^ c) := by
  rw [← Nat.xor_assoc, Nat.xor_comm a b, Nat.xor_assoc]

theorem xor_cancel_left (a b : Nat) : a ^^^ (a ^^^ b) = b := by
  rw [← Nat.xor_assoc, Nat.xor_self, Nat.zero_xor]

theorem xor_eq_zero_iff (a b : Nat) : a ^^^ b = 0 ↔ a = b := by
  constructor
  · intro h
    have : a ^^^ (a ^^^ b) = a ^^^ 0 := by rw [h]
    rw [xor_cancel_left, Nat.xor_zero] at this
    exact this.symm
  · rintro rfl; exact Nat.xor_self a

theorem and_two_pow (s k : Nat) : s &&& 2 ^ k = if s.testBit k then 2 ^ k else 0 := by
  apply Nat.eq_of_testBit_eq; intro i
  rw [Nat.testBit_and, Nat.testBit_two_pow]
  by_cases hi : k = i
  · subst hi; cases hs : s.testBit k <;> simp
  · cases hs : s.testBit k <;> simp [hi]

/-! ### the bit-serial register -/

theorem xmodemBit_eq (s : Nat) :
    xmodemBit s = ((s <<< 1) ^^^ (if s.testBit 15 then 0x1021 else 0)) % 65536 := by
  unfold xmodemBit
  rw [show (0x8000 : Nat) = 2 ^ 15 from rfl, and_two_pow]
  cases s.testBit 15 <;> simp

theorem xmodemBit_lt (s : Nat) : xmodemBit s < 65536 := by
  rw [xmodemBit_eq]; exact Nat.mod_lt _ (by decide)

/-- One register step is linear over xor (it is multiplication by x modulo the generator). -/
theorem xmodemBit_xor (a b : Nat) : xmodemBit (a ^^^ b) = xmodemBit a ^^^ xmodemBit b := by
  have h : (65536 : Nat) = 2 ^ 16 := by decide
  simp only [xmodemBit_eq, h, ← Nat.xor_mod_two_pow, Nat.testBit_xor, Nat.shiftLeft_xor_distrib]
  congr 1
  cases a.testBit 15 <;> cases b.testBit 15 <;>
    simp [Nat.xor_assoc, Nat.xor_comm, xor_left_comm]

theorem xmodemBit_zero : xmodemBit 0 = 0 := by decide

/-- Below bit 15 a register step is a plain doubling. -/
theorem xmodemBit_small (c : Nat) (h : c < 32768) : xmodemBit c = 2 * c := by
  rw [xmodemBit_eq, Nat.testBit_lt_two_pow (i := 15) (by simpa using h)]
  simp only [Bool.false_eq_true, if_false, Nat.xor_zero, Nat.shiftLeft_eq]
  omega

/-- The register step has trivial kernel on 16-bit values: the generator 0x11021 has constant
term 1, so x is invertible modulo it. -/
theorem xmodemBit_eq_zero (s : Nat) (hs : s < 65536) (h : xmodemBit s = 0) : s = 0 := by
  cases hb : s.testBit 15
  · have hlt : s < 32768 := by
      apply Decidable.byContradiction; intro hge
      have : s.testBit 15 = true :=
        Nat.testBit_of_two_pow_le_and_two_pow_add_one_gt (n := s) (i := 15) (by omega) (by omega)
      rw [hb] at this; cases this
    rw [xmodemBit_small s hlt] at h; omega
  · exfalso
    rw [xmodemBit_eq, hb] at h
    have h0 : (((s <<< 1) ^^^ 0x1021) % 65536).testBit 0 = true := by
      rw [show (65536 : Nat) = 2 ^ 16 from rfl, Nat.testBit_mod_two_pow, Nat.testBit_xor,
        Nat.testBit_shiftLeft]
      simp
    simp only [if_true] at h
    rw [h] at h0; simp at h0

/-- eight register steps: multiplication by x^8 modulo the generator -/
def bit8 (s : Nat) : Nat :=
  xmodemBit (xmodemBit (xmodemBit (xmodemBit (xmodemBit (xmodemBit (xmodemBit (xmodemBit s)))))))

theorem xmodemByte_eq (i : Nat) : xmodemByte i = bit8 (i <<< 8) := rfl

theorem bit8_lt (s : Nat) : bit8 s < 65536 := xmodemBit_lt _

theorem bit8_xor (a b : Nat) : bit8 (a ^^^ b) = bit8 a ^^^ bit8 b := by
  simp only [bit8, xmodemBit_xor]

theorem bit8_zero : bit8 0 = 0 := by decide

theorem bit8_byte : ∀ l, l < 256 → bit8 l = l * 256 := by decide +kernel

theorem bit8_eq_zero (s : Nat) (hs : s < 65536) (h : bit8 s = 0) : s = 0 := by
  unfold bit8 at h
  iterate 7 replace h := xmodemBit_eq_zero _ (xmodemBit_lt _) h
  exact xmodemBit_eq_zero _ hs h

theorem bit8_inj (a b : Nat) (ha : a < 65536) (hb : b < 65536) (h : bit8 a = bit8 b) : a = b := by
  have : bit8 (a ^^^ b) = 0 := by rw [bit8_xor, h, Nat.xor_self]
  exact (xor_eq_zero_iff a b).1
    (bit8_eq_zero _ (Nat.xor_lt_two_pow (n := 16) ha hb) this)

/-! ### 16-bit states as (high byte, low byte) -/

theorem split16 (s : Nat) : s = ((s >>> 8) <<< 8) ^^^ (s % 256) := by
  apply Nat.eq_of_testBit_eq; intro i
  rw [show (256 : Nat) = 2 ^ 8 from rfl, Nat.testBit_xor, Nat.testBit_shiftLeft, Nat.testBit_shiftRight,
    Nat.testBit_mod_two_pow]
  by_cases hi : i < 8
  · simp [hi, Nat.not_le.2 hi]
  · have : 8 + (i - 8) = i := by omega
    simp [hi, Nat.not_lt.1 hi, this]

theorem shl_and_ff00 (s : Nat) : (s <<< 8) &&& 0xff00 = (s % 256) <<< 8 := by
  apply Nat.eq_of_testBit_eq; intro i
  rw [show (0xff00 : Nat) = (2 ^ 8 - 1) <<< 8 from rfl, show (256 : Nat) = 2 ^ 8 from rfl,
    Nat.testBit_and, Nat.testBit_shiftLeft, Nat.testBit_shiftLeft, Nat.testBit_shiftLeft,
    Nat.testBit_two_pow_sub_one, Nat.testBit_mod_two_pow]
  cases decide (i ≥ 8) <;> cases decide (i - 8 < 8) <;> simp

theorem shr_and_ff (s : Nat) (hs : s < 65536) : (s >>> 8) &&& 0xff = s >>> 8 := by
  rw [show (0xff : Nat) = 2 ^ 8 - 1 from rfl, Nat.and_two_pow_sub_one_eq_mod, Nat.shiftRight_eq_div_pow]
  exact Nat.mod_eq_of_lt (by omega)

/-- the regenerated table, through `C07.crc16tab_eq_bitwise` -/
theorem tbl_eq (i : Nat) (h : i < 256) : tbl Gen.crc16tab i = bit8 (i <<< 8) :=
  crc16tab_eq_bitwise.2 i h

/-- **The table-driven augmented step is "multiply by x^8, add the byte"**: the table lookup handles
the high byte, and the low byte cannot reach bit 15 within eight shifts. -/
theorem udp_eq_bit8 (b s : Nat) (hs : s < 65536) : udpCRC16 b s = bit8 s ^^^ b := by
  unfold udpCRC16
  have hh : s >>> 8 < 256 := by rw [Nat.shiftRight_eq_div_pow]; omega
  have hl : s % 256 < 256 := Nat.mod_lt _ (by decide)
  rw [shr_and_ff s hs, tbl_eq _ hh, shl_and_ff00]
  conv => rhs; rw [split16 s, bit8_xor, bit8_byte _ hl]
  rw [Nat.shiftLeft_eq, Nat.xor_comm (s % 256 * 2 ^ 8)]

theorem udp_lt (b : UInt8) (s : Nat) (hs : s < 65536) : udpCRC16 b.toNat s < 65536 := by
  rw [udp_eq_bit8 _ _ hs]
  exact Nat.xor_lt_two_pow (n := 16) (bit8_lt s) (by have := b.toNat_lt; omega)

/-! ### the bit-serial specification -/

/-- CRC-16/XMODEM, one message byte: xor it into the high byte, then eight register steps. -/
def xmodemStep (s : Nat) (b : UInt8) : Nat :=
  (List.range 8).foldl (fun s _ => xmodemBit s) (s ^^^ (b.toNat <<< 8))

/-- the register after the bytes `p`, started at `s` -/
def xmodemFrom (s : Nat) (p : Bytes) : Nat := p.foldl xmodemStep s

/-- **CRC-16/XMODEM** (polynomial 0x1021, initial value 0, MSB first, no reflection, no final xor),
bit-serial definition. -/
def xmodem (p : Bytes) : Nat := xmodemFrom 0 p

theorem xmodemStep_eq (s : Nat) (b : UInt8) : xmodemStep s b = bit8 (s ^^^ (b.toNat <<< 8)) := rfl

theorem xmodemFrom_nil (s : Nat) : xmodemFrom s [] = s := rfl
theorem xmodemFrom_cons (s : Nat) (b : UInt8) (t : Bytes) :
    xmodemFrom s (b :: t) = xmodemFrom (xmodemStep s b) t := rfl
theorem xmodemFrom_append (s : Nat) (p q : Bytes) :
    xmodemFrom s (p ++ q) = xmodemFrom (xmodemFrom s p) q := by
  simp [xmodemFrom, List.foldl_append]

theorem xmodemStep_lt (s : Nat) (b : UInt8) : xmodemStep s b < 65536 := bit8_lt _

theorem xmodemFrom_lt (s : Nat) (hs : s < 65536) (p : Bytes) : xmodemFrom s p < 65536 := by
  induction p generalizing s with
  | nil => exact hs
  | cons b t ih => exact ih _ (xmodemStep_lt s b)

/-- the table-driven register after the bytes `p`, started at `s` -/
def augFrom (s : Nat) (p : Bytes) : Nat := p.foldl (fun s b => udpCRC16 b.toNat s) s

theorem crc_def (p : Bytes) : crc p = udpCRC16 0 (udpCRC16 0 (augFrom 0 p)) := rfl

theorem byte_shl (b : UInt8) : bit8 b.toNat = b.toNat <<< 8 := by
  rw [bit8_byte _ b.toNat_lt, Nat.shiftLeft_eq]

/-- Flushing the augmented register with two zero bytes gives the direct register started from the
flushed initial state — for every table-driven state and every byte string. -/
theorem aug_flush_eq (p : Bytes) : ∀ s, s < 65536 →
    udpCRC16 0 (udpCRC16 0 (augFrom s p)) = xmodemFrom (bit8 (bit8 s)) p := by
  induction p with
  | nil =>
    intro s hs
    have h1 : udpCRC16 0 s < 65536 := udp_lt 0 s hs
    rw [show augFrom s [] = s from rfl, udp_eq_bit8 _ _ h1, udp_eq_bit8 _ _ hs]
    simp [xmodemFrom_nil]
  | cons b t ih =>
    intro s hs
    rw [show augFrom s (b :: t) = augFrom (udpCRC16 b.toNat s) t from rfl, ih _ (udp_lt b s hs),
      xmodemFrom_cons, udp_eq_bit8 _ _ hs, xmodemStep_eq, bit8_xor, bit8_xor, bit8_xor, byte_shl]

theorem crc_eq_xmodem (p : Bytes) : crc p = xmodem p := by
  rw [crc_def, aug_flush_eq p 0 (by decide), bit8_zero, bit8_zero]; rfl

/-! ### linearity -/

theorem xmodemStep_xor (s t : Nat) (b c : UInt8) :
    xmodemStep (s ^^^ t) (b ^^^ c) = xmodemStep s b ^^^ xmodemStep t c := by
  simp only [xmodemStep_eq, UInt8.toNat_xor, Nat.shiftLeft_xor_distrib, bit8_xor]
  simp only [Nat.xor_assoc, xor_left_comm (bit8 t)]

theorem xmodemFrom_xor (p : Bytes) : ∀ (q : Bytes) (s t : Nat), p.length = q.length →
    xmodemFrom (s ^^^ t) (List.zipWith (· ^^^ ·) p q) = xmodemFrom s p ^^^ xmodemFrom t q := by
  induction p with
  | nil => intro q s t h; cases q with
    | nil => rfl
    | cons _ _ => cases h
  | cons b p ih => intro q s t h; cases q with
    | nil => cases h
    | cons c q =>
      simp only [List.zipWith_cons_cons, xmodemFrom_cons, xmodemStep_xor]
      exact ih q _ _ (by simpa using h)

theorem xmodem_xor (p q : Bytes) (h : p.length = q.length) :
    xmodem (List.zipWith (· ^^^ ·) p q) = xmodem p ^^^ xmodem q := by
  have := xmodemFrom_xor p q 0 0 h
  simpa [xmodem] using this

/-! ### injectivity in the state, and two-byte bursts -/

theorem byte_shl_lt (b : UInt8) : b.toNat <<< 8 < 65536 := by
  have := b.toNat_lt; rw [Nat.shiftLeft_eq]; omega

theorem xor_right_cancel (a b c : Nat) (h : a ^^^ c = b ^^^ c) : a = b := by
  have : (a ^^^ c) ^^^ c = (b ^^^ c) ^^^ c := by rw [h]
  simpa [Nat.xor_assoc] using this

theorem xmodemStep_inj (s t : Nat) (b : UInt8) (hs : s < 65536) (ht : t < 65536)
    (h : xmodemStep s b = xmodemStep t b) : s = t := by
  rw [xmodemStep_eq, xmodemStep_eq] at h
  exact xor_right_cancel _ _ _ (bit8_inj _ _ (Nat.xor_lt_two_pow (n := 16) hs (byte_shl_lt b))
    (Nat.xor_lt_two_pow (n := 16) ht (byte_shl_lt b)) h)

/-- Appending the same bytes never merges two different 16-bit register states. -/
theorem xmodemFrom_inj (p : Bytes) : ∀ s t, s < 65536 → t < 65536 →
    xmodemFrom s p = xmodemFrom t p → s = t := by
  induction p with
  | nil => intro s t _ _ h; exact h
  | cons b p ih =>
    intro s t hs ht h
    exact xmodemStep_inj s t b hs ht (ih _ _ (xmodemStep_lt s b) (xmodemStep_lt t b) h)

theorem pair_inj (a1 a2 b1 b2 : UInt8)
    (h : (a1.toNat <<< 8) ^^^ a2.toNat = (b1.toNat <<< 8) ^^^ b2.toNat) : a1 = b1 ∧ a2 = b2 := by
  have hlo := congrArg (· % 2 ^ 8) h
  have hhi := congrArg (· >>> 8) h
  simp only [Nat.xor_mod_two_pow, Nat.shiftRight_xor_distrib, Nat.shiftLeft_shiftRight] at hlo hhi
  have e1 : ∀ x : UInt8, x.toNat <<< 8 % 2 ^ 8 = 0 := by
    intro x; rw [Nat.shiftLeft_eq]; omega
  have e2 : ∀ x : UInt8, x.toNat % 2 ^ 8 = x.toNat := fun x => Nat.mod_eq_of_lt x.toNat_lt
  have e3 : ∀ x : UInt8, x.toNat >>> 8 = 0 := by
    intro x; rw [Nat.shiftRight_eq_div_pow]; have := x.toNat_lt; omega
  simp only [e1, e2, e3, Nat.zero_xor, Nat.xor_zero] at hlo hhi
  exact ⟨UInt8.toNat_inj.1 hhi, UInt8.toNat_inj.1 hlo⟩

theorem two_bytes_from (s : Nat) (a1 a2 : UInt8) :
    xmodemFrom s [a1, a2] = bit8 (bit8 (s ^^^ ((a1.toNat <<< 8) ^^^ a2.toNat))) := by
  simp only [xmodemFrom_cons, xmodemFrom_nil, xmodemStep_eq, bit8_xor, byte_shl, Nat.xor_assoc]

theorem burst16_caught (pre post : Bytes) (a1 a2 b1 b2 : UInt8) (h : ¬ (a1 = b1 ∧ a2 = b2)) :
    xmodem (pre ++ a1 :: a2 :: post) ≠ xmodem (pre ++ b1 :: b2 :: post) := by
  intro heq
  apply h
  have hs0 : xmodemFrom 0 pre < 65536 := xmodemFrom_lt 0 (by decide) pre
  simp only [xmodem, xmodemFrom_append] at heq
  rw [show a1 :: a2 :: post = [a1, a2] ++ post from rfl,
    show b1 :: b2 :: post = [b1, b2] ++ post from rfl, xmodemFrom_append, xmodemFrom_append] at heq
  have h2 := xmodemFrom_inj post _ _ (xmodemFrom_lt _ hs0 _) (xmodemFrom_lt _ hs0 _) heq
  rw [two_bytes_from, two_bytes_from] at h2
  have lt16 : ∀ x y : UInt8, (x.toNat <<< 8) ^^^ y.toNat < 65536 := fun x y =>
    Nat.xor_lt_two_pow (n := 16) (byte_shl_lt x) (by have := y.toNat_lt; omega)
  have h3 := bit8_inj _ _ (bit8_lt _) (bit8_lt _) h2
  have h4 := bit8_inj _ _ (Nat.xor_lt_two_pow (n := 16) hs0 (lt16 a1 a2))
    (Nat.xor_lt_two_pow (n := 16) hs0 (lt16 b1 b2)) h3
  apply pair_inj
  rw [Nat.xor_comm _ (_ ^^^ _), Nat.xor_comm (xmodemFrom 0 pre)] at h4
  exact xor_right_cancel _ _ _ h4


theorem single_caught (pre post : Bytes) (a b : UInt8) (h : a ≠ b) :
    xmodem (pre ++ a :: post) ≠ xmodem (pre ++ b :: post) := by
  intro heq
  apply h
  have hs0 : xmodemFrom 0 pre < 65536 := xmodemFrom_lt 0 (by decide) pre
  simp only [xmodem, xmodemFrom_append, xmodemFrom_cons] at heq
  have h2 := xmodemFrom_inj post _ _ (xmodemStep_lt _ a) (xmodemStep_lt _ b) heq
  rw [xmodemStep_eq, xmodemStep_eq] at h2
  have h3 := bit8_inj _ _ (Nat.xor_lt_two_pow (n := 16) hs0 (byte_shl_lt a))
    (Nat.xor_lt_two_pow (n := 16) hs0 (byte_shl_lt b)) h2
  rw [Nat.xor_comm _ (a.toNat <<< 8), Nat.xor_comm _ (b.toNat <<< 8)] at h3
  have h4 := xor_right_cancel _ _ _ h3
  rw [Nat.shiftLeft_eq, Nat.shiftLeft_eq] at h4
  exact UInt8.toNat_inj.1 (by omega)

theorem split_pair (d : Bytes) (i : Nat) (h : i + 1 < d.length) :
    d = d.take i ++ d[i] :: d[i + 1] :: d.drop (i + 2) := by
  induction i generalizing d with
  | zero =>
    match d, h with
    | a :: b :: t, _ => simp
  | succ i ih =>
    match d, h with
    | a :: t, h =>
      have := ih t (by simpa using h)
      simp only [List.take_succ_cons, List.cons_append, List.getElem_cons_succ, List.drop_succ_cons]
      exact congrArg _ this

theorem set_pair (pre post : Bytes) (a1 a2 x y : UInt8) :
    ((pre ++ a1 :: a2 :: post).set pre.length x).set (pre.length + 1) y = pre ++ x :: y :: post := by
  induction pre with
  | nil => simp
  | cons c pre ih => simp only [List.cons_append, List.length_cons, List.set_cons_succ, ih]

theorem add_ne_self (a δ : UInt8) (h : δ ≠ 0) : a + δ ≠ a :=
  fun h' => h (UInt8.add_eq_left.1 h')

theorem adjacent_pair_caught (d : Bytes) (i : Nat) (h : i + 1 < d.length) (δ : UInt8) (hδ : δ ≠ 0) :
    xmodem ((d.set i (d[i] + δ)).set (i + 1) (d[i + 1] - δ)) ≠ xmodem d := by
  have hd := split_pair d i h
  have hlen : (d.take i).length = i := by simp; omega
  generalize d[i] = a1 at hd ⊢
  generalize d[i + 1] = a2 at hd ⊢
  rw [hd]
  have := set_pair (d.take i) (d.drop (i + 2)) a1 a2 (a1 + δ) (a2 - δ)
  rw [hlen] at this
  rw [this]
  exact burst16_caught _ _ _ _ _ _ (fun h' => add_ne_self a1 δ hδ h'.1)
end Wl2k.Crc
