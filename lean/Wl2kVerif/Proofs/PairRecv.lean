import Wl2kVerif.Proofs.PairSend
/-
Forward simulation of the receiver's turn (`handleInbound` and what follows it) at the level of
`Proc.run`, on ANY prefix of what the sender writes.
-/
namespace Wl2k.B2F
open Wl2k Wl2k.Fmt Wl2k.Str Wl2k.Strconv

variable {H : Type} (hstep : H → Call → H × Reply)

/-- what `turns` does with the result of `handleInbound`: on an error the session ends through `finish`
(which echoes "*** …" unless the connection is lost); otherwise it goes on (`kOK`: the receiver's own turn) -/
def afterInbound (kOK : Bool → SState → Proc Result) : Bool × SState × Option SErr → Proc Result
  | (_, st, some e) => finish st false (some e)
  | (q, st, none) => kOK q st

theorem sb_stars : sb "*** " = [42, 42, 42, 32] := by decide +kernel

/-- what `finish` writes after an error: nothing, or something starting with '*' -/
theorem run_finish_err (st : SState) (e : SErr) (J : Bytes) (h : H) (tr : List Ev) :
    ∃ evs, (Proc.run hstep (finish st false (some e)) J h tr).2.2.2 = evs ++ tr ∧
      (outBytes evs = [] ∨ ∃ t, outBytes evs = 42 :: t) := by
  cases e with
  | eof => exact ⟨[], rfl, Or.inl rfl⟩
  | remote m => exact ⟨[.wrote (sb "*** " ++ m ++ [13, 10])], rfl, Or.inr ⟨42 :: 42 :: 32 :: (m ++ [13, 10]), by simp [outBytes, sb_stars]⟩⟩
  | proto w => exact ⟨[.wrote (sb "*** " ++ strBytes w ++ [13, 10])], rfl, Or.inr ⟨42 :: 42 :: 32 :: (strBytes w ++ [13, 10]), by simp [outBytes, sb_stars]⟩⟩

/-- events of a fetch loop are `parseMessage` / `processInbound` calls: they write nothing -/
theorem fetch_evs_silent (evs : List Ev) (h : ∀ e ∈ evs, FetchAlpha e.node) : outBytes evs = [] := by
  induction evs with
  | nil => rfl
  | cons e t ih =>
    have ht := ih (fun x hx => h x (by simp [hx]))
    cases e with
    | wrote bs => exact False.elim (h (.wrote bs) List.mem_cons_self)
    | called c => simpa [outBytes] using ht
    | peeked b => simpa [outBytes] using ht

theorem answer_evs_silent (evs : List Ev) (h : ∀ e ∈ evs, e.isAnswerCall = true) : outBytes evs = [] := by
  induction evs with
  | nil => rfl
  | cons e t ih =>
    have ht := ih (fun x hx => h x (by simp [hx]))
    cases e with
    | wrote bs => have := h _ (List.mem_cons_self); simp [Ev.isAnswerCall] at this
    | called c => simpa [outBytes] using ht
    | peeked b => have := h _ (List.mem_cons_self); simp [Ev.isAnswerCall] at this

theorem deliverEvs_silent (ds : List Bytes) : outBytes (deliverEvs ds) = [] := by
  induction ds with
  | nil => rfl
  | cons d ds ih => rw [deliverEvs_cons, outBytes_append, ih]; simp [outBytes]

/-- **The receiver's turn on any prefix `J` of what the sender writes** (`blockOut block`, then `R`).
Either nothing at all happens (the block did not arrive completely: connection lost, no event), or the
trace is — latest first — `X` (what follows the turn), `fev` (silent `parseMessage`/`processInbound`
calls), the `FS` line with one plain answer per proposal, the answer calls; and if what arrived after the
block is a prefix of the frames of the accepted proposals, then EITHER every accepted payload was handed
over (`fev = deliverEvs …`) OR what follows writes nothing or starts with '*'. -/
theorem recv_turn_spec (c : Cfg) (fuel : Nat) (st : SState) (kOK : Bool → SState → Proc Result) (block : List Proposal)
    (m : Nat) (hm1 : 1 ≤ m) (hm2 : m ≤ 255) (dataOf : Proposal → Bytes) (R J : Bytes) (h : H) (tr : List Ev)
    (hans : AnswersPlainAt hstep h) (hnb : c.batched = false) (hne : block ≠ [])
    (hline : ∀ p ∈ block, LineOK p ∧ (pl p).length < fuel) (hframe : ∀ p ∈ block, FrameOK fuel dataOf p)
    (hfuel : 5 < fuel) (hbl : block.length < fuel) (hJ : J <+: blockOut block ++ R) :
    (Proc.run hstep ((handleInbound c fuel st).bind (afterInbound kOK)) J h tr).2.2.2 = tr ∨
    ∃ (as : List UInt8) (evs fev X : List Ev) (J2 : Bytes), J = blockOut block ++ J2 ∧ as.length = block.length ∧
      (∀ a ∈ as, PlainAnswer a) ∧ (∀ e ∈ evs, e.isAnswerCall = true) ∧ outBytes fev = [] ∧
      (Proc.run hstep ((handleInbound c fuel st).bind (afterInbound kOK)) J h tr).2.2.2 =
        X ++ (fev ++ .wrote (fsLine as ++ [13]) :: (evs ++ tr)) ∧
      (J2 <+: framesBytes m block as →
        fev = deliverEvs (acceptedData dataOf block as) ∨ outBytes X = [] ∨ ∃ t, outBytes X = 42 :: t) := by
  rw [run_bind]
  unfold handleInbound
  simp only [bind_eq, pure_eq]
  rw [run_bind]
  have hJ' : J <+: blockBytes block ++ (promptLine (blockSum 0 block) ++ R) := by
    simpa [blockOut, List.append_assoc] using hJ
  rcases run_inboundLoop_block hstep c fuel st h tr hfuel block [] 0 fuel hline hbl (by simpa using hne) R J hJ' with
    ⟨J2, rfl, hJ2, hrun⟩ | ⟨_, hrun⟩
  · right
    rw [hrun]
    simp only [answerTail, List.nil_append]
    rw [run_bind]
    obtain ⟨as, evs, a1, a2, a3, a4⟩ := run_writeProposalsAnswer hstep c hnb (block.map recvProp) J2 h hans tr
    rw [a4]
    simp only [Proc.run]
    rw [run_bind]
    have hlen : as.length = block.length := by simpa using a1
    -- the fetch loop
    have htr := run_tr hstep (fetchAll fuel (List.zipWith setAns (block.map recvProp) as) { st with remoteNoMsgs := false }) J2 h
      (.wrote (fsPrefix ++ as ++ [13]) :: (evs ++ tr))
    have hsh := run_shape hstep (fetchAll_shape (E := FetchAlpha) ⟨trivial, fun _ => trivial⟩ (fun _ => rfl) (fun _ => rfl) fuel
      (List.zipWith setAns (block.map recvProp) as) { st with remoteNoMsgs := false }) J2 h [] (by intro e he; cases he)
    generalize hfa0 : Proc.run hstep (fetchAll fuel (List.zipWith setAns (block.map recvProp) as) { st with remoteNoMsgs := false })
      J2 h [] = fa0 at htr hsh
    obtain ⟨res, J3, h3, fev⟩ := fa0
    simp only at htr hsh
    rw [htr]
    have hfev : outBytes fev = [] := fetch_evs_silent fev hsh
    refine ⟨as, evs, fev, ?_⟩
    cases res with
    | panicked s =>
      refine ⟨[], J2, by simp [blockOut], hlen, a2, a3, hfev, by simp [fsLine], fun _ => Or.inr (Or.inl rfl)⟩
    | blocked =>
      refine ⟨[], J2, by simp [blockOut], hlen, a2, a3, hfev, by simp [fsLine], fun _ => Or.inr (Or.inl rfl)⟩
    | done r =>
      obtain ⟨st', e⟩ := r
      simp only [Proc.run]
      cases e with
      | some e =>
        obtain ⟨X, hX, hXo⟩ := run_finish_err hstep st' e J3 h3 (fev ++ .wrote (fsPrefix ++ as ++ [13]) :: (evs ++ tr))
        refine ⟨X, J2, by simp [blockOut], hlen, a2, a3, hfev, by simp only [afterInbound]; rw [hX]; simp [fsLine],
          fun _ => Or.inr hXo⟩
      | none =>
        obtain ⟨X, hX⟩ := run_trace hstep (kOK false st') J3 h3 (fev ++ .wrote (fsPrefix ++ as ++ [13]) :: (evs ++ tr))
        refine ⟨X, J2, by simp [blockOut], hlen, a2, a3, hfev, by simp only [afterInbound]; rw [hX]; simp [fsLine], ?_⟩
        intro hJ2f
        left
        have := (fetchAll_prefix_ok hstep m hm1 hm2 fuel dataOf [] block as hframe { st with remoteNoMsgs := false } J2 h
          (.wrote (fsPrefix ++ as ++ [13]) :: (evs ++ tr)) (by simpa using hJ2f) st' J3 h3
          (fev ++ .wrote (fsPrefix ++ as ++ [13]) :: (evs ++ tr)) (by rw [htr])).1
        exact List.append_cancel_right this
  · left
    rw [hrun]
    simp [Proc.run, afterInbound, finish]

/-! ### the complete turn (nothing cut) -/

/-- alphabet: no input is consumed -/
def NoInput : Node → Prop
  | .read => False
  | .peek => False
  | _ => True

/-- a program that reads nothing behaves the same on every input and leaves it alone -/
theorem run_noinput {α : Type} {p : Proc α} (hp : Shape NoInput p) : ∀ (J : Bytes) (h : H) (tr : List Ev),
    Proc.run hstep p J h tr =
      ((Proc.run hstep p [] h []).1, J, (Proc.run hstep p [] h []).2.2.1, (Proc.run hstep p [] h []).2.2.2 ++ tr) := by
  induction hp with
  | ret a => intro J h tr; rfl
  | readByte k hk _ _ => exact hk.elim
  | peek k hk _ _ => exact hk.elim
  | write bs k _ _ ih =>
    intro J h tr
    simp only [Proc.run]
    rw [ih J h (.wrote bs :: tr), ih [] h [.wrote bs]]
    simp
  | call c k _ _ ih =>
    intro J h tr
    simp only [Proc.run]
    rw [ih _ J _ (.called c :: tr), ih _ [] _ [.called c]]
    simp
  | panic s _ => intro J h tr; rfl

theorem writeProposalsAnswer_noinput (c : Cfg) (hnb : c.batched = false) (props : List Proposal) :
    Shape NoInput (writeProposalsAnswer c props) := by
  unfold writeProposalsAnswer
  simp only [bind_eq, pure_eq, hnb, Bool.false_eq_true, false_and, if_false]
  exact Shape.bind (askEach_shape (E := NoInput) (fun _ => trivial) _ _) (fun ps' => Shape.write _ _ trivial (Shape.ret _))

/-- the answers the (unbatched) handler in state `h` gives to `props` -/
def answersOf (c : Cfg) (h : H) (props : List Proposal) : List UInt8 :=
  match (Proc.run hstep (writeProposalsAnswer c props) [] h []).1 with
  | .done ps' => ps'.map (·.answer)
  | _ => []

/-- `writeProposalsAnswer` with the answers named -/
theorem run_writeProposalsAnswer_canon (c : Cfg) (hnb : c.batched = false) (props : List Proposal) (h : H)
    (hans : AnswersPlainAt hstep h) :
    (answersOf hstep c h props).length = props.length ∧ (∀ a ∈ answersOf hstep c h props, PlainAnswer a) ∧
    ∃ evs : List Ev, (∀ e ∈ evs, e.isAnswerCall = true) ∧ ∀ (J : Bytes) (tr : List Ev),
      Proc.run hstep (writeProposalsAnswer c props) J h tr =
        (.done (List.zipWith setAns props (answersOf hstep c h props)), J, h,
          .wrote (fsPrefix ++ answersOf hstep c h props ++ [13]) :: (evs ++ tr)) := by
  obtain ⟨as, evs, a1, a2, a3, a4⟩ := run_writeProposalsAnswer hstep c hnb props [] h hans []
  have has : answersOf hstep c h props = as := by
    unfold answersOf
    rw [a4]
    exact map_answer_zip props as a1
  rw [has]
  refine ⟨a1, a2, evs, a3, ?_⟩
  intro J tr
  rw [run_noinput hstep (writeProposalsAnswer_noinput c hnb props) J h tr, a4]
  simp

/-- **The receiver's turn on the complete block and the complete frames of what it accepted**, when its
handler reports no error: it answers, hands over every accepted payload exactly once, in order, and goes on
(`kOK`) with exactly what follows the frames. -/
theorem recv_turn_complete (c : Cfg) (fuel : Nat) (st : SState) (kOK : Bool → SState → Proc Result) (block : List Proposal)
    (m : Nat) (hm1 : 1 ≤ m) (hm2 : m ≤ 255) (dataOf : Proposal → Bytes) (h : H)
    (hans : AnswersPlainAt hstep h) (hnb : c.batched = false) (hne : block ≠ [])
    (hline : ∀ p ∈ block, LineOK p ∧ (pl p).length < fuel) (hframe : ∀ p ∈ block, FrameOK fuel dataOf p)
    (hfuel : 5 < fuel) (hbl : block.length < fuel)
    (hall : AllOK hstep h (acceptedData dataOf block (answersOf hstep c h (block.map recvProp)))) :
    ∃ evs : List Ev, (∀ e ∈ evs, e.isAnswerCall = true) ∧ ∀ (rest : Bytes) (tr : List Ev),
      Proc.run hstep ((handleInbound c fuel st).bind (afterInbound kOK))
          (blockOut block ++ (framesBytes m block (answersOf hstep c h (block.map recvProp)) ++ rest)) h tr =
        Proc.run hstep
          (kOK false { st with remoteNoMsgs := false,
                               received := st.received ++ acceptedMids block (answersOf hstep c h (block.map recvProp)) })
          rest ((acceptedData dataOf block (answersOf hstep c h (block.map recvProp))).foldl (deliverStep hstep) h)
          (deliverEvs (acceptedData dataOf block (answersOf hstep c h (block.map recvProp))) ++
            .wrote (fsLine (answersOf hstep c h (block.map recvProp)) ++ [13]) :: (evs ++ tr)) := by
  obtain ⟨_, _, evs, hev, hrun⟩ := run_writeProposalsAnswer_canon hstep c hnb (block.map recvProp) h hans
  refine ⟨evs, hev, ?_⟩
  intro rest tr
  generalize answersOf hstep c h (block.map recvProp) = as at hall hrun ⊢
  rw [run_bind]
  unfold handleInbound
  simp only [bind_eq, pure_eq]
  rw [run_bind]
  have hJ : blockOut block ++ (framesBytes m block as ++ rest) <+:
      blockBytes block ++ (promptLine (blockSum 0 block) ++ (framesBytes m block as ++ rest)) := by
    simp [blockOut, List.append_assoc]
  rcases run_inboundLoop_block hstep c fuel st h tr hfuel block [] 0 fuel hline hbl (by simpa using hne)
    (framesBytes m block as ++ rest) _ hJ with ⟨J2, hJ2eq, _, hrun1⟩ | ⟨hlt, _⟩
  · have : J2 = framesBytes m block as ++ rest := by
      have := hJ2eq
      simp only [blockOut, List.append_assoc] at this
      exact ((List.append_cancel_left (List.append_cancel_left this)).symm)
    subst this
    rw [hrun1]
    simp only [answerTail, List.nil_append]
    rw [run_bind, hrun]
    simp only [Proc.run]
    rw [run_bind, fetchAll_run_ok hstep m hm1 hm2 fuel dataOf rest block as hframe _ h _ hall]
    simp [Proc.run, afterInbound, fsLine]
  · simp only [blockOut, List.length_append] at hlt
    omega

end Wl2k.B2F
