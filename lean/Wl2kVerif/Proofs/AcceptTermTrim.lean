import Wl2kVerif.B2F.Wire
/-
A line that `ReadString('\r')` returned ends in CR; `cleanString` removes at least that byte.
(Needed for the exact fuel bound: an inbound turn that succeeds has consumed at least three bytes.)
-/
namespace Wl2k.B2F.AT
open Wl2k Wl2k.Str Wl2k.Utf8

theorem trimLeftU_suffix : ∀ (f : Nat) (s : Bytes), ∃ j, trimLeftU f s = s.drop j := by
  intro f
  induction f with
  | zero => intro s; exact ⟨0, by simp [trimLeftU]⟩
  | succ f ih =>
    intro s
    cases s with
    | nil => exact ⟨0, by simp [trimLeftU]⟩
    | cons a t =>
      unfold trimLeftU
      simp only
      split
      · obtain ⟨j, hj⟩ := ih ((a :: t).drop (max (decodeRune (a :: t)).2 1))
        exact ⟨max (decodeRune (a :: t)).2 1 + j, by rw [hj, List.drop_drop]⟩
      · exact ⟨0, by simp⟩

theorem trimRightU_length_le : ∀ (f : Nat) (s : Bytes), (trimRightU f s).length ≤ s.length := by
  intro f
  induction f with
  | zero => intro s; simp [trimRightU]
  | succ f ih =>
    intro s
    unfold trimRightU
    split
    · exact Nat.le_refl _
    · simp only
      split
      · refine Nat.le_trans (ih _) ?_
        simp only [List.length_take]
        omega
      · exact Nat.le_refl _

theorem decodeLastRune_cr (s : Bytes) (hs : s.getLast? = some 13) : decodeLastRune s = (13, 1) := by
  have hne : s.length ≠ 0 := by
    intro h
    have : s = [] := List.length_eq_zero_iff.mp h
    subst this
    simp at hs
  have hl : s.getD (s.length - 1) 0 = 13 := by
    rw [List.getD_eq_getElem?_getD, ← List.getLast?_eq_getElem?, hs]
    rfl
  unfold decodeLastRune
  simp only [hne, if_false, hl]
  rfl

theorem trimRightU_cr (f : Nat) (s : Bytes) (hs : s.getLast? = some 13) :
    (trimRightU (f + 1) s).length + 1 ≤ s.length := by
  have hne : s ≠ [] := by intro h; subst h; simp at hs
  have hlen : 0 < s.length := List.length_pos_iff.mpr hne
  unfold trimRightU
  have he : s.isEmpty = false := by simpa using hne
  simp only [he, decodeLastRune_cr s hs]
  have : isSpaceRune 13 = true := by decide
  simp only [this, if_true]
  have := trimRightU_length_le f (s.take (s.length - max 1 1))
  simp only [List.length_take] at this
  have h1 : max 1 1 = 1 := rfl
  simp only [Bool.false_eq_true, if_false]
  omega

theorem trimSpaceU_cr (s : Bytes) (hs : s.getLast? = some 13) : (trimSpaceU s).length + 1 ≤ s.length := by
  have hne : s ≠ [] := by intro h; subst h; simp at hs
  have hlen : 0 < s.length := List.length_pos_iff.mpr hne
  unfold trimSpaceU
  obtain ⟨j, hj⟩ := trimLeftU_suffix s.length s
  rw [hj]
  by_cases hjl : j < s.length
  · have hlast : (s.drop j).getLast? = some 13 := by
      rw [List.getLast?_drop]
      simp only [hs]
      split
      · omega
      · rfl
    obtain ⟨f, hf⟩ : ∃ f, s.length = f + 1 := ⟨s.length - 1, by omega⟩
    rw [hf]
    have := trimRightU_cr f (s.drop j) hlast
    simp only [List.length_drop] at this
    omega
  · have : s.drop j = [] := List.drop_eq_nil_of_le (by omega)
    rw [this]
    have := trimRightU_length_le s.length []
    simp only [List.length_nil] at this
    omega

/-- `cleanString` of a CR-terminated line is at least one byte shorter than the line. -/
theorem cleanString_cr (s : Bytes) (hs : s.getLast? = some 13) : (cleanString s).length + 1 ≤ s.length := by
  have := trimSpaceU_cr s hs
  unfold cleanString
  simp only
  generalize trimSpaceU s = t at this ⊢
  split
  · exact this
  · have h1 : (if t.head? = some 0 then t.drop 1 else t).length ≤ t.length := by
      split
      · simp
      · exact Nat.le_refl _
    generalize (if t.head? = some 0 then t.drop 1 else t) = u at h1 ⊢
    split
    · simp only [List.length_dropLast]; omega
    · omega

end Wl2k.B2F.AT
