import Wl2kVerif.Proofs.AcceptLex
import Wl2kVerif.Proofs.AcceptAnswerW
import Wl2kVerif.Proofs.AcceptCut
import Wl2kVerif.Proofs.PairRecv
/-
Acceptance, the REMOTE's turn: `handleInbound` (line loop, our `FS` answer, `fetchAll`) against the
checker states `theirs` / `xfer` of B2F/InGrammar.lean.
-/
namespace Wl2k.B2F
open Wl2k Wl2k.Fmt Wl2k.Str Wl2k.Strconv Wl2k.B2F.InGrammar Wl2k.B2F.Grammar

variable {H : Type} (hstep : H → Call → H × Reply)

theorem run_bind_congr {α β : Type} {p p' : Proc α} (f : α → Proc β) {inp inp' : Bytes} {h h' : H} {tr tr' : List Ev}
    (heq : Proc.run hstep p inp h tr = Proc.run hstep p' inp' h' tr') :
    Proc.run hstep (p.bind f) inp h tr = Proc.run hstep (p'.bind f) inp' h' tr' := by
  rw [run_bind, run_bind, heq]

theorem run_bind_done {α β : Type} {p : Proc α} (f : α → Proc β) {inp inp' : Bytes} {h h' : H} {tr tr' : List Ev} {a : α}
    (heq : Proc.run hstep p inp h tr = (.done a, inp', h', tr')) :
    Proc.run hstep (p.bind f) inp h tr = Proc.run hstep (f a) inp' h' tr' := by
  rw [run_bind, heq]

/-! ### residual programs -/

variable (c : Cfg) (fuel : Nat)

/-- what `handleInbound` + `turns` do with the result of the line loop -/
def afterLoop (st0 : SState) (K : Bool → SState → Proc Result) :
    Except SErr (Bool × List Proposal × SState) → Proc Result
  | .error e => finish st0 false (some e)
  | .ok (quit, props, st) => (fetchAll fuel props st).bind fun r => afterInbound K (quit, r.1, r.2)

/-- the rest of the session from inside the line loop of the remote's turn -/
def TheirP (m : Nat) (props : List Proposal) (sum : Nat) (st st0 : SState) (K : Bool → SState → Proc Result) : Proc Result :=
  (inboundLoop c fuel m props sum st).bind (afterLoop fuel st0 K)

/-- the rest of the session from inside the fetch loop -/
def FetchP (ps : List Proposal) (st : SState) (K : Bool → SState → Proc Result) : Proc Result :=
  (fetchAll fuel ps st).bind fun r => afterInbound K (false, r.1, r.2)

/-- how the session goes on after the remote's turn -/
def Kin (n : Nat) : Bool → SState → Proc Result :=
  fun q st' => restOfSession c fuel n true { st' with quitReceived := q }

theorem recv_eq (n : Nat) (st : SState) (hq : st.quitReceived = false) (hs : st.quitSent = false) :
    restOfSession c fuel (n + 1) false st = TheirP c fuel fuel [] 0 st st (Kin c fuel n) := by
  rw [restOfSession_recv c fuel n st hq hs]
  unfold handleInbound TheirP
  simp only [bind_eq, pure_eq]
  rw [Proc.bind_assoc]
  congr
  funext r
  cases r with
  | error e => rfl
  | ok v =>
    obtain ⟨quit, props, st'⟩ := v
    simp only [afterLoop]
    rw [Proc.bind_assoc]
    rfl

/-! ### line steps -/

theorem inboundLoop_comment (n : Nat) (props : List Proposal) (sum : Nat) (st : SState) (t rest : Bytes)
    (hc : isComment t = true) (hf : t.length < fuel) (h : H) (tr : List Ev) :
    Proc.run hstep (inboundLoop c fuel (n + 1) props sum st) (t ++ 13 :: rest) h tr =
      Proc.run hstep (inboundLoop c fuel n props sum st) rest h tr := by
  unfold isComment at hc
  simp only [Bool.and_eq_true, beq_iff_eq] at hc
  conv => lhs; unfold inboundLoop
  simp only [bind_eq, pure_eq]
  rw [run_bind, run_nextLine_text hstep t rest fuel h tr hc.1 (by rw [hc.2]; decide) hf]
  simp only
  split
  · rfl
  · simp [hc.2]

theorem inboundLoop_FF' (n : Nat) (props : List Proposal) (sum : Nat) (st : SState) (rest : Bytes) (h : H) (tr : List Ev)
    (hf : 2 < fuel) :
    Proc.run hstep (inboundLoop c fuel (n + 1) props sum st) ([70, 70] ++ 13 :: rest) h tr =
      (.done (.ok (false, props, { st with remoteNoMsgs := true })), rest, h, tr) := by
  conv => lhs; unfold inboundLoop
  simp only [bind_eq, pure_eq]
  rw [run_bind, run_nextLine_text hstep [70, 70] rest fuel h tr (by decide) (by decide) (by simpa using hf)]
  simp only
  rw [cmdByteC_eq _ (by simp)]
  have h1 : (sb ";PM").isPrefixOf ([70, 70] : Bytes) = false := by rw [sb_PM]; decide
  simp [h1, Proc.run]

theorem inboundLoop_FQ' (n : Nat) (props : List Proposal) (sum : Nat) (st : SState) (rest : Bytes) (h : H) (tr : List Ev)
    (hf : 2 < fuel) :
    Proc.run hstep (inboundLoop c fuel (n + 1) props sum st) ([70, 81] ++ 13 :: rest) h tr =
      (.done (.ok (true, props, st)), rest, h, tr) := by
  conv => lhs; unfold inboundLoop
  simp only [bind_eq, pure_eq]
  rw [run_bind, run_nextLine_text hstep [70, 81] rest fuel h tr (by decide) (by decide) (by simpa using hf)]
  simp only
  rw [cmdByteC_eq _ (by simp)]
  have h1 : (sb ";PM").isPrefixOf ([70, 81] : Bytes) = false := by rw [sb_PM]; decide
  simp [h1, Proc.run]

theorem inboundLoop_proposal (n : Nat) (props : List Proposal) (sum : Nat) (st : SState) (t rest : Bytes) (cz : Nat)
    (hp : proposal? t = some cz) (hf : t.length < fuel) (h : H) (tr : List Ev) :
    ∃ p : Proposal, p.code = 67 ∧ p.csize = (cz : Int) ∧ p.offset = 0 ∧ p.answer = 0 ∧
      Proc.run hstep (inboundLoop c fuel (n + 1) props sum st) (t ++ 13 :: rest) h tr =
        Proc.run hstep (inboundLoop c fuel n (props ++ [p]) (sum + byteSum t + 13) st) rest h tr := by
  obtain ⟨htext, hasc, ⟨r, hr⟩, ty, mid, us, hparse⟩ := proposal?_spec t cz hp
  refine ⟨{ code := 67, msgType := ty, mid := mid, size := (us : Int), csize := (cz : Int) }, rfl, rfl, rfl, rfl, ?_⟩
  have hlen : 2 ≤ t.length := by rw [hr]; simp
  conv => lhs; unfold inboundLoop
  simp only [bind_eq, pure_eq]
  rw [run_bind, run_nextLine_text hstep t rest fuel h tr htext (by rw [hr]; simp) hf]
  simp only
  rw [cmdByteC_eq _ hlen, parseProposalC_eq _ hlen, hparse]
  have h1 : (sb ";PM").isPrefixOf t = false := by rw [sb_PM, hr]; simp [List.isPrefixOf]
  have h2 : ¬ (t.isEmpty = true ∨ t.head? = some 59) := by rw [hr]; simp
  have h3 : ¬ (t.length < 2 ∨ t.head? ≠ some 70) := by rw [hr]; simp
  have h4 : t.getD 1 0 = 67 := by rw [hr]; simp
  have hsum : sum + lineSum t = sum + byteSum t + 13 := by
    rw [lineSum_ascii' t hasc, byteSum_eq_dataSum]; omega
  simp only [h1, Bool.false_eq_true, if_false, h2, h3, h4]
  simp [hsum]

theorem promptText_line (sum : Nat) (rest : Bytes) : promptText sum ++ 13 :: rest = promptLine sum ++ rest := by
  have : neg8 sum = negMod256 sum := rfl
  simp [promptText, promptLine, this, hex02_eq_hex2 _ (negMod256_lt sum)]

/-! ### frames -/

theorem parsed_match {α : Type} (r : Reply) (A : Bool → α) (B : α) :
    (∀ c, r ≠ .parsed true c) → (match r with | .parsed true e => A e | _ => B) = B := by
  intro hr
  cases r with
  | parsed a b =>
    cases a with
    | false => rfl
    | true => exact absurd rfl (hr b)
  | _ => rfl

theorem err_match {α : Type} (r : Reply) (A B : α) :
    r ≠ .err true → (match r with | .err true => A | _ => B) = B := by
  intro hr
  cases r with
  | err a =>
    cases a with
    | false => rfl
    | true => exact absurd rfl hr
  | _ => rfl

theorem blocks_length : ∀ (chunks : List Bytes), chunks.flatten.length ≤ ((chunks.map blockOf).flatten).length := by
  intro chunks
  induction chunks with
  | nil => simp
  | cons k t ih => simp [blockOf] at ih ⊢; omega

theorem frame_bytes (title : Bytes) (chunks : List Bytes) (ck : UInt8) (hlen : title.length + 3 < 256)
    (hck : ck = UInt8.ofNat (neg8 (byteSum chunks.flatten))) :
    (RUnit.frame title chunks ck).bytes =
      frameHeader title 0 ++ (chunks.map blockOf).flatten ++ frameTrailer chunks.flatten := by
  have hdec : Fmt.decInt 0 = [48] := by decide
  have hmod : (title.length + 1 + 2) % 256 = title.length + 3 := by omega
  subst hck
  simp only [RUnit.bytes, frameHeader, hdec, frameTrailer, List.length_cons, List.length_nil, hmod]
  have : neg8 (byteSum chunks.flatten) = negMod256 (dataSum chunks.flatten) := rfl
  rw [this]
  have hb : InGrammar.blockBytes = blockOf := rfl
  rw [hb]
  simp

theorem fetchAll_skip (p : Proposal) (ps : List Proposal) (st : SState) (hp : p.answer ≠ ansAccept) :
    fetchAll fuel (p :: ps) st = fetchAll fuel ps st := by
  conv => lhs; unfold fetchAll
  simp [hp]

variable (g : InCfg)

theorem fetchAll_frame (hR : ∀ h c, RA g c (hstep h c).2) (q : Proposal) (ps : List Proposal) (st : SState)
    (ha : q.answer = ansAccept) (hcode : q.code = 67) (hoff : q.offset = 0) (cz : Nat) (hcs : q.csize = (cz : Int))
    (title : Bytes) (chunks : List Bytes) (ck : UInt8) (hok : frameOK g cz title chunks ck = true) (rest : Bytes)
    (hf : (RUnit.frame title chunks ck).bytes.length < fuel) (h : H) (tr : List Ev) :
    ∃ (h' : H) (d : Bytes),
      Proc.run hstep (fetchAll fuel (q :: ps) st) ((RUnit.frame title chunks ck).bytes ++ rest) h tr =
        Proc.run hstep (fetchAll fuel ps { st with received := st.received ++ [q.mid] }) rest h'
          (.called (.processInbound d) :: .called (.parseMessage d) :: tr) := by
  unfold frameOK at hok
  simp only [Bool.and_eq_true, Bool.not_eq_true', List.contains_eq_mem, decide_eq_false_iff_not, decide_eq_true_eq,
    beq_iff_eq, List.all_eq_true] at hok
  obtain ⟨⟨⟨⟨⟨h0, hlen⟩, hch⟩, hsz⟩, hck⟩, hdec⟩ := hok
  split at hdec
  · rename_i d hd
    have hb := frame_bytes title chunks ck hlen hck
    have hfl := blocks_length chunks
    have hfuel : title.length + chunks.flatten.length + 4 < fuel := by
      rw [hb] at hf
      simp only [List.length_append, frameHeader, frameTrailer, List.length_cons, List.length_nil] at hf
      omega
    have hrun := frame_any_split hstep title chunks rest hch h0 hlen q hoff (by rw [hcs, hsz]) fuel hfuel h tr
    rw [← hb] at hrun
    have hcode68 : ¬ q.code = 68 := by rw [hcode]; decide
    have r1 := (hR h (.parseMessage d)).2
    have r2 := (hR (hstep h (.parseMessage d)).1 (.processInbound d)).2
    simp only [HandlerAccepts] at r1 r2
    refine ⟨(hstep (hstep h (.parseMessage d)).1 (.processInbound d)).1, d, ?_⟩
    conv => lhs; unfold fetchAll
    have haa : ¬ q.answer ≠ ansAccept := by simp [ha]
    simp only [haa, if_false, bind_eq, pure_eq]
    rw [run_bind, hrun]
    simp only [hcode68, if_false, Proc.bind, hd, Proc.run]
    split
    · rename_i e heq
      exact absurd heq (r1 hdec e)
    · simp only [Proc.run]
      split
      · rename_i heq
        exact absurd heq (r2 hdec)
      · rfl
  · cases hdec

/-! ### the simulation: `xfer` -/

theorem run_finish_eof (st : SState) (inp : Bytes) (h : H) (tr : List Ev) :
    resGood (Proc.run hstep (finish st false (some .eof)) inp h tr).1 := by
  simp [finish, Proc.run, resGood]

theorem fetch_none : ∀ (ps : List Proposal) (st : SState), (∀ p ∈ ps, p.answer ≠ ansAccept) →
    fetchAll fuel ps st = .ret (st, none) := by
  intro ps
  induction ps with
  | nil => intro st _; unfold fetchAll; rfl
  | cons p ps ih =>
    intro st hp
    rw [fetchAll_skip fuel p ps st (hp p (by simp))]
    exact ih st (fun q hq => hp q (by simp [hq]))

theorem fetchAll_cut (q : Proposal) (ps : List Proposal) (st : SState) (ha : q.answer = ansAccept) (hoff : q.offset = 0)
    (tail : Bytes) (hc : cutFrame tail = true) (hf : tail.length < fuel) (h : H) (tr : List Ev) :
    Proc.run hstep (fetchAll fuel (q :: ps) st) tail h tr = (.done (st, some .eof), [], h, tr) := by
  conv => lhs; unfold fetchAll
  have haa : ¬ q.answer ≠ ansAccept := by simp [ha]
  simp only [haa, if_false, bind_eq, pure_eq]
  rw [run_bind, run_readCompressed_cut hstep tail hc q hoff fuel hf h tr]
  rfl

def pendOf (ps : List Proposal) : List Int := (ps.filter (·.answer = ansAccept)).map (·.csize)

/-- the checker's pending sizes against the session's answered proposals -/
def FetchRel (pend : List Nat) (ps : List Proposal) : Prop :=
  pend.map Int.ofNat = pendOf ps ∧ ∀ p ∈ ps, p.code = 67 ∧ p.offset = 0

theorem FetchRel.skip {pend : List Nat} {p : Proposal} {ps : List Proposal} (h : FetchRel pend (p :: ps))
    (hp : p.answer ≠ ansAccept) : FetchRel pend ps := by
  refine ⟨?_, fun q hq => h.2 q (by simp [hq])⟩
  rw [h.1]
  simp [pendOf, hp]

theorem FetchRel.take {pend : List Nat} {p : Proposal} {ps : List Proposal} (h : FetchRel pend (p :: ps))
    (hp : p.answer = ansAccept) : ∃ cz cs, pend = cz :: cs ∧ p.csize = (cz : Int) ∧ FetchRel cs ps := by
  have h1 := h.1
  simp only [pendOf, hp, decide_true, List.filter_cons_of_pos, List.map_cons] at h1
  cases pend with
  | nil => simp at h1
  | cons cz cs =>
    simp only [List.map_cons, List.cons.injEq] at h1
    exact ⟨cz, cs, rfl, h1.1.symm, h1.2, fun q hq => h.2 q (by simp [hq])⟩

section good
variable (hR : ∀ h c, RA g c (hstep h c).2) (tail : Bytes)

def GOurs (script : List RUnit) : Prop :=
  ∀ (n : Nat) (st : SState), st.quitReceived = false → st.quitSent = false → (render script ++ tail).length < fuel →
    Good g hstep ourTurn (restOfSession c fuel n true st) script tail

def GXfer (script : List RUnit) : Prop :=
  ∀ (n : Nat) (ps : List Proposal) (pend : List Nat) (st : SState), FetchRel pend ps → pend ≠ [] → st.quitSent = false →
    (render script ++ tail).length < fuel →
    Good g hstep (fun W => .next (.xfer pend) W) (FetchP fuel ps st (Kin c fuel n)) script tail

def GAfter (script : List RUnit) : Prop :=
  ∀ (n : Nat) (ps : List Proposal) (pend : List Nat) (st : SState), FetchRel pend ps → st.quitSent = false →
    (render script ++ tail).length < fuel →
    Good g hstep (afterAnswer pend) (FetchP fuel ps st (Kin c fuel n)) script tail

theorem good_after (script : List RUnit) (hO : GOurs hstep c fuel g tail script) (hX : GXfer hstep c fuel g tail script) :
    GAfter hstep c fuel g tail script := by
  intro n ps pend st hrel hqs hlen
  by_cases hp : pend = []
  · subst hp
    have hS : afterAnswer [] = ourTurn := by funext W; simp [afterAnswer]
    rw [hS]
    have hnone : ∀ p ∈ ps, p.answer ≠ ansAccept := by
      have h1 := hrel.1
      simp only [List.map_nil, pendOf] at h1
      have h2 : ps.filter (·.answer = ansAccept) = [] := by
        cases hf : ps.filter (·.answer = ansAccept) with
        | nil => rfl
        | cons a b => rw [hf] at h1; simp at h1
      intro p hp
      have := List.filter_eq_nil_iff.mp h2 p hp
      simpa using this
    have hP : FetchP fuel ps st (Kin c fuel n) = restOfSession c fuel n true { st with quitReceived := false } := by
      unfold FetchP
      rw [fetch_none fuel ps st hnone]
      rfl
    rw [hP]
    exact hO n _ rfl hqs hlen
  · have hS : afterAnswer pend = fun W => Step.next (.xfer pend) W := by
      funext W
      have : pend.isEmpty = false := by cases pend <;> simp_all
      simp [afterAnswer, this]
    rw [hS]
    exact hX n ps pend st hrel hp hqs hlen

theorem good_xfer_nil : GXfer hstep c fuel g tail [] := by
  intro n ps
  induction ps with
  | nil =>
    intro pend st hrel hne _ _
    have h1 := hrel.1
    simp only [pendOf, List.filter_nil, List.map_nil, List.map_eq_nil_iff] at h1
    exact absurd h1 hne
  | cons p ps ih =>
    intro pend st hrel hne hqs hlen
    by_cases ha : p.answer = ansAccept
    · intro h hv
      simp only [conf_nil, verdictOK, tailOK] at hv
      have hlen' : tail.length < fuel := by simpa [render] using hlen
      have : Proc.run hstep (FetchP fuel (p :: ps) st (Kin c fuel n)) (render [] ++ tail) h [] =
          Proc.run hstep (finish st false (some .eof)) [] h [] := by
        unfold FetchP
        rw [show render [] ++ tail = tail from by simp [render]]
        rw [run_bind_done hstep _ (fetchAll_cut hstep fuel p ps st ha (hrel.2 p (by simp)).2 tail hv hlen' h [])]
        rfl
      rw [this]
      exact run_finish_eof hstep st [] h []
    · have hP : FetchP fuel (p :: ps) st (Kin c fuel n) = FetchP fuel ps st (Kin c fuel n) := by
        unfold FetchP; rw [fetchAll_skip fuel p ps st ha]
      rw [hP]
      exact ih pend st (hrel.skip ha) hne hqs hlen

include hR in
theorem good_xfer_cons (u : RUnit) (us : List RUnit) (hA : GAfter hstep c fuel g tail us) :
    GXfer hstep c fuel g tail (u :: us) := by
  intro n ps
  induction ps with
  | nil =>
    intro pend st hrel hne _ _
    have h1 := hrel.1
    simp only [pendOf, List.filter_nil, List.map_nil, List.map_eq_nil_iff] at h1
    exact absurd h1 hne
  | cons p ps ih =>
    intro pend st hrel hne hqs hlen
    by_cases ha : p.answer = ansAccept
    · obtain ⟨cz, cs, rfl, hcz, hrel'⟩ := hrel.take ha
      cases u with
      | line t => exact Good.bad (fun W => by simp [conf_cons, stepUnit, conf_bad, verdictOK])
      | frame title chunks ck =>
        by_cases hok : frameOK g cz title chunks ck = true
        · apply Good.of_run
          intro h
          have hlen1 : (RUnit.frame title chunks ck).bytes.length < fuel := by
            rw [render_cons] at hlen; simp only [List.length_append] at hlen; omega
          have hlen2 : (render us ++ tail).length < fuel := by
            rw [render_cons] at hlen; simp only [List.length_append] at hlen ⊢; omega
          obtain ⟨h', d, hrun⟩ := fetchAll_frame hstep fuel g hR p ps st ha (hrel.2 p (by simp)).1 (hrel.2 p (by simp)).2 cz hcz
            title chunks ck hok (render us ++ tail) hlen1 h []
          refine ⟨afterAnswer cs, us, FetchP fuel ps { st with received := st.received ++ [p.mid] } (Kin c fuel n), h',
            [.called (.processInbound d), .called (.parseMessage d)], ?_, ?_, ?_⟩
          · unfold FetchP
            rw [render_cons, List.append_assoc]
            exact run_bind_congr hstep _ hrun
          · exact hA n ps cs _ hrel' hqs hlen2
          · intro W hv
            simpa [conf_cons, stepUnit, hok, writesOf_cons_called, writesOf_nil, lineWrites] using hv
        · exact Good.bad (fun W => by simp [conf_cons, stepUnit, hok, conf_bad, verdictOK])
    · have hP : FetchP fuel (p :: ps) st (Kin c fuel n) = FetchP fuel ps st (Kin c fuel n) := by
        unfold FetchP; rw [fetchAll_skip fuel p ps st ha]
      rw [hP]
      exact ih pend st (hrel.skip ha) hne hqs hlen

/-! ### the simulation: `theirs` -/

def InProps (cs : List Nat) (props : List Proposal) : Prop :=
  List.Forall₂ (fun (cz : Nat) (p : Proposal) => p.code = 67 ∧ p.csize = (cz : Int) ∧ p.offset = 0) cs props

theorem forall₂_snoc {α β : Type} {R : α → β → Prop} {l₁ : List α} {l₂ : List β} {a : α} {b : β}
    (h : List.Forall₂ R l₁ l₂) (hab : R a b) : List.Forall₂ R (l₁ ++ [a]) (l₂ ++ [b]) := by
  induction h with
  | nil => exact .cons hab .nil
  | cons h1 _ ih => exact .cons h1 ih

theorem fetchRel_of : ∀ {cs : List Nat} {props ps : List Proposal}, InProps cs props → List.Forall₂ SameBut props ps →
    FetchRel (acceptedSizes cs (ps.map (·.answer))) ps := by
  intro cs props ps h1
  induction h1 generalizing ps with
  | nil => intro h2; cases h2; exact ⟨rfl, fun _ h => by cases h⟩
  | cons hab _ ih =>
    intro h2
    cases h2 with
    | cons hq hrest =>
      rename_i q qs
      obtain ⟨ih1, ih2⟩ := ih hrest
      obtain ⟨e1, e2, e3, _⟩ := hq
      refine ⟨?_, ?_⟩
      · unfold pendOf at ih1 ⊢
        by_cases ha : q.answer = 43
        · simp [acceptedSizes, ha, ansAccept, e2, hab.2.1] at ih1 ⊢
          exact ih1
        · simp [acceptedSizes, ha, ansAccept] at ih1 ⊢
          exact ih1
      · intro p hp
        rcases List.mem_cons.mp hp with rfl | hp
        · exact ⟨by rw [e1]; exact hab.1, by rw [e3]; exact hab.2.2⟩
        · exact ih2 p hp

theorem ourAnswers?_fs (as : Bytes) : ourAnswers? ([70, 83, 32] ++ as ++ [13]) = some as := by
  simp [ourAnswers?]

theorem ourAnswers?_fs' (as : Bytes) : ourAnswers? (70 :: 83 :: 32 :: (as ++ [13])) = some as := by
  simp [ourAnswers?]

theorem restOfSession_zero' (b : Bool) (st : SState) : restOfSession c fuel 0 b st = .panic "fuel" := rfl

theorem restOfSession_quit' (n : Nat) (b : Bool) (st : SState) (h : st.quitReceived = true ∨ st.quitSent = true) :
    restOfSession c fuel (n + 1) b st = .ret { err := .nil, sent := st.sent, received := st.received } := by
  unfold restOfSession
  conv => lhs; unfold turns
  have : (st.quitReceived = true ∨ st.quitSent = true) := h
  simp only [this, if_true]
  rfl

def GTheirs (script : List RUnit) : Prop :=
  ∀ (n m : Nat) (cs : List Nat) (sum : Nat) (props : List Proposal) (st st0 : SState), InProps cs props →
    st.quitSent = false → (render script ++ tail).length < fuel →
    Good g hstep (fun W => .next (.theirs cs sum) W) (TheirP c fuel m props sum st st0 (Kin c fuel n)) script tail

theorem theirP_zero (props : List Proposal) (sum : Nat) (st st0 : SState) (K : Bool → SState → Proc Result) :
    TheirP c fuel 0 props sum st st0 K = .panic "fuel" := by
  unfold TheirP inboundLoop; rfl

theorem good_theirs_nil : GTheirs hstep c fuel g tail [] := by
  intro n m cs sum props st st0 _ _ hlen h hv
  simp only [conf_nil, verdictOK, tailOK, Bool.not_eq_true', List.contains_eq_mem, decide_eq_false_iff_not] at hv
  have hlen' : tail.length < fuel := by simpa [render] using hlen
  rw [show render [] ++ tail = tail from by simp [render]]
  cases m with
  | zero => rw [theirP_zero]; simp [Proc.run, resGood]
  | succ m =>
    unfold TheirP
    rw [run_bind_done hstep _ (inboundLoop_step_eof hstep c fuel m props sum st tail h [] hv hlen')]
    exact run_finish_eof hstep st0 [] h []

include hR in
theorem good_theirs_cons (u : RUnit) (us : List RUnit) (hT : GTheirs hstep c fuel g tail us)
    (hO : GOurs hstep c fuel g tail us) (hA : GAfter hstep c fuel g tail us) : GTheirs hstep c fuel g tail (u :: us) := by
  intro n m cs sum props st st0 hin hqs hlen
  cases u with
  | frame title chunks ck => exact Good.bad (fun W => by simp [conf_cons, stepUnit, conf_bad, verdictOK])
  | line t =>
    cases m with
    | zero => rw [theirP_zero]; exact Good.done (fun h => by simp [Proc.run, resGood])
    | succ m =>
      have hinp : render (.line t :: us) ++ tail = t ++ 13 :: (render us ++ tail) := by simp [render_cons, RUnit.bytes]
      have hlen1 : t.length < fuel := by rw [hinp] at hlen; simp only [List.length_append, List.length_cons] at hlen; omega
      have hlen2 : (render us ++ tail).length < fuel := by
        rw [hinp] at hlen; simp only [List.length_append, List.length_cons] at hlen ⊢; omega
      by_cases hc : isComment t = true
      · apply Good.of_run
        intro h
        refine ⟨fun W => .next (.theirs cs sum) W, us, TheirP c fuel m props sum st st0 (Kin c fuel n), h, [], ?_,
          hT n m cs sum props st st0 hin hqs hlen2, ?_⟩
        · rw [hinp]; exact run_bind_congr hstep _ (inboundLoop_comment hstep c fuel m props sum st t _ hc hlen1 h [])
        · intro W hv
          simpa [conf_cons, stepUnit, theirLine, hc, writesOf_nil, lineWrites] using hv
      · by_cases hff : t = [70, 70]
        · subst hff
          by_cases hcs : cs = []
          · subst hcs
            cases hin
            apply Good.of_run
            intro h
            refine ⟨ourTurn, us, restOfSession c fuel n true { st with remoteNoMsgs := true, quitReceived := false }, h, [], ?_,
              hO n _ rfl hqs hlen2, ?_⟩
            · rw [hinp]
              unfold TheirP
              rw [run_bind_done hstep _ (inboundLoop_FF' hstep c fuel m [] sum st _ h [] (by simpa using hlen1))]
              simp only [afterLoop]
              unfold fetchAll
              rfl
            · intro W hv
              simpa [conf_cons, stepUnit, theirLine, hc, writesOf_nil, lineWrites] using hv
          · exact Good.bad (fun W => by simp [conf_cons, stepUnit, theirLine, hc, hcs, conf_bad, verdictOK])
        · by_cases hfq : t = [70, 81]
          · subst hfq
            by_cases hcs : cs = []
            · subst hcs
              cases hin
              apply Good.done
              intro h
              rw [hinp]
              unfold TheirP
              rw [run_bind_done hstep _ (inboundLoop_FQ' hstep c fuel m [] sum st _ h [] (by simpa using hlen1))]
              simp only [afterLoop]
              unfold fetchAll
              show resGood (Proc.run hstep (restOfSession c fuel n true { st with quitReceived := true }) _ h []).1
              cases n with
              | zero => simp [restOfSession_zero', Proc.run, resGood]
              | succ n => rw [restOfSession_quit' c fuel n true _ (Or.inl rfl)]; simp [Proc.run, resGood]
            · exact Good.bad (fun W => by simp [conf_cons, stepUnit, theirLine, hc, hcs, conf_bad, verdictOK])
          · cases hp : proposal? t with
            | some cz =>
              by_cases hl : cs.length < 5
              · apply Good.of_run
                intro h
                obtain ⟨p, p1, p2, p3, _, hrun⟩ := inboundLoop_proposal hstep c fuel m props sum st t (render us ++ tail) cz hp hlen1 h []
                refine ⟨fun W => .next (.theirs (cs ++ [cz]) (sum + byteSum t + 13)) W, us,
                  TheirP c fuel m (props ++ [p]) (sum + byteSum t + 13) st st0 (Kin c fuel n), h, [], ?_,
                  hT n m _ _ _ st st0 (forall₂_snoc hin ⟨p1, p2, p3⟩) hqs hlen2, ?_⟩
                · rw [hinp]; exact run_bind_congr hstep _ hrun
                · intro W hv
                  simpa [conf_cons, stepUnit, theirLine, hc, hff, hfq, hp, hl, writesOf_nil, lineWrites] using hv
              · exact Good.bad (fun W => by simp [conf_cons, stepUnit, theirLine, hc, hff, hfq, hp, hl, conf_bad, verdictOK])
            | none =>
              by_cases hpr : t = promptText sum ∧ cs ≠ []
              · obtain ⟨ht, hne⟩ := hpr
                subst ht
                have hpne : props ≠ [] := by
                  intro e; subst e; cases hin; exact hne rfl
                apply Good.of_run
                intro h
                have hrun1 := inboundLoop_step_prompt hstep c fuel m props sum st (render us ++ tail) h [] hpne
                  (by simp [promptText, hex2] at hlen1; omega)
                obtain ⟨ps, h', evs, hrun2, hws, hsame⟩ :=
                  run_emits hstep hR (writeProposalsAnswer_emits g c props) (render us ++ tail) h []
                refine ⟨afterAnswer (acceptedSizes cs (ps.map (·.answer))), us,
                  FetchP fuel ps { st with remoteNoMsgs := false } (Kin c fuel n), h', evs, ?_,
                  hA n ps _ _ (fetchRel_of hin hsame) hqs hlen2, ?_⟩
                · rw [hinp, promptText_line]
                  unfold TheirP
                  rw [run_bind_congr hstep _ hrun1, Proc.bind_assoc, run_bind_done hstep _ hrun2]
                  simp only [List.append_nil]
                  rfl
                · intro W hv
                  have hlw : lineWrites (writesOf evs) = [[70, 83, 32] ++ ps.map (·.answer) ++ [13]] := by
                    rw [hws]; simp [lineWrites]
                  have hlen3 : (ps.map (·.answer)).length = cs.length := by
                    rw [List.length_map, ← hsame.length_eq, ← hin.length_eq]
                  rw [hlw] at hv
                  simpa [conf_cons, stepUnit, theirLine, hc, hff, hfq, hp, hne, ourAnswers?_fs', hlen3] using hv
              · exact Good.bad (fun W => by simp [conf_cons, stepUnit, theirLine, hc, hff, hfq, hp, hpr, conf_bad, verdictOK])

end good

end Wl2k.B2F
