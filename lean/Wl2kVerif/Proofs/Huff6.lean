import Wl2kVerif.Proofs.Huff5
import Wl2kVerif.Proofs.Reader
/-
The Huffman invariant through the read loop of `lzhuf.Reader`: `fill`, `read`, sequences of reads.
-/
namespace Wl2k.Lzhuf

/-! ### the Huffman state through the read loop -/

theorem Reader.putOne_h (d : Reader) (c : UInt8) : (d.putOne c).h = d.h := rfl

theorem Reader.lowBits_h (d : Reader) (i j : Nat) : (d.lowBits i j).1.h = d.h := by
  induction j generalizing d i with
  | zero => rfl
  | succ j ih => simp only [Reader.lowBits]; rw [ih, Reader.readBits_h]

theorem Reader.decodePosition_h (d : Reader) : d.decodePosition.1.h = d.h := by
  have e : d.decodePosition.1 = ((d.readBits 8).1.lowBits (d.readBits 8).2 (tbl Gen.dLen (d.readBits 8).2 - 2)).1 := rfl
  rw [e, Reader.lowBits_h, Reader.readBits_h]

theorem Reader.copyMatch_h (d : Reader) (i : Nat) (out : Bytes) (room k j : Nat) :
    (d.copyMatch i out room k j).1.h = d.h := by
  induction j generalizing d out room k with
  | zero => rfl
  | succ j ih =>
    simp only [Reader.copyMatch]
    split
    · rfl
    · split
      · rw [ih]; rfl
      · rw [ih]; rfl

theorem Reader.fill_wf : ∀ (fuel : Nat) (d : Reader) (out : Bytes) (room : Nat), HuffWF d.h →
    HuffWF (d.fill out room fuel).1.h := by
  intro fuel
  induction fuel with
  | zero => intro d out room w; exact w
  | succ fuel ih =>
    intro d out room w
    rw [Reader.fill]
    split
    · have sp := Reader.decodeChar_spec d w
      generalize d.decodeChar = p at sp
      obtain ⟨d1, c⟩ := p
      simp only at sp ⊢
      split
      · exact ih _ _ _ (by rw [Reader.putOne_h]; exact sp.2.1)
      · have e1 : d1.decodePosition.1.h = d1.h := Reader.decodePosition_h d1
        generalize d1.decodePosition = q at e1
        obtain ⟨d2, pp⟩ := q
        simp only at e1 ⊢
        have e2 := Reader.copyMatch_h d2 ((d2.r + 2 * N - pp - 1) % N) out room 0 (c - 255 + THRESHOLD)
        generalize d2.copyMatch ((d2.r + 2 * N - pp - 1) % N) out room 0 (c - 255 + THRESHOLD) = r at e2
        obtain ⟨d3, out3, room3, stop⟩ := r
        simp only at e2 ⊢
        have w3 : HuffWF d3.h := by rw [e2, e1]; exact sp.2.1
        split
        · exact w3
        · exact ih _ _ _ w3
    · exact w

theorem Reader.read_wf (d : Reader) (m : Nat) (w : HuffWF d.h) : HuffWF (d.read m).1.h := by
  unfold Reader.read
  have hn : (if d.berr then { d with err := some RErr.unexpectedEOF } else d).h = d.h := by split <;> rfl
  generalize (if d.berr then { d with err := some RErr.unexpectedEOF } else d) = d0 at hn ⊢
  simp only []
  split
  · rw [hn]; exact w
  · split
    · rw [hn]; exact w
    · exact Reader.fill_wf _ _ _ _ (by show HuffWF d0.h; rw [hn]; exact w)

theorem readsWith_wf (d : Reader) (ns : List Nat) (w : HuffWF d.h) : HuffWF (readsWith d ns).1.h := by
  induction ns generalizing d with
  | nil => exact w
  | cons m ns ih => simp only [readsWith]; exact ih _ (Reader.read_wf d m w)

theorem Reader.new_h (crc16 : Bool) (s : Bytes) (d : Reader) (h : Reader.new crc16 s = .ok d) : d.h = Huff.init := by
  unfold Reader.new at h
  simp only at h
  by_cases h1 : crc16 = true ∧ s.length < 2
  · rw [if_pos h1] at h; cases h
  · rw [if_neg h1] at h
    by_cases h2 : (s.drop (if crc16 = true then 2 else 0)).length < 4
    · rw [if_pos h2] at h; cases h
    · rw [if_neg h2] at h
      have h3 := Except.ok.inj h
      rw [← h3]

end Wl2k.Lzhuf
