import Wl2kVerif.Proofs.CanonStart
import Wl2kVerif.Proofs.LzRound
/-
C07 (reverse direction) — composition: the LIBRARY's reader on the CANONICAL encoder's stream
`Canon.compress crc16 x` = [CRC-16] ++ le32 |x| ++ `Canon.encodeBody x`.  `canon_stream` (the body is the
encoding of valid tokens for `x`) + `decode_tokens` / `run_tokens` (the reader implements `lzDecode`).
-/
namespace Wl2k.Lzhuf
open Wl2k.Bits Wl2k.Lzhuf.Canon

/-- **the code-length condition of the canonical encoder**: during the run of `Encode()` on `x` no Huffman code
was longer than 16 bits — the capacity of the `unsigned` accumulator of LZHUF.C's `EncodeChar` (`Canon.encodeBody`
returns the longest code length as its second component). -/
def Canon.CodeLenOK (x : Bytes) : Prop := (Canon.encodeBody x).2 ≤ 16

instance (x : Bytes) : Decidable (Canon.CodeLenOK x) := inferInstanceAs (Decidable ((Canon.encodeBody x).2 ≤ 16))

/-- inputs of at most 3866 bytes always respect it: the Huffman root then weighs less than `fib 19 = 4181` -/
theorem codeLenOK_of_small (x : Bytes) (h : x.length ≤ 3866) : Canon.CodeLenOK x :=
  (canon_stream x (Or.inr h)).1

theorem canon_compress_eq (crc16 : Bool) (x : Bytes) :
    Canon.compress crc16 x =
      (if crc16 then le16 (crc (le32 (x.length % 4294967296) ++ (encodeBody x).1)) else [])
        ++ le32 (x.length % 4294967296) ++ (encodeBody x).1 := rfl

/-- `NewReader` on a stream `[CRC] ++ le32 n ++ body` with the right CRC finds body, size and CRC -/
theorem new_stream (crc16 : Bool) (n : Nat) (hn : n < 2147483648) (body : Bytes) :
    ∃ d, Reader.new crc16 ((if crc16 then le16 (crc (le32 n ++ body)) else []) ++ le32 n ++ body) = .ok d ∧
      d.src.toList = body ∧ d.size = (n : Int) ∧ (crc16 = true → d.hcrc = crc (d.sizeBytes ++ d.src.toList)) := by
  have l4 : (le32 n).length = 4 := rfl
  cases crc16 with
  | false =>
    have h2 : ¬ ((le32 n ++ body).drop 0).length < 4 := by simp [l4]
    refine ⟨_, by
      unfold Reader.new
      simp only [Bool.false_eq_true, false_and, if_false, List.nil_append]
      rw [if_neg h2], ?_, ?_, ?_⟩
    · simp [l4]
    · show int32OfLE (((le32 n ++ body).drop 0).take 4) = _
      simp only [List.drop_zero]
      rw [List.take_left' l4, int32OfLE_le32 _ hn]
    · intro h; cases h
  | true =>
    have hc := crc_lt' (le32 n ++ body)
    generalize hcdef : crc (le32 n ++ body) = c at hc
    have l2 : (le16 c).length = 2 := rfl
    have hd : (le16 c ++ le32 n ++ body).drop 2 = le32 n ++ body := by
      rw [List.append_assoc, List.drop_left' l2]
    have h1 : ¬ (True ∧ (le16 c ++ le32 n ++ body).length < 2) := by
      simp [l2]
    have h2 : ¬ ((le16 c ++ le32 n ++ body).drop 2).length < 4 := by rw [hd]; simp [l4]
    refine ⟨_, by
      unfold Reader.new
      simp only [if_true]
      rw [if_neg h1, if_neg h2], ?_, ?_, ?_⟩
    · show (((le16 c ++ le32 n ++ body).drop 2).drop 4).toArray.toList = body
      rw [hd, List.drop_left' l4]
    · show int32OfLE (((le16 c ++ le32 n ++ body).drop 2).take 4) = _
      rw [hd, List.take_left' l4, int32OfLE_le32 _ hn]
    · intro _
      show ((le16 c ++ le32 n ++ body).getD 0 0).toNat + 256 * ((le16 c ++ le32 n ++ body).getD 1 0).toNat
        = crc (((le16 c ++ le32 n ++ body).drop 2).take 4 ++ (((le16 c ++ le32 n ++ body).drop 2).drop 4).toArray.toList)
      rw [hd, List.take_left' l4, List.drop_left' l4, hcdef]
      simp only [le16, List.cons_append, List.getD_cons_zero, List.getD_cons_succ, UInt8.toNat_ofNat']
      omega

/-- **The library's reader decodes the canonical encoder's stream** (any sequence of `Read`s). -/
theorem go_decodes_canon_full (crc16 : Bool) (x : Bytes) (hx : x.length < 2147483648)
    (hl : (encodeBody x).2 ≤ 16 ∨ x.length ≤ 3866) :
    ∃ d, Reader.new crc16 (Canon.compress crc16 x) = .ok d ∧ d.size = (x.length : Int) ∧
      ∀ ns : List Nat, (∃ e, some e ∈ errsWith d ns) →
        (readsWith d ns).2 = x ∧ (readsWith d ns).1.close = none := by
  have hmod : x.length % 4294967296 = x.length := Nat.mod_eq_of_lt (by omega)
  obtain ⟨-, ts, pad, p1, -, p3, p4, p5⟩ := canon_stream x hl
  rw [canon_compress_eq, hmod]
  obtain ⟨d, h1, h2, h3, h4⟩ := new_stream crc16 x.length hx (encodeBody x).1
  refine ⟨d, h1, h3, fun ns hend => ?_⟩
  have := decode_tokens crc16 _ d h1 ts p4 pad p1 (by rw [h2, p3]) (by rw [h3, p5]) h4 ns hend
  rw [p5] at this
  exact this

/-- the token stream of the canonical encoder's output ends in a state that passes `Close`, having produced `x` -/
theorem canon_run (crc16 : Bool) (x : Bytes) (hx : x.length < 2147483648) (hl : (encodeBody x).2 ≤ 16 ∨ x.length ≤ 3866) :
    ∃ d c, Reader.new crc16 (Canon.compress crc16 x) = .ok d ∧ d.size = (x.length : Int) ∧ d.pending = [] ∧
      d.err = none ∧ d.berr = false ∧ Run d c x ∧ c.close = none := by
  have hmod : x.length % 4294967296 = x.length := Nat.mod_eq_of_lt (by omega)
  obtain ⟨-, ts, pad, p1, -, p3, ok, hv⟩ := canon_stream x hl
  rw [canon_compress_eq, hmod]
  obtain ⟨d, hnew, h2, h3, h4⟩ := new_stream crc16 x.length hx (encodeBody x).1
  obtain ⟨n1, n2, n3, n4⟩ := new_rinv crc16 _ d hnew
  obtain ⟨m1, m2, m3, -⟩ := new_fields crc16 _ d hnew
  obtain ⟨k1, k2, k3, -⟩ := new_fields2 crc16 _ d hnew
  have hh := Reader.new_h crc16 _ d hnew
  obtain ⟨c, r1, r2, r3, r4, r5, r6, r7, -⟩ := run_tokens ts d initHist pad ok
    (by rw [hh]; exact huffWF_init) n1 (new_win d k1 k2) m3 n3 (by rw [n2, h2, p3, hh])
    (by rw [h3, m1, ← lzOut_length ts initHist, ← lzDecode_eq, hv]; simp)
  rw [← lzDecode_eq, hv] at r1
  refine ⟨d, c, hnew, h3, m2, m3, n3, r1, ?_⟩
  apply close_of_end c r2 r3 (r7.pending.trans m2) r4 r6 (by rw [r5]; exact p1)
  intro hc
  rw [r7.crc16, k3] at hc
  rw [r7.hcrc, r7.sizeBytes, r7.src]
  exact h4 hc

/-- **One `Read` of everything** on the canonical stream, then `Close`. -/
theorem go_decodes_canon_one_read (crc16 : Bool) (x : Bytes) (hx : x.length < 2147483648)
    (hl : (encodeBody x).2 ≤ 16 ∨ x.length ≤ 3866) (m : Nat) (hm : x.length ≤ m) :
    ∃ d, Reader.new crc16 (Canon.compress crc16 x) = .ok d ∧ (d.read m).2.1 = x ∧ (d.read m).1.close = none := by
  obtain ⟨d, c, h1, h2, h3, h4, h5, h6, h7⟩ := canon_run crc16 x hx hl
  obtain ⟨e1, e2⟩ := read_of_run h6 h3 h4 h5 m hm
  refine ⟨d, h1, e1, ?_⟩
  rcases e2 with e | ⟨e, e'⟩
  · rw [e]; exact h7
  · rw [e', ← run_nil_eq h6 e]; exact h7

end Wl2k.Lzhuf
