import Wl2kVerif.Proofs.RetryInv
/-
`retry_converges`, assembled: every session (any cuts, any schedule, stopped anywhere) preserves `Inv`; a clean
session exists, preserves `Inv` and empties both outboxes; with empty outboxes `Inv` says everything is in the sent
folder and the peer's inbox is a permutation of the original queue.
-/
namespace Wl2k.B2F
open Wl2k

section
variable (midOf : Bytes → Bytes) (cA cB : Cfg) (fuel : Nat) (QA QB : List OutMsg)

theorem sideOK_A (A : Box) (f : Faults) (lk : LinkOK cA cB fuel) (hQ : QueueOK midOf fuel QA) (hsub : A.outbox.Sublist QA)
    (hf : QA.length + 7 ≤ fuel) : SideOK cA fuel (A.handlerF f) :=
  ⟨good_handler midOf cA fuel QA A f hQ hsub lk.hhA lk.m1A lk.m2A lk.mbA hf, rfl, lk.wfA, lk.motdA⟩

theorem sideOK_B (B : Box) (f : Faults) (lk : LinkOK cA cB fuel) (hQ : QueueOK midOf fuel QB) (hsub : B.outbox.Sublist QB)
    (hf : QB.length + 7 ≤ fuel) : SideOK cB fuel (B.handlerF f) :=
  ⟨good_handler midOf cB fuel QB B f hQ hsub lk.hhB lk.m1B lk.m2B lk.mbB hf, rfl, lk.wfB, lk.motdB⟩

/-- **Every session preserves the invariant** — in every reachable state of the pair system, whatever the cuts and
the schedule. -/
theorem session_inv (A B A' B' : Box) (lk : LinkOK cA cB fuel) (hQA : QueueOK midOf fuel QA) (hQB : QueueOK midOf fuel QB)
    (hfuel : 4 * (QA.length + QB.length) + 7 ≤ fuel) (inv : Inv QA QB A B) (hs : Session midOf cA cB fuel A B A' B') :
    Inv QA QB A' B' := by
  obtain ⟨limA, limB, fA, fB, t, hr, rfl, rfl⟩ := hs
  obtain ⟨n, he⟩ := exec_of_reach hr
  rw [sessionStart_eq] at he
  have okA := sideOK_A midOf cA cB fuel QA A fA lk hQA inv.1.sub (by omega)
  have okB := sideOK_B midOf cA cB fuel QB B fB lk hQB inv.2.sub (by omega)
  have ndA := nodup_handler midOf fuel QA A fA hQA inv.1.sub
  have ndB := nodup_handler midOf fuel QB B fB hQB inv.2.sub
  obtain ⟨a1, a2⟩ := pair_exchange_acct cA cB fuel (A.handlerF fA) (B.handlerF fB) limA limB lk.mA lk.mB okA okB ndA ndB
    lk.fA lk.fB he
  obtain ⟨r1, r2⟩ := pair_replay _ _ (A.handlerF fA) (B.handlerF fB) limA limB he
  rw [after_eq midOf A fA t.1 r1, after_eq midOf B fB t.2 r2]
  exact ⟨dirInv_step midOf fuel QA A B fA fB _ _ hQA inv.1 a1, dirInv_step midOf fuel QB B A fB fA _ _ hQB inv.2 a2⟩

theorem sessions_inv (A B A' B' : Box) (lk : LinkOK cA cB fuel) (hQA : QueueOK midOf fuel QA) (hQB : QueueOK midOf fuel QB)
    (hfuel : 4 * (QA.length + QB.length) + 7 ≤ fuel) (inv : Inv QA QB A B) (hs : Sessions midOf cA cB fuel A B A' B') :
    Inv QA QB A' B' := by
  induction hs with
  | none A B => exact inv
  | more A B A₁ B₁ A₂ B₂ h1 _ ih => exact ih (session_inv midOf cA cB fuel QA QB A B A₁ B₁ lk hQA hQB hfuel inv h1)

theorem clean_is_session (A B A' B' : Box) (hc : CleanSession midOf cA cB fuel A B A' B') :
    Session midOf cA cB fuel A B A' B' := by
  obtain ⟨t, hr, _, e1, e2⟩ := hc
  exact ⟨none, none, {}, {}, t, hr, e1, e2⟩

theorem delivOK_A (A : Box) (lk : LinkOK cA cB fuel) (hQ : QueueOK midOf fuel QA) (hsub : A.outbox.Sublist QA)
    (hf : QA.length + 7 ≤ fuel) : DelivOK cA fuel A.handler :=
  ⟨sideOK_A midOf cA cB fuel QA A {} lk hQ hsub hf, ⟨rfl, rfl⟩, nodup_handler midOf fuel QA A {} hQ hsub⟩

theorem delivOK_B (B : Box) (lk : LinkOK cA cB fuel) (hQ : QueueOK midOf fuel QB) (hsub : B.outbox.Sublist QB)
    (hf : QB.length + 7 ≤ fuel) : DelivOK cB fuel B.handler :=
  ⟨sideOK_B midOf cA cB fuel QB B {} lk hQ hsub hf, ⟨rfl, rfl⟩, nodup_handler midOf fuel QB B {} hQ hsub⟩

end

/-- after a delivery in the sense of `pair_delivers`, between handlers made from mailboxes whose queued messages are
all valid, the sender's outbox is empty: each message was accepted, or rejected because the inbox had it already -/
theorem delivered_outbox_nil (X Y : Box) (sX sY : Side) (hv : ∀ msg ∈ X.outbox, msg.valid = true)
    (d : Delivered X.handler Y.handler sX sY) : sX.h.outbox = [] := by
  obtain ⟨rX, rY, La, Lr, Ld, _, _, _, _, _, hLa, hLr, _, _, _, _, hout, _⟩ := d
  rw [hout, List.filter_eq_nil_iff]
  intro msg hm
  have hvo : msg ∈ vo X.handler := by
    unfold vo offered
    refine List.mem_filter.mpr ⟨List.mem_filter.mpr ⟨hm, ?_⟩, hv msg hm⟩
    show (!([] : List Bytes).contains msg.mid) = true
    simp
  by_cases hin : msg.mid ∈ Y.inbox.map (·.1)
  · have : msg.mid ∈ Lr := (hLr msg.mid).mpr ⟨msg, hvo, rfl, handler_answerFor_mem Y {} msg.mid hin⟩
    simp [this]
  · have : (msg.mid, msg.data) ∈ La := (hLa msg.mid msg.data).mpr ⟨msg, hvo, rfl, rfl, handler_answerFor_not_mem Y {} msg.mid hin⟩
    have : msg.mid ∈ La.map (·.1) := List.mem_map.mpr ⟨_, this, rfl⟩
    simp [this]

section
variable (midOf : Bytes → Bytes) (cA cB : Cfg) (fuel : Nat) (QA QB : List OutMsg)

/-- **A clean session empties both outboxes.** -/
theorem clean_outboxes (A B A' B' : Box) (lk : LinkOK cA cB fuel) (hQA : QueueOK midOf fuel QA) (hQB : QueueOK midOf fuel QB)
    (hfuel : 4 * (QA.length + QB.length) + 7 ≤ fuel) (inv : Inv QA QB A B) (hc : CleanSession midOf cA cB fuel A B A' B') :
    A'.outbox = [] ∧ B'.outbox = [] := by
  obtain ⟨t, hr, hfin, rfl, rfl⟩ := hc
  obtain ⟨n, he⟩ := exec_of_reach hr
  rw [sessionStart_eq] at he
  have l1 := inv.1.sub.length_le
  have l2 := inv.2.sub.length_le
  have dA := delivOK_A midOf cA cB fuel QA A lk hQA inv.1.sub (by omega)
  have dB := delivOK_B midOf cA cB fuel QB B lk hQB inv.2.sub (by omega)
  obtain ⟨d1, d2⟩ := (pair_delivers_all cA cB fuel A.handler B.handler lk.mA lk.mB dA dB lk.fA lk.fB
    (by show 4 * (A.outbox.length + B.outbox.length) + 7 ≤ fuel; omega)).2 he (terminal_of_final hfin)
  exact ⟨delivered_outbox_nil A B t.1 t.2 (fun msg hm => hQA.valid msg (inv.1.sub.subset hm)) d1,
    delivered_outbox_nil B A t.2 t.1 (fun msg hm => hQB.valid msg (inv.2.sub.subset hm)) d2⟩

/-- **A clean session exists** (and every one of them ends with both sides returned without error:
`pair_no_deadlock`). -/
theorem clean_exists (A B : Box) (lk : LinkOK cA cB fuel) (hQA : QueueOK midOf fuel QA) (hQB : QueueOK midOf fuel QB)
    (hfuel : 4 * (QA.length + QB.length) + 7 ≤ fuel) (inv : Inv QA QB A B) :
    ∃ A' B', CleanSession midOf cA cB fuel A B A' B' := by
  have l1 := inv.1.sub.length_le
  have l2 := inv.2.sub.length_le
  have dA := delivOK_A midOf cA cB fuel QA A lk hQA inv.1.sub (by omega)
  have dB := delivOK_B midOf cA cB fuel QB B lk hQB inv.2.sub (by omega)
  obtain ⟨n, t, he, ht⟩ := (pair_delivers_all cA cB fuel A.handler B.handler lk.mA lk.mB dA dB lk.fA lk.fB
    (by show 4 * (A.outbox.length + B.outbox.length) + 7 ≤ fuel; omega)).1
  exact ⟨_, _, t, reach_of_exec he, final_of_terminal ht, rfl, rfl⟩

/-- in a clean session both `Exchange` calls return without error -/
theorem clean_returns (A B : Box) (lk : LinkOK cA cB fuel) (hQA : QueueOK midOf fuel QA) (hQB : QueueOK midOf fuel QB)
    (hfuel : 4 * (QA.length + QB.length) + 7 ≤ fuel) (inv : Inv QA QB A B) (t : Side × Side)
    (hr : Reach (sessionStart cA cB fuel A B {} {} none none) t) (hfin : Final t) :
    ∃ rA rB : Result, t.1.ended = some (.done rA) ∧ t.2.ended = some (.done rB) ∧ rA.err = .nil ∧ rB.err = .nil := by
  obtain ⟨n, he⟩ := exec_of_reach hr
  rw [sessionStart_eq] at he
  have l1 := inv.1.sub.length_le
  have l2 := inv.2.sub.length_le
  have dA := delivOK_A midOf cA cB fuel QA A lk hQA inv.1.sub (by omega)
  have dB := delivOK_B midOf cA cB fuel QB B lk hQB inv.2.sub (by omega)
  obtain ⟨⟨rM, rS, _, _, _, e1, e2, e3, e4, _⟩, _⟩ := (pair_delivers_all cA cB fuel A.handler B.handler lk.mA lk.mB dA dB lk.fA lk.fB
    (by show 4 * (A.outbox.length + B.outbox.length) + 7 ≤ fuel; omega)).2 he (terminal_of_final hfin)
  exact ⟨rM, rS, e1, e2, e3, e4⟩

end

/-- the invariant holds of fresh mailboxes -/
theorem inv_init (QA QB : List OutMsg) : Inv QA QB { outbox := QA } { outbox := QB } :=
  ⟨⟨List.Sublist.refl _, fun _ hm => Or.inl hm, (by intro _ _ h; cases h), List.nodup_nil, (by intro _ h; cases h),
      List.nodup_nil, (by intro _ h; cases h)⟩,
    ⟨List.Sublist.refl _, fun _ hm => Or.inl hm, (by intro _ _ h; cases h), List.nodup_nil, (by intro _ h; cases h),
      List.nodup_nil, (by intro _ h; cases h)⟩⟩

/-- **With an empty outbox the invariant of a direction is the goal**: the sent folder is a permutation of the MIDs of
the original queue — every message reported sent, once —, and the receiver's inbox is a permutation of the original
queue as (MID, bytes) — each message exactly once, byte-identical, nothing else. -/
theorem dirInv_done (midOf : Bytes → Bytes) (fuel : Nat) (Q : List OutMsg) (X Y : Box) (hQ : QueueOK midOf fuel Q)
    (inv : DirInv Q X Y) (h0 : X.outbox = []) :
    X.sent.Perm (Q.map (·.mid)) ∧ Y.inbox.Perm (Q.map fun m => (m.mid, m.data)) := by
  have hsent : ∀ msg ∈ Q, msg.mid ∈ X.sent := by
    intro msg hm
    rcases inv.cons msg hm with h | h
    · rw [h0] at h; cases h
    · exact h
  refine ⟨?_, ?_⟩
  · rw [List.perm_ext_iff_of_nodup inv.sentnd hQ.nd]
    intro m
    constructor
    · intro hm
      obtain ⟨msg, g1, g2, _⟩ := inv.recd m hm
      exact List.mem_map.mpr ⟨msg, g1, g2⟩
    · intro hm
      obtain ⟨msg, g1, rfl⟩ := List.mem_map.mp hm
      exact hsent msg g1
  have n1 : Y.inbox.Nodup := nodup_of_map (·.1) _ inv.nodup
  have n2 : (Q.map fun m : OutMsg => (m.mid, m.data)).Nodup := by
    apply nodup_of_map (·.1)
    rw [List.map_map]
    exact hQ.nd
  rw [List.perm_ext_iff_of_nodup n1 n2]
  intro e
  constructor
  · intro he
    obtain ⟨msg, hm, rfl⟩ := inv.only e he
    exact List.mem_map.mpr ⟨msg, hm, rfl⟩
  · intro he
    obtain ⟨msg, hm, rfl⟩ := List.mem_map.mp he
    obtain ⟨msg', hm', e1, e2⟩ := inv.recd msg.mid (hsent msg hm)
    have : msg' = msg := eq_of_nodup_map_mid Q hQ.nd msg' hm' msg hm e1
    rw [this] at e2
    exact e2

/-! ### either station as the master -/

theorem Inv.swap {QA QB : List OutMsg} {A B : Box} (h : Inv QA QB A B) : Inv QB QA B A := ⟨h.2, h.1⟩

section
variable (midOf : Bytes → Bytes) (cA cB dB dA : Cfg) (fuel : Nat) (QA QB : List OutMsg)

theorem sessionE_inv (A B A' B' : Box) (lk : LinkOK cA cB fuel) (lk' : LinkOK dB dA fuel) (hQA : QueueOK midOf fuel QA)
    (hQB : QueueOK midOf fuel QB) (hfuel : 4 * (QA.length + QB.length) + 7 ≤ fuel) (inv : Inv QA QB A B)
    (hs : SessionE midOf cA cB dB dA fuel A B A' B') : Inv QA QB A' B' := by
  rcases hs with hs | hs
  · exact session_inv midOf cA cB fuel QA QB A B A' B' lk hQA hQB hfuel inv hs
  · exact (session_inv midOf dB dA fuel QB QA B A B' A' lk' hQB hQA (by omega) inv.swap hs).swap

theorem sessionsE_inv (A B A' B' : Box) (lk : LinkOK cA cB fuel) (lk' : LinkOK dB dA fuel) (hQA : QueueOK midOf fuel QA)
    (hQB : QueueOK midOf fuel QB) (hfuel : 4 * (QA.length + QB.length) + 7 ≤ fuel) (inv : Inv QA QB A B)
    (hs : SessionsE midOf cA cB dB dA fuel A B A' B') : Inv QA QB A' B' := by
  induction hs with
  | none A B => exact inv
  | more A B A₁ B₁ A₂ B₂ h1 _ ih =>
    exact ih (sessionE_inv midOf cA cB dB dA fuel QA QB A B A₁ B₁ lk lk' hQA hQB hfuel inv h1)

theorem cleanE_outboxes (A B A' B' : Box) (lk : LinkOK cA cB fuel) (lk' : LinkOK dB dA fuel) (hQA : QueueOK midOf fuel QA)
    (hQB : QueueOK midOf fuel QB) (hfuel : 4 * (QA.length + QB.length) + 7 ≤ fuel) (inv : Inv QA QB A B)
    (hc : CleanSessionE midOf cA cB dB dA fuel A B A' B') : A'.outbox = [] ∧ B'.outbox = [] ∧ Inv QA QB A' B' := by
  rcases hc with hc | hc
  · obtain ⟨h1, h2⟩ := clean_outboxes midOf cA cB fuel QA QB A B A' B' lk hQA hQB hfuel inv hc
    exact ⟨h1, h2, session_inv midOf cA cB fuel QA QB A B A' B' lk hQA hQB hfuel inv (clean_is_session midOf cA cB fuel A B A' B' hc)⟩
  · obtain ⟨h1, h2⟩ := clean_outboxes midOf dB dA fuel QB QA B A B' A' lk' hQB hQA (by omega) inv.swap hc
    exact ⟨h2, h1, (session_inv midOf dB dA fuel QB QA B A B' A' lk' hQB hQA (by omega) inv.swap
      (clean_is_session midOf dB dA fuel B A B' A' hc)).swap⟩

end

/-- the outcome of `pairRun` is a reachable state of the session started on the two mailboxes -/
theorem pairRun_reach (cA cB : Cfg) (fuel : Nat) (A B : Box) (fA fB : Faults) (limA limB : Option Nat) :
    Reach (sessionStart cA cB fuel A B fA fB limA limB) (pairRun cA cB (A.handlerF fA) (B.handlerF fB) limA limB fuel) := by
  obtain ⟨n, hn⟩ := pairLoop_exec fuel fuel { proc := exchange cA fuel, h := A.handlerF fA, limit := limA }
    { proc := exchange cB fuel, h := B.handlerF fB, limit := limB }
  exact reach_of_exec hn

/-! ### the instance used for the non-vacuity examples of `Props/C02_retry.lean`

The one-message instance of `Proofs/WholeInst.lean` (`Ex1`: master `cM`, slave `cS`; the slave queues `msg1`, MID "AB", empty
body), as two mailboxes and two sessions: `run1` with the stream towards the slave cut after 39 bytes (the master's handshake,
34 bytes, and its answer line `FS +\r`), `run2` fault-free. -/
namespace ExRetry
open Wl2k.B2F.Ex1

def midAB : Bytes → Bytes := fun _ => [65, 66]
def boxA0 : Box := {}
def boxB0 : Box := { outbox := [msg1] }
def run1 : Side × Side := pairRun cM cS boxA0.handler boxB0.handler none (some 39) 200
def boxA1 : Box := boxA0.after midAB run1.1
def boxB1 : Box := boxB0.after midAB run1.2
def run2 : Side × Side := pairRun cM cS boxA1.handler boxB1.handler none none 200
def boxA2 : Box := boxA1.after midAB run2.1
def boxB2 : Box := boxB1.after midAB run2.2

theorem link_ok : LinkOK cM cS 200 :=
  ⟨rfl, rfl, rfl, rfl, good_M.m1, good_M.m2, good_M.mb, good_S.m1, good_S.m2, good_S.mb, wf_M, wf_S,
    (by intro l hl; cases hl), (by intro l hl; cases hl), fuel_M, fuel_S⟩

theorem queue_B : QueueOK midAB 200 [msg1] :=
  ⟨(by intro m hm; rw [List.mem_singleton.mp hm]; exact msg1_ok), (by intro m hm; rw [List.mem_singleton.mp hm]; rfl),
    (by intro m hm; rw [List.mem_singleton.mp hm]; rfl), by decide⟩

theorem queue_A : QueueOK midAB 200 [] :=
  ⟨(by intro m hm; cases hm), (by intro m hm; cases hm), (by intro m hm; cases hm), List.nodup_nil⟩

theorem session1 : Session midAB cM cS 200 boxA0 boxB0 boxA1 boxB1 :=
  ⟨none, some 39, {}, {}, run1, pairRun_reach cM cS 200 boxA0 boxB0 {} {} none (some 39), rfl, rfl⟩

theorem session2 : CleanSession midAB cM cS 200 boxA1 boxB1 boxA2 boxB2 :=
  ⟨run2, pairRun_reach cM cS 200 boxA1 boxB1 {} {} none none,
    final_of_terminal (pairTerminal_of_ended _ _ (by decide +kernel) (by decide +kernel)), rfl, rfl⟩

/-- a session without any cut in which the master's storage fails at the first message -/
def run1f : Side × Side := pairRun cM cS (boxA0.handlerF { failAt := some 0 }) boxB0.handler none none 200
def boxA1f : Box := boxA0.after midAB run1f.1
def boxB1f : Box := boxB0.after midAB run1f.2

theorem session1f : Session midAB cM cS 200 boxA0 boxB0 boxA1f boxB1f :=
  ⟨none, none, { failAt := some 0 }, {}, run1f, pairRun_reach cM cS 200 boxA0 boxB0 { failAt := some 0 } {} none none, rfl, rfl⟩

end ExRetry

end Wl2k.B2F
