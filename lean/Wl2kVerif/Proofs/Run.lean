import Wl2kVerif.B2F.Session
/-
Execution lemmas: how `Proc.run` goes through `bind`, `readString`, `readN`.
-/
namespace Wl2k.B2F
open Wl2k

variable {H : Type} (hstep : H → Call → H × Reply)

theorem run_bind {α β : Type} (p : Proc α) (f : α → Proc β) :
    ∀ (inp : Bytes) (h : H) (tr : List Ev),
      Proc.run hstep (Proc.bind p f) inp h tr =
        match Proc.run hstep p inp h tr with
        | (.done a, inp', h', tr') => Proc.run hstep (f a) inp' h' tr'
        | (.panicked s, inp', h', tr') => (.panicked s, inp', h', tr')
        | (.blocked, inp', h', tr') => (.blocked, inp', h', tr') := by
  induction p with
  | ret a => intro inp h tr; simp [Proc.bind, Proc.run]
  | readByte k ih =>
    intro inp h tr
    cases inp with
    | nil => simp only [Proc.bind, Proc.run]; exact ih none [] h tr
    | cons b t => simp only [Proc.bind, Proc.run]; exact ih (some b) t h tr
  | peek k ih =>
    intro inp h tr
    cases inp with
    | nil => simp only [Proc.bind, Proc.run]; exact ih none [] h tr
    | cons b t => simp only [Proc.bind, Proc.run]; exact ih (some b) (b :: t) h _
  | write bs k ih => intro inp h tr; simp only [Proc.bind, Proc.run]; exact ih inp h _
  | call c k ih => intro inp h tr; simp only [Proc.bind, Proc.run]; exact ih _ inp _ _
  | panic s => intro inp h tr; simp [Proc.bind, Proc.run]

/-- `ReadString(delim)` on input that contains the delimiter: returns everything up to and including
it and leaves the rest. -/
theorem run_readString (delim : UInt8) : ∀ (pre : Bytes) (fuel : Nat) (acc rest : Bytes) (h : H) (tr : List Ev),
    delim ∉ pre → pre.length < fuel →
    Proc.run hstep (readString delim fuel acc) (pre ++ delim :: rest) h tr =
      (.done (acc.reverse ++ pre ++ [delim], false), rest, h, tr) := by
  intro pre
  induction pre with
  | nil =>
    intro fuel acc rest h tr _ hf
    cases fuel with
    | zero => omega
    | succ f => simp [readString, Proc.run]
  | cons b t ih =>
    intro fuel acc rest h tr hn hf
    cases fuel with
    | zero => simp at hf
    | succ f =>
      simp only [List.mem_cons, not_or] at hn
      have hb : ¬ b = delim := fun e => hn.1 e.symm
      simp only [readString, List.cons_append, Proc.run, hb, if_false]
      rw [ih f (b :: acc) rest h tr hn.2 (by simp at hf; omega)]
      simp

/-- reading exactly `n` bytes -/
theorem run_readN : ∀ (blk : Bytes) (acc rest : Bytes) (h : H) (tr : List Ev),
    Proc.run hstep (readN blk.length acc) (blk ++ rest) h tr = (.done (some (acc.reverse ++ blk)), rest, h, tr) := by
  intro blk
  induction blk with
  | nil => intro acc rest h tr; simp [readN, Proc.run]
  | cons b t ih =>
    intro acc rest h tr
    simp only [List.length_cons, readN, List.cons_append, Proc.run]
    rw [ih (b :: acc) rest h tr]
    simp

end Wl2k.B2F
