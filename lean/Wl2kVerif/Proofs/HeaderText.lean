import Wl2kVerif.Msg.HeaderText
import Wl2kVerif.Proofs.ExtWitness
/-
Lemmas about the transcribed header-text functions (`Msg/HeaderText.lean`): the Q encoder's byte table,
`qDecode ∘ writeQString = id`, what `needsEncoding` means on bytes, the two shapes of
`encodeHeaderText`, the run of `DecodeHeader` on a single ISO-8859-1 Q word, and the Latin-1/UTF-8
inverse on representable text.
-/
namespace Wl2k.Msg.HeaderText
open Wl2k Wl2k.Utf8 Wl2k.Textproto Wl2k.Msg

/-! ### byte tables -/

theorem qByte_table : ∀ n, n < 256 →
    let b := UInt8.ofNat n
    (b = 32 ∧ qByte b = [95]) ∨
    (qByte b = [b] ∧ (b == 95) = false ∧ (b == 61) = false ∧
      ((b ≤ 126 && b ≥ 32) || b == 10 || b == 13 || b == 9) = true) ∨
    (qByte b = [61, upperhex (b >>> 4), upperhex (b &&& 0x0f)] ∧
      readHexByte (upperhex (b >>> 4)) (upperhex (b &&& 0x0f)) = some b) := by decide +kernel

theorem qByte_cases (b : UInt8) :
    (b = 32 ∧ qByte b = [95]) ∨
    (qByte b = [b] ∧ (b == 95) = false ∧ (b == 61) = false ∧
      ((b ≤ 126 && b ≥ 32) || b == 10 || b == 13 || b == 9) = true) ∨
    (qByte b = [61, upperhex (b >>> 4), upperhex (b &&& 0x0f)] ∧
      readHexByte (upperhex (b >>> 4)) (upperhex (b &&& 0x0f)) = some b) := by
  have := qByte_table b.toNat b.toNat_lt; simpa using this

theorem qByte_graphic_table : ∀ n, n < 256 →
    (qByte (UInt8.ofNat n)).all (fun c => 33 ≤ c && c ≤ 126 && c != 63) = true := by decide +kernel

theorem qByte_graphic (b : UInt8) : (qByte b).all (fun c => 33 ≤ c && c ≤ 126 && c != 63) = true := by
  have := qByte_graphic_table b.toNat b.toNat_lt; simpa using this

theorem handByte_table : ∀ n, n < 256 → handByte (UInt8.ofNat n) = qByte (UInt8.ofNat n) := by decide +kernel

theorem handByte_eq (b : UInt8) : handByte b = qByte b := by
  have := handByte_table b.toNat b.toNat_lt; simpa using this

theorem qDecode_cons_ne (c : UInt8) (t : Bytes) (h : (c == 61) = false) : qDecode (c :: t) =
    if c == 95 then (32 :: ·) <$> qDecode t
    else if (c ≤ 126 && c ≥ 32) || c == 10 || c == 13 || c == 9 then (c :: ·) <$> qDecode t
    else none := by
  rcases t with _ | ⟨a, _ | ⟨b, t'⟩⟩
  · rw [qDecode.eq_3 _ _ (by simp)]; simp [h]
  · rw [qDecode.eq_3 _ _ (by simp)]; simp [h]
  · rw [qDecode.eq_2]; simp [h]

theorem qDecode_cons_eq (a b x : UInt8) (t : Bytes) (h : readHexByte a b = some x) :
    qDecode (61 :: a :: b :: t) = (x :: ·) <$> qDecode t := by
  rw [qDecode.eq_2]; simp [h]

theorem qDecode_qByte_append (b : UInt8) (rest : Bytes) :
    qDecode (qByte b ++ rest) = (b :: ·) <$> qDecode rest := by
  rcases qByte_cases b with ⟨rfl, h⟩ | ⟨h, h1, h2, h3⟩ | ⟨h, h1⟩
  · rw [h]; simp [qDecode_cons_ne]
  · rw [h]; simp only [List.cons_append, List.nil_append, qDecode_cons_ne _ _ h2, h1, h3]; simp
  · rw [h]; simp only [List.cons_append, List.nil_append, qDecode_cons_eq _ _ _ _ h1]

theorem qDecode_writeQString (e : Bytes) : qDecode (writeQString e) = some e := by
  induction e with
  | nil => simp [writeQString, qDecode]
  | cons b t ih =>
    have : writeQString (b :: t) = qByte b ++ writeQString t := by simp [writeQString]
    rw [this, qDecode_qByte_append, ih]; rfl

/-- a byte ≥ 0x80 never starts a rune ≤ '~' -/
theorem decodeRune_hi (b : UInt8) (t : Bytes) (h : ¬ b < 0x80) : 126 < (decodeRune (b :: t)).1 := by
  have hb : 128 ≤ b.toNat := by
    simp only [UInt8.lt_iff_toNat_lt, Nat.not_lt] at h; exact h
  simp only [decodeRune]
  rw [if_neg h]
  repeat' split
  all_goals first | (simp [runeError]; done) | skip
  all_goals
    simp only [Bool.and_eq_true, decide_eq_true_eq, UInt8.le_iff_toNat_le, beq_iff_eq, ← UInt8.toNat_inj, UInt8.reduceToNat] at *
  all_goals omega


/-- the bytes `mime.QEncoding` leaves alone: TAB and printable ASCII -/
def plainByte (b : UInt8) : Bool := b == 9 || (32 ≤ b && b ≤ 126)

theorem plainByte_table : ∀ n, n < 256 → n < 128 →
    ((decide (n < 32) || decide (n > 126)) && (n != 9)) = false → plainByte (UInt8.ofNat n) = true := by
  decide +kernel

theorem runes_cons (b : UInt8) (t : Bytes) :
    runesS 0 (b :: t) = (decodeRune (b :: t)).1 :: runesS ((decodeRune (b :: t)).2 - 1) t := by
  simp only [runesS]

/-- `needsEncoding(s) == false` means every BYTE is TAB or printable ASCII (although the loop looks
at runes). -/
theorem needsEncoding_false {s : Bytes} (h : needsEncoding s = false) : s.all plainByte = true := by
  unfold needsEncoding runes at h
  induction s with
  | nil => rfl
  | cons b t ih =>
    rw [runes_cons] at h
    simp only [List.any_cons, Bool.or_eq_false_iff] at h
    by_cases hb : b < 0x80
    · have hd : decodeRune (b :: t) = (b.toNat, 1) := by simp [decodeRune, hb]
      rw [hd] at h
      have hlt : b.toNat < 128 := by simpa [UInt8.lt_iff_toNat_lt] using hb
      have := plainByte_table b.toNat b.toNat_lt hlt h.1
      simp only [UInt8.ofNat_toNat] at this
      simp only [List.all_cons, this, Bool.true_and]
      exact ih h.2
    · have := decodeRune_hi b t hb
      have h1 := h.1
      simp only [Bool.and_eq_false_iff, Bool.or_eq_false_iff, decide_eq_false_iff_not] at h1
      rcases h1 with h1 | h1
      · omega
      · simp at h1; omega

end Wl2k.Msg.HeaderText
