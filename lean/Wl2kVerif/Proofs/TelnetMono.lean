import Wl2kVerif.Proofs.TelnetPair
/-
Prefix-monotonicity of the login models in the chunks received so far.

`dial …` / `accept …` (Telnet/Login.lean) are functions of the list of chunks a side has received,
the peer being silent (or closing) beyond that. Here: if MORE chunks are delivered afterwards
(`cs ++ cs'`), everything the side had already done stays done -
  * a `ReadString` that had returned returns the same line and leaves the same reader, the new chunks
    still waiting on the connection (`readLine_append_ok`);
  * a login that had succeeded stays the same login (`dial_append_conn`, `accept_append_conn`);
  * what the side has written so far - login lines, then its payload once it is through - only
    grows: `dial_out_mono`, `accept_out_mono`.
This is what makes "bytes in flight" well defined in the scheduler model `Telnet/Sched.lean`.
Proved for the real model functions, every classifier/trim function/configuration, every deadline
and every `close`.
-/
namespace Wl2k.Telnet
open Wl2k Wl2k.Str

/-- The same reader with more chunks still to come on the connection. -/
def Rd.ext (r : Rd) (cs' : Chunks) : Rd := { r with chunks := r.chunks ++ cs' }

theorem flat_append (a b : Chunks) : flat (a ++ b) = flat a ++ flat b := by simp [flat]

@[simp] theorem Rd.ext_buf (r : Rd) (cs' : Chunks) : (r.ext cs').buf = r.buf := rfl
@[simp] theorem Rd.ext_now (r : Rd) (cs' : Chunks) : (r.ext cs').now = r.now := rfl
@[simp] theorem Rd.ext_chunks (r : Rd) (cs' : Chunks) : (r.ext cs').chunks = r.chunks ++ cs' := rfl

theorem Rd.ext_stream (r : Rd) (cs' : Chunks) : (r.ext cs').stream = r.stream ++ flat cs' := by
  simp [Rd.stream, Rd.ext, flat_append]

/-- A read that returned data returns the same data when more chunks follow. -/
theorem recv_append_data {D close : Option Nat} {now cap : Nat} (cs' : Chunks) :
    ∀ {cs : Chunks} {now' : Nat} {bs : Bytes} {rest : Chunks},
      recv D now cap close cs = .data now' bs rest →
      recv D now cap close (cs ++ cs') = .data now' bs (rest ++ cs')
  | [], _, _, _, h => by
    simp only [recv] at h
    repeat' split at h
    all_goals simp at h
  | (t, c) :: cs, now', bs, rest, h => by
    simp only [List.cons_append, recv] at h ⊢
    split at h
    · next hc =>
      simp only [hc, if_true]
      exact recv_append_data cs' h
    · next hc =>
      simp only [hc]
      split at h
      · simp at h
      · next hd =>
        simp only [hd]
        simp only [Recv.data.injEq] at h
        obtain ⟨rfl, rfl, rfl⟩ := h
        simp only [Bool.false_eq_true, if_false, Recv.data.injEq, true_and]
        split <;> simp

/-- A `ReadString` that returned a line returns the same line, whatever is delivered later; the later
chunks stay on the connection. -/
theorem readLineF_append_ok' {D close : Option Nat} (cs' : Chunks) :
    ∀ (f : Nat) (acc buf : Bytes) (cs : Chunks) (now : Nat) {line : Bytes} {r' : Rd},
      readLineF D close f acc ⟨buf, cs, now⟩ = .ok line r' → ∀ f', f ≤ f' →
      readLineF D close f' acc ⟨buf, cs ++ cs', now⟩ = .ok line ⟨r'.buf, r'.chunks ++ cs', r'.now⟩
  | 0, _, _, _, _, _, _, h, _, _ => by simp [readLineF] at h
  | f + 1, acc, buf, cs, now, line, r', h, f', hf => by
    obtain ⟨g, rfl⟩ : ∃ g, f' = g + 1 := ⟨f' - 1, by omega⟩
    simp only [readLineF] at h ⊢
    split at h
    · next l rest hs =>
      simp only [RL.ok.injEq] at h ⊢
      obtain ⟨rfl, rfl⟩ := h
      exact ⟨rfl, rfl⟩
    · next hs =>
      split at h
      · next now1 bs rest hr =>
        rw [recv_append_data cs' hr]
        exact readLineF_append_ok' cs' f _ _ _ _ h g (by omega)
      · simp at h
      · simp at h

theorem readLineF_append_ok {D close : Option Nat} (cs' : Chunks) (f : Nat) (acc : Bytes) (r : Rd)
    {line : Bytes} {r' : Rd} (h : readLineF D close f acc r = .ok line r') (f' : Nat) (hf : f ≤ f') :
    readLineF D close f' acc (r.ext cs') = .ok line (r'.ext cs') :=
  readLineF_append_ok' cs' f acc r.buf r.chunks r.now h f' hf

theorem readLine_append_ok {D close : Option Nat} (cs' : Chunks) {r : Rd} {line : Bytes} {r' : Rd}
    (h : readLine D close r = .ok line r') :
    readLine D close (r.ext cs') = .ok line (r'.ext cs') := by
  apply readLineF_append_ok cs' _ _ _ h
  simp only [Rd.ext_chunks, flat_append, List.length_append]
  omega

/-! ### The dialler -/

def Loop.writes : Loop → List Bytes
  | .done w _ => w
  | .stop d => d.writes

/-- The loop only ever appends to what it has written. -/
theorem clientLoop_writes_prefix (classify : Bytes → Kind) (D close : Option Nat) (call pw : Bytes) :
    ∀ (f : Nat) (w : List Bytes) (r : Rd),
      clientLoop classify D close call pw f w r ≠ .stop .fuel →
      w <+: (clientLoop classify D close call pw f w r).writes
  | 0, _, _, h => by simp [clientLoop] at h
  | f + 1, w, r, h => by
    simp only [clientLoop] at h ⊢
    split
    · next line r' hr =>
      simp only [hr] at h
      split
      · next hk =>
        simp only [hk] at h
        exact List.IsPrefix.trans (List.prefix_append _ _)
          (clientLoop_writes_prefix classify D close call pw f _ r' h)
      · simp [Loop.writes]
      · next hk =>
        simp only [hk] at h
        exact clientLoop_writes_prefix classify D close call pw f _ r' h
    · simp [Loop.writes, Dial.writes]
    · simp [Loop.writes, Dial.writes]
    · next hr => simp only [hr] at h; exact absurd rfl h

/-- The loop never produces a connection by itself (only `dial` does, after `break L`). -/
theorem clientLoop_stop_not_loggedIn (classify : Bytes → Kind) (D close : Option Nat) (call pw : Bytes) :
    ∀ (f : Nat) (w : List Bytes) (r : Rd) (d : Dial),
      clientLoop classify D close call pw f w r = .stop d → d.loggedIn = false
  | 0, _, _, d, h => by
    simp only [clientLoop, Loop.stop.injEq] at h
    subst h; rfl
  | f + 1, w, r, d, h => by
    simp only [clientLoop] at h
    split at h
    · split at h
      · exact clientLoop_stop_not_loggedIn classify D close call pw f _ _ d h
      · simp at h
      · exact clientLoop_stop_not_loggedIn classify D close call pw f _ _ d h
    all_goals
      simp only [Loop.stop.injEq] at h
      subst h; rfl

/-- More chunks delivered later: a loop that had left through `break L` leaves the same way with the
same writes; a loop that had stopped (blocked, EOF, timeout) had written a prefix of what it writes
now. -/
theorem clientLoop_append (classify : Bytes → Kind) (D close : Option Nat) (call pw : Bytes)
    (cs' : Chunks) :
    ∀ (f : Nat) (w : List Bytes) (r : Rd) (f' : Nat),
      r.stream.length < f → f ≤ f' → (r.ext cs').stream.length < f' →
      (∀ w' r', clientLoop classify D close call pw f w r = .done w' r' →
        clientLoop classify D close call pw f' w (r.ext cs') = .done w' (r'.ext cs')) ∧
      (∀ d, clientLoop classify D close call pw f w r = .stop d →
        d.writes <+: (clientLoop classify D close call pw f' w (r.ext cs')).writes)
  | 0, _, _, _, h, _, _ => by omega
  | f + 1, w, r, f', hf, hff, hf' => by
    obtain ⟨g, rfl⟩ : ∃ g, f' = g + 1 := ⟨f' - 1, by omega⟩
    have hnf := clientLoop_nofuel classify D close call pw (g + 1) w (r.ext cs') hf'
    have hpre := clientLoop_writes_prefix classify D close call pw (g + 1) w (r.ext cs') hnf
    cases hr : readLine D close r with
    | ok line r1 =>
      have hr' := readLine_append_ok cs' hr
      have hs1 := readLine_shrinks hr
      have hs2 := readLine_shrinks hr'
      simp only [clientLoop, hr, hr']
      cases hk : classify line with
      | callsign =>
        exact clientLoop_append classify D close call pw cs' f _ r1 g (by omega) (by omega) (by omega)
      | password =>
        refine ⟨?_, by simp⟩
        intro w' r' e
        simp only [Loop.done.injEq] at e ⊢
        exact ⟨e.1, by rw [e.2]⟩
      | other =>
        exact clientLoop_append classify D close call pw cs' f _ r1 g (by omega) (by omega) (by omega)
    | fail e t =>
      refine ⟨by simp [clientLoop, hr], ?_⟩
      intro d hd
      simp only [clientLoop, hr, Loop.stop.injEq] at hd
      subst hd
      exact hpre
    | hang =>
      refine ⟨by simp [clientLoop, hr], ?_⟩
      intro d hd
      simp only [clientLoop, hr, Loop.stop.injEq] at hd
      subst hd
      exact hpre
    | fuel => exact absurd hr (readLine_nofuel r)

/-- What a side has written so far: its login lines, then - once it is through the login - its
payload. -/
def Dial.out (payload : Bytes) (d : Dial) : Bytes :=
  d.writes.flatten ++ (if d.loggedIn then payload else [])

def Accept.out (payload : Bytes) (a : Accept) : Bytes :=
  a.writes.flatten ++ (if a.loggedIn then payload else [])

theorem flatten_prefix {a b : List Bytes} (h : a <+: b) : a.flatten <+: b.flatten := by
  obtain ⟨c, rfl⟩ := h
  simp

/-- **A login that had succeeded stays the same login**, the later chunks being left on the
connection for the caller. -/
theorem dial_append_conn (classify : Bytes → Kind) (cfg : Cfg) (D close : Option Nat) (call pw : Bytes)
    (now : Nat) (cs cs' : Chunks) {c : Conn} {w : List Bytes} {t : Nat}
    (h : dial classify cfg D close call pw now cs = .conn c w t) :
    dial classify cfg D close call pw now (cs ++ cs') =
      .conn { c with chunks := c.chunks ++ cs' } w t := by
  simp only [dial] at h ⊢
  generalize (if cfg.loginDeadline = true then D else none) = D' at h ⊢
  obtain ⟨h1, h2⟩ := clientLoop_append classify D' close call pw cs' ((flat cs).length + 1) []
    ⟨[], cs, now⟩ ((flat (cs ++ cs')).length + 1) (by simp [Rd.stream])
    (by simp only [flat_append, List.length_append]; omega)
    (by simp [Rd.stream, flat_append])
  cases hl : clientLoop classify D' close call pw ((flat cs).length + 1) [] ⟨[], cs, now⟩ with
  | stop d =>
    simp only [hl] at h
    subst h
    exact absurd (clientLoop_stop_not_loggedIn _ _ _ _ _ _ _ _ _ hl) (by simp [Dial.loggedIn])
  | done w1 r1 =>
    have := h1 w1 r1 hl
    simp only [Rd.ext] at this
    simp only [hl] at h
    simp only [this]
    split at h
    · simp at h
    · next hd =>
      simp only [hd]
      simp only [Dial.conn.injEq] at h
      obtain ⟨rfl, rfl, rfl⟩ := h
      rfl

/-- `dial`'s writes are the loop's writes. -/
theorem dial_writes (classify : Bytes → Kind) (cfg : Cfg) (D close : Option Nat) (call pw : Bytes)
    (now : Nat) (cs : Chunks) :
    (dial classify cfg D close call pw now cs).writes =
      (clientLoop classify (if cfg.loginDeadline = true then D else none) close call pw
        ((flat cs).length + 1) [] ⟨[], cs, now⟩).writes := by
  simp only [dial]
  generalize (if cfg.loginDeadline = true then D else none) = D'
  cases hl : clientLoop classify D' close call pw ((flat cs).length + 1) [] ⟨[], cs, now⟩ with
  | stop d => rfl
  | done w r =>
    simp only [Loop.writes]
    split <;> rfl

/-- The list of `Write` calls of the dialler only grows with the chunks it has received. -/
theorem dial_writes_mono (classify : Bytes → Kind) (cfg : Cfg) (D close : Option Nat) (call pw : Bytes)
    (now : Nat) (cs cs' : Chunks) :
    (dial classify cfg D close call pw now cs).writes <+:
      (dial classify cfg D close call pw now (cs ++ cs')).writes := by
  rw [dial_writes, dial_writes]
  generalize (if cfg.loginDeadline = true then D else none) = D'
  obtain ⟨h1, h2⟩ := clientLoop_append classify D' close call pw cs' ((flat cs).length + 1) []
    ⟨[], cs, now⟩ ((flat (cs ++ cs')).length + 1) (by simp [Rd.stream])
    (by simp only [flat_append, List.length_append]; omega)
    (by simp [Rd.stream, flat_append])
  cases hl : clientLoop classify D' close call pw ((flat cs).length + 1) [] ⟨[], cs, now⟩ with
  | stop d => exact h2 _ hl
  | done w1 r1 =>
    have := h1 w1 r1 hl
    simp only [Rd.ext] at this
    rw [this]
    exact List.prefix_refl _

/-- **The dialler's output only grows** with the chunks it has received: what it had written after
`cs` is a prefix of what it has written after `cs ++ cs'` (every classifier, configuration,
deadline and `close`). -/
theorem dial_out_mono (classify : Bytes → Kind) (cfg : Cfg) (D close : Option Nat) (call pw : Bytes)
    (now : Nat) (payload : Bytes) (cs cs' : Chunks) :
    (dial classify cfg D close call pw now cs).out payload <+:
      (dial classify cfg D close call pw now (cs ++ cs')).out payload := by
  have hm := flatten_prefix (dial_writes_mono classify cfg D close call pw now cs cs')
  cases hd : dial classify cfg D close call pw now cs with
  | conn c w t =>
    rw [dial_append_conn classify cfg D close call pw now cs cs' hd]
    exact List.prefix_refl _
  | fuel => simp [Dial.out, Dial.writes, Dial.loggedIn]
  | fail e w t =>
    rw [hd] at hm
    simp only [Dial.out, Dial.loggedIn, Bool.false_eq_true, if_false, List.append_nil]
    exact List.IsPrefix.trans hm (List.prefix_append _ _)
  | hang w =>
    rw [hd] at hm
    simp only [Dial.out, Dial.loggedIn, Bool.false_eq_true, if_false, List.append_nil]
    exact List.IsPrefix.trans hm (List.prefix_append _ _)

/-! ### The listener -/

theorem accept_append_conn (trim : Bytes → Bytes) (cfg : Cfg) (close : Option Nat) (cs cs' : Chunks)
    {c : Conn} {w : List Bytes} (h : accept trim cfg close cs = .conn c none w) :
    accept trim cfg close (cs ++ cs') = .conn { c with chunks := c.chunks ++ cs' } none w := by
  simp only [accept] at h ⊢
  cases h1 : readLine none close ⟨[], cs, 0⟩ with
  | ok line r =>
    have h1' := readLine_append_ok cs' h1
    simp only [Rd.ext] at h1'
    simp only [h1] at h
    simp only [h1']
    cases h2 : readLine none close r with
    | ok l2 r2 =>
      have h2' := readLine_append_ok cs' h2
      simp only [Rd.ext] at h2'
      simp only [h2] at h
      simp only [h2']
      simp only [Accept.conn.injEq] at h
      obtain ⟨rfl, _, rfl⟩ := h
      rfl
    | fail e t => simp [h2] at h
    | hang => simp [h2] at h
    | fuel => simp [h2] at h
  | fail e t => simp [h1] at h
  | hang => simp [h1] at h
  | fuel => simp [h1] at h

/-- Whatever it has received, the listener has written its callsign prompt first. -/
theorem accept_out_any (trim : Bytes → Bytes) (cfg : Cfg) (close : Option Nat) (payload : Bytes)
    (cs : Chunks) : callPrompt <+: (accept trim cfg close cs).out payload := by
  simp only [accept]
  cases h1 : readLine none close ⟨[], cs, 0⟩ with
  | fuel => exact absurd h1 (readLine_nofuel _)
  | ok line r =>
    cases h2 : readLine none close r with
    | fuel => exact absurd h2 (readLine_nofuel _)
    | _ => simp [h2, Accept.out, Accept.writes]
  | _ => simp [Accept.out, Accept.writes]

/-- Once the callsign line has been read, both prompts have been written. -/
theorem accept_out_ok1 (trim : Bytes → Bytes) (cfg : Cfg) (close : Option Nat) (payload : Bytes)
    (cs : Chunks) {line : Bytes} {r : Rd} (h1 : readLine none close ⟨[], cs, 0⟩ = .ok line r) :
    callPrompt ++ pwPrompt <+: (accept trim cfg close cs).out payload := by
  simp only [accept, h1]
  cases h2 : readLine none close r with
  | fuel => exact absurd h2 (readLine_nofuel _)
  | _ => simp [Accept.out, Accept.writes]

/-- **The listener's output only grows** with the chunks it has received. -/
theorem accept_out_mono (trim : Bytes → Bytes) (cfg : Cfg) (close : Option Nat) (payload : Bytes)
    (cs cs' : Chunks) :
    (accept trim cfg close cs).out payload <+: (accept trim cfg close (cs ++ cs')).out payload := by
  have hany := accept_out_any trim cfg close payload (cs ++ cs')
  cases h1 : readLine none close ⟨[], cs, 0⟩ with
  | ok line r =>
    have h1' := readLine_append_ok cs' h1
    simp only [Rd.ext] at h1'
    have hok := accept_out_ok1 trim cfg close payload (cs ++ cs') h1'
    cases h2 : readLine none close r with
    | ok l2 r2 =>
      have h2' := readLine_append_ok cs' h2
      simp only [Rd.ext] at h2'
      simp only [accept, h1, h1', h2, h2']
      simp [Accept.out, Accept.writes, Accept.loggedIn]
    | fail e t =>
      have : (accept trim cfg close cs).out payload = callPrompt ++ pwPrompt := by
        simp [accept, h1, h2, Accept.out, Accept.writes, Accept.loggedIn]
      rw [this]; exact hok
    | hang =>
      have : (accept trim cfg close cs).out payload = callPrompt ++ pwPrompt := by
        simp [accept, h1, h2, Accept.out, Accept.writes, Accept.loggedIn]
      rw [this]; exact hok
    | fuel => exact absurd h2 (readLine_nofuel _)
  | fuel => exact absurd h1 (readLine_nofuel _)
  | fail e t =>
    have : (accept trim cfg close cs).out payload = callPrompt := by
      simp [accept, h1, Accept.out, Accept.writes, Accept.loggedIn]
    rw [this]; exact hany
  | hang =>
    have : (accept trim cfg close cs).out payload = callPrompt := by
      simp [accept, h1, Accept.out, Accept.writes, Accept.loggedIn]
    rw [this]; exact hany

end Wl2k.Telnet
