import Wl2kVerif.Proofs.EmitAccept
/-
`readHandshake` as a fold over the remote's handshake lines: every line is classified on its own
(SID / `;FW` / `;PQ` / prompt / anything else), the three kinds of data are independent registers, and the
value of each register at the end is that of the LAST line of its kind — whatever the order of the lines
and whatever stands between them. Generic in the handler (`hstep`), for both roles.
Used by `Props/C16_order.lean`.
-/
namespace Wl2k.B2F.HsOrder
open Wl2k Wl2k.Fmt Wl2k.Str Wl2k.Strconv Wl2k.B2F

variable {H : Type} (hstep : H → Call → H × Reply)

/-! ### one line -/

/-- what the line reader (`nextLineRemoteErr(false)`: `ReadString('\r')` then `cleanString`) hands to the
loop for the raw line `l` (the bytes before the CR) -/
def cleanLine (l : Bytes) : Bytes := cleanString (l ++ [13])

/-- what one cleaned line does to the loop -/
inductive LineStep where
  | cont (d : HsData)
  | stop (d : HsData)
  | err (e : SErr)

/-- the `switch` of `readHandshake`, case for case in the order of the source -/
def lineStep (data : HsData) (x : Bytes) : LineStep :=
  if isSID x then
    match parseSID x with
    | none => .err (.proto "bad-sid")
    | some sid => if !containsSub sid (sb "B2") then .err (.proto "no-fb2") else .cont { data with sid := sid }
  else if (sb ";FW").isPrefixOf x then
    match parseFW x with
    | none => .err (.proto "malformed-fw")
    | some fw => .cont { data with fw := fw }
  else if (sb ";PQ").isPrefixOf x then
    if x.length < 5 then .err (.proto "malformed-pq") else .cont { data with challenge := x.drop 5 }
  else if x.getLast? = some 62 then .stop data
  else .cont data

/-- the first byte of a CR-terminated line: what `Peek(1)` sees -/
def firstOf (l : Bytes) : UInt8 := l.headD 13

theorem line_cons (l rest : Bytes) : l ++ 13 :: rest = firstOf l :: ((l ++ 13 :: rest).drop 1) := by
  cases l <;> rfl

/-- **one iteration of the loop** on a complete line: the program does what `lineStep` says -/
theorem run_line (master : Bool) (fuel n : Nat) (data : HsData) (l rest : Bytes) (h : H) (tr : List Ev)
    (h13 : (13 : UInt8) ∉ l) (hf : l.length < fuel) (hF : ¬ (firstOf l = 70 ∧ master = true)) :
    Proc.run hstep (readHandshake master fuel (n + 1) data) (l ++ 13 :: rest) h tr =
      match lineStep data (cleanLine l) with
      | .cont d => Proc.run hstep (readHandshake master fuel n d) rest h (.peeked (firstOf l) :: tr)
      | .stop d => (.done (.ok d), rest, h, .peeked (firstOf l) :: tr)
      | .err e => (.done (.error e), rest, h, .peeked (firstOf l) :: tr) := by
  conv => lhs; unfold readHandshake
  rw [line_cons l rest]
  simp only [Proc.run, if_neg hF, bind_eq, pure_eq]
  rw [← line_cons l rest, run_bind, run_nextLineRaw_ok hstep l rest fuel h _ h13 hf]
  simp only [parseFWC_eq, challengeC_eq]
  unfold lineStep cleanLine
  generalize cleanString (l ++ [13]) = x
  split
  · cases parseSID x with
    | none => simp [Proc.run]
    | some sid =>
      simp only
      split <;> first | rfl | simp [Proc.run]
  · split
    · cases parseFW x with
      | none => simp [Proc.run]
      | some fw => rfl
    · split
      · by_cases h5 : x.length < 5
        · simp [h5, Proc.run]
        · simp [h5]
      · split <;> first | rfl | simp [Proc.run]

/-- the master's loop ends at the peek that sees 'F' (nothing is consumed) -/
theorem run_F (fuel n : Nat) (data : HsData) (r : Bytes) (h : H) (tr : List Ev) :
    Proc.run hstep (readHandshake true fuel (n + 1) data) (70 :: r) h tr =
      (.done (.ok data), 70 :: r, h, .peeked 70 :: tr) := by
  conv => lhs; unfold readHandshake
  simp [Proc.run]

/-! ### the kinds of lines -/

/-- a `;FW…` line -/
def isFW (x : Bytes) : Bool := (sb ";FW").isPrefixOf x
/-- a `;PQ…` line -/
def isPQ (x : Bytes) : Bool := (sb ";PQ").isPrefixOf x
/-- the prompt: a line ending in '>' that is neither a SID nor a `;FW…` nor a `;PQ…` line -/
def isPrompt (x : Bytes) : Bool := !isSID x && !isFW x && !isPQ x && x.getLast? == some 62

/-- the error a line raises (`none`: no error) -/
def lineErr (x : Bytes) : Option SErr :=
  if isSID x then
    match parseSID x with
    | none => some (.proto "bad-sid")
    | some sid => if containsSub sid (sb "B2") then none else some (.proto "no-fb2")
  else if isFW x then (if fwPrefix.isPrefixOf x then none else some (.proto "malformed-fw"))
  else if isPQ x then (if x.length < 5 then some (.proto "malformed-pq") else none)
  else none

/-- what a SID line says: the (upper-cased) feature field -/
def sidOf (x : Bytes) : Bytes := (parseSID x).getD []
/-- what a `;FW: a b|hash c` line says: the addresses -/
def fwOf (x : Bytes) : List (Bytes × Bytes) := (parseFW x).getD []
/-- what a `;PQ: text` line says: everything after the fifth byte -/
def chOf (x : Bytes) : Bytes := x.drop 5

/-- the update one line makes: exactly one of three independent registers, or nothing -/
def upd (d : HsData) (x : Bytes) : HsData :=
  if isSID x then { d with sid := sidOf x }
  else if isFW x then { d with fw := fwOf x }
  else if isPQ x then { d with challenge := chOf x }
  else d

theorem sb_FW3 : sb ";FW" = [59, 70, 87] := by decide +kernel
theorem sb_PQ3 : sb ";PQ" = [59, 80, 81] := by decide +kernel

theorem isFW_iff (x : Bytes) : isFW x = true ↔ ∃ t, x = 59 :: 70 :: 87 :: t := by
  unfold isFW; rw [sb_FW3]
  constructor
  · intro h
    obtain ⟨t, ht⟩ := List.isPrefixOf_iff_prefix.mp h
    exact ⟨t, ht.symm⟩
  · rintro ⟨t, rfl⟩
    exact List.isPrefixOf_iff_prefix.mpr ⟨t, rfl⟩

theorem isPQ_iff (x : Bytes) : isPQ x = true ↔ ∃ t, x = 59 :: 80 :: 81 :: t := by
  unfold isPQ; rw [sb_PQ3]
  constructor
  · intro h
    obtain ⟨t, ht⟩ := List.isPrefixOf_iff_prefix.mp h
    exact ⟨t, ht.symm⟩
  · rintro ⟨t, rfl⟩
    exact List.isPrefixOf_iff_prefix.mpr ⟨t, rfl⟩

/-- the kinds exclude each other (a SID starts with '[', the other two with ';', then 'F' / 'P') -/
theorem isFW_not_sid {x : Bytes} (h : isFW x = true) : isSID x = false := by
  obtain ⟨t, rfl⟩ := (isFW_iff x).mp h
  simp [isSID]

theorem isPQ_not_sid {x : Bytes} (h : isPQ x = true) : isSID x = false := by
  obtain ⟨t, rfl⟩ := (isPQ_iff x).mp h
  simp [isSID]

theorem isPQ_not_fw {x : Bytes} (h : isPQ x = true) : isFW x = false := by
  obtain ⟨t, rfl⟩ := (isPQ_iff x).mp h
  cases hfw : isFW (59 :: 80 :: 81 :: t) with
  | false => rfl
  | true =>
    obtain ⟨u, hu⟩ := (isFW_iff _).mp hfw
    simp at hu

theorem isFW_not_pq {x : Bytes} (h : isFW x = true) : isPQ x = false := by
  cases hpq : isPQ x with
  | false => rfl
  | true => rw [isPQ_not_fw hpq] at h; cases h

theorem isSID_not_fw {x : Bytes} (h : isSID x = true) : isFW x = false := by
  cases hfw : isFW x with
  | false => rfl
  | true => rw [isFW_not_sid hfw] at h; cases h

theorem isSID_not_pq {x : Bytes} (h : isSID x = true) : isPQ x = false := by
  cases hpq : isPQ x with
  | false => rfl
  | true => rw [isPQ_not_sid hpq] at h; cases h

theorem upd_sid (d : HsData) (x : Bytes) : (upd d x).sid = if isSID x then sidOf x else d.sid := by
  unfold upd
  by_cases h1 : isSID x = true
  · simp [h1]
  · by_cases h2 : isFW x = true
    · simp [h1, h2]
    · by_cases h3 : isPQ x = true <;> simp [h1, h2, h3]

theorem upd_fw (d : HsData) (x : Bytes) : (upd d x).fw = if isFW x then fwOf x else d.fw := by
  unfold upd
  by_cases h1 : isSID x = true
  · simp [h1, isSID_not_fw h1]
  · by_cases h2 : isFW x = true
    · simp [h1, h2]
    · by_cases h3 : isPQ x = true <;> simp [h1, h2, h3]

theorem upd_challenge (d : HsData) (x : Bytes) : (upd d x).challenge = if isPQ x then chOf x else d.challenge := by
  unfold upd
  by_cases h1 : isSID x = true
  · simp [h1, isSID_not_pq h1]
  · by_cases h2 : isFW x = true
    · simp [h1, h2, isFW_not_pq h2]
    · by_cases h3 : isPQ x = true <;> simp [h1, h2, h3]

/-- **`lineStep` in terms of the kinds**: an error if the line is malformed, the end of the loop if it is
the prompt, otherwise the update of one register -/
theorem lineStep_eq (d : HsData) (x : Bytes) :
    lineStep d x =
      match lineErr x with
      | some e => .err e
      | none => if isPrompt x then .stop d else .cont (upd d x) := by
  unfold lineStep lineErr isPrompt upd
  by_cases h1 : isSID x = true
  · simp only [h1, if_true, sidOf]
    cases parseSID x with
    | none => rfl
    | some sid =>
      simp only [Option.getD_some]
      by_cases hb : containsSub sid (sb "B2") = true
      · simp [hb]
      · simp [hb]
  · have h1' : isSID x = false := Bool.eq_false_iff.mpr h1
    by_cases h2 : isFW x = true
    · have h2' : (sb ";FW").isPrefixOf x = true := h2
      simp only [h1', h2, h2', Bool.false_eq_true, if_false, if_true, fwOf, parseFW]
      by_cases hp : fwPrefix.isPrefixOf x = true
      · simp [hp]
      · have hp' : fwPrefix.isPrefixOf x = false := Bool.eq_false_iff.mpr hp
        simp [hp']
    · have h2' : isFW x = false := Bool.eq_false_iff.mpr h2
      have h2'' : (sb ";FW").isPrefixOf x = false := h2'
      by_cases h3 : isPQ x = true
      · have h3' : (sb ";PQ").isPrefixOf x = true := h3
        simp only [h1', h2', h2'', h3, h3', Bool.false_eq_true, if_false, if_true, chOf]
        by_cases h5 : x.length < 5
        · simp [h5]
        · simp [h5]
      · have h3' : isPQ x = false := Bool.eq_false_iff.mpr h3
        have h3'' : (sb ";PQ").isPrefixOf x = false := h3'
        simp only [h1', h2', h2'', h3', h3'', Bool.false_eq_true, if_false]
        by_cases hl : x.getLast? = some 62
        · simp [hl]
        · simp [hl]

/-! ### "the last line of a kind" -/

/-- the last element of `xs` that satisfies `p` -/
def lastWhere (p : Bytes → Bool) (xs : List Bytes) : Option Bytes := (xs.filter p).getLast?

/-- the value `f` of the last element satisfying `p`, `dflt` if there is none -/
def pick {α : Type} (p : Bytes → Bool) (f : Bytes → α) (dflt : α) (xs : List Bytes) : α :=
  match lastWhere p xs with
  | some y => f y
  | none => dflt

theorem lastWhere_nil (p : Bytes → Bool) : lastWhere p [] = none := rfl

theorem lastWhere_cons (p : Bytes → Bool) (x : Bytes) (xs : List Bytes) :
    lastWhere p (x :: xs) =
      match lastWhere p xs with
      | some y => some y
      | none => if p x then some x else none := by
  unfold lastWhere
  by_cases hx : p x = true
  · rw [List.filter_cons_of_pos hx, List.getLast?_cons]
    cases (xs.filter p).getLast? <;> simp [hx]
  · rw [List.filter_cons_of_neg hx]
    cases (xs.filter p).getLast? <;> simp [hx]

theorem lastWhere_snoc (p : Bytes → Bool) (xs : List Bytes) (x : Bytes) :
    lastWhere p (xs ++ [x]) = if p x then some x else lastWhere p xs := by
  unfold lastWhere
  by_cases hx : p x = true
  · simp [List.filter_append, hx]
  · simp [List.filter_append, hx]

theorem pick_cons {α : Type} (p : Bytes → Bool) (f : Bytes → α) (dflt : α) (x : Bytes) (xs : List Bytes) :
    pick p f dflt (x :: xs) = pick p f (if p x then f x else dflt) xs := by
  unfold pick
  rw [lastWhere_cons]
  cases lastWhere p xs with
  | some y => rfl
  | none => by_cases hx : p x = true <;> simp [hx]

/-- the handshake data after the lines `xs` (cleaned), starting from `d0`: each register holds what the
LAST line of its kind says, or its initial value if there is no line of that kind -/
def result (d0 : HsData) (xs : List Bytes) : HsData :=
  { sid := pick isSID sidOf d0.sid xs
    fw := pick isFW fwOf d0.fw xs
    challenge := pick isPQ chOf d0.challenge xs }

theorem hsData_eta (d : HsData) : d = { sid := d.sid, fw := d.fw, challenge := d.challenge } := by
  cases d; rfl

/-- folding the per-line update = taking the last line of each kind -/
theorem foldl_upd : ∀ (xs : List Bytes) (d0 : HsData), xs.foldl upd d0 = result d0 xs := by
  intro xs
  induction xs with
  | nil => intro d0; exact hsData_eta d0
  | cons x xs ih =>
    intro d0
    rw [List.foldl_cons, ih]
    unfold result
    rw [pick_cons isSID, pick_cons isFW, pick_cons isPQ, upd_sid, upd_fw, upd_challenge]

/-- the result depends on the lines only through the three per-kind subsequences: lines of different kinds
may be permuted, neutral lines inserted or deleted -/
theorem result_congr (d0 : HsData) (xs ys : List Bytes) (h1 : xs.filter isSID = ys.filter isSID)
    (h2 : xs.filter isFW = ys.filter isFW) (h3 : xs.filter isPQ = ys.filter isPQ) : result d0 xs = result d0 ys := by
  unfold result pick lastWhere
  rw [h1, h2, h3]

/-! ### the loop over a list of lines -/

/-- the bytes of a list of lines, each with its CR -/
def joinCR (ls : List Bytes) : Bytes := (ls.map (· ++ [13])).flatten

theorem joinCR_cons (l : Bytes) (ls : List Bytes) : joinCR (l :: ls) = l ++ 13 :: joinCR ls := by
  simp [joinCR]

theorem joinCR_append (a b : List Bytes) : joinCR (a ++ b) = joinCR a ++ joinCR b := by
  simp [joinCR]

/-- the peeks the loop makes over the lines `ls` (newest first, as traces are kept) -/
def peeksOf (ls : List Bytes) : List Ev := (ls.map fun l => Ev.peeked (firstOf l)).reverse

theorem peeksOf_cons (l : Bytes) (ls : List Bytes) : peeksOf (l :: ls) = peeksOf ls ++ [Ev.peeked (firstOf l)] := by
  simp [peeksOf]

/-- the lexical conditions on one raw line: no CR inside, shorter than the line reader's fuel, and — for a
master, whose loop ends at a line starting with 'F' — not starting with 'F' -/
def LineOK (master : Bool) (fuel : Nat) (l : Bytes) : Prop :=
  (13 : UInt8) ∉ l ∧ l.length < fuel ∧ ¬ (firstOf l = 70 ∧ master = true)

/-- a line that lets the loop go on: well-formed for its kind, and not the prompt -/
def Passes (x : Bytes) : Prop := lineErr x = none ∧ isPrompt x = false

theorem lineStep_passes (d : HsData) {x : Bytes} (h : Passes x) : lineStep d x = .cont (upd d x) := by
  rw [lineStep_eq, h.1]
  simp [h.2]

/-- **the loop over lines that all let it go on** is the fold of their updates -/
theorem run_lines (master : Bool) (fuel : Nat) : ∀ (ls : List Bytes) (n : Nat) (d0 : HsData) (rest : Bytes) (h : H)
    (tr : List Ev), (∀ l ∈ ls, LineOK master fuel l) → (∀ l ∈ ls, Passes (cleanLine l)) →
    Proc.run hstep (readHandshake master fuel (n + ls.length) d0) (joinCR ls ++ rest) h tr =
      Proc.run hstep (readHandshake master fuel n ((ls.map cleanLine).foldl upd d0)) rest h (peeksOf ls ++ tr) := by
  intro ls
  induction ls with
  | nil => intro n d0 rest h tr _ _; simp [joinCR, peeksOf]
  | cons l ls ih =>
    intro n d0 rest h tr hok hpass
    obtain ⟨h13, hf, hF⟩ := hok l (by simp)
    rw [joinCR_cons, List.append_assoc, List.cons_append, List.length_cons, ← Nat.add_assoc,
      run_line hstep master fuel (n + ls.length) d0 l (joinCR ls ++ rest) h tr h13 hf hF,
      lineStep_passes d0 (hpass l (by simp))]
    simp only
    rw [ih n (upd d0 (cleanLine l)) rest h _ (fun q hq => hok q (by simp [hq])) (fun q hq => hpass q (by simp [hq])),
      peeksOf_cons]
    simp

/-! ### the end of the loop -/

theorem lineErr_of_prompt {x : Bytes} (h : isPrompt x = true) : lineErr x = none := by
  unfold isPrompt at h
  simp only [Bool.and_eq_true, Bool.not_eq_true'] at h
  obtain ⟨⟨⟨h1, h2⟩, h3⟩, _⟩ := h
  unfold lineErr
  simp [h1, h2, h3]

theorem lineStep_prompt (d : HsData) {x : Bytes} (h : isPrompt x = true) : lineStep d x = .stop d := by
  rw [lineStep_eq, lineErr_of_prompt h]
  simp [h]

theorem lineStep_err (d : HsData) {x : Bytes} {e : SErr} (h : lineErr x = some e) : lineStep d x = .err e := by
  rw [lineStep_eq, h]

/-- **lines that let the loop go on, then the prompt**: OK with the fold of the updates, the rest unread -/
theorem run_lines_prompt (master : Bool) (fuel n : Nat) (d0 : HsData) (ls : List Bytes) (p r : Bytes) (h : H)
    (tr : List Ev) (hok : ∀ l ∈ ls, LineOK master fuel l) (hpok : LineOK master fuel p) (hn : ls.length < n)
    (hpass : ∀ l ∈ ls, Passes (cleanLine l)) (hp : isPrompt (cleanLine p) = true) :
    Proc.run hstep (readHandshake master fuel n d0) (joinCR ls ++ p ++ 13 :: r) h tr =
      (.done (.ok (result d0 (ls.map cleanLine))), r, h, .peeked (firstOf p) :: peeksOf ls ++ tr) := by
  obtain ⟨k, rfl⟩ : ∃ k, n = (k + 1) + ls.length := ⟨n - ls.length - 1, by omega⟩
  obtain ⟨p13, pf, pF⟩ := hpok
  rw [List.append_assoc, run_lines hstep master fuel ls (k + 1) d0 (p ++ 13 :: r) h tr hok hpass,
    run_line hstep master fuel k _ p r h _ p13 pf pF, lineStep_prompt _ hp, foldl_upd]
  rfl

/-- **lines that let the loop go on, then (for a master) a line starting with 'F'**: OK with the fold of
the updates; the 'F' line is left unread -/
theorem run_lines_F (fuel n : Nat) (d0 : HsData) (ls : List Bytes) (r : Bytes) (h : H)
    (tr : List Ev) (hok : ∀ l ∈ ls, LineOK true fuel l) (hn : ls.length < n)
    (hpass : ∀ l ∈ ls, Passes (cleanLine l)) :
    Proc.run hstep (readHandshake true fuel n d0) (joinCR ls ++ 70 :: r) h tr =
      (.done (.ok (result d0 (ls.map cleanLine))), 70 :: r, h, .peeked 70 :: peeksOf ls ++ tr) := by
  obtain ⟨k, rfl⟩ : ∃ k, n = (k + 1) + ls.length := ⟨n - ls.length - 1, by omega⟩
  rw [run_lines hstep true fuel ls (k + 1) d0 (70 :: r) h tr hok hpass, run_F, foldl_upd]
  rfl

/-- **lines that let the loop go on, then a malformed line**: its error, everything after it unread -/
theorem run_lines_err (master : Bool) (fuel n : Nat) (d0 : HsData) (ls : List Bytes) (b r : Bytes) (e : SErr) (h : H)
    (tr : List Ev) (hok : ∀ l ∈ ls, LineOK master fuel l) (hbok : LineOK master fuel b) (hn : ls.length < n)
    (hpass : ∀ l ∈ ls, Passes (cleanLine l)) (hb : lineErr (cleanLine b) = some e) :
    Proc.run hstep (readHandshake master fuel n d0) (joinCR ls ++ b ++ 13 :: r) h tr =
      (.done (.error e), r, h, .peeked (firstOf b) :: peeksOf ls ++ tr) := by
  obtain ⟨k, rfl⟩ : ∃ k, n = (k + 1) + ls.length := ⟨n - ls.length - 1, by omega⟩
  obtain ⟨b13, bf, bF⟩ := hbok
  rw [List.append_assoc, run_lines hstep master fuel ls (k + 1) d0 (b ++ 13 :: r) h tr hok hpass,
    run_line hstep master fuel k _ b r h _ b13 bf bF, lineStep_err _ hb]
  rfl

/-! ### the values of well-formed lines; when cleaning changes nothing -/

theorem containsSub_nil_B2 : containsSub [] (sb "B2") = false := by decide +kernel

/-- what `lineErr x = none` means, kind by kind -/
theorem good_values {x : Bytes} (h : lineErr x = none) :
    (isSID x = true → parseSID x = some (sidOf x) ∧ containsSub (sidOf x) (sb "B2") = true ∧ sidOf x ≠ []) ∧
    (isFW x = true → fwPrefix.isPrefixOf x = true ∧
      fwOf x = (splitOn 32 (x.drop 5)).map fun s => addressFromString ((splitOn 124 s).headD [])) ∧
    (isPQ x = true → 5 ≤ x.length) := by
  refine ⟨?_, ?_, ?_⟩
  · intro h1
    unfold lineErr at h
    simp only [h1, if_true] at h
    unfold sidOf
    cases hp : parseSID x with
    | none => rw [hp] at h; cases h
    | some s =>
      rw [hp] at h
      simp only [Option.getD_some]
      by_cases hb : containsSub s (sb "B2") = true
      · refine ⟨trivial, hb, ?_⟩
        intro e; subst e; rw [containsSub_nil_B2] at hb; cases hb
      · simp [hb] at h
  · intro h2
    unfold lineErr at h
    simp only [isFW_not_sid h2, Bool.false_eq_true, if_false, h2, if_true] at h
    by_cases hp : fwPrefix.isPrefixOf x = true
    · refine ⟨hp, ?_⟩
      unfold fwOf parseFW
      simp [hp]
    · simp [hp] at h
  · intro h3
    unfold lineErr at h
    simp only [isPQ_not_sid h3, isPQ_not_fw h3, Bool.false_eq_true, if_false, h3, if_true] at h
    by_cases h5 : x.length < 5
    · simp [h5] at h
    · omega

/-- what `lineErr x = some e` means: the four ways a handshake line can be malformed -/
theorem bad_cases {x : Bytes} {e : SErr} (h : lineErr x = some e) :
    (isSID x = true ∧ parseSID x = none ∧ e = .proto "bad-sid") ∨
    (isSID x = true ∧ (∃ s, parseSID x = some s ∧ containsSub s (sb "B2") = false) ∧ e = .proto "no-fb2") ∨
    (isFW x = true ∧ fwPrefix.isPrefixOf x = false ∧ e = .proto "malformed-fw") ∨
    (isPQ x = true ∧ x.length < 5 ∧ e = .proto "malformed-pq") := by
  unfold lineErr at h
  by_cases h1 : isSID x = true
  · simp only [h1, if_true] at h
    cases hp : parseSID x with
    | none =>
      rw [hp] at h
      simp only [Option.some.injEq] at h
      exact Or.inl ⟨h1, rfl, h.symm⟩
    | some s =>
      rw [hp] at h
      by_cases hb : containsSub s (sb "B2") = true
      · simp [hb] at h
      · simp only [hb, Bool.false_eq_true, if_false, Option.some.injEq] at h
        exact Or.inr (Or.inl ⟨h1, ⟨s, rfl, Bool.eq_false_iff.mpr hb⟩, h.symm⟩)
  · simp only [h1, Bool.false_eq_true, if_false] at h
    by_cases h2 : isFW x = true
    · simp only [h2, if_true] at h
      by_cases hp : fwPrefix.isPrefixOf x = true
      · simp [hp] at h
      · simp only [hp, Bool.false_eq_true, if_false, Option.some.injEq] at h
        exact Or.inr (Or.inr (Or.inl ⟨h2, Bool.eq_false_iff.mpr hp, h.symm⟩))
    · simp only [h2, Bool.false_eq_true, if_false] at h
      by_cases h3 : isPQ x = true
      · simp only [h3, if_true] at h
        by_cases h5 : x.length < 5
        · simp only [h5, if_true, Option.some.injEq] at h
          exact Or.inr (Or.inr (Or.inr ⟨h3, h5, h.symm⟩))
        · simp [h5] at h
      · simp [h3] at h

/-- a line whose first and last bytes are solid (ASCII, not blank, not NUL) is handed to the loop as it is -/
theorem cleanLine_solid (b0 : UInt8) (t : Bytes) (bl : UInt8) (h0 : Solid b0) (hl : Solid bl) :
    cleanLine (b0 :: (t ++ [bl])) = b0 :: (t ++ [bl]) := cleanString_line b0 t bl h0 hl

/-! ### small facts used by the corollaries -/

theorem lastWhere_some {p : Bytes → Bool} {xs : List Bytes} {y : Bytes} (h : lastWhere p xs = some y) :
    y ∈ xs ∧ p y = true := by
  unfold lastWhere at h
  obtain ⟨ys, hys⟩ := List.getLast?_eq_some_iff.mp h
  have : y ∈ xs.filter p := by rw [hys]; simp
  exact List.mem_filter.mp this

theorem lastWhere_exists {p : Bytes → Bool} {xs : List Bytes} {x : Bytes} (hx : x ∈ xs) (hp : p x = true) :
    ∃ y, lastWhere p xs = some y := by
  unfold lastWhere
  cases h : (xs.filter p).getLast? with
  | some y => exact ⟨y, rfl⟩
  | none =>
    have := List.getLast?_eq_none_iff.mp h
    have hm : x ∈ xs.filter p := List.mem_filter.mpr ⟨hx, hp⟩
    rw [this] at hm
    cases hm

theorem lineErr_pq_ok {x : Bytes} (h : isPQ x = true) (h5 : 5 ≤ x.length) : lineErr x = none := by
  unfold lineErr
  have : ¬ x.length < 5 := by omega
  simp [isPQ_not_sid h, isPQ_not_fw h, h, this]

theorem lineErr_sid_ok {x s : Bytes} (h : isSID x = true) (hs : parseSID x = some s) (hb : containsSub s (sb "B2") = true) :
    lineErr x = none := by
  unfold lineErr
  simp [h, hs, hb]

theorem sidOf_eq {x s : Bytes} (hs : parseSID x = some s) : sidOf x = s := by
  unfold sidOf; rw [hs]; rfl

theorem isPrompt_pq {x : Bytes} (h : isPQ x = true) : isPrompt x = false := by
  unfold isPrompt; simp [h]

theorem isPrompt_fw {x : Bytes} (h : isFW x = true) : isPrompt x = false := by
  unfold isPrompt; simp [h]

theorem isPrompt_sid {x : Bytes} (h : isSID x = true) : isPrompt x = false := by
  unfold isPrompt; simp [h]

theorem sb_PQ5 : sb ";PQ: " = [59, 80, 81, 58, 32] := by decide +kernel

theorem solid_semi' : Solid 59 := by decide
theorem solid_gt' : Solid 62 := by decide

/-! ### the slave's `handshake`: reading, then answering -/

/-- events that write nothing -/
def NoWrites (evs : List Ev) : Prop := ∀ e ∈ evs, ∀ bs, e ≠ Ev.wrote bs

theorem NoWrites.out {evs : List Ev} (h : NoWrites evs) : outBytes evs = [] := by
  induction evs with
  | nil => rfl
  | cons e t ih =>
    have ht : NoWrites t := fun x hx => h x (List.mem_cons_of_mem _ hx)
    cases e with
    | wrote bs => exact absurd rfl (h _ List.mem_cons_self bs)
    | called c => simpa [outBytes] using ih ht
    | peeked b => simpa [outBytes] using ih ht

theorem noWrites_nil : NoWrites [] := fun _ he => by cases he

theorem NoWrites.append {a b : List Ev} (ha : NoWrites a) (hb : NoWrites b) : NoWrites (a ++ b) := by
  intro e he
  rcases List.mem_append.mp he with he | he
  · exact ha e he
  · exact hb e he

theorem noWrites_peeksOf (ls : List Bytes) : NoWrites (peeksOf ls) := by
  intro e he bs hb
  subst hb
  simp [peeksOf] at he

/-- a handler whose password callback knows the passwords: asked for `localFW[i]` it returns `pw i`, no error -/
def KnowsPasswords (pw : Nat → Bytes) : Prop := ∀ (h : H) (i : Nat), (hstep h (.password i)).2 = .password (pw i) false

/-- the callback results `sendHandshake` sees, main address first -/
def cbList (pw : Nat → Bytes) (n : Nat) : List CbRes :=
  ⟨pw 0, false⟩ :: ((List.range n).drop 1).map fun i => ⟨pw i, false⟩

theorem run_askPasswords (pw : Nat → Bytes) (hpw : KnowsPasswords hstep pw) (c : Cfg) (ch : Bytes) :
    ∀ (is : List Nat) (acc : List CbView) (inp : Bytes) (h : H) (tr : List Ev),
    ∃ h' evs, NoWrites evs ∧
      Proc.run hstep (askPasswords c ch is acc) inp h tr =
        (.done (acc.reverse ++ is.map fun i => CbRes.view c.salt ch ⟨pw i, false⟩), inp, h', evs ++ tr) := by
  intro is
  induction is with
  | nil => intro acc inp h tr; exact ⟨h, [], noWrites_nil, by simp [askPasswords, Proc.run]⟩
  | cons i is ih =>
    intro acc inp h tr
    have hr := hpw h i
    cases hs : hstep h (.password i) with
    | mk h1 r1 =>
      rw [hs] at hr
      simp only at hr
      subst hr
      obtain ⟨h', evs, hsil, hrun⟩ := ih (CbRes.view c.salt ch ⟨pw i, false⟩ :: acc) inp h1 (.called (.password i) :: tr)
      refine ⟨h', evs ++ [.called (.password i)], hsil.append ?_, ?_⟩
      · intro e he bs hb
        subst hb
        simp at he
      · simp only [askPasswords, Proc.run, hs]
        rw [hrun]
        simp

theorem handshake_slave_eq (c : Cfg) (fuel : Nat) (hm : c.hs.master = false) :
    handshake c fuel = (readHandshake false fuel fuel {}).bind fun r =>
      match r with
      | .error e => .ret (.error e)
      | .ok hs =>
        if hs.sid.isEmpty then .ret (.error (.proto "no-sid"))
        else (sendHandshakeP c hs.challenge).bind fun r =>
          match r with
          | .error e => .ret (.error e)
          | .ok () => .ret (.ok hs) := by
  unfold handshake
  simp only [hm, Bool.false_eq_true, if_false, bind_eq, pure_eq, Bool.not_false, if_true]
  congr

/-- **the slave's `handshake`**, given what its `readHandshake` does on the input: with a SID, a non-empty
challenge and a callback that knows the passwords it makes the password calls and then ONE write, of exactly
what `sendHandshake` computes from the challenge and the passwords -/
theorem run_handshake_slave (pw : Nat → Bytes) (hpw : KnowsPasswords hstep pw) (c : Cfg) (hm : c.hs.master = false)
    (fuel : Nat) (inp r : Bytes) (h : H) (d : HsData) (pk : List Ev)
    (hread : Proc.run hstep (readHandshake false fuel fuel {}) inp h [] = (.done (.ok d), r, h, pk))
    (hsid : d.sid ≠ []) (hch : d.challenge ≠ []) (hcb : c.hs.hasCb = true) (bs : Bytes)
    (hbs : sendHandshake c.salt c.hs d.challenge (cbList pw c.hs.localFW.length) = some bs) :
    ∃ h' evs, NoWrites evs ∧
      Proc.run hstep (handshake c fuel) inp h [] = (.done (.ok d), r, h', .wrote bs :: (evs ++ pk)) := by
  rw [handshake_slave_eq c fuel hm, run_bind, hread]
  have hs1 : d.sid.isEmpty = false := by cases hd : d.sid with | nil => exact absurd hd hsid | cons a t => rfl
  have hc1 : d.challenge.isEmpty = false := by
    cases hd : d.challenge with | nil => exact absurd hd hch | cons a t => rfl
  simp only [hs1, Bool.false_eq_true, if_false]
  rw [run_bind]
  unfold sendHandshakeP
  simp only [hc1, hcb, Bool.not_false, Bool.not_true, Bool.false_eq_true, and_false, if_false, bind_eq]
  obtain ⟨h1, ev1, hs1', hr1⟩ := run_askPasswords hstep pw hpw c d.challenge ((List.range c.hs.localFW.length).drop 1) [] r h pk
  obtain ⟨h2, ev2, hs2', hr2⟩ := run_askPasswords hstep pw hpw c d.challenge [0] [] r h1 (ev1 ++ pk)
  rw [run_bind, hr1]
  simp only
  rw [run_bind, hr2]
  simp only [List.reverse_nil, List.nil_append, List.map_cons, List.map_nil, List.cons_append]
  have hv : sendHandshakeV c.hs d.challenge
      (CbRes.view c.salt d.challenge ⟨pw 0, false⟩ ::
        ((List.range c.hs.localFW.length).drop 1).map fun i => CbRes.view c.salt d.challenge ⟨pw i, false⟩) = some bs := by
    rw [← hbs]; unfold sendHandshake cbList
    simp only [List.map_cons, List.map_map]
    rfl
  rw [hv]
  refine ⟨h2, ev2 ++ ev1, hs2'.append hs1', ?_⟩
  simp [Proc.run]

end Wl2k.B2F.HsOrder
