import Wl2kVerif.B2F.InGrammar
import Wl2kVerif.Proofs.Checked
import Wl2kVerif.Proofs.EmitWalk
/-
The input grammar's answer recogniser (`InGrammar.answersOK`) against the session's answer parser
(`parseProposalAnswerC` = `parseProposalAnswer`/`parseAnswersAux` of B2F/Wire.lean): an `FS` line whose
answers the grammar allows is parsed without error, into one (answer, offset) pair per proposal, every
answer one of `0 + - =` and every offset inside the message it is for.
-/
namespace Wl2k.B2F
open Wl2k Wl2k.Str Wl2k.Strconv Wl2k.B2F.InGrammar

namespace AcceptAnswers

/-! ### the letters -/

/-- the plain letters, as `answersOK` tests them -/
def plainB (a : UInt8) : Bool :=
  a == 43 || a == 89 || a == 121 || a == 45 || a == 78 || a == 110 || a == 82 || a == 114 ||
    a == 61 || a == 76 || a == 108 || a == 72 || a == 104

/-- the offset letters, as `answersOK` tests them -/
def offB (a : UInt8) : Bool := a == 33 || a == 65 || a == 97

abbrev PAcc (c : UInt8) : Prop := c = 89 ∨ c = 121 ∨ c = 43
abbrev PRej (c : UInt8) : Prop := c = 78 ∨ c = 110 ∨ c = 82 ∨ c = 114 ∨ c = 45
abbrev PDef (c : UInt8) : Prop := c = 76 ∨ c = 108 ∨ c = 61 ∨ c = 72 ∨ c = 104
abbrev POff (c : UInt8) : Prop := c = 65 ∨ c = 97 ∨ c = 33

instance (c : UInt8) : Decidable (PAcc c) := by unfold PAcc; infer_instance
instance (c : UInt8) : Decidable (PRej c) := by unfold PRej; infer_instance
instance (c : UInt8) : Decidable (PDef c) := by unfold PDef; infer_instance
instance (c : UInt8) : Decidable (POff c) := by unfold POff; infer_instance

/-- the two functions group the letters differently; the table relates the groupings -/
theorem letter_table : ∀ a : UInt8,
    (plainB a = true ∧ (PAcc a ∨ (¬ PAcc a ∧ PRej a) ∨ (¬ PAcc a ∧ ¬ PRej a ∧ PDef a))) ∨
    (plainB a = false ∧ offB a = true ∧ ¬ PAcc a ∧ ¬ PRej a ∧ ¬ PDef a ∧ POff a) ∨
    (plainB a = false ∧ offB a = false) :=
  byte_table (by decide +kernel)

/-! ### one step of the recogniser -/

theorem answersOK_plain (f c : Nat) (cs : List Nat) (a : UInt8) (rest : Bytes) (h : plainB a = true) :
    answersOK (f + 1) (c :: cs) (a :: rest) = answersOK f cs rest := by
  unfold plainB at h
  simp only [answersOK, h, if_true]

theorem answersOK_off (f c : Nat) (cs : List Nat) (a : UInt8) (rest : Bytes) (h : plainB a = false)
    (ho : offB a = true) :
    answersOK (f + 1) (c :: cs) (a :: rest) =
      (!(rest.takeWhile isDigit).isEmpty && decide (digitsVal (rest.takeWhile isDigit) ≤ c) &&
        answersOK f cs (rest.drop (rest.takeWhile isDigit).length)) := by
  unfold plainB at h
  unfold offB at ho
  simp only [answersOK, h, ho, if_true, Bool.false_eq_true, if_false]

theorem answersOK_bad (f c : Nat) (cs : List Nat) (a : UInt8) (rest : Bytes) (h : plainB a = false)
    (ho : offB a = false) :
    answersOK (f + 1) (c :: cs) (a :: rest) = false := by
  unfold plainB at h
  unfold offB at ho
  simp only [answersOK, h, ho, Bool.false_eq_true, if_false]

/-! ### one step of the parser -/

theorem parse_acc (limit n f : Nat) (c : UInt8) (rest : Bytes) (i : Nat) (acc : List (UInt8 × Int))
    (hi : i < n) (h : PAcc c) :
    parseAnswersAux limit n (f + 1) (c :: rest) i acc =
      parseAnswersAux limit n f rest (i + 1) (acc.set i (ansAccept, 0)) := by
  simp only [parseAnswersAux]
  rw [if_neg (by omega), if_pos h]

theorem parse_rej (limit n f : Nat) (c : UInt8) (rest : Bytes) (i : Nat) (acc : List (UInt8 × Int))
    (hi : i < n) (h1 : ¬ PAcc c) (h : PRej c) :
    parseAnswersAux limit n (f + 1) (c :: rest) i acc =
      parseAnswersAux limit n f rest (i + 1) (acc.set i (ansReject, 0)) := by
  simp only [parseAnswersAux]
  rw [if_neg (by omega), if_neg h1, if_pos h]

theorem parse_def (limit n f : Nat) (c : UInt8) (rest : Bytes) (i : Nat) (acc : List (UInt8 × Int))
    (hi : i < n) (h1 : ¬ PAcc c) (h2 : ¬ PRej c) (h : PDef c) :
    parseAnswersAux limit n (f + 1) (c :: rest) i acc =
      parseAnswersAux limit n f rest (i + 1) (acc.set i (ansDefer, 0)) := by
  simp only [parseAnswersAux]
  rw [if_neg (by omega), if_neg h1, if_neg h2, if_pos h]

theorem parse_off (limit n f : Nat) (c : UInt8) (rest : Bytes) (i : Nat) (acc : List (UInt8 × Int))
    (hi : i < n) (h1 : ¬ PAcc c) (h2 : ¬ PRej c) (h3 : ¬ PDef c) (h : POff c)
    (hne : (rest.takeWhile isDigit).isEmpty = false) :
    parseAnswersAux limit n (f + 1) (c :: rest) i acc =
      parseAnswersAux limit n f (rest.drop (rest.takeWhile isDigit).length) (i + 1)
        (acc.set i (ansAccept, if (atoi (rest.takeWhile isDigit)).1 > (limit : Int) then 0
          else (atoi (rest.takeWhile isDigit)).1)) := by
  simp only [parseAnswersAux]
  rw [if_neg (by omega), if_neg h1, if_neg h2, if_neg h3, if_pos h]
  simp only [hne, Bool.false_eq_true, if_false]

/-! ### the offset -/

theorem atoi_digits_le (ds : Bytes) (hne : ds ≠ []) (hall : ds.all isDigit = true) :
    (atoi ds).1 ≤ ((digitsVal ds : Nat) : Int) := by
  cases ds with
  | nil => exact absurd rfl hne
  | cons c t =>
    have hc : isDigit c = true := by simp only [List.all_cons, Bool.and_eq_true] at hall; exact hall.1
    obtain ⟨n45, n43, _, _⟩ := isDigit_ne hc
    rw [atoi_cons c t n45 n43, hall, if_pos rfl]
    unfold clamp
    simp only [Bool.false_eq_true, if_false]
    split
    · rename_i h; simp only; omega
    · simp

/-! ### the invariant -/

/-- every pair: a known answer, an offset inside the message it is for -/
def Inv (cs : List Nat) (acc : List (UInt8 × Int)) : Prop :=
  ∀ (j : Nat) (a : UInt8) (off : Int), acc[j]? = some (a, off) →
    (a = 0 ∨ a = ansAccept ∨ a = ansReject ∨ a = ansDefer) ∧ 0 ≤ off ∧ off ≤ ((cs.getD j 0 : Nat) : Int)

theorem Inv_set (cs : List Nat) (acc : List (UInt8 × Int)) (i : Nat) (x : UInt8) (o : Int)
    (hacc : Inv cs acc) (hx : x = 0 ∨ x = ansAccept ∨ x = ansReject ∨ x = ansDefer)
    (h0 : 0 ≤ o) (h1 : o ≤ ((cs.getD i 0 : Nat) : Int)) : Inv cs (acc.set i (x, o)) := by
  intro j a off h
  rw [List.getElem?_set] at h
  split at h
  · rename_i hij
    subst hij
    split at h
    · simp only [Option.some.injEq, Prod.mk.injEq] at h
      obtain ⟨rfl, rfl⟩ := h
      exact ⟨hx, h0, h1⟩
    · cases h
  · exact hacc j a off h

theorem Inv_replicate (cs : List Nat) (n : Nat) : Inv cs (List.replicate n ((0 : UInt8), (0 : Int))) := by
  intro j a off h
  have hm : (a, off) ∈ List.replicate n ((0 : UInt8), (0 : Int)) := List.mem_of_getElem? h
  have := List.eq_of_mem_replicate hm
  simp only [Prod.mk.injEq] at this
  obtain ⟨rfl, rfl⟩ := this
  exact ⟨Or.inl rfl, Int.le_refl _, Int.natCast_nonneg _⟩

theorem drop_cons_facts : ∀ (cs : List Nat) (i c : Nat) (cs' : List Nat), cs.drop i = c :: cs' →
    i < cs.length ∧ cs.getD i 0 = c ∧ cs.drop (i + 1) = cs' := by
  intro cs
  induction cs with
  | nil => intro i c cs' h; simp at h
  | cons x t ih =>
    intro i c cs' h
    cases i with
    | zero =>
      simp only [List.drop_zero, List.cons.injEq] at h
      obtain ⟨rfl, rfl⟩ := h
      simp
    | succ k =>
      simp only [List.drop_succ_cons] at h
      obtain ⟨a, b, d⟩ := ih k c cs' h
      refine ⟨by simp only [List.length_cons]; omega, ?_, ?_⟩
      · simpa using b
      · simpa using d

/-! ### the walk -/

theorem parseAnswersAux_ok (limit : Nat) (cs : List Nat) :
    ∀ (fuel : Nat) (str : Bytes) (i : Nat) (acc : List (UInt8 × Int)),
      answersOK fuel (cs.drop i) str = true → acc.length = cs.length → Inv cs acc →
      ∃ res, parseAnswersAux limit cs.length fuel str i acc = some res ∧ res.length = cs.length ∧ Inv cs res := by
  intro fuel
  induction fuel with
  | zero => intro str i acc h; simp [answersOK] at h
  | succ f ih =>
    intro str i acc h hlen hinv
    cases str with
    | nil => exact ⟨acc, by simp only [parseAnswersAux], hlen, hinv⟩
    | cons a rest =>
      cases hd : cs.drop i with
      | nil => rw [hd] at h; simp [answersOK] at h
      | cons c cs' =>
        rw [hd] at h
        obtain ⟨hi, hget, hdrop⟩ := drop_cons_facts cs i c cs' hd
        have hc0 : (0 : Int) ≤ ((cs.getD i 0 : Nat) : Int) := Int.natCast_nonneg _
        rcases letter_table a with ⟨hp, hcase⟩ | ⟨hp, ho, h1, h2, h3, h4⟩ | ⟨hp, ho⟩
        · rw [answersOK_plain f c cs' a rest hp, ← hdrop] at h
          rcases hcase with h1 | ⟨h1, h2⟩ | ⟨h1, h2, h3⟩
          · rw [parse_acc limit _ f a rest i acc hi h1]
            exact ih rest (i + 1) _ h (by rw [List.length_set]; exact hlen)
              (Inv_set cs acc i _ 0 hinv (Or.inr (Or.inl rfl)) (Int.le_refl _) hc0)
          · rw [parse_rej limit _ f a rest i acc hi h1 h2]
            exact ih rest (i + 1) _ h (by rw [List.length_set]; exact hlen)
              (Inv_set cs acc i _ 0 hinv (Or.inr (Or.inr (Or.inl rfl))) (Int.le_refl _) hc0)
          · rw [parse_def limit _ f a rest i acc hi h1 h2 h3]
            exact ih rest (i + 1) _ h (by rw [List.length_set]; exact hlen)
              (Inv_set cs acc i _ 0 hinv (Or.inr (Or.inr (Or.inr rfl))) (Int.le_refl _) hc0)
        · rw [answersOK_off f c cs' a rest hp ho, ← hdrop] at h
          simp only [Bool.and_eq_true, Bool.not_eq_true', decide_eq_true_eq] at h
          obtain ⟨⟨hne, hle⟩, hrest⟩ := h
          rw [parse_off limit _ f a rest i acc hi h1 h2 h3 h4 hne]
          have hne' : rest.takeWhile isDigit ≠ [] := by
            intro e; rw [e] at hne; simp at hne
          have hall := takeWhile_all isDigit rest
          have hnn := atoi_digits_nonneg _ hne' hall
          have hub := atoi_digits_le _ hne' hall
          refine ih _ (i + 1) _ hrest (by rw [List.length_set]; exact hlen)
            (Inv_set cs acc i _ _ hinv (Or.inr (Or.inl rfl)) ?_ ?_)
          · split
            · exact Int.le_refl _
            · exact hnn
          · rw [hget]
            split
            · exact Int.natCast_nonneg _
            · omega
        · rw [answersOK_bad f c cs' a rest hp ho] at h
          cases h

end AcceptAnswers

open AcceptAnswers in
/-- **answers the grammar allows are answers the session parses**: no error, one pair per proposal,
every answer one of `0 + - =`, every offset inside its message. -/
theorem answers_parse (limit : Nat) (cs : List Nat) (as : Bytes) (h : answersOK (as.length + 1) cs as = true) :
    ∃ ans : List (UInt8 × Int), parseProposalAnswerC limit (70 :: 83 :: 32 :: as) cs.length = some (some ans) ∧
      ans.length = cs.length ∧
      ∀ (i : Nat) (a : UInt8) (off : Int), ans[i]? = some (a, off) →
        (a = 0 ∨ a = ansAccept ∨ a = ansReject ∨ a = ansDefer) ∧ 0 ≤ off ∧ off ≤ ((cs.getD i 0 : Nat) : Int) := by
  obtain ⟨res, hres, hlen, hinv⟩ := parseAnswersAux_ok limit cs (as.length + 1) as 0
    (List.replicate cs.length (0, 0)) (by simpa using h) (by simp) (Inv_replicate cs cs.length)
  refine ⟨res, ?_, hlen, hinv⟩
  rw [parseProposalAnswerC_eq]
  have hpre : fsPrefix.isPrefixOf (70 :: 83 :: 32 :: as) = true := by
    simp [fsPrefix, List.isPrefixOf]
  simp only [parseProposalAnswer, hpre, if_true, List.drop_succ_cons, List.drop_zero]
  rw [hres]

end Wl2k.B2F
