import Wl2kVerif.Proofs.LzCanon
import Wl2kVerif.Proofs.LzDecode
/-
C08 — the library reader agrees with the CANONICAL decoder on ARBITRARY streams, whenever it reports success.

`Canon.decodeLoop` (LZHUF.C `Decode()`) runs the same bit reader / adaptive Huffman primitives as the library
(`Reader.decodeChar`, `Reader.decodePosition`: in LZHUF.C these are `DecodeChar`/`DecodePosition`, identical up
to the error flags, which the canonical loop ignores: bits past the end read as zero).  The differences are all
in the DRIVER: the canonical loop has no size check inside a match, no `pending`, no stop on `berr`, no error
field, no CRC.  Route:

* `Reader.strip`: forgetting the fields that have no canonical counterpart commutes with every primitive, so
  `decodeLoop` does not depend on them (`decodeLoop_strip`), and `(Reader.new …).strip = canonStart` (`new_strip`);
* `copyFull_fit`: a match copy that does NOT record `ErrChecksum` fitted the declared size, so it is the
  canonical copy (`copyAll_eq` of `Proofs/LzCanon.lean`);
* `run_decodeLoop`: a token stream `Run d c bs` of the library that ends without error (`c.err = none`,
  `c.berr = false`) is, token for token, the canonical loop;
* `readsWith_run` (`Proofs/Reader.lean`) links any sequence of `Read`s to `Run`; `readsWith_close_extend` removes
  the need to have reached EOF (a state that passes `Close` is at EOF).
-/
namespace Wl2k.Lzhuf
open Wl2k Wl2k.Lzhuf.Canon

/-! ### the canonical loop ignores the library-only fields -/

/-- forget the fields the canonical decoder has no counterpart for (`q` = the declared size to install) -/
def Reader.strip (d : Reader) (q : Int) : Reader :=
  { d with crc16 := false, hcrc := 0, size := q, sizeBytes := [], err := none, pending := [] }

theorem readByte_strip (d : Reader) (q : Int) :
    (d.strip q).readByte = (d.readByte.1.strip q, d.readByte.2) := by
  unfold Reader.readByte Reader.strip
  dsimp only
  split
  · rfl
  · split <;> rfl

theorem readBits_strip (d : Reader) (q : Int) (bits : Nat) :
    (d.strip q).readBits bits = ((d.readBits bits).1.strip q, (d.readBits bits).2) := by
  unfold Reader.readBits
  have hb : (d.strip q).bbits = d.bbits := rfl
  rw [hb]
  by_cases h : bits > d.bbits
  · rw [if_pos h, if_pos h, readByte_strip]
    rcases d.readByte with ⟨d1, ob⟩
    cases ob <;> rfl
  · rw [if_neg h, if_neg h]
    rfl

theorem walk_strip (q : Int) : ∀ (fuel : Nat) (d : Reader) (c : Nat),
    (d.strip q).walk c fuel = ((d.walk c fuel).1.strip q, (d.walk c fuel).2) := by
  intro fuel
  induction fuel with
  | zero => intro d c; rfl
  | succ n ih =>
    intro d c
    unfold Reader.walk
    split
    · rw [readBits_strip]
      rcases d.readBits 1 with ⟨d1, b⟩
      dsimp only
      exact ih { d1 with h := d1.h.chk (decide (c + b < d1.h.son.size)) } _
    · rfl

theorem decodeChar_strip (d : Reader) (q : Int) :
    (d.strip q).decodeChar = (d.decodeChar.1.strip q, d.decodeChar.2) := by
  unfold Reader.decodeChar
  have hh : (d.strip q).h = d.h := rfl
  rw [hh, walk_strip]
  rcases d.walk (rd d.h.son R) (T + 1) with ⟨d1, c⟩
  simp only [Reader.strip]

theorem lowBits_strip (q : Int) : ∀ (j : Nat) (d : Reader) (i : Nat),
    (d.strip q).lowBits i j = ((d.lowBits i j).1.strip q, (d.lowBits i j).2) := by
  intro j
  induction j with
  | zero => intro d i; rfl
  | succ n ih =>
    intro d i
    unfold Reader.lowBits
    rw [readBits_strip]
    rcases d.readBits 1 with ⟨d1, b⟩
    dsimp only
    exact ih _ _

theorem decodePosition_strip (d : Reader) (q : Int) :
    (d.strip q).decodePosition = (d.decodePosition.1.strip q, d.decodePosition.2) := by
  unfold Reader.decodePosition
  rw [readBits_strip]
  rcases d.readBits 8 with ⟨d1, i⟩
  dsimp only
  rw [lowBits_strip]

theorem putOne_strip (d : Reader) (q : Int) (c : UInt8) : (d.strip q).putOne c = (d.putOne c).strip q := rfl

theorem copyAll_strip (q : Int) (i : Nat) : ∀ (j : Nat) (d : Reader) (out : Array UInt8) (k : Nat),
    copyAll (d.strip q) i out k j = ((copyAll d i out k j).1.strip q, (copyAll d i out k j).2) := by
  intro j
  induction j with
  | zero => intro d out k; rfl
  | succ n ih =>
    intro d out k
    unfold copyAll
    dsimp only
    have ht : (d.strip q).textBuf = d.textBuf := rfl
    rw [ht, putOne_strip, ih]

/-- **the canonical decode loop does not depend on `crc16 hcrc size sizeBytes err pending`** -/
theorem decodeLoop_strip (q : Int) (size : Nat) : ∀ (fuel : Nat) (d : Reader) (out : Array UInt8),
    decodeLoop (d.strip q) out size fuel = decodeLoop d out size fuel := by
  intro fuel
  induction fuel with
  | zero => intro d out; rfl
  | succ n ih =>
    intro d out
    unfold decodeLoop
    split
    · rw [decodeChar_strip]
      rcases d.decodeChar with ⟨d1, c⟩
      dsimp only
      split
      · rw [putOne_strip, ih]
      · rw [decodePosition_strip]
        rcases d1.decodePosition with ⟨d2, p⟩
        dsimp only
        have hr : (d2.strip q).r = d2.r := rfl
        rw [hr, copyAll_strip]
        rcases copyAll d2 ((d2.r + 2 * N - p - 1) % N) out 0 (c - 255 + THRESHOLD) with ⟨d3, out3⟩
        dsimp only
        rw [ih]
    · rfl

/-! ### the stream layout -/

/-- the LZHUF body of a B2 container: what follows the optional 2-byte CRC and the 4-byte size field -/
def streamBody (crc16 : Bool) (s : Bytes) : Bytes := (s.drop (if crc16 then 2 else 0)).drop 4

/-- the 4-byte size field of a B2 container -/
def streamSizeField (crc16 : Bool) (s : Bytes) : Bytes := (s.drop (if crc16 then 2 else 0)).take 4

/-- the declared size: the size field read as a little-endian `int32` (as `NewReader` does) -/
def streamSize (crc16 : Bool) (s : Bytes) : Int := int32OfLE (streamSizeField crc16 s)

/-- the CRC field of a B2 container with CRC (first two bytes, little-endian) -/
def streamCrc (s : Bytes) : Nat := (s.getD 0 0).toNat + 256 * (s.getD 1 0).toNat

/-- the reader `NewReader` builds, stripped of its library-only fields, is the canonical decoder's start state -/
theorem new_strip (crc16 : Bool) (s : Bytes) (d : Reader) (h : Reader.new crc16 s = .ok d) (n : Nat) :
    d.strip (n : Int) = canonStart (streamBody crc16 s) n := by
  unfold Reader.new at h
  simp only at h
  by_cases h1 : crc16 = true ∧ s.length < 2
  · rw [if_pos h1] at h; cases h
  · rw [if_neg h1] at h
    by_cases h2 : (s.drop (if crc16 = true then 2 else 0)).length < 4
    · rw [if_pos h2] at h; cases h
    · rw [if_neg h2] at h
      have h3 := Except.ok.inj h
      rw [← h3]
      simp only [Reader.strip, canonStart, streamBody]

theorem streamSize_eq (crc16 : Bool) (s : Bytes) (d : Reader) (h : Reader.new crc16 s = .ok d) :
    d.size = streamSize crc16 s := (new_fields2 crc16 s d h).2.2.2.2.2.1

/-! ### a match copy that records no error is the canonical copy -/

theorem copyFull_fit (i : Nat) : ∀ (j : Nat) (d : Reader) (k : Nat),
    (d.copyFull i k j).1.err = none → (d.pos : Int) ≤ d.size → (d.pos : Int) + j ≤ d.size := by
  intro j
  induction j with
  | zero => intro d k _ h; simpa using h
  | succ n ih =>
    intro d k he hp
    unfold Reader.copyFull at he
    by_cases hge : (d.pos : Int) ≥ d.size
    · rw [if_pos hge] at he; cases he
    · rw [if_neg hge] at he
      have := ih (d.putOne (d.textBuf.getD ((i + k) % N) 0)) (k + 1) he (by simp only [Reader.putOne]; omega)
      simp only [Reader.putOne] at this
      omega

theorem copyFull_pos (i : Nat) : ∀ (j : Nat) (d : Reader) (k : Nat),
    (d.copyFull i k j).1.pos = d.pos + (d.copyFull i k j).2.1.length := by
  intro j
  induction j with
  | zero => intro d k; rfl
  | succ n ih =>
    intro d k
    unfold Reader.copyFull
    split
    · rfl
    · dsimp only
      rw [ih]
      simp only [Reader.putOne, List.length_cons]
      omega

/-- every token advances `pos` by the number of bytes it produced -/
theorem tok_pos (d : Reader) : d.tok.1.pos = d.pos + d.tok.2.length := by
  have f1 := decodeChar_frame d
  rcases hdc : d.decodeChar with ⟨d1, c⟩
  rw [hdc] at f1
  rcases hdp : d1.decodePosition with ⟨d2, p⟩
  have f2 := decodePosition_frame d1
  rw [hdp] at f2
  dsimp only at f1 f2
  rw [tok_of d d1 d2 c p hdc hdp]
  split
  · simp only [Reader.putOne, List.length_cons, List.length_nil]
    rw [f1.pos]
  · dsimp only
    rw [copyFull_pos, f2.pos, f1.pos]

/-- a token that leaves no error recorded fitted the declared size -/
theorem tok_fit (d : Reader) (he : d.tok.1.err = none) (hp : (d.pos : Int) ≤ d.size) :
    256 ≤ d.decodeChar.2 → (d.pos : Int) + (d.decodeChar.2 - 255 + THRESHOLD : Nat) ≤ d.size := by
  have f1 := decodeChar_frame d
  rcases hdc : d.decodeChar with ⟨d1, c⟩
  rw [hdc] at f1
  rcases hdp : d1.decodePosition with ⟨d2, p⟩
  have f2 := decodePosition_frame d1
  rw [hdp] at f2
  dsimp only at f1 f2 ⊢
  rw [tok_of d d1 d2 c p hdc hdp] at he
  intro hc
  rw [if_neg (by omega)] at he
  have := copyFull_fit _ _ _ _ he (by rw [f2.pos, f2.size, f1.pos, f1.size]; exact hp)
  rw [f2.pos, f2.size, f1.pos, f1.size] at this
  exact this

theorem Run.err_none {d c : Reader} {bs : Bytes} (h : Run d c bs) (he : c.err = none) : d.err = none := by
  cases h with
  | done _ _ => exact he
  | step _ _ _ hl _ => exact hl.1

/-- **the token stream of a run that ends without error is the canonical loop**: if the library's token stream
from `d` ends in `c` with no error recorded and the bit reader not run dry, then the canonical `Decode()` loop
started in the same state with `out.size = pos` appends exactly the same bytes, and the library stopped
because `pos` reached the declared size. -/
theorem run_decodeLoop {d c : Reader} {bs : Bytes} (hrun : Run d c bs) (he : c.err = none) (hb : c.berr = false) :
    ∀ (out : Array UInt8) (size fuel : Nat), d.size = (size : Int) → out.size = d.pos → size ≤ d.pos + fuel →
      decodeLoop d out size fuel = out ++ bs.toArray ∧ (c.pos : Int) ≥ c.size := by
  induction hrun with
  | done d hnl =>
    intro out size fuel hs ho _
    have hge : ¬ (d.pos : Int) < d.size := fun h => hnl ⟨he, hb, h⟩
    refine ⟨?_, by omega⟩
    cases fuel with
    | zero => simp [decodeLoop]
    | succ f => rw [decodeLoop, if_neg (by omega)]; simp
  | step d c bs hl hr ih =>
    intro out size fuel hs ho hf
    have hlt : (d.pos : Int) < d.size := hl.2.2
    obtain ⟨f, rfl⟩ : ∃ f, fuel = f + 1 := ⟨fuel - 1, by omega⟩
    have t := tok_acc d
    have hprog := t.progress hlt
    have hpos := tok_pos d
    have he1 : d.tok.1.err = none := Run.err_none hr he
    rw [decodeLoop_step d out size f (by omega) (tok_fit d he1 (by omega))]
    obtain ⟨i1, i2⟩ := ih he hb (out ++ d.tok.2.toArray) size f (t.size.trans hs)
      (by simp [ho, hpos]) (by omega)
    refine ⟨?_, i2⟩
    rw [i1]
    simp

/-! ### sequences of reads -/

theorem readsWith_append (ns ms : List Nat) : ∀ d : Reader,
    readsWith d (ns ++ ms) =
      ((readsWith (readsWith d ns).1 ms).1, (readsWith d ns).2 ++ (readsWith (readsWith d ns).1 ms).2) := by
  induction ns with
  | nil => intro d; simp [readsWith]
  | cons m ns ih => intro d; simp only [List.cons_append, readsWith, ih, List.append_assoc]

theorem errsWith_append (ns ms : List Nat) : ∀ d : Reader,
    errsWith d (ns ++ ms) = errsWith d ns ++ errsWith (readsWith d ns).1 ms := by
  induction ns with
  | nil => intro d; simp [readsWith, errsWith]
  | cons m ns ih => intro d; simp only [List.cons_append, readsWith, errsWith, ih]

/-- a state that satisfies the stream invariant and passes `Close` is at EOF: nothing pending, `pos = size`,
and the next `Read` returns `io.EOF` without changing anything -/
theorem close_none_eof (f : Reader) (hi : Inv f) (hc : f.close = none) (m : Nat) :
    f.pending = [] ∧ (f.pos : Int) = f.size ∧ f.err = none ∧ f.berr = false ∧ f.read m = (f, [], some .eof) := by
  have hs := close_none_size f hc
  have he : f.err = none := by
    cases hx : f.err with
    | none => rfl
    | some e => exact absurd hc (close_ne_none_of_err f (by rw [hx]; rfl))
  have hb : f.berr = false := by
    cases hx : f.berr with
    | false => rfl
    | true =>
      unfold Reader.close at hc
      rw [he, hx] at hc
      simp at hc
  obtain ⟨i1, i2⟩ := hi
  have hp : f.pending = [] := List.eq_nil_of_length_eq_zero (by omega)
  have hps : (f.pos : Int) = f.size := by rw [hs, hp]; simp
  refine ⟨hp, hps, he, hb, ?_⟩
  rw [read_eq, norm_of_not_berr f hb, if_pos]
  refine ⟨by simp [hb], by omega, by simp [hp]⟩

/-- success of `Close` after ANY sequence of reads on a new reader: one more `Read` returns `io.EOF` and
changes neither the data nor the state -/
theorem readsWith_close_extend (crc16 : Bool) (s : Bytes) (d : Reader) (ns : List Nat)
    (h : Reader.new crc16 s = .ok d) (hc : (readsWith d ns).1.close = none) :
    readsWith d (ns ++ [1]) = readsWith d ns ∧ (∃ e, some e ∈ errsWith d (ns ++ [1])) := by
  have hi := (readsWith_acc d ns).2.2 (new_inv crc16 s d h)
  obtain ⟨-, -, -, -, hr⟩ := close_none_eof _ hi hc 1
  refine ⟨?_, .eof, ?_⟩
  · rw [readsWith_append]
    simp [readsWith, hr]
  · rw [errsWith_append]
    simp [errsWith, hr]

/-! ### the main statement -/

theorem close_none_flags (f : Reader) (hc : f.close = none) : f.err = none ∧ f.berr = false := by
  have he : f.err = none := by
    cases hx : f.err with
    | none => rfl
    | some e => exact absurd hc (close_ne_none_of_err f (by rw [hx]; rfl))
  refine ⟨he, ?_⟩
  cases hx : f.berr with
  | false => rfl
  | true =>
    unfold Reader.close at hc
    rw [he, hx] at hc
    simp at hc

/-- a sequence of reads that reached an error return and then passes `Close` walked a token stream that ends
without error, and returned all of it -/
theorem run_of_close (d : Reader) (ns : List Nat) (hend : ∃ e, some e ∈ errsWith d ns)
    (hc : (readsWith d ns).1.close = none) :
    ∃ c bs, Run { d with pending := [] } c bs ∧ c.err = none ∧ c.berr = false ∧
      d.pending ++ bs = (readsWith d ns).2 ∧ c.pulled = (readsWith d ns).1.pulled := by
  obtain ⟨c, bs, r1, r2, r3, r4⟩ := readsWith_run d ns hend
  obtain ⟨e3, e4⟩ := close_none_flags _ hc
  have hcb : c.berr = false := by
    have := congrArg Reader.berr r2
    rw [norm_berr] at this
    rw [← this]; exact e4
  rw [norm_of_not_berr c hcb] at r2
  have hce : c.err = none := by
    have := congrArg Reader.err r2
    rw [← this]; exact e3
  have e1 : (readsWith d ns).1.pending = [] := by
    rcases r4 with h | h
    · rw [e3] at h; cases h
    · exact h
  rw [e1, List.append_nil] at r3
  exact ⟨c, bs, r1, hce, hcb, r3, (congrArg Reader.pulled r2).symm⟩

/-- **state-level form** (EVERY reader state with nothing pending, not only a new reader): reads that reach an
error return and then pass `Close` returned exactly what the canonical `Decode()` loop appends when started in
the same state. -/
theorem reads_agree_with_canon_from (d : Reader) (ns : List Nat) (hq : d.pending = [])
    (hend : ∃ e, some e ∈ errsWith d ns) (hc : (readsWith d ns).1.close = none)
    (out : Array UInt8) (n fuel : Nat) (hn : d.size = (n : Int)) (ho : out.size = d.pos) (hf : n ≤ d.pos + fuel) :
    decodeLoop d out n fuel = out ++ (readsWith d ns).2.toArray := by
  obtain ⟨c, bs, r1, hce, hcb, r3, -⟩ := run_of_close d ns hend hc
  rw [setPending_self d _ hq] at r1
  rw [hq, List.nil_append] at r3
  rw [← r3]
  exact (run_decodeLoop r1 hce hcb out n fuel hn ho hf).1

/-- **`reader_agrees_with_canon`** (proof): see `Props/C08_canon.lean`. -/
theorem reader_agrees_with_canon_full (crc16 : Bool) (s : Bytes) (d : Reader) (ns : List Nat)
    (h : Reader.new crc16 s = .ok d) (hc : (readsWith d ns).1.close = none) :
    d.size = streamSize crc16 s ∧ 0 ≤ streamSize crc16 s ∧
    decodeBody (streamBody crc16 s) (streamSize crc16 s).toNat = (readsWith d ns).2 := by
  obtain ⟨hext, hend⟩ := readsWith_close_extend crc16 s d ns h hc
  obtain ⟨m1, m2, -, -⟩ := new_fields crc16 s d h
  have hi := (readsWith_acc d ns).2.2 (new_inv crc16 s d h)
  obtain ⟨-, e2, -, -, -⟩ := close_none_eof _ hi hc 1
  have hsz : (readsWith d ns).1.size = d.size := (readsWith_acc d ns).1
  have hnn : 0 ≤ d.size := by rw [← hsz, ← e2]; omega
  obtain ⟨n, hn⟩ : ∃ n : Nat, d.size = (n : Int) := ⟨d.size.toNat, (Int.toNat_of_nonneg hnn).symm⟩
  have key := reads_agree_with_canon_from d (ns ++ [1]) m2 hend (by rw [hext]; exact hc) #[] n n hn
    (by rw [m1]; rfl) (by omega)
  rw [hext] at key
  have hse := streamSize_eq crc16 s d h
  refine ⟨hse, by rw [← hse]; exact hnn, ?_⟩
  rw [← hse, hn, Int.toNat_natCast, decodeBody_eq, ← new_strip crc16 s d h n, decodeLoop_strip, key]
  simp

/-! ### the canonical decoder never fails, and may deliver more than the declared size -/

theorem copyAll_size (i : Nat) : ∀ (j : Nat) (d : Reader) (out : Array UInt8) (k : Nat),
    (copyAll d i out k j).2.size = out.size + j := by
  intro j
  induction j with
  | zero => intro d out k; rfl
  | succ n ih =>
    intro d out k
    unfold copyAll
    dsimp only
    rw [ih, Array.size_push]
    omega

theorem decodeLoop_size_ge (size : Nat) : ∀ (fuel : Nat) (d : Reader) (out : Array UInt8),
    size ≤ out.size + fuel → size ≤ (decodeLoop d out size fuel).size := by
  intro fuel
  induction fuel with
  | zero => intro d out h; simpa [decodeLoop] using h
  | succ n ih =>
    intro d out h
    unfold decodeLoop
    split
    · rcases d.decodeChar with ⟨d1, c⟩
      dsimp only
      split
      · exact ih _ _ (by rw [Array.size_push]; omega)
      · rcases d1.decodePosition with ⟨d2, p⟩
        dsimp only
        have hs := copyAll_size ((d2.r + 2 * N - p - 1) % N) (c - 255 + THRESHOLD) d2 out 0
        rcases hca : copyAll d2 ((d2.r + 2 * N - p - 1) % N) out 0 (c - 255 + THRESHOLD) with ⟨d3, out3⟩
        rw [hca] at hs
        dsimp only at hs ⊢
        exact ih _ _ (by rw [hs]; simp only [THRESHOLD]; omega)
    · omega

/-- the canonical decoder has no failure: whatever the body, it delivers at least the declared number of bytes -/
theorem decodeBody_length_ge (body : Bytes) (size : Nat) : size ≤ (decodeBody body size).length := by
  rw [decodeBody_eq, Array.length_toList]
  exact decodeLoop_size_ge size size _ _ (by simp)

/-! ### without success: what the library hands out is a prefix of the canonical output -/

theorem copyAll_ext (i : Nat) : ∀ (j : Nat) (d : Reader) (out : Array UInt8) (k : Nat),
    out.toList <+: (copyAll d i out k j).2.toList := by
  intro j
  induction j with
  | zero => intro d out k; exact List.prefix_refl _
  | succ n ih =>
    intro d out k
    unfold copyAll
    dsimp only
    refine List.IsPrefix.trans ?_ (ih _ _ _)
    rw [Array.toList_push]
    exact List.prefix_append _ _

/-- the library's match copy (which stops at the declared size) is a prefix of the canonical one -/
theorem copyAll_prefix_full (i : Nat) : ∀ (j : Nat) (d : Reader) (out : Array UInt8) (k : Nat),
    (out.toList ++ (d.copyFull i k j).2.1) <+: (copyAll d i out k j).2.toList := by
  intro j
  induction j with
  | zero => intro d out k; simp [copyAll, Reader.copyFull]
  | succ n ih =>
    intro d out k
    unfold Reader.copyFull
    split
    · rw [List.append_nil]
      exact copyAll_ext i _ d out k
    · unfold copyAll
      dsimp only
      have := ih (d.putOne (d.textBuf.getD ((i + k) % N) 0)) (out.push (d.textBuf.getD ((i + k) % N) 0)) (k + 1)
      rw [Array.toList_push, List.append_assoc] at this
      exact this

theorem decodeLoop_ext (size : Nat) : ∀ (fuel : Nat) (d : Reader) (out : Array UInt8),
    out.toList <+: (decodeLoop d out size fuel).toList := by
  intro fuel
  induction fuel with
  | zero => intro d out; exact List.prefix_refl _
  | succ n ih =>
    intro d out
    unfold decodeLoop
    split
    · rcases d.decodeChar with ⟨d1, c⟩
      dsimp only
      split
      · refine List.IsPrefix.trans ?_ (ih _ _)
        rw [Array.toList_push]
        exact List.prefix_append _ _
      · rcases d1.decodePosition with ⟨d2, p⟩
        dsimp only
        have hs := copyAll_ext ((d2.r + 2 * N - p - 1) % N) (c - 255 + THRESHOLD) d2 out 0
        rcases hca : copyAll d2 ((d2.r + 2 * N - p - 1) % N) out 0 (c - 255 + THRESHOLD) with ⟨d3, out3⟩
        rw [hca] at hs
        dsimp only at hs ⊢
        exact List.IsPrefix.trans hs (ih _ _)
    · exact List.prefix_refl _

/-- one iteration of the canonical loop delivers at least the bytes of the library's token -/
theorem decodeLoop_step_prefix (d : Reader) (out : Array UInt8) (size fuel : Nat) (h : out.size < size) :
    (out.toList ++ d.tok.2) <+: (decodeLoop d out size (fuel + 1)).toList := by
  rcases hdc : d.decodeChar with ⟨d1, c⟩
  rcases hdp : d1.decodePosition with ⟨d2, p⟩
  rw [tok_of d d1 d2 c p hdc hdp, decodeLoop, if_pos h, hdc]
  dsimp only
  by_cases hc : c < 256
  · rw [if_pos hc, if_pos hc]
    refine List.IsPrefix.trans ?_ (decodeLoop_ext _ _ _ _)
    rw [Array.toList_push]
    exact List.prefix_refl _
  · rw [if_neg hc, if_neg hc, hdp]
    dsimp only
    have hs := copyAll_prefix_full ((d2.r + 2 * N - p - 1) % N) (c - 255 + THRESHOLD) d2 out 0
    rcases hca : copyAll d2 ((d2.r + 2 * N - p - 1) % N) out 0 (c - 255 + THRESHOLD) with ⟨d3, out3⟩
    rw [hca] at hs
    dsimp only at hs ⊢
    exact List.IsPrefix.trans hs (decodeLoop_ext _ _ _ _)

theorem Run.of_not_live {d c : Reader} {bs : Bytes} (h : Run d c bs) (hnl : ¬ d.live) : bs = [] ∧ c = d := by
  cases h with
  | done _ _ => exact ⟨rfl, rfl⟩
  | step _ _ _ hl _ => exact absurd hl hnl

/-- **every token stream of the library is a prefix of the canonical loop's output** (no condition on how it
ended: error, input run dry, or the declared size reached) -/
theorem run_prefix {d c : Reader} {bs : Bytes} (hrun : Run d c bs) :
    ∀ (out : Array UInt8) (size fuel : Nat), d.size = (size : Int) → out.size = d.pos → size ≤ d.pos + fuel →
      (out.toList ++ bs) <+: (decodeLoop d out size fuel).toList := by
  induction hrun with
  | done d hnl =>
    intro out size fuel _ _ _
    rw [List.append_nil]
    exact decodeLoop_ext _ _ _ _
  | step d c bs hl hr ih =>
    intro out size fuel hs ho hf
    have hlt : (d.pos : Int) < d.size := hl.2.2
    obtain ⟨f, rfl⟩ : ∃ f, fuel = f + 1 := ⟨fuel - 1, by omega⟩
    have t := tok_acc d
    have hprog := t.progress hlt
    have hpos := tok_pos d
    cases he1 : d.tok.1.err with
    | none =>
      rw [decodeLoop_step d out size f (by omega) (tok_fit d he1 (by omega))]
      have := ih (out ++ d.tok.2.toArray) size f (t.size.trans hs) (by simp [ho, hpos]) (by omega)
      simpa [List.append_assoc] using this
    | some e =>
      have hnl : ¬ d.tok.1.live := fun hl' => by rw [hl'.1] at he1; cases he1
      rw [(Run.of_not_live hr hnl).1, List.append_nil]
      exact decodeLoop_step_prefix d out size f (by omega)

/-- from a state that satisfies the stream invariant, enough further 1-byte reads reach an error return -/
theorem reads_reach_error (f : Reader) (hi : Inv f) :
    ∃ ms : List Nat, ∃ e, some e ∈ errsWith f ms := by
  let K := (max 0 f.size).toNat
  have hpos : ∀ n ∈ List.replicate (K + 1) 1, 0 < n := by
    intro n hn; rw [List.eq_of_mem_replicate hn]; exact Nat.one_pos
  refine ⟨List.replicate (K + 1) 1, ?_⟩
  rcases okCount_or_err f (List.replicate (K + 1) 1) with h | h
  · exfalso
    have h1 := okCount_le f _ hpos
    obtain ⟨a1, a2, a3⟩ := readsWith_acc f (List.replicate (K + 1) 1)
    have i := (a3 hi).1
    rw [a1] at i
    have := hi.2
    rw [h, List.length_replicate] at h1
    omega
  · exact h

/-- **any sequence of reads, successful or not**: the bytes handed out are a prefix of the token stream -/
theorem reads_prefix_of_run (d : Reader) (ns : List Nat) (hi : Inv d) :
    ∃ c bs, Run { d with pending := [] } c bs ∧ (readsWith d ns).2 <+: d.pending ++ bs := by
  obtain ⟨ms, hend⟩ := reads_reach_error (readsWith d ns).1 ((readsWith_acc d ns).2.2 hi)
  have hend' : ∃ e, some e ∈ errsWith d (ns ++ ms) := by
    obtain ⟨e, he⟩ := hend
    exact ⟨e, by rw [errsWith_append]; exact List.mem_append_right _ he⟩
  obtain ⟨c, bs, r1, -, r3, -⟩ := readsWith_run d (ns ++ ms) hend'
  refine ⟨c, bs, r1, ?_⟩
  rw [r3, readsWith_append]
  dsimp only
  rw [List.append_assoc]
  exact List.prefix_append _ _

/-- state-level form of the prefix statement -/
theorem reads_prefix_of_canon_from (d : Reader) (ns : List Nat) (hq : d.pending = [])
    (out : Array UInt8) (n fuel : Nat) (hn : d.size = (n : Int)) (hp : d.pos ≤ n) (ho : out.size = d.pos)
    (hf : n ≤ d.pos + fuel) :
    (out.toList ++ (readsWith d ns).2) <+: (decodeLoop d out n fuel).toList := by
  obtain ⟨c, bs, r1, r2⟩ := reads_prefix_of_run d ns ⟨by rw [hn]; omega, by rw [hq]; exact Nat.zero_le _⟩
  rw [setPending_self d _ hq] at r1
  rw [hq, List.nil_append] at r2
  exact List.IsPrefix.trans ((List.prefix_append_right_inj _).mpr r2) (run_prefix r1 out n fuel hn ho hf)

/-- **`reader_prefix_of_canon`** (proof): see `Props/C08_canon.lean`. -/
theorem reader_prefix_of_canon_full (crc16 : Bool) (s : Bytes) (d : Reader) (ns : List Nat)
    (h : Reader.new crc16 s = .ok d) :
    (readsWith d ns).2 <+: decodeBody (streamBody crc16 s) (streamSize crc16 s).toNat := by
  obtain ⟨m1, m2, -, -⟩ := new_fields crc16 s d h
  have hse := streamSize_eq crc16 s d h
  by_cases hnn : 0 ≤ d.size
  · obtain ⟨n, hn⟩ : ∃ n : Nat, d.size = (n : Int) := ⟨d.size.toNat, (Int.toNat_of_nonneg hnn).symm⟩
    obtain ⟨c, bs, r1, r2⟩ := reads_prefix_of_run d ns (new_inv crc16 s d h)
    rw [setPending_self d _ m2] at r1
    rw [m2, List.nil_append] at r2
    have key := run_prefix r1 #[] n n hn (by rw [m1]; rfl) (by omega)
    rw [← hse, hn, Int.toNat_natCast, decodeBody_eq, ← new_strip crc16 s d h n, decodeLoop_strip]
    refine List.IsPrefix.trans r2 ?_
    simpa using key
  · have hb : ((readsWith d ns).2.length : Int) ≤ max 0 d.size := by
      obtain ⟨a1, a2, a3⟩ := readsWith_acc d ns
      have i := (a3 (new_inv crc16 s d h)).1
      rw [a1] at i
      rw [m1, m2] at a2
      simp only [List.length_nil] at a2
      omega
    have : (readsWith d ns).2 = [] := List.eq_nil_of_length_eq_zero (by omega)
    rw [this]
    exact List.nil_prefix

end Wl2k.Lzhuf
