import Wl2kVerif.Std.Strings
namespace Wl2k.Str

theorem splitOn_ne_nil (sep : UInt8) (s : Bytes) : splitOn sep s ≠ [] := by
  induction s with
  | nil => simp [splitOn]
  | cons b t ih =>
    simp only [splitOn]
    split
    · simp
    · split <;> simp

/-- Splitting a single separator-free piece. -/
theorem splitOn_nosep (sep : UInt8) (x : Bytes) (h : sep ∉ x) : splitOn sep x = [x] := by
  induction x with
  | nil => rfl
  | cons b t ih =>
    simp only [List.mem_cons, not_or] at h
    simp only [splitOn, if_neg (Ne.symm h.1), ih h.2]

/-- `Split(x ++ sep ++ rest) = x :: Split(rest)` when `x` is separator-free. -/
theorem splitOn_append (sep : UInt8) (x rest : Bytes) (h : sep ∉ x) :
    splitOn sep (x ++ sep :: rest) = x :: splitOn sep rest := by
  induction x with
  | nil => simp [splitOn]
  | cons b t ih =>
    simp only [List.mem_cons, not_or] at h
    simp only [List.cons_append, splitOn, if_neg (Ne.symm h.1), ih h.2]

/-- `Split(Join(xs, sep), sep) = xs` for a non-empty list of separator-free pieces. -/
theorem splitOn_joinWith (sep : UInt8) (xs : List Bytes) (hne : xs ≠ []) (h : ∀ x ∈ xs, sep ∉ x) :
    splitOn sep (joinWith sep xs) = xs := by
  induction xs with
  | nil => exact absurd rfl hne
  | cons x t ih =>
    cases t with
    | nil => simp [joinWith, splitOn_nosep sep x (h x (by simp))]
    | cons y r =>
      simp only [joinWith]
      rw [splitOn_append sep x _ (h x (by simp)), ih (by simp) (fun z hz => h z (by simp [hz]))]

theorem upperByte_eq_slash_aux : ∀ n, n < 256 → (upperByte (UInt8.ofNat n) = 47 ↔ UInt8.ofNat n = 47) := by
  decide +kernel

theorem upperByte_eq_slash (b : UInt8) : upperByte b = 47 ↔ b = 47 := by
  have := upperByte_eq_slash_aux b.toNat b.toNat_lt
  simpa using this

theorem toUpper_append (a b : Bytes) : toUpper (a ++ b) = toUpper a ++ toUpper b := by simp [toUpper]

theorem slash_notin_toUpper (x : Bytes) (h : (47 : UInt8) ∉ x) : (47 : UInt8) ∉ toUpper x := by
  simp only [toUpper, List.mem_map, not_exists, not_and]
  intro b hb e
  exact h ((upperByte_eq_slash b).mp e ▸ hb)

theorem toUpper_joinWith (xs : List Bytes) : toUpper (joinWith 47 xs) = joinWith 47 (xs.map toUpper) := by
  induction xs with
  | nil => rfl
  | cons x t ih =>
    cases t with
    | nil => simp [joinWith]
    | cons y r =>
      simp only [joinWith, List.map_cons] at ih ⊢
      rw [toUpper_append]
      simp only [toUpper, List.map_cons] at ih ⊢
      rw [ih]; simp [upperByte]

end Wl2k.Str

namespace Wl2k.Str

theorem takeWhile_append_stop {p : UInt8 → Bool} (a : Bytes) (x : UInt8) (b : Bytes)
    (ha : ∀ y ∈ a, p y = true) (hx : p x = false) : (a ++ x :: b).takeWhile p = a := by
  induction a with
  | nil => simp [List.takeWhile, hx]
  | cons y t ih =>
    simp only [List.cons_append, List.takeWhile, ha y (by simp)]
    rw [ih (fun z hz => ha z (by simp [hz]))]

theorem dropWhile_append_stop {p : UInt8 → Bool} (a : Bytes) (x : UInt8) (b : Bytes)
    (ha : ∀ y ∈ a, p y = true) (hx : p x = false) : (a ++ x :: b).dropWhile p = x :: b := by
  induction a with
  | nil => simp [List.dropWhile, hx]
  | cons y t ih =>
    simp only [List.cons_append, List.dropWhile, ha y (by simp)]
    exact ih (fun z hz => ha z (by simp [hz]))

/-- `path.Split(pre + "/" + file) = (pre + "/", file)` when `file` has no slash. -/
theorem pathSplit_append (pre file : Bytes) (h : (47 : UInt8) ∉ file) :
    pathSplit (pre ++ 47 :: file) = (pre ++ [47], file) := by
  unfold pathSplit
  have hr : (pre ++ 47 :: file).reverse = file.reverse ++ 47 :: pre.reverse := by simp
  have hall : ∀ y ∈ file.reverse, (decide (y ≠ 47)) = true := by
    intro y hy; simp only [List.mem_reverse] at hy
    simp only [decide_eq_true_eq]; intro e; exact h (e ▸ hy)
  simp only [hr]
  rw [takeWhile_append_stop _ _ _ hall (by simp), dropWhile_append_stop _ _ _ hall (by simp)]
  simp

theorem joinWith_snoc (sep : UInt8) (xs : List Bytes) (t : Bytes) (h : xs ≠ []) :
    joinWith sep (xs ++ [t]) = joinWith sep xs ++ sep :: t := by
  induction xs with
  | nil => exact absurd rfl h
  | cons x r ih =>
    cases r with
    | nil => simp [joinWith]
    | cons y r' =>
      have := ih (by simp)
      simp only [List.cons_append, joinWith] at this ⊢
      rw [this]; simp

theorem joinWith_head_getLast (sep : UInt8) (xs : List Bytes) (hne : xs ≠ [])
    (h : ∀ x ∈ xs, x ≠ [] ∧ sep ∉ x) :
    joinWith sep xs ≠ [] ∧ (joinWith sep xs).head? ≠ some sep ∧ (joinWith sep xs).getLast? ≠ some sep := by
  induction xs with
  | nil => exact absurd rfl hne
  | cons x r ih =>
    have hx := h x (by simp)
    cases r with
    | nil =>
      simp only [joinWith]
      refine ⟨hx.1, ?_, ?_⟩
      · intro e; exact hx.2 (List.mem_of_mem_head? e)
      · intro e; exact hx.2 (List.mem_of_getLast? e)
    | cons y r' =>
      have := ih (by simp) (fun z hz => h z (by simp [hz]))
      simp only [joinWith] at this ⊢
      refine ⟨by simp, ?_, ?_⟩
      · cases x with
        | nil => exact absurd rfl hx.1
        | cons a t =>
          simp only [List.cons_append, List.head?_cons]
          intro e
          simp only [Option.some.injEq] at e
          exact hx.2 (by simp [e])
      · rw [List.getLast?_append]
        have hJ := this.1
        cases hJc : joinWith sep (y :: r') with
        | nil => exact absurd hJc hJ
        | cons j js =>
          rw [hJc] at this
          simp only [List.getLast?_cons_cons]
          cases hj : (j :: js).getLast? with
          | none => simp at hj
          | some v =>
            have h2 := this.2.2
            rw [hj] at h2
            simpa using h2

theorem trimByte_wrapped (c : UInt8) (s : Bytes) (hne : s ≠ [])
    (hh : s.head? ≠ some c) (hl : s.getLast? ≠ some c) : trimByte c (c :: s ++ [c]) = s := by
  unfold trimByte
  cases s with
  | nil => exact absurd rfl hne
  | cons a t =>
    have ha : a ≠ c := by intro e; apply hh; simp [e]
    have e1 : (c :: (a :: t) ++ [c]).dropWhile (fun x => decide (x = c)) = (a :: t) ++ [c] := by
      simp [List.dropWhile, ha]
    rw [e1]
    have e2 : ((a :: t) ++ [c]).reverse = c :: (a :: t).reverse := by simp
    rw [e2]
    have : ((a :: t).reverse).head? ≠ some c := by rw [List.head?_reverse]; exact hl
    cases hr : (a :: t).reverse with
    | nil => simp at hr
    | cons b r =>
      rw [hr] at this
      have hb : b ≠ c := by intro e; apply this; simp [e]
      simp only [List.dropWhile, decide_true, hb, decide_false]
      rw [← hr]; simp

end Wl2k.Str
