import Wl2kVerif.Proofs.LzDecode
import Wl2kVerif.Proofs.Huff6
import Wl2kVerif.Props.C08
import Wl2kVerif.Props.C08_reader
import Wl2kVerif.Props.C04_crc
/-
How much of the container the decompressor's CRC verdict covers.

`Reader.close` compares the header CRC with the CRC over the size field and the `pulled` first body
bytes; `pulled` moves on the 4096-byte grid of the `bufio.Reader` refills (`PInv`). This file follows
`src`, `pulled`, `berr` and the header fields through the whole read loop (`Pull`), shows that the first
`Read` of a new reader with a positive declared size touches the source (`Touched`), and concludes:
`lzDecode c = some _` implies that the embedded CRC matches a grid prefix of the body — the WHOLE body
when the body fits one refill (container ≤ 4102 bytes) and the declared size is not 0 — i.e. `crcOK c`.
-/
namespace Wl2k.Lzhuf
open Wl2k

/-- `pulled` is on the refill grid: the whole source, or a multiple of 4096 -/
def PInv (d : Reader) : Prop := d.pulled ≤ d.src.size ∧ (d.pulled = d.src.size ∨ d.pulled % 4096 = 0)

/-- the source was asked for at least one byte -/
def Touched (d : Reader) : Prop := 0 < d.pulled ∨ d.berr = true

/-- `Pull d d'`: `d'` is a later state of `d` as far as the CRC bookkeeping is concerned -/
structure Pull (d d' : Reader) : Prop where
  src : d'.src = d.src
  crc16 : d'.crc16 = d.crc16
  hcrc : d'.hcrc = d.hcrc
  sizeBytes : d'.sizeBytes = d.sizeBytes
  mono : d.pulled ≤ d'.pulled
  berr : d.berr = true → d'.berr = true
  inv : PInv d → PInv d'

theorem Pull.refl (d : Reader) : Pull d d := ⟨rfl, rfl, rfl, rfl, Nat.le_refl _, fun h => h, fun h => h⟩

theorem Pull.trans {a b c : Reader} (h1 : Pull a b) (h2 : Pull b c) : Pull a c :=
  ⟨h2.src.trans h1.src, h2.crc16.trans h1.crc16, h2.hcrc.trans h1.hcrc, h2.sizeBytes.trans h1.sizeBytes,
   Nat.le_trans h1.mono h2.mono, fun h => h2.berr (h1.berr h), fun h => h2.inv (h1.inv h)⟩

/-- states that agree on all the fields `Pull` looks at -/
theorem Pull.same {d d' : Reader} (h1 : d'.src = d.src) (h2 : d'.crc16 = d.crc16) (h3 : d'.hcrc = d.hcrc)
    (h4 : d'.sizeBytes = d.sizeBytes) (h5 : d'.pulled = d.pulled) (h6 : d'.berr = d.berr) : Pull d d' :=
  ⟨h1, h2, h3, h4, Nat.le_of_eq h5.symm, fun h => h6.trans h, fun h => by unfold PInv at *; rw [h5, h1]; exact h⟩

theorem Pull.touched {d d' : Reader} (p : Pull d d') (t : Touched d) : Touched d' := by
  rcases t with t | t
  · exact Or.inl (Nat.lt_of_lt_of_le t p.mono)
  · exact Or.inr (p.berr t)

/-! ### the bit layer -/

theorem readByte_pull (d : Reader) : Pull d d.readByte.1 := by
  unfold Reader.readByte
  split
  · exact Pull.same rfl rfl rfl rfl rfl rfl
  · split
    · rename_i h1 h2
      refine ⟨rfl, rfl, rfl, rfl, ?_, fun h => h, ?_⟩
      · show d.pulled ≤ min d.src.size (d.pulled + 4096); omega
      · intro hi
        show min d.src.size (d.pulled + 4096) ≤ d.src.size ∧
          (min d.src.size (d.pulled + 4096) = d.src.size ∨ min d.src.size (d.pulled + 4096) % 4096 = 0)
        unfold PInv at hi
        omega
    · exact Pull.refl d

/-- a byte was delivered, or the error is recorded: either way the source was touched -/
theorem readByte_touched (d : Reader) : Touched d.readByte.1 ∨ d.readByte.2 = none := by
  unfold Reader.readByte
  split
  · rename_i h1
    left; left
    show 0 < d.pulled; omega
  · split
    · rename_i h1 h2
      left; left
      show 0 < min d.src.size (d.pulled + 4096); omega
    · right; rfl

theorem readBits_pull (d : Reader) (bits : Nat) : Pull d (d.readBits bits).1 := by
  have hb := readByte_pull d
  unfold Reader.readBits
  by_cases h : bits > d.bbits
  · simp only [h, if_true]
    rcases hrb : d.readByte with ⟨d1, ob⟩
    rw [hrb] at hb
    cases ob with
    | none => exact ⟨hb.src, hb.crc16, hb.hcrc, hb.sizeBytes, hb.mono, fun _ => rfl, hb.inv⟩
    | some b => exact ⟨hb.src, hb.crc16, hb.hcrc, hb.sizeBytes, hb.mono, hb.berr, hb.inv⟩
  · simp only [h, if_false]
    exact Pull.same rfl rfl rfl rfl rfl rfl

theorem readBits_touched (d : Reader) (bits : Nat) (h : bits > d.bbits) : Touched (d.readBits bits).1 := by
  have ht := readByte_touched d
  unfold Reader.readBits
  simp only [h, if_true]
  rcases hrb : d.readByte with ⟨d1, ob⟩
  rw [hrb] at ht
  cases ob with
  | none => exact Or.inr rfl
  | some b =>
    rcases ht with ht | ht
    · rcases ht with ht | ht
      · exact Or.inl ht
      · exact Or.inr ht
    · cases ht

theorem walk_pull (d : Reader) (c fuel : Nat) : Pull d (d.walk c fuel).1 := by
  induction fuel generalizing d c with
  | zero => exact Pull.same rfl rfl rfl rfl rfl rfl
  | succ n ih =>
    unfold Reader.walk
    split
    · have h1 := readBits_pull d 1
      rcases hrb : d.readBits 1 with ⟨d1, b⟩
      rw [hrb] at h1
      simp only
      refine Pull.trans (Pull.trans h1 ?_) (ih _ _)
      exact Pull.same rfl rfl rfl rfl rfl rfl
    · exact Pull.refl d

theorem walk_touched (d : Reader) (c fuel : Nat) (hc : c < T) (hb : d.bbits = 0) : Touched (d.walk c (fuel + 1)).1 := by
  unfold Reader.walk
  rw [if_pos hc]
  have h1 := readBits_touched d 1 (by omega)
  rcases hrb : d.readBits 1 with ⟨d1, b⟩
  rw [hrb] at h1
  simp only
  refine Pull.touched (walk_pull _ _ _) ?_
  exact h1

theorem decodeChar_pull (d : Reader) : Pull d d.decodeChar.1 := by
  unfold Reader.decodeChar
  have h1 := walk_pull d (rd d.h.son R) (T + 1)
  rcases hw : d.walk (rd d.h.son R) (T + 1) with ⟨d1, c⟩
  rw [hw] at h1
  refine Pull.trans h1 ?_
  exact Pull.same rfl rfl rfl rfl rfl rfl

theorem decodeChar_touched (d : Reader) (hc : rd d.h.son R < T) (hb : d.bbits = 0) : Touched d.decodeChar.1 := by
  unfold Reader.decodeChar
  have h1 := walk_touched d (rd d.h.son R) T hc hb
  rcases hw : d.walk (rd d.h.son R) (T + 1) with ⟨d1, c⟩
  rw [hw] at h1
  unfold Touched at h1 ⊢
  simp only at h1 ⊢
  exact h1

theorem lowBits_pull (d : Reader) (i j : Nat) : Pull d (d.lowBits i j).1 := by
  induction j generalizing d i with
  | zero => exact Pull.refl d
  | succ n ih =>
    unfold Reader.lowBits
    have h1 := readBits_pull d 1
    rcases hrb : d.readBits 1 with ⟨d1, b⟩
    rw [hrb] at h1
    exact Pull.trans h1 (ih _ _)

theorem decodePosition_pull (d : Reader) : Pull d d.decodePosition.1 := by
  unfold Reader.decodePosition
  have h1 := readBits_pull d 8
  rcases hrb : d.readBits 8 with ⟨d1, i⟩
  rw [hrb] at h1
  simp only
  have h2 := lowBits_pull d1 i (tbl Gen.dLen i - 2)
  rcases hl : d1.lowBits i (tbl Gen.dLen i - 2) with ⟨d2, i2⟩
  rw [hl] at h2
  exact Pull.trans h1 h2

/-! ### the read loop -/

theorem copyMatch_pull (d : Reader) (i : Nat) (out : Bytes) (room k j : Nat) :
    Pull d (d.copyMatch i out room k j).1 := by
  induction j generalizing d out room k with
  | zero => unfold Reader.copyMatch; exact Pull.refl d
  | succ n ih =>
    unfold Reader.copyMatch
    by_cases hp : (d.pos : Int) ≥ d.size
    · simp only [hp, if_true]
      exact Pull.same rfl rfl rfl rfl rfl rfl
    · simp only [hp, if_false]
      by_cases hr : room > 0
      · simp only [hr, if_true]
        refine Pull.trans ?_ (ih _ _ _ _)
        exact Pull.same rfl rfl rfl rfl rfl rfl
      · simp only [hr, if_false]
        refine Pull.trans ?_ (ih _ _ _ _)
        exact Pull.same rfl rfl rfl rfl rfl rfl

/-- `fill`: the final state is a later state of `d`; and when the loop makes a step at all, of the state
right after the first `decodeChar` -/
theorem fill_pull (d : Reader) (out : Bytes) (room fuel : Nat) :
    Pull d (d.fill out room fuel).1 ∧
    (0 < fuel → (room > 0 ∧ !d.berr ∧ (d.pos : Int) < d.size) → Pull d.decodeChar.1 (d.fill out room fuel).1) := by
  induction fuel generalizing d out room with
  | zero => exact ⟨Pull.refl _, fun h => absurd h (Nat.lt_irrefl 0)⟩
  | succ n ih =>
    unfold Reader.fill
    split
    · rename_i hc
      have f1 := decodeChar_pull d
      rcases hdc : d.decodeChar with ⟨d1, c⟩
      rw [hdc] at f1
      simp only
      have key : Pull d1 (if c < 256 then
            Reader.fill (d1.putOne (UInt8.ofNat c)) (UInt8.ofNat c :: out) (room - 1) n
          else
            match d1.decodePosition with
            | (d, p) =>
              match d.copyMatch ((d.r + 2 * N - p - 1) % N) out room 0 (c - 255 + THRESHOLD) with
              | (d, out, room, stop) => if stop = true then (d, out) else Reader.fill d out room n).1 := by
        split
        · refine Pull.trans ?_ (ih _ _ _).1
          exact Pull.same rfl rfl rfl rfl rfl rfl
        · have f2 := decodePosition_pull d1
          rcases hdp : d1.decodePosition with ⟨d2, p⟩
          rw [hdp] at f2
          simp only
          have a := copyMatch_pull d2 ((d2.r + 2 * N - p - 1) % N) out room 0 (c - 255 + THRESHOLD)
          rcases hcm : d2.copyMatch ((d2.r + 2 * N - p - 1) % N) out room 0 (c - 255 + THRESHOLD) with ⟨d3, out3, room3, stop⟩
          rw [hcm] at a
          simp only at a ⊢
          split
          · exact Pull.trans f2 a
          · exact Pull.trans (Pull.trans f2 a) (ih _ _ _).1
      exact ⟨Pull.trans f1 key, fun _ _ => key⟩
    · rename_i hc
      exact ⟨Pull.refl _, fun _ h => absurd h hc⟩

theorem norm_pull (d : Reader) : Pull d d.norm := by
  unfold Reader.norm
  split
  · exact Pull.same rfl rfl rfl rfl rfl rfl
  · exact Pull.refl d

theorem read_pull (d : Reader) (m : Nat) : Pull d (d.read m).1 := by
  rw [read_eq]
  split
  · exact norm_pull d
  · split
    · exact norm_pull d
    · refine Pull.trans (norm_pull d) ?_
      unfold Reader.readFill
      refine Pull.trans ?_ (fill_pull _ _ _ _).1
      exact Pull.same rfl rfl rfl rfl rfl rfl

theorem readsWith_pull (d : Reader) (ns : List Nat) : Pull d (readsWith d ns).1 := by
  induction ns generalizing d with
  | nil => exact Pull.refl d
  | cons m ns ih => simp only [readsWith]; exact Pull.trans (read_pull d m) (ih _)

/-- **the first `Read` touches the source**: a fresh reader state (nothing decoded, no bits buffered,
root of the Huffman tree internal) with a positive declared size, asked for at least one byte -/
theorem read_touched (d : Reader) (m : Nat) (hm : 0 < m) (hb : d.berr = false) (he : d.err = none) (hp : d.pos = 0)
    (hq : d.pending = []) (hs : 0 < d.size) (hbb : d.bbits = 0) (hr : rd d.h.son R < T) : Touched (d.read m).1 := by
  rw [read_eq, norm_of_not_berr d hb]
  have c1 : ¬ ((!d.berr) = true ∧ (d.pos : Int) ≥ d.size ∧ d.pending.isEmpty = true) := by
    rw [hp]; intro h; have := h.2.1; omega
  have c2 : ¬ (d.err.isSome = true) := by rw [he]; simp
  rw [if_neg c1, if_neg c2]
  unfold Reader.readFill
  rw [hq]
  simp only [List.drop_nil, List.take_nil, List.reverse_nil, List.length_nil, Nat.sub_zero]
  have hd : ({ d with pending := [] } : Reader) = d := by rw [← hq]
  rw [hd]
  have := (fill_pull d [] m (m + 1)).2 (by omega) ⟨hm, by simp [hb], by rw [hp]; exact hs⟩
  exact Pull.touched this (decodeChar_touched d hr hbb)

/-! ### from `lzDecode` to the final reader state -/

open Wl2k.B2F in
/-- `lzReadAll` succeeds only through a sequence of `Read(32768)`s with `Close() = nil` at the end -/
theorem lzReadAll_ok_reads : ∀ (fuel : Nat) (d : Reader) (acc out : Bytes),
    lzReadAll d acc fuel = .ok out → ∃ ns : List Nat, (readsWith d (32768 :: ns)).1.close = none := by
  intro fuel
  induction fuel with
  | zero => intro d acc out h; simp [lzReadAll] at h
  | succ f ih =>
    intro d acc out h
    unfold lzReadAll at h
    rcases hr : d.read 32768 with ⟨d', bs, e⟩
    rw [hr] at h
    cases e with
    | none =>
      simp only at h
      obtain ⟨ns, h1⟩ := ih d' (acc ++ bs) out h
      refine ⟨32768 :: ns, ?_⟩
      simp only [readsWith, hr] at h1 ⊢
      exact h1
    | some e =>
      cases e with
      | eof =>
        simp only at h
        cases hc : d'.close with
        | none =>
          refine ⟨[], ?_⟩
          simp only [readsWith, hr]; exact hc
        | some e' => cases e' <;> simp [hc] at h
      | unexpectedEOF => simp at h
      | checksum => simp at h

/-- the fields of the reader `NewB2Reader` builds -/
theorem new_true_fields (c : Bytes) (d : Reader) (h : Reader.new true c = .ok d) :
    6 ≤ c.length ∧ d.crc16 = true ∧ d.hcrc = (c.getD 0 0).toNat + 256 * (c.getD 1 0).toNat ∧
    d.sizeBytes = (c.drop 2).take 4 ∧ d.src = (c.drop 6).toArray ∧ d.pulled = 0 ∧ d.bbits = 0 ∧
    d.size = int32OfLE ((c.drop 2).take 4) := by
  unfold Reader.new at h
  simp only [if_true, true_and] at h
  by_cases h1 : c.length < 2
  · rw [if_pos h1] at h; cases h
  · rw [if_neg h1] at h
    by_cases h2 : (c.drop 2).length < 4
    · rw [if_pos h2] at h; cases h
    · rw [if_neg h2] at h
      have h3 := Except.ok.inj h
      rw [← h3]
      refine ⟨?_, rfl, rfl, rfl, ?_, rfl, rfl, rfl⟩
      · simp at h2; omega
      · simp

open Wl2k.B2F in
/-- **What an accepting `lzDecode` certifies about the container bytes**: the embedded CRC equals the
CRC over the size field and the first `n` body bytes, where `n` is on the refill grid (the whole body, or
a multiple of 4096) and `n > 0` unless the declared size is 0. -/
theorem lzDecode_some_prefix (c data : Bytes) (h : lzDecode c = some data) :
    6 ≤ c.length ∧ ∃ n, n ≤ (c.drop 6).length ∧ (n = (c.drop 6).length ∨ n % 4096 = 0) ∧
      (int32OfLE ((c.drop 2).take 4) ≠ 0 → 0 < n) ∧
      (c.getD 0 0).toNat + 256 * (c.getD 1 0).toNat = crc ((c.drop 2).take 4 ++ (c.drop 6).take n) := by
  unfold lzDecode lzDecodeE at h
  cases hn : Reader.new true c with
  | error e => simp [hn] at h
  | ok d =>
    simp only [hn] at h
    cases hl : lzReadAll d [] (d.size.toNat + 3) with
    | error e => simp [hl] at h
    | ok out =>
      obtain ⟨ns, hc⟩ := lzReadAll_ok_reads _ d [] out hl
      obtain ⟨f1, f2, f3, f4, f5, f6, f7, f8⟩ := new_true_fields c d hn
      obtain ⟨n1, n2, n3, n4⟩ := new_fields true c d hn
      have p := readsWith_pull d (32768 :: ns)
      have cs := Props.C08.close_sound _ hc
      have cl := Props.C08.close_length true c d (32768 :: ns) hn hc
      have p2 : Pull (d.read 32768).1 (readsWith d (32768 :: ns)).1 := by
        simp only [readsWith]; exact readsWith_pull _ ns
      -- a positive declared size makes the first Read(32768) decode a symbol
      have touched : 0 < d.size → Touched (readsWith d (32768 :: ns)).1 := fun hpos =>
        Pull.touched p2 (read_touched d 32768 (by omega) n4 n3 n1 n2 hpos f7
          (by rw [Reader.new_h true c d hn, init_spec.son, R_eq, T_eq]; decide))
      generalize (readsWith d (32768 :: ns)).1 = dF at p cs hc touched
      have inv : PInv dF := p.inv ⟨by rw [f6]; omega, Or.inr (by rw [f6])⟩
      have hcrc := cs.2.2.1 (p.crc16.trans f2)
      rw [p.hcrc, p.sizeBytes, p.src, f3, f4, f5] at hcrc
      unfold PInv at inv
      rw [p.src, f5] at inv
      simp only [List.size_toArray] at inv
      refine ⟨f1, dF.pulled, inv.1, inv.2, ?_, ?_⟩
      · intro hsz
        have hpos : 0 < d.size := by
          have : (0 : Int) ≤ d.size := by rw [← cl]; omega
          rw [f8] at this ⊢
          omega
        rcases touched hpos with t | t
        · exact t
        · rw [cs.2.1] at t; cases t
      · rw [hcrc]
        congr 2
        simp

theorem le16_of_bytes (a b : UInt8) : le16 (a.toNat + 256 * b.toNat) = [a, b] := by
  have := a.toNat_lt; have := b.toNat_lt
  have e1 : (a.toNat + 256 * b.toNat) % 256 = a.toNat := by omega
  have e2 : (a.toNat + 256 * b.toNat) / 256 % 256 = b.toNat := by omega
  simp only [le16, e1, e2, UInt8.ofNat_toNat]

open Wl2k.B2F Wl2k.Crc in
/-- **One refill, non-zero declared size: an accepting `lzDecode` certifies the WHOLE container.**
If the body fits one `bufio` refill (container ≤ 4102 bytes = 2 CRC + 4 size + 4096 body) and the declared
size is not 0, `lzDecode c = some _` implies the container's embedded CRC-16 is the CRC of everything that
follows it (`crcOK c`). -/
theorem lzDecode_some_crcOK (c data : Bytes) (hlen : c.length ≤ 4102) (hsz : int32OfLE ((c.drop 2).take 4) ≠ 0)
    (h : lzDecode c = some data) : Props.C04.crcOK c := by
  obtain ⟨h6, n, hn1, hn2, hn3, hcrc⟩ := lzDecode_some_prefix c data h
  have hpos := hn3 hsz
  have hL : (c.drop 6).length ≤ 4096 := by simp only [List.length_drop]; omega
  have hn : n = (c.drop 6).length := by omega
  rw [hn, List.take_length, show c.drop 6 = (c.drop 2).drop 4 by rw [List.drop_drop], List.take_append_drop] at hcrc
  match c, h6, hcrc with
  | a :: b :: t, _, hcrc =>
    refine ⟨by simp, ?_⟩
    simp only [List.getD_cons_zero, List.getD_cons_succ, List.drop_succ_cons, List.drop_zero] at hcrc
    simp only [List.take_succ_cons, List.take_zero, List.drop_succ_cons, List.drop_zero]
    rw [← Props.C07.crc_eq_xmodem, ← hcrc, le16_of_bytes]

open Wl2k.Crc in
/-- **Any length: `Close() = nil` after the WHOLE body was pulled certifies the whole container.** -/
theorem close_full_crcOK (c : Bytes) (d : Reader) (ns : List Nat) (hn : Reader.new true c = .ok d)
    (hfull : (readsWith d ns).1.pulled = d.src.size) (hc : (readsWith d ns).1.close = none) :
    Props.C04.crcOK c := by
  obtain ⟨h6, f2, f3, f4, f5, -, -, -⟩ := new_true_fields c d hn
  have p := readsWith_pull d ns
  have cs := Props.C08.close_sound _ hc
  have hcrc := cs.2.2.1 (p.crc16.trans f2)
  rw [hfull, p.hcrc, p.sizeBytes, p.src, f3, f4, f5] at hcrc
  have he : ((c.drop 6).toArray.extract 0 (c.drop 6).toArray.size).toList = (c.drop 2).drop 4 := by
    simp
    exact List.take_of_length_le (by simp)
  rw [he, List.take_append_drop] at hcrc
  match c, h6, hcrc with
  | a :: b :: t, _, hcrc =>
    refine ⟨by simp, ?_⟩
    simp only [List.getD_cons_zero, List.getD_cons_succ, List.drop_succ_cons, List.drop_zero] at hcrc
    simp only [List.take_succ_cons, List.take_zero, List.drop_succ_cons, List.drop_zero]
    rw [← Props.C07.crc_eq_xmodem, ← hcrc, le16_of_bytes]

end Wl2k.Lzhuf
