import Wl2kVerif.Proofs.WholeLz
/-
Generic tools for the whole-session argument (`Proofs/WholeTurns.lean`):
* peeked bytes come from the input, hence no `SetSent(_, false)` on an input without 'F' / ';';
* handler-state invariants transfer to every run (`run_inv`); the reference handler's outbox only shrinks
  and its policy never changes (`HLe`);
* `Con`: the stream-level consistency of two partial traces that `pair_causal` provides in every reachable
  state of every pair run.
-/
namespace Wl2k.B2F
open Wl2k

section generic
variable {H : Type} (hstep : H → Call → H × Reply)

/-- a peek event of a run was in the trace already, or saw a byte of the input -/
theorem run_peeked_mem {α : Type} (p : Proc α) : ∀ (J : Bytes) (h : H) (tr : List Ev) (b : UInt8),
    Ev.peeked b ∈ (Proc.run hstep p J h tr).2.2.2 → Ev.peeked b ∈ tr ∨ b ∈ J := by
  induction p with
  | ret a => intro J h tr b hb; exact Or.inl hb
  | readByte k ih =>
    intro J h tr b hb
    cases J with
    | nil => exact ih none [] h tr b hb
    | cons x t =>
      rcases ih (some x) t h tr b hb with h1 | h1
      · exact Or.inl h1
      · exact Or.inr (List.mem_cons_of_mem _ h1)
  | peek k ih =>
    intro J h tr b hb
    cases J with
    | nil => exact ih none [] h tr b hb
    | cons x t =>
      rcases ih (some x) (x :: t) h (.peeked x :: tr) b hb with h1 | h1
      · rcases List.mem_cons.mp h1 with h2 | h2
        · cases h2; exact Or.inr List.mem_cons_self
        · exact Or.inl h2
      · exact Or.inr h1
  | write bs k ih =>
    intro J h tr b hb
    rcases ih J h (.wrote bs :: tr) b hb with h1 | h1
    · rcases List.mem_cons.mp h1 with h2 | h2
      · cases h2
      · exact Or.inl h2
    · exact Or.inr h1
  | call c k ih =>
    intro J h tr b hb
    rcases ih _ J _ (.called c :: tr) b hb with h1 | h1
    · rcases List.mem_cons.mp h1 with h2 | h2
      · cases h2
      · exact Or.inl h2
    · exact Or.inr h1
  | panic s => intro J h tr b hb; exact Or.inl hb

/-- **No confirmation without a go byte**: a program that obeys the confirmation rule reports nothing sent
on an input that contains neither 'F' nor ';' (in particular on the empty input). -/
theorem no_confirm_of_no_go {α : Type} {Q : α → Bool → Prop} {p : Proc α} (hacc : Accepts armedδ Q false p)
    (J : Bytes) (hJ : ∀ b ∈ J, isGo b = false) (h : H) (m : Bytes) :
    Ev.called (.setSent m false) ∉ (Proc.run hstep p J h []).2.2.2 := by
  intro hmem
  obtain ⟨s', hm, _⟩ := run_accepts hstep hacc J h [] false rfl
  obtain ⟨post, pre, hsplit⟩ := List.append_of_mem hmem
  obtain ⟨cs, b, pre', h1, h2, _⟩ := armedδ_spec _ s' hm post pre m hsplit
  have hb : Ev.peeked b ∈ (Proc.run hstep p J h []).2.2.2 := by
    rw [hsplit, h1]; simp
  rcases run_peeked_mem hstep p J h [] b hb with h3 | h3
  · cases h3
  · rw [hJ b h3] at h2; cases h2

/-- an invariant of the handler state that every call preserves holds after every run -/
theorem run_inv {α : Type} (I : H → Prop) (hI : ∀ h c, I h → I (hstep h c).1) (p : Proc α) :
    ∀ (J : Bytes) (h : H) (tr : List Ev), I h → I (Proc.run hstep p J h tr).2.2.1 := by
  induction p with
  | ret a => intro J h tr hh; exact hh
  | readByte k ih =>
    intro J h tr hh
    cases J with
    | nil => exact ih none [] h tr hh
    | cons x t => exact ih (some x) t h tr hh
  | peek k ih =>
    intro J h tr hh
    cases J with
    | nil => exact ih none [] h tr hh
    | cons x t => exact ih (some x) (x :: t) h _ hh
  | write bs k ih => intro J h tr hh; exact ih J h _ hh
  | call c k ih => intro J h tr hh; exact ih _ J _ _ (hI h c hh)
  | panic s => intro J h tr hh; exact hh

end generic

/-! ### the reference handler: what never grows -/

/-- `h'` is a later state of the reference handler `h`: same answer policy, no new outbox entry -/
structure HLe (h' h : HState) : Prop where
  pol : h'.policy = h.policy
  sub : ∀ msg ∈ h'.outbox, msg ∈ h.outbox
  len : h'.outbox.length ≤ h.outbox.length
  bs : h'.batchedShort = h.batchedShort

theorem HLe.refl (h : HState) : HLe h h := ⟨rfl, fun _ hm => hm, Nat.le_refl _, rfl⟩

theorem HLe.trans {a b c : HState} (h1 : HLe a b) (h2 : HLe b c) : HLe a c :=
  ⟨h1.pol.trans h2.pol, fun m hm => h2.sub m (h1.sub m hm), Nat.le_trans h1.len h2.len, h1.bs.trans h2.bs⟩

theorem hstep_hle (h : HState) (c : Call) : HLe (hstep h c).1 h := by
  cases c with
  | setSent mid r =>
    refine ⟨rfl, ?_, ?_, rfl⟩
    · intro msg hm; exact (List.mem_filter.mp hm).1
    · exact List.length_filter_le _ _
  | _ => exact ⟨rfl, fun _ hm => hm, Nat.le_refl _, rfl⟩

theorem run_hle {α : Type} (p : Proc α) (J : Bytes) (h : HState) (tr : List Ev) :
    HLe (Proc.run hstep p J h tr).2.2.1 h :=
  run_inv hstep (fun h' => HLe h' h) (fun h' c hh => (hstep_hle h' c).trans hh) p J h tr (HLe.refl h)

/-! ### consistency of two partial traces -/

/-- the trace of the complete run of `P` on `J` (then link failure) from handler state `h` -/
def trOf (P : Proc Result) (J : Bytes) (h : HState) : List Ev := (Proc.run hstep P J h []).2.2.2

/-- what `pair_causal` says of the two event lists `eA`, `eB` of a reachable state: each is an initial
segment in time of the complete run of its side's program on some prefix of what the OTHER list wrote -/
def Con (PA : Proc Result) (hA : HState) (PB : Proc Result) (hB : HState) (eA eB : List Ev) : Prop :=
  ∃ JA JB, eA <:+ trOf PA JA hA ∧ eB <:+ trOf PB JB hB ∧ JA <+: outBytes eB ∧ JB <+: outBytes eA

theorem Con.symm {PA PB : Proc Result} {hA hB : HState} {eA eB : List Ev} (h : Con PA hA PB hB eA eB) :
    Con PB hB PA hA eB eA := by
  obtain ⟨JA, JB, h1, h2, h3, h4⟩ := h
  exact ⟨JB, JA, h2, h1, h4, h3⟩

/-- every reachable state of a pair run is consistent -/
theorem con_of_exec (PA PB : Proc Result) (hA hB : HState) (limA limB : Option Nat) {n : Nat} {t : Side × Side}
    (he : PairExec (initPair PA PB hA hB limA limB) n t) : Con PA hA PB hB t.1.evs t.2.evs := by
  obtain ⟨⟨JA, hJA, ⟨postA, hTA⟩, _⟩, ⟨JB, hJB, ⟨postB, hTB⟩, _⟩⟩ := pair_causal PA PB hA hB limA limB he
  exact ⟨JA, JB, ⟨postA, hTA.symm⟩, ⟨postB, hTB.symm⟩, hJA, hJB⟩

/-- a program whose runs produce no event -/
def Mute (P : Proc Result) : Prop := ∀ J h, trOf P J h = []

theorem suffix_nil {α : Type} {l : List α} (h : l <:+ []) : l = [] := List.suffix_nil.mp h

theorem prefix_nil {α : Type} {l : List α} (h : l <+: []) : l = [] := List.prefix_nil.mp h

/-- `SetSent(m, false)` does not occur -/
def NoConf (evs : List Ev) : Prop := ∀ m, Ev.called (.setSent m false) ∉ evs

theorem NoConf.of_suffix {a b : List Ev} (h : NoConf b) (hs : a <:+ b) : NoConf a :=
  fun m hm => h m (hs.subset hm)

theorem noConf_nil : NoConf [] := fun _ hm => by cases hm

theorem noConf_append {a b : List Ev} (ha : NoConf a) (hb : NoConf b) : NoConf (a ++ b) := by
  intro m hm
  rcases List.mem_append.mp hm with h | h
  · exact ha m h
  · exact hb m h

theorem noConf_of_isConfirm {evs : List Ev} (h : ∀ e ∈ evs, e.isConfirm = false) : NoConf evs := by
  intro m hm
  have := h _ hm
  simp [Ev.isConfirm, isConfirm] at this

/-- the property, for one direction: whatever `eS` reports sent is a message of the outbox `h.outbox`
whose bytes `eR` has been handed -/
def SIR (h : HState) (eS eR : List Ev) : Prop :=
  ∀ m, Ev.called (.setSent m false) ∈ eS →
    ∃ msg ∈ h.outbox, msg.mid = m ∧ Ev.called (.processInbound msg.data) ∈ eR

theorem SIR.of_noConf {h : HState} {eS eR : List Ev} (hn : NoConf eS) : SIR h eS eR :=
  fun m hm => (hn m hm).elim

theorem SIR.mono {h h' : HState} {eS eR eR' : List Ev} (hs : SIR h' eS eR) (hle : HLe h' h)
    (hsub : ∀ e ∈ eR, e ∈ eR') : SIR h eS eR' := by
  intro m hm
  obtain ⟨msg, h1, h2, h3⟩ := hs m hm
  exact ⟨msg, hle.sub msg h1, h2, hsub _ h3⟩

end Wl2k.B2F
