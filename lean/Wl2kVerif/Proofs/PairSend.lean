import Wl2kVerif.Proofs.PairFrame
/-
Forward simulation of the sender's turn (`handleOutbound`) at the level of `Proc.run`:
what it writes, and when it reports a message sent, as a function of what it reads.
-/
namespace Wl2k.B2F
open Wl2k Wl2k.Fmt Wl2k.Str Wl2k.Strconv

variable {H : Type} (hstep : H → Call → H × Reply)

/-! ### waiting for the answer line -/

theorem solid_of_plain {a : UInt8} (h : PlainAnswer a) : Solid a := by
  rcases h with rfl | rfl | rfl
  · exact solid_plus
  · exact solid_minus
  · exact solid_eq

theorem plain_ne_13 {a : UInt8} (h : PlainAnswer a) : a ≠ 13 := by
  rcases h with rfl | rfl | rfl <;> decide

/-- the `FS` line without its CR -/
def fsLine (as : List UInt8) : Bytes := fsPrefix ++ as

theorem fsLine_no13 (as : List UInt8) (h : ∀ a ∈ as, PlainAnswer a) : (13 : UInt8) ∉ fsLine as := by
  intro hm
  simp only [fsLine, fsPrefix, List.mem_append, List.mem_cons, List.not_mem_nil, or_false] at hm
  rcases hm with (h1 | h1 | h1) | h1
  · exact absurd h1 (by decide)
  · exact absurd h1 (by decide)
  · exact absurd h1 (by decide)
  · exact plain_ne_13 (h 13 h1) rfl

theorem fsLine_clean (as : List UInt8) (hne : as ≠ []) (h : ∀ a ∈ as, PlainAnswer a) :
    cleanString (fsLine as ++ [13]) = fsLine as := by
  obtain ⟨t, al, rfl⟩ := exists_snoc as hne
  have : fsLine (t ++ [al]) = 70 :: (([83, 32] ++ t) ++ [al]) := by simp [fsLine, fsPrefix]
  rw [this]
  exact cleanString_line 70 _ al solid_F (solid_of_plain (h al (by simp)))

/-- the answer loop on a complete `FS` line -/
theorem run_awaitAnswer_fs (fuel n : Nat) (as : List UInt8) (rest : Bytes) (h : H) (tr : List Ev)
    (hne : as ≠ []) (hpl : ∀ a ∈ as, PlainAnswer a) (hf : (fsLine as).length < fuel) :
    Proc.run hstep (awaitAnswer fuel (n + 1)) (fsLine as ++ 13 :: rest) h tr = (.done (.ok (fsLine as)), rest, h, tr) := by
  unfold awaitAnswer
  simp only [bind_eq, pure_eq]
  have hF : ∃ t, fsLine as = 70 :: t := ⟨_, rfl⟩
  obtain ⟨t, ht⟩ := hF
  rw [run_bind, run_nextLine_ok hstep (fsLine as) rest fuel h tr (fsLine_no13 as hpl) hf
    (by rw [fsLine_clean as hne hpl, ht]; exact errLine_F _)]
  simp only [fsLine_clean as hne hpl]
  have : (sb "FS ").isPrefixOf (fsLine as) = true := by rw [sb_FS]; exact fsPrefix_isPrefixOf as
  simp [this, Proc.run]

/-- the answer loop on an incomplete first line -/
theorem run_awaitAnswer_eof (fuel n : Nat) (J : Bytes) (h : H) (tr : List Ev) (h13 : (13 : UInt8) ∉ J)
    (hf : J.length < fuel) :
    Proc.run hstep (awaitAnswer fuel (n + 1)) J h tr = (.done (.error .eof), [], h, tr) := by
  unfold awaitAnswer
  simp only [bind_eq, pure_eq]
  rw [run_bind, run_nextLine_eof hstep J fuel h tr h13 hf]
  simp [Proc.run]

/-! ### the transfers -/

/-- a proposal with the receiver's answer filled in (offset 0) -/
def withAns (p : Proposal) (a : UInt8) : Proposal := { p with answer := a, offset := 0 }

theorem run_writeBlocks (J : Bytes) (h : H) : ∀ (bs : List Bytes) (tr : List Ev),
    ∃ evs, Proc.run hstep (writeBlocks bs) J h tr = (.done (), J, h, evs ++ tr) ∧ outBytes evs = bs.flatten ∧
      ∀ e ∈ evs, e.isConfirm = false := by
  intro bs
  induction bs with
  | nil => intro tr; exact ⟨[], rfl, rfl, by intro e he; cases he⟩
  | cons b bs ih =>
    intro tr
    obtain ⟨evs, h1, h2, h3⟩ := ih (.wrote b :: tr)
    refine ⟨evs ++ [.wrote b], by simp only [writeBlocks, Proc.run, h1]; simp, ?_, ?_⟩
    · rw [outBytes_append, h2]; simp [outBytes]
    · intro e he
      simp only [List.mem_append, List.mem_singleton] at he
      rcases he with he | rfl
      · exact h3 e he
      · rfl

/-- `writeCompressed` for an accepted proposal with a payload of ≥ 6 bytes: writes exactly the frame -/
theorem run_writeCompressed (c : Cfg) (p : Proposal) (a : UInt8) (hbig : 6 ≤ p.csize) (J : Bytes) (h : H) (tr : List Ev) :
    ∃ evs, Proc.run hstep (writeCompressed c (withAns p a)) J h tr = (.done (.ok ()), J, h, evs ++ tr) ∧
      outBytes evs = frameOf c.maxMsgLen p.qtitle p.cdata ∧ ∀ e ∈ evs, e.isConfirm = false := by
  unfold writeCompressed
  have h6 : ¬ ((withAns p a).csize < 6) := by simp only [withAns]; omega
  have hpay : payloadFromC (withAns p a).cdata (withAns p a).offset = some (some p.cdata) := by
    rw [payloadFromC_eq]; simp [withAns]
  simp only [Proc.run, h6, if_false, hpay]
  rw [run_bind]
  obtain ⟨evs, h1, h2, h3⟩ := run_writeBlocks hstep J h (frameBlocks c.maxMsgLen p.cdata)
    (.wrote (frameHeader (withAns p a).qtitle (withAns p a).offset) :: tr)
  rw [h1]
  refine ⟨.wrote (frameTrailer p.cdata) :: (evs ++ [.wrote (frameHeader p.qtitle 0)]), ?_, ?_, ?_⟩
  · simp [Proc.run, withAns]
  · simp only [outBytes, outBytes_append, h2, frameOf]
    simp [outBytes]
  · intro e he
    simp only [List.mem_cons, List.mem_append, List.not_mem_nil, or_false] at he
    rcases he with rfl | he | rfl
    · rfl
    · exact h3 e he
    · rfl

/-- **The transfer loop**: writes exactly the frames of the accepted proposals, reports nothing sent
itself, and whatever it adds to `sent` as delivered (`false`) is the MID of an accepted proposal. -/
theorem run_transferAll (c : Cfg) (J : Bytes) : ∀ (ps : List Proposal) (as : List UInt8) (sent : List (Bytes × Bool))
    (h : H) (tr : List Ev), (∀ p ∈ ps, 6 ≤ p.csize) → (∀ a ∈ as, PlainAnswer a) →
    ∃ (evs : List Ev) (sent' : List (Bytes × Bool)) (h' : H),
      Proc.run hstep (transferAll c (List.zipWith withAns ps as) sent) J h tr = (.done (.ok sent'), J, h', evs ++ tr) ∧
      outBytes evs = framesBytes c.maxMsgLen ps as ∧ (∀ e ∈ evs, e.isConfirm = false) ∧
      (∀ m, (m, false) ∈ sent' → (m, false) ∈ sent ∨ ∃ p a, (p, a) ∈ ps.zip as ∧ a = ansAccept ∧ p.mid = m) ∧
      (∀ m, (m, false) ∈ sent → (∀ p ∈ ps, p.mid ≠ m) → (m, false) ∈ sent') ∧
      ((ps.map (·.mid)).Nodup → ∀ p a, (p, a) ∈ ps.zip as → a = ansAccept → (p.mid, false) ∈ sent') := by
  intro ps
  induction ps with
  | nil =>
    intro as sent h tr _ _
    exact ⟨[], sent, h, (by simp [transferAll, Proc.run]), (by simp [framesBytes, outBytes]), (by intro e he; cases he),
      fun m hm => Or.inl hm, fun m hm _ => hm, fun _ p a hpa => by simp at hpa⟩
  | cons p ps ih =>
    intro as sent h tr hbig hpl
    cases as with
    | nil =>
      exact ⟨[], sent, h, (by simp [transferAll, Proc.run]), (by simp [framesBytes, outBytes]), (by intro e he; cases he),
        fun m hm => Or.inl hm, fun m hm _ => hm, fun _ p a hpa => by simp at hpa⟩
    | cons a as =>
      have hbig' : ∀ q ∈ ps, 6 ≤ q.csize := fun q hq => hbig q (by simp [hq])
      have hpl' : ∀ x ∈ as, PlainAnswer x := fun x hx => hpl x (by simp [hx])
      simp only [List.zipWith_cons_cons]
      unfold transferAll
      have hans : (withAns p a).answer = a := rfl
      have hmid : (withAns p a).mid = p.mid := rfl
      rcases hpl a (by simp) with rfl | rfl | rfl
      · -- accept
        have e1 : ¬ (ansAccept = ansDefer) := by decide
        have e2 : ¬ (ansAccept = ansReject) := by decide
        simp only [hans, e1, e2, if_false, if_true, bind_eq, pure_eq, hmid]
        rw [run_bind]
        obtain ⟨ev1, w1, w2, w3⟩ := run_writeCompressed hstep c p ansAccept (hbig p (by simp)) J h tr
        rw [w1]
        simp only
        obtain ⟨evs, sent', h', r1, r2, r3, r4, r5, r6⟩ := ih as (sent.filter (·.1 ≠ p.mid) ++ [(p.mid, false)]) h (ev1 ++ tr) hbig' hpl'
        refine ⟨evs ++ ev1, sent', h', by rw [r1]; simp, ?_, ?_, ?_, ?_, ?_⟩
        · rw [outBytes_append, w2, r2]; simp [framesBytes]
        · intro e he
          simp only [List.mem_append] at he
          rcases he with he | he
          · exact r3 e he
          · exact w3 e he
        · intro m hm
          rcases r4 m hm with hm' | ⟨q, b, hq, hb, hqm⟩
          · simp only [List.mem_append, List.mem_filter, List.mem_singleton, Prod.mk.injEq] at hm'
            rcases hm' with ⟨hm', _⟩ | ⟨rfl, _⟩
            · exact Or.inl hm'
            · exact Or.inr ⟨p, ansAccept, by simp, rfl, rfl⟩
          · exact Or.inr ⟨q, b, by simp [hq], hb, hqm⟩
        · intro m hm hnot
          refine r5 m ?_ (fun q hq => hnot q (by simp [hq]))
          have : p.mid ≠ m := hnot p (by simp)
          simp only [List.mem_append, List.mem_filter, List.mem_singleton, Prod.mk.injEq]
          exact Or.inl ⟨hm, by simpa using fun e => this e.symm⟩
        · intro hnd q b hqb hb
          simp only [List.map_cons, List.nodup_cons] at hnd
          simp only [List.zip_cons_cons, List.mem_cons, Prod.mk.injEq] at hqb
          rcases hqb with ⟨rfl, _⟩ | hqb
          · refine r5 q.mid (by simp) ?_
            intro q' hq' e
            exact hnd.1 (by rw [← e]; exact List.mem_map_of_mem hq')
          · exact r6 hnd.2 q b hqb hb
      · -- reject
        have e1 : ¬ (ansReject = ansDefer) := by decide
        simp only [hans, e1, if_false, if_true, hmid]
        obtain ⟨evs, sent', h', r1, r2, r3, r4, r5, r6⟩ := ih as (sent.filter (·.1 ≠ p.mid) ++ [(p.mid, true)]) h tr hbig' hpl'
        refine ⟨evs, sent', h', r1, ?_, r3, ?_, ?_, ?_⟩
        · rw [r2]; simp [framesBytes, ansReject, ansAccept]
        · intro m hm
          rcases r4 m hm with hm' | ⟨q, b, hq, hb, hqm⟩
          · simp only [List.mem_append, List.mem_filter, List.mem_singleton, Prod.mk.injEq] at hm'
            rcases hm' with ⟨hm', _⟩ | ⟨_, hf⟩
            · exact Or.inl hm'
            · cases hf
          · exact Or.inr ⟨q, b, by simp [hq], hb, hqm⟩
        · intro m hm hnot
          refine r5 m ?_ (fun q hq => hnot q (by simp [hq]))
          have : p.mid ≠ m := hnot p (by simp)
          simp only [List.mem_append, List.mem_filter, List.mem_singleton, Prod.mk.injEq]
          exact Or.inl ⟨hm, by simpa using fun e => this e.symm⟩
        · intro hnd q b hqb hb
          simp only [List.map_cons, List.nodup_cons] at hnd
          simp only [List.zip_cons_cons, List.mem_cons, Prod.mk.injEq] at hqb
          rcases hqb with ⟨_, rfl⟩ | hqb
          · exact absurd hb (by decide)
          · exact r6 hnd.2 q b hqb hb
      · -- defer
        simp only [hans, if_true, hmid, Proc.run]
        obtain ⟨evs, sent', h', r1, r2, r3, r4, r5, r6⟩ := ih as sent (hstep h (.setDeferred p.mid)).1
          (.called (.setDeferred p.mid) :: tr) hbig' hpl'
        refine ⟨evs ++ [.called (.setDeferred p.mid)], sent', h', by rw [r1]; simp, ?_, ?_, ?_, ?_, ?_⟩
        · rw [outBytes_append, r2]; simp [framesBytes, outBytes, ansDefer, ansAccept]
        · intro e he
          simp only [List.mem_append, List.mem_singleton] at he
          rcases he with he | rfl
          · exact r3 e he
          · rfl
        · intro m hm
          rcases r4 m hm with hm' | ⟨q, b, hq, hb, hqm⟩
          · exact Or.inl hm'
          · exact Or.inr ⟨q, b, by simp [hq], hb, hqm⟩
        · intro m hm hnot
          exact r5 m hm (fun q hq => hnot q (by simp [hq]))
        · intro hnd q b hqb hb
          simp only [List.map_cons, List.nodup_cons] at hnd
          simp only [List.zip_cons_cons, List.mem_cons, Prod.mk.injEq] at hqb
          rcases hqb with ⟨_, rfl⟩ | hqb
          · exact absurd hb (by decide)
          · exact r6 hnd.2 q b hqb hb

/-! ### `sendOutbound` -/

theorem run_writeLines (J : Bytes) (h : H) : ∀ (ls : List Bytes) (tr : List Ev),
    ∃ evs, Proc.run hstep (writeLines ls) J h tr = (.done (), J, h, evs ++ tr) ∧
      outBytes evs = (ls.map (· ++ [13])).flatten ∧ ∀ e ∈ evs, e.isConfirm = false := by
  intro ls
  induction ls with
  | nil => intro tr; exact ⟨[], rfl, rfl, by intro e he; cases he⟩
  | cons l ls ih =>
    intro tr
    obtain ⟨evs, h1, h2, h3⟩ := ih (.wrote (l ++ [13]) :: tr)
    refine ⟨evs ++ [.wrote (l ++ [13])], by simp only [writeLines, Proc.run, h1]; simp, ?_, ?_⟩
    · rw [outBytes_append, h2]; simp [outBytes]
    · intro e he
      simp only [List.mem_append, List.mem_singleton] at he
      rcases he with he | rfl
      · exact h3 e he
      · rfl

theorem zip_map_withAns : ∀ (ps : List Proposal) (as : List UInt8),
    ((ps.zip (as.map fun a => (a, (0 : Int)))).map fun (x : Proposal × UInt8 × Int) => { x.1 with answer := x.2.1, offset := x.2.2 }) =
      List.zipWith withAns ps as := by
  intro ps
  induction ps with
  | nil => intro as; simp
  | cons p ps ih =>
    intro as
    cases as with
    | nil => simp
    | cons a as => simp [ih, withAns]

/-- the proposal block as written: lines, then the prompt with the block checksum -/
def blockOut (block : List Proposal) : Bytes := blockBytes block ++ promptLine (blockSum 0 block)

theorem blockSum_eq (block : List Proposal) :
    ((block.map fun p => proposalLine p.code p.msgType p.mid p.size p.csize).map lineSum).foldl (· + ·) 0 = blockSum 0 block := by
  simp [blockSum, pl, List.map_map, Function.comp_def]

theorem blockBytes_eq (block : List Proposal) :
    ((block.map fun p => proposalLine p.code p.msgType p.mid p.size p.csize).map (· ++ [13])).flatten = blockBytes block := by
  simp [blockBytes, pl, List.map_map, Function.comp_def]

/-- `sendOutbound` when the first line of the input is incomplete (or there is no input at all) -/
theorem run_sendOutbound_eof (c : Cfg) (fuel : Nat) (outp : List Proposal) (J : Bytes) (h : H) (tr : List Ev)
    (h13 : (13 : UInt8) ∉ J) (hf : J.length < fuel) :
    ∃ evs, Proc.run hstep (sendOutbound c fuel outp) J h tr = (.done (.error .eof), [], h, evs ++ tr) ∧
      outBytes evs = blockOut (outp.take c.maxBlock) ∧ ∀ e ∈ evs, e.isConfirm = false := by
  unfold sendOutbound
  simp only [bind_eq, pure_eq]
  obtain ⟨ev1, w1, w2, w3⟩ := run_writeLines hstep J h
    ((outp.take c.maxBlock).map fun p => proposalLine p.code p.msgType p.mid p.size p.csize) tr
  rw [run_bind, w1]
  simp only
  rw [run_bind]
  simp only [Proc.run]
  rw [run_bind]
  cases fuel with
  | zero => omega
  | succ f =>
    rw [run_awaitAnswer_eof hstep (f + 1) f J h _ h13 hf]
    refine ⟨.wrote (promptLine (blockSum 0 (outp.take c.maxBlock))) :: ev1, ?_, ?_, ?_⟩
    · simp [Proc.run, ← blockSum_eq]
    · simp only [outBytes, w2, blockBytes_eq, blockOut]
    · intro e he
      simp only [List.mem_cons] at he
      rcases he with rfl | he
      · rfl
      · exact w3 e he

/-- `sendOutbound` when the input starts with a complete `FS` line with one plain answer per proposal -/
theorem run_sendOutbound_fs (c : Cfg) (fuel : Nat) (outp : List Proposal) (as : List UInt8) (J2 : Bytes) (h : H) (tr : List Ev)
    (hlen : as.length = (outp.take c.maxBlock).length) (hne : as ≠ []) (hpl : ∀ a ∈ as, PlainAnswer a)
    (hf : (fsLine as).length < fuel) (hbig : ∀ p ∈ outp.take c.maxBlock, 6 ≤ p.csize) :
    ∃ (evs : List Ev) (sent' : List (Bytes × Bool)) (h' : H),
      Proc.run hstep (sendOutbound c fuel outp) (fsLine as ++ 13 :: J2) h tr = (.done (.ok sent'), J2, h', evs ++ tr) ∧
      outBytes evs = blockOut (outp.take c.maxBlock) ++ framesBytes c.maxMsgLen (outp.take c.maxBlock) as ∧
      (∀ e ∈ evs, e.isConfirm = false) ∧
      (∀ m, (m, false) ∈ sent' → ∃ p a, (p, a) ∈ (outp.take c.maxBlock).zip as ∧ a = ansAccept ∧ p.mid = m) ∧
      (((outp.take c.maxBlock).map (·.mid)).Nodup → ∀ p a, (p, a) ∈ (outp.take c.maxBlock).zip as → a = ansAccept →
        (p.mid, false) ∈ sent') := by
  unfold sendOutbound
  simp only [bind_eq, pure_eq]
  obtain ⟨ev1, w1, w2, w3⟩ := run_writeLines hstep (fsLine as ++ 13 :: J2) h
    ((outp.take c.maxBlock).map fun p => proposalLine p.code p.msgType p.mid p.size p.csize) tr
  rw [run_bind, w1]
  simp only
  rw [run_bind]
  simp only [Proc.run]
  rw [run_bind]
  cases fuel with
  | zero => omega
  | succ f =>
    rw [run_awaitAnswer_fs hstep (f + 1) f as J2 h _ hne hpl hf]
    simp only [parseProposalAnswerC_eq]
    have hparse := answers_roundtrip c.offsetLimit as hpl
    rw [hlen] at hparse
    simp only [fsLine, hparse, zip_map_withAns]
    obtain ⟨ev2, sent', h', r1, r2, r3, r4, _, r6⟩ := run_transferAll hstep c J2 (outp.take c.maxBlock) as [] h
      (.wrote (promptLine (((outp.take c.maxBlock).map fun p => proposalLine p.code p.msgType p.mid p.size p.csize).map lineSum
        |>.foldl (· + ·) 0)) :: (ev1 ++ tr)) hbig hpl
    refine ⟨ev2 ++ .wrote (promptLine (blockSum 0 (outp.take c.maxBlock))) :: ev1, sent', h', ?_, ?_, ?_, ?_, r6⟩
    · rw [r1]; simp [← blockSum_eq]
    · simp only [outBytes_append, outBytes, w2, r2, blockBytes_eq, blockOut]
    · intro e he
      simp only [List.mem_append, List.mem_cons] at he
      rcases he with he | rfl | he
      · exact r3 e he
      · rfl
      · exact w3 e he
    · intro m hm
      rcases r4 m hm with hm' | hm'
      · cases hm'
      · exact hm'

/-! ### `handleOutbound` -/

theorem run_callAll (J : Bytes) : ∀ (cs : List Call) (h : H) (tr : List Ev),
    ∃ h', Proc.run hstep (callAll cs) J h tr = (.done (), J, h', (cs.reverse.map Ev.called) ++ tr) := by
  intro cs
  induction cs with
  | nil => intro h tr; exact ⟨h, rfl⟩
  | cons x xs ih =>
    intro h tr
    obtain ⟨h', e⟩ := ih (hstep h x).1 (.called x :: tr)
    exact ⟨h', by simp only [callAll, Proc.run, e]; simp⟩

/-- the block the sender proposes, given the handler's reply to `GetOutbound` -/
def blockOf' (c : Cfg) (out : List OutMsg) : List Proposal :=
  (sortProposals ((out.filter fun m : OutMsg => m.valid).map mkProp)).take c.maxBlock

/-- **The sender's turn when the first line of the input is incomplete or missing**: the block is written,
nothing is reported sent. -/
theorem handleOutbound_trace_eof (c : Cfg) (fuel : Nat) (st : SState) (out : List OutMsg) (J : Bytes) (h h1 : H) (tr : List Ev)
    (hh : c.hasHandler = true) (hget : hstep h (.getOutbound st.remoteFW) = (h1, .msgs out))
    (hblock : blockOf' c out ≠ []) (h13 : (13 : UInt8) ∉ J) (hf : J.length < fuel) :
    ∃ evs, (Proc.run hstep (handleOutbound c fuel st) J h tr).2.2.2 = evs ++ tr ∧
      outBytes evs = blockOut (blockOf' c out) ∧ ∀ e ∈ evs, e.isConfirm = false := by
  unfold handleOutbound
  simp only [bind_eq, pure_eq]
  rw [run_bind]
  have hne : (sortProposals ((out.filter fun m : OutMsg => m.valid).map mkProp)).isEmpty = false := by
    cases hs : sortProposals ((out.filter (·.valid)).map mkProp) with
    | nil => simp [blockOf', hs] at hblock
    | cons a t => rfl
  simp only [outbound, hh, Bool.not_true, Bool.false_eq_true, if_false, Proc.run, hget, hne]
  rw [run_bind]
  obtain ⟨ev1, w1, w2, w3⟩ := run_sendOutbound_eof hstep c fuel (sortProposals ((out.filter fun m : OutMsg => m.valid).map mkProp)) J h1
    (.called (.getOutbound st.remoteFW) :: tr) h13 hf
  rw [w1]
  refine ⟨ev1 ++ [.called (.getOutbound st.remoteFW)], by simp [Proc.run], ?_, ?_⟩
  · rw [outBytes_append, w2]; simp [outBytes, blockOf']
  · intro e he
    simp only [List.mem_append, List.mem_singleton] at he
    rcases he with he | rfl
    · exact w3 e he
    · rfl

theorem setSent_true_evs (l : List (Bytes × Bool)) :
    ∀ e ∈ (l.map fun x : Bytes × Bool => Call.setSent x.1 true).reverse.map Ev.called, e.isConfirm = false := by
  intro e he
  simp only [List.mem_map, List.mem_reverse] at he
  obtain ⟨c, ⟨x, _, rfl⟩, rfl⟩ := he
  rfl

/-- **The sender's turn when the input starts with the `FS` line**: block and frames of the accepted
proposals are written; a message is reported sent only if the byte after the `FS` line exists and is
'F' or ';', and only if it is the MID of an accepted proposal. -/
theorem handleOutbound_trace_fs (c : Cfg) (fuel : Nat) (st : SState) (out : List OutMsg) (as : List UInt8) (J2 : Bytes)
    (h h1 : H) (tr : List Ev)
    (hh : c.hasHandler = true) (hget : hstep h (.getOutbound st.remoteFW) = (h1, .msgs out))
    (hlen : as.length = (blockOf' c out).length) (hne : as ≠ []) (hpl : ∀ a ∈ as, PlainAnswer a)
    (hf : (fsLine as).length < fuel) (hbig : ∀ p ∈ blockOf' c out, 6 ≤ p.csize) :
    ∃ evs, (Proc.run hstep (handleOutbound c fuel st) (fsLine as ++ 13 :: J2) h tr).2.2.2 = evs ++ tr ∧
      outBytes evs = blockOut (blockOf' c out) ++ framesBytes c.maxMsgLen (blockOf' c out) as ∧
      (∀ m, Ev.called (.setSent m false) ∈ evs →
        (∃ x r, J2 = x :: r ∧ isGo x = true) ∧ ∃ p a, (p, a) ∈ (blockOf' c out).zip as ∧ a = ansAccept ∧ p.mid = m) ∧
      (((blockOf' c out).map (·.mid)).Nodup → (∃ x r, J2 = x :: r ∧ isGo x = true) →
        ∀ p a, (p, a) ∈ (blockOf' c out).zip as → a = ansAccept → Ev.called (.setSent p.mid false) ∈ evs) := by
  unfold handleOutbound
  simp only [bind_eq, pure_eq]
  rw [run_bind]
  have hblock : blockOf' c out ≠ [] := by
    intro e; rw [e] at hlen; simp at hlen; exact hne hlen
  have hne' : (sortProposals ((out.filter fun m : OutMsg => m.valid).map mkProp)).isEmpty = false := by
    cases hs : sortProposals ((out.filter (·.valid)).map mkProp) with
    | nil => simp [blockOf', hs] at hblock
    | cons a t => rfl
  simp only [outbound, hh, Bool.not_true, Bool.false_eq_true, if_false, Proc.run, hget, hne']
  rw [run_bind]
  obtain ⟨ev1, sent', h2, w1, w2, w3, w4, w5⟩ := run_sendOutbound_fs hstep c fuel (sortProposals ((out.filter fun m : OutMsg => m.valid).map mkProp))
    as J2 h1 (.called (.getOutbound st.remoteFW) :: tr) hlen hne hpl hf hbig
  rw [w1]
  simp only
  rw [run_bind]
  obtain ⟨h3, ec⟩ := run_callAll hstep J2 ((sent'.filter (·.2)).map fun x : Bytes × Bool => Call.setSent x.1 true) h2
    (ev1 ++ .called (.getOutbound st.remoteFW) :: tr)
  rw [ec]
  simp only
  have hnc : ∀ e ∈ ((sent'.filter (·.2)).map fun x : Bytes × Bool => Call.setSent x.1 true).reverse.map Ev.called ++
      (ev1 ++ [.called (.getOutbound st.remoteFW)]), e.isConfirm = false := by
    intro e he
    simp only [List.mem_append, List.mem_singleton] at he
    rcases he with he | he | rfl
    · exact setSent_true_evs _ e he
    · exact w3 e he
    · rfl
  have hob : outBytes (((sent'.filter (·.2)).map fun x : Bytes × Bool => Call.setSent x.1 true).reverse.map Ev.called ++
      (ev1 ++ [.called (.getOutbound st.remoteFW)])) =
      blockOut (blockOf' c out) ++ framesBytes c.maxMsgLen (blockOf' c out) as := by
    have hcalls : ∀ (l : List Call), outBytes (l.map Ev.called) = [] := by
      intro l; induction l with
      | nil => rfl
      | cons x xs ih => simpa [outBytes] using ih
    rw [outBytes_append, outBytes_append, hcalls, w2]
    simp [outBytes, blockOf']
  cases J2 with
  | nil =>
    refine ⟨_, by simp only [Proc.run]; rw [← List.append_assoc, ← List.append_assoc]; simp, hob, ?_, ?_⟩
    · intro m hm
      have : true = false := hnc _ hm
      cases this
    · intro _ hx
      obtain ⟨x, r, hxr, _⟩ := hx
      cases hxr
  | cons x r =>
    simp only [Proc.run]
    by_cases hgo : x ≠ 70 ∧ x ≠ 59
    · rw [if_pos hgo]
      have key : ∀ (f : Except SErr Bytes → Proc (Except SErr (Bool × SState))), (∀ r, Shape Silent (f r)) →
          ∀ (J : Bytes) (h : H) (tr : List Ev), (Proc.run hstep ((nextLine fuel).bind f) J h tr).2.2.2 = tr := by
        intro f hf J h tr
        have := run_silent hstep (Shape.bind (nextLine_shape (E := Silent) ⟨trivial, fun _ => trivial⟩ fuel) hf) J h tr
        rw [Prod.ext_iff] at this
        exact this.2
      refine ⟨.peeked x :: (((sent'.filter (·.2)).map fun x : Bytes × Bool => Call.setSent x.1 true).reverse.map Ev.called ++
        (ev1 ++ [.called (.getOutbound st.remoteFW)])), ?_, ?_, ?_, ?_⟩
      · rw [key _ (fun r => by cases r <;> exact Shape.ret _)]; simp
      · simpa [outBytes] using hob
      · intro m hm
        simp only [List.mem_cons] at hm
        rcases hm with hm | hm
        · cases hm
        · have : true = false := hnc _ hm
          cases this
      · intro _ hx
        obtain ⟨x', r', hxr, hx'⟩ := hx
        simp only [List.cons.injEq] at hxr
        obtain ⟨rfl, rfl⟩ := hxr
        have : ¬ (x ≠ 70 ∧ x ≠ 59) := by
          simp only [isGo, Bool.or_eq_true, beq_iff_eq] at hx'
          rcases hx' with h | h <;> simp [h]
        exact absurd hgo this
    · rw [if_neg hgo, run_bind]
      obtain ⟨h4, ec2⟩ := run_callAll hstep (x :: r) ((sent'.filter (!·.2)).map fun x : Bytes × Bool => Call.setSent x.1 false) h3
        (.peeked x :: (((sent'.filter (·.2)).map fun x : Bytes × Bool => Call.setSent x.1 true).reverse.map Ev.called ++
          (ev1 ++ .called (.getOutbound st.remoteFW) :: tr)))
      rw [ec2]
      refine ⟨((sent'.filter (!·.2)).map fun x : Bytes × Bool => Call.setSent x.1 false).reverse.map Ev.called ++
        .peeked x :: (((sent'.filter (·.2)).map fun x : Bytes × Bool => Call.setSent x.1 true).reverse.map Ev.called ++
        (ev1 ++ [.called (.getOutbound st.remoteFW)])), by simp [Proc.run], ?_, ?_, ?_⟩
      · have hcalls : ∀ (l : List Call), outBytes (l.map Ev.called) = [] := by
          intro l; induction l with
          | nil => rfl
          | cons x xs ih => simpa [outBytes] using ih
        rw [outBytes_append, hcalls]
        simpa [outBytes] using hob
      · intro m hm
        have hx : isGo x = true := by
          simp only [isGo, Bool.or_eq_true, beq_iff_eq]
          by_cases h70 : x = 70
          · exact Or.inl h70
          · by_cases h59 : x = 59
            · exact Or.inr h59
            · exact absurd ⟨h70, h59⟩ hgo
        refine ⟨⟨x, r, rfl, hx⟩, ?_⟩
        rcases List.mem_append.mp hm with hm | hm
        · simp only [List.mem_map, List.mem_reverse, List.mem_filter] at hm
          obtain ⟨cc, ⟨y, ⟨hy, hy2⟩, rfl⟩, hcc⟩ := hm
          simp only [Ev.called.injEq, Call.setSent.injEq] at hcc
          obtain ⟨y1, y2⟩ := y
          simp only [Bool.not_eq_true', ] at hy2
          simp only at hcc hy2
          subst hy2
          rw [← hcc.1]
          exact w4 y1 hy
        · rcases List.mem_cons.mp hm with hm | hm
          · cases hm
          · have : true = false := hnc _ hm
            cases this
      · intro hnd _ q b hqb hb
        have hs := w5 hnd q b hqb hb
        apply List.mem_append_left
        simp only [List.mem_map, List.mem_reverse, List.mem_filter]
        exact ⟨.setSent q.mid false, ⟨(q.mid, false), ⟨hs, by simp⟩, rfl⟩, rfl⟩

end Wl2k.B2F
