import Wl2kVerif.Lzhuf.Reader
/-
Bit layer of the LZHUF writer and reader (C06 stage 1).

Writer: `bitsOf w` is the bit string the writer has produced so far — the bits of the bytes already
pushed to `out` (MSB first) followed by the `putlen` pending bits held at the top of the 16-bit window
of `putbuf` (bit 15 first). `putCode l c` appends exactly the top `l` bits of `c`
(`putCode_bits`), `putPieces` appends the top `j` bits of a 64-bit word (`putPieces_bits`), and
`encodeEnd` pads with zero bits to a byte boundary (`encodeEnd_bits`).
-/
namespace Wl2k.Bits
open Wl2k Wl2k.Lzhuf

/-- the top `n` bits of the 16-bit window of `v`, bit 15 first -/
def topBits (n v : Nat) : List Bool := (List.range n).map (fun k => v.testBit (15 - k))

/-- the bits of one byte, MSB first -/
def byteBits (b : UInt8) : List Bool := (List.range 8).map (fun k => b.toNat.testBit (7 - k))

def bytesBits (l : Bytes) : List Bool := l.flatMap byteBits

/-- everything the writer has emitted, as a bit string -/
def bitsOf (w : Writer) : List Bool := bytesBits w.out.toList ++ topBits w.putlen w.putbuf.toNat

/-- Between calls fewer than 8 bits are pending and the 16-bit window is clean below them.
(Bits 16.. of `putbuf` are garbage left by `putbuf <<= 8`; they never reach the output.) -/
structure BitsInv (w : Writer) : Prop where
  len_lt : w.putlen < 8
  low_zero : ∀ j, j < 16 - w.putlen → w.putbuf.toNat.testBit j = false

@[simp] theorem topBits_length (n v : Nat) : (topBits n v).length = n := by simp [topBits]
@[simp] theorem byteBits_length (b : UInt8) : (byteBits b).length = 8 := by simp [byteBits]
@[simp] theorem topBits_zero (v : Nat) : topBits 0 v = [] := rfl

theorem bytesBits_append (a b : Bytes) : bytesBits (a ++ b) = bytesBits a ++ bytesBits b := by
  simp [bytesBits]

theorem bytesBits_length (l : Bytes) : (bytesBits l).length = 8 * l.length := by
  induction l with
  | nil => rfl
  | cons b t ih =>
    have : bytesBits (b :: t) = byteBits b ++ bytesBits t := rfl
    rw [this, List.length_append, ih, byteBits_length, List.length_cons]; omega

/-- `topBits n` only looks at bits `16-n .. 15`. -/
theorem topBits_congr (n x y : Nat) (h : ∀ j, 16 - n ≤ j → j ≤ 15 → x.testBit j = y.testBit j) :
    topBits n x = topBits n y := by
  apply List.map_congr_left
  intro k hk
  rw [List.mem_range] at hk
  exact h _ (by omega) (by omega)

theorem topBits_add (a b v : Nat) (h : a + b ≤ 16) :
    topBits (a + b) v = topBits a v ++ topBits b (v <<< a) := by
  unfold topBits
  rw [List.range_add, List.map_append, List.map_map]
  congr 1
  apply List.map_congr_left
  intro k hk
  rw [List.mem_range] at hk
  have h1 : 15 - k ≥ a := by omega
  have h2 : 15 - k - a = 15 - (a + k) := by omega
  simp [Nat.testBit_shiftLeft, h1, h2]

theorem topBits_zero_window (n v : Nat) (h : ∀ j, 16 - n ≤ j → j ≤ 15 → v.testBit j = false) :
    topBits n v = List.replicate n false := by
  rw [topBits_congr n v 0 (by intro j h1 h2; simp [h j h1 h2])]
  simp [topBits, List.eq_replicate_iff]

/-- the high byte of the window -/
theorem byteBits_hi (v : UInt64) : byteBits (v >>> 8).toUInt8 = topBits 8 v.toNat := by
  apply List.map_congr_left
  intro k hk
  rw [List.mem_range] at hk
  have e : (8 : UInt64).toNat % 64 = 8 := by decide
  rw [UInt64.toNat_toUInt8, UInt64.toNat_shiftRight, e, Nat.testBit_mod_two_pow,
    Nat.testBit_shiftRight]
  have h1 : 7 - k < 8 := by omega
  have h2 : 8 + (7 - k) = 15 - k := by omega
  simp [h1, h2]

/-- the low byte of the window -/
theorem byteBits_lo (v : UInt64) : byteBits v.toUInt8 = topBits 8 (v.toNat <<< 8) := by
  apply List.map_congr_left
  intro k hk
  rw [List.mem_range] at hk
  rw [UInt64.toNat_toUInt8, Nat.testBit_mod_two_pow, Nat.testBit_shiftLeft]
  have h1 : 7 - k < 8 := by omega
  have h2 : 15 - k ≥ 8 := by omega
  have h3 : 15 - k - 8 = 7 - k := by omega
  simp [h1, h2, h3]

/-- the merged window `putbuf | c >> putlen` -/
def merged (w : Writer) (c : UInt64) : UInt64 := w.putbuf ||| (c >>> (UInt64.ofNat w.putlen))

theorem putCode_lt8 (w : Writer) (l : Nat) (c : UInt64) (h : w.putlen + l < 8) :
    w.putCode l c = { w with putbuf := merged w c, putlen := w.putlen + l } := by
  have e : (w.putlen + l) % 256 = w.putlen + l := Nat.mod_eq_of_lt (by omega)
  simp only [Writer.putCode, e, h, if_true, merged]

theorem putCode_lt16 (w : Writer) (l : Nat) (c : UInt64) (h1 : 8 ≤ w.putlen + l) (h2 : w.putlen + l < 16) :
    w.putCode l c = { w with out := w.out.push (merged w c >>> 8).toUInt8,
                             putlen := w.putlen + l - 8, putbuf := merged w c <<< 8 } := by
  have e : (w.putlen + l) % 256 = w.putlen + l := Nat.mod_eq_of_lt (by omega)
  have n1 : ¬ w.putlen + l < 8 := by omega
  have n2 : ¬ w.putlen + l - 8 ≥ 8 := by omega
  simp only [Writer.putCode, e, n1, n2, if_false, merged]

theorem putCode_ge16 (w : Writer) (l : Nat) (c : UInt64) (h1 : 16 ≤ w.putlen + l) (h2 : w.putlen + l < 256) :
    w.putCode l c = { w with out := (w.out.push (merged w c >>> 8).toUInt8).push (merged w c).toUInt8,
                             putlen := w.putlen + l - 8 - 8,
                             putbuf := c <<< (UInt64.ofNat (l - (w.putlen + l - 8 - 8))) } := by
  have e : (w.putlen + l) % 256 = w.putlen + l := Nat.mod_eq_of_lt (by omega)
  have n1 : ¬ w.putlen + l < 8 := by omega
  have n2 : w.putlen + l - 8 ≥ 8 := by omega
  simp only [Writer.putCode, e, n1, n2, if_false, if_true, merged]

theorem merged_bit (w : Writer) (c : UInt64) (hp : w.putlen < 8) (j : Nat) :
    (merged w c).toNat.testBit j = (w.putbuf.toNat.testBit j || c.toNat.testBit (w.putlen + j)) := by
  have e : (UInt64.ofNat w.putlen).toNat % 64 = w.putlen := by
    rw [UInt64.toNat_ofNat']; omega
  rw [merged, UInt64.toNat_or, UInt64.toNat_shiftRight, e, Nat.testBit_or, Nat.testBit_shiftRight]

/-- what `putCode` expects of its argument: at most 16 bits, a 16-bit value, left-aligned -/
structure CodeOK (l : Nat) (c : UInt64) : Prop where
  l_le : l ≤ 16
  hi_zero : ∀ j, 16 ≤ j → c.toNat.testBit j = false
  lo_zero : ∀ j, j < 16 - l → c.toNat.testBit j = false

/-- the first `m` code bits land right behind the pending bits -/
theorem merged_top (w : Writer) (c : UInt64) (inv : BitsInv w) (hc : ∀ j, 16 ≤ j → c.toNat.testBit j = false)
    (m : Nat) (hm : w.putlen + m ≤ 16) :
    topBits (w.putlen + m) (merged w c).toNat = topBits w.putlen w.putbuf.toNat ++ topBits m c.toNat := by
  rw [topBits_add _ _ _ hm]
  congr 1
  · apply topBits_congr
    intro j h1 h2
    rw [merged_bit w c inv.len_lt, hc _ (by omega)]; simp
  · apply topBits_congr
    intro j h1 h2
    have hj : j ≥ w.putlen := by omega
    rw [Nat.testBit_shiftLeft, merged_bit w c inv.len_lt, inv.low_zero _ (by omega)]
    have : w.putlen + (j - w.putlen) = j := by omega
    simp [hj, this]



theorem shl8_bit (v : UInt64) (j : Nat) (hj : j < 64) :
    (v <<< 8).toNat.testBit j = (decide (j ≥ 8) && v.toNat.testBit (j - 8)) := by
  have e : (8 : UInt64).toNat % 64 = 8 := by decide
  rw [UInt64.toNat_shiftLeft, e, Nat.testBit_mod_two_pow, Nat.testBit_shiftLeft]
  simp [hj]

theorem shl_bit (v : UInt64) (n j : Nat) (hn : n < 64) (hj : j < 64) :
    (v <<< UInt64.ofNat n).toNat.testBit j = (decide (j ≥ n) && v.toNat.testBit (j - n)) := by
  have e : (UInt64.ofNat n).toNat % 64 = n := by rw [UInt64.toNat_ofNat']; omega
  rw [UInt64.toNat_shiftLeft, e, Nat.testBit_mod_two_pow, Nat.testBit_shiftLeft]
  simp [hj]

/-- **`putCode l c` appends exactly the top `l` bits of `c`.** -/
theorem putCode_bits (w : Writer) (l : Nat) (c : UInt64) (inv : BitsInv w) (ok : CodeOK l c) :
    bitsOf (w.putCode l c) = bitsOf w ++ topBits l c.toNat := by
  have hp := inv.len_lt
  have hl := ok.l_le
  by_cases h8 : w.putlen + l < 8
  · rw [putCode_lt8 w l c h8]
    simp only [bitsOf, List.append_assoc]
    rw [merged_top w c inv ok.hi_zero l (by omega)]
  · by_cases h16 : w.putlen + l < 16
    · rw [putCode_lt16 w l c (by omega) h16]
      simp only [bitsOf, Array.toList_push, bytesBits_append, List.append_assoc]
      congr 1
      have e1 : bytesBits [(merged w c >>> 8).toUInt8] = topBits 8 (merged w c).toNat := by
        simp [bytesBits, byteBits_hi]
      have e2 : topBits (w.putlen + l - 8) (merged w c <<< 8).toNat
          = topBits (w.putlen + l - 8) ((merged w c).toNat <<< 8) := by
        apply topBits_congr
        intro j _ hj
        rw [shl8_bit _ _ (by omega), Nat.testBit_shiftLeft]
      rw [e1, e2, ← topBits_add _ _ _ (by omega), ← merged_top w c inv ok.hi_zero l (by omega)]
      congr 1; omega
    · rw [putCode_ge16 w l c (by omega) (by omega)]
      simp only [bitsOf, Array.toList_push, bytesBits_append, List.append_assoc]
      congr 1
      have e1 : bytesBits [(merged w c >>> 8).toUInt8] = topBits 8 (merged w c).toNat := by
        simp [bytesBits, byteBits_hi]
      have e2 : bytesBits [(merged w c).toUInt8] = topBits 8 ((merged w c).toNat <<< 8) := by
        simp [bytesBits, byteBits_lo]
      have e3 : l - (w.putlen + l - 8 - 8) = 16 - w.putlen := by omega
      have e4 : w.putlen + l - 8 - 8 = l - (16 - w.putlen) := by omega
      have e5 : topBits (l - (16 - w.putlen)) (c <<< UInt64.ofNat (16 - w.putlen)).toNat
          = topBits (l - (16 - w.putlen)) (c.toNat <<< (16 - w.putlen)) := by
        apply topBits_congr
        intro j _ hj
        rw [shl_bit _ _ _ (by omega) (by omega), Nat.testBit_shiftLeft]
      rw [e1, e2, e3, e4, e5, ← List.append_assoc, ← topBits_add 8 8 _ (by omega)]
      have e6 : (8 : Nat) + 8 = w.putlen + (16 - w.putlen) := by omega
      rw [e6, merged_top w c inv ok.hi_zero (16 - w.putlen) (by omega), List.append_assoc,
        ← topBits_add _ _ _ (by omega)]
      congr 2; omega

theorem putCode_inv (w : Writer) (l : Nat) (c : UInt64) (inv : BitsInv w) (ok : CodeOK l c) :
    BitsInv (w.putCode l c) := by
  have hp := inv.len_lt
  have hl := ok.l_le
  by_cases h8 : w.putlen + l < 8
  · rw [putCode_lt8 w l c h8]
    refine ⟨h8, ?_⟩
    intro j hj
    simp only at hj ⊢
    rw [merged_bit w c hp, inv.low_zero _ (by omega), ok.lo_zero _ (by omega)]; rfl
  · by_cases h16 : w.putlen + l < 16
    · rw [putCode_lt16 w l c (by omega) h16]
      refine ⟨by simp only; omega, ?_⟩
      intro j hj
      simp only at hj ⊢
      rw [shl8_bit _ _ (by omega)]
      by_cases hj8 : j ≥ 8
      · rw [merged_bit w c hp, inv.low_zero _ (by omega), ok.lo_zero _ (by omega)]; simp
      · simp [hj8]
    · rw [putCode_ge16 w l c (by omega) (by omega)]
      refine ⟨by simp only; omega, ?_⟩
      intro j hj
      simp only at hj ⊢
      have e3 : l - (w.putlen + l - 8 - 8) = 16 - w.putlen := by omega
      rw [e3, shl_bit _ _ _ (by omega) (by omega)]
      by_cases hj8 : j ≥ 16 - w.putlen
      · rw [ok.lo_zero _ (by omega)]; simp
      · simp [hj8]

/-- the top `n` bits of a 64-bit word, bit 63 first -/
def bits64 (n v : Nat) : List Bool := (List.range n).map (fun k => v.testBit (63 - k))

@[simp] theorem bits64_length (n v : Nat) : (bits64 n v).length = n := by simp [bits64]

theorem u64_bit_hi (v : UInt64) (j : Nat) (hj : 64 ≤ j) : v.toNat.testBit j = false :=
  Nat.testBit_lt_two_pow (Nat.lt_of_lt_of_le v.toNat_lt (Nat.pow_le_pow_right (by decide) hj))

/-- the argument `uint(i>>48) & (0xffff << (16-n))` of one `putCode` in `putPieces` -/
def piece (n : Nat) (i : UInt64) : UInt64 := (i >>> 48) &&& (0xffff <<< (UInt64.ofNat (16 - n)))

theorem piece_bit (n : Nat) (i : UInt64) (j : Nat) (hj : j < 64) :
    (piece n i).toNat.testBit j
      = (i.toNat.testBit (48 + j) && (decide (j ≥ 16 - n) && decide (j - (16 - n) < 16))) := by
  have e : (48 : UInt64).toNat % 64 = 48 := by decide
  have e2 : (0xffff : UInt64).toNat = 2 ^ 16 - 1 := by decide
  rw [piece, UInt64.toNat_and, Nat.testBit_and, UInt64.toNat_shiftRight, e, Nat.testBit_shiftRight,
    shl_bit _ _ _ (by omega) hj, e2, Nat.testBit_two_pow_sub_one]

theorem piece_ok (n : Nat) (i : UInt64) (hn : n ≤ 16) : CodeOK n (piece n i) := by
  refine ⟨hn, ?_, ?_⟩
  · intro j hj
    by_cases h64 : j < 64
    · rw [piece_bit n i j h64, u64_bit_hi i _ (by omega)]; rfl
    · exact u64_bit_hi _ _ (by omega)
  · intro j hj
    have : ¬ j ≥ 16 - n := by omega
    rw [piece_bit n i j (by omega)]; simp [this]

theorem piece_top (n : Nat) (i : UInt64) (hn : n ≤ 16) :
    topBits n (piece n i).toNat = bits64 n i.toNat := by
  apply List.map_congr_left
  intro k hk
  rw [List.mem_range] at hk
  have h1 : 15 - k ≥ 16 - n := by omega
  have h2 : 15 - k - (16 - n) < 16 := by omega
  have h3 : 48 + (15 - k) = 63 - k := by omega
  rw [piece_bit n i _ (by omega), h3]; simp [h1, h2]

theorem bits64_add (a b : Nat) (v : UInt64) (h : a + b ≤ 64) :
    bits64 (a + b) v.toNat = bits64 a v.toNat ++ bits64 b (v <<< UInt64.ofNat a).toNat := by
  unfold bits64
  rw [List.range_add, List.map_append, List.map_map]
  congr 1
  apply List.map_congr_left
  intro k hk
  rw [List.mem_range] at hk
  by_cases ha : a = 64
  · omega
  have h1 : 63 - k ≥ a := by omega
  have h2 : 63 - k - a = 63 - (a + k) := by omega
  show v.toNat.testBit (63 - (a + k)) = (v <<< UInt64.ofNat a).toNat.testBit (63 - k)
  rw [shl_bit v a (63 - k) (by omega) (by omega), h2]; simp [h1]

/-- **`putPieces` appends exactly the top `j` bits of the 64-bit word, MSB first**, and keeps the
invariant, whenever the fuel covers the ⌈j/16⌉ pieces. -/
theorem putPieces_bits (fuel : Nat) : ∀ (w : Writer) (i : UInt64) (j : Nat), BitsInv w → j ≤ 64 →
    j ≤ 16 * fuel →
    bitsOf (w.putPieces i j fuel) = bitsOf w ++ bits64 j i.toNat ∧ BitsInv (w.putPieces i j fuel) := by
  induction fuel with
  | zero =>
    intro w i j inv _ hf
    have : j = 0 := by omega
    subst this
    simp [Writer.putPieces, bits64, inv]
  | succ fuel ih =>
    intro w i j inv hj hf
    by_cases h0 : j > 0
    · by_cases h16 : j > 16
      · have e : w.putPieces i j (fuel + 1)
            = (w.putCode 16 (piece 16 i)).putPieces (i <<< UInt64.ofNat 16) (j - 16) fuel := by
          simp [Writer.putPieces, h0, h16, piece]
        have ok := piece_ok 16 i (by omega)
        obtain ⟨hb, hi⟩ := ih _ (i <<< UInt64.ofNat 16) (j - 16) (putCode_inv w _ _ inv ok)
          (by omega) (by omega)
        rw [e]
        refine ⟨?_, hi⟩
        rw [hb, putCode_bits w _ _ inv ok, piece_top 16 i (by omega), List.append_assoc,
          ← bits64_add 16 (j - 16) i (by omega)]
        congr 2; omega
      · have e : w.putPieces i j (fuel + 1)
            = (w.putCode j (piece j i)).putPieces (i <<< UInt64.ofNat j) (j - j) fuel := by
          simp [Writer.putPieces, h0, h16, piece]
        have ok := piece_ok j i (by omega)
        obtain ⟨hb, hi⟩ := ih _ (i <<< UInt64.ofNat j) (j - j) (putCode_inv w _ _ inv ok)
          (by omega) (by omega)
        rw [e]
        refine ⟨?_, hi⟩
        rw [hb, putCode_bits w _ _ inv ok, piece_top j i (by omega), Nat.sub_self]
        simp [bits64]
    · have : j = 0 := by omega
      subst this
      simp [Writer.putPieces, bits64, inv]

/-- **`encodeEnd` pads the pending bits with zeros to a byte boundary.** -/
theorem encodeEnd_bits (w : Writer) (inv : BitsInv w) :
    bytesBits w.encodeEnd.out.toList = bitsOf w ++ List.replicate ((8 - w.putlen) % 8) false := by
  have hp := inv.len_lt
  unfold Writer.encodeEnd
  by_cases h0 : w.putlen = 0
  · simp [h0, bitsOf]
  · simp only [h0, if_false, Array.toList_push, bytesBits_append, bitsOf, List.append_assoc]
    congr 1
    have e1 : bytesBits [(w.putbuf >>> 8).toUInt8] = topBits 8 w.putbuf.toNat := by
      simp [bytesBits, byteBits_hi]
    have e2 : (8 - w.putlen) % 8 = 8 - w.putlen := Nat.mod_eq_of_lt (by omega)
    have e3 : (8 : Nat) = w.putlen + (8 - w.putlen) := by omega
    rw [e1, e2]
    conv => lhs; rw [e3, topBits_add _ _ _ (by omega)]
    congr 1
    apply topBits_zero_window
    intro j h1 h2
    rw [Nat.testBit_shiftLeft, inv.low_zero _ (by omega)]; simp

/-- numeric form of `CodeOK`: a 16-bit value whose low `16 - l` bits are zero -/
theorem codeOK_of_num (l : Nat) (c : UInt64) (hl : l ≤ 16) (hc : c.toNat < 65536)
    (hz : c.toNat % 2 ^ (16 - l) = 0) : CodeOK l c := by
  refine ⟨hl, ?_, ?_⟩
  · intro j hj
    exact Nat.testBit_lt_two_pow (Nat.lt_of_lt_of_le hc (Nat.pow_le_pow_right (n := 2) (by decide) hj))
  · intro j hj
    have := Nat.testBit_mod_two_pow c.toNat (16 - l) j
    rw [hz] at this
    simpa [hj] using this.symm

/-- `putCode` in the numeric form of the statement. -/
theorem putCode_bits_num (w : Writer) (l : Nat) (c : UInt64) (inv : BitsInv w) (hl : l ≤ 16)
    (hc : c.toNat < 65536) (hz : c.toNat % 2 ^ (16 - l) = 0) :
    bitsOf (w.putCode l c) = bitsOf w ++ topBits l c.toNat ∧ BitsInv (w.putCode l c) :=
  ⟨putCode_bits w l c inv (codeOK_of_num l c hl hc hz), putCode_inv w l c inv (codeOK_of_num l c hl hc hz)⟩

/-! ### frame: the bit layer touches only `out`, `putbuf`, `putlen` -/

/-- everything except the three bit-layer fields -/
def sameRest (w w' : Writer) : Prop :=
  w'.z = w.z ∧ w'.h = w.h ∧ w'.len = w.len ∧ w'.r = w.r ∧ w'.s = w.s ∧
  w'.lastMatchLength = w.lastMatchLength ∧ w'.preFilled = w.preFilled ∧ w'.fileSize = w.fileSize ∧
  w'.crc16 = w.crc16

theorem sameRest_refl (w : Writer) : sameRest w w := ⟨rfl, rfl, rfl, rfl, rfl, rfl, rfl, rfl, rfl⟩

theorem sameRest_trans {a b c : Writer} (h1 : sameRest a b) (h2 : sameRest b c) : sameRest a c := by
  obtain ⟨a1, a2, a3, a4, a5, a6, a7, a8, a9⟩ := h1
  obtain ⟨b1, b2, b3, b4, b5, b6, b7, b8, b9⟩ := h2
  exact ⟨b1.trans a1, b2.trans a2, b3.trans a3, b4.trans a4, b5.trans a5, b6.trans a6, b7.trans a7,
    b8.trans a8, b9.trans a9⟩

theorem putCode_frame (w : Writer) (l : Nat) (c : UInt64) : sameRest w (w.putCode l c) := by
  unfold Writer.putCode
  simp only
  split
  · exact sameRest_refl w
  · split <;> exact sameRest_refl w

theorem putPieces_frame (fuel : Nat) : ∀ (w : Writer) (i : UInt64) (j : Nat),
    sameRest w (w.putPieces i j fuel) := by
  induction fuel with
  | zero => intro w i j; exact sameRest_refl w
  | succ fuel ih =>
    intro w i j
    unfold Writer.putPieces
    split
    · exact sameRest_trans (putCode_frame _ _ _) (ih _ _ _)
    · exact sameRest_refl w

/-- the output only grows -/
theorem putCode_out_prefix (w : Writer) (l : Nat) (c : UInt64) :
    ∃ t, (w.putCode l c).out.toList = w.out.toList ++ t ∧ t.length ≤ 2 := by
  unfold Writer.putCode
  simp only
  split
  · exact ⟨[], by simp⟩
  · split
    · exact ⟨[((w.putbuf ||| c >>> UInt64.ofNat w.putlen) >>> 8).toUInt8,
        (w.putbuf ||| c >>> UInt64.ofNat w.putlen).toUInt8], by simp⟩
    · exact ⟨[((w.putbuf ||| c >>> UInt64.ofNat w.putlen) >>> 8).toUInt8], by simp⟩

/-! ### start state -/

theorem new_inv (crc16 : Bool) : BitsInv (Writer.new crc16) :=
  ⟨by simp [Writer.new], by intro j _; simp [Writer.new]⟩

theorem new_bits (crc16 : Bool) : bitsOf (Writer.new crc16) = [] := by
  simp [bitsOf, Writer.new, bytesBits]

/-! ### `encodePosition` -/

theorem ptable_codes : ∀ i, i < 64 →
    tbl Gen.pLen i ≤ 8 ∧ tbl Gen.pCode i < 256 ∧ (tbl Gen.pCode i * 256) % 2 ^ (16 - tbl Gen.pLen i) = 0 := by
  decide +kernel

theorem ofNat_shl_toNat (v n : Nat) (h : v * 2 ^ n < 2 ^ 64) (hn : n < 64) :
    (UInt64.ofNat v <<< UInt64.ofNat n).toNat = v * 2 ^ n := by
  have e : (UInt64.ofNat n).toNat % 64 = n := by rw [UInt64.toNat_ofNat']; omega
  have hv : v < 2 ^ 64 := Nat.lt_of_le_of_lt (Nat.le_mul_of_pos_right v (Nat.pow_pos (by decide))) h
  rw [UInt64.toNat_shiftLeft, e, UInt64.toNat_ofNat', Nat.mod_eq_of_lt hv, Nat.shiftLeft_eq,
    Nat.mod_eq_of_lt h]

/-- **`encodePosition c`** (for a 12-bit position) appends the `pLen` bits of the prefix code of the
upper six bits, then the lower six bits verbatim. -/
theorem encodePosition_bits (w : Writer) (c : Nat) (inv : BitsInv w) (hc : c < 4096) :
    bitsOf (w.encodePosition c)
      = bitsOf w ++ topBits (tbl Gen.pLen (c >>> 6)) (tbl Gen.pCode (c >>> 6) * 256)
          ++ topBits 6 ((c &&& 0x3f) * 1024) ∧
    BitsInv (w.encodePosition c) := by
  have hi : c >>> 6 < 64 := by rw [Nat.shiftRight_eq_div_pow]; omega
  obtain ⟨h1, h2, h3⟩ := ptable_codes _ hi
  have hlo : c &&& 0x3f < 64 := by
    rw [show (0x3f : Nat) = 2 ^ 6 - 1 from rfl, Nat.and_two_pow_sub_one_eq_mod]; omega
  unfold Writer.encodePosition
  simp only
  generalize tbl Gen.pCode (c >>> 6) = pc at h2 h3 ⊢
  generalize tbl Gen.pLen (c >>> 6) = pl at h1 h3 ⊢
  generalize c &&& 0x3f = lo at hlo ⊢
  have e1 : (UInt64.ofNat pc <<< 8).toNat = pc * 256 := ofNat_shl_toNat pc 8 (by simp only [Nat.reducePow]; omega) (by omega)
  have e2 : (UInt64.ofNat lo <<< 10).toNat = lo * 1024 := ofNat_shl_toNat lo 10 (by simp only [Nat.reducePow]; omega) (by omega)
  obtain ⟨b1, i1⟩ := putCode_bits_num w pl (UInt64.ofNat pc <<< 8) inv (by omega)
    (by rw [e1]; omega) (by rw [e1]; exact h3)
  obtain ⟨b2, i2⟩ := putCode_bits_num _ 6 (UInt64.ofNat lo <<< 10) i1 (by omega)
    (by rw [e2]; omega) (by rw [e2]; exact Nat.mul_mod_left lo 1024)
  exact ⟨by rw [b2, b1, e1, e2], i2⟩

/-! ### `encodeChar` -/

theorem bitsOf_with_h (w : Writer) (h : Huff) : bitsOf { w with h := h } = bitsOf w := rfl
theorem inv_with_h (w : Writer) (h : Huff) (inv : BitsInv w) : BitsInv { w with h := h } :=
  ⟨inv.len_lt, inv.low_zero⟩

/-- **`encodeChar c`** appends the `j` code bits collected by the leaf-to-root walk (top `j` bits of
the 64-bit accumulator, MSB first), provided the code is at most 64 bits long. -/
theorem encodeChar_bits (w : Writer) (c : Nat) (inv : BitsInv w)
    (hj : (codeWalk64 w.h.prnt (rd w.h.prnt (c + T)) 0 0 (T + 1)).2 ≤ 64) :
    bitsOf (w.encodeChar c)
      = bitsOf w ++ bits64 (codeWalk64 w.h.prnt (rd w.h.prnt (c + T)) 0 0 (T + 1)).2
          (codeWalk64 w.h.prnt (rd w.h.prnt (c + T)) 0 0 (T + 1)).1.toNat ∧
    BitsInv (w.encodeChar c) := by
  unfold Writer.encodeChar
  generalize codeWalk64 w.h.prnt (rd w.h.prnt (c + T)) 0 0 (T + 1) = p at hj ⊢
  obtain ⟨i, j⟩ := p
  simp only at hj ⊢
  obtain ⟨hb, hi⟩ := putPieces_bits (j + 1) w i j inv hj (by omega)
  exact ⟨by rw [bitsOf_with_h, hb], inv_with_h _ _ hi⟩

/-! ## Reader side -/

/-- the low `n` bits of `v`, most significant first -/
def lowBits (n v : Nat) : List Bool := (List.range n).map (fun k => v.testBit (n - 1 - k))

/-- the number spelled by a bit string, MSB first -/
def ofBits (bs : List Bool) : Nat := bs.foldl (fun a b => 2 * a + b.toNat) 0

/-- the bits the reader has not consumed yet: what is left in the bit register, then the source
bytes from the buffer position on -/
def unreadBits (d : Reader) : List Bool :=
  lowBits d.bbits d.bn.toNat ++ bytesBits (d.src.toList.drop d.bpos)

/-- bookkeeping of the bit register and of the `bufio`/tee pair -/
structure RInv (d : Reader) : Prop where
  bbits_lt : d.bbits < 8
  bpos_le : d.bpos ≤ d.pulled
  pulled_le : d.pulled ≤ d.src.size

/-- the bit layer touches only `bpos`, `pulled`, `bn`, `bbits`, `berr` -/
def rSameRest (d d' : Reader) : Prop :=
  d'.h = d.h ∧ d'.textBuf = d.textBuf ∧ d'.src = d.src ∧ d'.err = d.err ∧ d'.crc16 = d.crc16 ∧
  d'.hcrc = d.hcrc ∧ d'.size = d.size ∧ d'.sizeBytes = d.sizeBytes ∧ d'.pos = d.pos ∧ d'.r = d.r ∧
  d'.pending = d.pending

theorem rSameRest_refl (d : Reader) : rSameRest d d := ⟨rfl, rfl, rfl, rfl, rfl, rfl, rfl, rfl, rfl, rfl, rfl⟩

@[simp] theorem lowBits_length (n v : Nat) : (lowBits n v).length = n := by simp [lowBits]

theorem lowBits_congr (n x y : Nat) (h : ∀ j, j < n → x.testBit j = y.testBit j) :
    lowBits n x = lowBits n y := by
  apply List.map_congr_left
  intro k hk
  rw [List.mem_range] at hk
  exact h _ (by omega)

/-- split the register at `n` bits from the top -/
theorem lowBits_split (m n v : Nat) (h : n ≤ m) :
    lowBits m v = lowBits n (v >>> (m - n)) ++ lowBits (m - n) v := by
  have e : m = n + (m - n) := by omega
  unfold lowBits
  conv => lhs; rw [e, List.range_add, List.map_append, List.map_map]
  congr 1
  · apply List.map_congr_left
    intro k hk
    rw [List.mem_range] at hk
    rw [Nat.testBit_shiftRight]
    congr 1; omega
  · apply List.map_congr_left
    intro k hk
    rw [List.mem_range] at hk
    show v.testBit (n + (m - n) - 1 - (n + k)) = _
    congr 1; omega

theorem lowBits_succ (n v : Nat) : lowBits (n + 1) v = v.testBit n :: lowBits n v := by
  have := lowBits_split (n + 1) 1 v (by omega)
  rw [this]
  simp [lowBits]

theorem ofBits_cons (b : Bool) (l : List Bool) : ofBits (b :: l) = b.toNat * 2 ^ l.length + ofBits l := by
  suffices h : ∀ (l : List Bool) (a : Nat),
      l.foldl (fun a b => 2 * a + b.toNat) a = a * 2 ^ l.length + ofBits l by
    have := h l b.toNat
    simpa [ofBits] using this
  intro l
  induction l with
  | nil => intro a; simp [ofBits]
  | cons c t ih =>
    intro a
    simp only [List.foldl_cons, List.length_cons, ofBits]
    rw [ih (2 * a + c.toNat), ih (2 * 0 + c.toNat), Nat.pow_succ]
    simp only [Nat.mul_zero, Nat.zero_add, Nat.add_mul]
    have : 2 * a * 2 ^ t.length = a * (2 ^ t.length * 2) := by
      rw [Nat.mul_comm 2 a, Nat.mul_assoc, Nat.mul_comm 2]
    omega

/-- **`ofBits` reads back the low bits.** -/
theorem ofBits_lowBits (n v : Nat) : ofBits (lowBits n v) = v % 2 ^ n := by
  induction n with
  | zero => simp [lowBits, ofBits, Nat.mod_one]
  | succ n ih =>
    rw [lowBits_succ, ofBits_cons, ih, lowBits_length, Nat.toNat_testBit, Nat.pow_succ, Nat.mod_mul]
    rw [Nat.mul_comm]; omega

theorem lowBits_shl8_or (m : Nat) (v : UInt64) (b : UInt8) (hm : m < 8) :
    lowBits (m + 8) ((v <<< 8) ||| b.toUInt64).toNat = lowBits m v.toNat ++ byteBits b := by
  have hb : ∀ j, 8 ≤ j → b.toNat.testBit j = false := fun j hj =>
    Nat.testBit_lt_two_pow (Nat.lt_of_lt_of_le b.toNat_lt (Nat.pow_le_pow_right (n := 2) (by decide) hj))
  unfold lowBits byteBits
  rw [List.range_add, List.map_append, List.map_map]
  congr 1
  · apply List.map_congr_left
    intro k hk
    rw [List.mem_range] at hk
    have h1 : m + 8 - 1 - k ≥ 8 := by omega
    have h2 : m + 8 - 1 - k - 8 = m - 1 - k := by omega
    rw [UInt64.toNat_or, Nat.testBit_or, shl8_bit _ _ (by omega), UInt8.toNat_toUInt64, hb _ h1, h2]
    simp; omega
  · apply List.map_congr_left
    intro k hk
    rw [List.mem_range] at hk
    show ((v <<< 8) ||| b.toUInt64).toNat.testBit (m + 8 - 1 - (m + k)) = _
    have h1 : ¬ m + 8 - 1 - (m + k) ≥ 8 := by omega
    have h2 : m + 8 - 1 - (m + k) = 7 - k := by omega
    rw [UInt64.toNat_or, Nat.testBit_or, shl8_bit _ _ (by omega), UInt8.toNat_toUInt64, h2]
    simp; omega



/-! ### `readByte` -/

theorem readByte_some (d : Reader) (inv : RInv d) (h : d.bpos < d.src.size) :
    ∃ p, d.readByte = ({ d with bpos := d.bpos + 1, pulled := p }, some (d.src.getD d.bpos 0)) ∧
      d.pulled ≤ p ∧ d.bpos + 1 ≤ p ∧ p ≤ d.src.size := by
  have h1 := inv.bpos_le
  have h2 := inv.pulled_le
  unfold Reader.readByte
  by_cases hb : d.bpos < d.pulled
  · exact ⟨d.pulled, by simp [hb], by omega, by omega, h2⟩
  · have hp : d.pulled < d.src.size := by omega
    refine ⟨min d.src.size (d.pulled + 4096), by simp [hb, hp], ?_, ?_, ?_⟩ <;> omega

theorem readByte_none (d : Reader) (inv : RInv d) (h : d.src.size ≤ d.bpos) :
    d.readByte = (d, none) := by
  have h1 := inv.bpos_le
  have h2 := inv.pulled_le
  have n1 : ¬ d.bpos < d.pulled := by omega
  have n2 : ¬ d.pulled < d.src.size := by omega
  simp [Reader.readByte, n1, n2]

/-! ### `readBits` -/

/-- the value `ReadBits` extracts from the register -/
def extract (bn : UInt64) (bbits n : Nat) : Nat :=
  ((bn >>> (UInt64.ofNat (bbits - n))) &&& ((1 <<< (UInt64.ofNat n)) - 1)).toNat

theorem mask_toNat : ∀ n, n < 9 → (((1 : UInt64) <<< (UInt64.ofNat n)) - 1).toNat = 2 ^ n - 1 := by
  decide +kernel

theorem extract_eq (bn : UInt64) (bbits n : Nat) (hn : n ≤ 8) (hb : bbits < 64) :
    extract bn bbits n = (bn.toNat >>> (bbits - n)) % 2 ^ n := by
  have e : (UInt64.ofNat (bbits - n)).toNat % 64 = bbits - n := by rw [UInt64.toNat_ofNat']; omega
  rw [extract, UInt64.toNat_and, UInt64.toNat_shiftRight, e, mask_toNat n (by omega),
    Nat.and_two_pow_sub_one_eq_mod]

theorem readBits_enough (d : Reader) (n : Nat) (h : n ≤ d.bbits) :
    d.readBits n = ({ d with bbits := d.bbits - n }, extract d.bn d.bbits n) := by
  have : ¬ n > d.bbits := by omega
  simp [Reader.readBits, this, extract]

theorem readBits_refill (d d1 : Reader) (b : UInt8) (n : Nat) (h : d.bbits < n)
    (hr : d.readByte = (d1, some b)) :
    d.readBits n = ({ d1 with bn := (d1.bn <<< 8) ||| b.toUInt64, bbits := d1.bbits + 8 - n },
      extract ((d1.bn <<< 8) ||| b.toUInt64) (d1.bbits + 8) n) := by
  simp [Reader.readBits, h, hr, extract]

theorem readBits_fail (d d1 : Reader) (n : Nat) (h : d.bbits < n) (hr : d.readByte = (d1, none)) :
    d.readBits n = ({ d1 with berr := true }, 0) := by
  simp [Reader.readBits, h, hr]

theorem drop_cons_getD (a : Array UInt8) (i : Nat) (h : i < a.size) :
    a.toList.drop i = a.getD i 0 :: a.toList.drop (i + 1) := by
  have : a.getD i 0 = a.toList[i]'(by simpa using h) := by
    simp [Array.getD, h]
  rw [this]
  exact List.drop_eq_getElem_cons (by simpa using h)

/-- **`readBits n` (1 ≤ n ≤ 8) with at least `n` unread bits** delivers exactly the next `n` bits
(as a number, MSB first) and leaves the rest; it sets no error and only advances the bookkeeping. -/
theorem readBits_spec (d : Reader) (n : Nat) (h1 : 1 ≤ n) (h8 : n ≤ 8) (inv : RInv d)
    (bs rest : List Bool) (hbs : bs.length = n) (hu : unreadBits d = bs ++ rest) :
    unreadBits (d.readBits n).1 = rest ∧ (d.readBits n).2 = ofBits bs ∧ RInv (d.readBits n).1 ∧
    (d.readBits n).1.berr = d.berr ∧ d.pulled ≤ (d.readBits n).1.pulled ∧
    rSameRest d (d.readBits n).1 := by
  have hb := inv.bbits_lt
  -- the generic "consume n of m register bits" step
  have key : ∀ (m : Nat) (v : UInt64) (tail : List Bool), n ≤ m → m < 64 →
      lowBits m v.toNat ++ tail = bs ++ rest →
      lowBits (m - n) v.toNat ++ tail = rest ∧ extract v m n = ofBits bs := by
    intro m v tail hnm hm64 heq
    rw [lowBits_split m n _ hnm, List.append_assoc] at heq
    have hl : (lowBits n (v.toNat >>> (m - n))).length = bs.length := by simp [hbs]
    obtain ⟨e1, e2⟩ := List.append_inj heq hl
    exact ⟨e2, by rw [extract_eq v m n h8 hm64, ← e1, ofBits_lowBits]⟩
  by_cases hen : n ≤ d.bbits
  · rw [readBits_enough d n hen]
    obtain ⟨k1, k2⟩ := key d.bbits d.bn _ hen (by omega) hu
    exact ⟨k1, k2, ⟨by simp only; omega, inv.bpos_le, inv.pulled_le⟩, rfl, Nat.le_refl _,
      rSameRest_refl d⟩
  · have hlt : d.bbits < n := by omega
    have hpos : d.bpos < d.src.size := by
      apply Decidable.byContradiction; intro hge
      have hlen := congrArg List.length hu
      rw [unreadBits, List.drop_eq_nil_of_le (by simpa using Nat.not_lt.1 hge)] at hlen
      simp [bytesBits] at hlen
      omega
    obtain ⟨p, hr, hp1, hp2, hp3⟩ := readByte_some d inv hpos
    rw [readBits_refill d _ _ n hlt hr]
    have hu' : lowBits (d.bbits + 8) ((d.bn <<< 8) ||| (d.src.getD d.bpos 0).toUInt64).toNat
        ++ bytesBits (d.src.toList.drop (d.bpos + 1)) = bs ++ rest := by
      rw [← hu, unreadBits, drop_cons_getD d.src d.bpos hpos, lowBits_shl8_or _ _ _ hb,
        List.append_assoc]
      rfl
    obtain ⟨k1, k2⟩ := key (d.bbits + 8) _ _ (by omega) (by omega) hu'
    exact ⟨k1, k2, ⟨by simp only; omega, hp2, hp3⟩, rfl, hp1, rSameRest_refl d⟩

/-- **Source exhausted**: with fewer than `n` unread bits, `readBits n` returns 0, sets `berr` and
changes nothing else. -/
theorem readBits_eof (d : Reader) (n : Nat) (h8 : n ≤ 8) (inv : RInv d)
    (hshort : (unreadBits d).length < n) : d.readBits n = ({ d with berr := true }, 0) := by
  have hlen : (unreadBits d).length = d.bbits + 8 * (d.src.size - d.bpos) := by
    simp [unreadBits, bytesBits_length]
  have hlt : d.bbits < n := by omega
  have hge : d.src.size ≤ d.bpos := by omega
  exact readBits_fail d d n hlt (readByte_none d inv hge)



/-- one bit -/
theorem readBits_one (d : Reader) (inv : RInv d) (b : Bool) (rest : List Bool)
    (hu : unreadBits d = b :: rest) :
    unreadBits (d.readBits 1).1 = rest ∧ (d.readBits 1).2 = b.toNat ∧ RInv (d.readBits 1).1 ∧
    (d.readBits 1).1.berr = d.berr ∧ d.pulled ≤ (d.readBits 1).1.pulled ∧
    rSameRest d (d.readBits 1).1 := by
  have := readBits_spec d 1 (by omega) (by omega) inv [b] rest rfl hu
  simpa [ofBits] using this

/-- eight bits: the next byte of the bit stream, as a number -/
theorem readBits_eight (d : Reader) (inv : RInv d) (bs rest : List Bool) (hbs : bs.length = 8)
    (hu : unreadBits d = bs ++ rest) :
    unreadBits (d.readBits 8).1 = rest ∧ (d.readBits 8).2 = ofBits bs ∧ RInv (d.readBits 8).1 ∧
    (d.readBits 8).1.berr = d.berr ∧ d.pulled ≤ (d.readBits 8).1.pulled ∧
    rSameRest d (d.readBits 8).1 :=
  readBits_spec d 8 (by omega) (by omega) inv bs rest hbs hu

/-- **Bookkeeping in every case**: the invariant is kept, `pulled` only grows and never exceeds the
source, `berr` is only ever set, and nothing outside the bit layer changes. -/
theorem readBits_inv (d : Reader) (n : Nat) (h1 : 1 ≤ n) (h8 : n ≤ 8) (inv : RInv d) :
    RInv (d.readBits n).1 ∧ d.pulled ≤ (d.readBits n).1.pulled ∧
    (d.readBits n).1.pulled ≤ (d.readBits n).1.src.size ∧
    (d.berr = true → (d.readBits n).1.berr = true) ∧ rSameRest d (d.readBits n).1 := by
  by_cases hs : (unreadBits d).length < n
  · rw [readBits_eof d n h8 inv hs]
    exact ⟨⟨inv.bbits_lt, inv.bpos_le, inv.pulled_le⟩, Nat.le_refl _, inv.pulled_le, fun _ => rfl,
      rSameRest_refl d⟩
  · have hsplit : unreadBits d = (unreadBits d).take n ++ (unreadBits d).drop n :=
      (List.take_append_drop n _).symm
    obtain ⟨_, _, i, e, p, f⟩ := readBits_spec d n h1 h8 inv _ _
      (by rw [List.length_take]; omega) hsplit
    exact ⟨i, p, i.pulled_le, fun hb => by rw [e, hb], f⟩

/-- a fresh reader: nothing consumed, the unread bits are the bits of the body -/
theorem new_rinv (crc16 : Bool) (s : Bytes) (d : Reader) (h : Reader.new crc16 s = .ok d) :
    RInv d ∧ unreadBits d = bytesBits d.src.toList ∧ d.berr = false ∧ d.pulled = 0 := by
  unfold Reader.new at h
  simp only at h
  by_cases c1 : crc16 = true ∧ s.length < 2
  · rw [if_pos c1] at h; exact nomatch h
  · rw [if_neg c1] at h
    by_cases c2 : (s.drop (if crc16 = true then 2 else 0)).length < 4
    · rw [if_pos c2] at h; exact nomatch h
    · rw [if_neg c2] at h
      have := Except.ok.inj h
      subst this
      exact ⟨⟨Nat.zero_lt_succ _, Nat.le_refl _, Nat.zero_le _⟩, by simp [unreadBits, lowBits], rfl, rfl⟩

/-- `lowBits` (the verbatim low position bits): `j` single-bit reads shift the bits into `i`. -/
theorem reader_lowBits_spec (j : Nat) : ∀ (d : Reader) (i : Nat) (bs rest : List Bool), RInv d →
    bs.length = j → unreadBits d = bs ++ rest →
    unreadBits (d.lowBits i j).1 = rest ∧ (d.lowBits i j).2 = i * 2 ^ j + ofBits bs ∧
    RInv (d.lowBits i j).1 ∧ (d.lowBits i j).1.berr = d.berr ∧ d.pulled ≤ (d.lowBits i j).1.pulled ∧
    rSameRest d (d.lowBits i j).1 := by
  induction j with
  | zero =>
    intro d i bs rest inv hbs hu
    have : bs = [] := List.eq_nil_of_length_eq_zero hbs
    subst this
    exact ⟨by simpa [Reader.lowBits] using hu, by simp [Reader.lowBits, ofBits], inv, rfl, Nat.le_refl _, rSameRest_refl d⟩
  | succ j ih =>
    intro d i bs rest inv hbs hu
    match bs, hbs with
    | b :: bs, hbs =>
      obtain ⟨u1, v1, i1, e1, p1, f1⟩ := readBits_one d inv b (bs ++ rest) (by simpa using hu)
      obtain ⟨u2, v2, i2, e2, p2, f2⟩ := ih (d.readBits 1).1 ((i <<< 1) + (d.readBits 1).2) bs rest i1
        (by simpa using hbs) u1
      have hdef : d.lowBits i (j + 1)
          = (d.readBits 1).1.lowBits ((i <<< 1) + (d.readBits 1).2) j := rfl
      rw [hdef]
      refine ⟨u2, ?_, i2, e2.trans e1, Nat.le_trans p1 p2, ?_⟩
      · have hbl : bs.length = j := by simpa using hbs
        have e : i <<< 1 = 2 * i := by rw [Nat.shiftLeft_eq]; omega
        have e2 : 2 ^ (j + 1) = 2 * 2 ^ j := by rw [Nat.pow_succ]; omega
        rw [v2, v1, ofBits_cons, hbl, e, e2, Nat.add_mul, Nat.mul_assoc 2 i, Nat.mul_left_comm i 2]
        omega
      · obtain ⟨a1, a2, a3, a4, a5, a6, a7, a8, a9, a10, a11⟩ := f1
        obtain ⟨b1, b2, b3, b4, b5, b6, b7, b8, b9, b10, b11⟩ := f2
        exact ⟨b1.trans a1, b2.trans a2, b3.trans a3, b4.trans a4, b5.trans a5, b6.trans a6,
          b7.trans a7, b8.trans a8, b9.trans a9, b10.trans a10, b11.trans a11⟩

end Wl2k.Bits
