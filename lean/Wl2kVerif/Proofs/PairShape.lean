import Wl2kVerif.Proofs.SessionSafe
/-
`Shape E p`: every node reachable in program `p` — for ANY input bytes and ANY handler replies — is of a
kind permitted by the alphabet `E`. One walk per session function, generic in `E` (each lemma asks only
for the node kinds the function really contains); instances: "contains no write", "contains no
`SetSent(_, false)` call", "contains no peek", …
-/
namespace Wl2k.B2F
open Wl2k Wl2k.Str Wl2k.Strconv

/-- the kind of a program node -/
inductive Node where
  | read
  | peek
  | write (bs : Bytes)
  | call (c : Call)
  | panic (s : String)

inductive Shape {α : Type} (E : Node → Prop) : Proc α → Prop
  | ret (a : α) : Shape E (.ret a)
  | readByte (k : Option UInt8 → Proc α) : E .read → (∀ o, Shape E (k o)) → Shape E (.readByte k)
  | peek (k : Option UInt8 → Proc α) : E .peek → (∀ o, Shape E (k o)) → Shape E (.peek k)
  | write (bs : Bytes) (k : Proc α) : E (.write bs) → Shape E k → Shape E (.write bs k)
  | call (c : Call) (k : Reply → Proc α) : E (.call c) → (∀ r, Shape E (k r)) → Shape E (.call c k)
  | panic (s : String) : E (.panic s) → Shape E (.panic s)

theorem Shape.bind {α β : Type} {E : Node → Prop} {p : Proc α} {f : α → Proc β}
    (hp : Shape E p) (hf : ∀ a, Shape E (f a)) : Shape E (Proc.bind p f) := by
  induction hp with
  | ret a => exact hf a
  | readByte k h _ ih => exact Shape.readByte _ h (fun o => ih o)
  | peek k h _ ih => exact Shape.peek _ h (fun o => ih o)
  | write bs k h _ ih => exact Shape.write _ _ h ih
  | call c k h _ ih => exact Shape.call _ _ h (fun r => ih r)
  | panic s h => exact Shape.panic s h

theorem Shape.mono {α : Type} {E E' : Node → Prop} {p : Proc α} (hp : Shape E p) (h : ∀ n, E n → E' n) :
    Shape E' p := by
  induction hp with
  | ret a => exact Shape.ret a
  | readByte k hk _ ih => exact Shape.readByte _ (h _ hk) ih
  | peek k hk _ ih => exact Shape.peek _ (h _ hk) ih
  | write bs k hk _ ih => exact Shape.write _ _ (h _ hk) ih
  | call c k hk _ ih => exact Shape.call _ _ (h _ hk) ih
  | panic s hk => exact Shape.panic s (h _ hk)

/-- the node kind that produced an event -/
def Ev.node : Ev → Node
  | .wrote bs => .write bs
  | .called c => .call c
  | .peeked _ => .peek

/-- Every event a run of a shaped program adds to the trace comes from a permitted node. -/
theorem run_shape {α H : Type} (hstep : H → Call → H × Reply) {E : Node → Prop} {p : Proc α} (hp : Shape E p) :
    ∀ (inp : Bytes) (h : H) (tr : List Ev), (∀ e ∈ tr, E e.node) →
      ∀ e ∈ (Proc.run hstep p inp h tr).2.2.2, E e.node := by
  induction hp with
  | ret a => intro inp h tr htr; simpa [Proc.run] using htr
  | readByte k _ _ ih =>
    intro inp h tr htr
    cases inp with
    | nil => simpa [Proc.run] using ih none [] h tr htr
    | cons b t => simpa [Proc.run] using ih (some b) t h tr htr
  | peek k hk _ ih =>
    intro inp h tr htr
    cases inp with
    | nil => simpa [Proc.run] using ih none [] h tr htr
    | cons b t =>
      have := ih (some b) (b :: t) h (.peeked b :: tr) (by
        intro e he
        simp only [List.mem_cons] at he
        rcases he with rfl | he
        · exact hk
        · exact htr e he)
      simpa [Proc.run] using this
  | write bs k hk _ ih =>
    intro inp h tr htr
    have := ih inp h (.wrote bs :: tr) (by
      intro e he
      simp only [List.mem_cons] at he
      rcases he with rfl | he
      · exact hk
      · exact htr e he)
    simpa [Proc.run] using this
  | call c k hk _ ih =>
    intro inp h tr htr
    simp only [Proc.run]
    exact ih (hstep h c).2 inp (hstep h c).1 (.called c :: tr) (by
      intro e he
      simp only [List.mem_cons] at he
      rcases he with rfl | he
      · exact hk
      · exact htr e he)
  | panic s _ => intro inp h tr htr; simpa [Proc.run] using htr

/-- input side: reads, and the panic sites (all of them — `Shape` is not about panics) -/
structure RdOK (E : Node → Prop) : Prop where
  read : E .read
  panic : ∀ s, E (.panic s)

/-- output side -/
structure WrOK (E : Node → Prop) : Prop where
  write : ∀ bs, E (.write bs)

section walks
variable {E : Node → Prop}

theorem fuelOut_shape {α : Type} (hR : RdOK E) : Shape E (fuelOut : Proc α) := Shape.panic _ (hR.panic _)

theorem readString_shape (hR : RdOK E) (delim : UInt8) : ∀ (fuel : Nat) (acc : Bytes),
    Shape E (readString delim fuel acc) := by
  intro fuel
  induction fuel with
  | zero => intro acc; exact fuelOut_shape hR
  | succ fuel ih =>
    intro acc
    unfold readString
    apply Shape.readByte _ hR.read
    intro o
    cases o with
    | none => exact Shape.ret _
    | some b =>
      simp only
      split
      · exact Shape.ret _
      · exact ih _

theorem nextLineRemoteErr_shape (hR : RdOK E) (pe : Bool) (fuel : Nat) : Shape E (nextLineRemoteErr pe fuel) := by
  unfold nextLineRemoteErr
  simp only [bind_eq, pure_eq]
  apply Shape.bind (readString_shape hR 13 fuel [])
  intro a
  obtain ⟨line, eof⟩ := a
  simp only [cleanStringC_eq, errLineC_eq]
  split
  · exact Shape.ret _
  · split
    · cases errLine (cleanString line) <;> exact Shape.ret _
    · exact Shape.ret _

theorem nextLine_shape (hR : RdOK E) (fuel : Nat) : Shape E (nextLine fuel) := nextLineRemoteErr_shape hR true fuel

theorem readHandshake_shape (hR : RdOK E) (hP : E .peek) (master : Bool) (fuel : Nat) : ∀ (n : Nat) (data : HsData),
    Shape E (readHandshake master fuel n data) := by
  intro n
  induction n with
  | zero => intro data; exact fuelOut_shape hR
  | succ n ih =>
    intro data
    unfold readHandshake
    apply Shape.peek _ hP
    intro o
    cases o with
    | none => exact Shape.ret _
    | some b =>
      simp only
      split
      · exact Shape.ret _
      · simp only [bind_eq, pure_eq]
        apply Shape.bind (nextLineRemoteErr_shape hR false fuel)
        intro r
        cases r with
        | error e => exact Shape.ret _
        | ok line =>
          simp only [parseFWC_eq, challengeC_eq]
          split
          · cases parseSID line with
            | none => exact Shape.ret _
            | some sid =>
              simp only
              split
              · exact Shape.ret _
              · exact ih _
          · split
            · cases parseFW line with
              | none => exact Shape.ret _
              | some fw => exact ih _
            · split
              · by_cases h5 : line.length < 5
                · simp only [h5, if_true]; exact Shape.ret _
                · simp only [h5, if_false]; exact ih _
              · split
                · exact Shape.ret _
                · exact ih _

theorem askPasswords_shape (hC : ∀ i, E (.call (.password i))) (c : Cfg) (ch : Bytes) : ∀ (is : List Nat) (acc : List CbView),
    Shape E (askPasswords c ch is acc) := by
  intro is
  induction is with
  | nil => intro acc; exact Shape.ret _
  | cons i is ih =>
    intro acc
    unfold askPasswords
    apply Shape.call _ _ (hC i)
    intro r
    cases r <;> exact ih _

theorem sendHandshakeP_shape (hW : WrOK E) (hC : ∀ i, E (.call (.password i))) (c : Cfg) (ch : Bytes) :
    Shape E (sendHandshakeP c ch) := by
  unfold sendHandshakeP
  split
  · exact Shape.ret _
  · split
    · cases sendHandshakeV c.hs ch [] with
      | none => exact Shape.ret _
      | some bs => exact Shape.write _ _ (hW.write _) (Shape.ret _)
    · simp only [bind_eq, pure_eq]
      apply Shape.bind (askPasswords_shape hC c ch _ _)
      intro aux
      apply Shape.bind (askPasswords_shape hC c ch _ _)
      intro main
      cases sendHandshakeV c.hs ch (main ++ aux) with
      | none => exact Shape.ret _
      | some bs => exact Shape.write _ _ (hW.write _) (Shape.ret _)

theorem writeLines_shape (hW : WrOK E) : ∀ (ls : List Bytes), Shape E (writeLines ls) := by
  intro ls
  induction ls with
  | nil => exact Shape.ret _
  | cons l ls ih => exact Shape.write _ _ (hW.write _) ih

theorem handshake_tail_shape (hR : RdOK E) (hW : WrOK E) (hP : E .peek) (hC : ∀ i, E (.call (.password i)))
    (c : Cfg) (fuel : Nat) :
    Shape E ((readHandshake c.hs.master fuel fuel { }).bind fun r =>
      match r with
      | Except.error e => Proc.ret (Except.error e)
      | Except.ok hs =>
        if List.isEmpty hs.sid = true then Proc.ret (Except.error (SErr.proto "no-sid"))
        else
          if (!c.hs.master) = true then
            (sendHandshakeP c hs.challenge).bind fun r =>
              match r with
              | Except.error e => Proc.ret (Except.error e)
              | Except.ok PUnit.unit => Proc.ret (Except.ok hs)
          else Proc.ret (Except.ok hs)) := by
  apply Shape.bind (readHandshake_shape hR hP _ _ _ _)
  intro r
  cases r with
  | error e => exact Shape.ret _
  | ok hs =>
    simp only
    split
    · exact Shape.ret _
    · split
      · apply Shape.bind (sendHandshakeP_shape hW hC _ _)
        intro r
        cases r <;> exact Shape.ret _
      · exact Shape.ret _

theorem handshake_shape (hR : RdOK E) (hW : WrOK E) (hP : E .peek) (hC : ∀ i, E (.call (.password i)))
    (c : Cfg) (fuel : Nat) : Shape E (handshake c fuel) := by
  unfold handshake
  simp only [bind_eq, pure_eq]
  split
  · apply Shape.bind (writeLines_shape hW _)
    intro _
    apply Shape.bind (sendHandshakeP_shape hW hC _ _)
    intro r
    cases r with
    | error e => exact Shape.ret _
    | ok u => exact handshake_tail_shape hR hW hP hC c fuel
  · exact handshake_tail_shape hR hW hP hC c fuel

theorem outbound_shape (hC : ∀ fw, E (.call (.getOutbound fw))) (c : Cfg) (st : SState) : Shape E (outbound c st) := by
  unfold outbound
  split
  · exact Shape.ret _
  · apply Shape.call _ _ (hC _)
    intro r
    cases r <;> exact Shape.ret _

theorem writeBlocks_shape (hW : WrOK E) : ∀ (bs : List Bytes), Shape E (writeBlocks bs) := by
  intro bs
  induction bs with
  | nil => exact Shape.ret _
  | cons b bs ih => exact Shape.write _ _ (hW.write _) ih

theorem writeCompressed_shape (hW : WrOK E) (c : Cfg) (p : Proposal) : Shape E (writeCompressed c p) := by
  unfold writeCompressed
  apply Shape.write _ _ (hW.write _)
  split
  · exact Shape.ret _
  · rw [payloadFromC_eq]
    by_cases h : p.offset < 0 ∨ p.offset > (p.cdata.length : Int)
    · simp only [h, if_true]; exact Shape.ret _
    · simp only [h, if_false]
      apply Shape.bind (writeBlocks_shape hW _)
      intro _
      exact Shape.write _ _ (hW.write _) (Shape.ret _)

theorem awaitAnswer_shape (hR : RdOK E) (fuel : Nat) : ∀ (n : Nat), Shape E (awaitAnswer fuel n) := by
  intro n
  induction n with
  | zero => exact fuelOut_shape hR
  | succ n ih =>
    unfold awaitAnswer
    simp only [bind_eq, pure_eq]
    apply Shape.bind (nextLine_shape hR fuel)
    intro r
    cases r with
    | error e => exact Shape.ret _
    | ok line =>
      simp only
      split
      · exact Shape.ret _
      · split
        · exact ih
        · split
          · exact ih
          · exact Shape.ret _

theorem transferAll_shape (hW : WrOK E) (hC : ∀ m, E (.call (.setDeferred m))) (c : Cfg) :
    ∀ (ps : List Proposal) (sent : List (Bytes × Bool)), Shape E (transferAll c ps sent) := by
  intro ps
  induction ps with
  | nil => intro sent; exact Shape.ret _
  | cons p ps ih =>
    intro sent
    unfold transferAll
    split
    · exact Shape.call _ _ (hC _) (fun _ => ih _)
    · split
      · exact ih _
      · split
        · simp only [bind_eq, pure_eq]
          apply Shape.bind (writeCompressed_shape hW c p)
          intro r
          cases r with
          | error e => exact Shape.ret _
          | ok u => exact ih _
        · exact ih _

theorem sendOutbound_shape (hR : RdOK E) (hW : WrOK E) (hC : ∀ m, E (.call (.setDeferred m)))
    (c : Cfg) (fuel : Nat) (out : List Proposal) : Shape E (sendOutbound c fuel out) := by
  unfold sendOutbound
  simp only [bind_eq, pure_eq]
  apply Shape.bind (writeLines_shape hW _)
  intro _
  apply Shape.bind (Shape.write _ _ (hW.write _) (Shape.ret _))
  intro _
  apply Shape.bind (awaitAnswer_shape hR fuel fuel)
  intro r
  cases r with
  | error e => exact Shape.ret _
  | ok reply =>
    simp only [parseProposalAnswerC_eq]
    cases parseProposalAnswer c.offsetLimit reply (List.take c.maxBlock out).length with
    | none => exact Shape.ret _
    | some ans => exact transferAll_shape hW hC _ _ _

theorem callAll_shape : ∀ (cs : List Call), (∀ c ∈ cs, E (.call c)) → Shape E (callAll cs) := by
  intro cs
  induction cs with
  | nil => intro _; exact Shape.ret _
  | cons x xs ih =>
    intro h
    exact Shape.call _ _ (h x (by simp)) (fun _ => ih (fun c hc => h c (by simp [hc])))

theorem askEach_shape (hC : ∀ v, E (.call (.getInboundAnswer v))) : ∀ (ps acc : List Proposal), Shape E (askEach ps acc) := by
  intro ps
  induction ps with
  | nil => intro acc; exact Shape.ret _
  | cons p ps ih =>
    intro acc
    unfold askEach
    split
    · exact ih _
    · apply Shape.call _ _ (hC _)
      intro r
      cases r <;> exact ih _

theorem writeProposalsAnswer_shape (hR : RdOK E) (hW : WrOK E) (hC : ∀ v, E (.call (.getInboundAnswer v)))
    (hC' : ∀ vs, E (.call (.getInboundAnswers vs))) (c : Cfg) (ps : List Proposal) :
    Shape E (writeProposalsAnswer c ps) := by
  unfold writeProposalsAnswer
  simp only [bind_eq, pure_eq]
  have hw : ∀ ps : List Proposal, Shape E
      (Proc.write (sb "FS " ++ ps.map (·.answer) ++ [13]) (Proc.ret ps)) :=
    fun ps => Shape.write _ _ (hW.write _) (Shape.ret _)
  split
  · apply Shape.bind
    · apply Shape.call _ _ (hC' _)
      intro r
      cases r with
      | answers as =>
        simp only
        cases assignAnswers (preAnswer c.hasHandler ps []) as with
        | none => exact Shape.panic _ (hR.panic _)
        | some ps' => exact Shape.ret _
      | _ => exact Shape.panic _ (hR.panic _)
    · intro ps'; exact hw ps'
  · apply Shape.bind (askEach_shape hC _ _)
    intro ps'
    exact hw ps'

theorem readN_shape (hR : RdOK E) : ∀ (n : Nat) (acc : Bytes), Shape E (readN n acc) := by
  intro n
  induction n with
  | zero => intro acc; exact Shape.ret _
  | succ n ih =>
    intro acc
    unfold readN
    apply Shape.readByte _ hR.read
    intro o
    cases o with
    | none => exact Shape.ret _
    | some b => exact ih _

theorem readBlocks_shape (hR : RdOK E) (csize : Int) : ∀ (fuel : Nat) (buf : Bytes) (sum : Nat),
    Shape E (readBlocks csize fuel buf sum) := by
  intro fuel
  induction fuel with
  | zero => intro buf sum; exact fuelOut_shape hR
  | succ fuel ih =>
    intro buf sum
    unfold readBlocks
    apply Shape.readByte _ hR.read
    intro o
    cases o with
    | none => exact Shape.ret _
    | some c =>
      simp only
      split
      · apply Shape.readByte _ hR.read
        intro o
        apply Shape.bind (readN_shape hR _ _)
        intro r
        cases r with
        | none => exact Shape.ret _
        | some blk => exact ih _ _
      · split
        · apply Shape.readByte _ hR.read
          intro o
          cases o with
          | none => exact Shape.ret _
          | some x => simp only; split <;> (first | exact Shape.ret _ | (split <;> exact Shape.ret _))
        · exact Shape.ret _

theorem readCompressed_shape (hR : RdOK E) (fuel : Nat) (p : Proposal) : Shape E (readCompressed fuel p) := by
  unfold readCompressed
  apply Shape.readByte _ hR.read
  intro o
  cases o with
  | none => exact Shape.ret _
  | some c =>
    simp only
    split
    · apply Shape.bind (nextLine_shape hR fuel)
      intro _
      exact Shape.ret _
    · split
      · exact Shape.ret _
      · apply Shape.readByte _ hR.read
        intro o
        cases o with
        | none => exact Shape.ret _
        | some hl =>
          simp only [bind_eq, pure_eq]
          apply Shape.bind (readString_shape hR 0 fuel [])
          intro r1
          obtain ⟨title, eof1⟩ := r1
          split
          · exact Shape.ret _
          · apply Shape.bind (readString_shape hR 0 fuel [])
            intro r2
            obtain ⟨off, eof2⟩ := r2
            split
            · exact Shape.ret _
            · cases stripDelimC title with
              | none => exact Shape.panic _ (hR.panic _)
              | some t =>
                cases stripDelimC off with
                | none => exact Shape.panic _ (hR.panic _)
                | some o2 =>
                  simp only
                  split
                  · exact Shape.ret _
                  · split
                    · exact Shape.ret _
                    · split
                      · exact Shape.ret _
                      · exact readBlocks_shape hR _ _ _ _

theorem fetchAll_shape (hR : RdOK E) (hC : ∀ d, E (.call (.parseMessage d))) (hC' : ∀ d, E (.call (.processInbound d)))
    (fuel : Nat) : ∀ (ps : List Proposal) (st : SState), Shape E (fetchAll fuel ps st) := by
  intro ps
  induction ps with
  | nil => intro st; exact Shape.ret _
  | cons p ps ih =>
    intro st
    unfold fetchAll
    split
    · exact ih _
    · simp only [bind_eq, pure_eq]
      apply Shape.bind (readCompressed_shape hR fuel p)
      intro r
      cases r with
      | error e => exact Shape.ret _
      | ok cdata =>
        simp only
        apply Shape.bind
        · split
          · exact Shape.call _ _ (hC _) (fun _ => Shape.ret _)
          · exact Shape.ret _
        · intro d
          cases d with
          | none => exact Shape.ret _
          | some data =>
            simp only
            refine Shape.call _ _ (hC _) ?_
            intro r
            split
            · exact Shape.ret _
            · refine Shape.call _ _ (hC' _) ?_
              intro r
              split
              · exact Shape.ret _
              · exact ih _

theorem inboundLoop_shape (hR : RdOK E) (hW : WrOK E) (hC : ∀ v, E (.call (.getInboundAnswer v)))
    (hC' : ∀ vs, E (.call (.getInboundAnswers vs))) (c : Cfg) (fuel : Nat) :
    ∀ (n : Nat) (props : List Proposal) (sum : Nat) (st : SState), Shape E (inboundLoop c fuel n props sum st) := by
  intro n
  induction n with
  | zero => intro props sum st; exact fuelOut_shape hR
  | succ n ih =>
    intro props sum st
    unfold inboundLoop
    simp only [bind_eq, pure_eq]
    apply Shape.bind (nextLine_shape hR fuel)
    intro r
    cases r with
    | error e => exact Shape.ret _
    | ok line =>
      simp only
      split
      · exact ih _ _ _
      · split
        · exact ih _ _ _
        · split
          · exact Shape.ret _
          · rename_i hlen
            have h2 : 2 ≤ line.length := by
              by_cases h : line.length < 2
              · exact absurd (Or.inl h) hlen
              · omega
            rw [cmdByteC_eq line h2, parseProposalC_eq line h2, promptFieldC_eq line h2]
            simp only
            split
            · cases parseProposal line with
              | none => exact Shape.ret _
              | some f => exact ih _ _ _
            · split
              · exact Shape.ret _
              · split
                · exact Shape.ret _
                · split
                  · split
                    · exact Shape.ret _
                    · split
                      · exact Shape.ret _
                      · apply Shape.bind (writeProposalsAnswer_shape hR hW hC hC' c props)
                        intro _
                        exact Shape.ret _
                  · exact Shape.ret _

theorem handleInbound_shape (hR : RdOK E) (hW : WrOK E) (hC : ∀ v, E (.call (.getInboundAnswer v)))
    (hC' : ∀ vs, E (.call (.getInboundAnswers vs))) (hD : ∀ d, E (.call (.parseMessage d)))
    (hD' : ∀ d, E (.call (.processInbound d))) (c : Cfg) (fuel : Nat) (st : SState) :
    Shape E (handleInbound c fuel st) := by
  unfold handleInbound
  simp only [bind_eq, pure_eq]
  apply Shape.bind (inboundLoop_shape hR hW hC hC' c fuel fuel [] 0 st)
  intro r
  cases r with
  | error e => exact Shape.ret _
  | ok v =>
    obtain ⟨quit, props, st'⟩ := v
    simp only
    apply Shape.bind (fetchAll_shape hR hD hD' fuel props st')
    intro r
    exact Shape.ret _

theorem finish_shape (hW : WrOK E) (st : SState) (named : Bool) (e : Option SErr) : Shape E (finish st named e) := by
  unfold finish
  split
  · exact Shape.ret _
  · exact Shape.ret _
  · exact Shape.write _ _ (hW.write _) (Shape.ret _)
  · exact Shape.write _ _ (hW.write _) (Shape.ret _)

end walks

end Wl2k.B2F
