import Wl2kVerif.B2F.InGrammar
import Wl2kVerif.Proofs.EmitHs
import Wl2kVerif.Proofs.PairCausal
/-
Base of the conversation-level ACCEPTANCE proof (C05): the extra hypotheses on the local handler, the
`Emits` logic for program parts that do not read, and the simulation predicate `Good` that ties a residual
session program to a state of the input-grammar checker (B2F/InGrammar.lean).
-/
namespace Wl2k.B2F
open Wl2k Wl2k.B2F.InGrammar

/-! ### hypotheses on the local side -/

/-- "the local handler stores / parses what it accepted without error": `Prepare` succeeds; a decompressed
payload that is a well-formed message (`g.msgOK`) is parsed (`Message.ReadFrom`) and stored
(`ProcessInbound`) without error; a BATCHED handler returns one answer per proposal it was shown; when the
grammar allows `;PQ:` challenges (`g.secure`), the password callback for the main address succeeds. -/
def HandlerAccepts (g : InCfg) : Call → Reply → Prop
  | .prepare, r => r ≠ .err true
  | .parseMessage d, r => g.msgOK d = true → ∀ c, r ≠ .parsed true c
  | .processInbound d, r => g.msgOK d = true → r ≠ .err true
  | .getInboundAnswers vs, r => ∃ as, r = .answers as ∧ as.length = vs.length
  | .password i, r => g.secure = true → i = 0 → ∃ p, r = .password p false
  | _, _ => True

/-- both hypotheses on a reply -/
def RA (g : InCfg) (c : Call) (r : Reply) : Prop := HandlerOK c r ∧ HandlerAccepts g c r

/-! ### writes of a trace -/

theorem writesOf_append (a b : List Ev) : writesOf (a ++ b) = writesOf b ++ writesOf a := by
  simp [writesOf, List.filterMap_append]

theorem writesOf_nil : writesOf [] = [] := rfl
theorem writesOf_wrote (bs : Bytes) : writesOf [.wrote bs] = [bs] := rfl
theorem writesOf_called (c : Call) : writesOf [.called c] = [] := rfl
theorem writesOf_peeked (b : UInt8) : writesOf [.peeked b] = [] := rfl

theorem writesOf_cons_called (c : Call) (t : List Ev) : writesOf (.called c :: t) = writesOf t := by
  rw [show (Ev.called c :: t) = [.called c] ++ t from rfl, writesOf_append]; simp [writesOf_called]
theorem writesOf_cons_peeked (b : UInt8) (t : List Ev) : writesOf (.peeked b :: t) = writesOf t := by
  rw [show (Ev.peeked b :: t) = [.peeked b] ++ t from rfl, writesOf_append]; simp [writesOf_peeked]
theorem writesOf_cons_wrote (bs : Bytes) (t : List Ev) : writesOf (.wrote bs :: t) = writesOf t ++ [bs] := by
  rw [show (Ev.wrote bs :: t) = [.wrote bs] ++ t from rfl, writesOf_append]; simp [writesOf_wrote]

theorem lineWrites_append (a b : List Bytes) : lineWrites (a ++ b) = lineWrites a ++ lineWrites b := by
  simp [lineWrites]

/-! ### `Emits`: parts that write and call but do not read -/

/-- `Emits R Q p`: `p` neither reads nor panics; for all replies satisfying `R`, it returns a value `a`
having written `ws` (oldest first) with `Q a ws`. -/
inductive Emits {α : Type} (R : Call → Reply → Prop) : (α → List Bytes → Prop) → Proc α → Prop
  | ret {Q : α → List Bytes → Prop} (a : α) : Q a [] → Emits R Q (.ret a)
  | write {Q : α → List Bytes → Prop} (bs : Bytes) (k : Proc α) : Emits R (fun a ws => Q a (bs :: ws)) k → Emits R Q (.write bs k)
  | call {Q : α → List Bytes → Prop} (c : Call) (k : Reply → Proc α) : (∀ r, R c r → Emits R Q (k r)) → Emits R Q (.call c k)

theorem Emits.mono {α : Type} {R : Call → Reply → Prop} {Q Q' : α → List Bytes → Prop} {p : Proc α}
    (hp : Emits R Q p) (h : ∀ a ws, Q a ws → Q' a ws) : Emits R Q' p := by
  induction hp generalizing Q' with
  | ret a ha => exact .ret a (h a _ ha)
  | write bs k _ ih => exact .write bs k (ih (fun a ws hq => h a _ hq))
  | call c k _ ih => exact .call c k (fun r hr => ih r hr h)

theorem Emits.bind {α β : Type} {R : Call → Reply → Prop} {Q : α → List Bytes → Prop} {Q' : β → List Bytes → Prop}
    {p : Proc α} {f : α → Proc β} (hp : Emits R Q p)
    (hf : ∀ a ws, Q a ws → Emits R (fun b ws' => Q' b (ws ++ ws')) (f a)) : Emits R Q' (Proc.bind p f) := by
  induction hp generalizing Q' with
  | ret a ha => exact (hf a [] ha).mono (fun b ws h => by simpa using h)
  | write bs k _ ih =>
    exact .write bs _ (ih (fun a ws hq => (hf a (bs :: ws) hq).mono (fun b ws' h => by simpa using h)))
  | call c k _ ih => exact .call c _ (fun r hr => ih r hr hf)

theorem run_emits {α H : Type} (hstep : H → Call → H × Reply) {R : Call → Reply → Prop}
    (hR : ∀ h c, R c (hstep h c).2) {Q : α → List Bytes → Prop} {p : Proc α} (hp : Emits R Q p) :
    ∀ (inp : Bytes) (h : H) (tr : List Ev), ∃ a h' evs,
      Proc.run hstep p inp h tr = (.done a, inp, h', evs ++ tr) ∧ Q a (writesOf evs) := by
  induction hp with
  | ret a ha => intro inp h tr; exact ⟨a, h, [], rfl, ha⟩
  | write bs k _ ih =>
    intro inp h tr
    obtain ⟨a, h', evs, hr, hq⟩ := ih inp h (.wrote bs :: tr)
    refine ⟨a, h', evs ++ [.wrote bs], by simp [Proc.run, hr], ?_⟩
    rw [writesOf_append, writesOf_wrote]
    exact hq
  | call c k _ ih =>
    intro inp h tr
    obtain ⟨a, h', evs, hr, hq⟩ := ih (hstep h c).2 (hR h c) inp (hstep h c).1 (.called c :: tr)
    refine ⟨a, h', evs ++ [.called c], by simp [Proc.run, hr], ?_⟩
    rw [writesOf_append, writesOf_called]
    simpa using hq

/-! ### `Good`: a residual session program against a checker state -/

/-- acceptable outcomes: a result that is not an error other than a lost connection; running out of the
model's loop fuel (excluded separately by `session_terminates`) -/
def resGood : Ended Result → Prop
  | .done r => r.err ≠ .other
  | .panicked s => s = "fuel"
  | .blocked => False

def verdictOK (g : InCfg) (tail : Bytes) : Step → Prop
  | .bad => False
  | .free => True
  | .next s _ => tailOK g s tail = true

section
variable (g : InCfg) {H : Type} (hstep : H → Call → H × Reply)

/-- From here on — residual program `P`, the remote's remaining `script` and `tail`, the checker continuing
as `S` applied to the line writes `P` will make — a conforming remote is not answered with an error. -/
def Good (S : List Bytes → Step) (P : Proc Result) (script : List RUnit) (tail : Bytes) : Prop :=
  ∀ h : H, verdictOK g tail
      (conf g (S (lineWrites (writesOf (Proc.run hstep P (render script ++ tail) h []).2.2.2))) script) →
    resGood (Proc.run hstep P (render script ++ tail) h []).1

variable {g hstep}

theorem Good.of_run {S : List Bytes → Step} {P : Proc Result} {script : List RUnit} {tail : Bytes}
    (hstepP : ∀ h : H, ∃ (S' : List Bytes → Step) (script' : List RUnit) (P' : Proc Result) (h' : H) (evs : List Ev),
      Proc.run hstep P (render script ++ tail) h [] = Proc.run hstep P' (render script' ++ tail) h' evs ∧
      Good g hstep S' P' script' tail ∧
      ∀ W, verdictOK g tail (conf g (S (lineWrites (writesOf evs) ++ W)) script) →
        verdictOK g tail (conf g (S' W) script')) :
    Good g hstep S P script tail := by
  intro h hv
  obtain ⟨S', script', P', h', evs, hr, hg, hc⟩ := hstepP h
  rw [hr] at hv ⊢
  rw [run_tr] at hv ⊢
  simp only at hv ⊢
  rw [writesOf_append, lineWrites_append] at hv
  exact hg h' (hc _ hv)

theorem Good.done {S : List Bytes → Step} {P : Proc Result} {script : List RUnit} {tail : Bytes}
    (hd : ∀ h : H, resGood (Proc.run hstep P (render script ++ tail) h []).1) : Good g hstep S P script tail :=
  fun h _ => hd h

theorem Good.bad {S : List Bytes → Step} {P : Proc Result} {script : List RUnit} {tail : Bytes}
    (hb : ∀ W, ¬ verdictOK g tail (conf g (S W) script)) : Good g hstep S P script tail :=
  fun _ hv => absurd hv (hb _)

end

theorem conf_bad (g : InCfg) (us : List RUnit) : conf g .bad us = .bad := by cases us <;> rfl
theorem conf_free (g : InCfg) (us : List RUnit) : conf g .free us = .free := by cases us <;> rfl
theorem conf_cons (g : InCfg) (s : IState) (ws : List Bytes) (u : RUnit) (us : List RUnit) :
    conf g (.next s ws) (u :: us) = conf g (stepUnit g s ws u) us := rfl
theorem conf_nil (g : InCfg) (st : Step) : conf g st [] = st := by cases st <;> rfl

theorem render_cons (u : RUnit) (us : List RUnit) : render (u :: us) = u.bytes ++ render us := by
  simp [render]

end Wl2k.B2F
