import Wl2kVerif.Proofs.RetryGen
/-
The sender's turn inside the real rest of a session, with everything the accounting argument needs (compare
`Proofs/WholeSend.lean`, which only tracks `SetSent(_, false)`): which `SetSent(_, true)` calls happen (exactly
for the proposals the `FS` line rejects), that nothing is handed to the own handler, and the handler state
when the turn completes (the replay of the turn's events).
-/
namespace Wl2k.B2F
open Wl2k Wl2k.Fmt Wl2k.Str Wl2k.Strconv

theorem quietN_of_wrote (bs : Bytes) : QuietN (Ev.wrote bs).node := trivial
theorem quietN_of_peeked (b : UInt8) : QuietN (Ev.peeked b).node := trivial

theorem sendOutbound_quiet (c : Cfg) (fuel : Nat) (out : List Proposal) : Shape QuietN (sendOutbound c fuel out) :=
  sendOutbound_shape (E := QuietN) ⟨trivial, fun _ => trivial⟩ ⟨fun _ => trivial⟩ (fun _ => trivial) c fuel out

theorem finish_quiet (st : SState) (named : Bool) (e : Option SErr) : Shape QuietN (finish st named e) :=
  finish_shape (E := QuietN) ⟨fun _ => trivial⟩ st named e

theorem still_finish (st : SState) (e : Option SErr) (J : Bytes) (h : HState) : Still (trOf (finish st false e) J h) :=
  run_shape hstep (finish_quiet st false e) J h [] (by intro e he; cases he)

/-! ### no complete answer line -/

/-- the full run of `handleOutbound` when the first line of the input is incomplete: only the block is written -/
theorem handleOutbound_run_eof' (c : Cfg) (fuel : Nat) (st : SState) (J : Bytes) (h : HState) (tr : List Ev)
    (hh : c.hasHandler = true) (hblock : blockOf' c (offered h) ≠ []) (h13 : (13 : UInt8) ∉ J) (hf : J.length < fuel) :
    ∃ evs, Proc.run hstep (handleOutbound c fuel st) J h tr = (.done (.error .eof), [], h, evs ++ tr) ∧
      outBytes evs = blockOut (blockOf' c (offered h)) ∧ Still evs := by
  unfold handleOutbound
  simp only [bind_eq, pure_eq]
  rw [run_bind]
  have hne : (sortProposals (((offered h).filter fun m : OutMsg => m.valid).map mkProp)).isEmpty = false := by
    cases hs : sortProposals (((offered h).filter (·.valid)).map mkProp) with
    | nil => simp [blockOf', hs] at hblock
    | cons a t => rfl
  simp only [outbound, hh, Bool.not_true, Bool.false_eq_true, if_false, Proc.run, hstep_getOutbound, hne]
  rw [run_bind]
  obtain ⟨ev1, w1, w2, _⟩ := run_sendOutbound_eof hstep c fuel
    (sortProposals (((offered h).filter fun m : OutMsg => m.valid).map mkProp)) J h
    (.called (.getOutbound st.remoteFW) :: tr) h13 hf
  have w3 := new_events_shape (sendOutbound_quiet c fuel _) J h _ _ _ _ ev1 w1
  rw [w1]
  refine ⟨ev1 ++ [.called (.getOutbound st.remoteFW)], by simp [Proc.run], ?_, ?_⟩
  · rw [outBytes_append, w2]; simp [outBytes, blockOf']
  · exact still_append w3 (still_cons trivial still_nil)

/-- **The sender's turn when no complete line arrives**: the block is written, the connection is reported
lost; no `SetSent`, nothing handed over. -/
theorem send_eof' (c : Cfg) (fuel n : Nat) (st : SState) (h : HState) (hh : c.hasHandler = true)
    (hq : st.quitReceived = false) (hs : st.quitSent = false) (hne : blockOf' c (offered h) ≠ []) (J : Bytes)
    (h13 : (13 : UInt8) ∉ J) (hf : J.length < fuel) :
    outBytes (trOf (restOfSession c fuel (n + 1) true st) J h) = blockOut (blockOf' c (offered h)) ∧
      Still (trOf (restOfSession c fuel (n + 1) true st) J h) := by
  obtain ⟨evs, h1, h2, h3⟩ := handleOutbound_run_eof' c fuel st J h [] hh hne h13 hf
  rw [restOfSession_send c fuel n st hq hs, trace_bind_done _ _ J h _ _ _ _ h1]
  simp only [afterOutbound, List.append_nil]
  have : trOf (finish st false (some SErr.eof)) [] h = [] := rfl
  rw [this, List.nil_append]
  exact ⟨h2, h3⟩

/-! ### the answer line arrives -/

/-- `sendOutbound` on a complete `FS` line with one plain answer per proposal, exactly -/
theorem run_sendOutbound_exact (c : Cfg) (fuel : Nat) (outp : List Proposal) (as : List UInt8) (J2 : Bytes) (h : HState)
    (tr : List Ev) (hlen : as.length = (outp.take c.maxBlock).length) (hne : as ≠ []) (hpl : ∀ a ∈ as, PlainAnswer a)
    (hf : (fsLine as).length < fuel) (hbig : ∀ p ∈ outp.take c.maxBlock, 6 ≤ p.csize) :
    ∃ evs : List Ev,
      Proc.run hstep (sendOutbound c fuel outp) (fsLine as ++ 13 :: J2) h tr =
        (.done (.ok (transferRes (outp.take c.maxBlock) as [])), J2, hDefer h (deferredMids (outp.take c.maxBlock) as),
          evs ++ tr) ∧
      outBytes evs = blockOut (outp.take c.maxBlock) ++ framesBytes c.maxMsgLen (outp.take c.maxBlock) as ∧ Still evs := by
  have key : ∃ evs : List Ev,
      Proc.run hstep (sendOutbound c fuel outp) (fsLine as ++ 13 :: J2) h tr =
        (.done (.ok (transferRes (outp.take c.maxBlock) as [])), J2, hDefer h (deferredMids (outp.take c.maxBlock) as),
          evs ++ tr) ∧
      outBytes evs = blockOut (outp.take c.maxBlock) ++ framesBytes c.maxMsgLen (outp.take c.maxBlock) as := by
    unfold sendOutbound
    simp only [bind_eq, pure_eq]
    obtain ⟨ev1, w1, w2, _⟩ := run_writeLines hstep (fsLine as ++ 13 :: J2) h
      ((outp.take c.maxBlock).map fun p => proposalLine p.code p.msgType p.mid p.size p.csize) tr
    rw [run_bind, w1]
    simp only
    rw [run_bind]
    simp only [Proc.run]
    rw [run_bind]
    cases fuel with
    | zero => omega
    | succ f =>
      rw [run_awaitAnswer_fs hstep (f + 1) f as J2 h _ hne hpl hf]
      simp only [parseProposalAnswerC_eq]
      have hparse := answers_roundtrip c.offsetLimit as hpl
      rw [hlen] at hparse
      simp only [fsLine, hparse, zip_map_withAns]
      obtain ⟨ev2, r1, r2⟩ := run_transferAll_exact c J2 (outp.take c.maxBlock) as [] h
        (.wrote (promptLine (((outp.take c.maxBlock).map fun p => proposalLine p.code p.msgType p.mid p.size p.csize).map lineSum
          |>.foldl (· + ·) 0)) :: (ev1 ++ tr)) hbig hpl
      refine ⟨ev2 ++ .wrote (promptLine (blockSum 0 (outp.take c.maxBlock))) :: ev1, ?_, ?_⟩
      · rw [r1]; simp [← blockSum_eq]
      · simp only [outBytes_append, outBytes, w2, r2, blockBytes_eq, blockOut]
  obtain ⟨evs, k1, k2⟩ := key
  exact ⟨evs, k1, k2, new_events_shape (sendOutbound_quiet c fuel outp) _ h tr _ _ _ evs k1⟩

theorem mem_classify_true : ∀ (ps : List Proposal) (as : List UInt8) (m : Bytes), (m, true) ∈ classify ps as →
    ∃ p, (p, ansReject) ∈ ps.zip as ∧ p.mid = m := by
  intro ps as m hm
  apply mem_rejectedMids ps as m
  rw [← classify_rej]
  exact List.mem_map.mpr ⟨(m, true), List.mem_filter.mpr ⟨hm, rfl⟩, rfl⟩

theorem mem_classify_false : ∀ (ps : List Proposal) (as : List UInt8) (m : Bytes), (m, false) ∈ classify ps as →
    ∃ p, (p, ansAccept) ∈ ps.zip as ∧ p.mid = m
  | [], _, m, h => by simp [classify] at h
  | _ :: _, [], m, h => by simp [classify] at h
  | p :: ps, a :: as, m, h => by
    simp only [classify, List.mem_append] at h
    rcases h with h | h
    · split at h
      · rename_i ha
        simp only [List.mem_singleton, Prod.mk.injEq] at h
        exact ⟨p, by simp [ha], h.1.symm⟩
      · split at h
        · simp at h
        · cases h
    · obtain ⟨q, hq, hx⟩ := mem_classify_false ps as m h
      exact ⟨q, by simp [hq], hx⟩

theorem classify_of_accept : ∀ (ps : List Proposal) (as : List UInt8) (p : Proposal), (p, ansAccept) ∈ ps.zip as →
    (p.mid, false) ∈ classify ps as
  | [], _, p, h => by simp at h
  | _ :: _, [], p, h => by simp at h
  | q :: ps, a :: as, p, h => by
    simp only [List.zip_cons_cons, List.mem_cons, Prod.mk.injEq] at h
    simp only [classify, List.mem_append]
    rcases h with ⟨rfl, rfl⟩ | h
    · left; simp
    · right; exact classify_of_accept ps as p h

theorem repOf_calls_rev (l : List (Bytes × Bool)) (b : Bool) :
    repOf ((l.map fun x : Bytes × Bool => Call.setSent x.1 b).reverse.map Ev.called) = l.map (·.1) := by
  unfold repOf
  rw [← List.map_reverse, List.reverse_reverse, List.filterMap_map, List.filterMap_map]
  induction l with
  | nil => rfl
  | cons x t ih => simp [ih]

theorem classify_fst_sublist : ∀ (ps : List Proposal) (as : List UInt8), ((classify ps as).map (·.1)).Sublist (ps.map (·.mid))
  | [], _ => by simp [classify]
  | _ :: _, [] => by simp [classify]
  | p :: ps, a :: as => by
    simp only [classify, List.map_append, List.map_cons]
    split
    · exact (classify_fst_sublist ps as).cons_cons _
    · split
      · exact (classify_fst_sublist ps as).cons_cons _
      · exact (classify_fst_sublist ps as).cons _

/-- rejected MIDs followed by accepted MIDs: no MID twice -/
theorem classify_split_nodup (ps : List Proposal) (as : List UInt8) (hnd : (ps.map (·.mid)).Nodup) :
    (((classify ps as).filter (·.2)).map (·.1) ++ ((classify ps as).filter (!·.2)).map (·.1)).Nodup := by
  rw [← List.map_append]
  have hp := (List.filter_append_perm (fun x : Bytes × Bool => x.2) (classify ps as)).map (·.1)
  rw [hp.nodup_iff]
  exact (classify_fst_sublist ps as).nodup hnd

/-- the events of a list of calls, as in `run_callAll` -/
theorem mem_calls_rev {l : List (Bytes × Bool)} {f : Bytes × Bool → Call} {e : Ev}
    (he : e ∈ (l.map f).reverse.map Ev.called) : ∃ y ∈ l, e = .called (f y) := by
  simp only [List.mem_map, List.mem_reverse] at he
  obtain ⟨c, ⟨y, hy, rfl⟩, rfl⟩ := he
  exact ⟨y, hy, rfl⟩

/-- **The sender's turn when the `FS` line arrives** (one plain answer per proposal, distinct MIDs). `T1` — the
block, the frames of the accepted proposals, `SetSent(_, true)` for exactly the rejected ones — is common to all
outcomes; then the input ends, or the next byte is not 'F' / ';' (`F`: the error echo), or it is and the turn
completes: `C` is `SetSent(_, false)` for exactly the accepted proposals, and the session goes on in the handler
state that is the replay of the turn's events. -/
theorem send_fs' (c : Cfg) (fuel n : Nat) (st : SState) (h : HState) (hh : c.hasHandler = true)
    (hq : st.quitReceived = false) (hs : st.quitSent = false) (as : List UInt8) (J2 : Bytes)
    (hlen : as.length = (blockOf' c (offered h)).length) (hne : as ≠ []) (hpl : ∀ a ∈ as, PlainAnswer a)
    (hf : (fsLine as).length < fuel) (hbig : ∀ p ∈ blockOf' c (offered h), 6 ≤ p.csize)
    (hnd : ((blockOf' c (offered h)).map (·.mid)).Nodup) :
    ∃ T1, outBytes T1 = blockOut (blockOf' c (offered h)) ++ framesBytes c.maxMsgLen (blockOf' c (offered h)) as ∧
      NoConf T1 ∧ NoProc T1 ∧ (repOf T1).Nodup ∧
      (∀ m, Ev.called (.setSent m true) ∈ T1 → ∃ p, (p, ansReject) ∈ (blockOf' c (offered h)).zip as ∧ p.mid = m) ∧
      ((J2 = [] ∧ trOf (restOfSession c fuel (n + 1) true st) (fsLine as ++ 13 :: J2) h = T1) ∨
       (∃ x r F, J2 = x :: r ∧ isGo x = false ∧ Still F ∧
          trOf (restOfSession c fuel (n + 1) true st) (fsLine as ++ 13 :: J2) h = F ++ .peeked x :: T1) ∨
       (∃ x r C st', J2 = x :: r ∧ isGo x = true ∧ outBytes C = [] ∧ NoProc C ∧ (repOf (C ++ .peeked x :: T1)).Nodup ∧
          (∀ m b, Ev.called (.setSent m b) ∈ C →
            b = false ∧ ∃ p, (p, ansAccept) ∈ (blockOf' c (offered h)).zip as ∧ p.mid = m) ∧
          (∀ p, (p, ansAccept) ∈ (blockOf' c (offered h)).zip as → Ev.called (.setSent p.mid false) ∈ C) ∧
          trOf (restOfSession c fuel (n + 1) true st) (fsLine as ++ 13 :: J2) h =
            trOf (restOfSession c fuel n false st') (x :: r) (replay h (C ++ .peeked x :: T1)) ++
              (C ++ .peeked x :: T1))) := by
  have hblock : blockOf' c (offered h) ≠ [] := by
    intro e; rw [e] at hlen; simp at hlen; exact hne hlen
  have hne' : (sortProposals (((offered h).filter fun m : OutMsg => m.valid).map mkProp)).isEmpty = false := by
    cases hs : sortProposals (((offered h).filter (·.valid)).map mkProp) with
    | nil => simp [blockOf', hs] at hblock
    | cons a t => rfl
  obtain ⟨ev1, w1, w2, w3⟩ := run_sendOutbound_exact c fuel
    (sortProposals (((offered h).filter fun m : OutMsg => m.valid).map mkProp))
    as J2 h [.called (.getOutbound st.remoteFW)] hlen hne hpl hf hbig
  have hcl : transferRes (blockOf' c (offered h)) as [] = classify (blockOf' c (offered h)) as := by
    rw [transferRes_fresh _ as [] hnd (by intro p _ x hx; cases hx) hpl, List.nil_append]
  have hcl' : transferRes ((sortProposals (((offered h).filter fun m : OutMsg => m.valid).map mkProp)).take c.maxBlock) as [] =
      classify (blockOf' c (offered h)) as := hcl
  rw [hcl'] at w1
  generalize hsent : classify (blockOf' c (offered h)) as = sent' at w1
  generalize hDefer h (deferredMids ((sortProposals (((offered h).filter fun m : OutMsg => m.valid).map mkProp)).take c.maxBlock) as) = h2 at w1
  obtain ⟨h3, ec⟩ := run_callAll hstep J2 ((sent'.filter (·.2)).map fun x : Bytes × Bool => Call.setSent x.1 true) h2
    (ev1 ++ [.called (.getOutbound st.remoteFW)])
  have hsplit := classify_split_nodup (blockOf' c (offered h)) as hnd
  rw [hsent] at hsplit
  have hev1 : repOf (ev1 ++ [Ev.called (.getOutbound st.remoteFW)]) = [] :=
    repOf_eq_nil (still_append w3 (still_cons (e := Ev.called (.getOutbound st.remoteFW)) trivial still_nil)).toNoSent
  have hrepT1 : repOf (((sent'.filter (·.2)).map fun x : Bytes × Bool => Call.setSent x.1 true).reverse.map Ev.called ++
      (ev1 ++ [.called (.getOutbound st.remoteFW)])) = (sent'.filter (·.2)).map (·.1) := by
    rw [repOf_append, hev1, List.nil_append, repOf_calls_rev]
  -- the common part of the trace
  refine ⟨((sent'.filter (·.2)).map fun x : Bytes × Bool => Call.setSent x.1 true).reverse.map Ev.called ++
      (ev1 ++ [.called (.getOutbound st.remoteFW)]), ?_, ?_, ?_, ?_, ?_, ?_⟩
  · rw [outBytes_append, outBytes_append, outBytes_calls, w2]
    simp [outBytes, blockOf']
  · intro m hm
    rcases List.mem_append.mp hm with hm | hm
    · obtain ⟨y, _, hy⟩ := mem_calls_rev hm
      cases hy
    · rcases List.mem_append.mp hm with hm | hm
      · exact w3 _ hm
      · simp at hm
  · intro d hm
    rcases List.mem_append.mp hm with hm | hm
    · obtain ⟨y, _, hy⟩ := mem_calls_rev hm
      cases hy
    · rcases List.mem_append.mp hm with hm | hm
      · exact w3 _ hm
      · simp at hm
  · rw [hrepT1]
    exact (List.sublist_append_left _ _).nodup hsplit
  · intro m hm
    rcases List.mem_append.mp hm with hm | hm
    · obtain ⟨y, hy, hye⟩ := mem_calls_rev hm
      simp only [Ev.called.injEq, Call.setSent.injEq, and_true] at hye
      obtain ⟨y1, y2⟩ := y
      obtain ⟨hy1, hy2⟩ := List.mem_filter.mp hy
      simp only at hy2 hye
      subst hy2 hye
      rw [← hsent] at hy1
      exact mem_classify_true _ _ _ hy1
    · rcases List.mem_append.mp hm with hm | hm
      · exact (w3 _ hm).elim
      · simp at hm
  · -- the run of `handleOutbound` up to the peek
    have hrun : ∀ (k : Except SErr (Bool × SState) → Proc Result),
        Proc.run hstep ((handleOutbound c fuel st).bind k) (fsLine as ++ 13 :: J2) h [] =
          Proc.run hstep ((outTail fuel st (sent'.filter (!·.2))).bind k) J2 h3
            (((sent'.filter (·.2)).map fun x : Bytes × Bool => Call.setSent x.1 true).reverse.map Ev.called ++
              (ev1 ++ [.called (.getOutbound st.remoteFW)])) := by
      intro k
      rw [handleOutbound_eq, Proc.bind_assoc, run_bind]
      simp only [outbound, hh, Bool.not_true, Bool.false_eq_true, if_false, Proc.run, hstep_getOutbound, hne']
      rw [Proc.bind_assoc, run_bind, w1]
      simp only
      rw [Proc.bind_assoc, run_bind, ec]
    rw [restOfSession_send c fuel n st hq hs]
    unfold trOf
    rw [hrun, run_bind]
    cases J2 with
    | nil =>
      left
      refine ⟨rfl, ?_⟩
      rw [run_outTail_nil]
      rfl
    | cons x r =>
      right
      by_cases hgo : x ≠ 70 ∧ x ≠ 59
      · left
        have hx : isGo x = false := by
          simp only [isGo, Bool.or_eq_false_iff, beq_eq_false_iff_ne]
          exact hgo
        obtain ⟨res, J', e1, e2⟩ := run_outTail_nogo fuel st (sent'.filter (!·.2)) x r h3
          (((sent'.filter (·.2)).map fun x : Bytes × Bool => Call.setSent x.1 true).reverse.map Ev.called ++
            (ev1 ++ [.called (.getOutbound st.remoteFW)])) hgo
        rw [e1]
        cases res with
        | panicked s => exact ⟨x, r, [], rfl, hx, still_nil, rfl⟩
        | blocked => exact ⟨x, r, [], rfl, hx, still_nil, rfl⟩
        | done v =>
          cases v with
          | ok v' => exact absurd rfl (e2 v')
          | error e =>
            simp only [afterOutbound]
            refine ⟨x, r, trOf (finish st false (some e)) J' h3, rfl, hx, still_finish st (some e) J' h3, ?_⟩
            rw [run_tr]
            rfl
      · right
        have hx : isGo x = true := by
          simp only [isGo, Bool.or_eq_true, beq_iff_eq]
          by_cases h70 : x = 70
          · exact Or.inl h70
          · by_cases h59 : x = 59
            · exact Or.inr h59
            · exact absurd ⟨h70, h59⟩ hgo
        obtain ⟨h4, e1⟩ := run_outTail_go fuel st (sent'.filter (!·.2)) x r h3
          (((sent'.filter (·.2)).map fun x : Bytes × Bool => Call.setSent x.1 true).reverse.map Ev.called ++
            (ev1 ++ [.called (.getOutbound st.remoteFW)])) hgo
        -- the handler state is the replay of the turn's events
        have hrep : h4 = replay h (((sent'.filter (!·.2)).map fun x : Bytes × Bool => Call.setSent x.1 false).reverse.map Ev.called ++
            .peeked x :: (((sent'.filter (·.2)).map fun x : Bytes × Bool => Call.setSent x.1 true).reverse.map Ev.called ++
              (ev1 ++ [.called (.getOutbound st.remoteFW)]))) := by
          have hk := hrun fun r => Proc.ret (match r with | _ => ({ err := .nil } : Result))
          have h5 := run_replay ((handleOutbound c fuel st).bind fun r => Proc.ret (match r with | _ => ({ err := .nil } : Result)))
            (fsLine as ++ 13 :: x :: r) h [] h rfl
          rw [hk, run_bind, e1] at h5
          exact h5
        rw [e1]
        simp only [afterOutbound]
        refine ⟨x, r, ((sent'.filter (!·.2)).map fun x : Bytes × Bool => Call.setSent x.1 false).reverse.map Ev.called,
          { st with sent := st.sent ++ (sent'.filter (!·.2)).map (·.1), quitSent := false },
          rfl, hx, outBytes_calls _, ?_, ?_, ?_, ?_, ?_⟩
        · intro d hm
          obtain ⟨y, _, hy⟩ := mem_calls_rev hm
          cases hy
        · rw [repOf_append, repOf_cons, hrepT1, repOf_calls_rev]
          simpa using hsplit
        · intro m b hm
          obtain ⟨y, hy, hye⟩ := mem_calls_rev hm
          simp only [Ev.called.injEq, Call.setSent.injEq] at hye
          obtain ⟨y1, y2⟩ := y
          obtain ⟨hy1, hy2⟩ := List.mem_filter.mp hy
          simp only [Bool.not_eq_true'] at hy2
          simp only at hy2 hye
          subst hy2
          obtain ⟨rfl, rfl⟩ := hye
          rw [← hsent] at hy1
          exact ⟨rfl, mem_classify_false _ _ _ hy1⟩
        · intro p hp
          have hs' : (p.mid, false) ∈ sent' := by rw [← hsent]; exact classify_of_accept _ _ p hp
          simp only [List.mem_map, List.mem_reverse, List.mem_filter]
          exact ⟨.setSent p.mid false, ⟨(p.mid, false), ⟨hs', by simp⟩, rfl⟩, rfl⟩
        · rw [run_tr, ← hrep]

/-! ### a session on a dead link does nothing that counts -/

/-- on the empty input (the link is dead from this turn boundary on) the rest of a session calls neither `SetSent`
nor `ProcessInbound` -/
theorem still_rest_nil (c : Cfg) (fuel : Nat) (hh : c.hasHandler = true) (hmb : 1 ≤ c.maxBlock) (hf5 : 5 < fuel) :
    ∀ (n : Nat) (b : Bool) (st : SState) (h : HState), Still (trOf (restOfSession c fuel n b st) [] h) := by
  have hrecv : ∀ (n : Nat) (st : SState) (h : HState), Still (trOf (restOfSession c fuel n false st) [] h) := by
    intro n st h
    cases n with
    | zero => rw [restOfSession_zero]; exact still_nil
    | succ n =>
      by_cases hquit : st.quitReceived = true ∨ st.quitSent = true
      · rw [restOfSession_quit c fuel n false st hquit]; exact still_nil
      · have hq : st.quitReceived = false := by
          cases hq : st.quitReceived with
          | false => rfl
          | true => exact absurd (Or.inl hq) hquit
        have hs : st.quitSent = false := by
          cases hs : st.quitSent with
          | false => rfl
          | true => exact absurd (Or.inr hs) hquit
        rw [recv_FQ c fuel n st hq hs [] [] h hf5 List.nil_prefix]
        exact still_nil
  intro n b st h
  cases b with
  | false => exact hrecv n st h
  | true =>
    cases n with
    | zero => rw [restOfSession_zero]; exact still_nil
    | succ n =>
      by_cases hquit : st.quitReceived = true ∨ st.quitSent = true
      · rw [restOfSession_quit c fuel n true st hquit]; exact still_nil
      · have hq : st.quitReceived = false := by
          cases hq : st.quitReceived with
          | false => rfl
          | true => exact absurd (Or.inl hq) hquit
        have hs : st.quitSent = false := by
          cases hs : st.quitSent with
          | false => rfl
          | true => exact absurd (Or.inr hs) hquit
        by_cases hE : sortProposals (((offered h).filter fun m : OutMsg => m.valid).map mkProp) = []
        · rw [trOf_send_empty c fuel n st h hh hq hs hE []]
          exact still_append (hrecv n _ h) (still_cons trivial (still_cons trivial still_nil))
        · exact (send_eof' c fuel n st h hh hq hs (block_ne_of_sorted hmb hE) [] (by simp) (by simp; omega)).2

end Wl2k.B2F
