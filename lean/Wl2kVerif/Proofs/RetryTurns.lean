import Wl2kVerif.Proofs.RetryRecv
/-
The accounting of ALL turns of two sessions that start at complementary turn boundaries (any schedule, any cut):
induction over the turns at stream level, as in `Proofs/WholeTurns.lean`, but carrying `Acct` — every
`SetSent(m, true)` is a queued message the peer's policy rejects, and what a handler is handed are distinct queued
messages of the peer that its policy accepts — instead of `SIR`.
-/
namespace Wl2k.B2F
open Wl2k Wl2k.Fmt Wl2k.Str Wl2k.Strconv

/-! ### the accepted messages of a block -/

/-- the messages whose proposals are accepted -/
def accMsgs : List OutMsg → List UInt8 → List OutMsg
  | m :: ms, a :: as => (if a = ansAccept then [m] else []) ++ accMsgs ms as
  | _, _ => []

theorem accMsgs_data (dataOf : Proposal → Bytes) : ∀ (ms : List OutMsg) (as : List UInt8),
    (∀ m ∈ ms, dataOf (mkProp m) = m.data) → acceptedData dataOf (ms.map mkProp) as = (accMsgs ms as).map (·.data)
  | [], _, _ => rfl
  | _ :: _, [], _ => rfl
  | m :: ms, a :: as, h => by
    simp only [List.map_cons, acceptedData, accMsgs, List.map_append,
      accMsgs_data dataOf ms as (fun x hx => h x (by simp [hx])), h m (by simp)]
    split <;> rfl

theorem accMsgs_sublist : ∀ (ms : List OutMsg) (as : List UInt8), (accMsgs ms as).Sublist ms
  | [], _ => by simp [accMsgs]
  | _ :: _, [] => by simp [accMsgs]
  | m :: ms, a :: as => by
    simp only [accMsgs]
    split
    · exact (accMsgs_sublist ms as).cons_cons _
    · exact (accMsgs_sublist ms as).cons _

theorem mem_accMsgs : ∀ (ms : List OutMsg) (as : List UInt8) (msg : OutMsg), msg ∈ accMsgs ms as →
    (msg, ansAccept) ∈ ms.zip as
  | [], _, _, h => by simp [accMsgs] at h
  | _ :: _, [], _, h => by simp [accMsgs] at h
  | m :: ms, a :: as, msg, h => by
    simp only [accMsgs, List.mem_append] at h
    rcases h with h | h
    · split at h
      · rename_i ha
        simp only [List.mem_singleton] at h
        simp [h, ha]
      · cases h
    · simp [mem_accMsgs ms as msg h]

theorem mem_zip_map_left {α β γ : Type} (f : α → β) : ∀ (l : List α) (as : List γ) (x : α) (a : γ), (x, a) ∈ l.zip as →
    (f x, a) ∈ (l.map f).zip as
  | [], _, _, _, h => by simp at h
  | _ :: _, [], _, _, h => by simp at h
  | y :: l, b :: as, x, a, h => by
    simp only [List.zip_cons_cons, List.mem_cons, Prod.mk.injEq] at h
    simp only [List.map_cons, List.zip_cons_cons, List.mem_cons, Prod.mk.injEq]
    rcases h with ⟨rfl, rfl⟩ | h
    · exact Or.inl ⟨rfl, rfl⟩
    · exact Or.inr (mem_zip_map_left f l as x a h)

theorem exists_preimage {α β : Type} (f : α → β) (S : List α) : ∀ (B : List β), (∀ p ∈ B, ∃ m ∈ S, p = f m) →
    ∃ ms : List α, B = ms.map f ∧ ∀ m ∈ ms, m ∈ S
  | [], _ => ⟨([] : List α), rfl, by intro m hm; cases hm⟩
  | p :: B, h => by
    obtain ⟨m, hm, rfl⟩ := h p (by simp)
    obtain ⟨ms, rfl, hms⟩ := exists_preimage f S B (fun q hq => h q (by simp [hq]))
    exact ⟨m :: ms, rfl, by
      intro x hx
      rcases List.mem_cons.mp hx with rfl | hx
      · exact hm
      · exact hms x hx⟩

/-- **What a block and the receiver's answers to it are**, in terms of the sender's queue and the receiver's policy:
every proposal is a queued message, its answer is the policy's; the accepted payloads are the bytes of distinct
queued messages the policy accepts. -/
theorem block_facts (cS cR : Cfg) (fuel : Nat) (hS hR : HState) (gS : Good cS fuel hS) (gR : Good cR fuel hR)
    (ndS : (hS.outbox.map (·.mid)).Nodup) :
    (∀ p a, (p, a) ∈ (blockOf' cS (offered hS)).zip (answersOf hstep cR hR ((blockOf' cS (offered hS)).map recvProp)) →
      ∃ msg ∈ hS.outbox, msg.mid = p.mid ∧ a = hR.answerFor p.mid ∧ (lzDecode p.cdata).getD [] = msg.data) ∧
    ∃ Lacc : List OutMsg,
      acceptedData (fun p => (lzDecode p.cdata).getD []) (blockOf' cS (offered hS))
        (answersOf hstep cR hR ((blockOf' cS (offered hS)).map recvProp)) = Lacc.map (·.data) ∧
      (Lacc.map (·.mid)).Nodup ∧
      ∀ msg ∈ Lacc, msg ∈ hS.outbox ∧ hR.answerFor msg.mid = ansAccept ∧
        ∃ p, (p, ansAccept) ∈ (blockOf' cS (offered hS)).zip
          (answersOf hstep cR hR ((blockOf' cS (offered hS)).map recvProp)) ∧ p.mid = msg.mid := by
  have hndB := block_nodup cS hS ndS
  have hmem : ∀ p ∈ blockOf' cS (offered hS), ∃ msg ∈ offered hS, p = mkProp msg := fun p hp => mem_blockOf' cS _ p hp
  have has : answersOf hstep cR hR ((blockOf' cS (offered hS)).map recvProp) =
      (blockOf' cS (offered hS)).map fun p => hR.answerFor p.mid := by
    rw [answersOf_ref cR gR.hh hR gR.nb ((blockOf' cS (offered hS)).map recvProp) ?_ ?_]
    · simp [List.map_map, Function.comp_def, recvProp]
    · intro p hp
      obtain ⟨q, hq, rfl⟩ := List.mem_map.mp hp
      obtain ⟨msg, _, rfl⟩ := hmem q hq
      rfl
    · have : ((blockOf' cS (offered hS)).map recvProp).map (·.mid) = (blockOf' cS (offered hS)).map (·.mid) := by
        simp [List.map_map, Function.comp_def, recvProp]
      rw [this]; exact hndB
  rw [has]
  obtain ⟨ms, hB, hms⟩ := exists_preimage mkProp (offered hS) _ hmem
  generalize blockOf' cS (offered hS) = B at hndB hmem hB ⊢
  subst hB
  have hout : ∀ m ∈ ms, m ∈ hS.outbox := fun m hm => (List.mem_filter.mp (hms m hm)).1
  constructor
  · intro p a hpa
    have ha := mem_zip_map (fun p : Proposal => hR.answerFor p.mid) _ p a hpa
    obtain ⟨msg, hm, rfl⟩ := List.mem_map.mp (List.of_mem_zip hpa).1
    exact ⟨msg, hout msg hm, rfl, ha, by simp [mkProp, lz_roundtrip msg.data (gS.msgs msg (hout msg hm)).small]⟩
  · refine ⟨accMsgs ms ((ms.map mkProp).map fun p => hR.answerFor p.mid), ?_, ?_, ?_⟩
    · apply accMsgs_data
      intro m hm
      simp [mkProp, lz_roundtrip m.data (gS.msgs m (hout m hm)).small]
    · have h1 : ((accMsgs ms ((ms.map mkProp).map fun p => hR.answerFor p.mid)).map (·.mid)).Sublist (ms.map (·.mid)) :=
        (accMsgs_sublist _ _).map _
      have h2 : (ms.map mkProp).map (·.mid) = ms.map (·.mid) := by simp [List.map_map, Function.comp_def, mkProp]
      rw [h2] at hndB
      exact h1.nodup hndB
    · intro msg hmsg
      have hz := mem_accMsgs _ _ msg hmsg
      have hz' := mem_zip_map_left mkProp _ _ _ _ hz
      have ha := mem_zip_map (fun p : Proposal => hR.answerFor p.mid) _ _ _ hz'
      exact ⟨hout msg ((accMsgs_sublist _ _).subset hmsg), ha.symm, mkProp msg, hz', rfl⟩

/-! ### small facts about the two traces of a turn -/

theorem not_mem_outbox_of_setSent (h : HState) (evs : List Ev) (m : Bytes) (r : Bool)
    (hm : Ev.called (.setSent m r) ∈ evs) : m ∉ (replay h evs).outbox.map (·.mid) := by
  rw [replay_outbox]
  intro hmem
  obtain ⟨msg, hmsg, rfl⟩ := List.mem_map.mp hmem
  have h1 := (List.mem_filter.mp hmsg).2
  have h2 : msg.mid ∈ repOf evs := (mem_repOf evs msg.mid).mpr ⟨r, hm⟩
  simp [h2] at h1

theorem noProc_of_answer (evs : List Ev) (h : ∀ e ∈ evs, e.isAnswerCall = true) : NoProc evs := by
  intro d hd
  have := h _ hd
  simp [Ev.isAnswerCall, isAnswerCall] at this

theorem noSent_of_answer (evs : List Ev) (h : ∀ e ∈ evs, e.isAnswerCall = true) : NoSent evs := by
  intro m r hd
  have := h _ hd
  simp [Ev.isAnswerCall, isAnswerCall] at this

theorem noSent_of_fetch (evs : List Ev) (h : ∀ e ∈ evs, FetchAlpha e.node) : NoSent evs := by
  intro m r hm
  have := h _ hm
  simp [Ev.node, FetchAlpha, isFetchCall] at this

/-- the receiver's turn — answer calls, the `FS` line, fetch calls — hands over what the fetch calls hand over … -/
theorem procOf_turnR (fev evs : List Ev) (bs : Bytes) (hev : ∀ e ∈ evs, e.isAnswerCall = true) :
    procOf (fev ++ Ev.wrote bs :: evs) = procOf fev := by
  rw [procOf_append, procOf_cons, procOf_eq_nil (noProc_of_answer evs hev)]
  rfl

/-- … and calls no `SetSent` -/
theorem noSent_turnR (fev evs : List Ev) (bs : Bytes) (hfe : ∀ e ∈ fev, FetchAlpha e.node)
    (hev : ∀ e ∈ evs, e.isAnswerCall = true) : NoSent (fev ++ Ev.wrote bs :: evs) := by
  refine noSent_append (noSent_of_fetch fev hfe) ?_
  intro m r hm
  rcases List.mem_cons.mp hm with hm | hm
  · cases hm
  · exact noSent_of_answer evs hev m r hm

/-- answer calls leave the handler alone -/
theorem replay_answer_calls (h : HState) : ∀ (evs : List Ev), (∀ e ∈ evs, e.isAnswerCall = true) → replay h evs = h
  | [], _ => rfl
  | e :: t, hev => by
    have ht := replay_answer_calls h t (fun x hx => hev x (List.mem_cons_of_mem _ hx))
    have he := hev e List.mem_cons_self
    simp only [replay, ht]
    cases e with
    | called c => cases c <;> first | rfl | simp [Ev.isAnswerCall, isAnswerCall] at he
    | _ => simp [Ev.isAnswerCall] at he

/-- the receiver's turn leaves its handler where the fetch calls leave it -/
theorem replay_turnR (h : HState) (fev evs : List Ev) (bs : Bytes) (hev : ∀ e ∈ evs, e.isAnswerCall = true) :
    replay h (fev ++ Ev.wrote bs :: evs) = replay h fev := by
  rw [replay_append]
  simp only [replay, evStep, replay_answer_calls h evs hev]

/-- if one side's program never produces an event, the other is on a dead link: nothing counts -/
theorem acct_of_mute_left {PS : Proc Result} {cR : Cfg} {fuel nR : Nat} {bR : Bool} {stR : SState} {hS hR : HState}
    {eS eR : List Ev} (hm : ∀ J, trOf PS J hS = []) (hh : cR.hasHandler = true) (hmb : 1 ≤ cR.maxBlock) (hf5 : 5 < fuel)
    (hcon : Con PS hS (restOfSession cR fuel nR bR stR) hR eS eR) : Acct hS hR eS eR ∧ Acct hR hS eR eS := by
  obtain ⟨JS, JR, h1, h2, _, h4⟩ := hcon
  rw [hm] at h1
  have e1 : eS = [] := suffix_nil h1
  subst e1
  have e2 : JR = [] := prefix_nil h4
  subst e2
  have hst : Still eR := (still_rest_nil cR fuel hh hmb hf5 nR bR stR hR).of_suffix h2
  exact ⟨Acct.of_quiet still_nil.toNoSent hst.toNoProc, Acct.of_quiet hst.toNoSent still_nil.toNoProc⟩

theorem acct_of_mute_right {PR : Proc Result} {cS : Cfg} {fuel nS : Nat} {bS : Bool} {stS : SState} {hS hR : HState}
    {eS eR : List Ev} (hm : ∀ J, trOf PR J hR = []) (hh : cS.hasHandler = true) (hmb : 1 ≤ cS.maxBlock) (hf5 : 5 < fuel)
    (hcon : Con (restOfSession cS fuel nS bS stS) hS PR hR eS eR) : Acct hS hR eS eR ∧ Acct hR hS eR eS :=
  (acct_of_mute_left hm hh hmb hf5 hcon.symm).symm

/-- both traces quiet -/
theorem acct_of_still {hS hR : HState} {eS eR : List Ev} (h1 : Still eS) (h2 : Still eR) :
    Acct hS hR eS eR ∧ Acct hR hS eR eS :=
  ⟨Acct.of_quiet h1.toNoSent h2.toNoProc, Acct.of_quiet h2.toNoSent h1.toNoProc⟩

/-- **One turn of the accounting** (compare `turn_boundary_aligned`). `S` = the rest of a session that starts with a
sender turn, `R` = the rest of a session that starts with a receiver turn; `eS`, `eR` a consistent pair of partial
traces. EITHER one side has not got through the turn, and the accounting of both directions holds outright, OR both
have completed it in step: the sender's turn `TS` rejects only what `R`'s policy rejects, the receiver's turn `TR`
reports nothing and was handed exactly the bytes of the distinct messages `Lacc` of `S`'s queue that `R`'s policy
accepts — which are then gone from `S`'s queue —, and what remains is again a consistent pair of partial traces of the
residual sessions with the roles swapped. -/
theorem turn_acct (fuel nS nR : Nat) (cS cR : Cfg) (stS stR : SState) (hS hR : HState) (eS eR : List Ev)
    (gS : Good cS fuel hS) (gR : Good cR fuel hR) (ndS : (hS.outbox.map (·.mid)).Nodup)
    (hcon : Con (restOfSession cS fuel nS true stS) hS (restOfSession cR fuel nR false stR) hR eS eR) :
    (Acct hS hR eS eR ∧ Acct hR hS eR eS) ∨
    ∃ (eS' eR' TS TR TSp : List Ev) (nS' nR' : Nat) (stS' stR' : SState) (hS' hR' : HState) (Lacc : List OutMsg),
      nS' < nS ∧ nR' < nR ∧
      TSp <:+ TS ∧ eS = eS' ++ TSp ∧ eR = eR' ++ TR ∧ HLe hS' hS ∧ HLe hR' hR ∧
      hS'.outbox.Sublist hS.outbox ∧ hR'.outbox.Sublist hR.outbox ∧
      Con (restOfSession cR fuel nR' true stR') hR' (restOfSession cS fuel nS' false stS') hS' eR' eS' ∧
      NoSent TR ∧ NoProc TS ∧ RejOK hS hR TS ∧ RepOK hS TS ∧ (∀ m ∈ repOf TS, m ∉ hS'.outbox.map (·.mid)) ∧
      procOf TR = Lacc.map (·.data) ∧ (Lacc.map (·.mid)).Nodup ∧
      (∀ msg ∈ Lacc, msg ∈ hS.outbox ∧ hR.answerFor msg.mid = ansAccept ∧ msg.mid ∉ hS'.outbox.map (·.mid)) ∧
      replay hS TS = hS' ∧ replay hR TR = hR' ∧
      (∀ m, Ev.called (.setSent m false) ∈ TS → ∃ msg ∈ hS.outbox, msg.mid = m ∧ msg.data ∈ hR'.inbox) := by
    -- degenerate cases: a side that is out of turns or has quit produces no event
    cases nS with
    | zero => exact Or.inl (acct_of_mute_left (fun _ => rfl) gR.hh gR.mb gR.f5 hcon)
    | succ nS =>
    cases nR with
    | zero => exact Or.inl (acct_of_mute_right (fun _ => rfl) gS.hh gS.mb gS.f5 hcon)
    | succ nR =>
    by_cases hquitS : stS.quitReceived = true ∨ stS.quitSent = true
    · exact Or.inl (acct_of_mute_left (fun J => by rw [restOfSession_quit cS fuel nS true stS hquitS]; rfl)
        gR.hh gR.mb gR.f5 hcon)
    by_cases hquitR : stR.quitReceived = true ∨ stR.quitSent = true
    · exact Or.inl (acct_of_mute_right (fun J => by rw [restOfSession_quit cR fuel nR false stR hquitR]; rfl)
        gS.hh gS.mb gS.f5 hcon)
    have hqS : stS.quitReceived = false := by
      cases hq : stS.quitReceived with
      | false => rfl
      | true => exact absurd (Or.inl hq) hquitS
    have hsS : stS.quitSent = false := by
      cases hs : stS.quitSent with
      | false => rfl
      | true => exact absurd (Or.inr hs) hquitS
    have hqR : stR.quitReceived = false := by
      cases hq : stR.quitReceived with
      | false => rfl
      | true => exact absurd (Or.inl hq) hquitR
    have hsR : stR.quitSent = false := by
      cases hs : stR.quitSent with
      | false => rfl
      | true => exact absurd (Or.inr hs) hquitR
    obtain ⟨JS, JR, h1, h2, h3, h4⟩ := hcon
    by_cases hE : sortProposals (((offered hS).filter fun m : OutMsg => m.valid).map mkProp) = []
    · ---------------------------------------------------------------- nothing to send: FF / FQ
      rw [trOf_send_empty cS fuel nS stS hS gS.hh hqS hsS hE JS] at h1
      have hJR : JR <+: outBytes (trOf (restOfSession cS fuel nS false { stS with quitSent := stS.remoteNoMsgs }) JS hS ++
          [.wrote (if stS.remoteNoMsgs then sb "FQ\r" else sb "FF\r"), .called (.getOutbound stS.remoteFW)]) :=
        h4.trans (outBytes_suffix h1)
      have hT0 : ∀ bs : Bytes, Still [Ev.wrote bs, Ev.called (.getOutbound stS.remoteFW)] :=
        fun bs => still_cons trivial (still_cons trivial still_nil)
      cases hrn : stS.remoteNoMsgs with
      | true =>
        -- FQ: both sessions end without further events
        rw [hrn] at h1 hJR
        have hS' : ∀ st'' : SState, st''.quitSent = true → trOf (restOfSession cS fuel nS false st'') JS hS = [] := by
          intro st'' hq''
          cases nS with
          | zero => rfl
          | succ k => rw [restOfSession_quit cS fuel k false _ (Or.inr hq'')]; rfl
        rw [hS' _ rfl] at h1 hJR
        simp only [List.nil_append, outBytes, if_true, sb_FQ] at h1 hJR
        have hR0 := recv_FQ cR fuel nR stR hqR hsR [] JR hR gR.f5 (by simpa using hJR)
        rw [hR0] at h2
        have e2 : eR = [] := suffix_nil h2
        subst e2
        exact Or.inl (acct_of_still ((hT0 _).of_suffix h1) still_nil)
      | false =>
        rw [hrn] at h1 hJR
        simp only [Bool.false_eq_true, if_false, sb_FF] at h1 hJR
        rw [outBytes_append] at hJR
        simp only [outBytes, List.nil_append] at hJR
        rcases recv_FF cR fuel nR stR hqR hsR _ JR hR gR.f5 (by simpa using hJR) with hR0 | ⟨J3, rfl, hJ3, hR1⟩
        · rw [hR0] at h2
          have e2 : eR = [] := suffix_nil h2
          subst e2
          have e3 : JS = [] := prefix_nil h3
          subst e3
          exact Or.inl (acct_of_still
            ((still_append (still_rest_nil cS fuel gS.hh gS.mb gS.f5 _ _ _ _) (hT0 _)).of_suffix h1) still_nil)
        · rw [hR1] at h2
          rcases suffix_append_split h1 with hin | ⟨eS', rfl, heS'⟩
          · -- the sender's trace is still inside its turn
            have hlen := (h4.trans (outBytes_suffix hin)).length_le
            simp only [outBytes, List.nil_append, List.length_append, List.length_cons, List.length_nil] at hlen
            have e3 : J3 = [] := List.eq_nil_of_length_eq_zero (by omega)
            subst e3
            exact Or.inr ⟨[], eR, _, [], eS, nS, nR, stS, _, hS, hR, [], Nat.lt_succ_self _, Nat.lt_succ_self _,
              hin, (List.nil_append _).symm, (List.append_nil _).symm,
              HLe.refl _, HLe.refl _, List.Sublist.refl _, List.Sublist.refl _,
              ⟨[], [], h2, List.nil_suffix, List.nil_prefix, List.nil_prefix⟩, still_nil.toNoSent, (hT0 _).toNoProc,
              RejOK.of_noSent (hT0 _).toNoSent, RepOK.of_noSent (hT0 _).toNoSent,
              (by rw [repOf_eq_nil (hT0 _).toNoSent]; intro m hm; cases hm), rfl, List.nodup_nil, (fun m hm => by cases hm),
              rfl, rfl, fun m hm => ((hT0 _).noSent m false hm).elim⟩
          · have hJ3' : J3 <+: outBytes eS' := by
              have := h4
              rw [outBytes_append] at this
              simp only [outBytes, List.nil_append] at this
              exact (List.prefix_append_right_inj [70, 70, 13]).mp (by simpa using this)
            exact Or.inr ⟨eS', eR, _, [], _, nS, nR, _, _, hS, hR, [], Nat.lt_succ_self _, Nat.lt_succ_self _,
              List.suffix_refl _, rfl, (List.append_nil _).symm,
              HLe.refl _, HLe.refl _, List.Sublist.refl _, List.Sublist.refl _, ⟨J3, JS, h2, heS', hJ3', h3⟩,
              still_nil.toNoSent, (hT0 _).toNoProc, RejOK.of_noSent (hT0 _).toNoSent, RepOK.of_noSent (hT0 _).toNoSent,
              (by rw [repOf_eq_nil (hT0 _).toNoSent]; intro m hm; cases hm), rfl, List.nodup_nil, (fun m hm => by cases hm),
              rfl, rfl, fun m hm => ((hT0 _).noSent m false hm).elim⟩
    · ---------------------------------------------------------------- a block to send
      have hne : blockOf' cS (offered hS) ≠ [] := block_ne_of_sorted gS.mb hE
      have hok := gS.blockOK hne
      have hbl : (blockOf' cS (offered hS)).length < fuel := by have := hok.fuelN; omega
      have hndB := block_nodup cS hS ndS
      obtain ⟨hzip, Lacc, hLd, hLnd, hL⟩ := block_facts cS cR fuel hS hR gS gR ndS
      obtain ⟨Rr, hRr⟩ := send_out cS fuel nS stS hS gS.hh hqS hsS hne JS
      have hJR : JR <+: blockOut (blockOf' cS (offered hS)) ++ Rr := by
        have := h4.trans (outBytes_suffix h1)
        rwa [hRr] at this
      rcases recv_block' cR fuel nR stR hqR hsR (blockOf' cS (offered hS)) cS.maxMsgLen gS.m1 gS.m2
        (fun p => (lzDecode p.cdata).getD []) Rr JR hR (wpaOK_ref cR hR gR.hh gR.pol gR.nb) hne hok.line hok.frame gR.f5 hbl hJR with
        hR0 | ⟨as, evs, fev, X, J2, has, rfl, _, hlen, hpl, hev, hfe, hT, hfetch⟩
      · -- the block has not arrived: the receiver has done nothing, so the sender has read nothing
        rw [hR0] at h2
        have e2 : eR = [] := suffix_nil h2
        subst e2
        have e3 : JS = [] := prefix_nil h3
        subst e3
        exact Or.inl (acct_of_still ((still_rest_nil cS fuel gS.hh gS.mb gS.f5 _ _ _ _).of_suffix h1) still_nil)
      · rw [← has] at hzip hLd hL
        rw [hT] at h2
        have hTRns : NoSent (fev ++ Ev.wrote (fsLine as ++ [13]) :: evs) := noSent_turnR fev evs _ hfe hev
        have hTRp : procOf (fev ++ Ev.wrote (fsLine as ++ [13]) :: evs) = procOf fev := procOf_turnR fev evs _ hev
        have hTRo : outBytes (fev ++ Ev.wrote (fsLine as ++ [13]) :: evs) = fsLine as ++ [13] := by
          rw [outBytes_append, fetch_evs_silent fev hfe]; simp [outBytes, answer_evs_silent evs hev]
        have hJS : JS <+: fsLine as ++ 13 :: outBytes X := by
          have := h3.trans (outBytes_suffix h2)
          rw [outBytes_append, hTRo] at this
          simpa using this
        have hasne : as ≠ [] := by
          intro e; rw [e] at hlen; exact hne (List.length_eq_zero_iff.mp hlen.symm)
        have hfsl : (fsLine as).length < fuel := by
          have := hok.fuelN
          simp only [fsLine, fsPrefix, List.length_append, List.length_cons, List.length_nil]; omega
        -- the receiver's side when its session ends in this turn, or the link is dead after it
        have hRdone : ∀ rest', J2 <+: framesBytes cS.maxMsgLen (blockOf' cS (offered hS)) as ++ rest' → Still X →
            ProcOK hS hR eR ∧ NoSent eR := by
          intro rest' hJ2 hX
          obtain ⟨hpre, _⟩ := hfetch rest' hJ2
          constructor
          · refine ProcOK.of_prefix Lacc ?_ (fun msg hm => ⟨(hL msg hm).1, (hL msg hm).2.1⟩) hLnd
            have := procOf_prefix_of_suffix h2
            rw [procOf_append, hTRp, procOf_eq_nil hX.toNoProc, List.append_nil] at this
            rw [← hLd]
            exact this.trans hpre
          · exact NoSent.of_suffix (noSent_append hX.toNoSent hTRns) h2
        have hXnil : J2 <+: framesBytes cS.maxMsgLen (blockOf' cS (offered hS)) as → Still X := by
          intro hJ2
          rcases (hfetch [] (by simpa using hJ2)).2 with ⟨hXc, _⟩ | ⟨_, _, J3, st', hJ3, rfl⟩
          · exact hXc
          · have e3 : J3 = [] := prefix_nil hJ3
            subst e3
            exact still_rest_nil cR fuel gR.hh gR.mb gR.f5 _ _ _ _
        have hJ2_of : ∀ (T : List Ev) (Y : Bytes), eS <:+ T →
            outBytes T = blockOut (blockOf' cS (offered hS)) ++ framesBytes cS.maxMsgLen (blockOf' cS (offered hS)) as ++ Y →
            J2 <+: framesBytes cS.maxMsgLen (blockOf' cS (offered hS)) as ++ Y := by
          intro T Y hsuf hout
          have := h4.trans (outBytes_suffix hsuf)
          rw [hout, List.append_assoc] at this
          exact (List.prefix_append_right_inj _).mp this
        rcases prefix_line_cases (fsLine as) (outBytes X) JS hJS with ⟨J2S, rfl, hJ2S⟩ | hshort
        · obtain ⟨T1, hT1o, hT1c, hT1p, hT1nd, hT1r, hcases⟩ := send_fs' cS fuel nS stS hS gS.hh hqS hsS as J2S hlen hasne hpl hfsl hok.big hndB
          have hT1rej : RejOK hS hR T1 := by
            intro m hm
            obtain ⟨p, hp, rfl⟩ := hT1r m hm
            obtain ⟨msg, g1, g2, g3, _⟩ := hzip p ansReject hp
            exact ⟨msg, g1, g2, g3.symm⟩
          have hT1rep : RepOK hS T1 := by
            refine ⟨hT1nd, ?_⟩
            intro m hm
            obtain ⟨b, hb⟩ := (mem_repOf T1 m).mp hm
            cases b with
            | false => exact (hT1c m hb).elim
            | true =>
              obtain ⟨msg, g1, g2, _⟩ := hT1rej m hb
              exact List.mem_map.mpr ⟨msg, g1, g2⟩
          rcases hcases with ⟨rfl, hTS⟩ | ⟨x, r, F, rfl, hx, hFc, hTS⟩ | ⟨x, r, C, st', rfl, hx, hCo, hCp, hCnd, hCs, hCa, hTS⟩
          · -- the input ends with the `FS` line: connection lost
            rw [hTS] at h1
            have hJ2 := hJ2_of T1 [] h1 (by simpa using hT1o)
            obtain ⟨g1, g2⟩ := hRdone [] hJ2 (hXnil (by simpa using hJ2))
            exact Or.inl ⟨⟨fun m hm => hT1rej m (h1.subset hm), g1, hT1rep.of_suffix h1, Stored.of_noConf (hT1c.of_suffix h1)⟩,
              ⟨RejOK.of_noSent g2, ProcOK.of_noProc (hT1p.of_suffix h1), RepOK.of_noSent g2, Stored.of_noConf g2.toNoConf⟩⟩
          · -- the byte after the `FS` line is not 'F' / ';': the receiver's rest is `finish`
            rw [hTS] at h1
            have hJ2 := hJ2_of (F ++ Ev.peeked x :: T1) (outBytes F) h1 (by rw [outBytes_append]; simp [outBytes, hT1o])
            have hXc : Still X := by
              rcases (hfetch (outBytes F) hJ2).2 with ⟨hXc, _⟩ | ⟨_, _, J3, st', _, rfl⟩
              · exact hXc
              · exfalso
                rcases send_out_head cR fuel nR st' (replay hR fev) gR.hh gR.mb J3 with ho | ⟨t, ho⟩
                · rw [ho] at hJ2S; simp at hJ2S
                · rw [ho] at hJ2S
                  have : x = 70 := (List.cons_prefix_cons.mp hJ2S).1
                  subst this
                  exact absurd hx (by decide)
            obtain ⟨g1, g2⟩ := hRdone (outBytes F) hJ2 hXc
            have hrej : RejOK hS hR (F ++ Ev.peeked x :: T1) := by
              intro m hm
              rcases List.mem_append.mp hm with hm | hm
              · exact (hFc.noSent m true hm).elim
              · rcases List.mem_cons.mp hm with hm | hm
                · cases hm
                · exact hT1rej m hm
            have hnp : NoProc (F ++ Ev.peeked x :: T1) := by
              refine noProc_append hFc.toNoProc ?_
              intro d hd
              rcases List.mem_cons.mp hd with hd | hd
              · cases hd
              · exact hT1p d hd
            have hrep : RepOK hS (F ++ Ev.peeked x :: T1) := by
              have : repOf (F ++ Ev.peeked x :: T1) = repOf T1 := by
                rw [repOf_append, repOf_cons, repOf_eq_nil hFc.toNoSent]; simp
              rw [RepOK, this]
              exact hT1rep
            have hnc : NoConf (F ++ Ev.peeked x :: T1) := by
              refine noConf_append hFc.toNoSent.toNoConf ?_
              intro m hm
              rcases List.mem_cons.mp hm with hm | hm
              · cases hm
              · exact hT1c m hm
            exact Or.inl ⟨⟨fun m hm => hrej m (h1.subset hm), g1, hrep.of_suffix h1, Stored.of_noConf (hnc.of_suffix h1)⟩,
              ⟨RejOK.of_noSent g2, ProcOK.of_noProc (hnp.of_suffix h1), RepOK.of_noSent g2, Stored.of_noConf g2.toNoConf⟩⟩
          · -- the turn completes
            rw [hTS] at h1
            have hTSo : outBytes (C ++ Ev.peeked x :: T1) =
                blockOut (blockOf' cS (offered hS)) ++ framesBytes cS.maxMsgLen (blockOf' cS (offered hS)) as := by
              rw [outBytes_append, hCo]; simp [outBytes, hT1o]
            have hTSp : NoProc (C ++ Ev.peeked x :: T1) := by
              refine noProc_append hCp ?_
              intro d hd
              rcases List.mem_cons.mp hd with hd | hd
              · cases hd
              · exact hT1p d hd
            have hTSrej : RejOK hS hR (C ++ Ev.peeked x :: T1) := by
              intro m hm
              rcases List.mem_append.mp hm with hm | hm
              · have := (hCs m true hm).1
                cases this
              · rcases List.mem_cons.mp hm with hm | hm
                · cases hm
                · exact hT1rej m hm
            have hTSrep : RepOK hS (C ++ Ev.peeked x :: T1) := by
              refine ⟨hCnd, ?_⟩
              intro m hm
              obtain ⟨b, hb⟩ := (mem_repOf _ m).mp hm
              rcases List.mem_append.mp hb with hb | hb
              · obtain ⟨_, p, g1, g2⟩ := hCs m b hb
                obtain ⟨msg, g3, g4, _, _⟩ := hzip p ansAccept g1
                exact List.mem_map.mpr ⟨msg, g3, g4.trans g2⟩
              · rcases List.mem_cons.mp hb with hb | hb
                · cases hb
                · exact hT1rep.2 m ((mem_repOf T1 m).mpr ⟨b, hb⟩)
            -- the receiver's trace contains its whole turn: it has written the byte the sender peeked
            have hRsplit : ∃ eR', eR = eR' ++ (fev ++ Ev.wrote (fsLine as ++ [13]) :: evs) ∧ eR' <:+ X := by
              rcases suffix_append_split h2 with hin | hx
              · exfalso
                have l1 := h3.length_le
                have l2 := (outBytes_suffix hin).length_le
                rw [hTRo] at l2
                simp only [List.length_append, List.length_cons, List.length_nil] at l1 l2
                omega
              · exact hx
            obtain ⟨eR', rfl, heR'⟩ := hRsplit
            have hJS' : x :: r <+: outBytes eR' := by
              have := h3
              rw [outBytes_append, hTRo] at this
              have h' : fsLine as ++ [13] ++ x :: r <+: fsLine as ++ [13] ++ outBytes eR' := by simpa using this
              exact (List.prefix_append_right_inj _).mp h'
            have tail : ∀ eS' TSp, eS' <:+ trOf (restOfSession cS fuel nS false st') (x :: r) (replay hS (C ++ Ev.peeked x :: T1)) →
                J2 <+: framesBytes cS.maxMsgLen (blockOf' cS (offered hS)) as ++ outBytes eS' →
                TSp <:+ C ++ Ev.peeked x :: T1 → eS = eS' ++ TSp →
                ∃ (eS'' eR'' TS TR TSp : List Ev) (nS' nR' : Nat) (stS' stR' : SState) (hS' hR' : HState) (Lacc : List OutMsg),
                  nS' < nS + 1 ∧ nR' < nR + 1 ∧
                  TSp <:+ TS ∧ eS = eS'' ++ TSp ∧
                  eR' ++ (fev ++ Ev.wrote (fsLine as ++ [13]) :: evs) = eR'' ++ TR ∧ HLe hS' hS ∧ HLe hR' hR ∧
                  hS'.outbox.Sublist hS.outbox ∧ hR'.outbox.Sublist hR.outbox ∧
                  Con (restOfSession cR fuel nR' true stR') hR' (restOfSession cS fuel nS' false stS') hS' eR'' eS'' ∧
                  NoSent TR ∧ NoProc TS ∧ RejOK hS hR TS ∧ RepOK hS TS ∧ (∀ m ∈ repOf TS, m ∉ hS'.outbox.map (·.mid)) ∧
                  procOf TR = Lacc.map (·.data) ∧ (Lacc.map (·.mid)).Nodup ∧
                  (∀ msg ∈ Lacc, msg ∈ hS.outbox ∧ hR.answerFor msg.mid = ansAccept ∧ msg.mid ∉ hS'.outbox.map (·.mid)) ∧
                  replay hS TS = hS' ∧ replay hR TR = hR' ∧
                  (∀ m, Ev.called (.setSent m false) ∈ TS → ∃ msg ∈ hS.outbox, msg.mid = m ∧ msg.data ∈ hR'.inbox) := by
              intro eS' TSp ha hb hc hd
              rcases (hfetch (outBytes eS') hb).2 with ⟨_, hXo⟩ | ⟨hfd, hall, J3, st'', hJ3, rfl⟩
              · exfalso
                have hx' := hJS'.trans (outBytes_suffix heR')
                rcases hXo with ho | ⟨t, ho⟩
                · rw [ho] at hx'; simp at hx'
                · rw [ho] at hx'
                  have : x = 42 := (List.cons_prefix_cons.mp hx').1
                  subst this
                  exact absurd hx (by decide)
              · refine ⟨eS', eR', C ++ Ev.peeked x :: T1, fev ++ Ev.wrote (fsLine as ++ [13]) :: evs, TSp, nS, nR, st', st'',
                  replay hS (C ++ Ev.peeked x :: T1), replay hR fev, Lacc,
                  Nat.lt_succ_self _, Nat.lt_succ_self _, hc, hd, rfl, replay_hle _ _, replay_hle _ _,
                  replay_outbox_sublist _ _, replay_outbox_sublist _ _, ⟨J3, x :: r, heR', ha, hJ3, hJS'⟩, hTRns, hTSp, hTSrej,
                  hTSrep, ?_, ?_, hLnd, ?_, rfl, replay_turnR hR fev evs _ hev, ?_⟩
                · intro m hm
                  obtain ⟨b, hb⟩ := (mem_repOf _ m).mp hm
                  exact not_mem_outbox_of_setSent hS _ m b hb
                · rw [hTRp, hfd, procOf_deliverEvs, hLd]
                · intro msg hm
                  obtain ⟨g1, g2, p, g3, g4⟩ := hL msg hm
                  refine ⟨g1, g2, ?_⟩
                  rw [← g4]
                  exact not_mem_outbox_of_setSent hS _ p.mid false (List.mem_append_left _ (hCa p g3))
                · -- what this turn reports sent was stored in this turn
                  intro m hm
                  rcases List.mem_append.mp hm with hm | hm
                  · obtain ⟨_, p, g1, g2⟩ := hCs m false hm
                    obtain ⟨msg, g3, g4, _, g5⟩ := hzip p ansAccept g1
                    refine ⟨msg, g3, g4.trans g2, ?_⟩
                    have hmem := mem_acceptedData (fun p => (lzDecode p.cdata).getD []) _ _ p g1
                    rw [g5] at hmem
                    have := allOK_stored _ hR hall msg.data hmem
                    rwa [← replay_deliverEvs, ← hfd] at this
                  · rcases List.mem_cons.mp hm with hm | hm
                    · cases hm
                    · exact (hT1c m hm).elim
            rcases suffix_append_split h1 with hin | ⟨eS', rfl, heS'⟩
            · exact Or.inr (tail [] eS List.nil_suffix (hJ2_of _ (outBytes []) hin (by simpa [outBytes] using hTSo))
                hin (List.nil_append _).symm)
            · exact Or.inr (tail eS' _ heS' (hJ2_of _ (outBytes eS') (List.suffix_refl _) (by rw [outBytes_append, hTSo]))
                (List.suffix_refl _) rfl)
        · -- no complete `FS` line has arrived
          have h13 : (13 : UInt8) ∉ JS := not_mem_of_prefix hshort (fsLine_no13 as hpl)
          obtain ⟨ho, hc⟩ := send_eof' cS fuel nS stS hS gS.hh hqS hsS hne JS h13 (by have := hshort.length_le; omega)
          have e3 : J2 = [] := by
            have := (h4.trans (outBytes_suffix h1)).length_le
            rw [ho] at this
            simp only [List.length_append] at this
            exact List.eq_nil_of_length_eq_zero (by omega)
          subst e3
          obtain ⟨g1, g2⟩ := hRdone [] List.nil_prefix (hXnil List.nil_prefix)
          have hst := hc.of_suffix h1
          exact Or.inl ⟨⟨RejOK.of_noSent hst.toNoSent, g1, RepOK.of_noSent hst.toNoSent, Stored.of_noConf hst.toNoSent.toNoConf⟩,
            ⟨RejOK.of_noSent g2, ProcOK.of_noProc hst.toNoProc, RepOK.of_noSent g2, Stored.of_noConf g2.toNoConf⟩⟩

/-- **The accounting of all turns, stream form.** `S` = the rest of a session that starts with a sender turn, `R` = the
rest of a session that starts with a receiver turn, any turn budgets, any session states, any handler states
satisfying `Good` with distinct MIDs in their outboxes. For every consistent pair of partial traces and BOTH
directions: every `SetSent(m, true)` is the MID of a queued message the peer's policy rejects, and what a handler
was handed are, in order, the bytes of DISTINCT queued messages of the peer that its policy accepts. -/
theorem turns_acct (fuel : Nat) : ∀ (N nS nR : Nat), nS + nR ≤ N →
    ∀ (cS cR : Cfg) (stS stR : SState) (hS hR : HState) (eS eR : List Ev),
      Good cS fuel hS → Good cR fuel hR → (hS.outbox.map (·.mid)).Nodup → (hR.outbox.map (·.mid)).Nodup →
      Con (restOfSession cS fuel nS true stS) hS (restOfSession cR fuel nR false stR) hR eS eR →
      Acct hS hR eS eR ∧ Acct hR hS eR eS := by
  intro N
  induction N with
  | zero =>
    intro nS nR hN cS cR stS stR hS hR eS eR _ gR _ _ hcon
    have : nS = 0 := by omega
    subst this
    exact acct_of_mute_left (fun _ => rfl) gR.hh gR.mb gR.f5 hcon
  | succ N ih =>
    intro nS nR hN cS cR stS stR hS hR eS eR gS gR ndS ndR hcon
    rcases turn_acct fuel nS nR cS cR stS stR hS hR eS eR gS gR ndS hcon with hdone |
      ⟨eS', eR', TS, TR, TSp, nS', nR', stS', stR', hS', hR', Lacc, l1, l2, hTSp, rfl, rfl, hleS, hleR, hsubS, hsubR, hcon',
        hTRns, hTSnp, hTSrej, hTSrep, hTSout, hTRp, hLnd, hL, hrepS, hrepR, hstoT⟩
    · exact hdone
    · obtain ⟨i1, i2⟩ := ih nR' nS' (by omega) cR cS stR' stS' hR' hS' eR' eS' (gR.of_hle hleR) (gS.of_hle hleS)
        ((hsubR.map _).nodup ndR) ((hsubS.map _).nodup ndS) hcon'
      have hTSpp : repOf TSp <+: repOf TS := repOf_prefix_of_suffix hTSp
      refine ⟨⟨?_, ?_, ?_, ?_⟩, ⟨?_, ?_, ?_, ?_⟩⟩
      · intro m hm
        rcases List.mem_append.mp hm with hm' | hm'
        · obtain ⟨msg, g1, g2, g3⟩ := i2.1 m hm'
          exact ⟨msg, hleS.sub msg g1, g2, by rw [← answerFor_congr hleR.pol]; exact g3⟩
        · exact hTSrej m (hTSp.subset hm')
      · obtain ⟨L', p1, p2, p3⟩ := i2.2.1
        refine ⟨Lacc ++ L', by rw [procOf_append, hTRp, p1, List.map_append], ?_, ?_⟩
        · intro msg hm
          rcases List.mem_append.mp hm with hm | hm
          · exact ⟨(hL msg hm).1, (hL msg hm).2.1⟩
          · exact ⟨hleS.sub msg (p2 msg hm).1, by rw [← answerFor_congr hleR.pol]; exact (p2 msg hm).2⟩
        · rw [List.map_append, List.nodup_append]
          refine ⟨hLnd, p3, ?_⟩
          intro a ha b hb e
          obtain ⟨msg, hmsg, rfl⟩ := List.mem_map.mp ha
          obtain ⟨msg', hmsg', rfl⟩ := List.mem_map.mp hb
          exact (hL msg hmsg).2.2 (by rw [e]; exact List.mem_map_of_mem (p2 msg' hmsg').1)
      · -- the `SetSent` calls: those of this turn, then those of the later turns
        obtain ⟨q1, q2⟩ := i2.2.2.1
        rw [RepOK, repOf_append]
        constructor
        · rw [List.nodup_append]
          refine ⟨hTSpp.sublist.nodup hTSrep.1, q1, ?_⟩
          intro a ha b hb e
          exact hTSout a (hTSpp.subset ha) (by rw [e]; exact q2 b hb)
        · intro m hm
          rcases List.mem_append.mp hm with hm | hm
          · exact hTSrep.2 m (hTSpp.subset hm)
          · exact (hsubS.map _).subset (q2 m hm)
      · -- what is reported sent was stored: in a later turn, or in this one
        intro m hm
        rcases List.mem_append.mp hm with hm' | hm'
        · obtain ⟨msg, g1, g2, g3⟩ := i2.2.2.2 m hm'
          refine ⟨msg, hleS.sub msg g1, g2, ?_⟩
          rw [replay_append, hrepR]
          exact g3
        · obtain ⟨msg, g1, g2, g3⟩ := hstoT m (hTSp.subset hm')
          refine ⟨msg, g1, g2, replay_inbox_mono hR eR' TR _ ?_⟩
          rw [hrepR]
          exact g3
      · intro m hm
        rcases List.mem_append.mp hm with hm' | hm'
        · obtain ⟨msg, g1, g2, g3⟩ := i1.1 m hm'
          exact ⟨msg, hleR.sub msg g1, g2, by rw [← answerFor_congr hleS.pol]; exact g3⟩
        · exact (hTRns m true hm').elim
      · obtain ⟨L', p1, p2, p3⟩ := i1.2.1
        refine ⟨L', ?_, fun msg hm => ⟨hleR.sub msg (p2 msg hm).1,
          by rw [← answerFor_congr hleS.pol]; exact (p2 msg hm).2⟩, p3⟩
        rw [procOf_append, procOf_eq_nil (hTSnp.of_suffix hTSp), List.nil_append, p1]
      · obtain ⟨q1, q2⟩ := i1.2.2.1
        rw [RepOK, repOf_append, repOf_eq_nil hTRns, List.nil_append]
        exact ⟨q1, fun m hm => (hsubR.map _).subset (q2 m hm)⟩
      · intro m hm
        rcases List.mem_append.mp hm with hm' | hm'
        · obtain ⟨msg, g1, g2, g3⟩ := i1.2.2.2 m hm'
          refine ⟨msg, hleR.sub msg g1, g2, ?_⟩
          rw [replay_inbox_skip hS eS' TSp TS (hTSnp.of_suffix hTSp) hTSnp, replay_append, hrepS]
          exact g3
        · exact (hTRns m false hm').elim

end Wl2k.B2F
