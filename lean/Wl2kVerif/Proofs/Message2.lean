import Wl2kVerif.Proofs.Message
namespace Wl2k.Msg
open Wl2k Wl2k.Textproto

/-! ### collecting the lines of distinct keys back into a map -/

def groupLines (E : Header) : List (Bytes × Bytes) := E.flatMap (fun e => e.2.map (fun v => (e.1, v)))

theorem addRaw_not_mem : ∀ (h : Header) (k v : Bytes), k ∉ keys h → addRaw h k v = h ++ [(k, [v])]
  | [], _, _, _ => rfl
  | (k', vs) :: t, k, v, hk => by
    have h1 : k' ≠ k := fun e => hk (by simp [keys, e])
    have h2 : k ∉ keys t := fun e => hk (by simp only [keys, List.map_cons, List.mem_cons]; exact Or.inr e)
    simp [addRaw, h1, addRaw_not_mem t k v h2]

theorem addRaw_last : ∀ (h : Header) (k : Bytes) (acc : List Bytes) (v : Bytes), k ∉ keys h →
    addRaw (h ++ [(k, acc)]) k v = h ++ [(k, acc ++ [v])]
  | [], _, _, _, _ => by simp [addRaw]
  | (k', vs) :: t, k, acc, v, hk => by
    have h1 : k' ≠ k := fun e => hk (by simp [keys, e])
    have h2 : k ∉ keys t := fun e => hk (by simp only [keys, List.map_cons, List.mem_cons]; exact Or.inr e)
    simp [addRaw, h1, addRaw_last t k acc v h2]

theorem fold_group (g : Bytes → Bytes) (h0 : Header) (k : Bytes) (hk : k ∉ keys h0) :
    ∀ (vs acc : List Bytes), vs.foldl (fun h v => addRaw h k (g v)) (h0 ++ [(k, acc)]) = h0 ++ [(k, acc ++ vs.map g)]
  | [], acc => by simp
  | v :: vs, acc => by
    simp only [List.foldl_cons, addRaw_last h0 k acc (g v) hk]
    rw [fold_group g h0 k hk vs (acc ++ [g v])]
    simp

theorem keys_append (a b : Header) : keys (a ++ b) = keys a ++ keys b := by simp [keys]

theorem fold_groups : ∀ (E h0 : Header), (keys E).Nodup → (∀ k ∈ keys E, k ∉ keys h0) → (∀ e ∈ E, e.2 ≠ []) →
    (groupLines E).foldl (fun h p => addRaw h p.1 (trimString p.2)) h0 = h0 ++ E.map trimEntry
  | [], h0, _, _, _ => by simp [groupLines]
  | e :: E, h0, hnd, hdis, hne => by
    have hnd' : e.1 ∉ keys E ∧ (keys E).Nodup := by simpa [keys] using hnd
    have he0 : e.1 ∉ keys h0 := hdis e.1 (by simp [keys])
    obtain ⟨v, vs, hv⟩ : ∃ v vs, e.2 = v :: vs := by
      cases h2 : e.2 with
      | nil => exact absurd h2 (hne e (by simp))
      | cons v vs => exact ⟨v, vs, rfl⟩
    have hgl : groupLines (e :: E) = (v :: vs).map (fun v => (e.1, v)) ++ groupLines E := by
      simp [groupLines, hv]
    rw [hgl, List.foldl_append, List.foldl_map]
    simp only [List.foldl_cons]
    rw [addRaw_not_mem h0 e.1 _ he0, fold_group trimString h0 e.1 he0 vs [trimString v]]
    have hte : h0 ++ [(e.1, [trimString v] ++ vs.map trimString)] = h0 ++ [trimEntry e] := by
      simp [trimEntry, hv]
    rw [hte, fold_groups E (h0 ++ [trimEntry e]) hnd'.2 ?_ (fun x hx => hne x (by simp [hx]))]
    · simp
    · intro k hk
      rw [keys_append]
      simp only [List.mem_append, not_or]
      refine ⟨hdis k (by simp only [keys, List.map_cons, List.mem_cons]; exact Or.inr hk), ?_⟩
      simp only [keys, trimEntry, List.map_cons, List.map_nil, List.mem_singleton]
      intro hke; exact hnd'.1 (hke ▸ hk)

theorem flatMap_groupLines (E : Header) : (groupLines E).flatMap lineKV = E.flatMap entryLines := by
  simp only [groupLines, List.flatMap_assoc, List.flatMap_map, lineKV]
  rfl

end Wl2k.Msg
