import Wl2kVerif.Lzhuf.Reader
/-
Helper lemmas for the adaptive-Huffman layer (`Lzhuf/Huff.lean`): array plumbing, the invariant
`HuffWF`, its Boolean checker, and `HuffWF Huff.init`.
-/
namespace Wl2k.Lzhuf

/-! ### 1. Array plumbing -/

theorem NCHAR_eq : NCHAR = 314 := rfl
theorem T_eq : T = 627 := rfl
theorem R_eq : R = 626 := rfl
theorem MAXFREQ_eq : MAXFREQ = 32768 := rfl

theorem rd_wr (a : Array Nat) (i v j : Nat) :
    rd (wr a i v) j = if i = j ∧ i < a.size then v else rd a j := by
  unfold rd wr
  by_cases hij : i = j
  · subst hij
    by_cases hi : i < a.size
    · simp [Array.getD, hi]
    · simp [Array.getD, hi]
  · simp [Array.getD, hij]
    split <;> simp_all

@[simp] theorem size_wr (a : Array Nat) (i v : Nat) : (wr a i v).size = a.size := by
  simp [wr]

theorem rd_wr_same (a : Array Nat) (i v : Nat) (h : i < a.size) : rd (wr a i v) i = v := by
  simp [rd_wr, h]

theorem rd_wr_ne (a : Array Nat) (i v j : Nat) (h : i ≠ j) : rd (wr a i v) j = rd a j := by
  simp [rd_wr, h]

theorem rd_oob (a : Array Nat) (i : Nat) (h : a.size ≤ i) : rd a i = 0 := by
  simp [rd, Array.getD, Nat.not_lt.mpr h]

@[simp] theorem Huff.chk_freq (h : Huff) (c : Bool) : (h.chk c).freq = h.freq := by
  unfold Huff.chk; split <;> rfl
@[simp] theorem Huff.chk_prnt (h : Huff) (c : Bool) : (h.chk c).prnt = h.prnt := by
  unfold Huff.chk; split <;> rfl
@[simp] theorem Huff.chk_son (h : Huff) (c : Bool) : (h.chk c).son = h.son := by
  unfold Huff.chk; split <;> rfl
@[simp] theorem Huff.chk_spin (h : Huff) (c : Bool) : (h.chk c).spin = h.spin := by
  unfold Huff.chk; split <;> rfl
theorem Huff.chk_oob (h : Huff) (c : Bool) : (h.chk c).oob = (h.oob || !c) := by
  unfold Huff.chk; cases c <;> simp
@[simp] theorem Huff.chk_true (h : Huff) : h.chk true = h := rfl
theorem Huff.chk_of (h : Huff) (c : Bool) (hc : c = true) : h.chk c = h := by subst hc; rfl
theorem Huff.chk_oob_false (h : Huff) (c : Bool) (ho : (h.chk c).oob = false) : h.oob = false := by
  rw [Huff.chk_oob] at ho; cases hh : h.oob <;> simp_all


/-! ### 2. The invariant -/

/-- The structural part of the invariant: sizes, `son`/`prnt` mutually inverse, siblings adjacent at an
even index, children strictly below their parent, no fault flag set. Does not mention `freq`. -/
structure HuffS (h : Huff) : Prop where
  sz_freq : h.freq.size = T + 1
  sz_prnt : h.prnt.size = T + NCHAR
  sz_son : h.son.size = T
  /-- internal node `i`: the two children `son i`, `son i + 1` are an even-aligned pair below `i` -/
  son_int : ∀ i, i < T → rd h.son i < T →
    rd h.son i % 2 = 0 ∧ rd h.son i + 1 < i ∧ rd h.prnt (rd h.son i) = i ∧ rd h.prnt (rd h.son i + 1) = i
  /-- leaf node `i` -/
  son_leaf : ∀ i, i < T → T ≤ rd h.son i → rd h.son i < T + NCHAR ∧ rd h.prnt (rd h.son i) = i
  /-- every non-root node is a child of its parent -/
  prnt_lt : ∀ k, k < R → rd h.prnt k < T ∧ rd h.son (rd h.prnt k) = k - k % 2
  /-- every symbol has its leaf -/
  prnt_leaf : ∀ c, c < NCHAR → rd h.prnt (c + T) < T ∧ rd h.son (rd h.prnt (c + T)) = c + T
  prnt_root : rd h.prnt R = 0
  oob : h.oob = false
  spin : h.spin = false

/-- The full invariant of the adaptive Huffman state. -/
structure HuffWF (h : Huff) : Prop extends HuffS h where
  sorted : ∀ i, i < T → rd h.freq i ≤ rd h.freq (i + 1)
  sentinel : rd h.freq T = 0xffff
  pos : ∀ i, i < T → 1 ≤ rd h.freq i
  sum : ∀ i, i < T → rd h.son i < T → rd h.freq i = rd h.freq (rd h.son i) + rd h.freq (rd h.son i + 1)
  root_le : rd h.freq R ≤ MAXFREQ

def allLt (n : Nat) (p : Nat → Bool) : Bool := (List.range n).all p

theorem allLt_iff (n : Nat) (p : Nat → Bool) : allLt n p = true ↔ ∀ i, i < n → p i = true := by
  simp [allLt, List.all_eq_true]

/-- Executable form of `HuffWF` (used for `huffWF_init` and for validating the invariant by evaluation). -/
def huffWFb (h : Huff) : Bool :=
  h.freq.size == T + 1 && h.prnt.size == T + NCHAR && h.son.size == T &&
  allLt T (fun i => if rd h.son i < T then
      rd h.son i % 2 == 0 && decide (rd h.son i + 1 < i) && rd h.prnt (rd h.son i) == i && rd h.prnt (rd h.son i + 1) == i
    else decide (rd h.son i < T + NCHAR) && rd h.prnt (rd h.son i) == i) &&
  allLt R (fun k => decide (rd h.prnt k < T) && rd h.son (rd h.prnt k) == k - k % 2) &&
  allLt NCHAR (fun c => decide (rd h.prnt (c + T) < T) && rd h.son (rd h.prnt (c + T)) == c + T) &&
  rd h.prnt R == 0 &&
  allLt T (fun i => decide (rd h.freq i ≤ rd h.freq (i + 1))) &&
  rd h.freq T == 0xffff &&
  allLt T (fun i => decide (1 ≤ rd h.freq i)) &&
  allLt T (fun i => if rd h.son i < T then rd h.freq i == rd h.freq (rd h.son i) + rd h.freq (rd h.son i + 1) else true) &&
  decide (rd h.freq R ≤ MAXFREQ) && !h.oob && !h.spin

theorem huffWFb_sound (h : Huff) (hb : huffWFb h = true) : HuffWF h := by
  simp only [huffWFb, Bool.and_eq_true, allLt_iff, beq_iff_eq, decide_eq_true_eq, Bool.not_eq_true'] at hb
  obtain ⟨⟨⟨⟨⟨⟨⟨⟨⟨⟨⟨⟨⟨h1, h2⟩, h3⟩, h4⟩, h5⟩, h6⟩, h7⟩, h8⟩, h9⟩, h10⟩, h11⟩, h12⟩, h13⟩, h14⟩ := hb
  refine { sz_freq := h1, sz_prnt := h2, sz_son := h3, prnt_root := h7, oob := h13, spin := h14,
           sentinel := h9, root_le := h12, son_int := ?_, son_leaf := ?_, prnt_lt := ?_, prnt_leaf := ?_,
           sorted := ?_, pos := ?_, sum := ?_ }
  · intro i hi hs
    have := h4 i hi
    simp only [hs, if_true, Bool.and_eq_true, beq_iff_eq, decide_eq_true_eq] at this
    exact ⟨this.1.1.1, this.1.1.2, this.1.2, this.2⟩
  · intro i hi hs
    have := h4 i hi
    simp only [Nat.not_lt.mpr hs, if_false, Bool.and_eq_true, beq_iff_eq, decide_eq_true_eq] at this
    exact this
  · intro k hk
    have := h5 k hk
    simpa only [Bool.and_eq_true, beq_iff_eq, decide_eq_true_eq] using this
  · intro c hc
    have := h6 c hc
    simpa only [Bool.and_eq_true, beq_iff_eq, decide_eq_true_eq] using this
  · intro i hi; simpa using h8 i hi
  · intro i hi; simpa using h10 i hi
  · intro i hi hs
    have := h11 i hi
    simpa only [hs, if_true, beq_iff_eq] using this

/-! ### `Huff.init` in closed form

Kernel evaluation of `Huff.init` is far too slow (chains of ~1000 lazy array writes: minutes per entry),
so the three arrays are characterised by loop invariants of `initLeaves`/`initInternal`; the frequency
column is the step function `initFreqF`, whose recurrence `F (NCHAR+n) = F (2n) + F (2n+1)` is checked
by evaluation. -/

def initFreqF (i : Nat) : Nat :=
  if i < 314 then 1 else if i < 471 then 2 else if i < 549 then 4 else if i < 550 then 6
  else if i < 588 then 8 else if i < 589 then 10 else if i < 608 then 16 else if i < 609 then 26
  else if i < 618 then 32 else if i < 619 then 58 else if i < 623 then 64 else if i < 624 then 122
  else if i < 625 then 128 else if i < 626 then 186 else if i < 627 then 314 else 0xffff

set_option maxRecDepth 4000 in
theorem initFreqF_step : ∀ n, n < 313 → initFreqF (2 * n) + initFreqF (2 * n + 1) = initFreqF (314 + n) := by
  have : allLt 313 (fun n => initFreqF (2 * n) + initFreqF (2 * n + 1) == initFreqF (314 + n)) = true := by
    decide +kernel
  intro n hn; simpa using (allLt_iff _ _).1 this n hn

set_option maxRecDepth 4000 in
theorem initFreqF_sorted : ∀ i, i < 627 → initFreqF i ≤ initFreqF (i + 1) := by
  have : allLt 627 (fun i => decide (initFreqF i ≤ initFreqF (i + 1))) = true := by decide +kernel
  intro n hn; simpa using (allLt_iff _ _).1 this n hn

set_option maxRecDepth 4000 in
theorem initFreqF_pos : ∀ i, i < 627 → 1 ≤ initFreqF i := by
  have : allLt 627 (fun i => decide (1 ≤ initFreqF i)) = true := by decide +kernel
  intro n hn; simpa using (allLt_iff _ _).1 this n hn

theorem initFreqF_leaf (i : Nat) (h : i < 314) : initFreqF i = 1 := by simp [initFreqF, h]

theorem rd_replicate (n i : Nat) : rd (Array.replicate n 0) i = 0 := by
  unfold rd Array.getD; split <;> simp

/-- what `initLeaves` leaves behind -/
structure InitLeavesSpec (h h' : Huff) (n : Nat) : Prop where
  sz_freq : h'.freq.size = h.freq.size
  sz_prnt : h'.prnt.size = h.prnt.size
  sz_son : h'.son.size = h.son.size
  oob : h'.oob = h.oob
  spin : h'.spin = h.spin
  freq : ∀ j, rd h'.freq j = if j < n then 1 else rd h.freq j
  son : ∀ j, rd h'.son j = if j < n then j + T else rd h.son j
  prnt : ∀ k, rd h'.prnt k = if T ≤ k ∧ k < n + T then k - T else rd h.prnt k

theorem initLeaves_spec (h : Huff) (n : Nat) (h1 : n ≤ h.freq.size) (h2 : n ≤ h.son.size)
    (h3 : n + T ≤ h.prnt.size) : InitLeavesSpec h (initLeaves h n) n := by
  induction n with
  | zero => exact ⟨rfl, rfl, rfl, rfl, rfl, by simp [initLeaves], by simp [initLeaves], by
      intro k; simp [initLeaves]; omega⟩
  | succ n ih =>
    have ih := ih (by omega) (by omega) (by omega)
    simp only [initLeaves]
    refine ⟨by simp [ih.sz_freq], by simp [ih.sz_prnt], by simp [ih.sz_son], ih.oob, ih.spin, ?_, ?_, ?_⟩
    · intro j
      simp only [rd_wr, ih.freq, ih.sz_freq]
      by_cases hj : n = j
      · subst hj; simp; omega
      · simp only [hj, false_and, if_false]; split <;> split <;> first | rfl | omega
    · intro j
      simp only [rd_wr, ih.son, ih.sz_son]
      by_cases hj : n = j
      · subst hj; simp; omega
      · simp only [hj, false_and, if_false]; split <;> split <;> first | rfl | omega
    · intro k
      simp only [rd_wr, ih.prnt, ih.sz_prnt]
      by_cases hk : n + T = k
      · subst hk; simp; omega
      · simp only [hk, false_and, if_false]
        by_cases c1 : T ≤ k ∧ k < n + T
        · rw [if_pos c1, if_pos (by omega)]
        · rw [if_neg c1, if_neg (by omega)]

/-- what `initInternal` leaves behind when started after `initLeaves` -/
structure InitInternalSpec (h h' : Huff) (n : Nat) : Prop where
  sz_freq : h'.freq.size = h.freq.size
  sz_prnt : h'.prnt.size = h.prnt.size
  sz_son : h'.son.size = h.son.size
  oob : h'.oob = h.oob
  spin : h'.spin = h.spin
  freq : ∀ j, rd h'.freq j = if j < 314 + n then initFreqF j else rd h.freq j
  son : ∀ j, rd h'.son j = if 314 ≤ j ∧ j < 314 + n then 2 * (j - 314) else rd h.son j
  prnt : ∀ k, rd h'.prnt k = if k < 2 * n then 314 + k / 2 else rd h.prnt k

theorem initInternal_spec (h : Huff) (n : Nat) (hn : n ≤ 313) (h1 : h.freq.size = 628) (h2 : h.son.size = 627)
    (h3 : h.prnt.size = 941) (hf : ∀ j, j < 314 → rd h.freq j = 1) :
    InitInternalSpec h (initInternal h n) n := by
  induction n with
  | zero =>
    refine ⟨rfl, rfl, rfl, rfl, rfl, ?_, ?_, ?_⟩
    · intro j; simp only [initInternal, Nat.add_zero]
      split
      · rename_i hj; rw [hf j hj, initFreqF_leaf j hj]
      · rfl
    · intro j; rw [if_neg (by omega)]; rfl
    · intro j; rw [if_neg (by omega)]; rfl
  | succ n ih =>
    have ih := ih (by omega)
    simp only [initInternal, NCHAR_eq]
    refine ⟨by simp [ih.sz_freq], by simp [ih.sz_prnt], by simp [ih.sz_son], ih.oob, ih.spin, ?_, ?_, ?_⟩
    · intro j
      have e1 := ih.freq (2 * n); have e2 := ih.freq (2 * n + 1)
      rw [if_pos (by omega)] at e1 e2
      have st := initFreqF_step n (by omega)
      simp only [rd_wr, ih.freq j, ih.sz_freq, h1, e1, e2]
      by_cases hj : 314 + n = j
      · subst hj; rw [if_pos (by omega), if_pos (by omega)]; exact st
      · rw [if_neg (by omega)]
        by_cases c1 : j < 314 + n
        · rw [if_pos c1, if_pos (by omega)]
        · rw [if_neg c1, if_neg (by omega)]
    · intro j
      simp only [rd_wr, ih.son j, ih.sz_son, h2]
      by_cases hj : 314 + n = j
      · subst hj; rw [if_pos (by omega), if_pos (by omega)]; omega
      · rw [if_neg (by omega)]
        by_cases c1 : 314 ≤ j ∧ j < 314 + n
        · rw [if_pos c1, if_pos (by omega)]
        · rw [if_neg c1, if_neg (by omega)]
    · intro k
      simp only [rd_wr, ih.prnt k, ih.sz_prnt, h3, size_wr]
      by_cases hk1 : 2 * n + 1 = k
      · subst hk1; rw [if_pos (by omega), if_pos (by omega)]; omega
      · rw [if_neg (by omega)]
        by_cases hk0 : 2 * n = k
        · subst hk0; rw [if_pos (by omega), if_pos (by omega)]; omega
        · rw [if_neg (by omega)]
          by_cases c1 : k < 2 * n
          · rw [if_pos c1, if_pos (by omega)]
          · rw [if_neg c1, if_neg (by omega)]

structure InitSpec (h : Huff) : Prop where
  sz_freq : h.freq.size = 628
  sz_prnt : h.prnt.size = 941
  sz_son : h.son.size = 627
  oob : h.oob = false
  spin : h.spin = false
  freq : ∀ j, j ≤ 627 → rd h.freq j = initFreqF j
  son : ∀ j, rd h.son j = if j < 314 then j + 627 else if j < 627 then 2 * (j - 314) else 0
  prnt : ∀ k, rd h.prnt k = if k < 626 then 314 + k / 2 else if 627 ≤ k ∧ k < 941 then k - 627 else 0

theorem init_spec : InitSpec Huff.init := by
  let h0 : Huff := { freq := Array.replicate (T + 1) 0, prnt := Array.replicate (T + NCHAR) 0, son := Array.replicate T 0 }
  have l : InitLeavesSpec h0 (initLeaves h0 NCHAR) 314 :=
    initLeaves_spec h0 NCHAR (by simp [h0, T_eq, NCHAR_eq]) (by simp [h0, T_eq, NCHAR_eq]) (by simp [h0, T_eq, NCHAR_eq])
  have z1 : h0.freq.size = 628 := by simp [h0, T_eq]
  have z2 : h0.son.size = 627 := by simp [h0, T_eq]
  have z3 : h0.prnt.size = 941 := by simp [h0, T_eq, NCHAR_eq]
  have m := initInternal_spec (initLeaves h0 NCHAR) 313 (by omega) (by rw [l.sz_freq, z1]) (by rw [l.sz_son, z2])
    (by rw [l.sz_prnt, z3]) (by intro j hj; rw [l.freq, if_pos hj])
  have e : Huff.init = { initInternal (initLeaves h0 NCHAR) 313 with
      freq := wr (initInternal (initLeaves h0 NCHAR) 313).freq T 0xffff,
      prnt := wr (initInternal (initLeaves h0 NCHAR) 313).prnt R 0 } := rfl
  rw [e]
  have r0 : ∀ j, rd h0.son j = 0 := fun j => rd_replicate _ _
  have r1 : ∀ j, rd h0.prnt j = 0 := fun j => rd_replicate _ _
  generalize initLeaves h0 NCHAR = h1 at *
  generalize initInternal h1 313 = h2 at *
  refine ⟨by simp [m.sz_freq, l.sz_freq, z1], by simp [m.sz_prnt, l.sz_prnt, z3], by simp [m.sz_son, l.sz_son, z2],
    by simp [m.oob, l.oob, h0], by simp [m.spin, l.spin, h0], ?_, ?_, ?_⟩
  · intro j hj
    simp only [rd_wr, m.freq j, l.freq j, m.sz_freq, l.sz_freq, z1, T_eq]
    by_cases c : 627 = j
    · subst c; simp [initFreqF]
    · rw [if_neg (by omega), if_pos (by omega)]
  · intro j
    simp only [m.son j, l.son j, T_eq, r0]
    by_cases c1 : j < 314
    · rw [if_neg (by omega), if_pos c1, if_pos c1]
    · by_cases c2 : j < 627
      · rw [if_pos (by omega), if_neg c1, if_pos c2]
      · rw [if_neg (by omega), if_neg c1, if_neg c1, if_neg c2]
  · intro k
    simp only [rd_wr, m.prnt k, l.prnt k, m.sz_prnt, l.sz_prnt, z3, T_eq, R_eq, r1]
    by_cases c : 626 = k
    · subst c; simp
    · rw [if_neg (by omega)]

theorem huffWF_init : HuffWF Huff.init := by
  have s := init_spec
  have sonv := s.son; have prntv := s.prnt
  refine { sz_freq := s.sz_freq, sz_prnt := by rw [s.sz_prnt, T_eq, NCHAR_eq], sz_son := s.sz_son, prnt_root := ?_,
           oob := s.oob, spin := s.spin,
           sentinel := ?_, root_le := ?_, son_int := ?_, son_leaf := ?_, prnt_lt := ?_, prnt_leaf := ?_,
           sorted := ?_, pos := ?_, sum := ?_ }
  · intro i hi hs
    simp only [T_eq] at hi hs
    have e := sonv i
    by_cases c1 : i < 314
    · rw [if_pos c1] at e; omega
    · rw [if_neg c1, if_pos hi] at e
      rw [e, prntv, prntv, if_pos (by omega), if_pos (by omega)]
      omega
  · intro i hi hs
    simp only [T_eq, NCHAR_eq] at hi hs ⊢
    have e := sonv i
    by_cases c1 : i < 314
    · rw [if_pos c1] at e
      rw [e, prntv, if_neg (by omega), if_pos (by omega)]
      omega
    · rw [if_neg c1, if_pos hi] at e; omega
  · intro k hk
    simp only [R_eq, T_eq] at hk ⊢
    rw [prntv, if_pos hk, sonv, if_neg (by omega), if_pos (by omega)]
    omega
  · intro c hc
    simp only [NCHAR_eq, T_eq] at hc ⊢
    rw [prntv, if_neg (by omega), if_pos (by omega), sonv, if_pos (by omega)]
    omega
  · rw [R_eq, prntv]; simp
  · intro i hi
    simp only [T_eq] at hi
    rw [s.freq i (by omega), s.freq (i + 1) (by omega)]
    exact initFreqF_sorted i hi
  · rw [T_eq, s.freq 627 (by omega)]; simp [initFreqF]
  · intro i hi
    simp only [T_eq] at hi
    rw [s.freq i (by omega)]
    exact initFreqF_pos i hi
  · intro i hi hs
    simp only [T_eq] at hi hs
    have e := sonv i
    by_cases c1 : i < 314
    · rw [if_pos c1] at e; omega
    · rw [if_neg c1, if_pos hi] at e
      rw [e, s.freq i (by omega), s.freq _ (by omega), s.freq _ (by omega)]
      have := initFreqF_step (i - 314) (by omega)
      rw [show 314 + (i - 314) = i by omega] at this
      exact this.symm
  · rw [R_eq, s.freq 626 (by omega)]; simp [initFreqF, MAXFREQ_eq]

end Wl2k.Lzhuf
