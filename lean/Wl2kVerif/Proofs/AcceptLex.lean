import Wl2kVerif.Proofs.AcceptBase
import Wl2kVerif.Proofs.EmitAccept
/-
Lexical level of the acceptance proof: a grammar text line is read back by `nextLine` as it is; the
grammar's proposal line is parsed by `parseProposal` to the fields the grammar sees.
-/
namespace Wl2k.B2F
open Wl2k Wl2k.Fmt Wl2k.Str Wl2k.Strconv Wl2k.B2F.InGrammar Wl2k.B2F.Grammar

variable {H : Type} (hstep : H → Call → H × Reply)

theorem isSolid_solid : ∀ b : UInt8, isSolid b = true → Solid b :=
  byte_table (P := fun b => isSolid b = true → Solid b) (by decide +kernel)

theorem clean_single : ∀ b : UInt8, isSolid b = true → cleanString ([b] ++ [13]) = [b] :=
  byte_table (P := fun b => isSolid b = true → cleanString ([b] ++ [13]) = [b]) (by decide +kernel)

theorem isText_parts {t : Bytes} (h : isText t = true) :
    (13 : UInt8) ∉ t ∧ ∃ a z, t.head? = some a ∧ t.getLast? = some z ∧ isSolid a = true ∧ isSolid z = true := by
  unfold isText at h
  simp only [Bool.and_eq_true, Bool.not_eq_true', List.contains_eq_mem, decide_eq_false_iff_not] at h
  obtain ⟨h1, h2⟩ := h
  refine ⟨h1, ?_⟩
  split at h2
  · rename_i a z ha hz
    simp only [Bool.and_eq_true] at h2
    exact ⟨a, z, ha, hz, h2.1, h2.2⟩
  · cases h2

theorem clean_of_isText {t : Bytes} (h : isText t = true) : cleanString (t ++ [13]) = t := by
  obtain ⟨_, a, z, ha, hz, sa, sz⟩ := isText_parts h
  cases t with
  | nil => cases ha
  | cons b r =>
    simp only [List.head?_cons, Option.some.injEq] at ha
    subst ha
    cases hr : r with
    | nil =>
      subst hr
      exact clean_single b sa
    | cons x xs =>
      have hne : r ≠ [] := by rw [hr]; simp
      obtain ⟨m, l, hml⟩ := exists_snoc r hne
      rw [← hr, hml]
      have hz' : (b :: (m ++ [l])).getLast? = some l := by
        rw [show b :: (m ++ [l]) = (b :: m) ++ [l] from rfl]; exact List.getLast?_concat
      rw [hml, hz'] at hz
      cases hz
      exact cleanString_line b m z (isSolid_solid b sa) (isSolid_solid z sz)

theorem text_ne_nil {t : Bytes} (h : isText t = true) : t ≠ [] := by
  obtain ⟨_, a, _, ha, _⟩ := isText_parts h
  intro e; rw [e] at ha; cases ha

/-- `nextLine` on a grammar text line that does not start with `*` -/
theorem run_nextLine_text (t rest : Bytes) (fuel : Nat) (h : H) (tr : List Ev) (ht : isText t = true)
    (hstar : t.head? ≠ some 42) (hf : t.length < fuel) :
    Proc.run hstep (nextLine fuel) (t ++ 13 :: rest) h tr = (.done (.ok t), rest, h, tr) := by
  have hc := clean_of_isText ht
  have herr : errLine t = none := by
    unfold errLine
    simp [hstar]
  have := run_nextLine_ok hstep t rest fuel h tr (isText_parts ht).1 hf (by rw [hc]; exact herr)
  rw [hc] at this
  exact this

/-! ### splitting -/

theorem splitOn_head_cons (sep b : UInt8) (t h : Bytes) (r : List Bytes) (hs : splitOn sep (b :: t) = (b :: h) :: r)
    (hb : b ≠ sep) : splitOn sep t = h :: r := by
  simp only [splitOn, hb, if_false] at hs
  split at hs
  · rename_i h' r' he
    simp only [List.cons.injEq, true_and] at hs
    rw [he, hs.1, hs.2]
  · rename_i he
    exact absurd he (splitOn_ne_nil sep t)

theorem splitOn_first (sep : UInt8) : ∀ (f s : Bytes) (r : List Bytes), sep ∉ f → splitOn sep s = f :: r → r ≠ [] →
    ∃ s', s = f ++ sep :: s' ∧ splitOn sep s' = r := by
  intro f
  induction f with
  | nil =>
    intro s r _ hs hr
    cases s with
    | nil => simp [splitOn] at hs; exact absurd hs hr
    | cons b t =>
      by_cases hb : b = sep
      · subst hb
        simp only [splitOn, if_true, List.cons.injEq, true_and] at hs
        exact ⟨t, rfl, hs⟩
      · simp only [splitOn, hb, if_false] at hs
        split at hs <;> simp at hs
  | cons x f ih =>
    intro s r hf hs hr
    simp only [List.mem_cons, not_or] at hf
    cases s with
    | nil => simp [splitOn] at hs
    | cons b t =>
      by_cases hb : b = sep
      · subst hb
        simp only [splitOn, if_true, List.cons.injEq] at hs
        cases hs.1
      · have hbx : b = x := by
          simp only [splitOn, hb, if_false] at hs
          split at hs
          · simp only [List.cons.injEq] at hs; exact hs.1.1
          · simp only [List.cons.injEq] at hs; exact hs.1.1
        subst hbx
        obtain ⟨s', e1, e2⟩ := ih t r hf.2 (splitOn_head_cons sep b t f r hs hb) hr
        exact ⟨s', by rw [e1]; rfl, e2⟩

/-! ### proposal lines -/

theorem atoi_num (ds : Bytes) (hn : isNum ds = true) (hv : digitsVal ds < 9223372036854775808) :
    atoi ds = (((digitsVal ds : Nat) : Int), false) := by
  unfold isNum at hn
  simp only [Bool.and_eq_true, Bool.not_eq_true', List.isEmpty_eq_false_iff] at hn
  obtain ⟨hne, hall⟩ := hn
  cases ds with
  | nil => exact absurd rfl hne
  | cons d r =>
    have hd : isDigit d = true := by simp only [List.all_cons, Bool.and_eq_true] at hall; exact hall.1
    obtain ⟨n45, n43, _, _⟩ := isDigit_ne hd
    rw [atoi_cons d r n45 n43, hall, if_pos rfl]
    have : ¬ ((digitsVal (d :: r) : Nat) : Int) > maxInt64 := by unfold maxInt64; omega
    simp [clamp, this]

theorem proposal?_spec (t : Bytes) (c : Nat) (h : proposal? t = some c) :
    isText t = true ∧ (∀ b ∈ t, b < 0x80) ∧ (∃ r, t = 70 :: 67 :: 32 :: r) ∧ ∃ (ty mid : Bytes) (us : Nat),
      parseProposal t = some { code := 67, msgType := ty, mid := mid, size := (us : Int), csize := (c : Int) } := by
  unfold proposal? at h
  split at h
  · rename_i fc ty mid usize csize z hsplit
    split at h
    · rename_i hcond
      simp only [Option.some.injEq] at h
      simp only [Bool.and_eq_true, Bool.or_eq_true, beq_iff_eq, decide_eq_true_eq] at hcond
      obtain ⟨hcond, hz⟩ := hcond
      obtain ⟨hcond, hvc⟩ := hcond
      obtain ⟨hcond, hvu⟩ := hcond
      obtain ⟨hcond, hcs⟩ := hcond
      obtain ⟨hcond, hus⟩ := hcond
      obtain ⟨hcond, hmid⟩ := hcond
      obtain ⟨hcond, hm2⟩ := hcond
      obtain ⟨hcond, hm1⟩ := hcond
      obtain ⟨hcond, hty⟩ := hcond
      obtain ⟨hcond, hfc⟩ := hcond
      obtain ⟨htext, hprint⟩ := hcond
      subst hfc
      obtain ⟨s', hs', hsp⟩ := splitOn_first 32 [70, 67] t _ (by decide) hsplit (by simp)
      refine ⟨htext, ?_, ⟨s', by rw [hs']; rfl⟩, ty, mid, digitsVal usize, ?_⟩
      · intro b hb
        have := List.all_eq_true.mp hprint b hb
        revert this
        exact byte_table (P := fun b => isPrint b = true → b < 0x80) (by decide +kernel) b
      · have hne : s' ≠ [] := by intro e; rw [e] at hsp; simp [splitOn] at hsp
        subst hs'
        unfold parseProposal
        have hlen : ¬ ([70, 67] ++ 32 :: s').length < 4 := by
          cases s' with
          | nil => exact absurd rfl hne
          | cons _ _ => simp
        simp only [show ([70, 67] ++ 32 :: s' : Bytes).getD 1 0 = 67 from rfl, show ([70, 67] ++ 32 :: s' : Bytes).drop 3 = s' from rfl, hsp, hlen]
        have a1 := atoi_num usize hus hvu
        have a2 := atoi_num csize hcs hvc
        rcases hty with hty | hty <;> subst hty <;> simp [sb_EM, sb_CM, a1, a2, h]
    · cases h
  · cases h

end Wl2k.B2F
