import Wl2kVerif.Proofs.PairShape
import Wl2kVerif.Proofs.Run
/-
Path-sensitive program predicates: a deterministic MONITOR (safety automaton over events) `δ`, and
`Accepts δ Q s p` = "from monitor state `s`, along every path of program `p` (any input, any handler
replies) every event is accepted by the monitor, and when `p` returns `a` in monitor state `s'`, `Q a s'`".
`run_accepts` transfers it to every run. Instances:
* `outδ`  — the confirmation rule of `handleOutbound`: no `SetSent(_, false)` before the peek that saw
  'F' or ';'; after it nothing but `SetSent(_, false)` calls (C02's mutation "SetSent moved above the Peek").
* `armedδ` — the same rule for the whole `exchange` program (all turns).
* `inδ`   — the receiver's dual for `handleInbound`: at most one write (the `FS` line), and no write
  once the first `parseMessage`/`processInbound` call has been made.
-/
namespace Wl2k.B2F
open Wl2k Wl2k.Str Wl2k.Strconv

/-! ### generic part -/

/-- run monitor `δ` over a trace stored newest-first (as `Proc.run` stores it), from state `s` -/
def mon {S : Type} (δ : S → Ev → Option S) : List Ev → S → Option S
  | [], s => some s
  | e :: tr, s => (mon δ tr s).bind (δ · e)

theorem mon_append {S : Type} (δ : S → Ev → Option S) (post pre : List Ev) (s : S) :
    mon δ (post ++ pre) s = (mon δ pre s).bind (mon δ post) := by
  induction post with
  | nil => simp [mon]
  | cons e t ih =>
    simp only [List.cons_append, mon, ih]
    cases mon δ pre s <;> simp

/-- monitors are prefix-closed: if the whole trace is accepted so is every earlier part -/
theorem mon_prefix {S : Type} (δ : S → Ev → Option S) (post pre : List Ev) (s s' : S)
    (h : mon δ (post ++ pre) s = some s') : ∃ s1, mon δ pre s = some s1 ∧ mon δ post s1 = some s' := by
  rw [mon_append] at h
  cases hm : mon δ pre s with
  | none => rw [hm] at h; simp at h
  | some s1 => rw [hm] at h; exact ⟨s1, rfl, by simpa using h⟩

inductive Accepts {α S : Type} (δ : S → Ev → Option S) (Q : α → S → Prop) : S → Proc α → Prop
  | ret (a : α) (s : S) : Q a s → Accepts δ Q s (.ret a)
  | readByte (k : Option UInt8 → Proc α) (s : S) : (∀ o, Accepts δ Q s (k o)) → Accepts δ Q s (.readByte k)
  | peek (k : Option UInt8 → Proc α) (s : S) (f : UInt8 → S) : Accepts δ Q s (k none) →
      (∀ b, δ s (.peeked b) = some (f b)) → (∀ b, Accepts δ Q (f b) (k (some b))) → Accepts δ Q s (.peek k)
  | write (bs : Bytes) (k : Proc α) (s s' : S) : δ s (.wrote bs) = some s' → Accepts δ Q s' k →
      Accepts δ Q s (.write bs k)
  | call (c : Call) (k : Reply → Proc α) (s s' : S) : δ s (.called c) = some s' → (∀ r, Accepts δ Q s' (k r)) →
      Accepts δ Q s (.call c k)
  | panic (site : String) (s : S) : Accepts δ Q s (.panic site)

theorem Accepts.bind {α β S : Type} {δ : S → Ev → Option S} {Q : α → S → Prop} {Q' : β → S → Prop} {s : S}
    {p : Proc α} {f : α → Proc β} (hp : Accepts δ Q s p) (hf : ∀ a s', Q a s' → Accepts δ Q' s' (f a)) :
    Accepts δ Q' s (Proc.bind p f) := by
  induction hp with
  | ret a s ha => exact hf a s ha
  | readByte k s _ ih => exact Accepts.readByte _ _ (fun o => ih o)
  | peek k s g _ hg _ ih0 ih => exact Accepts.peek _ _ g ih0 hg (fun b => ih b)
  | write bs k s s' hs _ ih => exact Accepts.write _ _ _ _ hs ih
  | call c k s s' hs _ ih => exact Accepts.call _ _ _ _ hs (fun r => ih r)
  | panic site s => exact Accepts.panic _ _

theorem Accepts.mono {α S : Type} {δ : S → Ev → Option S} {Q Q' : α → S → Prop} {s : S} {p : Proc α}
    (hp : Accepts δ Q s p) (h : ∀ a s', Q a s' → Q' a s') : Accepts δ Q' s p := by
  induction hp with
  | ret a s ha => exact Accepts.ret _ _ (h a s ha)
  | readByte k s _ ih => exact Accepts.readByte _ _ ih
  | peek k s g _ hg _ ih0 ih => exact Accepts.peek _ _ g ih0 hg ih
  | write bs k s s' hs _ ih => exact Accepts.write _ _ _ _ hs ih
  | call c k s s' hs _ ih => exact Accepts.call _ _ _ _ hs ih
  | panic site s => exact Accepts.panic _ _

/-- **Every run of an accepted program is accepted by the monitor**: if the trace so far leads the monitor
from `s0` to `s`, the trace after the run leads it to some `s'` (no event was refused), and a returned
value satisfies `Q _ s'`. -/
theorem run_accepts {α H S : Type} (hstep : H → Call → H × Reply) {δ : S → Ev → Option S} {Q : α → S → Prop}
    {s : S} {p : Proc α} (hp : Accepts δ Q s p) : ∀ (inp : Bytes) (h : H) (tr : List Ev) (s0 : S),
      mon δ tr s0 = some s →
      ∃ s', mon δ (Proc.run hstep p inp h tr).2.2.2 s0 = some s' ∧
        ∀ a, (Proc.run hstep p inp h tr).1 = .done a → Q a s' := by
  induction hp with
  | ret a s ha =>
    intro inp h tr s0 hm
    refine ⟨s, by simpa [Proc.run] using hm, ?_⟩
    intro a' e
    simp only [Proc.run] at e
    cases e
    exact ha
  | readByte k s _ ih =>
    intro inp h tr s0 hm
    cases inp with
    | nil => simpa [Proc.run] using ih none [] h tr s0 hm
    | cons b t => simpa [Proc.run] using ih (some b) t h tr s0 hm
  | peek k s g _ hg _ ih0 ih =>
    intro inp h tr s0 hm
    cases inp with
    | nil => simpa [Proc.run] using ih0 [] h tr s0 hm
    | cons b t =>
      have := ih b (b :: t) h (.peeked b :: tr) s0 (by simp [mon, hm, hg])
      simpa [Proc.run] using this
  | write bs k s s' hs _ ih =>
    intro inp h tr s0 hm
    have := ih inp h (.wrote bs :: tr) s0 (by simp [mon, hm, hs])
    simpa [Proc.run] using this
  | call c k s s' hs _ ih =>
    intro inp h tr s0 hm
    simp only [Proc.run]
    exact ih (hstep h c).2 inp (hstep h c).1 (.called c :: tr) s0 (by simp [mon, hm, hs])
  | panic site s =>
    intro inp h tr s0 hm
    refine ⟨s, by simpa [Proc.run] using hm, ?_⟩
    intro a e
    simp [Proc.run] at e

/-- the trace a run produces does not depend on the trace it started with -/
theorem run_tr {α H : Type} (hstep : H → Call → H × Reply) (p : Proc α) : ∀ (inp : Bytes) (h : H) (tr : List Ev),
    Proc.run hstep p inp h tr =
      ((Proc.run hstep p inp h []).1, (Proc.run hstep p inp h []).2.1, (Proc.run hstep p inp h []).2.2.1,
        (Proc.run hstep p inp h []).2.2.2 ++ tr) := by
  induction p with
  | ret a => intro inp h tr; simp [Proc.run]
  | readByte k ih =>
    intro inp h tr
    cases inp with
    | nil => simp only [Proc.run]; exact ih none [] h tr
    | cons b t => simp only [Proc.run]; exact ih (some b) t h tr
  | peek k ih =>
    intro inp h tr
    cases inp with
    | nil => simp only [Proc.run]; exact ih none [] h tr
    | cons b t =>
      simp only [Proc.run]
      rw [ih (some b) (b :: t) h (.peeked b :: tr), ih (some b) (b :: t) h [.peeked b]]
      simp
  | write bs k ih =>
    intro inp h tr
    simp only [Proc.run]
    rw [ih inp h (.wrote bs :: tr), ih inp h [.wrote bs]]
    simp
  | call c k ih =>
    intro inp h tr
    simp only [Proc.run]
    rw [ih _ inp _ (.called c :: tr), ih _ inp _ [.called c]]
    simp
  | panic s => intro inp h tr; simp [Proc.run]

/-- A program all of whose nodes are of kinds the monitor accepts (keeping an invariant `I` of the
monitor state) is accepted from every state satisfying `I`, and leaves the monitor in such a state. -/
theorem Accepts.of_shape {α S : Type} {δ : S → Ev → Option S} {E : Node → Prop} (I : S → Prop)
    (hpk : E .peek → ∀ s, I s → ∀ b, ∃ s', δ s (.peeked b) = some s' ∧ I s')
    (hw : ∀ bs, E (.write bs) → ∀ s, I s → ∃ s', δ s (.wrote bs) = some s' ∧ I s')
    (hc : ∀ c, E (.call c) → ∀ s, I s → ∃ s', δ s (.called c) = some s' ∧ I s')
    {p : Proc α} (hp : Shape E p) : ∀ s, I s → Accepts δ (fun _ s' => I s') s p := by
  induction hp with
  | ret a => intro s hs; exact Accepts.ret _ _ hs
  | readByte k _ _ ih => intro s hs; exact Accepts.readByte _ _ (fun o => ih o s hs)
  | peek k hk _ ih =>
    intro s hs
    have hx := hpk hk s hs
    exact Accepts.peek _ _ (fun b => Classical.choose (hx b)) (ih none s hs)
      (fun b => (Classical.choose_spec (hx b)).1)
      (fun b => ih (some b) _ (Classical.choose_spec (hx b)).2)
  | write bs k hk _ ih =>
    intro s hs
    obtain ⟨s', h1, h2⟩ := hw bs hk s hs
    exact Accepts.write _ _ _ _ h1 (ih s' h2)
  | call c k hk _ ih =>
    intro s hs
    obtain ⟨s', h1, h2⟩ := hc c hk s hs
    exact Accepts.call _ _ _ _ h1 (fun r => ih r s' h2)
  | panic site _ => intro s _; exact Accepts.panic _ _

/-! ### the confirmation rule -/

/-- `SetSent(mid, rejected = false)`: the call that reports a message as delivered -/
def isConfirm : Call → Bool
  | .setSent _ false => true
  | _ => false

/-- the confirmation byte: 'F' (the peer's next command) or ';' (a comment line before it) -/
def isGo (b : UInt8) : Bool := b == 70 || b == 59

/-- alphabet: anything but a confirming call -/
def NoConfirm : Node → Prop
  | .call c => isConfirm c = false
  | _ => True

/-- alphabet: anything but a confirming call or a peek -/
def NoConfirmNoPeek : Node → Prop
  | .call c => isConfirm c = false
  | .peek => False
  | _ => True

/-- alphabet: anything but a write -/
def NoWrite : Node → Prop
  | .write _ => False
  | _ => True

theorem setSent_true_noconfirm (l : List (Bytes × Bool)) :
    ∀ c ∈ l.map (fun x : Bytes × Bool => Call.setSent x.1 true), isConfirm c = false := by
  intro c hc
  simp only [List.mem_map] at hc
  obtain ⟨x, _, rfl⟩ := hc
  rfl

/-- alphabet: reads (and panics) only — no events -/
def Silent : Node → Prop
  | .read => True
  | .panic _ => True
  | _ => False

theorem callAll_confirm_accepts {S : Type} {δ : S → Ev → Option S} {J : S → Prop}
    (hJ : ∀ m s, J s → ∃ s', δ s (.called (.setSent m false)) = some s' ∧ J s') :
    ∀ (l : List (Bytes × Bool)) (s : S), J s →
      Accepts δ (fun _ s' => J s') s (callAll (l.map fun x : Bytes × Bool => Call.setSent x.1 false)) := by
  intro l
  induction l with
  | nil => intro s hs; exact Accepts.ret _ _ hs
  | cons x xs ih =>
    intro s hs
    obtain ⟨s', h1, h2⟩ := hJ x.1 s hs
    exact Accepts.call _ _ _ _ h1 (fun _ => ih s' h2)

/-- `handleOutbound` against ANY monitor that (I) accepts every non-confirming, non-peek node in states
satisfying `I` and stays in `I`; (peek) from `I` goes to a `J` state on 'F' / ';' and to anything on other
bytes; (J) accepts confirming calls in `J` states and stays in `J`. -/
theorem handleOutbound_accepts {S : Type} {δ : S → Ev → Option S} (I J : S → Prop)
    (hw : ∀ bs s, I s → ∃ s', δ s (.wrote bs) = some s' ∧ I s')
    (hc : ∀ c, isConfirm c = false → ∀ s, I s → ∃ s', δ s (.called c) = some s' ∧ I s')
    (f : S → UInt8 → S) (hpk : ∀ s b, I s → δ s (.peeked b) = some (f s b))
    (hgo : ∀ s b, I s → isGo b = true → J (f s b)) (hnogo : ∀ s b, I s → isGo b = false → I (f s b))
    (hJ : ∀ m s, J s → ∃ s', δ s (.called (.setSent m false)) = some s' ∧ J s')
    (c : Cfg) (fuel : Nat) (st : SState) :
    ∀ s, I s → Accepts δ (fun _ s' => I s' ∨ J s') s (handleOutbound c fuel st) := by
  intro s hs
  have hsh : ∀ {α : Type} {p : Proc α}, Shape NoConfirmNoPeek p → ∀ s, I s → Accepts δ (fun _ s' => I s') s p :=
    fun hp => Accepts.of_shape (E := NoConfirmNoPeek) I (fun h => h.elim) (fun bs _ s hs => hw bs s hs)
      (fun c h s hs => hc c h s hs) hp
  have hsil : ∀ {α : Type} {p : Proc α}, Shape Silent p → ∀ s, I s → Accepts δ (fun _ s' => I s') s p :=
    fun hp => Accepts.of_shape (E := Silent) I (fun h => h.elim) (fun bs h => h.elim) (fun c h => h.elim) hp
  have hR : RdOK NoConfirmNoPeek := ⟨trivial, fun _ => trivial⟩
  have hW : WrOK NoConfirmNoPeek := ⟨fun _ => trivial⟩
  unfold handleOutbound
  simp only [bind_eq, pure_eq]
  apply Accepts.bind (hsh (outbound_shape (fun _ => rfl) c st) s hs)
  intro out s1 hs1
  split
  · apply Accepts.bind (Q := fun _ s' => I s')
    · obtain ⟨s2, h1, h2⟩ := hw (if st.remoteNoMsgs = true then sb "FQ\r" else sb "FF\r") s1 hs1
      exact Accepts.write _ _ _ _ h1 (Accepts.ret _ _ h2)
    · intro _ s2 hs2
      exact Accepts.ret _ _ (Or.inl hs2)
  · apply Accepts.bind (hsh (sendOutbound_shape hR hW (fun _ => rfl) c fuel out) s1 hs1)
    intro r s2 hs2
    cases r with
    | error e => exact Accepts.ret _ _ (Or.inl hs2)
    | ok sent =>
      simp only
      apply Accepts.bind (hsh (callAll_shape _ (setSent_true_noconfirm _)) s2 hs2)
      intro _ s3 hs3
      refine Accepts.peek _ _ (f s3) (Accepts.ret _ _ (Or.inl hs3)) (fun b => hpk s3 b hs3) ?_
      intro b
      simp only
      split
      · rename_i hb
        have hb' : isGo b = false := by
          simp only [isGo, Bool.or_eq_false_iff, beq_eq_false_iff_ne]
          exact hb
        have hI := hnogo s3 b hs3 hb'
        apply Accepts.bind (hsil (nextLine_shape ⟨trivial, fun _ => trivial⟩ fuel) _ hI)
        intro r s4 hs4
        cases r <;> exact Accepts.ret _ _ (Or.inl hs4)
      · rename_i hb
        have hb' : isGo b = true := by
          simp only [isGo, Bool.or_eq_true, beq_iff_eq]
          by_cases h70 : b = 70
          · exact Or.inl h70
          · by_cases h59 : b = 59
            · exact Or.inr h59
            · exact absurd ⟨h70, h59⟩ hb
        apply Accepts.bind (callAll_confirm_accepts hJ _ _ (hgo s3 b hs3 hb'))
        intro _ s4 hs4
        exact Accepts.ret _ _ (Or.inr hs4)

/-! ### monitor 1: the confirmation rule inside one `handleOutbound` -/

/-- state `false` = not confirmed yet: writes, non-confirming calls; a peek of 'F' / ';' confirms.
state `true` = confirmed: nothing but confirming calls. -/
def outδ : Bool → Ev → Option Bool
  | false, .wrote _ => some false
  | false, .peeked b => some (isGo b)
  | false, .called c => if isConfirm c then none else some false
  | true, .called c => if isConfirm c then some true else none
  | true, _ => none

/-- is this event a `SetSent(_, false)` call -/
def Ev.isConfirm : Ev → Bool
  | .called c => B2F.isConfirm c
  | _ => false

theorem handleOutbound_outδ (c : Cfg) (fuel : Nat) (st : SState) :
    Accepts outδ (fun _ _ => True) false (handleOutbound c fuel st) := by
  refine Accepts.mono (handleOutbound_accepts (δ := outδ) (· = false) (· = true) ?_ ?_ (fun _ b => isGo b) ?_ ?_ ?_ ?_
    c fuel st false rfl) (fun _ _ _ => trivial)
  · intro bs s hs; subst hs; exact ⟨false, rfl, rfl⟩
  · intro c hc s hs; subst hs; exact ⟨false, by simp [outδ, hc], rfl⟩
  · intro s b hs; subst hs; rfl
  · intro s b _ hb; exact hb
  · intro s b _ hb; exact hb
  · intro m s hs; subst hs; exact ⟨true, rfl, rfl⟩

/-- what `outδ` accepting a trace (newest first) means, state `false`: no confirming call at all -/
theorem mon_outδ_false : ∀ (tr : List Ev), mon outδ tr false = some false → ∀ e ∈ tr, e.isConfirm = false := by
  intro tr
  induction tr with
  | nil => intro _ e he; cases he
  | cons e t ih =>
    intro h
    simp only [mon] at h
    cases hm : mon outδ t false with
    | none => rw [hm] at h; simp at h
    | some s1 =>
      rw [hm] at h
      simp only [Option.bind_some] at h
      cases s1 with
      | true =>
        cases e with
        | wrote bs => simp [outδ] at h
        | peeked b => simp [outδ] at h
        | called c =>
          simp only [outδ] at h
          split at h <;> simp at h
      | false =>
        have ih' := ih hm
        intro e' he'
        simp only [List.mem_cons] at he'
        rcases he' with rfl | he'
        · cases e' with
          | wrote bs => rfl
          | peeked b => rfl
          | called c =>
            simp only [outδ] at h
            split at h
            · simp at h
            · rename_i hc; simpa [Ev.isConfirm] using hc
        · exact ih' e' he'

/-- state `true`: the trace (newest first) is confirming calls, then the peek of 'F' / ';', then an
earlier part without any confirming call -/
theorem mon_outδ_true : ∀ (tr : List Ev), mon outδ tr false = some true →
    ∃ (cs : List Ev) (b : UInt8) (pre : List Ev), tr = cs ++ .peeked b :: pre ∧ isGo b = true ∧
      (∀ e ∈ cs, ∃ m, e = .called (.setSent m false)) ∧ (∀ e ∈ pre, e.isConfirm = false) := by
  intro tr
  induction tr with
  | nil => intro h; simp [mon] at h
  | cons e t ih =>
    intro h
    simp only [mon] at h
    cases hm : mon outδ t false with
    | none => rw [hm] at h; simp at h
    | some s1 =>
      rw [hm] at h
      simp only [Option.bind_some] at h
      cases s1 with
      | true =>
        obtain ⟨cs, b, pre, rfl, hb, hcs, hpre⟩ := ih hm
        cases e with
        | wrote bs => simp [outδ] at h
        | peeked b' => simp [outδ] at h
        | called c =>
          simp only [outδ] at h
          split at h
          · rename_i hc
            refine ⟨.called c :: cs, b, pre, rfl, hb, ?_, hpre⟩
            intro e' he'
            simp only [List.mem_cons] at he'
            rcases he' with rfl | he'
            · cases c with
              | setSent m r =>
                cases r with
                | false => exact ⟨m, rfl⟩
                | true => simp [isConfirm] at hc
              | _ => simp [isConfirm] at hc
            · exact hcs e' he'
          · simp at h
      | false =>
        cases e with
        | wrote bs => simp [outδ] at h
        | peeked b =>
          simp only [outδ, Option.some.injEq] at h
          exact ⟨[], b, t, rfl, h, (by intro e he; cases he), mon_outδ_false t hm⟩
        | called c =>
          simp only [outδ] at h
          split at h <;> simp at h

/-! ### monitor 2: the confirmation rule over a whole session -/

/-- state = "armed": the most recent non-call event is a peek that saw 'F' or ';'. A confirming call is
accepted only when armed; a write disarms. -/
def armedδ : Bool → Ev → Option Bool
  | _, .wrote _ => some false
  | _, .peeked b => some (isGo b)
  | s, .called c => if isConfirm c then (if s then some true else none) else some s

theorem handleOutbound_armedδ (c : Cfg) (fuel : Nat) (st : SState) (s : Bool) :
    Accepts armedδ (fun _ _ => True) s (handleOutbound c fuel st) := by
  refine Accepts.mono (handleOutbound_accepts (δ := armedδ) (fun _ => True) (· = true) ?_ ?_ (fun _ b => isGo b) ?_ ?_ ?_ ?_
    c fuel st s trivial) (fun _ _ _ => trivial)
  · intro bs s _; exact ⟨false, rfl, trivial⟩
  · intro c hc s _; exact ⟨s, by simp [armedδ, hc], trivial⟩
  · intro s b _; rfl
  · intro s b _ hb; exact hb
  · intro s b _ _; trivial
  · intro m s hs; subst hs; exact ⟨true, rfl, rfl⟩

/-- everything that contains no confirming call is accepted by `armedδ` from any state -/
theorem armedδ_of_noConfirm {α : Type} {p : Proc α} (hp : Shape NoConfirm p) (s : Bool) :
    Accepts armedδ (fun _ _ => True) s p :=
  Accepts.of_shape (E := NoConfirm) (fun _ => True) (fun _ s _ b => ⟨isGo b, rfl, trivial⟩)
    (fun bs _ s _ => ⟨false, rfl, trivial⟩)
    (fun c hc s _ => ⟨s, by simp only [NoConfirm] at hc; simp [armedδ, hc], trivial⟩) hp s trivial

theorem turns_armedδ (c : Cfg) (fuel : Nat) : ∀ (n : Nat) (myTurn : Bool) (st : SState) (s : Bool),
    Accepts armedδ (fun _ _ => True) s (turns c fuel n myTurn st) := by
  have hR : RdOK NoConfirm := ⟨trivial, fun _ => trivial⟩
  have hW : WrOK NoConfirm := ⟨fun _ => trivial⟩
  intro n
  induction n with
  | zero => intro _ _ s; exact Accepts.panic _ _
  | succ n ih =>
    intro myTurn st s
    unfold turns
    split
    · exact Accepts.ret _ _ trivial
    · split
      · simp only [bind_eq, pure_eq]
        apply Accepts.bind (handleOutbound_armedδ c fuel st s)
        intro r s' _
        cases r with
        | error e => exact Accepts.ret _ _ trivial
        | ok v => exact ih _ _ _
      · simp only [bind_eq, pure_eq]
        apply Accepts.bind (armedδ_of_noConfirm
          (handleInbound_shape hR hW (fun _ => rfl) (fun _ => rfl) (fun _ => rfl) (fun _ => rfl) c fuel st) s)
        intro r s' _
        obtain ⟨q, st', e⟩ := r
        cases e with
        | some e => exact Accepts.ret _ _ trivial
        | none => exact ih _ _ _

/-- **The whole `Exchange` program obeys the confirmation rule**: along every path — any remote bytes,
any handler replies — a `SetSent(_, false)` call is made only while "armed", i.e. when the most recent
I/O event is a peek that saw 'F' or ';' (only handler calls in between). -/
theorem exchange_armedδ (c : Cfg) (fuel : Nat) : Accepts armedδ (fun _ _ => True) false (exchange c fuel) := by
  have hR : RdOK NoConfirm := ⟨trivial, fun _ => trivial⟩
  have hW : WrOK NoConfirm := ⟨fun _ => trivial⟩
  unfold exchange
  simp only [bind_eq, pure_eq]
  apply Accepts.bind (Q := fun _ _ => True)
  · split
    · refine Accepts.call _ _ _ false rfl ?_
      intro r; cases r <;> (try split) <;> exact Accepts.ret _ _ trivial
    · exact Accepts.ret _ _ trivial
  · intro ok s _
    split
    · exact armedδ_of_noConfirm (finish_shape hW _ _ _) s
    · apply Accepts.bind (armedδ_of_noConfirm (handshake_shape hR hW trivial (fun _ => rfl) c fuel) s)
      intro r s' _
      cases r with
      | error e => exact armedδ_of_noConfirm (finish_shape hW _ _ _) s'
      | ok hs =>
        simp only
        apply Accepts.bind (turns_armedδ c fuel fuel _ _ s')
        intro r s'' _
        exact armedδ_of_noConfirm (finish_shape hW _ _ _) s''

/-- armed ⇒ the trace (newest first) starts with handler calls followed by a peek of 'F' / ';' -/
theorem mon_armedδ_true : ∀ (tr : List Ev), mon armedδ tr false = some true →
    ∃ (cs : List Ev) (b : UInt8) (pre : List Ev), tr = cs ++ .peeked b :: pre ∧ isGo b = true ∧
      (∀ e ∈ cs, ∃ c, e = .called c) := by
  intro tr
  induction tr with
  | nil => intro h; simp [mon] at h
  | cons e t ih =>
    intro h
    simp only [mon] at h
    cases hm : mon armedδ t false with
    | none => rw [hm] at h; simp at h
    | some s1 =>
      rw [hm] at h
      simp only [Option.bind_some] at h
      cases e with
      | wrote bs => simp [armedδ] at h
      | peeked b =>
        simp only [armedδ, Option.some.injEq] at h
        exact ⟨[], b, t, rfl, h, (by intro e he; cases he)⟩
      | called c =>
        have hs1 : s1 = true := by
          simp only [armedδ] at h
          split at h
          · split at h
            · assumption
            · simp at h
          · simpa using h
        subst hs1
        obtain ⟨cs, b, pre, rfl, hb, hcs⟩ := ih hm
        refine ⟨.called c :: cs, b, pre, rfl, hb, ?_⟩
        intro e' he'
        simp only [List.mem_cons] at he'
        rcases he' with rfl | he'
        · exact ⟨c, rfl⟩
        · exact hcs e' he'

/-- **Trace form of the rule**: in a trace (newest first) accepted by `armedδ`, whatever precedes a
`SetSent(m, false)` event is: handler calls only, back to a peek that saw 'F' or ';'. -/
theorem armedδ_spec (tr : List Ev) (s : Bool) (h : mon armedδ tr false = some s)
    (post pre : List Ev) (m : Bytes) (hsplit : tr = post ++ .called (.setSent m false) :: pre) :
    ∃ (cs : List Ev) (b : UInt8) (pre' : List Ev), pre = cs ++ .peeked b :: pre' ∧ isGo b = true ∧
      (∀ e ∈ cs, ∃ c, e = .called c) := by
  subst hsplit
  obtain ⟨s1, h1, _⟩ := mon_prefix armedδ post _ false s h
  simp only [mon] at h1
  cases hm : mon armedδ pre false with
  | none => rw [hm] at h1; simp at h1
  | some s2 =>
    rw [hm] at h1
    simp only [Option.bind_some, armedδ, isConfirm, if_true] at h1
    cases s2 with
    | false => simp at h1
    | true => exact mon_armedδ_true pre hm

/-! ### monitor 3: the receiver's dual, inside one `handleInbound` -/

inductive InPh where
  | ask        -- reading proposals / asking the handler for answers
  | answered   -- the `FS …` line has been written
  | fetching   -- a received message has been handed to `parseMessage` / `processInbound`
deriving DecidableEq, Repr

def isAnswerCall : Call → Bool
  | .getInboundAnswer _ => true
  | .getInboundAnswers _ => true
  | _ => false

def isFetchCall : Call → Bool
  | .parseMessage _ => true
  | .processInbound _ => true
  | _ => false

/-- answer calls, then at most ONE write (which starts with "FS "), then only parse/process calls -/
def inδ : InPh → Ev → Option InPh
  | .ask, .called c => if isAnswerCall c then some .ask else if isFetchCall c then some .fetching else none
  | .ask, .wrote bs => if fsPrefix.isPrefixOf bs then some .answered else none
  | .answered, .called c => if isFetchCall c then some .fetching else none
  | .fetching, .called c => if isFetchCall c then some .fetching else none
  | _, _ => none

theorem sb_FS : sb "FS " = fsPrefix := by decide +kernel

theorem fsPrefix_isPrefixOf (x : Bytes) : fsPrefix.isPrefixOf (fsPrefix ++ x) = true := by
  simp [fsPrefix, List.isPrefixOf]

def AnswerAlpha : Node → Prop
  | .call c => isAnswerCall c = true
  | _ => False

def FetchAlpha : Node → Prop
  | .read => True
  | .panic _ => True
  | .call c => isFetchCall c = true
  | _ => False

theorem writeProposalsAnswer_inδ (c : Cfg) (ps : List Proposal) :
    Accepts inδ (fun _ s => s = .answered) .ask (writeProposalsAnswer c ps) := by
  unfold writeProposalsAnswer
  simp only [bind_eq, pure_eq]
  have hw : ∀ ps : List Proposal, Accepts inδ (fun _ s => s = InPh.answered) .ask
      (Proc.write (sb "FS " ++ ps.map (·.answer) ++ [13]) (Proc.ret ps)) := by
    intro ps
    refine Accepts.write _ _ _ .answered ?_ (Accepts.ret _ _ rfl)
    simp only [inδ, sb_FS, List.append_assoc, fsPrefix_isPrefixOf, if_true]
  split
  · apply Accepts.bind (Q := fun _ s => s = .ask)
    · refine Accepts.call _ _ _ .ask rfl ?_
      intro r
      cases r with
      | answers as =>
        simp only
        cases assignAnswers (preAnswer c.hasHandler ps []) as with
        | none => exact Accepts.panic _ _
        | some ps' => exact Accepts.ret _ _ rfl
      | _ => exact Accepts.panic _ _
    · intro ps' s hs; subst hs; exact hw ps'
  · apply Accepts.bind (Accepts.of_shape (E := AnswerAlpha) (· = InPh.ask) (fun h => h.elim) (fun _ h => h.elim)
      (fun c hc s hs => by subst hs; exact ⟨.ask, by simp only [AnswerAlpha] at hc; simp [inδ, hc], rfl⟩)
      (askEach_shape (E := AnswerAlpha) (fun _ => rfl) _ _) .ask rfl)
    intro ps' s hs
    subst hs
    exact hw ps'

theorem silent_inδ {α : Type} {p : Proc α} (hp : Shape Silent p) (s : InPh) : Accepts inδ (fun _ s' => s' = s) s p :=
  Accepts.of_shape (E := Silent) (· = s) (fun h => h.elim) (fun _ h => h.elim) (fun _ h => h.elim) hp s rfl

theorem inboundLoop_inδ (c : Cfg) (fuel : Nat) : ∀ (n : Nat) (props : List Proposal) (sum : Nat) (st : SState),
    Accepts inδ (fun _ s => s = .ask ∨ s = .answered) .ask (inboundLoop c fuel n props sum st) := by
  intro n
  induction n with
  | zero => intro props sum st; exact Accepts.panic _ _
  | succ n ih =>
    intro props sum st
    unfold inboundLoop
    simp only [bind_eq, pure_eq]
    apply Accepts.bind (silent_inδ (nextLine_shape ⟨trivial, fun _ => trivial⟩ fuel) .ask)
    intro r s hs
    subst hs
    cases r with
    | error e => exact Accepts.ret _ _ (Or.inl rfl)
    | ok line =>
      simp only
      split
      · exact ih _ _ _
      · split
        · exact ih _ _ _
        · split
          · exact Accepts.ret _ _ (Or.inl rfl)
          · rename_i hlen
            have h2 : 2 ≤ line.length := by
              by_cases h : line.length < 2
              · exact absurd (Or.inl h) hlen
              · omega
            rw [cmdByteC_eq line h2, parseProposalC_eq line h2, promptFieldC_eq line h2]
            simp only
            split
            · cases parseProposal line with
              | none => exact Accepts.ret _ _ (Or.inl rfl)
              | some f => exact ih _ _ _
            · split
              · exact Accepts.ret _ _ (Or.inl rfl)
              · split
                · exact Accepts.ret _ _ (Or.inl rfl)
                · split
                  · split
                    · exact Accepts.ret _ _ (Or.inl rfl)
                    · split
                      · exact Accepts.ret _ _ (Or.inl rfl)
                      · apply Accepts.bind (writeProposalsAnswer_inδ c props)
                        intro _ s hs
                        exact Accepts.ret _ _ (Or.inr hs)
                  · exact Accepts.ret _ _ (Or.inl rfl)

/-- **`handleInbound` writes at most once — the `FS` line — and never after the first received message
has been handed to the parser/handler**: along every path, the events are answer calls, then at most one
write starting with "FS ", then only `parseMessage` / `processInbound` calls. -/
theorem handleInbound_inδ (c : Cfg) (fuel : Nat) (st : SState) :
    Accepts inδ (fun _ _ => True) .ask (handleInbound c fuel st) := by
  unfold handleInbound
  simp only [bind_eq, pure_eq]
  apply Accepts.bind (inboundLoop_inδ c fuel fuel [] 0 st)
  intro r s hs
  cases r with
  | error e => exact Accepts.ret _ _ trivial
  | ok v =>
    obtain ⟨quit, props, st'⟩ := v
    simp only
    have hf := Accepts.of_shape (δ := inδ) (E := FetchAlpha) (fun _ => True) (fun h => h.elim) (fun _ h => h.elim)
      (fun c hc s _ => by
        simp only [FetchAlpha] at hc
        refine ⟨.fetching, ?_, trivial⟩
        cases s
        · simp only [inδ, hc, if_true]
          cases c <;> simp_all [isFetchCall, isAnswerCall]
        · simp [inδ, hc]
        · simp [inδ, hc])
      (fetchAll_shape (E := FetchAlpha) ⟨trivial, fun _ => trivial⟩ (fun _ => rfl) (fun _ => rfl) fuel props st') s trivial
    apply Accepts.bind hf
    intro r _ _
    exact Accepts.ret _ _ trivial

def Ev.isAnswerCall : Ev → Bool
  | .called c => B2F.isAnswerCall c
  | _ => false

def Ev.isFetchCall : Ev → Bool
  | .called c => B2F.isFetchCall c
  | _ => false

theorem mon_inδ_ask : ∀ (tr : List Ev), mon inδ tr .ask = some .ask → ∀ e ∈ tr, e.isAnswerCall = true := by
  intro tr
  induction tr with
  | nil => intro _ e he; cases he
  | cons e t ih =>
    intro h
    simp only [mon] at h
    cases hm : mon inδ t .ask with
    | none => rw [hm] at h; simp at h
    | some s1 =>
      rw [hm] at h
      simp only [Option.bind_some] at h
      cases s1 with
      | ask =>
        intro e' he'
        simp only [List.mem_cons] at he'
        rcases he' with rfl | he'
        · cases e' with
          | wrote bs => simp only [inδ] at h; split at h <;> simp at h
          | peeked b => simp [inδ] at h
          | called c =>
            simp only [inδ] at h
            split at h
            · rename_i hc; exact hc
            · split at h <;> simp at h
        · exact ih hm e' he'
      | answered =>
        cases e with
        | wrote bs => simp [inδ] at h
        | peeked b => simp [inδ] at h
        | called c => simp only [inδ] at h; split at h <;> simp at h
      | fetching =>
        cases e with
        | wrote bs => simp [inδ] at h
        | peeked b => simp [inδ] at h
        | called c => simp only [inδ] at h; split at h <;> simp at h

/-- **Trace form** (trace stored newest first): `fs ++ ws ++ as` with `as` answer calls (earliest), `ws`
empty or one write starting "FS ", `fs` parse/process calls (latest). -/
theorem inδ_spec : ∀ (tr : List Ev) (s : InPh), mon inδ tr .ask = some s →
    ∃ (fs ws as : List Ev), tr = fs ++ ws ++ as ∧ (∀ e ∈ fs, e.isFetchCall = true) ∧
      (ws = [] ∨ ∃ bs, ws = [.wrote bs] ∧ fsPrefix.isPrefixOf bs = true) ∧ (∀ e ∈ as, e.isAnswerCall = true) ∧
      (s = .ask → fs = [] ∧ ws = []) ∧ (s = .answered → fs = [] ∧ ws ≠ []) := by
  intro tr
  induction tr with
  | nil =>
    intro s h
    simp only [mon, Option.some.injEq] at h
    subst h
    exact ⟨[], [], [], rfl, (by intro e he; cases he), Or.inl rfl, (by intro e he; cases he), fun _ => ⟨rfl, rfl⟩,
      (fun h => by cases h)⟩
  | cons e t ih =>
    intro s h
    simp only [mon] at h
    cases hm : mon inδ t .ask with
    | none => rw [hm] at h; simp at h
    | some s1 =>
      rw [hm] at h
      simp only [Option.bind_some] at h
      obtain ⟨fs, ws, as, rfl, hfs, hws, has, h1, h2⟩ := ih s1 hm
      cases s1 with
      | ask =>
        obtain ⟨rfl, rfl⟩ := h1 rfl
        cases e with
        | peeked b => simp [inδ] at h
        | wrote bs =>
          simp only [inδ] at h
          split at h
          · rename_i hbs
            simp only [Option.some.injEq] at h
            subst h
            exact ⟨[], [.wrote bs], as, rfl, (by intro e he; cases he), Or.inr ⟨bs, rfl, hbs⟩, has,
              (fun h => by cases h), fun _ => ⟨rfl, by simp⟩⟩
          · simp at h
        | called c =>
          simp only [inδ] at h
          split at h
          · rename_i hc
            simp only [Option.some.injEq] at h
            subst h
            refine ⟨[], [], .called c :: as, rfl, (by intro e he; cases he), Or.inl rfl, ?_, fun _ => ⟨rfl, rfl⟩,
              (fun h => by cases h)⟩
            intro e he
            simp only [List.mem_cons] at he
            rcases he with rfl | he
            · exact hc
            · exact has e he
          · split at h
            · rename_i hc
              simp only [Option.some.injEq] at h
              subst h
              refine ⟨[.called c], [], as, rfl, ?_, Or.inl rfl, has, (fun h => by cases h), (fun h => by cases h)⟩
              intro e he
              simp only [List.mem_singleton] at he
              subst he
              exact hc
            · simp at h
      | answered =>
        obtain ⟨rfl, hne⟩ := h2 rfl
        cases e with
        | peeked b => simp [inδ] at h
        | wrote bs => simp [inδ] at h
        | called c =>
          simp only [inδ] at h
          split at h
          · rename_i hc
            simp only [Option.some.injEq] at h
            subst h
            refine ⟨[.called c], ws, as, rfl, ?_, hws, has, (fun h => by cases h), (fun h => by cases h)⟩
            intro e he
            simp only [List.mem_singleton] at he
            subst he
            exact hc
          · simp at h
      | fetching =>
        cases e with
        | peeked b => simp [inδ] at h
        | wrote bs => simp [inδ] at h
        | called c =>
          simp only [inδ] at h
          split at h
          · rename_i hc
            simp only [Option.some.injEq] at h
            subst h
            refine ⟨.called c :: fs, ws, as, by simp, ?_, hws, has, (fun h => by cases h), (fun h => by cases h)⟩
            intro e he
            simp only [List.mem_cons] at he
            rcases he with rfl | he
            · exact hc
            · exact hfs e he
          · simp at h

end Wl2k.B2F
