import Wl2kVerif.Proofs.EmitBase
import Wl2kVerif.Proofs.PairWire
import Wl2kVerif.Proofs.FrameRT
import Wl2kVerif.Proofs.WireRT
import Wl2kVerif.Proofs.Strings
/-
The recognisers of the output grammar (B2F/Grammar.lean) on what the session model formats:
proposal lines, the `F>` prompt, `FS`, `FF`/`FQ`, the SOH header, STX blocks, the EOT trailer, the error
line, MOTD lines and the handshake.
-/
namespace Wl2k.B2F
open Wl2k Wl2k.Fmt Wl2k.Str Wl2k.Strconv Wl2k.B2F.Grammar

/-! ### classes -/

theorem ne_of_class {p : UInt8 → Bool} {b x : UInt8} (h : p b = true) (hx : p x = false) : b ≠ x := by
  rintro rfl; rw [hx] at h; cases h

theorem notMem_of_all {p : UInt8 → Bool} {l : Bytes} {x : UInt8} (h : l.all p = true) (hx : p x = false) : x ∉ l := by
  intro hm
  have := List.all_eq_true.mp h x hm
  rw [hx] at this; cases this

theorem all_imp {p q : UInt8 → Bool} {l : Bytes} (h : l.all p = true) (hpq : ∀ b, p b = true → q b = true) :
    l.all q = true := by
  rw [List.all_eq_true] at h ⊢
  exact fun b hb => hpq b (h b hb)

theorem byte_table {P : UInt8 → Prop} (h : ∀ n, n < 256 → P (UInt8.ofNat n)) (b : UInt8) : P b := by
  have := h b.toNat b.toNat_lt
  simpa using this

theorem isAlnum_lt : ∀ b : UInt8, isAlnum b = true → b < 0x80 :=
  byte_table (by decide +kernel)
theorem isDigit_lt : ∀ b : UInt8, isDigit b = true → b < 0x80 :=
  byte_table (by decide +kernel)
theorem isAlnum_print : ∀ b : UInt8, isAlnum b = true → isPrint b = true :=
  byte_table (by decide +kernel)

theorem isMid_all {mid : Bytes} (h : isMid mid = true) : mid.all isAlnum = true := by
  simp only [isMid, Bool.and_eq_true] at h; exact h.2

theorem dec_isNum (n : Nat) : isNum (dec n) = true := by
  have hp := dec_length_pos n
  have hd := (dec_spec n).1
  simp only [isNum, Bool.and_eq_true, Bool.not_eq_true', List.all_eq_true]
  refine ⟨?_, hd⟩
  cases h : dec n with
  | nil => rw [h] at hp; simp at hp
  | cons _ _ => rfl

theorem dec_all (n : Nat) : (dec n).all isDigit = true := by
  simpa [List.all_eq_true] using (dec_spec n).1

/-! ### sums -/

theorem byteSum_eq_dataSum (d : Bytes) : byteSum d = dataSum d := rfl

theorem lineSum_ascii' (line : Bytes) (h : ∀ b ∈ line, b < 0x80) : lineSum line = dataSum line + 13 := by
  unfold lineSum dataSum Utf8.runes
  congr 1
  have key : ∀ (l : Bytes) (acc : Nat), (∀ b ∈ l, b < 0x80) →
      (Utf8.runesS 0 l).foldl (· + ·) acc = l.foldl (fun s b => s + b.toNat) acc := by
    intro l
    induction l with
    | nil => intro acc _; rfl
    | cons b t ih =>
      intro acc hl
      have hb := hl b (by simp)
      simp only [Utf8.runesS, Utf8.decodeRune, hb, if_true, List.foldl_cons, Nat.sub_self]
      exact ih _ (fun x hx => hl x (by simp [hx]))
  exact key line 0 h

theorem byteSum_line (line : Bytes) (h : ∀ b ∈ line, b < 0x80) : byteSum (line ++ [13]) = lineSum line := by
  rw [lineSum_ascii' line h, byteSum_eq_dataSum, dataSum_append]
  rfl

theorem hex02_eq_hex2 (n : Nat) (h : n < 256) : hex02 n = hex2 n := by
  unfold hex02 hex2
  by_cases h16 : n < 16
  · rw [hexUpper, dif_pos h16]
    have : n / 16 = 0 := by omega
    simp [padLeft, hexU, hexDigitU, this]
  · rw [hexUpper, dif_neg h16, hexUpper, dif_pos (by omega : n / 16 < 16)]
    simp [padLeft, hexU, hexDigitU]

theorem promptLine_eq_promptOf (sum : Nat) : promptLine sum = promptOf sum := by
  unfold promptLine promptOf
  rw [hex02_eq_hex2 _ (by unfold negMod256; omega)]
  rfl

/-! ### not an error line -/

theorem isErrEcho_cons (b : UInt8) (t : Bytes) (h : b ≠ 42) : isErrEcho (b :: t) = false := by
  cases t with
  | nil => simp [isErrEcho, List.take]
  | cons c t =>
    cases t with
    | nil => simp [isErrEcho, List.take]
    | cons d t =>
      cases t with
      | nil => simp [isErrEcho, List.take]
      | cons e t => simp [isErrEcho, List.take, h]

/-! ### proposal lines -/

/-- the proposal line of a type-C "EM" proposal with non-negative sizes, spelled out -/
theorem proposalLine_nat (mid : Bytes) (size csize : Nat) :
    proposalLine 67 (sb "EM") mid (size : Int) (csize : Int) ++ [13] =
      [70, 67] ++ 32 :: ([69, 77] ++ 32 :: (mid ++ 32 :: (dec size ++ 32 :: (dec csize ++ 32 :: [48, 13])))) := by
  simp [proposalLine, sb_EM, decInt_nat]

theorem propLine?_ok (mid : Bytes) (size csize : Nat) (hmid : isMid mid = true) :
    propLine? (proposalLine 67 (sb "EM") mid (size : Int) (csize : Int) ++ [13]) = some csize := by
  have h32 : (32 : UInt8) ∉ mid := notMem_of_all (isMid_all hmid) (by decide)
  rw [proposalLine_nat]
  unfold propLine?
  rw [splitOn_append_sep 32 _ [70, 67] (by decide), splitOn_append_sep 32 _ [69, 77] (by decide),
    splitOn_append_sep 32 _ mid h32, splitOn_append_sep 32 _ (dec size) (dec_no size).1,
    splitOn_append_sep 32 _ (dec csize) (dec_no csize).1, splitOn_nosep 32 [48, 13] (by decide)]
  simp [hmid, dec_isNum, (dec_spec csize).2]

theorem proposalLine_ascii (mid : Bytes) (size csize : Nat) (hmid : isMid mid = true) :
    ∀ b ∈ proposalLine 67 (sb "EM") mid (size : Int) (csize : Int), b < 0x80 := by
  intro b hb
  simp only [proposalLine, sb_EM, decInt_nat, List.mem_append, List.mem_cons, List.not_mem_nil, or_false] at hb
  have hm := List.all_eq_true.mp (isMid_all hmid)
  have d1 := (dec_spec size).1
  have d2 := (dec_spec csize).1
  have e : ∀ x : UInt8, x ∈ [70, 67, 32, 69, 77, 48] → x < 0x80 := by decide
  rcases hb with ((((((((h | h | h) | h | h) | h) | h) | h) | h) | h) | h) | h | h
  all_goals first
    | exact isAlnum_lt _ (hm _ h)
    | exact isDigit_lt _ (d1 _ h)
    | exact isDigit_lt _ (d2 _ h)
    | (subst h; decide)

theorem propLine?_prompt (sum : Nat) : propLine? (promptOf sum) = none := by
  unfold propLine? promptOf
  show (match splitOn 32 ([70, 62] ++ 32 :: (hex2 (neg8 sum) ++ [13])) with
    | [fc, em, mid, usize, csize, z] => _
    | _ => none) = none
  rw [splitOn_append_sep 32 _ [70, 62] (by decide)]
  split
  · rename_i h
    simp only [List.cons.injEq] at h
    obtain ⟨h1, _⟩ := h
    subst h1
    simp
  · rfl


/-! ### monitor steps on turn lines -/

/-- the states in which our turn may open -/
def TurnStart : GState → Prop
  | .myTurn => True
  | .idle _ => True
  | _ => False

theorem step_open {s : GState} (hs : TurnStart s) (b : UInt8) (t : Bytes) (hb : b ≠ 83) :
    step s (70 :: b :: t) = turnOpen (70 :: b :: t) := by
  have he : isErrEcho (70 :: b :: t) = false := isErrEcho_cons _ _ (by decide)
  cases s with
  | myTurn => simp [step, he]
  | idle pend =>
    have h1 : header? (70 :: b :: t) = none := by simp [header?]
    have h2 : isFsLine (70 :: b :: t) = false := by simp [isFsLine, hb]
    simp [step, he, h1, h2]
  | _ => exact hs.elim

theorem step_open_prop {s : GState} (hs : TurnStart s) (mid : Bytes) (size csize : Nat) (hmid : isMid mid = true) :
    step s (proposalLine 67 (sb "EM") mid (size : Int) (csize : Int) ++ [13]) =
      some (.block 1 (lineSum (proposalLine 67 (sb "EM") mid (size : Int) (csize : Int))) [csize]) := by
  have hp := propLine?_ok mid size csize hmid
  have hsum := byteSum_line _ (proposalLine_ascii mid size csize hmid)
  rw [proposalLine_nat] at hp hsum ⊢
  have := step_open hs 67 (32 :: ([69, 77] ++ 32 :: (mid ++ 32 :: (dec size ++ 32 :: (dec csize ++ 32 :: [48, 13]))))) (by decide)
  simp only [List.cons_append, List.nil_append] at this hp hsum ⊢
  rw [this]
  simp [turnOpen, lineFF, lineFQ, hp, hsum]

theorem step_block_prop (k sum : Nat) (cs : List Nat) (hk : k < 5) (mid : Bytes) (size csize : Nat)
    (hmid : isMid mid = true) :
    step (.block k sum cs) (proposalLine 67 (sb "EM") mid (size : Int) (csize : Int) ++ [13]) =
      some (.block (k + 1) (sum + lineSum (proposalLine 67 (sb "EM") mid (size : Int) (csize : Int))) (cs ++ [csize])) := by
  have hp := propLine?_ok mid size csize hmid
  have hsum := byteSum_line _ (proposalLine_ascii mid size csize hmid)
  have he : isErrEcho (proposalLine 67 (sb "EM") mid (size : Int) (csize : Int) ++ [13]) = false := by
    rw [proposalLine_nat]; exact isErrEcho_cons _ _ (by decide)
  simp [step, he, hp, hk, hsum]

theorem step_block_prompt (k sum : Nat) (cs : List Nat) :
    step (.block k sum cs) (promptLine sum) = some (.idle cs) := by
  have he : isErrEcho (promptOf sum) = false := isErrEcho_cons _ _ (by decide)
  simp [step, promptLine_eq_promptOf, he, propLine?_prompt]

theorem sb_FF : sb "FF\r" = lineFF := by decide +kernel
theorem sb_FQ : sb "FQ\r" = lineFQ := by decide +kernel

theorem step_open_FF {s : GState} (hs : TurnStart s) : step s (sb "FF\r") = some (.idle []) := by
  rw [sb_FF]
  have := step_open hs 70 [13] (by decide)
  rw [show lineFF = [70, 70, 13] from rfl, this]
  decide

theorem step_open_FQ {s : GState} (hs : TurnStart s) : step s (sb "FQ\r") = some .ended := by
  rw [sb_FQ]
  have := step_open hs 81 [13] (by decide)
  rw [show lineFQ = [70, 81, 13] from rfl, this]
  decide

/-- the three answers, as the grammar spells them -/
theorem plain_cases {a : UInt8} (h : PlainAnswer a) : (a == 43 || a == 45 || a == 61) = true := by
  rcases h with h | h | h <;> subst h <;> decide

theorem step_idle_fs (pend : List Nat) (as : List UInt8) (hne : as ≠ []) (hp : ∀ a ∈ as, PlainAnswer a) :
    step (.idle pend) (sb "FS " ++ as ++ [13]) = some .myTurn := by
  have h13 : (13 : UInt8) ∉ as := by
    intro h
    have := plain_cases (hp 13 h)
    revert this; decide
  have hall : as.all (fun a => a == 43 || a == 45 || a == 61) = true := by
    rw [List.all_eq_true]; exact fun a ha => plain_cases (hp a ha)
  have hemp : as.isEmpty = false := by cases as with | nil => exact absurd rfl hne | cons _ _ => rfl
  have hbs : sb "FS " ++ as ++ [13] = 70 :: 83 :: 32 :: (as ++ [13]) := by rw [sb_FS]; rfl
  rw [hbs]
  have he : isErrEcho (70 :: 83 :: 32 :: (as ++ [13])) = false := isErrEcho_cons _ _ (by decide)
  have h1 : header? (70 :: 83 :: 32 :: (as ++ [13])) = none := by simp [header?]
  have h2 : isFsLine (70 :: 83 :: 32 :: (as ++ [13])) = true := by
    simp only [isFsLine]
    rw [splitOn_append_sep 13 [] as h13]
    simp [splitOn, hemp, hall]
  simp [step, he, h1, h2]


/-! ### transfers -/

/-- what the grammar asks of a (Q-encoded) title the LOCAL handler supplies: non-empty, printable ASCII
(so no NUL), and short enough for the one-byte header length with any offset up to 999999 -/
def TitleOK (q : Bytes) : Prop := q ≠ [] ∧ q.all isPrint = true ∧ q.length ≤ 247

theorem header?_ok (q : Bytes) (n : Nat) (hq : TitleOK q) (hn : n ≤ 999999) :
    header? (frameHeader q (n : Int)) = some n := by
  obtain ⟨hne, hpr, hlen⟩ := hq
  have h0q : (0 : UInt8) ∉ q := notMem_of_all hpr (by decide)
  have h0d : (0 : UInt8) ∉ dec n := notMem_of_all (dec_all n) (by decide)
  have hdl : (dec n).length ≤ 6 := dec_length_le 6 n (by decide) (by omega)
  have hemp : q.isEmpty = false := by cases q with | nil => exact absurd rfl hne | cons _ _ => rfl
  have hform : frameHeader q (n : Int) =
      1 :: UInt8.ofNat ((q.length + (dec n).length + 2) % 256) :: (q ++ 0 :: (dec n ++ 0 :: [])) := by
    simp [frameHeader, decInt_nat]
  rw [hform]
  simp only [header?]
  rw [splitOn_append_sep 0 _ q h0q, splitOn_append_sep 0 _ (dec n) h0d]
  have hmod : (q.length + (dec n).length + 2) % 256 = q.length + (dec n).length + 2 := Nat.mod_eq_of_lt (by omega)
  simp [splitOn, hmod, hemp, hpr, dec_isNum, (dec_spec n).2]

theorem step_idle_header (pend : List Nat) (hp : pend ≠ []) (q : Bytes) (n : Nat) (hq : TitleOK q) (hn : n ≤ 999999) :
    step (.idle pend) (frameHeader q (n : Int)) = some (.xfer n 0 0 pend) := by
  have hh := header?_ok q n hq hn
  have he : isErrEcho (frameHeader q (n : Int)) = false := by
    simp only [frameHeader, List.cons_append]; exact isErrEcho_cons _ _ (by decide)
  have hemp : pend.isEmpty = false := by cases pend with | nil => exact absurd rfl hp | cons _ _ => rfl
  simp [step, he, hh, hemp]

theorem step_xfer_block (off len sum : Nat) (pend : List Nat) (c : Bytes) (h1 : 1 ≤ c.length) (h2 : c.length ≤ 255) :
    step (.xfer off len sum pend) ([2, UInt8.ofNat (c.length % 256)] ++ c) =
      some (.xfer off (len + c.length) (sum + dataSum c) pend) := by
  have he : isErrEcho (2 :: UInt8.ofNat (c.length % 256) :: c) = false := isErrEcho_cons _ _ (by decide)
  have hn : (UInt8.ofNat (c.length % 256)).toNat = c.length := by simp; omega
  have h1' : 1 ≤ c.length := h1
  simp [step, he, hn, h1', byteSum_eq_dataSum]

theorem step_xfer_eot (off len sum : Nat) (pend pend' : List Nat) (ck : UInt8) (hck : (sum + ck.toNat) % 256 = 0)
    (hd : dropThrough (len + off) pend = some pend') :
    step (.xfer off len sum pend) [4, ck] = some (.idle pend') := by
  have he : isErrEcho [4, ck] = false := isErrEcho_cons _ _ (by decide)
  simp [step, he, hck, hd]

theorem dropThrough_sublist (x : Nat) (rest : List Nat) : ∀ (pend : List Nat), (x :: rest).Sublist pend →
    ∃ pend', dropThrough x pend = some pend' ∧ rest.Sublist pend' := by
  intro pend
  induction pend with
  | nil => intro h; cases h
  | cons y r ih =>
    intro h
    by_cases hy : y = x
    · subst hy
      refine ⟨r, by simp [dropThrough], ?_⟩
      cases h with
      | cons _ h => exact (List.sublist_cons_self _ _).trans h
      | cons_cons _ h => exact h
    · cases h with
      | cons _ h =>
        obtain ⟨p', h1, h2⟩ := ih h
        exact ⟨p', by simp [dropThrough, hy, h1], h2⟩
      | cons_cons _ h => exact absurd rfl hy

/-! ### the error line -/

theorem emit_sb_stars : sb "*** " = [42, 42, 42, 32] := by decide +kernel

theorem isErrEcho_ok (m : Bytes) (h : (13 : UInt8) ∉ m) : isErrEcho (sb "*** " ++ m ++ [13, 10]) = true := by
  rw [emit_sb_stars]
  simp only [isErrEcho, List.cons_append, List.nil_append, List.take, List.drop, List.append_assoc]
  rw [splitOn_append_sep 13 [10] m h]
  simp [splitOn]

theorem step_err (s : GState) (hs : errAllowed s = true) (m : Bytes) (h : (13 : UInt8) ∉ m) :
    step s (sb "*** " ++ m ++ [13, 10]) = some .ended := by
  unfold step
  rw [isErrEcho_ok m h]
  simp [hs]

end Wl2k.B2F
