import Wl2kVerif.Proofs.AlterHeader
/-
Insertion of one byte into the header of a transfer frame.
-/
namespace Wl2k.B2F
open Wl2k Wl2k.Strconv

variable {H : Type} (hstep : H → Call → H × Reply)

theorem atoi_48 : atoi [48] = (0, false) := by decide

/-- the block loop on a stream that starts with a byte that is neither STX nor EOT -/
theorem run_readBlocks_bad (csize : Int) (fuel : Nat) (c : UInt8) (X : Bytes) (h2 : c ≠ 2) (h4 : c ≠ 4)
    (hf : 0 < fuel) (h : H) (tr : List Ev) :
    Proc.run hstep (readBlocks csize fuel [] 0) (c :: X) h tr =
      (.done (.error (.proto "unexpected-byte-in-compressed-stream")), X, h, tr) := by
  cases fuel with
  | zero => omega
  | succ f => simp only [readBlocks, Proc.run, h2, h4, if_false]

/-- header `SOH hl t NUL o NUL X` with a wrong length byte -/
theorem run_rc_hdr_mismatch (fuel : Nat) (p : Proposal) (hl : UInt8) (t o X : Bytes)
    (h0t : (0 : UInt8) ∉ t) (h0o : (0 : UInt8) ∉ o) (hft : t.length < fuel) (hfo : o.length < fuel)
    (hne : hl.toNat ≠ t.length + o.length + 2) (h : H) (tr : List Ev) :
    Proc.run hstep (readCompressed fuel p) (1 :: hl :: (t ++ 0 :: (o ++ 0 :: X))) h tr =
      (.done (.error (.proto "header-length-mismatch")), X, h, tr) := by
  rw [run_rc_hdr hstep fuel p hl t o X h0t h0o hft hfo h tr, if_pos hne]

/-- **Insertion into the header.** `k = j + 2` with `j ≤ |qtitle| + 2`: any position from the first title
byte up to directly in front of the final NUL. -/
theorem run_rc_header_insert (m : Nat) (qtitle d rest : Bytes) (hq : (0 : UInt8) ∉ qtitle)
    (hlen : qtitle.length + 3 < 256) (p : Proposal) (hoff : p.offset = 0)
    (fuel : Nat) (hfuel : qtitle.length + 4 < fuel) (h : H) (tr : List Ev)
    (k : Nat) (hk2 : 2 ≤ k) (hk : k ≤ qtitle.length + 4) (b : UInt8) :
    ∃ rem, Proc.run hstep (readCompressed fuel p) ((frameOf m qtitle d).insertIdx k b ++ rest) h tr =
      (.done (.error (.proto (if k = qtitle.length + 4 ∧ b = 0 then "unexpected-byte-in-compressed-stream"
        else "header-length-mismatch"))), rem, h, tr) := by
  obtain ⟨j, rfl⟩ : ∃ j, k = j + 2 := ⟨k - 2, by omega⟩
  have hL := lenByte_toNat qtitle hlen
  rw [frameOf_cons, List.insertIdx_succ_cons, List.insertIdx_succ_cons]
  by_cases hj : j ≤ qtitle.length
  · -- inside the title, or directly in front of the first NUL
    rw [if_neg (by omega), insertIdx_append_left b _ qtitle j hj, insertIdx_take_drop b qtitle j hj]
    have ⟨ht, hd⟩ := not_mem_take_drop qtitle hq j j
    by_cases hb : b = 0
    · subst hb
      refine ⟨48 :: 0 :: (frameTail m d ++ rest), ?_⟩
      have := run_rc_hdr_mismatch hstep fuel p (lenByte qtitle) (qtitle.take j) (qtitle.drop j)
        (48 :: 0 :: (frameTail m d ++ rest)) ht hd (by simp; omega) (by simp; omega)
        (by simp; omega) h tr
      simpa using this
    · refine ⟨frameTail m d ++ rest, ?_⟩
      have := run_rc_hdr_mismatch hstep fuel p (lenByte qtitle) (qtitle.take j ++ b :: qtitle.drop j) [48]
        (frameTail m d ++ rest)
        (by simp only [List.mem_append, List.mem_cons, not_or]; exact ⟨ht, fun e => hb e.symm, hd⟩)
        (by decide) (by simp; omega) (by simp; omega) (by simp; omega) h tr
      simpa using this
  · by_cases hj1 : j = qtitle.length + 1
    · -- directly in front of the offset digit
      subst hj1
      rw [if_neg (by omega), insertIdx_append_right b _ qtitle 1]
      simp only [List.insertIdx_succ_cons, List.insertIdx_zero]
      by_cases hb : b = 0
      · subst hb
        refine ⟨48 :: 0 :: (frameTail m d ++ rest), ?_⟩
        have := run_rc_hdr_mismatch hstep fuel p (lenByte qtitle) qtitle [] (48 :: 0 :: (frameTail m d ++ rest))
          hq (by simp) (by omega) (by simp; omega) (by simp; omega) h tr
        simpa using this
      · refine ⟨frameTail m d ++ rest, ?_⟩
        have := run_rc_hdr_mismatch hstep fuel p (lenByte qtitle) qtitle [b, 48] (frameTail m d ++ rest)
          hq (by simp only [List.mem_cons, not_or]; exact ⟨fun e => hb e.symm, by decide, by simp⟩)
          (by omega) (by simp; omega) (by simp; omega) h tr
        simpa using this
    · -- directly in front of the final NUL
      have hj2 : j = qtitle.length + 2 := by omega
      subst hj2
      rw [insertIdx_append_right b _ qtitle 2]
      simp only [List.insertIdx_succ_cons, List.insertIdx_zero]
      by_cases hb : b = 0
      · subst hb
        rw [if_pos (by simp)]
        refine ⟨frameTail m d ++ rest, ?_⟩
        have := run_rc_hdr hstep fuel p (lenByte qtitle) qtitle [48] (0 :: (frameTail m d ++ rest))
          hq (by decide) (by omega) (by simp; omega) h tr
        rw [if_neg (by simp; omega), atoi_48, if_neg (by simp), if_neg (by simp [hoff]),
          run_readBlocks_bad hstep p.csize fuel 0 _ (by decide) (by decide) (by omega)] at this
        simpa using this
      · rw [if_neg (by simp [hb])]
        refine ⟨frameTail m d ++ rest, ?_⟩
        have := run_rc_hdr_mismatch hstep fuel p (lenByte qtitle) qtitle [48, b] (frameTail m d ++ rest)
          hq (by simp only [List.mem_cons, not_or]; exact ⟨by decide, fun e => hb e.symm, by simp⟩)
          (by omega) (by simp; omega) (by simp; omega) h tr
        simpa using this

end Wl2k.B2F
