import Wl2kVerif.Proofs.Telnet
/-
The dialler and the listener as a PAIR of blocking processes: what each side has written so far is a
function of what has been delivered to it so far (the peer being silent beyond that). A state in
which nothing is in flight is *quiescent*. `Props.C15.pair_never_stuck` shows that the only
quiescent state is the completed one - so under every schedule of deliveries the two logins run to
completion (each delivery hands over at least one byte and the streams are finite).
-/
namespace Wl2k.Telnet
open Wl2k Wl2k.Str

def Accept.writes : Accept → List Bytes
  | .conn _ _ w => w
  | .rawErr _ w => w
  | .hang w => w
  | .fuel => []

def Accept.loggedIn : Accept → Bool
  | .conn _ none _ => true
  | _ => false

def Dial.writes : Dial → List Bytes
  | .conn _ w _ => w
  | .fail _ w _ => w
  | .hang w => w
  | .fuel => []

def Dial.loggedIn : Dial → Bool
  | .conn _ _ _ => true
  | _ => false

theorem splitCR_eq_none {s : Bytes} (h : (13 : UInt8) ∉ s) : splitCR s = none := by
  cases hs : splitCR s with
  | none => rfl
  | some p =>
    obtain ⟨l, r⟩ := p
    obtain ⟨x, hx, _, hsr⟩ := splitCR_some hs
    exact absurd (by rw [hsr, hx]; simp) h

/-- Without deadline and with a peer that does not close, a read never fails. -/
theorem recv_nofail {now cap : Nat} {e : IOErr} {t : Nat} :
    ∀ (cs : Chunks), recv none now cap none cs ≠ .fail e t
  | [] => by simp [recv]
  | (tc, c) :: cs => by
    simp only [recv]
    split
    · exact recv_nofail cs
    · simp [due]

theorem readLineF_nofail {e : IOErr} {t : Nat} : ∀ (f : Nat) (acc : Bytes) (r : Rd),
    readLineF none none f acc r ≠ .fail e t
  | 0, _, _ => by simp [readLineF]
  | f + 1, acc, r => by
    simp only [readLineF]
    split
    · simp
    · split
      · exact readLineF_nofail f _ _
      · next hr => exact absurd hr (recv_nofail _)
      · simp

/-- No CR delivered yet, peer silent, no deadline: `ReadString` blocks. -/
theorem readLineF_hang : ∀ (f : Nat) (acc : Bytes) (r : Rd),
    (flat r.chunks).length < f → (13 : UInt8) ∉ r.stream → readLineF none none f acc r = .hang
  | 0, _, _, h, _ => by omega
  | f + 1, acc, r, h, hcr => by
    have hb : (13 : UInt8) ∉ r.buf := by
      intro hm; exact hcr (by simp [Rd.stream, hm])
    have hc : (13 : UInt8) ∉ flat r.chunks := by
      intro hm; exact hcr (by simp [Rd.stream, hm])
    simp only [readLineF, splitCR_eq_none hb]
    split
    · next now bs rest hr =>
      obtain ⟨hne, _, hcons, _⟩ := recv_data (cap_pos r.buf) hr
      apply readLineF_hang
      · have := congrArg List.length hcons
        simp only [List.length_append] at this
        have : 0 < bs.length := List.length_pos_iff.mpr hne
        simp only
        omega
      · simp only [Rd.stream, List.append_assoc, hcons, List.mem_append, not_or]
        refine ⟨?_, hc⟩
        split
        · simp
        · exact hb
    · next hr => exact absurd hr (recv_nofail _)
    · rfl

theorem readLine_hang {r : Rd} (h : (13 : UInt8) ∉ r.stream) : readLine none none r = .hang :=
  readLineF_hang _ _ _ (Nat.lt_succ_self _) h

theorem readLine_nofail {r : Rd} {e : IOErr} {t : Nat} : readLine none none r ≠ .fail e t :=
  readLineF_nofail _ _ _

/-- `ReadString` on a stream that starts with a line, no deadline (any `close`). -/
theorem readLine_line' {close : Option Nat} {r : Rd} {l rest : Bytes} (hl : Line l)
    (hs : r.stream = l ++ rest) :
    ∃ r', readLine none close r = .ok l r' ∧ r'.stream = rest := by
  obtain ⟨r', h1, h2, _⟩ := readLine_line (D := none) (close := close) hl hs rfl (fun _ _ => rfl)
  exact ⟨r', h1, h2⟩

/-- The dialler after exactly the callsign prompt has been delivered: it has answered with the
callsign and is blocked waiting for the next line. -/
theorem dial_after_callPrompt (classify : Bytes → Kind) (cfg : Cfg) (call pw : Bytes) (cs : Chunks)
    (hk : classify callPrompt = .callsign) (hflat : flat cs = callPrompt) :
    dial classify cfg none none call pw 0 cs = .hang [call ++ [13]] := by
  have hcp : Line callPrompt := ⟨callPrompt.dropLast, by decide, by decide⟩
  obtain ⟨r1, h1, hs1⟩ := readLine_line' (close := none) (r := ⟨[], cs, 0⟩) hcp (rest := [])
    (by simp [Rd.stream, hflat])
  have h2 : readLine none none r1 = .hang := readLine_hang (by simp [hs1])
  obtain ⟨f, hf⟩ : ∃ f, (flat cs).length + 1 = f + 1 + 1 := ⟨10, by rw [hflat]; decide⟩
  have hD : (if cfg.loginDeadline = true then (none : Option Nat) else none) = none := by split <;> rfl
  simp only [dial, hD]
  rw [hf]
  simp only [clientLoop, h1, hk, h2, List.nil_append]

end Wl2k.Telnet
