import Wl2kVerif.Proofs.Mbox
namespace Wl2k.Path
open Wl2k Wl2k.Str

/-- `Split(a + sep + b) = Split(a) ++ Split(b)`. -/
theorem splitOn_append_sep (sep : UInt8) (a b : Bytes) :
    splitOn sep (a ++ sep :: b) = splitOn sep a ++ splitOn sep b := by
  induction a with
  | nil => simp [splitOn]
  | cons x t ih =>
    by_cases hx : x = sep
    · subst hx; simp [splitOn, ih]
    · simp only [List.cons_append, splitOn, if_neg hx, ih]
      cases hs : splitOn sep t with
      | nil => exact absurd hs (splitOn_ne_nil sep t)
      | cons h r => simp

theorem popAux_spec (dd : Nat) (rk : Bytes) (d : UInt8) (h : dd ≤ rk.length) :
    (popAux dd rk d) <:+ rk ∧ dd ≤ (popAux dd rk d).length := by
  induction rk generalizing d with
  | nil => simp [popAux]; simpa using h
  | cons b t ih =>
    unfold popAux
    split
    · rename_i hc
      have : dd ≤ t.length := by have := hc.1; simp at this; omega
      obtain ⟨h1, h2⟩ := ih b this
      exact ⟨h1.trans (List.suffix_cons b t), h2⟩
    · exact ⟨List.suffix_refl _, h⟩

theorem prefix_head {l₁ l₂ : Bytes} (h : l₁ <+: l₂) (hne : l₁ ≠ []) : l₁.head? = l₂.head? := by
  obtain ⟨t, rfl⟩ := h
  cases l₁ with
  | nil => exact absurd rfl hne
  | cons a r => rfl

theorem popElem_spec (out : Bytes) (dd : Nat) (h : dd < out.length) :
    popElem out dd <+: out ∧ dd ≤ (popElem out dd).length := by
  unfold popElem
  cases hr : out.reverse with
  | nil => simp at hr; subst hr; simp at h
  | cons d rk =>
    have hlen : dd ≤ rk.length := by
      have := congrArg List.length hr; simp at this; omega
    obtain ⟨h1, h2⟩ := popAux_spec dd rk d hlen
    constructor
    · have : (popAux dd rk d) <:+ out.reverse := by rw [hr]; exact h1.trans (List.suffix_cons d rk)
      have := List.reverse_prefix.mpr this
      simpa using this
    · simpa using h2

/-- Rooted invariant of `Clean`'s loop: the buffer starts with `/`, `dotdot = 1`. -/
def RInv (st : Bytes × Nat) : Prop := st.1.head? = some 47 ∧ st.2 = 1

theorem stepComp_rinv (st : Bytes × Nat) (c : Bytes) (h : RInv st) : RInv (stepComp true st c) := by
  obtain ⟨hh, hd⟩ := h
  have hne : st.1 ≠ [] := by intro e; rw [e] at hh; simp at hh
  unfold stepComp
  split
  · exact ⟨hh, hd⟩
  · split
    · exact ⟨hh, hd⟩
    · split
      · split
        · rename_i hlt
          obtain ⟨hp, hl⟩ := popElem_spec st.1 st.2 hlt
          refine ⟨?_, hd⟩
          have hne' : popElem st.1 st.2 ≠ [] := by
            intro e; rw [e, hd] at hl; simp at hl
          show (popElem st.1 st.2).head? = some 47
          rw [prefix_head hp hne', hh]
        · simp only [Bool.not_true, Bool.false_eq_true, if_false]
          exact ⟨hh, hd⟩
      · refine ⟨?_, hd⟩
        show List.head? (_ ++ c) = some 47
        cases hs : st.1 with
        | nil => exact absurd hs hne
        | cons a t =>
          rw [hs] at hh
          split <;> simpa using hh

theorem fold_rinv (cs : List Bytes) (st : Bytes × Nat) (h : RInv st) : RInv (cs.foldl (stepComp true) st) := by
  induction cs generalizing st with
  | nil => exact h
  | cons c r ih => exact ih _ (stepComp_rinv st c h)

theorem isUnder_append (out x : Bytes) (hne : out ≠ []) : isUnder out (out ++ 47 :: x) = true := by
  unfold isUnder
  by_cases h1 : out = [47]
  · subst h1; simp
  · by_cases h2 : out = [46]
    · subst h2; simp [List.isPrefixOf]
    · rw [if_neg h1, if_neg h2]
      simp


theorem stepComp_elem' (r : Bool) (st : Bytes × Nat) (c : Bytes) (h : Elem c) :
    stepComp r st c =
      ((if (r && st.1.length != 1) || (!r && st.1.length != 0) then st.1 ++ [47] else st.1) ++ c, st.2) := by
  unfold stepComp
  simp [h.1, h.2.2.1, h.2.2.2]

theorem isRooted_append (a b : Bytes) (h : a ≠ []) : isRooted (a ++ b) = isRooted a := by
  cases a with
  | nil => exact absurd rfl h
  | cons x t => rfl

end Wl2k.Path

namespace Wl2k.Mbox
open Wl2k Wl2k.Str Wl2k.Path

/-- **For ANY configured mailbox path (relative, unclean, with `..`) and any plain element `name`, the
path `path.Join(root, "/in/", name)` lies under `path.Clean(root)`.** -/
theorem join_confined_elem (root name : Bytes) (f : Folder) (hr : root ≠ []) (hn : Elem name) :
    isUnder (clean root) (Path.join [root, f.dir, name]) = true := by
  have hfn := Folder.name_elem f
  rw [join_ne _ _ hr (by simp), joinBuf3 _ _ _ hr, Folder.dir_eq]
  have hbuf : root ++ 47 :: (47 :: f.name ++ [47]) ++ 47 :: name =
      root ++ 47 :: ([] ++ 47 :: (f.name ++ 47 :: ([] ++ 47 :: name))) := by simp
  have hsplit : splitOn 47 (root ++ 47 :: (47 :: f.name ++ [47]) ++ 47 :: name) =
      splitOn 47 root ++ [[], f.name, [], name] := by
    rw [hbuf, splitOn_append_sep, splitOn_append 47 [] _ (by simp), splitOn_append 47 f.name _ hfn.2.1,
      splitOn_append 47 [] _ (by simp), splitOn_nosep 47 name hn.2.1]
  have hne : root ++ 47 :: (47 :: f.name ++ [47]) ++ 47 :: name ≠ [] := by simp [hr]
  have hrooted : isRooted (root ++ 47 :: (47 :: f.name ++ [47]) ++ 47 :: name) = isRooted root := by
    rw [List.append_assoc, isRooted_append _ _ hr]
  -- state after the elements of `root`
  have hS : cleanState (root ++ 47 :: (47 :: f.name ++ [47]) ++ 47 :: name) =
      stepComp (isRooted root) (stepComp (isRooted root) (cleanState root) f.name) name := by
    unfold cleanState
    rw [hrooted, hsplit, List.foldl_append]
    simp only [List.foldl_cons, List.foldl_nil, stepComp_nil]
  have hcr : clean root = if (cleanState root).1 = [] then [46] else (cleanState root).1 := by
    unfold clean; rw [if_neg hr]
  have hcb : clean (root ++ 47 :: (47 :: f.name ++ [47]) ++ 47 :: name) =
      if (cleanState (root ++ 47 :: (47 :: f.name ++ [47]) ++ 47 :: name)).1 = [] then [46]
      else (cleanState (root ++ 47 :: (47 :: f.name ++ [47]) ++ 47 :: name)).1 := by
    unfold clean; rw [if_neg hne]
  have hfl : 2 ≤ f.name.length := by cases f <;> simp [Folder.name]
  rw [hcb, hS, stepComp_elem' _ _ _ hfn, stepComp_elem' _ _ _ hn, hcr]
  generalize hst : cleanState root = st
  obtain ⟨out, dd⟩ := st
  simp only
  -- second push always adds the separator
  have hlen1 : ∀ o : Bytes, (o ++ f.name).length ≠ 1 ∧ (o ++ f.name).length ≠ 0 := by
    intro o; simp only [List.length_append]; omega
  cases hR : isRooted root with
  | true =>
    have hinv : RInv (cleanState root) := by
      unfold cleanState; rw [hR]; exact fold_rinv _ _ ⟨rfl, rfl⟩
    rw [hst] at hinv
    have hne' : out ≠ [] := by intro e; have := hinv.1; simp [e] at this
    simp only [Bool.true_and, Bool.not_true, Bool.false_and, Bool.or_false]
    by_cases h1 : out.length = 1
    · have hout : out = [47] := by
        cases out with
        | nil => exact absurd rfl hne'
        | cons a t =>
          have ha : a = 47 := by have := hinv.1; simpa using this
          have ht : t = [] := by simpa using h1
          rw [ha, ht]
      subst hout
      simp [isUnder, hfn.1]
    · have : (out.length != 1) = true := by simpa using h1
      simp only [this, if_true, if_neg hne']
      have h2 : ((out ++ [47] ++ f.name).length != 1) = true := by
        simp only [bne_iff_ne, ne_eq, List.length_append, List.length_cons, List.length_nil]; omega
      have e : (if ((out ++ [47] ++ f.name).length != 1) = true then out ++ [47] ++ f.name ++ [47] else out ++ [47] ++ f.name) ++ name
          = out ++ 47 :: (f.name ++ 47 :: name) := by rw [if_pos h2]; simp
      have hnil : ¬ (out ++ 47 :: (f.name ++ 47 :: name)) = [] := by simp
      rw [e, if_neg hnil]
      exact isUnder_append out _ hne'
  | false =>
    simp only [Bool.false_and, Bool.not_false, Bool.true_and, Bool.false_or]
    by_cases h0 : out = []
    · subst h0
      simp only [List.length_nil, bne_self_eq_false, Bool.false_eq_true, if_false, List.nil_append, if_true]
      have h2 : (f.name.length != 0) = true := by simpa using (hlen1 []).2
      rw [if_pos h2]
      cases f <;> simp [isUnder, Folder.name, List.isPrefixOf]
    · have : (out.length != 0) = true := by simpa using h0
      simp only [this, if_true, if_neg h0]
      have h2 : ((out ++ [47] ++ f.name).length != 0) = true := by
        simp only [bne_iff_ne, ne_eq, List.length_append, List.length_cons, List.length_nil]; omega
      have e : (if ((out ++ [47] ++ f.name).length != 0) = true then out ++ [47] ++ f.name ++ [47] else out ++ [47] ++ f.name) ++ name
          = out ++ 47 :: (f.name ++ 47 :: name) := by rw [if_pos h2]; simp
      have hnil : ¬ (out ++ 47 :: (f.name ++ 47 :: name)) = [] := by simp
      rw [e, if_neg hnil]
      exact isUnder_append out _ h0


/-! ### The write set of the operations (property C12) -/

/-- Every logged path is a file of one of the four folders. -/
def TInv (root : FPath) (fs : FS) : Prop := ∀ p ∈ fs.touched, ∃ f n, p = fp root f n

theorem wfa_touched (fs : FS) (p : FPath) (c : Bytes) :
    ∀ q ∈ (writeFileAtomic fs p c).1.touched, q ∈ fs.touched ∨ q = p ++ tmpExt ∨ q = p := by
  intro q hq
  cases hw : fs.writeFile (p ++ tmpExt) c with
  | none =>
    simp only [writeFileAtomic, hw, FS.remove, FS.touch, FS.delFile, List.mem_append, List.mem_singleton] at hq
    rcases hq with h | h
    · exact Or.inl h
    · exact Or.inr (Or.inl h)
  | some fs1 =>
    have h1 : fs1.touched = fs.touched ++ [p ++ tmpExt] := by
      unfold FS.writeFile at hw
      split at hw
      · simp only [Option.some.injEq] at hw; rw [← hw]; rfl
      · exact absurd hw (by simp)
    cases hrn : fs1.rename (p ++ tmpExt) p with
    | none =>
      simp only [writeFileAtomic, hw, hrn, FS.remove, FS.touch, FS.delFile, List.mem_append,
        List.mem_singleton, h1] at hq
      rcases hq with (h | h) | h
      · exact Or.inl h
      · exact Or.inr (Or.inl h)
      · exact Or.inr (Or.inl h)
    | some fs2 =>
      have h2 : fs2.touched = fs1.touched ++ [p ++ tmpExt, p] := by
        unfold FS.rename at hrn
        split at hrn
        · exact absurd hrn (by simp)
        · split at hrn
          · simp only [Option.some.injEq] at hrn; rw [← hrn]; rfl
          · exact absurd hrn (by simp)
      simp only [writeFileAtomic, hw, hrn, h2, h1, List.mem_append, List.mem_singleton, List.mem_cons,
        List.mem_nil_iff, or_false] at hq
      rcases hq with (h | h) | h | h
      · exact Or.inl h
      · exact Or.inr (Or.inl h)
      · exact Or.inr (Or.inl h)
      · exact Or.inr (Or.inr h)

theorem tinv_wfa {root : FPath} {fs : FS} (h : TInv root fs) (f : Folder) (n : Bytes) (c : Bytes) :
    TInv root (writeFileAtomic fs (fp root f n) c).1 := by
  intro q hq
  rcases wfa_touched fs _ c q hq with h1 | h1 | h1
  · exact h q h1
  · exact ⟨f, n ++ tmpExt, by rw [h1, fp_tmp]⟩
  · exact ⟨f, n, h1⟩

theorem tinv_processInbound {C : Codec} {root : FPath} (hr : NormalRoot root) (ms : List Msg) :
    ∀ d : DState, d.h.root = root → TInv root d.fs → TInv root (processInbound C d ms).1.fs := by
  induction ms with
  | nil => intro d _ h; exact h
  | cons m rest ih =>
    intro d hroot h
    simp only [processInbound]
    cases hv : validMID m.mid with
    | false => exact h
    | true =>
      simp only [Bool.not_true, Bool.false_eq_true, if_false]
      have hp : msgPath2 d.h.root .inbox (m.mid ++ ext) = fp root .inbox (m.mid ++ ext) := by
        rw [hroot]; exact msgPath2_eq hr _ _ (elem_name hv)
      rw [hp]
      have ht := tinv_wfa h .inbox (m.mid ++ ext) (C.ser m.setUnreadHdr)
      split
      · exact ih _ hroot ht
      · exact ht

/-- One operation keeps the write set inside the four folders (on every reachable state). -/
theorem step_touched {C root d s es} (hl : C.Lawful) (hr : NormalRoot root) (r : Rel C root d s es)
    (h : TInv root d.fs) (op : Op) : TInv root (step C d op).1.fs := by
  cases op with
  | newHandler so => exact h
  | prepare =>
    simp only [step]
    cases he : ensureDirStructure d.fs d.h.root with
    | none => exact h
    | some fs =>
      have : fs.touched = d.fs.touched := by
        have key : ∀ (a b : FS) (p : FPath), a.mkdirAll p = some b → b.touched = a.touched := by
          intro a b p hab
          unfold FS.mkdirAll at hab
          split at hab
          · exact absurd hab (by simp)
          · simp only [Option.some.injEq] at hab; rw [← hab]
        unfold ensureDirStructure at he
        cases h1 : d.fs.mkdirAll (folderPath d.h.root .inbox) with
        | none => rw [h1] at he; exact absurd he (by simp)
        | some f1 =>
          rw [h1] at he; simp only [Option.bind_some] at he
          cases h2 : f1.mkdirAll (folderPath d.h.root .outbox) with
          | none => rw [h2] at he; exact absurd he (by simp)
          | some f2 =>
            rw [h2] at he; simp only [Option.bind_some] at he
            cases h3 : f2.mkdirAll (folderPath d.h.root .sent) with
            | none => rw [h3] at he; exact absurd he (by simp)
            | some f3 =>
              rw [h3] at he; simp only [Option.bind_some] at he
              rw [key _ _ _ he, key _ _ _ h3, key _ _ _ h2, key _ _ _ h1]
      intro q hq
      exact h q (by rw [← this]; exact hq)
  | addOut m =>
    simp only [step, addOut]
    cases hv : validMID m.mid with
    | false => exact h
    | true =>
      simp only [Bool.not_true, Bool.false_eq_true, if_false]
      have hp : msgPath3 d.h.root .outbox m.mid = fp root .outbox (m.mid ++ ext) := by
        rw [r.root]; exact join3_eq hr _ _ (elem_name hv)
      rw [hp]
      exact tinv_wfa h .outbox (m.mid ++ ext) (C.ser m)
  | processInbound ms => exact tinv_processInbound hr ms d r.root h
  | getInboundAnswer mid => exact h
  | setSent mid =>
    simp only [step, setSent]
    cases hv : validMID mid with
    | false => exact h
    | true =>
      simp only [Bool.not_true, Bool.false_eq_true, if_false]
      have hel := elem_name hv
      have hpo : msgPath3 d.h.root .outbox mid = fp root .outbox (mid ++ ext) := by
        rw [r.root]; exact join3_eq hr _ _ hel
      have hps : msgPath3 d.h.root .sent mid = fp root .sent (mid ++ ext) := by
        rw [r.root]; exact join3_eq hr _ _ hel
      rw [hpo, hps]
      cases hrn : d.fs.rename (fp root .outbox (mid ++ ext)) (fp root .sent (mid ++ ext)) with
      | none => exact h
      | some fs2 =>
        have h2 : fs2.touched = d.fs.touched ++ [fp root .outbox (mid ++ ext), fp root .sent (mid ++ ext)] := by
          unfold FS.rename at hrn
          split at hrn
          · exact absurd hrn (by simp)
          · split at hrn
            · simp only [Option.some.injEq] at hrn; rw [← hrn]; rfl
            · exact absurd hrn (by simp)
        intro q hq
        simp only [h2, List.mem_append, List.mem_cons, List.mem_nil_iff, or_false] at hq
        rcases hq with hq | hq | hq
        · exact h q hq
        · exact ⟨_, _, hq⟩
        · exact ⟨_, _, hq⟩
  | setDeferred mid =>
    simp only [step, setDeferred]
    split <;> exact h
  | getOutbound fws => exact h
  | list f => simp only [step]; split <;> exact h
  | count f => exact h
  | isUnread f mid =>
    simp only [step]
    split
    · exact h
    · split <;> exact h
  | setUnread f mid flag =>
    simp only [step]
    rw [load_rel hl hr r]
    cases hrd : s.ready with
    | false => exact h
    | true =>
      simp only [if_true]
      rw [find_sorted (g := fun e => e.m.setFilePath (e.path root)) (fun _ => rfl)]
      cases hfe : (sortedE es f).find? (fun e => e.m.mid = mid) with
      | none => exact h
      | some e =>
        simp only [Option.map_some]
        rw [setUnread_eq C d.fs e.m (e.path root) (fp_ne_nil _ _ _) flag]
        split
        · exact h
        · exact tinv_wfa h e.f (e.m.mid ++ ext) _

theorem run_touched {C root} (hl : C.Lawful) (hr : NormalRoot root) (ops : List Op) :
    ∀ {d s es}, Rel C root d s es → TInv root d.fs → TInv root (run C d ops).1.fs := by
  induction ops with
  | nil => intro d s es _ h; exact h
  | cons op rest ih =>
    intro d s es r h
    obtain ⟨es1, r1, _⟩ := step_sim hl hr r op
    have h1 := step_touched hl hr r h op
    simpa [run] using ih r1 h1

theorem clean_normalRoot {root : FPath} (hr : NormalRoot root) : clean root = root := by
  obtain ⟨cs, hne, hel, rfl⟩ := hr
  have hf : cs.filter (· ≠ []) = cs := by
    apply List.filter_eq_self.mpr; intro c hc; simpa using (hel c hc).1
  rw [clean_slashCat cs (fun x hx => Or.inl (hel x hx)) (by rw [hf]; exact hne), hf]

theorem isUnder_fp {root : FPath} (hr : NormalRoot root) (f : Folder) (n : Bytes) :
    isUnder (clean root) (fp root f n) = true := by
  rw [clean_normalRoot hr]
  have : fp root f n = root ++ 47 :: (f.name ++ 47 :: n) := by simp [fp]
  rw [this]
  exact isUnder_append root _ hr.ne_nil

end Wl2k.Mbox
