import Wl2kVerif.Proofs.Message5
namespace Wl2k.Msg
open Wl2k Wl2k.Textproto

theorem canon_kBody : canonKey kBody = kBody := by decide
theorem canon_kDate : canonKey kDate = kDate := by decide
theorem canon_kMid : canonKey kMid = kMid := by decide

theorem filesOK_nil_iff {X : Ext} {vs : List Bytes} {fs : List File} (h : filesOK X vs fs = true) :
    fs = [] ↔ vs = [] := by
  cases vs <;> cases fs <;> simp_all [filesOK]

/-- **Round trip**: parsing the serialisation of a well-formed message gives back the message with
its header values trimmed (and nothing else changed: same body, same attachments, no error). -/
theorem read_serial (X : Ext) (m : Msg) (h : wf X m = true) : read X (serial m) = .ok (norm m) := by
  have F := wf_facts h
  obtain ⟨v, hv, hne, hs⟩ := serial_shape F
  have hnb : isMidFold kBody = false := by decide
  have hnf : isMidFold kFile = false := by decide
  have hnd : isMidFold kDate = false := by decide
  -- leading white space: none
  have hdw : (serial m).dropWhile Str.isSpace = serial m := by
    rw [hs]
    simp [lineKV, line, kMid, List.dropWhile_cons, Str.isSpace]
  rw [read, hdw, hs, read_header F _ v hv]
  -- body
  have hbs : bodySize (normHeader m.header) = (m.body.length : Int) := by
    simp only [bodySize, Textproto.get, canon_kBody, getRaw_norm _ F.nodup _ hnb, F.body]
  have hfiles : lookup (normHeader m.header) kFile = (lookup m.header kFile).map trimString :=
    lookup_norm _ F.nodup _ hnf
  have hdate : dateOK X (get (normHeader m.header) kDate) = true := by
    simp only [Textproto.get, canon_kDate, getRaw_norm _ F.nodup _ hnd]
    have hd := F.date
    simp only [dateWF, Bool.or_eq_true] at hd
    rcases hd with hd | hd
    · have : getRaw m.header kDate = [] := by simpa using hd
      simp [this, dateOK, trimString, trimWith]
    · obtain ⟨c, hc⟩ := Option.isSome_iff_exists.1 hd
      rw [parsePrimary_trimmed hc]
      simp [dateOK, hd]
  dsimp only
  rw [hbs]
  by_cases hf : m.files = []
  · have hvs : lookup m.header kFile = [] := (filesOK_nil_iff F.files).1 hf
    simp only [hf, List.isEmpty_nil, if_true, List.flatMap_nil, List.append_nil, readSection_eof,
      hfiles, hvs, List.map_nil, readFiles, hdate, norm]
  · have hemp : m.files.isEmpty = false := by cases hm : m.files <;> simp_all
    have e : m.body ++ ((if m.files.isEmpty then [] else crlf9) ++ m.files.flatMap fileBytes) =
        m.body ++ 13 :: 10 :: m.files.flatMap fileBytes := by simp [hemp, crlf9]
    rw [e, readSection_crlf]
    simp only [hfiles, readFiles_ok X _ _ F.files, hdate, norm]
    rfl

/-! ### canonical form -/

theorem line_trim (k v : Bytes) : line k (trimString v) = line k v := by simp [line, trimString_idem]

theorem entryLines_trim (e : Bytes × List Bytes) : entryLines (trimEntry e) = entryLines e := by
  simp [entryLines, trimEntry, List.flatMap_map, line_trim]

theorem sortedB_others (h : Header) : sortedB (others h) = true := sortKeys_sorted _

theorem filter_others_norm (h : Header) :
    (normHeader h).filter (fun e => !isMidFold e.1) = (others h).map trimEntry := by
  have h1 : isMidFold kMid = true := by decide
  simp only [normHeader, List.filter_cons, h1, Bool.not_true, Bool.false_eq_true, if_false]
  apply List.filter_eq_self.2
  intro e he
  simp only [List.mem_map] at he
  obtain ⟨e', he', rfl⟩ := he
  simp [trimEntry, (mem_others.1 he').2]

theorem others_norm (h : Header) : others (normHeader h) = (others h).map trimEntry := by
  rw [others, filter_others_norm, sortKeys_id]
  rw [sortedB_map_trim]; exact sortedB_others h

/-- the normal form serialises to the same bytes -/
theorem serial_norm (X : Ext) (m : Msg) (h : wf X m = true) : serial (norm m) = serial m := by
  have F := wf_facts h
  obtain ⟨v, hv, hne⟩ := F.mid
  have hg : getRaw m.header kMid = v := by simp [getRaw, hv]
  have hg' : getRaw (normHeader m.header) kMid = trimString v := by simp [normHeader, getRaw, lookup, hv]
  have hw : (normHeader m.header).write = m.header.write := by
    have e1 : (trimString v).isEmpty = false := by cases ht : trimString v <;> simp_all
    have e2 : v.isEmpty = false := by
      cases v with
      | nil => exact absurd rfl hne
      | cons a t => rfl
    simp only [Header.write, hg, hg', e1, e2, others_norm, line_trim, List.flatMap_map]
    simp [Function.comp_def, entryLines_trim]
  simp [serial, norm, hw]

end Wl2k.Msg
