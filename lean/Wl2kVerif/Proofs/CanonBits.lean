import Wl2kVerif.Proofs.LzEnc
import Wl2kVerif.Lzhuf.Canon
/-
C07 (reverse direction) — the bit layer of the CANONICAL `EncodeChar`: LZHUF.C collects the code of a symbol
in a 16-bit `unsigned` (`i >>= 1; if (k & 1) i += 0x8000`) and hands it to ONE `Putcode(j, i)`.  As long as the
code has at most 16 bits (`j ≤ 16`) the top `j` bits of the accumulator spell `codeBits h c` exactly, and the
single `putCode` appends them (`encodeCharOld_code`).  For `j > 16` the first bits have been shifted out — this
is the limit named by the hypothesis of `Props.C07.go_decodes_canon`.
-/
namespace Wl2k.Lzhuf
open Wl2k.Bits

/-- one step of the 16-bit accumulator, numerically -/
theorem acc16_step (i : UInt64) (b : Prop) [Decidable b] (hi : i.toNat < 65536) :
    (if b then (i >>> 1) + 0x8000 else i >>> 1).toNat = i.toNat / 2 + (if b then 32768 else 0) := by
  have e1 : (1 : UInt64).toNat % 64 = 1 := by decide
  have hs : (i >>> 1).toNat = i.toNat / 2 := by
    rw [UInt64.toNat_shiftRight, e1, Nat.shiftRight_eq_div_pow]
  by_cases h : b
  · rw [if_pos h, if_pos h, UInt64.toNat_add, hs]
    have : (0x8000 : UInt64).toNat = 32768 := by decide
    rw [this]
    omega
  · rw [if_neg h, if_neg h, hs]; rfl

theorem acc16_bit (v : Nat) (b : Bool) (hv : v < 65536) (t : Nat) (ht : t ≤ 15) :
    (v / 2 + (if b = true then 32768 else 0)).testBit t = if t = 15 then b else v.testBit (t + 1) := by
  have hdiv : (v / 2).testBit t = v.testBit (t + 1) := by
    rw [Nat.testBit_div_two]
  have hlt : v / 2 < 2 ^ 15 := by omega
  cases b
  · simp only [Bool.false_eq_true, if_false, Nat.add_zero]
    rw [hdiv]
    split
    · rename_i h; subst h
      exact Nat.testBit_lt_two_pow (by omega)
    · rfl
  · simp only [if_true]
    have e : v / 2 + 32768 = 2 ^ 15 + v / 2 := by omega
    rw [e]
    by_cases h : t = 15
    · subst h
      rw [Nat.testBit_two_pow_add_eq, if_pos rfl, Nat.testBit_lt_two_pow hlt]; rfl
    · rw [if_neg h, Nat.testBit_two_pow_add_gt (by omega), hdiv]

theorem topBits_succ (j v : Nat) :
    topBits (j + 1) v = v.testBit 15 :: (List.range j).map (fun k => v.testBit (14 - k)) := by
  unfold topBits
  rw [List.range_succ_eq_map, List.map_cons, List.map_map]
  congr 1
  apply List.map_congr_left
  intro k _
  show v.testBit (15 - (k + 1)) = v.testBit (14 - k)
  congr 1; omega

/-- **the 16-bit accumulator of the canonical `EncodeChar` spells the code** while the length stays `≤ 16`;
its value always stays below `2^16`, and the bits below the code are zero. -/
theorem codeWalk_bits (prnt : Array Nat) : ∀ fuel k (i : UInt64) j, i.toNat < 65536 →
    (∀ t, t < 16 - j → i.toNat.testBit t = false) →
    (codeWalk prnt k i j fuel).2 = j + (upBits prnt k fuel).length ∧
    (codeWalk prnt k i j fuel).1.toNat < 65536 ∧
    ((codeWalk prnt k i j fuel).2 ≤ 16 →
      topBits (codeWalk prnt k i j fuel).2 (codeWalk prnt k i j fuel).1.toNat =
        (upBits prnt k fuel).reverse ++ topBits j i.toNat ∧
      ∀ t, t < 16 - (codeWalk prnt k i j fuel).2 → (codeWalk prnt k i j fuel).1.toNat.testBit t = false) := by
  intro fuel
  induction fuel with
  | zero => intro k i j hi hz; simp only [codeWalk, upBits]; exact ⟨rfl, hi, fun _ => ⟨by simp, hz⟩⟩
  | succ fuel ih =>
    intro k i j hi hz
    have hnum := acc16_step i (k % 2 = 1) hi
    have hnum' : (if k % 2 = 1 then (i >>> 1) + 0x8000 else i >>> 1).toNat =
        i.toNat / 2 + (if (k % 2 == 1) = true then 32768 else 0) := by
      rw [hnum]; by_cases c : k % 2 = 1 <;> simp [c]
    have hlt : (if k % 2 = 1 then (i >>> 1) + 0x8000 else i >>> 1).toNat < 65536 := by
      rw [hnum]; split <;> omega
    have hz' : ∀ t, t < 16 - (j + 1) →
        (if k % 2 = 1 then (i >>> 1) + 0x8000 else i >>> 1).toNat.testBit t = false := by
      intro t ht
      rw [hnum', acc16_bit _ _ hi t (by omega), if_neg (by omega)]
      exact hz (t + 1) (by omega)
    have step : j + 1 ≤ 16 →
        topBits (j + 1) (if k % 2 = 1 then (i >>> 1) + 0x8000 else i >>> 1).toNat =
          (k % 2 == 1) :: topBits j i.toNat := by
      intro hj
      rw [hnum', topBits_succ, acc16_bit _ _ hi 15 (by omega), if_pos rfl]
      congr 1
      unfold topBits
      apply List.map_congr_left
      intro t ht
      rw [List.mem_range] at ht
      rw [acc16_bit _ _ hi (14 - t) (by omega), if_neg (by omega)]
      congr 1; omega
    by_cases hR : rd prnt k = R
    · simp only [codeWalk, upBits, hR, if_true, List.length_cons, List.length_nil, List.reverse_cons,
        List.reverse_nil, List.nil_append, List.singleton_append]
      exact ⟨trivial, hlt, fun hj => ⟨step hj, hz'⟩⟩
    · simp only [codeWalk, upBits, hR, if_false]
      have ⟨a1, a2, a3⟩ := ih (rd prnt k) (if k % 2 = 1 then (i >>> 1) + 0x8000 else i >>> 1) (j + 1) hlt hz'
      refine ⟨by rw [a1]; simp only [List.length_cons]; omega, a2, ?_⟩
      intro hj
      obtain ⟨b1, b2⟩ := a3 hj
      refine ⟨?_, b2⟩
      rw [b1, step (by rw [a1] at hj; omega)]
      simp

/-- the length the canonical `EncodeChar` computes for symbol `c` in Huffman state `h` -/
def codeLen16 (h : Huff) (c : Nat) : Nat := (codeWalk h.prnt (rd h.prnt (c + T)) 0 0 (T + 1)).2

theorem codeLen16_eq (h : Huff) (c : Nat) : codeLen16 h c = (codeBits h c).length := by
  have := (codeWalk_bits h.prnt (T + 1) (rd h.prnt (c + T)) 0 0 (by decide) (by intro t _; simp)).1
  rw [codeLen16, this, codeBits, List.length_reverse]; omega

theorem Writer.encodeCharOld_eq (w : Writer) (c : Nat) :
    w.encodeCharOld c =
      { w.putCode (codeWalk w.h.prnt (rd w.h.prnt (c + T)) 0 0 (T + 1)).2
          (codeWalk w.h.prnt (rd w.h.prnt (c + T)) 0 0 (T + 1)).1 with
        h := update (w.putCode (codeWalk w.h.prnt (rd w.h.prnt (c + T)) 0 0 (T + 1)).2
          (codeWalk w.h.prnt (rd w.h.prnt (c + T)) 0 0 (T + 1)).1).h c } := rfl

/-- `encodeCharOld` touches only the bit-layer fields and the Huffman state -/
theorem encodeCharOld_frame (w : Writer) (c : Nat) :
    (w.encodeCharOld c).z = w.z ∧ (w.encodeCharOld c).len = w.len ∧ (w.encodeCharOld c).r = w.r ∧
    (w.encodeCharOld c).s = w.s ∧ (w.encodeCharOld c).h = update w.h c := by
  rw [Writer.encodeCharOld_eq]
  generalize codeWalk w.h.prnt (rd w.h.prnt (c + T)) 0 0 (T + 1) = p
  obtain ⟨a1, a2, a3, a4, a5, -⟩ := putCode_frame w p.2 p.1
  generalize w.putCode p.2 p.1 = w' at *
  dsimp only
  exact ⟨a1, a3, a4, a5, by rw [a2]⟩

/-- **the canonical `EncodeChar` at symbol level**: when the code has at most 16 bits, exactly `codeBits h c`
is appended. -/
theorem encodeCharOld_code (w : Writer) (c : Nat) (inv : BitsInv w) (hj : codeLen16 w.h c ≤ 16) :
    bitsOf (w.encodeCharOld c) = bitsOf w ++ codeBits w.h c ∧ BitsInv (w.encodeCharOld c) := by
  obtain ⟨a1, a2, a3⟩ := codeWalk_bits w.h.prnt (T + 1) (rd w.h.prnt (c + T)) 0 0 (by decide) (by intro t _; simp)
  unfold codeLen16 at hj
  obtain ⟨b1, b2⟩ := a3 hj
  rw [Writer.encodeCharOld_eq]
  generalize codeWalk w.h.prnt (rd w.h.prnt (c + T)) 0 0 (T + 1) = p at *
  have ok : CodeOK p.2 p.1 := ⟨hj, fun j hj' =>
    Nat.testBit_lt_two_pow (Nat.lt_of_lt_of_le a2 (Nat.pow_le_pow_right (n := 2) (by decide) hj')), b2⟩
  have hb := putCode_bits w p.2 p.1 inv ok
  have hi := putCode_inv w p.2 p.1 inv ok
  refine ⟨?_, inv_with_h _ _ hi⟩
  rw [bitsOf_with_h, hb, b1, codeBits]
  simp

/-! ### when is the 16-bit limit respected?  (Fibonacci argument, cf. `codeBits_length_le`) -/

/-- **a tree whose root weighs less than `fib 19 = 4181` has no code longer than 16 bits** -/
theorem codeLen16_le_of_root {h : Huff} (w : HuffWF h) (c : Nat) (hc : c < NCHAR) (hr : rd h.freq R < 4181) :
    codeLen16 h c ≤ 16 := by
  rw [codeLen16_eq]
  have ⟨p1, p2⟩ := w.prnt_leaf c hc
  have r := w.toHuffS.son_root
  have hk : rd h.prnt (c + T) < R := by
    have : rd h.prnt (c + T) ≠ R := by intro e; rw [e] at p2; omega
    simp only [R_eq, T_eq] at *; omega
  have a := w.pos _ p1
  have b := w.parent_ge _ hk
  have d := fib_depth w (T + 1) _ 0 hk (by show 1 ≤ _; exact a) (by show 2 ≤ _; omega)
  unfold codeBits; rw [List.length_reverse]
  apply Nat.le_of_not_lt; intro hlt
  have m := fib_mono (n := 19) (m := 0 + 2 + (upBits h.prnt (rd h.prnt (c + T)) (T + 1)).length) (by omega)
  have f19 : fib 19 = 4181 := by decide
  omega

/-- the root weight counts the symbols coded so far (until the first rebuild at `MAXFREQ`) -/
theorem syms_root : ∀ (syms : List Nat) (h : Huff), (∀ c ∈ syms, c < NCHAR) → HuffWF h →
    rd h.freq R + syms.length ≤ MAXFREQ →
    rd (syms.foldl update h).freq R = rd h.freq R + syms.length := by
  intro syms
  induction syms with
  | nil => intro h _ _ _; rfl
  | cons c syms ih =>
    intro h hs w hle
    simp only [List.length_cons] at hle
    have hc : c < NCHAR := hs c List.mem_cons_self
    have hlt : rd h.freq R < MAXFREQ := by omega
    have r1 := update_root_of_lt w hlt c hc
    rw [List.foldl_cons, ih (update h c) (fun c' h' => hs c' (List.mem_cons_of_mem _ h'))
      (update_preserves w c hc) (by rw [r1]; omega), r1, List.length_cons]
    omega

theorem syms_wf : ∀ (syms : List Nat) (h : Huff), (∀ c ∈ syms, c < NCHAR) → HuffWF h →
    HuffWF (syms.foldl update h) := by
  intro syms
  induction syms with
  | nil => intro h _ w; exact w
  | cons c syms ih =>
    intro h hs w
    rw [List.foldl_cons]
    exact ih (update h c) (fun c' h' => hs c' (List.mem_cons_of_mem _ h'))
      (update_preserves w c (hs c List.mem_cons_self))

theorem init_root : rd Huff.init.freq R = 314 := by
  rw [R_eq, init_spec.freq 626 (by omega)]; simp [initFreqF]

/-- after fewer than `3867` tokens every code still fits the 16-bit accumulator -/
theorem codeLen16_le_of_few (ts : List Token) (ok : ∀ t ∈ ts, t.ok) (hn : ts.length < 3867) (c : Nat)
    (hc : c < NCHAR) : codeLen16 ((ts.map Token.sym).foldl update Huff.init) c ≤ 16 := by
  have hs : ∀ c ∈ ts.map Token.sym, c < NCHAR := by
    intro c hc
    obtain ⟨t, ht, rfl⟩ := List.mem_map.mp hc
    exact t.sym_lt (ok t ht)
  have hw : HuffWF ((ts.map Token.sym).foldl update Huff.init) := syms_wf _ _ hs huffWF_init
  have hr := syms_root (ts.map Token.sym) Huff.init hs huffWF_init
    (by rw [init_root, List.length_map]; simp only [MAXFREQ_eq]; omega)
  apply codeLen16_le_of_root hw c hc
  rw [hr, init_root, List.length_map]
  omega

end Wl2k.Lzhuf
