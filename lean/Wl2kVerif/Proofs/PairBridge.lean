import Wl2kVerif.Proofs.PairKahn
import Wl2kVerif.Proofs.PairPrefix
/-
Bridge between the pair system and `Proc.run`: in every reachable state of the pair system, each
side's events so far are an initial segment (in time) of the trace of the complete run `Proc.run` of its
program on some PREFIX `J` of the bytes the peer has written so far — causality: a side has seen nothing
the peer has not written — and when the side has returned, `Proc.run … J` is exactly its outcome.
-/
namespace Wl2k.B2F
open Wl2k

/-- what a side can ever read of the delivered stream `D`: the link towards it fails after `limit` bytes -/
def availOf (limit : Option Nat) (D : Bytes) : Bytes :=
  match limit with
  | some k => D.take k
  | none => D

theorem availOf_prefix (limit : Option Nat) (D : Bytes) : availOf limit D <+: D := by
  cases limit with
  | none => exact List.prefix_refl _
  | some k => exact List.take_prefix _ _

theorem availOf_append (limit : Option Nat) (D E : Bytes) : ∃ E', availOf limit (D ++ E) = availOf limit D ++ E' := by
  cases limit with
  | none => exact ⟨E, rfl⟩
  | some k => exact ⟨E.take (k - D.length), by simp [availOf, List.take_append]⟩

/-- the side is alive and has seen no EOF: its future, if nothing more arrives, is that of the initial
program on everything it can read of what was delivered -/
structure Live (P₀ : Proc Result) (h₀ : HState) (a : Side) (D : Bytes) : Prop where
  alive : a.ended = none
  got_le : a.got ≤ (availOf a.limit D).length
  inq_eq : a.inq = D.drop a.got
  fut : Proc.upto hstep P₀ (availOf a.limit D) h₀ [] =
    Proc.upto hstep a.proc ((availOf a.limit D).drop a.got) a.h a.evs

/-- the side is alive, has seen EOF after reading `J`, and will see only EOF from now on -/
structure AtEof (P₀ : Proc Result) (h₀ : HState) (a b : Side) (D : Bytes) : Prop where
  alive : a.ended = none
  sticky : a.cutNow = true ∨ (b.ended.isSome = true ∧ a.inq = [])
  ex : ∃ J, J <+: D ∧ Proc.run hstep P₀ J h₀ [] = Proc.run hstep a.proc [] a.h a.evs

/-- the side has returned -/
structure Returned (P₀ : Proc Result) (h₀ : HState) (a : Side) (D : Bytes) : Prop where
  ex : ∃ J e rest, J <+: D ∧ a.ended = some e ∧ Proc.run hstep P₀ J h₀ [] = (e, rest, a.h, a.evs)

def SideInv (P₀ : Proc Result) (h₀ : HState) (a b : Side) : Prop :=
  Live P₀ h₀ a (outBytes b.evs) ∨ AtEof P₀ h₀ a b (outBytes b.evs) ∨ Returned P₀ h₀ a (outBytes b.evs)

theorem sideInv_init (P₀ : Proc Result) (h₀ : HState) (lim : Option Nat) (b : Side) (hb : b.evs = []) :
    SideInv P₀ h₀ { proc := P₀, h := h₀, limit := lim } b := by
  left
  refine ⟨rfl, Nat.zero_le _, by simp [hb, outBytes], ?_⟩
  simp [hb, outBytes]

theorem cutNow_spec (a : Side) : a.cutNow = true ↔ ∃ k, a.limit = some k ∧ k ≤ a.got := by
  unfold Side.cutNow
  cases a.limit with
  | none => simp
  | some k => simp

/-- at a cut nothing readable is left -/
theorem avail_drop_of_cut (a : Side) (D : Bytes) (hc : a.cutNow = true) : (availOf a.limit D).drop a.got = [] := by
  obtain ⟨k, hk, hle⟩ := (cutNow_spec a).mp hc
  rw [hk]
  simp only [availOf, List.drop_eq_nil_iff, List.length_take]
  omega

/-- not cut and a byte queued: it is the next readable byte -/
theorem avail_drop_of_cons (a : Side) (D : Bytes) (x : UInt8) (t : Bytes) (hc : a.cutNow = false)
    (hq : D.drop a.got = x :: t) :
    (availOf a.limit D).drop a.got = x :: (availOf a.limit D).drop (a.got + 1) ∧ D.drop (a.got + 1) = t := by
  have ht : D.drop (a.got + 1) = t := by
    have := congrArg (List.drop 1) hq
    simpa [List.drop_drop, Nat.add_comm] using this
  refine ⟨?_, ht⟩
  cases hl : a.limit with
  | none =>
    simp only [availOf]
    rw [hq, ht]
  | some k =>
    have hlt : a.got < k := by
      cases hck : decide (k ≤ a.got) with
      | true =>
        have : a.cutNow = true := (cutNow_spec a).mpr ⟨k, hl, by simpa using hck⟩
        rw [this] at hc; cases hc
      | false => simpa using hck
    simp only [availOf, List.drop_take, hq, ht]
    have : k - a.got = (k - (a.got + 1)) + 1 := by omega
    rw [this, List.take_succ_cons]

theorem avail_drop_of_nil (a : Side) (D : Bytes) (hq : D.drop a.got = []) : (availOf a.limit D).drop a.got = [] := by
  have h1 : D.length ≤ a.got := by simpa using hq
  have h2 := (availOf_prefix a.limit D).length_le
  simp only [List.drop_eq_nil_iff]
  omega

/-- **A live side's own move keeps the invariant.** -/
theorem live_self (P₀ : Proc Result) (h₀ : HState) (a a' b : Side) (bs : Bytes) (D : Bytes)
    (inv : Live P₀ h₀ a D) (hs : stepSelf a b.ended.isSome = some (a', bs)) :
    (Live P₀ h₀ a' D ∨ (AtEof P₀ h₀ a' b D ∧ (a.cutNow = true ∨ (b.ended.isSome = true ∧ a.inq = []))) ∨ Returned P₀ h₀ a' D) ∧
      outBytes a'.evs = outBytes a.evs ++ bs := by
  obtain ⟨alive, got_le, inq_eq, fut⟩ := inv
  have hc1 := avail_drop_of_cut a D
  have hc2 := avail_drop_of_cons a D
  have hc3 := avail_drop_of_nil a D
  unfold stepSelf at hs
  generalize hcut : a.cutNow = cut at hs hc1 hc2
  obtain ⟨proc, inq, got, limit, hh, evs, ended⟩ := a
  simp only at alive got_le inq_eq fut hc1 hc2 hc3
  subst alive
  unfold stepSelfC at hs
  cases proc with
  | ret r =>
    simp only [Option.some.injEq, Prod.mk.injEq] at hs
    obtain ⟨rfl, rfl⟩ := hs
    refine ⟨Or.inr (Or.inr ⟨⟨availOf limit D, .done r, (availOf limit D).drop got, availOf_prefix _ _, rfl, ?_⟩⟩), by simp⟩
    rw [run_upto, fut]; rfl
  | panic st =>
    simp only [Option.some.injEq, Prod.mk.injEq] at hs
    obtain ⟨rfl, rfl⟩ := hs
    refine ⟨Or.inr (Or.inr ⟨⟨availOf limit D, .panicked st, (availOf limit D).drop got, availOf_prefix _ _, rfl, ?_⟩⟩), by simp⟩
    rw [run_upto, fut]; rfl
  | write ws k =>
    simp only [Option.some.injEq, Prod.mk.injEq] at hs
    obtain ⟨rfl, rfl⟩ := hs
    refine ⟨Or.inl ⟨rfl, got_le, inq_eq, ?_⟩, by simp [outBytes]⟩
    rw [fut]; rfl
  | call c k =>
    simp only [Option.some.injEq, Prod.mk.injEq] at hs
    obtain ⟨rfl, rfl⟩ := hs
    refine ⟨Or.inl ⟨rfl, got_le, inq_eq, ?_⟩, by simp [outBytes]⟩
    rw [fut]; rfl
  | readByte k =>
    cases cut with
    | true =>
      simp only [if_true, Option.some.injEq, Prod.mk.injEq] at hs
      obtain ⟨rfl, rfl⟩ := hs
      refine ⟨Or.inr (Or.inl ⟨⟨rfl, Or.inl hcut, availOf limit D, availOf_prefix _ _, ?_⟩, Or.inl rfl⟩), by simp⟩
      rw [run_upto, fut, hc1 rfl]; rfl
    | false =>
      cases inq with
      | cons x t =>
        simp only [Bool.false_eq_true, if_false, Option.some.injEq, Prod.mk.injEq] at hs
        obtain ⟨rfl, rfl⟩ := hs
        obtain ⟨e1, e2⟩ := hc2 x t rfl inq_eq.symm
        refine ⟨Or.inl ⟨rfl, ?_, e2.symm, ?_⟩, by simp⟩
        · have : ((availOf limit D).drop got).length ≥ 1 := by rw [e1]; simp
          simp only [List.length_drop] at this
          simp only; omega
        · rw [fut, e1]; rfl
      | nil =>
        cases hb : b.ended.isSome with
        | false => simp [hb] at hs
        | true =>
          simp only [hb, Bool.false_eq_true, if_false, if_true, Option.some.injEq, Prod.mk.injEq] at hs
          obtain ⟨rfl, rfl⟩ := hs
          refine ⟨Or.inr (Or.inl ⟨⟨rfl, Or.inr ⟨hb, rfl⟩, availOf limit D, availOf_prefix _ _, ?_⟩, Or.inr ⟨rfl, rfl⟩⟩), by simp⟩
          rw [run_upto, fut, hc3 inq_eq.symm]; rfl
  | peek k =>
    cases cut with
    | true =>
      simp only [if_true, Option.some.injEq, Prod.mk.injEq] at hs
      obtain ⟨rfl, rfl⟩ := hs
      refine ⟨Or.inr (Or.inl ⟨⟨rfl, Or.inl hcut, availOf limit D, availOf_prefix _ _, ?_⟩, Or.inl rfl⟩), by simp⟩
      rw [run_upto, fut, hc1 rfl]; rfl
    | false =>
      cases inq with
      | cons x t =>
        simp only [Bool.false_eq_true, if_false, Option.some.injEq, Prod.mk.injEq] at hs
        obtain ⟨rfl, rfl⟩ := hs
        obtain ⟨e1, e2⟩ := hc2 x t rfl inq_eq.symm
        refine ⟨Or.inl ⟨rfl, got_le, inq_eq, ?_⟩, by simp [outBytes]⟩
        rw [fut, e1]; rfl
      | nil =>
        cases hb : b.ended.isSome with
        | false => simp [hb] at hs
        | true =>
          simp only [hb, Bool.false_eq_true, if_false, if_true, Option.some.injEq, Prod.mk.injEq] at hs
          obtain ⟨rfl, rfl⟩ := hs
          refine ⟨Or.inr (Or.inl ⟨⟨rfl, Or.inr ⟨hb, rfl⟩, availOf limit D, availOf_prefix _ _, ?_⟩, Or.inr ⟨rfl, rfl⟩⟩), by simp⟩
          rw [run_upto, fut, hc3 inq_eq.symm]; rfl

/-- **After EOF a side's own move keeps the invariant** (and it keeps seeing EOF). -/
theorem ateof_self (P₀ : Proc Result) (h₀ : HState) (a a' b : Side) (bs : Bytes) (D : Bytes)
    (inv : AtEof P₀ h₀ a b D) (hs : stepSelf a b.ended.isSome = some (a', bs)) :
    (AtEof P₀ h₀ a' b D ∨ Returned P₀ h₀ a' D) ∧ outBytes a'.evs = outBytes a.evs ++ bs := by
  obtain ⟨alive, sticky, J, hJ, hrun⟩ := inv
  unfold stepSelf at hs
  have hnone : a.cutNow = false → b.ended.isSome = true ∧ a.inq = [] := by
    intro h
    rcases sticky with h' | h'
    · rw [h] at h'; cases h'
    · exact h'
  generalize hcut : a.cutNow = cut at hs hnone
  have hcut' : ∀ (p : Proc Result) (h : HState) (e : List Ev),
      Side.cutNow { proc := p, inq := a.inq, got := a.got, limit := a.limit, h := h, evs := e, ended := a.ended } = cut := by
    intros; exact hcut
  obtain ⟨proc, inq, got, limit, hh, evs, ended⟩ := a
  simp only at alive hrun hnone hcut'
  subst alive
  have hst : ∀ (p : Proc Result) (h : HState) (e : List Ev),
      Side.cutNow { proc := p, inq := inq, got := got, limit := limit, h := h, evs := e, ended := none } = true ∨
        (b.ended.isSome = true ∧ inq = []) := by
    intro p h e
    cases cut with
    | true => exact Or.inl (hcut' p h e)
    | false => exact Or.inr (hnone rfl)
  unfold stepSelfC at hs
  cases proc with
  | ret r =>
    simp only [Option.some.injEq, Prod.mk.injEq] at hs
    obtain ⟨rfl, rfl⟩ := hs
    exact ⟨Or.inr ⟨⟨J, .done r, [], hJ, rfl, by rw [hrun]; rfl⟩⟩, by simp⟩
  | panic st =>
    simp only [Option.some.injEq, Prod.mk.injEq] at hs
    obtain ⟨rfl, rfl⟩ := hs
    exact ⟨Or.inr ⟨⟨J, .panicked st, [], hJ, rfl, by rw [hrun]; rfl⟩⟩, by simp⟩
  | write ws k =>
    simp only [Option.some.injEq, Prod.mk.injEq] at hs
    obtain ⟨rfl, rfl⟩ := hs
    exact ⟨Or.inl ⟨rfl, hst _ _ _, J, hJ, by rw [hrun]; rfl⟩, by simp [outBytes]⟩
  | call c k =>
    simp only [Option.some.injEq, Prod.mk.injEq] at hs
    obtain ⟨rfl, rfl⟩ := hs
    exact ⟨Or.inl ⟨rfl, hst _ _ _, J, hJ, by rw [hrun]; rfl⟩, by simp [outBytes]⟩
  | readByte k =>
    cases cut with
    | true =>
      simp only [if_true, Option.some.injEq, Prod.mk.injEq] at hs
      obtain ⟨rfl, rfl⟩ := hs
      exact ⟨Or.inl ⟨rfl, hst _ _ _, J, hJ, by rw [hrun]; rfl⟩, by simp⟩
    | false =>
      obtain ⟨hb, rfl⟩ := hnone rfl
      simp only [hb, Bool.false_eq_true, if_false, if_true, Option.some.injEq, Prod.mk.injEq] at hs
      obtain ⟨rfl, rfl⟩ := hs
      exact ⟨Or.inl ⟨rfl, hst _ _ _, J, hJ, by rw [hrun]; rfl⟩, by simp⟩
  | peek k =>
    cases cut with
    | true =>
      simp only [if_true, Option.some.injEq, Prod.mk.injEq] at hs
      obtain ⟨rfl, rfl⟩ := hs
      exact ⟨Or.inl ⟨rfl, hst _ _ _, J, hJ, by rw [hrun]; rfl⟩, by simp⟩
    | false =>
      obtain ⟨hb, rfl⟩ := hnone rfl
      simp only [hb, Bool.false_eq_true, if_false, if_true, Option.some.injEq, Prod.mk.injEq] at hs
      obtain ⟨rfl, rfl⟩ := hs
      exact ⟨Or.inl ⟨rfl, hst _ _ _, J, hJ, by rw [hrun]; rfl⟩, by simp⟩

/-- **The peer's move keeps a side's invariant**: the peer `b` (alive) moves to `b'` writing `bs`, which
arrive at `a`. -/
theorem sideInv_peer (P₀ : Proc Result) (h₀ : HState) (a b b' : Side) (bs : Bytes)
    (inv : SideInv P₀ h₀ a b) (hb : b.ended = none) (hout : outBytes b'.evs = outBytes b.evs ++ bs) :
    SideInv P₀ h₀ (recv a bs) b' := by
  unfold SideInv at inv ⊢
  rw [hout]
  generalize outBytes b.evs = D at inv
  rcases inv with inv | inv | inv
  · left
    obtain ⟨alive, got_le, inq_eq, fut⟩ := inv
    have hr : recv a bs = a.push bs := recv_of_live a bs (by simp [alive])
    rw [hr]
    obtain ⟨E', hE⟩ := availOf_append a.limit D bs
    have hDlen : a.got ≤ D.length := Nat.le_trans got_le (availOf_prefix a.limit D).length_le
    refine ⟨alive, ?_, ?_, ?_⟩
    · show a.got ≤ (availOf a.limit (D ++ bs)).length
      rw [hE]; simp only [List.length_append]; omega
    · show a.inq ++ bs = (D ++ bs).drop a.got
      rw [List.drop_append_of_le_length hDlen, inq_eq]
    · show Proc.upto hstep P₀ (availOf a.limit (D ++ bs)) h₀ [] =
        Proc.upto hstep a.proc ((availOf a.limit (D ++ bs)).drop a.got) a.h a.evs
      rw [hE, upto_append, List.drop_append_of_le_length got_le, upto_append hstep a.proc, fut]
  · right; left
    obtain ⟨alive, sticky, J, hJ, hrun⟩ := inv
    have hr : recv a bs = a.push bs := recv_of_live a bs (by simp [alive])
    rw [hr]
    refine ⟨alive, ?_, J, hJ.trans (List.prefix_append _ _), hrun⟩
    rcases sticky with h | ⟨h, _⟩
    · exact Or.inl h
    · rw [hb] at h; cases h
  · right; right
    obtain ⟨J, e, rest, hJ, he, hrun⟩ := inv
    have hr : recv a bs = a := recv_of_ended a bs (by simp [he])
    rw [hr]
    exact ⟨⟨J, e, rest, hJ.trans (List.prefix_append _ _), he, hrun⟩⟩

/-- a side's own move, all cases together -/
theorem sideInv_self (P₀ : Proc Result) (h₀ : HState) (a a' b : Side) (bs : Bytes)
    (inv : SideInv P₀ h₀ a b) (ha : a.ended.isSome = false) (hs : stepSelf a b.ended.isSome = some (a', bs)) :
    SideInv P₀ h₀ a' b ∧ outBytes a'.evs = outBytes a.evs ++ bs := by
  rcases inv with inv | inv | inv
  · obtain ⟨h1, h2⟩ := live_self P₀ h₀ a a' b bs _ inv hs
    refine ⟨?_, h2⟩
    rcases h1 with h | ⟨h, _⟩ | h
    · exact Or.inl h
    · exact Or.inr (Or.inl h)
    · exact Or.inr (Or.inr h)
  · obtain ⟨h1, h2⟩ := ateof_self P₀ h₀ a a' b bs _ inv hs
    refine ⟨?_, h2⟩
    rcases h1 with h | h
    · exact Or.inr (Or.inl h)
    · exact Or.inr (Or.inr h)
  · obtain ⟨J, e, rest, _, he, _⟩ := inv
    rw [he] at ha; cases ha

/-- the invariant of a side does not look at the peer's queue -/
theorem sideInv_congr (P₀ : Proc Result) (h₀ : HState) (a b b' : Side) (he : b'.evs = b.evs) (hen : b'.ended = b.ended)
    (inv : SideInv P₀ h₀ a b) : SideInv P₀ h₀ a b' := by
  unfold SideInv at inv ⊢
  rw [he]
  rcases inv with inv | inv | inv
  · exact Or.inl inv
  · exact Or.inr (Or.inl ⟨inv.alive, by rw [hen]; exact inv.sticky, inv.ex⟩)
  · exact Or.inr (Or.inr inv)

theorem recv_evs (b : Side) (bs : Bytes) : (recv b bs).evs = b.evs := by
  unfold recv; split <;> rfl

/-- **Both invariants hold in every reachable state.** -/
theorem pairExec_inv (PA PB : Proc Result) (hA hB : HState) {s t : Side × Side} {n : Nat} (he : PairExec s n t)
    (ia : SideInv PA hA s.1 s.2) (ib : SideInv PB hB s.2 s.1) : SideInv PA hA t.1 t.2 ∧ SideInv PB hB t.2 t.1 := by
  induction he with
  | refl s => exact ⟨ia, ib⟩
  | cons i s s' n t hs _ ih =>
    obtain ⟨a, b⟩ := s
    apply ih
    all_goals
      cases i with
      | false =>
        simp only [pairStep] at hs
        obtain ⟨hea, a₁, x, hsa, rfl⟩ := moveSide_some a b s' hs
        obtain ⟨h1, h2⟩ := sideInv_self PA hA a a₁ b x ia hea hsa
        first
          | exact sideInv_congr PA hA a₁ b (recv b x) (recv_evs b x) (recv_ended b x) h1
          | exact sideInv_peer PB hB b a a₁ x ib (by simpa using hea) h2
      | true =>
        simp only [pairStep] at hs
        cases e2 : moveSide b a with
        | none => rw [e2] at hs; simp at hs
        | some u =>
          rw [e2] at hs
          simp only [Option.map_some, Option.some.injEq] at hs
          subst hs
          obtain ⟨heb, b₁, y, hsb, rfl⟩ := moveSide_some b a u e2
          obtain ⟨h1, h2⟩ := sideInv_self PB hB b b₁ a y ib heb hsb
          first
            | exact sideInv_congr PB hB b₁ a (recv a y) (recv_evs a y) (recv_ended a y) h1
            | exact sideInv_peer PA hA a b b₁ y ia (by simpa using heb) h2

/-- what the invariant says, in terms of `Proc.run` only -/
theorem sideInv_run (P₀ : Proc Result) (h₀ : HState) (a b : Side) (inv : SideInv P₀ h₀ a b) :
    ∃ J, J <+: outBytes b.evs ∧ (∃ post, (Proc.run hstep P₀ J h₀ []).2.2.2 = post ++ a.evs) ∧
      (∀ e, a.ended = some e → (Proc.run hstep P₀ J h₀ []).1 = e ∧ (Proc.run hstep P₀ J h₀ []).2.2 = (a.h, a.evs)) := by
  rcases inv with inv | inv | inv
  · obtain ⟨alive, got_le, inq_eq, fut⟩ := inv
    refine ⟨availOf a.limit (outBytes b.evs), availOf_prefix _ _, ?_, ?_⟩
    · obtain ⟨e1, h1⟩ := (trace_prefix_mono hstep P₀ (availOf a.limit (outBytes b.evs)) [] h₀ []).1
      obtain ⟨e2, h2⟩ := upto_trace hstep a.proc ((availOf a.limit (outBytes b.evs)).drop a.got) a.h a.evs
      rw [← fut] at h2
      exact ⟨e1 ++ e2, by rw [h1, h2]; simp⟩
    · intro e he; rw [alive] at he; cases he
  · obtain ⟨alive, _, J, hJ, hrun⟩ := inv
    refine ⟨J, hJ, ?_, ?_⟩
    · rw [hrun]; exact run_trace hstep _ _ _ _
    · intro e he; rw [alive] at he; cases he
  · obtain ⟨J, e, rest, hJ, he, hrun⟩ := inv
    refine ⟨J, hJ, ⟨[], by rw [hrun]; rfl⟩, ?_⟩
    intro e' he'
    rw [he] at he'
    cases he'
    rw [hrun]
    exact ⟨rfl, rfl⟩

/-- the initial state of a pair run -/
def initPair (PA PB : Proc Result) (hA hB : HState) (limA limB : Option Nat) : Side × Side :=
  ({ proc := PA, h := hA, limit := limA }, { proc := PB, h := hB, limit := limB })

/-- **Causality of the pair system.** In every state reachable (under any schedule) from the initial
state, for each side there is a prefix `J` of the bytes the PEER has written so far such that the side's
events so far are an initial segment in time of the complete run `Proc.run` of its program on `J`
(followed by link failure); if the side has returned, that run IS its outcome. -/
theorem pair_causal (PA PB : Proc Result) (hA hB : HState) (limA limB : Option Nat) {n : Nat} {t : Side × Side}
    (he : PairExec (initPair PA PB hA hB limA limB) n t) :
    (∃ J, J <+: outBytes t.2.evs ∧ (∃ post, (Proc.run hstep PA J hA []).2.2.2 = post ++ t.1.evs) ∧
      (∀ e, t.1.ended = some e → (Proc.run hstep PA J hA []).1 = e ∧ (Proc.run hstep PA J hA []).2.2 = (t.1.h, t.1.evs))) ∧
    (∃ J, J <+: outBytes t.1.evs ∧ (∃ post, (Proc.run hstep PB J hB []).2.2.2 = post ++ t.2.evs) ∧
      (∀ e, t.2.ended = some e → (Proc.run hstep PB J hB []).1 = e ∧ (Proc.run hstep PB J hB []).2.2 = (t.2.h, t.2.evs))) := by
  obtain ⟨ia, ib⟩ := pairExec_inv PA PB hA hB he (sideInv_init PA hA limA _ rfl) (sideInv_init PB hB limB _ rfl)
  exact ⟨sideInv_run PA hA _ _ ia, sideInv_run PB hB _ _ ib⟩

/-- **Monitors transfer to the pair system**: a program accepted by a monitor produces only accepted
traces in every reachable state of every pair run, whatever the peer does and wherever the link is cut. -/
theorem pair_accepts {S : Type} {δ : S → Ev → Option S} {Q : Result → S → Prop} {s0 : S}
    (PA PB : Proc Result) (hA hB : HState) (limA limB : Option Nat) {n : Nat} {t : Side × Side}
    (he : PairExec (initPair PA PB hA hB limA limB) n t) (hacc : Accepts δ Q s0 PA) :
    ∃ s, mon δ t.1.evs s0 = some s := by
  obtain ⟨⟨J, _, ⟨post, hpost⟩, _⟩, _⟩ := pair_causal PA PB hA hB limA limB he
  obtain ⟨s', hs', _⟩ := run_accepts hstep hacc J hA [] s0 rfl
  rw [hpost] at hs'
  obtain ⟨s1, h1, _⟩ := mon_prefix δ post t.1.evs s0 s' hs'
  exact ⟨s1, h1⟩

end Wl2k.B2F
