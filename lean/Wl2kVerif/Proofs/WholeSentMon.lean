import Wl2kVerif.Proofs.WholeSeg
/-
`Exchange`'s list of sent MIDs IS the list of its `SetSent(_, false)` calls: along every path of the `exchange`
program (any input, any handler), the `sent` field of the result equals the MIDs of the confirming calls made,
in call order (monitor `sentδ`; `Leaves` = a property of every value a program can return).
-/
namespace Wl2k.B2F
open Wl2k Wl2k.Str Wl2k.Strconv

/-- the MIDs of the `SetSent(_, false)` calls of a trace, in the order of the calls -/
def confOf (evs : List Ev) : List Bytes :=
  evs.reverse.filterMap fun e => match e with
    | .called (.setSent m false) => some m
    | _ => none

theorem confOf_cons (e : Ev) (tr : List Ev) :
    confOf (e :: tr) = confOf tr ++ (match e with | .called (.setSent m false) => [m] | _ => []) := by
  unfold confOf
  rw [List.reverse_cons, List.filterMap_append]
  congr 1
  cases e with
  | called c =>
    cases c with
    | setSent m b => cases b <;> rfl
    | _ => rfl
  | _ => rfl

/-- monitor: the MIDs reported sent so far -/
def sentδ (s : List Bytes) : Ev → Option (List Bytes)
  | .called (.setSent m false) => some (s ++ [m])
  | _ => some s

theorem mon_sentδ : ∀ (tr : List Ev) (s : List Bytes), mon sentδ tr s = some (s ++ confOf tr) := by
  intro tr
  induction tr with
  | nil => intro s; simp [mon, confOf]
  | cons e t ih =>
    intro s
    simp only [mon, ih, Option.bind_some, confOf_cons]
    cases e with
    | called c =>
      cases c with
      | setSent m b => cases b <;> simp [sentδ]
      | _ => simp [sentδ]
    | _ => simp [sentδ]

theorem sentδ_noConfirm (s : List Bytes) (c : Call) (h : isConfirm c = false) : sentδ s (.called c) = some s := by
  cases c with
  | setSent m b =>
    cases b with
    | true => rfl
    | false => simp [isConfirm] at h
  | _ => rfl

/-! ### a property of every value a program can return -/

inductive Leaves {α : Type} (P : α → Prop) : Proc α → Prop
  | ret (a : α) : P a → Leaves P (.ret a)
  | readByte (k : Option UInt8 → Proc α) : (∀ o, Leaves P (k o)) → Leaves P (.readByte k)
  | peek (k : Option UInt8 → Proc α) : (∀ o, Leaves P (k o)) → Leaves P (.peek k)
  | write (bs : Bytes) (k : Proc α) : Leaves P k → Leaves P (.write bs k)
  | call (c : Call) (k : Reply → Proc α) : (∀ r, Leaves P (k r)) → Leaves P (.call c k)
  | panic (s : String) : Leaves P (.panic s)

theorem Leaves.trivial {α : Type} (p : Proc α) : Leaves (fun _ => True) p := by
  induction p with
  | ret a => exact Leaves.ret a True.intro
  | readByte k ih => exact Leaves.readByte k ih
  | peek k ih => exact Leaves.peek k ih
  | write bs k ih => exact Leaves.write bs k ih
  | call c k ih => exact Leaves.call c k ih
  | panic s => exact Leaves.panic s

theorem Leaves.bind {α β : Type} {Q : α → Prop} {P : β → Prop} {p : Proc α} {f : α → Proc β} (hp : Leaves Q p)
    (hf : ∀ a, Q a → Leaves P (f a)) : Leaves P (p.bind f) := by
  induction hp with
  | ret a ha => exact hf a ha
  | readByte k _ ih => exact Leaves.readByte _ ih
  | peek k _ ih => exact Leaves.peek _ ih
  | write bs k _ ih => exact Leaves.write _ _ ih
  | call c k _ ih => exact Leaves.call _ _ ih
  | panic s => exact Leaves.panic s

/-- a program without confirming calls keeps the monitor state; its values satisfy what its leaves satisfy -/
theorem accepts_keep {α : Type} {P : α → Prop} {p : Proc α} (hs : Shape NoConfirm p) (hl : Leaves P p) (s : List Bytes) :
    Accepts sentδ (fun a s' => s' = s ∧ P a) s p := by
  induction hl with
  | ret a ha => exact Accepts.ret _ _ ⟨rfl, ha⟩
  | readByte k _ ih =>
    cases hs with
    | readByte _ _ hk => exact Accepts.readByte _ _ (fun o => ih o (hk o))
  | peek k _ ih =>
    cases hs with
    | peek _ _ hk => exact Accepts.peek _ _ (fun _ => s) (ih none (hk none)) (fun _ => rfl) (fun b => ih (some b) (hk (some b)))
  | write bs k _ ih =>
    cases hs with
    | write _ _ _ hk => exact Accepts.write _ _ _ s rfl (ih hk)
  | call c k _ ih =>
    cases hs with
    | call _ _ hc hk => exact Accepts.call _ _ _ s (sentδ_noConfirm s c hc) (fun r => ih r (hk r))
  | panic st => exact Accepts.panic _ _

theorem accepts_keep' {α : Type} {p : Proc α} (hs : Shape NoConfirm p) (s : List Bytes) :
    Accepts sentδ (fun _ s' => s' = s) s p :=
  (accepts_keep hs (Leaves.trivial p) s).mono (fun _ _ h => h.1)

/-! ### the receiver turn leaves `sent` alone -/

theorem fetchAll_leaves (fuel : Nat) (base : List Bytes) : ∀ (ps : List Proposal) (st : SState), st.sent = base →
    Leaves (fun r : SState × Option SErr => r.1.sent = base) (fetchAll fuel ps st) := by
  intro ps
  induction ps with
  | nil => intro st h; exact Leaves.ret _ h
  | cons p ps ih =>
    intro st h
    unfold fetchAll
    split
    · exact ih _ h
    · simp only [bind_eq, pure_eq]
      apply Leaves.bind (Leaves.trivial _)
      intro r _
      cases r with
      | error e => exact Leaves.ret _ h
      | ok cdata =>
        simp only
        apply Leaves.bind (Leaves.trivial _)
        intro d _
        cases d with
        | none => exact Leaves.ret _ h
        | some data =>
          simp only
          refine Leaves.call _ _ ?_
          intro r
          split
          · exact Leaves.ret _ h
          · refine Leaves.call _ _ ?_
            intro r
            split
            · exact Leaves.ret _ h
            · exact ih _ h

theorem inboundLoop_leaves (c : Cfg) (fuel : Nat) (base : List Bytes) :
    ∀ (n : Nat) (props : List Proposal) (sum : Nat) (st : SState), st.sent = base →
    Leaves (fun r : Except SErr (Bool × List Proposal × SState) => ∀ v, r = .ok v → v.2.2.sent = base)
      (inboundLoop c fuel n props sum st) := by
  intro n
  induction n with
  | zero => intro props sum st _; exact Leaves.panic _
  | succ n ih =>
    intro props sum st h
    have hret : ∀ (e : SErr), Leaves (fun r : Except SErr (Bool × List Proposal × SState) => ∀ v, r = .ok v → v.2.2.sent = base)
        (Proc.ret (Except.error e)) := fun e => Leaves.ret _ (by intro v hv; cases hv)
    have hok : ∀ (q : Bool) (ps : List Proposal) (st' : SState), st'.sent = base →
        Leaves (fun r : Except SErr (Bool × List Proposal × SState) => ∀ v, r = .ok v → v.2.2.sent = base)
          (Proc.ret (Except.ok (q, ps, st'))) := fun q ps st' h' => Leaves.ret _ (by intro v hv; cases hv; exact h')
    unfold inboundLoop
    simp only [bind_eq, pure_eq]
    apply Leaves.bind (Leaves.trivial _)
    intro r _
    cases r with
    | error e => exact hret e
    | ok line =>
      simp only
      split
      · exact ih _ _ _ h
      · split
        · exact ih _ _ _ h
        · split
          · exact hret _
          · rename_i hlen
            have h2 : 2 ≤ line.length := by
              by_cases h : line.length < 2
              · exact absurd (Or.inl h) hlen
              · omega
            rw [cmdByteC_eq line h2, parseProposalC_eq line h2, promptFieldC_eq line h2]
            simp only
            split
            · cases parseProposal line with
              | none => exact hret _
              | some f => exact ih _ _ _ h
            · split
              · exact hok _ _ _ h
              · split
                · exact hok _ _ _ h
                · split
                  · split
                    · exact hret _
                    · split
                      · exact hok _ _ _ h
                      · apply Leaves.bind (Leaves.trivial _)
                        intro _ _
                        exact hok _ _ _ h
                  · exact hret _

theorem handleInbound_leaves (c : Cfg) (fuel : Nat) (st : SState) :
    Leaves (fun r : Bool × SState × Option SErr => r.2.1.sent = st.sent) (handleInbound c fuel st) := by
  rw [handleInbound_eq]
  apply Leaves.bind (inboundLoop_leaves c fuel st.sent fuel [] 0 st rfl)
  intro r hr
  cases r with
  | error e => exact Leaves.ret _ rfl
  | ok v =>
    obtain ⟨q, ps, st'⟩ := v
    simp only [inTail]
    apply Leaves.bind (fetchAll_leaves fuel st.sent ps st' (hr _ rfl))
    intro r hr'
    exact Leaves.ret _ hr'

/-! ### the sender turn appends what it confirms -/

theorem callAll_conf (l : List (Bytes × Bool)) : ∀ (s : List Bytes),
    Accepts sentδ (fun _ s' => s' = s ++ l.map (·.1)) s (callAll (l.map fun x : Bytes × Bool => Call.setSent x.1 false)) := by
  induction l with
  | nil => intro s; exact Accepts.ret _ _ (by simp)
  | cons x xs ih =>
    intro s
    refine Accepts.call _ _ _ (s ++ [x.1]) rfl (fun _ => ?_)
    exact (ih (s ++ [x.1])).mono (fun _ s' h => by rw [h]; simp)

theorem handleOutbound_sent (c : Cfg) (fuel : Nat) (st : SState) :
    Accepts sentδ (fun r s' => match r with | .ok v => v.2.sent = s' | .error _ => s' = st.sent) st.sent
      (handleOutbound c fuel st) := by
  have hR : RdOK NoConfirm := ⟨trivial, fun _ => trivial⟩
  have hW : WrOK NoConfirm := ⟨fun _ => trivial⟩
  rw [handleOutbound_eq]
  apply Accepts.bind (accepts_keep' (outbound_shape (fun _ => rfl) c st) st.sent)
  intro out s1 hs1
  subst hs1
  split
  · exact Accepts.write _ _ _ st.sent rfl (Accepts.ret _ _ rfl)
  · apply Accepts.bind (accepts_keep' (sendOutbound_shape hR hW (fun _ => rfl) c fuel out) st.sent)
    intro r s2 hs2
    subst hs2
    cases r with
    | error e => exact Accepts.ret _ _ rfl
    | ok sent =>
      simp only
      apply Accepts.bind (accepts_keep' (callAll_shape _ (setSent_true_noconfirm _)) st.sent)
      intro _ s3 hs3
      subst hs3
      unfold outTail
      refine Accepts.peek _ _ (fun _ => st.sent) (Accepts.ret _ _ rfl) (fun _ => rfl) ?_
      intro b
      simp only
      split
      · simp only [bind_eq, pure_eq]
        apply Accepts.bind (accepts_keep' (nextLine_shape hR fuel) st.sent)
        intro r s4 hs4
        subst hs4
        cases r <;> exact Accepts.ret _ _ rfl
      · simp only [bind_eq, pure_eq]
        apply Accepts.bind (callAll_conf (sent.filter (!·.2)) st.sent)
        intro _ s4 hs4
        exact Accepts.ret _ _ hs4.symm

/-! ### all turns, and `Exchange` -/

theorem turns_sent (c : Cfg) (fuel : Nat) : ∀ (n : Nat) (myTurn : Bool) (st : SState),
    Accepts sentδ (fun r s' => r.1.sent = s') st.sent (turns c fuel n myTurn st) := by
  have hR : RdOK NoConfirm := ⟨trivial, fun _ => trivial⟩
  have hW : WrOK NoConfirm := ⟨fun _ => trivial⟩
  intro n
  induction n with
  | zero => intro _ _; exact Accepts.panic _ _
  | succ n ih =>
    intro myTurn st
    unfold turns
    split
    · exact Accepts.ret _ _ rfl
    · split
      · simp only [bind_eq, pure_eq]
        apply Accepts.bind (handleOutbound_sent c fuel st)
        intro r s' hr
        cases r with
        | error e =>
          simp only at hr
          subst hr
          exact Accepts.ret _ _ rfl
        | ok v =>
          obtain ⟨q, st'⟩ := v
          simp only at hr
          subst hr
          exact ih (!myTurn) { st' with quitSent := q }
      · simp only [bind_eq, pure_eq]
        apply Accepts.bind (accepts_keep (handleInbound_shape hR hW (fun _ => rfl) (fun _ => rfl) (fun _ => rfl) (fun _ => rfl) c fuel st)
          (handleInbound_leaves c fuel st) st.sent)
        intro r s' hr
        obtain ⟨q, st', e⟩ := r
        obtain ⟨hs', hsent⟩ := hr
        subst hs'
        cases e with
        | some e => exact Accepts.ret _ _ hsent
        | none =>
          have key : ∀ s : List Bytes, st'.sent = s →
              Accepts sentδ (fun r s' => r.1.sent = s') s (turns c fuel n (!myTurn) { st' with quitReceived := q }) := by
            intro s h
            subst h
            exact ih (!myTurn) { st' with quitReceived := q }
          exact key st.sent hsent

/-- **Along every path of `Exchange`** (any input, any handler replies): the `sent` list of the result is the
list of MIDs of the `SetSent(_, false)` calls made so far. -/
theorem exchange_sent (c : Cfg) (fuel : Nat) : Accepts sentδ (fun r s' => r.sent = s') [] (exchange c fuel) := by
  have hR : RdOK NoConfirm := ⟨trivial, fun _ => trivial⟩
  have hW : WrOK NoConfirm := ⟨fun _ => trivial⟩
  have hfin : ∀ (st : SState) (named : Bool) (e : Option SErr) (s : List Bytes), st.sent = s → (named = true → s = []) →
      Accepts sentδ (fun r s' => r.sent = s') s (finish st named e) := by
    intro st named e s hs hn
    unfold finish
    split
    · exact Accepts.ret _ _ hs
    · refine Accepts.ret _ _ ?_
      cases named with
      | true => simp [hn rfl]
      | false => simpa using hs
    · exact Accepts.write _ _ _ s rfl (Accepts.ret _ _ hs)
    · exact Accepts.write _ _ _ s rfl (Accepts.ret _ _ hs)
  unfold exchange
  simp only [bind_eq, pure_eq]
  apply Accepts.bind (Q := fun _ s' => s' = [])
  · split
    · refine Accepts.call _ _ _ [] rfl ?_
      intro r; cases r <;> (try split) <;> exact Accepts.ret _ _ rfl
    · exact Accepts.ret _ _ rfl
  · intro ok s hs
    subst hs
    split
    · exact hfin {} true _ [] rfl (fun _ => rfl)
    · apply Accepts.bind (accepts_keep' (handshake_shape hR hW trivial (fun _ => rfl) c fuel) [])
      intro r s' hs'
      subst hs'
      cases r with
      | error e => exact hfin {} true _ [] rfl (fun _ => rfl)
      | ok hs =>
        simp only
        apply Accepts.bind (turns_sent c fuel fuel _ { remoteSID := hs.sid, remoteFW := hs.fw })
        intro r s'' hr
        exact hfin r.1 false r.2 s'' hr (fun h => by cases h)

/-- **Run level**: the result of ANY complete run of `Exchange` lists as sent exactly the MIDs of the
`SetSent(_, false)` calls in its trace, in call order. -/
theorem run_exchange_sent {H : Type} (hstep : H → Call → H × Reply) (c : Cfg) (fuel : Nat) (J : Bytes) (h : H) (r : Result)
    (hr : (Proc.run hstep (exchange c fuel) J h []).1 = .done r) :
    r.sent = confOf (Proc.run hstep (exchange c fuel) J h []).2.2.2 := by
  obtain ⟨s', hm, hq⟩ := run_accepts hstep (exchange_sent c fuel) J h [] [] rfl
  rw [mon_sentδ] at hm
  simp only [List.nil_append, Option.some.injEq] at hm
  rw [hm]
  exact hq r hr

/-- … in every reachable state of every pair run, for a side that has returned -/
theorem ended_sent (cA cB : Cfg) (fuel : Nat) (hA hB : HState) (limA limB : Option Nat) {n : Nat} {t : Side × Side}
    (he : PairExec (initPair (exchange cA fuel) (exchange cB fuel) hA hB limA limB) n t) :
    (∀ r, t.1.ended = some (.done r) → r.sent = confOf t.1.evs) ∧ (∀ r, t.2.ended = some (.done r) → r.sent = confOf t.2.evs) := by
  obtain ⟨⟨JA, _, _, h1⟩, ⟨JB, _, _, h2⟩⟩ := pair_causal (exchange cA fuel) (exchange cB fuel) hA hB limA limB he
  constructor
  · intro r hr
    obtain ⟨e1, e2⟩ := h1 _ hr
    have := run_exchange_sent hstep cA fuel JA hA r e1
    rw [e2] at this
    exact this
  · intro r hr
    obtain ⟨e1, e2⟩ := h2 _ hr
    have := run_exchange_sent hstep cB fuel JB hB r e1
    rw [e2] at this
    exact this

end Wl2k.B2F
