import Wl2kVerif.Proofs.WholeSend
/-
The batched inbound handler (`GetInboundAnswers`, one call per block): when it answers every proposal it is
asked about with '+', '-' or '=', `writeProposalsAnswer` behaves as in the unbatched case — one `FS` line with
one plain answer per proposal, the proposals unchanged except for their answers (`WpaOK`, the only thing the
whole-session argument needs of the answer step).
-/
namespace Wl2k.B2F
open Wl2k Wl2k.Fmt Wl2k.Str Wl2k.Strconv

section generic
variable {H : Type} (hstep : H → Call → H × Reply)

/-- what the whole-session argument needs of `writeProposalsAnswer` in handler state `h` -/
def WpaOK (c : Cfg) (h : H) : Prop :=
  ∀ (props : List Proposal) (J : Bytes) (tr : List Ev),
    ∃ (as : List UInt8) (evs : List Ev), as.length = props.length ∧ (∀ a ∈ as, PlainAnswer a) ∧
      (∀ e ∈ evs, e.isAnswerCall = true) ∧
      Proc.run hstep (writeProposalsAnswer c props) J h tr =
        (.done (List.zipWith setAns props as), J, h, .wrote (fsPrefix ++ as ++ [13]) :: (evs ++ tr))

theorem wpaOK_unbatched (c : Cfg) (h : H) (hnb : c.batched = false) (hans : AnswersPlainAt hstep h) : WpaOK hstep c h :=
  fun props J tr => run_writeProposalsAnswer hstep c hnb props J h hans tr

/-- in state `h` the batched handler answers every view with '+', '-' or '=' (and does not change state) -/
def AnswersPlainBatched (h : H) : Prop :=
  ∀ (vs : List PropView), ∃ as : List UInt8, hstep h (.getInboundAnswers vs) = (h, .answers as) ∧ as.length = vs.length ∧
    ∀ a ∈ as, PlainAnswer a

/-- assigning exactly as many plain answers as there are unanswered proposals -/
theorem assignAnswers_ok : ∀ (ps : List Proposal) (as : List UInt8),
    (∀ p ∈ ps, p.answer = 0 ∨ PlainAnswer p.answer) → as.length = (ps.filter (·.answer = 0)).length →
    (∀ a ∈ as, PlainAnswer a) →
    ∃ as' : List UInt8, as'.length = ps.length ∧ (∀ a ∈ as', PlainAnswer a) ∧
      assignAnswers ps as = some (List.zipWith setAns ps as') := by
  intro ps
  induction ps with
  | nil => intro as _ _ _; exact ⟨[], rfl, (by intro a ha; cases ha), rfl⟩
  | cons p ps ih =>
    intro as hp hlen hpl
    have hp' : ∀ q ∈ ps, q.answer = 0 ∨ PlainAnswer q.answer := fun q hq => hp q (by simp [hq])
    by_cases h0 : p.answer = 0
    · have hf : (p :: ps).filter (·.answer = 0) = p :: ps.filter (·.answer = 0) := by simp [h0]
      rw [hf] at hlen
      cases as with
      | nil => simp at hlen
      | cons a as =>
        obtain ⟨as', h1, h2, h3⟩ := ih as hp' (by simpa using hlen) (fun x hx => hpl x (by simp [hx]))
        refine ⟨a :: as', by simp [h1], ?_, ?_⟩
        · intro x hx
          rcases List.mem_cons.mp hx with rfl | hx
          · exact hpl _ (by simp)
          · exact h2 x hx
        · have hne : ¬ (p.answer ≠ 0) := by simpa using h0
          simp only [assignAnswers, hne, if_false, h3, Option.map_some, List.zipWith_cons_cons, setAns]
    · have hpp : PlainAnswer p.answer := by
        rcases hp p (by simp) with h | h
        · exact absurd h h0
        · exact h
      have hf : (p :: ps).filter (·.answer = 0) = ps.filter (·.answer = 0) := by simp [h0]
      rw [hf] at hlen
      obtain ⟨as', h1, h2, h3⟩ := ih as hp' hlen hpl
      refine ⟨p.answer :: as', by simp [h1], ?_, ?_⟩
      · intro x hx
        rcases List.mem_cons.mp hx with rfl | hx
        · exact hpp
        · exact h2 x hx
      · have hne : p.answer ≠ 0 := h0
        simp only [assignAnswers, hne, if_true, ne_eq, not_false_eq_true, h3, Option.map_some, List.zipWith_cons_cons, setAns]

/-- **`writeProposalsAnswer`, batched**: one `GetInboundAnswers` call, then as in the unbatched case. -/
theorem wpaOK_batched (c : Cfg) (h : H) (hb : c.batched = true) (hh : c.hasHandler = true)
    (hans : AnswersPlainBatched hstep h) : WpaOK hstep c h := by
  intro props J tr
  obtain ⟨as0, h01, h02, h03⟩ := preAnswer_zip c.hasHandler props []
  have hpre : ∀ p ∈ preAnswer c.hasHandler props [], p.answer = 0 ∨ PlainAnswer p.answer := by
    intro p hp
    rw [h02] at hp
    obtain ⟨i, hi, rfl⟩ := List.getElem_of_mem hp
    simp only [List.getElem_zipWith, setAns]
    rcases h03 (as0[i]'(by simp at hi; omega)) (List.getElem_mem _) with h | h
    · exact Or.inl h
    · exact Or.inr (Or.inr (Or.inr h))
  obtain ⟨as, ha1, ha2, ha3⟩ := hans (((preAnswer c.hasHandler props []).filter (·.answer = 0)).map viewOf)
  obtain ⟨as', b1, b2, b3⟩ := assignAnswers_ok (preAnswer c.hasHandler props []) as hpre (by simpa using ha2) ha3
  have hlen : as'.length = props.length := by rw [b1, h02]; simp [h01]
  refine ⟨as', [.called (.getInboundAnswers (((preAnswer c.hasHandler props []).filter (·.answer = 0)).map viewOf))], hlen, b2,
    (by intro e he; simp only [List.mem_singleton] at he; subst he; rfl), ?_⟩
  rw [hh] at h02 ha1 b3
  unfold writeProposalsAnswer
  simp only [bind_eq, pure_eq, hb, hh, and_self, if_true]
  rw [run_bind]
  simp only [Proc.run, ha1, b3]
  simp only [sb_FS]
  rw [h02, zipWith_setAns_twice, zipWith_snd as0 as' (by omega), map_answer_zip props as' hlen]
  simp

/-- `writeProposalsAnswer` reads nothing (batched or not) -/
theorem writeProposalsAnswer_noinput' (c : Cfg) (props : List Proposal) : Shape NoInput (writeProposalsAnswer c props) := by
  unfold writeProposalsAnswer
  simp only [bind_eq, pure_eq]
  split
  · apply Shape.bind
    · refine Shape.call _ _ trivial ?_
      intro r
      cases r with
      | answers as =>
        simp only
        split
        · exact Shape.ret _
        · exact Shape.panic _ trivial
      | _ => exact Shape.panic _ trivial
    · intro ps'
      exact Shape.write _ _ trivial (Shape.ret _)
  · apply Shape.bind
    · exact askEach_shape (E := NoInput) (fun _ => trivial) _ _
    · intro ps'
      exact Shape.write _ _ trivial (Shape.ret _)

/-- `writeProposalsAnswer` with the answers named (`answersOf`), for any handler that is `WpaOK` -/
theorem run_wpa_canon (c : Cfg) (h : H) (hw : WpaOK hstep c h) (props : List Proposal) :
    (answersOf hstep c h props).length = props.length ∧ (∀ a ∈ answersOf hstep c h props, PlainAnswer a) ∧
    ∃ evs : List Ev, (∀ e ∈ evs, e.isAnswerCall = true) ∧ ∀ (J : Bytes) (tr : List Ev),
      Proc.run hstep (writeProposalsAnswer c props) J h tr =
        (.done (List.zipWith setAns props (answersOf hstep c h props)), J, h,
          .wrote (fsPrefix ++ answersOf hstep c h props ++ [13]) :: (evs ++ tr)) := by
  obtain ⟨as, evs, a1, a2, a3, a4⟩ := hw props [] []
  have has : answersOf hstep c h props = as := by
    unfold answersOf
    rw [a4]
    exact map_answer_zip props as a1
  rw [has]
  refine ⟨a1, a2, evs, a3, ?_⟩
  intro J tr
  rw [run_noinput hstep (writeProposalsAnswer_noinput' c props) J h tr, a4]
  simp

end generic

/-- the reference handler answers a batch completely and plainly when its policy is plain and it is not
set up to return a short list -/
theorem answersPlainBatched_ref (h : HState) (hpol : ∀ x ∈ h.policy, PlainAnswer x.2) (hs : h.batchedShort = none) :
    AnswersPlainBatched hstep h := by
  intro vs
  refine ⟨vs.map fun p => h.answerFor p.mid, by simp [hstep, hs], by simp, ?_⟩
  intro a ha
  obtain ⟨v, _, rfl⟩ := List.mem_map.mp ha
  obtain ⟨a', h1, h2⟩ := answersPlain_of_policy h hpol v
  have : a' = h.answerFor v.mid := by
    simp only [hstep, Prod.mk.injEq, Reply.answer.injEq, true_and] at h1
    exact h1.symm
  rw [← this]; exact h2

/-- the reference handler: unbatched, or batched and complete -/
theorem wpaOK_ref (c : Cfg) (h : HState) (hh : c.hasHandler = true) (hpol : ∀ x ∈ h.policy, PlainAnswer x.2)
    (hb : c.batched = false ∨ h.batchedShort = none) : WpaOK hstep c h := by
  cases hcb : c.batched with
  | false => exact wpaOK_unbatched hstep c h hcb (answersPlain_of_policy h hpol)
  | true =>
    rcases hb with hb | hb
    · rw [hcb] at hb; cases hb
    · exact wpaOK_batched hstep c h hcb hh (answersPlainBatched_ref h hpol hb)

end Wl2k.B2F
