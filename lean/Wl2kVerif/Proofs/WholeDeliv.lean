import Wl2kVerif.Proofs.WholeLedger
/-
The fault-free session, turn by turn, as an execution of the pair system (`pair_delivers`): from a
CONFIGURATION — the sender of the turn has written its block (or `FF`, or `FQ`), the receiver stands at the
start of its receiver turn with exactly those bytes queued — one turn leads to the mirrored configuration of
the next turn with a smaller measure, or (after `FQ`) to both sides returned without error; the ledgers of both
directions are carried along.
-/
namespace Wl2k.B2F
open Wl2k

/-- one side: configuration, initial and current handler state, session state, turn budget of what follows
the current turn, events so far, bytes read so far -/
structure SD where
  c : Cfg
  h0 : HState
  h : HState
  st : SState
  n : Nat
  e : List Ev
  g : Nat

structure SInv (fuel : Nat) (d : SD) : Prop where
  good : Good d.c fuel d.h
  quiet : Quiet d.h
  pol : d.h.policy = d.h0.policy
  nd : (d.h0.outbox.map (·.mid)).Nodup
  nqr : d.st.quitReceived = false
  nqs : d.st.quitSent = false

/-- some ledger of the transfers from `X` to `Y` -/
def Led (X Y : SD) : Prop := ∃ La Lr Ld, Ledger X.h0 Y.h0 X.h X.st Y.h Y.st La Lr Ld

/-- what the sender of the turn has written -/
inductive Kind where
  | blk | ff | fq

def weight : Kind → Nat
  | .blk => 1
  | .ff => 2
  | .fq => 0

def outOf (X : SD) : Kind → Bytes
  | .blk => blockOut (blockOf' X.c (offered X.h))
  | .ff => [70, 70, 13]
  | .fq => [70, 81, 13]

/-- the sender of the turn, having written `outOf X k` -/
def senderSide (fuel : Nat) (X : SD) : Kind → Side
  | .blk => mkSide (progAwait X.c fuel X.n X.st (blockOf' X.c (offered X.h))) [] X.g X.h X.e
  | .ff => mkSide (restOfSession X.c fuel X.n false { X.st with quitSent := false }) [] X.g X.h X.e
  | .fq => mkSide (restOfSession X.c fuel X.n false { X.st with quitSent := true }) [] X.g X.h X.e

/-- the receiver of the turn at the start of its receiver turn, with `O` queued -/
def receiverSide (fuel : Nat) (Y : SD) (O : Bytes) : Side :=
  mkSide (restOfSession Y.c fuel Y.n false Y.st) O Y.g Y.h Y.e

structure Conf (fuel : Nat) (k : Kind) (X Y : SD) : Prop where
  ix : SInv fuel X
  iy : SInv fuel Y
  lxy : Led X Y
  lyx : Led Y X
  cond : match k with
    | .blk => sortedOf X.h ≠ []
    | .ff => sortedOf X.h = []
    | .fq => sortedOf X.h = [] ∧ sortedOf Y.h = []

def mu (X Y : SD) : Nat := (vo X.h).length + (vo Y.h).length

/-- the result of a session that ends without error -/
def resOf (st : SState) : Result := { err := .nil, sent := st.sent, received := st.received }

/-- **Both sides have returned without error, and both ledgers are complete.** -/
def Outcome (hA0 hB0 : HState) (t : Side × Side) : Prop :=
  ∃ (stA stB : SState), t.1.ended = some (.done (resOf stA)) ∧ t.2.ended = some (.done (resOf stB)) ∧
    (∃ La Lr Ld, Ledger hA0 hB0 t.1.h stA t.2.h stB La Lr Ld) ∧
    (∃ La Lr Ld, Ledger hB0 hA0 t.2.h stB t.1.h stA La Lr Ld) ∧ vo t.1.h = [] ∧ vo t.2.h = []

theorem Outcome.swap {hA0 hB0 : HState} {t : Side × Side} (o : Outcome hA0 hB0 t) : Outcome hB0 hA0 t.swap := by
  obtain ⟨stA, stB, h1, h2, h3, h4, h5, h6⟩ := o
  exact ⟨stB, stA, h2, h1, h4, h3, h6, h5⟩

/-! ### the last turn -/

theorem turn_fq (fuel : Nat) (X Y : SD) (cf : Conf fuel .fq X Y) (hnX : 1 ≤ X.n) (hnY : 2 ≤ Y.n) :
    ∃ n t, PairExec (senderSide fuel X .fq, receiverSide fuel Y (outOf X .fq)) n t ∧ Outcome X.h0 Y.h0 t := by
  obtain ⟨nx, hnx⟩ : ∃ nx, X.n = nx + 1 := ⟨X.n - 1, by omega⟩
  obtain ⟨ny, hny⟩ : ∃ ny, Y.n = ny + 2 := ⟨Y.n - 2, by omega⟩
  simp only [senderSide, receiverSide, outOf, hnx, hny]
  rw [restOfSession_quit X.c fuel nx false _ (Or.inr rfl)]
  obtain ⟨k1, g1, e1⟩ := step_recv_FQ Y.c fuel ny Y.st Y.h Y.e Y.g cf.iy.nqr cf.iy.nqs cf.iy.good.f5
    (mkSide (.ret { err := .nil, sent := X.st.sent, received := X.st.received }) [] X.g X.h X.e) rfl
  have e2 := ret_left { err := .nil, sent := X.st.sent, received := X.st.received } [] X.g X.h X.e
    (mkSide (.ret { err := .nil, sent := Y.st.sent, received := Y.st.received }) [] g1 Y.h Y.e)
  have e3 := ret_right { err := .nil, sent := Y.st.sent, received := Y.st.received } [] g1 Y.h Y.e
    ({ mkSide (.ret { err := .nil, sent := X.st.sent, received := X.st.received }) [] X.g X.h X.e with
      ended := some (.done { err := .nil, sent := X.st.sent, received := X.st.received }) })
  refine ⟨k1 + 1 + 1, _, (e1.trans e2).trans e3, ?_⟩
  obtain ⟨c1, c2⟩ := cf.cond
  exact ⟨X.st, Y.st, rfl, rfl, cf.lxy, cf.lyx, (sortedOf_eq_nil _).mp c1, (sortedOf_eq_nil _).mp c2⟩

/-! ### a turn that is followed by another -/

/-- what a turn leads to: the mirrored configuration of the next turn — its sender `X'` (the receiver of this
turn) is on the right — with a smaller measure -/
def Next (fuel : Nat) (k : Kind) (X Y : SD) : Prop :=
  ∃ (k' : Kind) (X' Y' : SD) (n : Nat), Conf fuel k' X' Y' ∧ 2 * mu X' Y' + weight k' < 2 * mu X Y + weight k ∧
    X'.n + 2 = Y.n ∧ Y'.n = X.n ∧ X'.h0 = Y.h0 ∧ Y'.h0 = X.h0 ∧
    PairExec (senderSide fuel X k, receiverSide fuel Y (outOf X k)) n (receiverSide fuel Y' (outOf X' k'), senderSide fuel X' k')

theorem turn_ff (fuel : Nat) (X Y : SD) (cf : Conf fuel .ff X Y) (hnY : 2 ≤ Y.n) : Next fuel .ff X Y := by
  obtain ⟨ny, hny⟩ : ∃ ny, Y.n = ny + 2 := ⟨Y.n - 2, by omega⟩
  obtain ⟨La1, Lr1, Ld1, L1⟩ := cf.lxy
  obtain ⟨La2, Lr2, Ld2, L2⟩ := cf.lyx
  -- the receiver reads `FF`
  obtain ⟨k1, g1, e1⟩ := step_recv_FF Y.c fuel (ny + 1) Y.st Y.h Y.e Y.g cf.iy.nqr cf.iy.nqs cf.iy.good.f5
    (senderSide fuel X .ff) rfl
  have hstart : (senderSide fuel X .ff, receiverSide fuel Y (outOf X .ff)) =
      (senderSide fuel X .ff, mkSide (restOfSession Y.c fuel (ny + 1 + 1) false Y.st) [70, 70, 13] Y.g Y.h Y.e) := by
    simp only [receiverSide, outOf, hny]
  have iy' : SInv fuel ⟨Y.c, Y.h0, Y.h, { Y.st with remoteNoMsgs := true, quitReceived := false }, ny, [], 0⟩ :=
    ⟨cf.iy.good, cf.iy.quiet, cf.iy.pol, cf.iy.nd, rfl, cf.iy.nqs⟩
  have ix' : SInv fuel ⟨X.c, X.h0, X.h, { X.st with quitSent := false }, X.n, X.e, X.g⟩ :=
    ⟨cf.ix.good, cf.ix.quiet, cf.ix.pol, cf.ix.nd, cf.ix.nqr, rfl⟩
  by_cases hE : sortedOf Y.h = []
  · -- nothing to send either: `FQ`
    obtain ⟨k2, g2, e2⟩ := step_send_none Y.c fuel ny { Y.st with remoteNoMsgs := true, quitReceived := false } Y.h Y.e [] g1
      cf.iy.good.hh rfl cf.iy.nqs hE (senderSide fuel X .ff) rfl
    refine ⟨.fq, ⟨Y.c, Y.h0, Y.h, { Y.st with remoteNoMsgs := true, quitReceived := false }, ny,
        .wrote [70, 81, 13] :: .called (.getOutbound Y.st.remoteFW) :: Y.e, g2⟩,
      ⟨X.c, X.h0, X.h, { X.st with quitSent := false }, X.n, X.e, X.g⟩, k1 + k2,
      ⟨⟨iy'.good, iy'.quiet, iy'.pol, iy'.nd, rfl, cf.iy.nqs⟩, ix', ⟨La2, Lr2, Ld2, L2.congr rfl rfl rfl rfl rfl⟩,
        ⟨La1, Lr1, Ld1, L1.congr rfl rfl rfl rfl rfl⟩, ⟨hE, cf.cond⟩⟩, ?_, by simp [hny], rfl, rfl, rfl, ?_⟩
    · simp only [mu, weight]; omega
    · rw [hstart]
      exact e1.trans e2
  · -- a block to send
    obtain ⟨k2, g2, evs, ho, e2⟩ := step_send_block Y.c fuel ny { Y.st with remoteNoMsgs := true, quitReceived := false } Y.h Y.e [] g1
      cf.iy.good.hh rfl cf.iy.nqs hE (senderSide fuel X .ff) rfl
    refine ⟨.blk, ⟨Y.c, Y.h0, Y.h, { Y.st with remoteNoMsgs := true, quitReceived := false }, ny, evs ++ Y.e, g2⟩,
      ⟨X.c, X.h0, X.h, { X.st with quitSent := false }, X.n, X.e, X.g⟩, k1 + k2,
      ⟨⟨iy'.good, iy'.quiet, iy'.pol, iy'.nd, rfl, cf.iy.nqs⟩, ix', ⟨La2, Lr2, Ld2, L2.congr rfl rfl rfl rfl rfl⟩,
        ⟨La1, Lr1, Ld1, L1.congr rfl rfl rfl rfl rfl⟩, hE⟩, ?_, by simp [hny], rfl, rfl, rfl, ?_⟩
    · simp only [mu, weight]; omega
    · rw [hstart]
      exact e1.trans e2

theorem turn_blk (fuel : Nat) (X Y : SD) (cf : Conf fuel .blk X Y) (hnY : 2 ≤ Y.n) : Next fuel .blk X Y := by
  obtain ⟨ny, hny⟩ : ∃ ny, Y.n = ny + 2 := ⟨Y.n - 2, by omega⟩
  obtain ⟨La1, Lr1, Ld1, L1⟩ := cf.lxy
  obtain ⟨La2, Lr2, Ld2, L2⟩ := cf.lyx
  have hsE : sortedOf X.h ≠ [] := cf.cond
  have hne : blockOf' X.c (offered X.h) ≠ [] := block_ne_of_sorted cf.ix.good.mb hsE
  have hok := cf.ix.good.blockOK hne
  have hndX : (X.h.outbox.map (·.mid)).Nodup := by
    rw [L1.outbox]; exact ((List.filter_sublist).map _).nodup cf.ix.nd
  have hndB : ((blockOf' X.c (offered X.h)).map (·.mid)).Nodup := block_nodup X.c X.h hndX
  have hansY : WpaOK hstep Y.c Y.h := wpaOK_ref Y.c Y.h cf.iy.good.hh cf.iy.good.pol cf.iy.good.nb
  obtain ⟨hlen0, hpl, _⟩ := run_wpa_canon hstep Y.c Y.h hansY ((blockOf' X.c (offered X.h)).map recvProp)
  have has : answersOf hstep Y.c Y.h ((blockOf' X.c (offered X.h)).map recvProp) =
      (blockOf' X.c (offered X.h)).map fun p => Y.h.answerFor p.mid := by
    rw [answersOf_ref Y.c cf.iy.good.hh Y.h cf.iy.good.nb _ ?_ ?_, List.map_map]
    · rfl
    · intro p hp
      obtain ⟨q, hq, rfl⟩ := List.mem_map.mp hp
      exact (hok.line q hq).1.code
    · rw [List.map_map]; exact hndB
  generalize hB : blockOf' X.c (offered X.h) = B at hne hok hndB hlen0 hpl has
  generalize hasd : answersOf hstep Y.c Y.h (B.map recvProp) = as at hlen0 hpl has
  have hlen : as.length = B.length := by simpa using hlen0
  have hasne : as ≠ [] := by
    intro e; rw [e] at hlen; exact hne (List.length_eq_zero_iff.mp hlen.symm)
  have hfsl : (fsLine as).length < fuel := by
    have := hok.fuelN
    simp only [fsLine, fsPrefix, List.length_append, List.length_cons, List.length_nil]; omega
  have hbl : B.length < fuel := by have := hok.fuelN; omega
  obtain ⟨hacc, hrej⟩ := transferRes_acc B as hndB hpl
  obtain ⟨d1, d2, d3, d4, d5, d6⟩ := deliver_view (acceptedData (fun p => (lzDecode p.cdata).getD []) B as) Y.h cf.iy.quiet
  -- the receiver reads the block and answers
  have hstart : (senderSide fuel X .blk, receiverSide fuel Y (outOf X .blk)) =
      (mkSide (progAwait X.c fuel X.n X.st B) [] X.g X.h X.e,
        mkSide (restOfSession Y.c fuel (ny + 1 + 1) false Y.st) (blockOut B) Y.g Y.h Y.e) := by
    simp only [senderSide, receiverSide, outOf, hny, hB]
  obtain ⟨k1, g1, evs1, _, e1⟩ := step_recv_block Y.c fuel (ny + 1) Y.st B Y.h Y.e Y.g cf.iy.nqr cf.iy.nqs hansY hne
    hok.line cf.iy.good.f5 hbl (mkSide (progAwait X.c fuel X.n X.st B) [] X.g X.h X.e) rfl
  rw [hasd, push_mkSide, List.nil_append] at e1
  -- the sender reads the answers and sends the frames
  obtain ⟨k2, g2, evs2, _, e2⟩ := step_send_answer X.c fuel X.n X.st B as X.h X.e X.g hlen hasne hpl hfsl hok.big
    (mkSide (progFetch Y.c fuel (ny + 1) (List.zipWith setAns (B.map recvProp) as) { Y.st with remoteNoMsgs := false }) [] g1 Y.h
      (.wrote (fsLine as ++ [13]) :: (evs1 ++ Y.e))) rfl
  rw [push_mkSide, List.nil_append, hrej] at e2
  -- the receiver reads the frames and hands the messages over
  obtain ⟨k3, g3, e3⟩ := step_recv_frames Y.c fuel (ny + 1) { Y.st with remoteNoMsgs := false } X.c.maxMsgLen cf.ix.good.m1
    cf.ix.good.m2 (fun p => (lzDecode p.cdata).getD []) B as hok.frame Y.h (.wrote (fsLine as ++ [13]) :: (evs1 ++ Y.e)) g1 d6
    (mkSide (progPeek X.c fuel X.n X.st ((transferRes B as []).filter (!·.2))) [] g2
      (hSent (hDefer X.h (deferredMids B as)) true (rejectedMids B as)) (evs2 ++ X.e)) rfl
  -- the side invariants and ledgers after the turn
  have hY'le : HLe ((acceptedData (fun p => (lzDecode p.cdata).getD []) B as).foldl (deliverStep hstep) Y.h) Y.h := deliver_hle _ _
  have hX'le : HLe (hAfterSend X.h B as) X.h := hAfterSend_hle _ _ _
  have hsrc : ∀ p ∈ B, ∃ msg ∈ vo X.h, p = mkProp msg := by
    intro p hp; rw [← hB] at hp; exact mem_block_vo X.c X.h p hp
  have hdata : ∀ msg ∈ vo X.h, (fun p : Proposal => (lzDecode p.cdata).getD []) (mkProp msg) = msg.data := by
    intro msg hm
    have := (cf.ix.good.msgs msg ((vo_sublist X.h).subset hm)).small
    simp [mkProp, lz_roundtrip msg.data this]
  have hmeas : (vo (hAfterSend X.h B as)).length < (vo X.h).length :=
    vo_after_block_lt X.h B as (fun p => (lzDecode p.cdata).getD []) hsrc hne hlen hpl
  have hvoY : vo ((acceptedData (fun p => (lzDecode p.cdata).getD []) B as).foldl (deliverStep hstep) Y.h) = vo Y.h := vo_congr d2 d3
  have hconfirmH : hSent (hSent (hDefer X.h (deferredMids B as)) true (rejectedMids B as)) false
      (((transferRes B as []).filter (!·.2)).map (·.1)) = hAfterSend X.h B as := by
    rw [hacc]; rfl
  -- the new sender (on the right) and the new receiver (on the left)
  have iyNew : ∀ (e : List Ev) (g : Nat), SInv fuel ⟨Y.c, Y.h0,
      (acceptedData (fun p => (lzDecode p.cdata).getD []) B as).foldl (deliverStep hstep) Y.h,
      { Y.st with remoteNoMsgs := false, received := Y.st.received ++ acceptedMids B as, quitReceived := false }, ny, e, g⟩ :=
    fun e g => ⟨cf.iy.good.of_hle hY'le, d5, by rw [d4]; exact cf.iy.pol, cf.iy.nd, rfl, cf.iy.nqs⟩
  have ixNew : ∀ (e : List Ev) (g : Nat), SInv fuel ⟨X.c, X.h0, hAfterSend X.h B as,
      { X.st with sent := X.st.sent ++ ((transferRes B as []).filter (!·.2)).map (·.1), quitSent := false }, X.n, e, g⟩ :=
    fun e g => ⟨cf.ix.good.of_hle hX'le, hAfterSend_quiet _ _ _ cf.ix.quiet, by rw [hAfterSend_policy]; exact cf.ix.pol, cf.ix.nd,
      cf.ix.nqr, rfl⟩
  have hLnew1 := L1.block X.c (fun p => (lzDecode p.cdata).getD []) cf.iy.pol cf.iy.quiet hdata cf.ix.nd
    { X.st with sent := X.st.sent ++ ((transferRes B as []).filter (!·.2)).map (·.1), quitSent := false }
    { Y.st with remoteNoMsgs := false, received := Y.st.received ++ acceptedMids B as, quitReceived := false }
    (by rw [hB, ← has, hacc]) (by rw [hB, ← has])
  rw [hB, ← has] at hLnew1
  have hLnew2 : Ledger Y.h0 X.h0 ((acceptedData (fun p => (lzDecode p.cdata).getD []) B as).foldl (deliverStep hstep) Y.h)
      { Y.st with remoteNoMsgs := false, received := Y.st.received ++ acceptedMids B as, quitReceived := false }
      (hAfterSend X.h B as)
      { X.st with sent := X.st.sent ++ ((transferRes B as []).filter (!·.2)).map (·.1), quitSent := false } La2 Lr2 Ld2 :=
    L2.congr d2 d3 rfl (hAfterSend_inbox _ _ _) rfl
  -- the receiver's own turn to send: a block, or `FF`
  by_cases hE : sortedOf ((acceptedData (fun p => (lzDecode p.cdata).getD []) B as).foldl (deliverStep hstep) Y.h) = []
  · obtain ⟨k4, g4, e4⟩ := step_send_none Y.c fuel ny
      { Y.st with remoteNoMsgs := false, received := Y.st.received ++ acceptedMids B as, quitReceived := false }
      ((acceptedData (fun p => (lzDecode p.cdata).getD []) B as).foldl (deliverStep hstep) Y.h)
      (deliverEvs (acceptedData (fun p => (lzDecode p.cdata).getD []) B as) ++ .wrote (fsLine as ++ [13]) :: (evs1 ++ Y.e)) [] g3
      cf.iy.good.hh rfl cf.iy.nqs hE
      (mkSide (progPeek X.c fuel X.n X.st ((transferRes B as []).filter (!·.2))) [] g2
        (hSent (hDefer X.h (deferredMids B as)) true (rejectedMids B as)) (evs2 ++ X.e)) rfl
    simp only [Bool.false_eq_true, if_false] at e4
    rw [push_mkSide, List.nil_append] at e4
    -- the sender sees the 'F' and reports what it sent
    obtain ⟨k5, g5, evs5, _, e5⟩ := step_send_confirm X.c fuel X.n X.st ((transferRes B as []).filter (!·.2)) 70 [70, 13]
      (hSent (hDefer X.h (deferredMids B as)) true (rejectedMids B as)) (evs2 ++ X.e) g2 (by decide)
      (mkSide (restOfSession Y.c fuel ny false
        { Y.st with remoteNoMsgs := false, received := Y.st.received ++ acceptedMids B as, quitReceived := false, quitSent := false }) [] g4
        ((acceptedData (fun p => (lzDecode p.cdata).getD []) B as).foldl (deliverStep hstep) Y.h)
        (.wrote [70, 70, 13] :: .called (.getOutbound Y.st.remoteFW) ::
          (deliverEvs (acceptedData (fun p => (lzDecode p.cdata).getD []) B as) ++ .wrote (fsLine as ++ [13]) :: (evs1 ++ Y.e)))) rfl
    rw [hconfirmH] at e5
    refine ⟨.ff, ⟨Y.c, Y.h0, (acceptedData (fun p => (lzDecode p.cdata).getD []) B as).foldl (deliverStep hstep) Y.h,
        { Y.st with remoteNoMsgs := false, received := Y.st.received ++ acceptedMids B as, quitReceived := false }, ny,
        .wrote [70, 70, 13] :: .called (.getOutbound Y.st.remoteFW) ::
          (deliverEvs (acceptedData (fun p => (lzDecode p.cdata).getD []) B as) ++ .wrote (fsLine as ++ [13]) :: (evs1 ++ Y.e)), g4⟩,
      ⟨X.c, X.h0, hAfterSend X.h B as,
        { X.st with sent := X.st.sent ++ ((transferRes B as []).filter (!·.2)).map (·.1), quitSent := false }, X.n,
        evs5 ++ (evs2 ++ X.e), g5⟩, k1 + k2 + k3 + k4 + k5,
      ⟨iyNew _ _, ixNew _ _, ⟨La2, Lr2, Ld2, hLnew2⟩, ⟨_, _, _, hLnew1⟩, hE⟩, ?_, by simp [hny], rfl, rfl, rfl, ?_⟩
    · simp only [mu, weight, hvoY]; omega
    · rw [hstart]
      exact (((e1.trans e2).trans e3).trans e4).trans e5
  · obtain ⟨k4, g4, evs4, _, e4⟩ := step_send_block Y.c fuel ny
      { Y.st with remoteNoMsgs := false, received := Y.st.received ++ acceptedMids B as, quitReceived := false }
      ((acceptedData (fun p => (lzDecode p.cdata).getD []) B as).foldl (deliverStep hstep) Y.h)
      (deliverEvs (acceptedData (fun p => (lzDecode p.cdata).getD []) B as) ++ .wrote (fsLine as ++ [13]) :: (evs1 ++ Y.e)) [] g3
      cf.iy.good.hh rfl cf.iy.nqs hE
      (mkSide (progPeek X.c fuel X.n X.st ((transferRes B as []).filter (!·.2))) [] g2
        (hSent (hDefer X.h (deferredMids B as)) true (rejectedMids B as)) (evs2 ++ X.e)) rfl
    rw [push_mkSide, List.nil_append] at e4
    have hne' : blockOf' Y.c (offered ((acceptedData (fun p => (lzDecode p.cdata).getD []) B as).foldl (deliverStep hstep) Y.h)) ≠ [] :=
      block_ne_of_sorted cf.iy.good.mb hE
    obtain ⟨t, ht⟩ := blockOut_head _ hne'
    rw [ht] at e4
    obtain ⟨k5, g5, evs5, _, e5⟩ := step_send_confirm X.c fuel X.n X.st ((transferRes B as []).filter (!·.2)) 70 t
      (hSent (hDefer X.h (deferredMids B as)) true (rejectedMids B as)) (evs2 ++ X.e) g2 (by decide)
      (mkSide (progAwait Y.c fuel ny
          { Y.st with remoteNoMsgs := false, received := Y.st.received ++ acceptedMids B as, quitReceived := false }
          (blockOf' Y.c (offered ((acceptedData (fun p => (lzDecode p.cdata).getD []) B as).foldl (deliverStep hstep) Y.h)))) [] g4
        ((acceptedData (fun p => (lzDecode p.cdata).getD []) B as).foldl (deliverStep hstep) Y.h)
        (evs4 ++ (deliverEvs (acceptedData (fun p => (lzDecode p.cdata).getD []) B as) ++ .wrote (fsLine as ++ [13]) :: (evs1 ++ Y.e)))) rfl
    rw [hconfirmH, ← ht] at e5
    refine ⟨.blk, ⟨Y.c, Y.h0, (acceptedData (fun p => (lzDecode p.cdata).getD []) B as).foldl (deliverStep hstep) Y.h,
        { Y.st with remoteNoMsgs := false, received := Y.st.received ++ acceptedMids B as, quitReceived := false }, ny,
        evs4 ++ (deliverEvs (acceptedData (fun p => (lzDecode p.cdata).getD []) B as) ++ .wrote (fsLine as ++ [13]) :: (evs1 ++ Y.e)), g4⟩,
      ⟨X.c, X.h0, hAfterSend X.h B as,
        { X.st with sent := X.st.sent ++ ((transferRes B as []).filter (!·.2)).map (·.1), quitSent := false }, X.n,
        evs5 ++ (evs2 ++ X.e), g5⟩, k1 + k2 + k3 + k4 + k5,
      ⟨iyNew _ _, ixNew _ _, ⟨La2, Lr2, Ld2, hLnew2⟩, ⟨_, _, _, hLnew1⟩, hE⟩, ?_, by simp [hny], rfl, rfl, rfl, ?_⟩
    · simp only [mu, weight, hvoY]; omega
    · rw [hstart]
      rw [← ht] at e4
      exact (((e1.trans e2).trans e3).trans e4).trans e5

/-! ### all turns -/

/-- **From any configuration the session runs to its end**: some execution of the pair system ends with both
sides returned without error and both ledgers complete. `Φ` bounds the measure `2·(messages still queued on
either side) + weight`; each side's turn budget must be at least `2Φ + 2`. -/
theorem deliver_conf (fuel : Nat) : ∀ (Φ : Nat) (k : Kind) (X Y : SD), Conf fuel k X Y → 2 * mu X Y + weight k ≤ Φ →
    2 * Φ + 2 ≤ X.n → 2 * Φ + 2 ≤ Y.n →
    ∃ n t, PairExec (senderSide fuel X k, receiverSide fuel Y (outOf X k)) n t ∧ Outcome X.h0 Y.h0 t := by
  intro Φ
  induction Φ with
  | zero =>
    intro k X Y cf hm hx hy
    cases k with
    | fq => exact turn_fq fuel X Y cf (by omega) (by omega)
    | blk => simp [weight] at hm
    | ff => simp [weight] at hm
  | succ Φ ih =>
    intro k X Y cf hm hx hy
    have hnext : Next fuel k X Y → ∃ n t, PairExec (senderSide fuel X k, receiverSide fuel Y (outOf X k)) n t ∧ Outcome X.h0 Y.h0 t := by
      rintro ⟨k', X', Y', n, cf', hlt, hn1, hn2, h01, h02, he⟩
      obtain ⟨m, t, he', ho⟩ := ih k' X' Y' cf' (by omega) (by omega) (by omega)
      refine ⟨n + m, t.swap, he.trans (pairExec_swap he'), ?_⟩
      have := ho.swap
      rwa [h01, h02] at this
    cases k with
    | fq => exact turn_fq fuel X Y cf (by omega) (by omega)
    | blk => exact hnext (turn_blk fuel X Y cf (by omega))
    | ff => exact hnext (turn_ff fuel X Y cf (by omega))

end Wl2k.B2F
