import Wl2kVerif.Proofs.AlterHeaderDel
/-
Substitution of one header byte of a transfer frame.
-/
namespace Wl2k.B2F
open Wl2k Wl2k.Strconv

variable {H : Type} (hstep : H → Call → H × Reply)

theorem byte_cases {P : UInt8 → Prop} (h : ∀ n, n < 256 → P (UInt8.ofNat n)) (b : UInt8) : P b := by
  have := h b.toNat b.toNat_lt
  simpa using this

/-- a one-byte offset field other than "0": not a number, or a number other than 0 -/
theorem atoi_single : ∀ b : UInt8, b ≠ 48 → (atoi [b]).2 = true ∨ (atoi [b]).1 ≠ 0 :=
  byte_cases (by decide +kernel)

/-- **the length byte** (index 1) replaced by `b` -/
theorem run_rc_subst_len (m : Nat) (qtitle d rest : Bytes) (hq : (0 : UInt8) ∉ qtitle)
    (hlen : qtitle.length + 3 < 256) (p : Proposal)
    (fuel : Nat) (hfuel : qtitle.length + 4 < fuel) (h : H) (tr : List Ev)
    (b : UInt8) (hb : b.toNat ≠ qtitle.length + 3) :
    Proc.run hstep (readCompressed fuel p) ((frameOf m qtitle d).set 1 b ++ rest) h tr =
      (.done (.error (.proto "header-length-mismatch")), frameTail m d ++ rest, h, tr) := by
  rw [frameOf_cons, List.set_cons_succ, List.set_cons_zero]
  have := run_rc_hdr_mismatch hstep fuel p b qtitle [48] (frameTail m d ++ rest)
    hq (by decide) (by omega) (by simp; omega) (by simp; omega) h tr
  simpa using this

/-- **a title byte** (index `i + 2`) replaced by NUL -/
theorem run_rc_subst_title_nul (m : Nat) (qtitle d rest : Bytes) (hq : (0 : UInt8) ∉ qtitle)
    (hlen : qtitle.length + 3 < 256) (p : Proposal)
    (fuel : Nat) (hfuel : qtitle.length + 4 < fuel) (h : H) (tr : List Ev)
    (i : Nat) (hi : i < qtitle.length) :
    Proc.run hstep (readCompressed fuel p) ((frameOf m qtitle d).set (i + 2) 0 ++ rest) h tr =
      (.done (.error (.proto "header-length-mismatch")), 48 :: 0 :: (frameTail m d ++ rest), h, tr) := by
  have hL := lenByte_toNat qtitle hlen
  rw [frameOf_cons, List.set_cons_succ, List.set_cons_succ, List.set_append_left _ _ hi,
    List.set_eq_take_append_cons_drop, if_pos hi]
  have ⟨ht, hd⟩ := not_mem_take_drop qtitle hq i (i + 1)
  have := run_rc_hdr_mismatch hstep fuel p (lenByte qtitle) (qtitle.take i) (qtitle.drop (i + 1))
    (48 :: 0 :: (frameTail m d ++ rest)) ht hd (by simp; omega) (by simp; omega) (by simp; omega) h tr
  simpa using this

/-- **the first NUL** (index `|qtitle| + 2`) replaced by a non-NUL byte -/
theorem run_rc_subst_nul1 (m : Nat) (qtitle d rest : Bytes) (hq : (0 : UInt8) ∉ qtitle)
    (hlen : qtitle.length + 3 < 256) (p : Proposal)
    (fuel : Nat) (hfuel : (frameOf m qtitle d ++ rest).length < fuel) (h : H) (tr : List Ev)
    (b : UInt8) (hb : b ≠ 0) :
    ∃ e rem, Proc.run hstep (readCompressed fuel p) ((frameOf m qtitle d).set (qtitle.length + 2) b ++ rest) h tr =
        (.done (.error e), rem, h, tr) ∧ (e = .proto "header-length-mismatch" ∨ e = .eof) := by
  have hL := lenByte_toNat qtitle hlen
  rw [List.length_append, frameOf_length] at hfuel
  obtain ⟨c, T, hT, hc⟩ := frameTail_head m d
  rw [frameOf_cons, List.set_cons_succ, List.set_cons_succ, List.set_append_right _ _ (Nat.le_refl _), Nat.sub_self,
    List.set_cons_zero]
  obtain ⟨e, rem, hr, he⟩ := run_rc_hdr_open hstep fuel p (lenByte qtitle) (qtitle ++ [b, 48]) [] (frameTail m d ++ rest)
    c (T ++ rest)
    (by simp only [List.mem_append, List.mem_cons, not_or]; exact ⟨hq, fun e => hb e.symm, by decide, by simp⟩)
    (by simp) (by rw [hT]; rfl) hc (by simp; omega) (by simp; omega) (by simp; omega) h tr
  exact ⟨e, rem, by simpa using hr, he⟩

/-- **the final NUL** (index `|qtitle| + 4`) replaced by a non-NUL byte -/
theorem run_rc_subst_nul2 (m : Nat) (qtitle d rest : Bytes) (hq : (0 : UInt8) ∉ qtitle)
    (hlen : qtitle.length + 3 < 256) (p : Proposal)
    (fuel : Nat) (hfuel : (frameOf m qtitle d ++ rest).length < fuel) (h : H) (tr : List Ev)
    (b : UInt8) (hb : b ≠ 0) :
    ∃ e rem, Proc.run hstep (readCompressed fuel p) ((frameOf m qtitle d).set (qtitle.length + 4) b ++ rest) h tr =
        (.done (.error e), rem, h, tr) ∧ (e = .proto "header-length-mismatch" ∨ e = .eof) := by
  have hL := lenByte_toNat qtitle hlen
  rw [List.length_append, frameOf_length] at hfuel
  obtain ⟨c, T, hT, hc⟩ := frameTail_head m d
  rw [frameOf_cons, List.set_cons_succ, List.set_cons_succ, List.set_append_right _ _ (by omega),
    show qtitle.length + 2 - qtitle.length = 2 by omega]
  simp only [List.set_cons_succ, List.set_cons_zero]
  obtain ⟨e, rem, hr, he⟩ := run_rc_hdr_open hstep fuel p (lenByte qtitle) qtitle [48, b] (frameTail m d ++ rest)
    c (T ++ rest) hq
    (by simp only [List.mem_cons, not_or]; exact ⟨by decide, fun e => hb e.symm, by simp⟩)
    (by rw [hT]; rfl) hc (by simp; omega) (by omega) (by simp; omega) h tr
  exact ⟨e, rem, by simpa using hr, he⟩

/-- **the offset digit** (index `|qtitle| + 3`) replaced by any other byte -/
theorem run_rc_subst_digit (m : Nat) (qtitle d rest : Bytes) (hq : (0 : UInt8) ∉ qtitle)
    (hlen : qtitle.length + 3 < 256) (p : Proposal) (hoff : p.offset = 0)
    (fuel : Nat) (hfuel : qtitle.length + 4 < fuel) (h : H) (tr : List Ev)
    (b : UInt8) (hb : b ≠ 48) :
    ∃ e rem, Proc.run hstep (readCompressed fuel p) ((frameOf m qtitle d).set (qtitle.length + 3) b ++ rest) h tr =
        (.done (.error e), rem, h, tr) ∧
      ((b = 0 ∧ e = .proto "header-length-mismatch") ∨
       (b ≠ 0 ∧ (e = .proto "offset-not-an-integer" ∨ e = .proto "unexpected-offset"))) := by
  have hL := lenByte_toNat qtitle hlen
  rw [frameOf_cons, List.set_cons_succ, List.set_cons_succ, List.set_append_right _ _ (by omega),
    show qtitle.length + 1 - qtitle.length = 1 by omega]
  simp only [List.set_cons_succ, List.set_cons_zero]
  by_cases hb0 : b = 0
  · subst hb0
    refine ⟨_, 0 :: (frameTail m d ++ rest), ?_, .inl ⟨rfl, rfl⟩⟩
    have := run_rc_hdr_mismatch hstep fuel p (lenByte qtitle) qtitle [] (0 :: (frameTail m d ++ rest))
      hq (by simp) (by omega) (by simp; omega) (by simp; omega) h tr
    simpa using this
  · have := run_rc_hdr hstep fuel p (lenByte qtitle) qtitle [b] (frameTail m d ++ rest)
      hq (by simp only [List.mem_cons, not_or]; exact ⟨fun e => hb0 e.symm, by simp⟩)
      (by omega) (by simp; omega) h tr
    rw [if_neg (by simp; omega)] at this
    by_cases hbad : (atoi [b]).2 = true
    · rw [if_pos hbad] at this
      exact ⟨_, _, by simpa using this, .inr ⟨hb0, .inl rfl⟩⟩
    · rw [if_neg hbad, if_pos (by
        rw [hoff]
        rcases atoi_single b hb with h1 | h1
        · exact absurd h1 hbad
        · exact h1)] at this
      exact ⟨_, _, by simpa using this, .inr ⟨hb0, .inr rfl⟩⟩

/-- **a title byte** (index `i + 2`) replaced by a non-NUL byte: the frame of another title -/
theorem frameOf_set_title (m : Nat) (qtitle d : Bytes) (i : Nat) (hi : i < qtitle.length) (b : UInt8) :
    (frameOf m qtitle d).set (i + 2) b = frameOf m (qtitle.set i b) d := by
  rw [frameOf_cons, frameOf_cons, List.set_cons_succ, List.set_cons_succ, List.set_append_left _ _ hi]
  simp [lenByte]

theorem not_mem_set (q : Bytes) (hq : (0 : UInt8) ∉ q) (i : Nat) (b : UInt8) (hb : b ≠ 0) : (0 : UInt8) ∉ q.set i b := by
  intro h
  rcases List.mem_or_eq_of_mem_set h with h | h
  · exact hq h
  · exact hb h.symm

end Wl2k.B2F
