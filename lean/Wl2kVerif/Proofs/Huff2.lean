import Wl2kVerif.Proofs.Huff
/-
`update` (without rebuild) preserves `HuffWF`: characterisation of `swapNodes`, the loop invariant of
`updateLoop`, `scanUp`, and the fuel argument.
-/
namespace Wl2k.Lzhuf

/-! ### consequences of `HuffS` -/

theorem HuffS.prnt_gt {h : Huff} (s : HuffS h) (k : Nat) (hk : k < R) : k < rd h.prnt k := by
  have ⟨p1, p2⟩ := s.prnt_lt k hk
  have q := s.son_int _ p1 (by rw [p2]; simp only [R_eq, T_eq] at *; omega)
  rw [p2] at q
  omega

/-- the root is an internal node -/
theorem HuffS.son_root {h : Huff} (s : HuffS h) : rd h.son R < T := by
  -- climb from node 0
  have key : ∀ n k, k < R → R - k ≤ n → rd h.son R < T := by
    intro n
    induction n with
    | zero => intro k hk hn; omega
    | succ n ih =>
      intro k hk hn
      have ⟨p1, p2⟩ := s.prnt_lt k hk
      have g := s.prnt_gt k hk
      by_cases e : rd h.prnt k = R
      · rw [e] at p2; rw [p2]; simp only [R_eq, T_eq] at *; omega
      · exact ih (rd h.prnt k) (by simp only [R_eq, T_eq] at *; omega) (by omega)
  exact key R 0 (by simp [R_eq]) (by omega)

theorem HuffS.prnt_eq_zero {h : Huff} (s : HuffS h) (k : Nat) (hk : k < T) : rd h.prnt k = 0 ↔ k = R := by
  constructor
  · intro e
    by_cases c : k = R
    · exact c
    · have := s.prnt_gt k (by simp only [R_eq, T_eq] at *; omega); omega
  · intro e; rw [e]; exact s.prnt_root

/-! ### `swapNodes` -/

theorem swapNodes_freq (h : Huff) (c l k : Nat) :
    (swapNodes h c l k).freq = wr (wr h.freq c (rd h.freq l)) l k := by
  simp [swapNodes]

theorem swapNodes_son (h : Huff) (c l k : Nat) :
    (swapNodes h c l k).son = wr (wr h.son l (rd h.son c)) c (rd h.son l) := by
  simp [swapNodes]

/-- write `v` as the parent of the node (pair) `i` -/
def wrp (a : Array Nat) (i v : Nat) : Array Nat := if i < T then wr (wr a i v) (i + 1) v else wr a i v

theorem swapNodes_prnt (h : Huff) (c l k : Nat) :
    (swapNodes h c l k).prnt = wrp (wrp h.prnt (rd h.son c) l) (rd h.son l) c := by
  simp only [swapNodes, wrp, Huff.chk_son, Huff.chk_prnt]

theorem swapNodes_oob (h : Huff) (c l k : Nat) (hl : l + 1 < h.freq.size) : (swapNodes h c l k).oob = h.oob := by
  simp [swapNodes, hl]

theorem swapNodes_spin (h : Huff) (c l k : Nat) : (swapNodes h c l k).spin = h.spin := by
  simp [swapNodes]

@[simp] theorem size_wrp (a : Array Nat) (i v : Nat) : (wrp a i v).size = a.size := by
  unfold wrp; split <;> simp

theorem rd_wrp (a : Array Nat) (i v x : Nat) (h1 : i < a.size) (h2 : i < T → i + 1 < a.size) :
    rd (wrp a i v) x = if x = i ∨ (i < T ∧ x = i + 1) then v else rd a x := by
  unfold wrp
  by_cases hi : i < T
  · have := h2 hi
    simp only [hi, if_true, rd_wr, size_wr, true_and]
    by_cases e1 : i + 1 = x
    · subst e1; simp [this]
    · by_cases e0 : i = x
      · subst e0; simp [h1]
      · rw [if_neg (by omega), if_neg (by omega), if_neg (by omega)]
  · simp only [hi, if_false, rd_wr, false_and, or_false]
    by_cases e0 : i = x
    · subst e0; simp [h1]
    · rw [if_neg (by omega), if_neg (by omega)]

/-- The exchange of two nodes in functional form. -/
structure Swapped (h h' : Huff) (c l : Nat) : Prop where
  sz_freq : h'.freq.size = h.freq.size
  sz_prnt : h'.prnt.size = h.prnt.size
  sz_son : h'.son.size = h.son.size
  oob : h'.oob = h.oob
  spin : h'.spin = h.spin
  son : ∀ x, rd h'.son x = if x = c then rd h.son l else if x = l then rd h.son c else rd h.son x
  prnt : ∀ x, rd h'.prnt x =
    if x = rd h.son l ∨ (rd h.son l < T ∧ x = rd h.son l + 1) then c
    else if x = rd h.son c ∨ (rd h.son c < T ∧ x = rd h.son c + 1) then l else rd h.prnt x

theorem HuffS.son_lt_size {h : Huff} (s : HuffS h) (i : Nat) (hi : i < T) :
    rd h.son i < h.prnt.size ∧ (rd h.son i < T → rd h.son i + 1 < h.prnt.size) := by
  rw [s.sz_prnt]
  by_cases c : rd h.son i < T
  · have := s.son_int i hi c; simp only [T_eq, NCHAR_eq] at *; omega
  · have := s.son_leaf i hi (by omega); simp only [T_eq, NCHAR_eq] at *; omega

theorem swapNodes_swapped (h : Huff) (c l k : Nat) (s : HuffS h) (hc : c < T) (hl : l < T) :
    Swapped h (swapNodes h c l k) c l := by
  have a1 := s.son_lt_size c hc
  have a2 := s.son_lt_size l hl
  refine ⟨by simp [swapNodes_freq], by simp [swapNodes_prnt], by simp [swapNodes_son],
    swapNodes_oob h c l k (by rw [s.sz_freq]; omega), swapNodes_spin h c l k, ?_, ?_⟩
  · intro x
    simp only [swapNodes_son, rd_wr, size_wr, s.sz_son]
    by_cases e1 : c = x
    · subst e1; simp [hc]
    · by_cases e2 : l = x
      · subst e2; rw [if_neg (by omega), if_pos ⟨rfl, hl⟩, if_neg (by omega), if_pos rfl]
      · rw [if_neg (by omega), if_neg (by omega), if_neg (by omega), if_neg (by omega)]
  · intro x
    rw [swapNodes_prnt, rd_wrp _ _ _ _ (by simpa using a2.1) (by simpa using a2.2), rd_wrp _ _ _ _ a1.1 a1.2]

section swap
variable {h h' : Huff} {c l : Nat}

theorem Swapped.prnt1 (sw : Swapped h h' c l) (x : Nat)
    (hx : x = rd h.son l ∨ (rd h.son l < T ∧ x = rd h.son l + 1)) : rd h'.prnt x = c := by
  rw [sw.prnt x, if_pos hx]

theorem Swapped.prnt2 (sw : Swapped h h' c l) (x : Nat)
    (hx : ¬ (x = rd h.son l ∨ (rd h.son l < T ∧ x = rd h.son l + 1)))
    (hy : x = rd h.son c ∨ (rd h.son c < T ∧ x = rd h.son c + 1)) : rd h'.prnt x = l := by
  rw [sw.prnt x, if_neg hx, if_pos hy]

theorem Swapped.prnt3 (sw : Swapped h h' c l) (x : Nat)
    (hx : ¬ (x = rd h.son l ∨ (rd h.son l < T ∧ x = rd h.son l + 1)))
    (hy : ¬ (x = rd h.son c ∨ (rd h.son c < T ∧ x = rd h.son c + 1))) : rd h'.prnt x = rd h.prnt x := by
  rw [sw.prnt x, if_neg hx, if_neg hy]

theorem Swapped.son_c (sw : Swapped h h' c l) : rd h'.son c = rd h.son l := by
  rw [sw.son c, if_pos rfl]
theorem Swapped.son_l (sw : Swapped h h' c l) (hcl : c ≠ l) : rd h'.son l = rd h.son c := by
  rw [sw.son l, if_neg (by omega), if_pos rfl]
theorem Swapped.son_o (sw : Swapped h h' c l) (x : Nat) (h1 : x ≠ c) (h2 : x ≠ l) : rd h'.son x = rd h.son x := by
  rw [sw.son x, if_neg h1, if_neg h2]

/-- the two exchanged `son` values are different, and (being even when internal) not adjacent -/
theorem HuffS.son_sep (s : HuffS h) (hc : c < T) (hl : l < T) (hcl : c ≠ l) :
    rd h.son c ≠ rd h.son l ∧ (rd h.son l < T → rd h.son c ≠ rd h.son l + 1) ∧
    (rd h.son c < T → rd h.son c + 1 ≠ rd h.son l) := by
  generalize hi : rd h.son c = i
  generalize hj : rd h.son l = j
  have fc1 := s.son_int c hc; have fc2 := s.son_leaf c hc
  have fl1 := s.son_int l hl; have fl2 := s.son_leaf l hl
  rw [hi] at fc1 fc2; rw [hj] at fl1 fl2
  refine ⟨?_, ?_, ?_⟩
  · intro e; subst e
    by_cases ci : i < T
    · have := fc1 ci; have := fl1 ci; omega
    · have := fc2 (by omega); have := fl2 (by omega); omega
  · intro cj e
    by_cases ci : i < T
    · have := fc1 ci; have := fl1 cj; omega
    · have := fl1 cj; omega
  · intro ci e
    by_cases cj : j < T
    · have := fc1 ci; have := fl1 cj; omega
    · have := fc1 ci; omega

theorem Swapped.son_int (sw : Swapped h h' c l) (s : HuffS h) (hcl : c < l) (hl : l < T)
    (hj : rd h.son l < T → rd h.son l + 1 < c) :
    ∀ x, x < T → rd h'.son x < T →
      rd h'.son x % 2 = 0 ∧ rd h'.son x + 1 < x ∧ rd h'.prnt (rd h'.son x) = x ∧ rd h'.prnt (rd h'.son x + 1) = x := by
  intro x hx hs
  have hc : c < T := by omega
  have ⟨sep1, sep2, sep3⟩ := s.son_sep hc hl (by omega)
  by_cases e1 : x = c
  · subst e1
    rw [sw.son_c] at hs ⊢
    have fl := s.son_int l hl hs
    refine ⟨fl.1, hj hs, sw.prnt1 _ (Or.inl rfl), sw.prnt1 _ (Or.inr ⟨hs, rfl⟩)⟩
  · by_cases e2 : x = l
    · subst e2
      rw [sw.son_l (by omega)] at hs ⊢
      have fc := s.son_int c hc hs
      refine ⟨fc.1, by omega, sw.prnt2 _ ?_ (Or.inl rfl), sw.prnt2 _ ?_ (Or.inr ⟨hs, rfl⟩)⟩
      · rintro (e | ⟨e1, e2⟩)
        · exact sep1 e
        · exact sep2 e1 e2
      · rintro (e | ⟨e1, e2⟩)
        · exact sep3 hs e
        · exact sep1 (by omega)
    · rw [sw.son_o x e1 e2] at hs ⊢
      have fx := s.son_int x hx hs
      have q1 := s.son_sep hx hc e1
      have q2 := s.son_sep hx hl e2
      refine ⟨fx.1, fx.2.1, ?_, ?_⟩
      · rw [sw.prnt3 _ ?_ ?_]; exact fx.2.2.1
        · rintro (e | ⟨e1, e2⟩)
          · exact q2.1 e
          · exact q2.2.1 e1 e2
        · rintro (e | ⟨e1, e2⟩)
          · exact q1.1 e
          · exact q1.2.1 e1 e2
      · rw [sw.prnt3 _ ?_ ?_]; exact fx.2.2.2
        · rintro (e | ⟨e1, e2⟩)
          · exact q2.2.2 hs e
          · exact q2.1 (by omega)
        · rintro (e | ⟨e1, e2⟩)
          · exact q1.2.2 hs e
          · exact q1.1 (by omega)


theorem Swapped.son_leaf (sw : Swapped h h' c l) (s : HuffS h) (hcl : c < l) (hl : l < T)
    (hj : rd h.son l < T → rd h.son l + 1 < c) :
    ∀ x, x < T → T ≤ rd h'.son x → rd h'.son x < T + NCHAR ∧ rd h'.prnt (rd h'.son x) = x := by
  intro x hx hs
  have hc : c < T := by omega
  have ⟨sep1, sep2, sep3⟩ := s.son_sep hc hl (by omega)
  by_cases e1 : x = c
  · subst e1
    rw [sw.son_c] at hs ⊢
    exact ⟨(s.son_leaf l hl hs).1, sw.prnt1 _ (Or.inl rfl)⟩
  · by_cases e2 : x = l
    · subst e2
      rw [sw.son_l (by omega)] at hs ⊢
      refine ⟨(s.son_leaf c hc hs).1, sw.prnt2 _ ?_ (Or.inl rfl)⟩
      rintro (e | ⟨e1, e2⟩)
      · exact sep1 e
      · exact sep2 e1 e2
    · rw [sw.son_o x e1 e2] at hs ⊢
      have fx := s.son_leaf x hx hs
      have q1 := s.son_sep hx hc e1
      have q2 := s.son_sep hx hl e2
      refine ⟨fx.1, ?_⟩
      rw [sw.prnt3 _ ?_ ?_]; exact fx.2
      · rintro (e | ⟨e1, e2⟩)
        · exact q2.1 e
        · exact q2.2.1 e1 e2
      · rintro (e | ⟨e1, e2⟩)
        · exact q1.1 e
        · exact q1.2.1 e1 e2

/-- general form of `prnt_lt`/`prnt_leaf`: if `son (prnt k) = s` with `k ∈ {s, s+1}` before, then after -/
theorem Swapped.prnt_back (sw : Swapped h h' c l) (s : HuffS h) (hcl : c < l) (hl : l < T)
    (k sv : Nat) (hp : rd h.prnt k < T) (hs : rd h.son (rd h.prnt k) = sv)
    (hk : k = sv ∨ (sv < T ∧ k = sv + 1)) :
    rd h'.prnt k < T ∧ rd h'.son (rd h'.prnt k) = sv := by
  have hc : c < T := by omega
  by_cases a1 : k = rd h.son l ∨ (rd h.son l < T ∧ k = rd h.son l + 1)
  · rw [sw.prnt1 k a1, sw.son_c]
    refine ⟨hc, ?_⟩
    -- the parent of k was l
    have : rd h.prnt k = l := by
      rcases a1 with e | ⟨e1, e2⟩
      · by_cases cj : rd h.son l < T
        · rw [e]; exact (s.son_int l hl cj).2.2.1
        · rw [e]; exact (s.son_leaf l hl (by omega)).2
      · rw [e2]; exact (s.son_int l hl e1).2.2.2
    rw [this] at hs; exact hs
  · by_cases a2 : k = rd h.son c ∨ (rd h.son c < T ∧ k = rd h.son c + 1)
    · rw [sw.prnt2 k a1 a2, sw.son_l (by omega)]
      refine ⟨hl, ?_⟩
      have : rd h.prnt k = c := by
        rcases a2 with e | ⟨e1, e2⟩
        · by_cases cj : rd h.son c < T
          · rw [e]; exact (s.son_int c hc cj).2.2.1
          · rw [e]; exact (s.son_leaf c hc (by omega)).2
        · rw [e2]; exact (s.son_int c hc e1).2.2.2
      rw [this] at hs; exact hs
    · rw [sw.prnt3 k a1 a2]
      refine ⟨hp, ?_⟩
      rw [sw.son_o _ ?_ ?_]; exact hs
      · intro e; rw [e] at hs; apply a2; rw [hs]; exact hk
      · intro e; rw [e] at hs; apply a1; rw [hs]; exact hk

theorem Swapped.prnt_lt (sw : Swapped h h' c l) (s : HuffS h) (hcl : c < l) (hl : l < T) :
    ∀ k, k < R → rd h'.prnt k < T ∧ rd h'.son (rd h'.prnt k) = k - k % 2 := by
  intro k hk
  have ⟨p1, p2⟩ := s.prnt_lt k hk
  refine sw.prnt_back s hcl hl k _ p1 p2 ?_
  simp only [R_eq, T_eq] at *; omega

theorem Swapped.prnt_leaf (sw : Swapped h h' c l) (s : HuffS h) (hcl : c < l) (hl : l < T) :
    ∀ x, x < NCHAR → rd h'.prnt (x + T) < T ∧ rd h'.son (rd h'.prnt (x + T)) = x + T := by
  intro x hx
  have ⟨p1, p2⟩ := s.prnt_leaf x hx
  exact sw.prnt_back s hcl hl _ _ p1 p2 (Or.inl rfl)

theorem Swapped.prnt_root (sw : Swapped h h' c l) (s : HuffS h) (hcl : c < l) (hl : l < T)
    (hj : rd h.son l < T → rd h.son l + 1 < c) : rd h'.prnt R = 0 := by
  have hc : c < T := by omega
  rw [sw.prnt3 R ?_ ?_]; exact s.prnt_root
  · rintro (e | ⟨e1, e2⟩)
    · by_cases cj : rd h.son l < T
      · have := hj cj; simp only [R_eq, T_eq] at *; omega
      · simp only [R_eq, T_eq] at *; omega
    · have := hj e1; simp only [R_eq, T_eq] at *; omega
  · rintro (e | ⟨e1, e2⟩)
    · by_cases cj : rd h.son c < T
      · have := s.son_int c hc cj; simp only [R_eq, T_eq] at *; omega
      · simp only [R_eq, T_eq] at *; omega
    · have := s.son_int c hc e1; simp only [R_eq, T_eq] at *; omega

theorem Swapped.huffS (sw : Swapped h h' c l) (s : HuffS h) (hcl : c < l) (hl : l < T)
    (hj : rd h.son l < T → rd h.son l + 1 < c) : HuffS h' :=
  { sz_freq := by rw [sw.sz_freq, s.sz_freq], sz_prnt := by rw [sw.sz_prnt, s.sz_prnt],
    sz_son := by rw [sw.sz_son, s.sz_son],
    son_int := sw.son_int s hcl hl hj, son_leaf := sw.son_leaf s hcl hl hj,
    prnt_lt := sw.prnt_lt s hcl hl, prnt_leaf := sw.prnt_leaf s hcl hl,
    prnt_root := sw.prnt_root s hcl hl hj, oob := by rw [sw.oob, s.oob], spin := by rw [sw.spin, s.spin] }

end swap

/-! ### the loop invariant of `updateLoop` -/

/-- "all of `HuffWF` except a pending `+1` at node `c`": the sums hold everywhere except at `c`, whose
frequency is one short of its children's. -/
structure LoopInv (h : Huff) (c : Nat) : Prop extends HuffS h where
  c_lt : c < T
  sorted : ∀ i, i < T → rd h.freq i ≤ rd h.freq (i + 1)
  sentinel : rd h.freq T = 0xffff
  pos : ∀ i, i < T → 1 ≤ rd h.freq i
  sum_ne : ∀ i, i < T → i ≠ c → rd h.son i < T → rd h.freq i = rd h.freq (rd h.son i) + rd h.freq (rd h.son i + 1)
  sum_c : rd h.son c < T → rd h.freq c + 1 = rd h.freq (rd h.son c) + rd h.freq (rd h.son c + 1)
  root_lt : rd h.freq R < MAXFREQ

/-- one iteration of `updateLoop` in functional form: the node now at `l` (the last index with the
frequency of `c`) carries the incremented subtree; `l = c` when no exchange was needed. -/
structure StepRes (h h' : Huff) (c l : Nat) : Prop where
  hS : HuffS h'
  c_le : c ≤ l
  l_lt : l < T
  eqf : rd h.freq l = rd h.freq c
  freq : ∀ x, rd h'.freq x = if x = l then rd h.freq l + 1 else rd h.freq x
  next : rd h.freq l + 1 ≤ rd h.freq (l + 1)
  son : ∀ x, rd h'.son x = if x = c then rd h.son l else if x = l then rd h.son c else rd h.son x
  prnt_l : rd h'.prnt l = rd h.prnt l

section step
variable {h h' : Huff} {c l : Nat}

theorem StepRes.f_ne (st : StepRes h h' c l) (x : Nat) (hx : x ≠ l) : rd h'.freq x = rd h.freq x := by
  rw [st.freq x, if_neg hx]
theorem StepRes.f_l (st : StepRes h h' c l) : rd h'.freq l = rd h.freq l + 1 := by
  rw [st.freq l, if_pos rfl]

theorem StepRes.sorted (st : StepRes h h' c l) (inv : LoopInv h c) :
    ∀ i, i < T → rd h'.freq i ≤ rd h'.freq (i + 1) := by
  intro i hi
  have := inv.sorted i hi
  by_cases e1 : i = l
  · subst e1; rw [st.f_l, st.f_ne _ (by omega)]; exact st.next
  · by_cases e2 : i + 1 = l
    · rw [st.f_ne _ e1, e2, st.f_l]; rw [e2] at this; omega
    · rw [st.f_ne _ e1, st.f_ne _ e2]; exact this

theorem StepRes.pos (st : StepRes h h' c l) (inv : LoopInv h c) : ∀ i, i < T → 1 ≤ rd h'.freq i := by
  intro i hi
  have := inv.pos i hi
  by_cases e1 : i = l
  · subst e1; rw [st.f_l]; omega
  · rw [st.f_ne _ e1]; exact this

/-- the sum property at every node that is not the parent of `l` -/
theorem StepRes.sum (st : StepRes h h' c l) (inv : LoopInv h c) (x : Nat) (hx : x < T)
    (hs : rd h'.son x < T) (hne : x ≠ rd h.prnt l ∨ rd h.prnt l = 0) :
    rd h'.freq x = rd h'.freq (rd h'.son x) + rd h'.freq (rd h'.son x + 1) := by
  have fx := st.hS.son_int x hx hs
  have notl : rd h'.son x ≠ l ∧ rd h'.son x + 1 ≠ l := by
    constructor
    · intro e
      have := fx.2.2.1; rw [e, st.prnt_l] at this
      rcases hne with h1 | h1 <;> omega
    · intro e
      have := fx.2.2.2; rw [e, st.prnt_l] at this
      rcases hne with h1 | h1 <;> omega
  rw [st.f_ne _ notl.1, st.f_ne _ notl.2]
  by_cases e1 : x = l
  · subst e1
    rw [st.f_l, st.eqf]
    have e : rd h'.son x = rd h.son c := by
      rw [st.son x]; split
      · rename_i e; rw [e]
      · rw [if_pos rfl]
    rw [e] at hs ⊢
    exact inv.sum_c hs
  · rw [st.f_ne _ e1]
    by_cases e2 : x = c
    · subst e2
      have e : rd h'.son x = rd h.son l := by rw [st.son x, if_pos rfl]
      rw [e] at hs ⊢
      rw [← st.eqf]
      exact inv.sum_ne l st.l_lt (by omega) hs
    · have e : rd h'.son x = rd h.son x := by rw [st.son x, if_neg e2, if_neg e1]
      rw [e] at hs ⊢
      exact inv.sum_ne x hx e2 hs

theorem StepRes.final (st : StepRes h h' c l) (inv : LoopInv h c) (hz : rd h.prnt l = 0) : HuffWF h' := by
  have hl : l = R := (inv.toHuffS.prnt_eq_zero l st.l_lt).1 hz
  refine { toHuffS := st.hS, sorted := st.sorted inv, sentinel := ?_, pos := st.pos inv, sum := ?_, root_le := ?_ }
  · rw [st.f_ne _ (by have := st.l_lt; omega)]; exact inv.sentinel
  · intro i hi hs; exact st.sum inv i hi hs (Or.inr hz)
  · rw [← hl, st.f_l, hl]; have := inv.root_lt; omega

theorem StepRes.continue (st : StepRes h h' c l) (inv : LoopInv h c) (hz : rd h.prnt l ≠ 0) :
    LoopInv h' (rd h.prnt l) ∧ l < rd h.prnt l := by
  have hlR : l ≠ R := fun e => hz ((inv.toHuffS.prnt_eq_zero l st.l_lt).2 e)
  have hlR' : l < R := by have := st.l_lt; simp only [R_eq, T_eq] at *; omega
  have gt := inv.toHuffS.prnt_gt l hlR'
  have ⟨p1, p2⟩ := inv.toHuffS.prnt_lt l hlR'
  refine ⟨{ toHuffS := st.hS, c_lt := p1, sorted := st.sorted inv, sentinel := ?_, pos := st.pos inv,
            sum_ne := ?_, sum_c := ?_, root_lt := ?_ }, gt⟩
  · rw [st.f_ne _ (by have := st.l_lt; omega)]; exact inv.sentinel
  · intro i hi hne hs; exact st.sum inv i hi hs (Or.inl hne)
  · intro hs
    have c1 : rd h.prnt l ≠ c := by have := st.c_le; omega
    have c2 : rd h.prnt l ≠ l := by omega
    have e : rd h'.son (rd h.prnt l) = l - l % 2 := by rw [st.son _, if_neg c1, if_neg c2, p2]
    rw [e] at hs ⊢
    rw [st.f_ne _ c2]
    have := inv.sum_ne _ p1 c1 (by rw [p2]; exact hs)
    rw [p2] at this
    by_cases par : l % 2 = 0
    · have e0 : l - l % 2 = l := by omega
      rw [e0] at this ⊢
      rw [st.f_l, st.f_ne _ (by omega)]; omega
    · have e0 : l - l % 2 + 1 = l := by omega
      rw [e0] at this ⊢
      rw [st.f_l, st.f_ne _ (by omega)]; omega
  · rw [st.f_ne _ (by omega)]; exact inv.root_lt

end step

/-! ### `scanUp` -/

theorem scanUp_spec (freq : Array Nat) (k : Nat) : ∀ fuel l,
    l ≤ scanUp freq k l fuel ∧ scanUp freq k l fuel ≤ l + fuel ∧
    (∀ m, l < m → m ≤ scanUp freq k l fuel → rd freq m < k) ∧
    (scanUp freq k l fuel < l + fuel → k ≤ rd freq (scanUp freq k l fuel + 1)) := by
  intro fuel
  induction fuel with
  | zero => intro l; simp only [scanUp]; refine ⟨by omega, by omega, ?_, by omega⟩; intro m h1 h2; omega
  | succ fuel ih =>
    intro l
    simp only [scanUp]
    split
    · rename_i hk
      have ⟨a1, a2, a3, a4⟩ := ih (l + 1)
      refine ⟨by omega, by omega, ?_, ?_⟩
      · intro m h1 h2
        by_cases e : m = l + 1
        · rw [e]; omega
        · exact a3 m (by omega) h2
      · intro hlt; exact a4 (by omega)
    · rename_i hk
      refine ⟨by omega, by omega, ?_, ?_⟩
      · intro m h1 h2; omega
      · intro _; omega

theorem sorted_mono (f : Array Nat) (n : Nat) (hs : ∀ i, i < n → rd f i ≤ rd f (i + 1)) :
    ∀ b a, a ≤ b → b ≤ n → rd f a ≤ rd f b := by
  intro b
  induction b with
  | zero => intro a h1 _; have : a = 0 := by omega
            subst this; exact Nat.le_refl _
  | succ b ih =>
    intro a h1 h2
    by_cases e : a = b + 1
    · subst e; exact Nat.le_refl _
    · have := ih a (by omega) (by omega)
      have := hs b (by omega)
      omega

/-! ### one iteration of `updateLoop` -/

/-- one iteration: the new state and the index `l` that now carries the incremented node -/
def stepH (h : Huff) (c : Nat) : Huff × Nat :=
  let h1 : Huff := { h with freq := wr h.freq c (rd h.freq c + 1) }
  if rd h1.freq c ≤ rd h1.freq (c + 1) ∨ h1.freq.size ≤ c + 2 then (h1, c)
  else
    let l := scanUp h1.freq (rd h1.freq c) (c + 1) T
    (swapNodes h1 c l (rd h1.freq c), l)

theorem updateLoop_succ (h : Huff) (c fuel : Nat) (h1 : c + 1 < h.freq.size) (h2 : c < h.prnt.size)
    (h3 : c < h.son.size) :
    updateLoop h c (fuel + 1) =
      if rd (stepH h c).1.prnt (stepH h c).2 = 0 then (stepH h c).1
      else updateLoop (stepH h c).1 (rd (stepH h c).1.prnt (stepH h c).2) fuel := by
  rw [updateLoop]
  simp only [Huff.chk_of _ _ (show decide (c + 1 < h.freq.size ∧ c < h.prnt.size ∧ c < h.son.size) = true by
    simp [h1, h2, h3]), stepH]
  split <;> rfl

theorem HuffS.of_freq {h : Huff} (s : HuffS h) (f : Array Nat) (hf : f.size = h.freq.size) :
    HuffS { h with freq := f } :=
  { sz_freq := by simp [hf, s.sz_freq], sz_prnt := s.sz_prnt, sz_son := s.sz_son, son_int := s.son_int,
    son_leaf := s.son_leaf, prnt_lt := s.prnt_lt, prnt_leaf := s.prnt_leaf, prnt_root := s.prnt_root,
    oob := s.oob, spin := s.spin }

theorem stepH_res {h : Huff} {c : Nat} (inv : LoopInv h c) : StepRes h (stepH h c).1 c (stepH h c).2 := by
  have hc := inv.c_lt
  have szf := inv.sz_freq
  have hcs : c < h.freq.size := by rw [szf]; omega
  have s1 : HuffS { h with freq := wr h.freq c (rd h.freq c + 1) } := inv.toHuffS.of_freq _ (by simp)
  have f1 : ∀ x, rd (wr h.freq c (rd h.freq c + 1)) x = if x = c then rd h.freq c + 1 else rd h.freq x := by
    intro x; rw [rd_wr]
    by_cases e : c = x
    · subst e; simp [hcs]
    · rw [if_neg (by omega), if_neg (by omega)]
  unfold stepH
  simp only []
  split
  · -- no exchange
    rename_i hcond
    dsimp only
    refine { hS := s1, c_le := Nat.le_refl _, l_lt := hc, eqf := rfl, freq := f1, next := ?_, son := ?_, prnt_l := rfl }
    · rcases hcond with e | e
      · rw [f1, f1, if_pos rfl, if_neg (by omega)] at e; exact e
      · simp only [size_wr, szf] at e
        have : c = R := by simp only [R_eq, T_eq] at *; omega
        subst this
        have := inv.root_lt
        have sent : rd h.freq (R + 1) = 0xffff := inv.sentinel
        simp only [MAXFREQ_eq] at *; omega
    · intro x
      by_cases e : x = c
      · rw [if_pos e, e]
      · rw [if_neg e, if_neg e]
  · -- exchange with the last node of equal frequency
    rename_i hcond
    simp only [size_wr, szf, not_or, Nat.not_le] at hcond
    obtain ⟨hgt, hcR⟩ := hcond
    rw [f1, f1, if_pos rfl, if_neg (by omega)] at hgt
    rw [f1 c, if_pos rfl]
    generalize hk : rd h.freq c + 1 = k at *
    generalize hl : scanUp (wr h.freq c k) k (c + 1) T = l
    have ⟨a1, a2, a3, a4⟩ := scanUp_spec (wr h.freq c k) k T (c + 1)
    rw [hl] at a1 a2 a3 a4
    have hcR' : c < R := by simp only [R_eq, T_eq] at *; omega
    -- the sentinel stops the scan
    have kle : k ≤ 0xffff := by
      have := sorted_mono h.freq T inv.sorted R c (by omega) (by simp [R_eq, T_eq])
      have := inv.root_lt; simp only [MAXFREQ_eq] at *; omega
    have hlT : l < T := by
      apply Nat.lt_of_not_le; intro hle
      have := a3 T (by simp only [R_eq, T_eq] at *; omega) hle
      rw [f1, if_neg (by omega), inv.sentinel] at this; omega
    have nxt : k ≤ rd h.freq (l + 1) := by
      have := a4 (by omega); rw [f1, if_neg (by omega)] at this; exact this
    -- all nodes c..l have the frequency of c
    have eqm : ∀ m, c < m → m ≤ l → rd h.freq m = rd h.freq c := by
      intro m h1 h2
      have lo := sorted_mono h.freq T inv.sorted m c (by omega) (by omega)
      by_cases e : m = c + 1
      · rw [e] at lo ⊢; omega
      · have := a3 m (by omega) h2; rw [f1, if_neg (by omega)] at this; omega
    have eql : rd h.freq l = rd h.freq c := eqm l (by omega) (Nat.le_refl _)
    -- the children of l are lighter than c, hence below c
    have hj : rd h.son l < T → rd h.son l + 1 < c := by
      intro hs
      have sm := inv.sum_ne l hlT (by omega) hs
      have fl := inv.toHuffS.son_int l hlT hs
      have p1 := inv.pos (rd h.son l) (by omega)
      apply Nat.lt_of_not_le; intro hle
      have := sorted_mono h.freq T inv.sorted (rd h.son l + 1) c hle (by omega)
      omega
    have sw := swapNodes_swapped { h with freq := wr h.freq c k } c l k s1 hc hlT
    have hS' := sw.huffS s1 (by omega) hlT hj
    dsimp only
    refine { hS := hS', c_le := by omega, l_lt := hlT, eqf := eql, freq := ?_, next := by omega, son := sw.son, prnt_l := ?_ }
    · intro x
      rw [swapNodes_freq]
      dsimp only
      by_cases e1 : l = x
      · subst e1; rw [rd_wr, if_pos ⟨rfl, by simp only [size_wr, szf]; omega⟩, if_pos rfl]; omega
      · rw [rd_wr, if_neg (by omega), if_neg (by omega)]
        by_cases e2 : c = x
        · subst e2; rw [rd_wr, if_pos ⟨rfl, by simp only [size_wr, szf]; omega⟩, f1 l, if_neg (by omega)]; exact eql
        · rw [rd_wr, if_neg (by omega), f1 x, if_neg (by omega)]
    · have fc := inv.toHuffS.son_int c hc
      have swp : rd (swapNodes { h with freq := wr h.freq c k } c l k).prnt l =
          if l = rd h.son l ∨ (rd h.son l < T ∧ l = rd h.son l + 1) then c
          else if l = rd h.son c ∨ (rd h.son c < T ∧ l = rd h.son c + 1) then l else rd h.prnt l := sw.prnt l
      rw [swp, if_neg ?_, if_neg ?_]
      · rintro (e | ⟨e1, e2⟩)
        · by_cases cj : rd h.son c < T
          · have := fc cj; omega
          · omega
        · have := fc e1; omega
      · rintro (e | ⟨e1, e2⟩)
        · by_cases cj : rd h.son l < T
          · have := hj cj; omega
          · omega
        · have := hj e1; omega

/-- `updateLoop` re-establishes the invariant; the fuel `T + 1` suffices because the node index
strictly increases. -/
theorem updateLoop_wf : ∀ fuel (h : Huff) (c : Nat), LoopInv h c → T + 1 ≤ fuel + c →
    HuffWF (updateLoop h c fuel) := by
  intro fuel
  induction fuel with
  | zero => intro h c inv hf; have := inv.c_lt; omega
  | succ fuel ih =>
    intro h c inv hf
    have hc := inv.c_lt
    rw [updateLoop_succ h c fuel (by rw [inv.sz_freq]; omega) (by rw [inv.sz_prnt]; omega) (by rw [inv.sz_son]; omega)]
    have st := stepH_res inv
    rw [st.prnt_l]
    split
    · rename_i hz; exact st.final inv hz
    · rename_i hz
      have ⟨inv', gt⟩ := st.continue inv hz
      exact ih _ _ inv' (by have := st.c_le; omega)

theorem HuffWF.loopInv_leaf {h : Huff} (w : HuffWF h) (hlt : rd h.freq R < MAXFREQ) (c : Nat) (hc : c < T)
    (hleaf : T ≤ rd h.son c) : LoopInv h c :=
  { toHuffS := w.toHuffS, c_lt := hc, sorted := w.sorted, sentinel := w.sentinel, pos := w.pos,
    sum_ne := fun i hi _ hs => w.sum i hi hs, sum_c := fun hs => by omega, root_lt := hlt }

/-- **`update` preserves the invariant** (no rebuild needed: `freq[R] < MAX_FREQ`). In particular neither
`oob` nor `spin` is set: every index is in range and the climb ends within `T + 1` steps. -/
theorem update_preserves_of_lt {h : Huff} (w : HuffWF h) (hlt : rd h.freq R < MAXFREQ) (c : Nat) (hc : c < NCHAR) :
    HuffWF (update h c) := by
  unfold update
  have hne : rd h.freq R ≠ MAXFREQ := by omega
  simp only [hne, if_false]
  have : c + T < h.prnt.size := by rw [w.sz_prnt]; omega
  rw [Huff.chk_of _ _ (by simpa using this)]
  have ⟨p1, p2⟩ := w.prnt_leaf c hc
  exact updateLoop_wf _ _ _ (w.loopInv_leaf hlt _ p1 (by rw [p2]; omega)) (by omega)

end Wl2k.Lzhuf
