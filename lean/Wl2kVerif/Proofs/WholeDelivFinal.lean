import Wl2kVerif.Proofs.WholeDelivHs
import Wl2kVerif.Proofs.WholeSentMon
/-
`pair_no_deadlock` and `pair_delivers` for EVERY maximal execution (`kahn_confluent`), and the ledgers read
out as statements about the handlers' mailboxes and the two `Exchange` results.
-/
namespace Wl2k.B2F
open Wl2k

theorem eq_of_nodup_map_mid : ∀ (l : List OutMsg), (l.map (·.mid)).Nodup → ∀ a ∈ l, ∀ b ∈ l, a.mid = b.mid → a = b
  | [], _, a, ha, _, _, _ => by cases ha
  | x :: xs, hnd, a, ha, b, hb, e => by
    simp only [List.map_cons, List.nodup_cons] at hnd
    rcases List.mem_cons.mp ha with ha | ha
    · rcases List.mem_cons.mp hb with hb | hb
      · rw [ha, hb]
      · exact absurd (by rw [← ha, e]; exact List.mem_map_of_mem hb) hnd.1
    · rcases List.mem_cons.mp hb with hb | hb
      · exact absurd (by rw [← hb, ← e]; exact List.mem_map_of_mem ha) hnd.1
      · exact eq_of_nodup_map_mid xs hnd.2 a ha b hb e

theorem clean_h (s : Side) : s.clean.h = s.h := by
  unfold Side.clean; split <;> rfl

theorem clean_evs (s : Side) : s.clean.evs = s.evs := by
  unfold Side.clean; split <;> rfl

/-- **A ledger is complete once nothing is offered any more**: every valid message offered at the start is
in exactly the class the receiver's policy puts it in. -/
theorem Ledger.complete {hX0 hY0 hX : HState} {stX : SState} {hY : HState} {stY : SState} {La : List (Bytes × Bytes)}
    {Lr Ld : List Bytes} (L : Ledger hX0 hY0 hX stX hY stY La Lr Ld) (hvo : vo hX = [])
    (hnd : (hX0.outbox.map (·.mid)).Nodup) :
    (∀ m d, (m, d) ∈ La ↔ ∃ msg ∈ vo hX0, msg.mid = m ∧ msg.data = d ∧ hY0.answerFor m = ansAccept) ∧
    (∀ m, m ∈ Lr ↔ ∃ msg ∈ vo hX0, msg.mid = m ∧ hY0.answerFor m = ansReject) ∧
    (∀ m, m ∈ Ld ↔ ∃ msg ∈ vo hX0, msg.mid = m ∧ hY0.answerFor m = ansDefer) := by
  have hall : ∀ msg ∈ vo hX0, msg.mid ∈ La.map (·.1) ∨ msg.mid ∈ Lr ∨ msg.mid ∈ Ld := by
    intro msg hm
    by_cases h1 : msg.mid ∈ La.map (·.1)
    · exact Or.inl h1
    by_cases h2 : msg.mid ∈ Lr
    · exact Or.inr (Or.inl h2)
    right; right
    have hm' := hm
    simp only [vo, offered, List.mem_filter, Bool.not_eq_true', List.contains_eq_mem, decide_eq_false_iff_not] at hm'
    obtain ⟨⟨ho, hd⟩, hv⟩ := hm'
    have hin : msg ∈ hX.outbox := by
      rw [L.outbox]
      simp only [List.mem_filter, Bool.and_eq_true, Bool.not_eq_true', List.contains_eq_mem, decide_eq_false_iff_not]
      exact ⟨ho, h1, h2⟩
    have hnot : msg ∉ vo hX := by rw [hvo]; intro h; cases h
    simp only [vo, offered, List.mem_filter, Bool.not_eq_true', List.contains_eq_mem, decide_eq_false_iff_not, not_and] at hnot
    have hdef : msg.mid ∈ hX.deferred := by
      by_cases hc : msg.mid ∈ hX.deferred
      · exact hc
      · exact absurd hv (hnot ⟨hin, hc⟩)
    rw [L.deferred] at hdef
    simp only [List.mem_append, List.mem_reverse] at hdef
    rcases hdef with h | h
    · exact h
    · exact absurd h hd
  have huniq : ∀ msg ∈ vo hX0, ∀ msg' ∈ vo hX0, msg.mid = msg'.mid → msg = msg' := fun a ha b hb e =>
    eq_of_nodup_map_mid hX0.outbox hnd a ((vo_sublist hX0).subset ha) b ((vo_sublist hX0).subset hb) e
  refine ⟨?_, ?_, ?_⟩
  · intro m d
    constructor
    · intro h
      obtain ⟨msg, h1, h2, h3, h4⟩ := L.acc (m, d) h
      exact ⟨msg, h1, h2, h3, h4⟩
    · rintro ⟨msg, hm, rfl, rfl, hp⟩
      rcases hall msg hm with h | h | h
      · obtain ⟨x, hx, hx1⟩ := List.mem_map.mp h
        obtain ⟨msg', g1, g2, g3, _⟩ := L.acc x hx
        have : msg' = msg := huniq msg' g1 msg hm (by rw [g2, hx1])
        subst this
        have : x = (msg'.mid, msg'.data) := by rw [g2, g3]
        rw [← this]; exact hx
      · obtain ⟨_, _, _, g⟩ := L.rej _ h
        rw [hp] at g; exact absurd g (by decide)
      · obtain ⟨_, _, _, g⟩ := L.dfr _ h
        rw [hp] at g; exact absurd g (by decide)
  · intro m
    constructor
    · exact L.rej m
    · rintro ⟨msg, hm, rfl, hp⟩
      rcases hall msg hm with h | h | h
      · obtain ⟨x, hx, hx1⟩ := List.mem_map.mp h
        obtain ⟨_, _, _, _, g⟩ := L.acc x hx
        rw [hx1, hp] at g; exact absurd g (by decide)
      · exact h
      · obtain ⟨_, _, _, g⟩ := L.dfr _ h
        rw [hp] at g; exact absurd g (by decide)
  · intro m
    constructor
    · exact L.dfr m
    · rintro ⟨msg, hm, rfl, hp⟩
      rcases hall msg hm with h | h | h
      · obtain ⟨x, hx, hx1⟩ := List.mem_map.mp h
        obtain ⟨_, _, _, _, g⟩ := L.acc x hx
        rw [hx1, hp] at g; exact absurd g (by decide)
      · obtain ⟨_, _, _, g⟩ := L.rej _ h
        rw [hp] at g; exact absurd g (by decide)
      · exact h

/-! ### the inbox is what `processInbound` was called with -/

/-- the payloads of the `processInbound` calls of a trace, in the order of the calls -/
def procOf (evs : List Ev) : List Bytes :=
  evs.reverse.filterMap fun e => match e with
    | .called (.processInbound d) => some d
    | _ => none

theorem procOf_cons (e : Ev) (tr : List Ev) :
    procOf (e :: tr) = procOf tr ++ (match e with | .called (.processInbound d) => [d] | _ => []) := by
  unfold procOf
  rw [List.reverse_cons, List.filterMap_append]
  congr 1
  cases e with
  | called c => cases c <;> rfl
  | _ => rfl

theorem run_inbox {α : Type} (base : List Bytes) (p : Proc α) : ∀ (J : Bytes) (h : HState) (tr : List Ev),
    h.failAt = none → h.inbox = base ++ procOf tr →
    (Proc.run hstep p J h tr).2.2.1.failAt = none ∧
      (Proc.run hstep p J h tr).2.2.1.inbox = base ++ procOf (Proc.run hstep p J h tr).2.2.2 := by
  induction p with
  | ret a => intro J h tr h1 h2; exact ⟨h1, h2⟩
  | readByte k ih =>
    intro J h tr h1 h2
    cases J with
    | nil => exact ih none [] h tr h1 h2
    | cons x t => exact ih (some x) t h tr h1 h2
  | peek k ih =>
    intro J h tr h1 h2
    cases J with
    | nil => exact ih none [] h tr h1 h2
    | cons x t => exact ih (some x) (x :: t) h _ h1 (by rw [procOf_cons]; simpa using h2)
  | write bs k ih => intro J h tr h1 h2; exact ih J h _ h1 (by rw [procOf_cons]; simpa using h2)
  | call c k ih =>
    intro J h tr h1 h2
    refine ih _ J _ _ ?_ ?_
    · cases c <;> exact h1
    · rw [procOf_cons]
      cases c <;> simp [hstep, h1, h2]
  | panic s => intro J h tr h1 h2; exact ⟨h1, h2⟩

/-- in every reachable state of a pair run, the inbox of a side that has returned is its initial inbox
followed by the payloads of its `processInbound` calls (the handler reports no storage error) -/
theorem ended_inbox (PA PB : Proc Result) (hA hB : HState) (limA limB : Option Nat) {n : Nat} {t : Side × Side}
    (he : PairExec (initPair PA PB hA hB limA limB) n t) :
    (hA.failAt = none → t.1.ended.isSome = true → t.1.h.inbox = hA.inbox ++ procOf t.1.evs) ∧
    (hB.failAt = none → t.2.ended.isSome = true → t.2.h.inbox = hB.inbox ++ procOf t.2.evs) := by
  obtain ⟨⟨JA, _, _, h1⟩, ⟨JB, _, _, h2⟩⟩ := pair_causal PA PB hA hB limA limB he
  constructor
  · intro hf hend
    obtain ⟨e, hee⟩ := Option.isSome_iff_exists.mp hend
    obtain ⟨_, hrun⟩ := h1 e hee
    have := (run_inbox hA.inbox PA JA hA [] hf (by simp [procOf])).2
    rw [hrun] at this
    exact this
  · intro hf hend
    obtain ⟨e, hee⟩ := Option.isSome_iff_exists.mp hend
    obtain ⟨_, hrun⟩ := h2 e hee
    have := (run_inbox hB.inbox PB JB hB [] hf (by simp [procOf])).2
    rw [hrun] at this
    exact this

/-- **Delivery from `X` to `Y`**, read off the final states `sX`, `sY` of the two sides (`hX`, `hY` = the
handlers at the start): both have returned without error; `La` — the (MID, bytes) of exactly those valid
offered messages that `Y`'s policy accepts, each once — is what `Y`'s inbox has grown by, in this order and
with these bytes, what `X`'s result lists as sent and `Y`'s as received; the rejected ones (`Lr`) and the
accepted ones are gone from `X`'s outbox, everything else is still there; the deferred ones (`Ld`) are on
`X`'s deferred list. -/
def Delivered (hX hY : HState) (sX sY : Side) : Prop :=
  ∃ (rX rY : Result) (La : List (Bytes × Bytes)) (Lr Ld : List Bytes),
    sX.ended = some (.done rX) ∧ sY.ended = some (.done rY) ∧ rX.err = .nil ∧ rY.err = .nil ∧
    (La.map (·.1)).Nodup ∧
    (∀ m d, (m, d) ∈ La ↔ ∃ msg ∈ vo hX, msg.mid = m ∧ msg.data = d ∧ hY.answerFor m = ansAccept) ∧
    (∀ m, m ∈ Lr ↔ ∃ msg ∈ vo hX, msg.mid = m ∧ hY.answerFor m = ansReject) ∧
    (∀ m, m ∈ Ld ↔ ∃ msg ∈ vo hX, msg.mid = m ∧ hY.answerFor m = ansDefer) ∧
    sY.h.inbox = hY.inbox ++ La.map (·.2) ∧ rX.sent = La.map (·.1) ∧ rY.received = La.map (·.1) ∧
    sX.h.outbox = (hX.outbox.filter fun msg => !(La.map (·.1)).contains msg.mid && !Lr.contains msg.mid) ∧
    sX.h.deferred = Ld.reverse ++ hX.deferred ∧
    procOf sY.evs = La.map (·.2) ∧ confOf sX.evs = La.map (·.1)

theorem delivered_of_outcome {hA hB : HState} {t : Side × Side} (o : Outcome hA hB t)
    (hndA : (hA.outbox.map (·.mid)).Nodup) (hndB : (hB.outbox.map (·.mid)).Nodup)
    (hiA : t.1.h.inbox = hA.inbox ++ procOf t.1.evs) (hiB : t.2.h.inbox = hB.inbox ++ procOf t.2.evs)
    (hsA : ∀ r, t.1.ended = some (.done r) → r.sent = confOf t.1.evs)
    (hsB : ∀ r, t.2.ended = some (.done r) → r.sent = confOf t.2.evs) :
    Delivered hA hB t.1 t.2 ∧ Delivered hB hA t.2 t.1 := by
  obtain ⟨stA, stB, e1, e2, ⟨La, Lr, Ld, L⟩, ⟨La', Lr', Ld', L'⟩, v1, v2⟩ := o
  obtain ⟨c1, c2, c3⟩ := L.complete v1 hndA
  obtain ⟨c1', c2', c3'⟩ := L'.complete v2 hndB
  have p1 : procOf t.2.evs = La.map (·.2) := List.append_cancel_left (hiB.symm.trans L.inbox)
  have p2 : procOf t.1.evs = La'.map (·.2) := List.append_cancel_left (hiA.symm.trans L'.inbox)
  have q1 : confOf t.1.evs = La.map (·.1) := (hsA _ e1).symm.trans L.sent
  have q2 : confOf t.2.evs = La'.map (·.1) := (hsB _ e2).symm.trans L'.sent
  exact ⟨⟨resOf stA, resOf stB, La, Lr, Ld, e1, e2, rfl, rfl, L.nodup, c1, c2, c3, L.inbox, L.sent, L.recd, L.outbox, L.deferred,
      p1, q1⟩,
    ⟨resOf stB, resOf stA, La', Lr', Ld', e2, e1, rfl, rfl, L'.nodup, c1', c2', c3', L'.inbox, L'.sent, L'.recd, L'.outbox,
      L'.deferred, p2, q2⟩⟩

/-- `Delivered` looks at what `pairView` keeps -/
theorem Delivered.of_view {hX hY : HState} {sX sY sX' sY' : Side} (d : Delivered hX hY sX sY)
    (h1 : sX'.clean = sX.clean) (h2 : sY'.clean = sY.clean) : Delivered hX hY sX' sY' := by
  obtain ⟨rX, rY, La, Lr, Ld, e1, e2, rest⟩ := d
  have a1 : sX'.ended = sX.ended := by
    have := congrArg Side.ended h1
    rwa [clean_ended, clean_ended] at this
  have a2 : sY'.ended = sY.ended := by
    have := congrArg Side.ended h2
    rwa [clean_ended, clean_ended] at this
  have b1 : sX'.h = sX.h := by
    have := congrArg Side.h h1
    rwa [clean_h, clean_h] at this
  have b2 : sY'.h = sY.h := by
    have := congrArg Side.h h2
    rwa [clean_h, clean_h] at this
  have c2 : sY'.evs = sY.evs := by
    have := congrArg Side.evs h2
    rwa [clean_evs, clean_evs] at this
  have c1 : sX'.evs = sX.evs := by
    have := congrArg Side.evs h1
    rwa [clean_evs, clean_evs] at this
  refine ⟨rX, rY, La, Lr, Ld, by rw [a1]; exact e1, by rw [a2]; exact e2, ?_⟩
  rw [b1, b2, c2, c1]
  exact rest

/-- **`pair_delivers`** for every maximal execution. -/
theorem pair_delivers_all (cM cS : Cfg) (fuel : Nat) (hM hS : HState) (hmM : cM.hs.master = true) (hmS : cS.hs.master = false)
    (okM : DelivOK cM fuel hM) (okS : DelivOK cS fuel hS)
    (hfM : (hsBytesM cM).length < fuel) (hfS : (hsBytesS cS).length < fuel)
    (hfuel : 4 * (hM.outbox.length + hS.outbox.length) + 7 ≤ fuel) :
    (∃ n t, PairExec (initPair (exchange cM fuel) (exchange cS fuel) hM hS none none) n t ∧ PairTerminal t) ∧
    ∀ {m : Nat} {t' : Side × Side}, PairExec (initPair (exchange cM fuel) (exchange cS fuel) hM hS none none) m t' →
      PairTerminal t' → Delivered hM hS t'.1 t'.2 ∧ Delivered hS hM t'.2 t'.1 := by
  obtain ⟨n, t, he, ho⟩ := pair_delivers_exec cM cS fuel hM hS hmM hmS okM okS hfM hfS hfuel
  obtain ⟨i1, i2⟩ := ended_inbox _ _ hM hS none none he
  obtain ⟨s1, s2⟩ := ended_sent cM cS fuel hM hS none none he
  obtain ⟨d1, d2⟩ := delivered_of_outcome ho okM.nd okS.nd
    (i1 okM.quiet.failAt (by obtain ⟨_, _, e1, _⟩ := ho; rw [e1]; rfl))
    (i2 okS.quiet.failAt (by obtain ⟨_, _, _, e2, _⟩ := ho; rw [e2]; rfl)) s1 s2
  have hterm : PairTerminal t := by
    obtain ⟨_, _, _, _, _, e1, e2, _⟩ := d1
    exact pairTerminal_of_ended t.1 t.2 (by rw [e1]; rfl) (by rw [e2]; rfl)
  refine ⟨⟨n, t, he, hterm⟩, ?_⟩
  intro m t' he' ht'
  have hv := pair_confluent he hterm he' ht'
  simp only [pairView, Prod.mk.injEq] at hv
  exact ⟨d1.of_view hv.1 hv.2, d2.of_view hv.2 hv.1⟩

theorem pairTerminal_swap {s : Side × Side} (h : PairTerminal s) : PairTerminal s.swap := by
  obtain ⟨a, b⟩ := s
  intro i
  cases i with
  | false =>
    have := h true
    simp only [pairStep, Prod.swap] at this ⊢
    cases hm : moveSide b a with
    | none => rfl
    | some u => rw [hm] at this; cases this
  | true =>
    have := h false
    simp only [pairStep, Prod.swap] at this ⊢
    rw [this]; rfl

/-- … with the slave listed first -/
theorem pair_delivers_all' (cM cS : Cfg) (fuel : Nat) (hM hS : HState) (hmM : cM.hs.master = true) (hmS : cS.hs.master = false)
    (okM : DelivOK cM fuel hM) (okS : DelivOK cS fuel hS)
    (hfM : (hsBytesM cM).length < fuel) (hfS : (hsBytesS cS).length < fuel)
    (hfuel : 4 * (hM.outbox.length + hS.outbox.length) + 7 ≤ fuel) {m : Nat} {t' : Side × Side}
    (he' : PairExec (initPair (exchange cS fuel) (exchange cM fuel) hS hM none none) m t') (ht' : PairTerminal t') :
    Delivered hM hS t'.2 t'.1 ∧ Delivered hS hM t'.1 t'.2 :=
  (pair_delivers_all cM cS fuel hM hS hmM hmS okM okS hfM hfS hfuel).2 (pairExec_swap he') (pairTerminal_swap ht')

namespace Ex1
theorem deliv_M : DelivOK cM 200 hM0 := ⟨ok_M, ⟨rfl, rfl⟩, by decide⟩
theorem deliv_Mb : DelivOK cMb 200 hM0 := ⟨ok_Mb, ⟨rfl, rfl⟩, by decide⟩
theorem deliv_S : DelivOK cS 200 hS0 := ⟨ok_S, ⟨rfl, rfl⟩, by decide⟩
end Ex1

/-! ### a second instance: several messages, all three answers, both directions, several turns -/
namespace Ex2
open Ex1

def msg2 : OutMsg := { mid := [67, 68], title := [84], qtitle := [84], data := [] }
def msg3 : OutMsg := { mid := [69, 70], title := [84], qtitle := [84], data := [] }
def msgM : OutMsg := { mid := [77, 77], title := [84], qtitle := [84], data := [] }
/-- the slave queues three messages and rejects the master's -/
def hS2 : HState := { outbox := [msg1, msg2, msg3], policy := [([77, 77], 45)] }
/-- the master queues one message, defers the slave's second and rejects its third -/
def hM2 : HState := { outbox := [msgM], policy := [([67, 68], 61), ([69, 70], 45)] }

theorem ok1 : MsgOK' 400 msg1 := by
  refine ⟨by decide, by decide, by decide, ?_, ?_, by decide, by decide, ?_⟩
  · show (((Lzhuf.compress true []).length : Nat) : Int) ≤ _
    rw [compress_nil]; decide
  · decide +kernel
  · show _ + (Lzhuf.compress true []).length + 4 < 400
    rw [compress_nil]; decide

theorem ok2 : MsgOK' 400 msg2 := by
  refine ⟨by decide, by decide, by decide, ?_, ?_, by decide, by decide, ?_⟩
  · show (((Lzhuf.compress true []).length : Nat) : Int) ≤ _
    rw [compress_nil]; decide
  · decide +kernel
  · show _ + (Lzhuf.compress true []).length + 4 < 400
    rw [compress_nil]; decide

theorem ok3 : MsgOK' 400 msg3 := by
  refine ⟨by decide, by decide, by decide, ?_, ?_, by decide, by decide, ?_⟩
  · show (((Lzhuf.compress true []).length : Nat) : Int) ≤ _
    rw [compress_nil]; decide
  · decide +kernel
  · show _ + (Lzhuf.compress true []).length + 4 < 400
    rw [compress_nil]; decide

theorem okM : MsgOK' 400 msgM := by
  refine ⟨by decide, by decide, by decide, ?_, ?_, by decide, by decide, ?_⟩
  · show (((Lzhuf.compress true []).length : Nat) : Int) ≤ _
    rw [compress_nil]; decide
  · decide +kernel
  · show _ + (Lzhuf.compress true []).length + 4 < 400
    rw [compress_nil]; decide

theorem good_S2 : Good cS 400 hS2 := by
  refine ⟨rfl, Or.inl rfl, ?_, ?_, by decide, by decide, by decide, by decide, by decide⟩
  · intro x hx
    simp only [hS2, List.mem_singleton] at hx
    subst hx
    exact Or.inr (Or.inl rfl)
  · intro m hm
    simp only [hS2, List.mem_cons, List.not_mem_nil, or_false] at hm
    rcases hm with rfl | rfl | rfl
    · exact ok1
    · exact ok2
    · exact ok3

theorem good_M2 : Good cM 400 hM2 := by
  refine ⟨rfl, Or.inl rfl, ?_, ?_, by decide, by decide, by decide, by decide, by decide⟩
  · intro x hx
    simp only [hM2, List.mem_cons, List.not_mem_nil, or_false] at hx
    rcases hx with rfl | rfl
    · exact Or.inr (Or.inr rfl)
    · exact Or.inr (Or.inl rfl)
  · intro m hm
    simp only [hM2, List.mem_singleton] at hm
    subst hm
    exact okM

theorem deliv_S2 : DelivOK cS 400 hS2 := ⟨⟨good_S2, rfl, wf_S, (by intro l hl; cases hl)⟩, ⟨rfl, rfl⟩, by decide⟩
theorem deliv_M2 : DelivOK cM 400 hM2 := ⟨⟨good_M2, rfl, wf_M, (by intro l hl; cases hl)⟩, ⟨rfl, rfl⟩, by decide⟩
theorem fuel_M2 : (hsBytesM cM).length < 400 := by decide +kernel
theorem fuel_S2 : (hsBytesS cS).length < 400 := by decide +kernel

end Ex2

end Wl2k.B2F
