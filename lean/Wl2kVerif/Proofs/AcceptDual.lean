import Wl2kVerif.Proofs.AcceptInbound

/-! Duality of the two grammars, element level: what this library's own session EMITS is accepted by the
INPUT grammar. -/

namespace Wl2k.B2F
open Wl2k Wl2k.Fmt Wl2k.Str Wl2k.Strconv Wl2k.B2F.InGrammar Wl2k.B2F.Grammar

theorem dual_isAlnum_solid : ∀ b : UInt8, isAlnum b = true → isSolid b = true :=
  byte_table (by decide +kernel)
theorem dual_isAlnum_ne13 : ∀ b : UInt8, isAlnum b = true → b ≠ 13 :=
  byte_table (by decide +kernel)
theorem dual_isDigit_print : ∀ b : UInt8, isDigit b = true → isPrint b = true :=
  byte_table (by decide +kernel)

theorem dual_line (mid : Bytes) (size csize : Nat) :
    proposalLine 67 (sb "EM") mid (size : Int) (csize : Int) =
      [70, 67] ++ 32 :: ([69, 77] ++ 32 :: (mid ++ 32 :: (dec size ++ 32 :: (dec csize ++ 32 :: [48])))) := by
  simp [proposalLine, sb_EM, decInt_nat]

theorem dual_getLast (a : Bytes) (z : UInt8) : (a ++ [z]).getLast? = some z := by simp

theorem dual_isText (mid : Bytes) (n c : Nat) (hmid : isMid mid = true) :
    isText ([70, 67] ++ 32 :: ([69, 77] ++ 32 :: (mid ++ 32 :: (dec n ++ 32 :: (dec c ++ 32 :: [48]))))) = true := by
  have hm := List.all_eq_true.mp (isMid_all hmid)
  have h13 : (13 : UInt8) ∉ mid := fun h => dual_isAlnum_ne13 _ (hm _ h) rfl
  have hlast : ([70, 67] ++ 32 :: ([69, 77] ++ 32 :: (mid ++ 32 :: (dec n ++ 32 :: (dec c ++ 32 :: [48]))))).getLast?
      = some (48 : UInt8) := by
    have : ([70, 67] ++ 32 :: ([69, 77] ++ 32 :: (mid ++ 32 :: (dec n ++ 32 :: (dec c ++ 32 :: [48]))))) =
        ([70, 67] ++ 32 :: ([69, 77] ++ 32 :: (mid ++ 32 :: (dec n ++ 32 :: (dec c ++ [32]))))) ++ [(48 : UInt8)] := by
      simp
    rw [this, dual_getLast]
  unfold isText
  rw [hlast]
  have hc : ([70, 67] ++ 32 :: ([69, 77] ++ 32 :: (mid ++ 32 :: (dec n ++ 32 :: (dec c ++ 32 :: [48]))))).contains 13
      = false := by
    simp only [List.contains_eq_mem, decide_eq_false_iff_not, List.mem_append, List.mem_cons, List.not_mem_nil,
      or_false, not_or]
    have := (dec_no n).2
    have := (dec_no c).2
    refine ⟨⟨by decide, by decide⟩, by decide, ⟨by decide, by decide⟩, by decide, h13, by decide, ?_, by decide, ?_,
      by decide, by decide⟩ <;> assumption
  rw [hc]
  simp only [List.cons_append, List.head?_cons]
  decide

theorem dual_print (mid : Bytes) (n c : Nat) (hmid : isMid mid = true) :
    ([70, 67] ++ 32 :: ([69, 77] ++ 32 :: (mid ++ 32 :: (dec n ++ 32 :: (dec c ++ 32 :: [48]))))).all isPrint = true := by
  have hm : mid.all isPrint = true :=
    List.all_eq_true.mpr fun b hb => isAlnum_print _ (List.all_eq_true.mp (isMid_all hmid) b hb)
  have d1 : (dec n).all isPrint = true :=
    List.all_eq_true.mpr fun b hb => dual_isDigit_print _ ((dec_spec n).1 b hb)
  have d2 : (dec c).all isPrint = true :=
    List.all_eq_true.mpr fun b hb => dual_isDigit_print _ ((dec_spec c).1 b hb)
  simp only [List.all_append, List.all_cons, hm, d1, d2, List.all_nil]
  decide

/-- **(1)** an emitted proposal line is a proposal of the input grammar, with the right compressed size -/
theorem emitted_proposal_conforms (p : Proposal) (hp : PropOK p) (hs : p.size < 9223372036854775808)
    (hc : p.cdata.length < 9223372036854775808) :
    proposal? (plOf p) = some (csz p) := by
  obtain ⟨n, hn⟩ := hp.size
  have hn' : n < 9223372036854775808 := by rw [hn] at hs; omega
  have hpl : plOf p = proposalLine 67 (sb "EM") p.mid (n : Int) (csz p : Int) := by
    unfold plOf csz; rw [hp.code, hp.ty, hn, hp.csize]
  have hmid := hp.mid
  have h32 : (32 : UInt8) ∉ p.mid := notMem_of_all (isMid_all hmid) (by decide)
  have hcz : csz p < 9223372036854775808 := hc
  rw [hpl, dual_line]
  unfold proposal?
  rw [splitOn_append_sep 32 _ [70, 67] (by decide), splitOn_append_sep 32 _ [69, 77] (by decide),
    splitOn_append_sep 32 _ p.mid h32, splitOn_append_sep 32 _ (dec n) (dec_no n).1,
    splitOn_append_sep 32 _ (dec (csz p)) (dec_no (csz p)).1, splitOn_nosep 32 [48] (by decide)]
  have hsolid : p.mid.all isSolid = true :=
    List.all_eq_true.mpr fun b hb => dual_isAlnum_solid _ (List.all_eq_true.mp (isMid_all hmid) b hb)
  have hlen : 1 ≤ p.mid.length ∧ p.mid.length ≤ 12 := by
    simp only [isMid, Bool.and_eq_true, decide_eq_true_eq] at hmid
    exact ⟨hmid.1.1, hmid.1.2⟩
  simp only [dual_isText _ _ _ hmid, dual_print _ _ _ hmid, hsolid, dec_isNum, (dec_spec n).2, (dec_spec (csz p)).2,
    hn', hcz, hlen.1, hlen.2, decide_true, Bool.and_self, beq_self_eq_true, Bool.true_or, if_true]

/-- **(2)** an emitted frame is the byte image of a frame unit of the input grammar -/
theorem emitted_frame_is_unit (title d : Bytes) (m : Nat) (hm1 : 1 ≤ m) (hlen : title.length + 3 < 256) :
    frameHeader title 0 ++ (frameBlocks m d).flatten ++ frameTrailer d =
      (RUnit.frame title (chunksOf m (d.length + 1) d) (UInt8.ofNat (neg8 (byteSum d)))).bytes := by
  have hfl : (chunksOf m (d.length + 1) d).flatten = d := (chunksOf_spec m hm1 (d.length + 1) d (by omega)).1
  rw [frame_bytes title _ _ hlen (by rw [hfl]), hfl]
  rfl

end Wl2k.B2F
