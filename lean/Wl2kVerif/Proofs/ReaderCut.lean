import Wl2kVerif.Proofs.ReaderCanon
import Wl2kVerif.Proofs.AlterLz
/-
C08 — the data depends only on the body bytes the reader PULLED (the ones its CRC covers).

`Reader.cut d P` truncates the source to its first `P` bytes.  As long as the reader's `pulled` counter stays
`≤ P` (and `bpos ≤ pulled`, `P ≤ |src|`), every primitive of the bit/Huffman layer, every token and the whole
token stream commute with the truncation (`CutStep`, `tok_cut`, `run_cut`).  Since `pulled` only grows, it is
enough to know the FINAL value.  Consequence (`decodeBody_take_pulled`): after `Close` = nil, the canonical
decoder applied to the first `pulled` body bytes alone — exactly the bytes under the CRC — yields the data.
-/
namespace Wl2k.Lzhuf
open Wl2k Wl2k.Lzhuf.Canon

/-- the same reader over the first `P` bytes of its source -/
def Reader.cut (d : Reader) (P : Nat) : Reader := { d with src := d.src.extract 0 P }

theorem getD_extract_lt (a : Array UInt8) (P i : Nat) (h : i < P) : (a.extract 0 P).getD i 0 = a.getD i 0 := by
  simp only [Array.getD_eq_getD_getElem?, Array.getElem?_extract]
  by_cases h2 : i < a.size
  · rw [if_pos (by omega)]; simp
  · rw [if_neg (by omega)]
    simp [Array.getElem?_eq_none (by omega : a.size ≤ i)]

/-- what a primitive `f` of the bit layer guarantees: `r = f d`, `r' = f (d.cut P)` -/
structure CutStep {α : Type} (P : Nat) (d : Reader) (r r' : Reader × α) : Prop where
  mono : d.pulled ≤ r.1.pulled
  src : r.1.src = d.src
  bp : d.bpos ≤ d.pulled → r.1.bpos ≤ r.1.pulled
  comm : d.bpos ≤ d.pulled → P ≤ d.src.size → r.1.pulled ≤ P → r' = (r.1.cut P, r.2)

theorem readByte_cut (P : Nat) (d : Reader) : CutStep P d d.readByte (d.cut P).readByte := by
  unfold Reader.readByte
  have hb : (d.cut P).bpos = d.bpos := rfl
  have hp : (d.cut P).pulled = d.pulled := rfl
  have hs : (d.cut P).src = d.src.extract 0 P := rfl
  rw [hb, hp, hs]
  by_cases h1 : d.bpos < d.pulled
  · rw [if_pos h1, if_pos h1]
    refine ⟨Nat.le_refl _, rfl, fun _ => by show d.bpos + 1 ≤ d.pulled; omega, ?_⟩
    intro _ _ h3
    have h3 : d.pulled ≤ P := h3
    rw [getD_extract_lt _ _ _ (by omega)]
    rfl
  · rw [if_neg h1, if_neg h1]
    by_cases h2 : d.pulled < d.src.size
    · rw [if_pos h2]
      refine ⟨by show d.pulled ≤ min d.src.size (d.pulled + 4096); omega, rfl,
        fun h => by show d.bpos + 1 ≤ min d.src.size (d.pulled + 4096); omega, ?_⟩
      intro hbp hP h3
      have h3 : min d.src.size (d.pulled + 4096) ≤ P := h3
      have hsz : (d.src.extract 0 P).size = P := by rw [Array.size_extract]; omega
      rw [hsz, if_pos (by omega)]
      dsimp only
      have hm : min P (d.pulled + 4096) = min d.src.size (d.pulled + 4096) := by omega
      rw [hm, getD_extract_lt _ _ _ (by omega)]
      rfl
    · rw [if_neg h2]
      refine ⟨Nat.le_refl _, rfl, fun h => h, ?_⟩
      intro _ hP h3
      have h3 : d.pulled ≤ P := h3
      have hsz : (d.src.extract 0 P).size = P := by rw [Array.size_extract]; omega
      rw [hsz, if_neg (by omega)]

theorem readBits_cut (P : Nat) (d : Reader) (bits : Nat) :
    CutStep P d (d.readBits bits) ((d.cut P).readBits bits) := by
  have c := readByte_cut P d
  unfold Reader.readBits
  have hb : (d.cut P).bbits = d.bbits := rfl
  rw [hb]
  by_cases h : bits > d.bbits
  · rw [if_pos h, if_pos h]
    rcases hrb : d.readByte with ⟨d1, ob⟩
    rw [hrb] at c
    cases ob with
    | none =>
      refine ⟨c.mono, c.src, c.bp, ?_⟩
      intro h1 h2 h3
      rw [c.comm h1 h2 h3]
      rfl
    | some b =>
      refine ⟨c.mono, c.src, c.bp, ?_⟩
      intro h1 h2 h3
      rw [c.comm h1 h2 h3]
      rfl
  · rw [if_neg h, if_neg h]
    exact ⟨Nat.le_refl _, rfl, fun h => h, fun _ _ _ => rfl⟩

theorem walk_cut (P : Nat) : ∀ (fuel : Nat) (d : Reader) (c : Nat),
    CutStep P d (d.walk c fuel) ((d.cut P).walk c fuel) := by
  intro fuel
  induction fuel with
  | zero => intro d c; exact ⟨Nat.le_refl _, rfl, fun h => h, fun _ _ _ => rfl⟩
  | succ n ih =>
    intro d c
    unfold Reader.walk
    split
    · have s1 := readBits_cut P d 1
      rcases hrb : d.readBits 1 with ⟨d1, b⟩
      rw [hrb] at s1
      dsimp only at s1 ⊢
      have s2 := ih { d1 with h := d1.h.chk (decide (c + b < d1.h.son.size)) } (rd (d1.h.chk (decide (c + b < d1.h.son.size))).son (c + b))
      refine ⟨Nat.le_trans s1.mono s2.mono, s2.src.trans s1.src, fun h => s2.bp (s1.bp h), ?_⟩
      intro h1 h2 h3
      have h3' : d1.pulled ≤ P := Nat.le_trans s2.mono h3
      rw [s1.comm h1 h2 h3']
      dsimp only
      exact s2.comm (s1.bp h1) (by show P ≤ d1.src.size; rw [s1.src]; exact h2) h3
    · exact ⟨Nat.le_refl _, rfl, fun h => h, fun _ _ _ => rfl⟩

theorem decodeChar_cut (P : Nat) (d : Reader) : CutStep P d d.decodeChar (d.cut P).decodeChar := by
  unfold Reader.decodeChar
  have hh : (d.cut P).h = d.h := rfl
  rw [hh]
  have s1 := walk_cut P (T + 1) d (rd d.h.son R)
  rcases hw : d.walk (rd d.h.son R) (T + 1) with ⟨d1, c⟩
  rw [hw] at s1
  dsimp only at s1 ⊢
  refine ⟨s1.mono, s1.src, s1.bp, ?_⟩
  intro h1 h2 h3
  rw [s1.comm h1 h2 h3]
  simp only [Reader.cut]

theorem lowBits_cut (P : Nat) : ∀ (j : Nat) (d : Reader) (i : Nat),
    CutStep P d (d.lowBits i j) ((d.cut P).lowBits i j) := by
  intro j
  induction j with
  | zero => intro d i; exact ⟨Nat.le_refl _, rfl, fun h => h, fun _ _ _ => rfl⟩
  | succ n ih =>
    intro d i
    unfold Reader.lowBits
    have s1 := readBits_cut P d 1
    rcases hrb : d.readBits 1 with ⟨d1, b⟩
    rw [hrb] at s1
    dsimp only at s1 ⊢
    have s2 := ih d1 ((i <<< 1) + b)
    refine ⟨Nat.le_trans s1.mono s2.mono, s2.src.trans s1.src, fun h => s2.bp (s1.bp h), ?_⟩
    intro h1 h2 h3
    have h3' : d1.pulled ≤ P := Nat.le_trans s2.mono h3
    rw [s1.comm h1 h2 h3']
    dsimp only
    exact s2.comm (s1.bp h1) (by rw [s1.src]; exact h2) h3

theorem decodePosition_cut (P : Nat) (d : Reader) : CutStep P d d.decodePosition (d.cut P).decodePosition := by
  unfold Reader.decodePosition
  have s1 := readBits_cut P d 8
  rcases hrb : d.readBits 8 with ⟨d1, i⟩
  rw [hrb] at s1
  dsimp only at s1 ⊢
  have s2 := lowBits_cut P (tbl Gen.dLen i - 2) d1 i
  rcases hl : d1.lowBits i (tbl Gen.dLen i - 2) with ⟨d2, i2⟩
  rw [hl] at s2
  dsimp only at s2 ⊢
  refine ⟨Nat.le_trans s1.mono s2.mono, s2.src.trans s1.src, fun h => s2.bp (s1.bp h), ?_⟩
  intro h1 h2 h3
  have h3' : d1.pulled ≤ P := Nat.le_trans s2.mono h3
  rw [s1.comm h1 h2 h3']
  dsimp only
  rw [s2.comm (s1.bp h1) (by rw [s1.src]; exact h2) h3]

theorem copyFull_cut (P i : Nat) : ∀ (j : Nat) (d : Reader) (k : Nat),
    (d.cut P).copyFull i k j = ((d.copyFull i k j).1.cut P, (d.copyFull i k j).2) ∧
    (d.copyFull i k j).1.pulled = d.pulled ∧ (d.copyFull i k j).1.bpos = d.bpos ∧ (d.copyFull i k j).1.src = d.src := by
  intro j
  induction j with
  | zero => intro d k; exact ⟨rfl, rfl, rfl, rfl⟩
  | succ n ih =>
    intro d k
    unfold Reader.copyFull
    have hp : (d.cut P).pos = d.pos := rfl
    have hz : (d.cut P).size = d.size := rfl
    have ht : (d.cut P).textBuf = d.textBuf := rfl
    rw [hp, hz, ht]
    split
    · exact ⟨rfl, rfl, rfl, rfl⟩
    · dsimp only
      obtain ⟨i1, i2, i3, i4⟩ := ih (d.putOne (d.textBuf.getD ((i + k) % N) 0)) (k + 1)
      have e : (d.cut P).putOne (d.textBuf.getD ((i + k) % N) 0) = (d.putOne (d.textBuf.getD ((i + k) % N) 0)).cut P := rfl
      rw [e, i1]
      exact ⟨rfl, i2, i3, i4⟩

/-- one token commutes with the truncation of the source -/
theorem tok_cut (P : Nat) (d : Reader) : CutStep P d d.tok (d.cut P).tok := by
  have s1 := decodeChar_cut P d
  rcases hdc : d.decodeChar with ⟨d1, c⟩
  rw [hdc] at s1
  have s2 := decodePosition_cut P d1
  rcases hdp : d1.decodePosition with ⟨d2, p⟩
  rw [hdp] at s2
  rw [tok_of d d1 d2 c p hdc hdp]
  obtain ⟨c1, c2, c3, c4⟩ := copyFull_cut P ((d2.r + 2 * N - p - 1) % N) (c - 255 + THRESHOLD) d2 0
  by_cases hc : c < 256
  · rw [if_pos hc]
    refine ⟨s1.mono, s1.src, s1.bp, ?_⟩
    intro h1 h2 h3
    have h3 : d1.pulled ≤ P := h3
    rw [tok_of (d.cut P) (d1.cut P) (d1.cut P).decodePosition.1 c (d1.cut P).decodePosition.2 (s1.comm h1 h2 h3) rfl,
      if_pos hc]
    rfl
  · rw [if_neg hc]
    refine ⟨by rw [c2]; exact Nat.le_trans s1.mono s2.mono, by rw [c4]; exact s2.src.trans s1.src,
      fun h => by rw [c2, c3]; exact s2.bp (s1.bp h), ?_⟩
    intro h1 h2 h3
    rw [c2] at h3
    have h3' : d1.pulled ≤ P := Nat.le_trans s2.mono h3
    rw [tok_of (d.cut P) (d1.cut P) (d2.cut P) c p (s1.comm h1 h2 h3')
      (s2.comm (s1.bp h1) (by rw [s1.src]; exact h2) h3), if_neg hc]
    have hr : (d2.cut P).r = d2.r := rfl
    rw [hr, c1]

theorem Run.pulled_mono {d c : Reader} {bs : Bytes} (h : Run d c bs) :
    d.pulled ≤ c.pulled ∧ c.src = d.src ∧ (d.bpos ≤ d.pulled → c.bpos ≤ c.pulled) := by
  induction h with
  | done d _ => exact ⟨Nat.le_refl _, rfl, fun h => h⟩
  | step d c bs _ _ ih =>
    have t := tok_cut 0 d
    exact ⟨Nat.le_trans t.mono ih.1, ih.2.1.trans t.src, fun h => ih.2.2 (t.bp h)⟩

/-- **the token stream commutes with truncating the source to any length `P ≥` the final `pulled`** -/
theorem run_cut (P : Nat) {d c : Reader} {bs : Bytes} (h : Run d c bs) :
    d.bpos ≤ d.pulled → P ≤ d.src.size → c.pulled ≤ P → Run (d.cut P) (c.cut P) bs := by
  induction h with
  | done d hnl => intro _ _ _; exact Run.done (d.cut P) (fun hl => hnl hl)
  | step d c bs hl hr ih =>
    intro h1 h2 h3
    have t := tok_cut P d
    have m := Run.pulled_mono hr
    have e := t.comm h1 h2 (Nat.le_trans m.1 h3)
    have r := ih (t.bp h1) (by rw [t.src]; exact h2) h3
    have hl' : (d.cut P).live := hl
    have key : ∀ (x1 : Reader) (x2 : Bytes), (d.cut P).tok = (x1, x2) → Run x1 (c.cut P) bs →
        Run (d.cut P) (c.cut P) (x2 ++ bs) := by
      intro x1 x2 hx hrun
      have := Run.step (d.cut P) (c.cut P) bs hl' (by rw [hx]; exact hrun)
      rw [hx] at this
      exact this
    exact key (d.tok.1.cut P) d.tok.2 e r

theorem canonStart_cut (body : Bytes) (n P : Nat) : (canonStart body n).cut P = canonStart (body.take P) n := by
  simp [canonStart, Reader.cut]

/-- **the data is the canonical decoding of the pulled (= CRC-covered) body bytes alone**: after any sequence of
reads on a new reader with `Close` = nil, truncating the body to the `pulled` bytes the reader took from its
source does not change what the canonical decoder yields — the data. -/
theorem decodeBody_take_pulled (crc16 : Bool) (s : Bytes) (d : Reader) (ns : List Nat)
    (h : Reader.new crc16 s = .ok d) (hc : (readsWith d ns).1.close = none) :
    decodeBody ((streamBody crc16 s).take (readsWith d ns).1.pulled) (streamSize crc16 s).toNat
      = (readsWith d ns).2 := by
  obtain ⟨hext, hend⟩ := readsWith_close_extend crc16 s d ns h hc
  obtain ⟨m1, m2, -, -⟩ := new_fields crc16 s d h
  obtain ⟨n1, -, -, n4⟩ := Bits.new_rinv crc16 s d h
  have hi := (readsWith_acc d ns).2.2 (new_inv crc16 s d h)
  obtain ⟨-, e2, -, -, -⟩ := close_none_eof _ hi hc 1
  have hsz : (readsWith d ns).1.size = d.size := (readsWith_acc d ns).1
  have hnn : 0 ≤ d.size := by rw [← hsz, ← e2]; omega
  obtain ⟨n, hn⟩ : ∃ n : Nat, d.size = (n : Int) := ⟨d.size.toNat, (Int.toNat_of_nonneg hnn).symm⟩
  obtain ⟨c, bs, r1, hce, hcb, r3, r5⟩ := run_of_close d (ns ++ [1]) hend (by rw [hext]; exact hc)
  rw [hext] at r3 r5
  rw [setPending_self d _ m2] at r1
  rw [m2, List.nil_append] at r3
  have p := readsWith_pull d ns
  have pinv : PInv (readsWith d ns).1 := p.inv ⟨by rw [n4]; omega, Or.inr (by rw [n4])⟩
  have hPle : (readsWith d ns).1.pulled ≤ d.src.size := by rw [← p.src]; exact pinv.1
  generalize hP : (readsWith d ns).1.pulled = P at *
  have rc := run_cut P r1 n1.bpos_le hPle (Nat.le_of_eq r5)
  obtain ⟨q1, -⟩ := run_decodeLoop rc hce hcb #[] n n hn (by show #[].size = d.pos; rw [m1]; rfl)
    (by show n ≤ d.pos + n; omega)
  have hse := streamSize_eq crc16 s d h
  have hst : (d.cut P).strip (n : Int) = canonStart ((streamBody crc16 s).take P) n := by
    rw [← canonStart_cut, ← new_strip crc16 s d h n]
    rfl
  rw [← hse, hn, Int.toNat_natCast, decodeBody_eq, ← hst, decodeLoop_strip, q1, ← r3]
  simp

end Wl2k.Lzhuf
