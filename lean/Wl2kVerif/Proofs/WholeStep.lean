import Wl2kVerif.Proofs.WholeSeg
/-
The moves of a turn at the level of the pair system (fault-free link): each lemma takes one side through one
segment of its program (`seg_left` / `seg_right` with the `upto` facts of `Proofs/WholeSeg.lean`) and says
exactly what the side has become and what the peer has been sent. The sender of the turn is on the LEFT, the
receiver on the RIGHT (the mirrored turn is obtained with `pairExec_swap`).
-/
namespace Wl2k.B2F
open Wl2k Wl2k.Fmt Wl2k.Str Wl2k.Strconv

/-- what `turns` + `finish` do after a sender turn / a receiver turn -/
def sndK (c : Cfg) (fuel n : Nat) (st : SState) : Except SErr (Bool × SState) → Proc Result :=
  afterOutbound st fun q st' => restOfSession c fuel n false { st' with quitSent := q }
def rcvK (c : Cfg) (fuel n : Nat) : Bool × SState × Option SErr → Proc Result :=
  afterInbound fun q st' => restOfSession c fuel n true { st' with quitReceived := q }

/-- what `handleOutbound` does with the result of `sendOutbound` -/
def sendDone (fuel : Nat) (st : SState) : Except SErr (List (Bytes × Bool)) → Proc (Except SErr (Bool × SState))
  | .error e => .ret (.error e)
  | .ok sent =>
    (callAll ((sent.filter (·.2)).map fun (m, _) => .setSent m true)).bind fun _ =>
      outTail fuel st (sent.filter (!·.2))

theorem handleOutbound_eq' (c : Cfg) (fuel : Nat) (st : SState) :
    handleOutbound c fuel st = (outbound c st).bind fun out =>
      if out.isEmpty then
        Proc.write (if st.remoteNoMsgs then sb "FQ\r" else sb "FF\r") (.ret (.ok (st.remoteNoMsgs, st)))
      else (sendOutbound c fuel out).bind (sendDone fuel st) := by
  rw [handleOutbound_eq]
  congr

/-- the sender waiting for the `FS` line (block `B` written) -/
def progAwait (c : Cfg) (fuel n : Nat) (st : SState) (B : List Proposal) : Proc Result :=
  (((awaitAnswer fuel fuel).bind (sendTail c B)).bind (sendDone fuel st)).bind (sndK c fuel n st)

/-- the sender waiting for the byte that confirms (`acc` = what it will report sent) -/
def progPeek (c : Cfg) (fuel n : Nat) (st : SState) (acc : List (Bytes × Bool)) : Proc Result :=
  (outTail fuel st acc).bind (sndK c fuel n st)

/-- the receiver waiting for the frames of what it accepted -/
def progFetch (c : Cfg) (fuel n : Nat) (ps : List Proposal) (st : SState) : Proc Result :=
  ((fetchAll fuel ps st).bind fun r => Proc.ret (false, r.1, r.2)).bind (rcvK c fuel n)

theorem eq_nil_of_append_self {α : Type} {l bs : List α} (h : l = l ++ bs) : bs = [] := by
  have := congrArg List.length h
  simp only [List.length_append] at this
  exact List.eq_nil_of_length_eq_zero (by omega)

/-- `seg_right` with the bytes written given -/
theorem seg_right' {α : Type} (P : Proc α) (K : α → Proc Result) (inq : Bytes) (g : Nat) (h : HState) (evs : List Ev)
    (a : Side) (ha : a.ended = none) (v : α) (rest : Bytes) (h' : HState) (e' : List Ev)
    (hu : Proc.upto hstep P inq h evs = (.ret v, rest, h', e')) (bs : Bytes) (hbs : outBytes e' = outBytes evs ++ bs) :
    ∃ n g', PairExec (a, mkSide (P.bind K) inq g h evs) n (a.push bs, mkSide (K v) rest g' h' e') := by
  obtain ⟨n, g', bs', he, ho⟩ := seg_right P K inq g h evs a ha v rest h' e' hu
  have : bs' = bs := List.append_cancel_left (ho.symm.trans hbs)
  subst this
  exact ⟨n, g', he⟩

theorem seg_left' {α : Type} (P : Proc α) (K : α → Proc Result) (inq : Bytes) (g : Nat) (h : HState) (evs : List Ev)
    (b : Side) (hb : b.ended = none) (v : α) (rest : Bytes) (h' : HState) (e' : List Ev)
    (hu : Proc.upto hstep P inq h evs = (.ret v, rest, h', e')) (bs : Bytes) (hbs : outBytes e' = outBytes evs ++ bs) :
    ∃ n g', PairExec (mkSide (P.bind K) inq g h evs, b) n (mkSide (K v) rest g' h' e', b.push bs) := by
  obtain ⟨n, g', bs', he, ho⟩ := seg_left P K inq g h evs b hb v rest h' e' hu
  have : bs' = bs := List.append_cancel_left (ho.symm.trans hbs)
  subst this
  exact ⟨n, g', he⟩

theorem push_mkSide (P : Proc Result) (inq : Bytes) (g : Nat) (h : HState) (evs : List Ev) (bs : Bytes) :
    (mkSide P inq g h evs).push bs = mkSide P (inq ++ bs) g h evs := rfl

theorem mkSide_ended (P : Proc Result) (inq : Bytes) (g : Nat) (h : HState) (evs : List Ev) :
    (mkSide P inq g h evs).ended = none := rfl

/-- the sorted proposals the handler offers -/
def sortedOf (h : HState) : List Proposal := sortProposals (((offered h).filter fun m : OutMsg => m.valid).map mkProp)

theorem upto_outbound (c : Cfg) (st : SState) (hh : c.hasHandler = true) (J : Bytes) (h : HState) (tr : List Ev) :
    Proc.upto hstep (outbound c st) J h tr = (.ret (sortedOf h), J, h, .called (.getOutbound st.remoteFW) :: tr) := by
  simp [outbound, hh, Proc.upto, hstep_getOutbound, sortedOf]

/-! ### the side whose turn it is to send, on the right -/

/-- what follows `GetOutbound` in a sender turn -/
def afterGet (c : Cfg) (fuel n : Nat) (st : SState) (out : List Proposal) : Proc Result :=
  (if out.isEmpty then
      Proc.write (if st.remoteNoMsgs then sb "FQ\r" else sb "FF\r") (.ret (.ok (st.remoteNoMsgs, st)))
    else (sendOutbound c fuel out).bind (sendDone fuel st)).bind (sndK c fuel n st)

theorem rest_send_eq (c : Cfg) (fuel n : Nat) (st : SState) (hq : st.quitReceived = false) (hs : st.quitSent = false) :
    restOfSession c fuel (n + 1) true st = (outbound c st).bind (afterGet c fuel n st) := by
  rw [restOfSession_send c fuel n st hq hs, handleOutbound_eq', Proc.bind_assoc]
  rfl

/-- what follows the line loop in a receiver turn -/
def afterLoop (c : Cfg) (fuel n : Nat) (st : SState) (r : Except SErr (Bool × List Proposal × SState)) : Proc Result :=
  (inTail fuel st r).bind (rcvK c fuel n)

theorem rest_recv_eq (c : Cfg) (fuel n : Nat) (st : SState) (hq : st.quitReceived = false) (hs : st.quitSent = false) :
    restOfSession c fuel (n + 1) false st = (inboundLoop c fuel fuel [] 0 st).bind (afterLoop c fuel n st) := by
  rw [restOfSession_recv c fuel n st hq hs, handleInbound_eq, Proc.bind_assoc]
  rfl

/-- **A block to send**: `GetOutbound`, the proposal lines and the prompt; then it waits for the `FS` line. -/
theorem step_send_block (c : Cfg) (fuel n : Nat) (st : SState) (h : HState) (e : List Ev) (I : Bytes) (g : Nat)
    (hh : c.hasHandler = true) (hq : st.quitReceived = false) (hs : st.quitSent = false) (hne : sortedOf h ≠ [])
    (a : Side) (ha : a.ended = none) :
    ∃ k g' evs, outBytes evs = blockOut (blockOf' c (offered h)) ∧
      PairExec (a, mkSide (restOfSession c fuel (n + 1) true st) I g h e) k
        (a.push (blockOut (blockOf' c (offered h))), mkSide (progAwait c fuel n st (blockOf' c (offered h))) I g' h (evs ++ e)) := by
  rw [rest_send_eq c fuel n st hq hs]
  obtain ⟨k1, g1, he1⟩ := seg_right' (outbound c st) (afterGet c fuel n st) I g h e a ha _ _ _ _ (upto_outbound c st hh I h e) []
    (by simp [outBytes])
  rw [push_nil] at he1
  have hemp : (sortedOf h).isEmpty = false := by
    cases hs : sortedOf h with
    | nil => exact absurd hs hne
    | cons x t => rfl
  have hB : blockOf' c (offered h) = (sortedOf h).take c.maxBlock := rfl
  have hprog : afterGet c fuel n st (sortedOf h) =
      (sendHead (blockOf' c (offered h))).bind fun _ => progAwait c fuel n st (blockOf' c (offered h)) := by
    unfold afterGet progAwait
    simp only [hemp, Bool.false_eq_true, if_false]
    rw [sendOutbound_eq, hB]
    simp only [Proc.bind_assoc]
  rw [hprog] at he1
  obtain ⟨evs, hu, ho⟩ := upto_sendHead (blockOf' c (offered h)) I h (.called (.getOutbound st.remoteFW) :: e)
  obtain ⟨k2, g2, he2⟩ := seg_right' (sendHead (blockOf' c (offered h))) (fun _ => progAwait c fuel n st (blockOf' c (offered h)))
    I g1 h (.called (.getOutbound st.remoteFW) :: e) a ha _ _ _ _ hu (blockOut (blockOf' c (offered h)))
    (by rw [outBytes_append, ho])
  refine ⟨k1 + k2, g2, evs ++ [.called (.getOutbound st.remoteFW)], ?_, ?_⟩
  · rw [outBytes_append, ho]; simp [outBytes]
  · have := he1.trans he2
    simpa using this

/-- **Nothing to send**: `GetOutbound`, then `FF` (or `FQ` when the peer has said `FF`); the turn is over. -/
theorem step_send_none (c : Cfg) (fuel n : Nat) (st : SState) (h : HState) (e : List Ev) (I : Bytes) (g : Nat)
    (hh : c.hasHandler = true) (hq : st.quitReceived = false) (hs : st.quitSent = false) (hE : sortedOf h = [])
    (a : Side) (ha : a.ended = none) :
    ∃ k g', PairExec (a, mkSide (restOfSession c fuel (n + 1) true st) I g h e) k
      (a.push (if st.remoteNoMsgs then [70, 81, 13] else [70, 70, 13]),
        mkSide (restOfSession c fuel n false { st with quitSent := st.remoteNoMsgs }) I g' h
          (.wrote (if st.remoteNoMsgs then [70, 81, 13] else [70, 70, 13]) :: .called (.getOutbound st.remoteFW) :: e)) := by
  rw [rest_send_eq c fuel n st hq hs]
  obtain ⟨k1, g1, he1⟩ := seg_right' (outbound c st) (afterGet c fuel n st) I g h e a ha _ _ _ _ (upto_outbound c st hh I h e) []
    (by simp [outBytes])
  rw [push_nil] at he1
  have hW : (if st.remoteNoMsgs then sb "FQ\r" else sb "FF\r") = (if st.remoteNoMsgs then [70, 81, 13] else [70, 70, 13]) := by
    cases st.remoteNoMsgs <;> simp [sb_FF, sb_FQ]
  have hprog : afterGet c fuel n st (sortedOf h) =
      (Proc.write (if st.remoteNoMsgs then [70, 81, 13] else [70, 70, 13])
        (Proc.ret (Except.ok (st.remoteNoMsgs, st)) : Proc (Except SErr (Bool × SState)))).bind (sndK c fuel n st) := by
    unfold afterGet
    simp only [hE, List.isEmpty_nil, if_true, hW]
  rw [hprog] at he1
  have hu : Proc.upto hstep (Proc.write (if st.remoteNoMsgs then [70, 81, 13] else [70, 70, 13])
      (Proc.ret (Except.ok (st.remoteNoMsgs, st)) : Proc (Except SErr (Bool × SState)))) I h
      (.called (.getOutbound st.remoteFW) :: e) =
      (.ret (.ok (st.remoteNoMsgs, st)), I, h,
        .wrote (if st.remoteNoMsgs then [70, 81, 13] else [70, 70, 13]) :: .called (.getOutbound st.remoteFW) :: e) := rfl
  obtain ⟨k2, g2, he2⟩ := seg_right' _ (sndK c fuel n st) I g1 h (.called (.getOutbound st.remoteFW) :: e) a ha _ _ _ _ hu
    (if st.remoteNoMsgs then [70, 81, 13] else [70, 70, 13]) (by simp [outBytes])
  exact ⟨k1 + k2, g2, he1.trans he2⟩

/-! ### the receiver, on the right -/

/-- **The receiver reads the block**: it answers (`FS` line) and waits for the frames. -/
theorem step_recv_block (c : Cfg) (fuel n : Nat) (st : SState) (B : List Proposal) (h : HState) (e : List Ev) (g : Nat)
    (hq : st.quitReceived = false) (hs : st.quitSent = false)
    (hw : WpaOK hstep c h) (hne : B ≠ [])
    (hline : ∀ p ∈ B, LineOK p ∧ (pl p).length < fuel) (hfuel : 5 < fuel) (hbl : B.length < fuel)
    (a : Side) (ha : a.ended = none) :
    ∃ k g' evs, outBytes evs = [] ∧
      PairExec (a, mkSide (restOfSession c fuel (n + 1) false st) (blockOut B) g h e) k
        (a.push (fsLine (answersOf hstep c h (B.map recvProp)) ++ [13]),
          mkSide (progFetch c fuel n (List.zipWith setAns (B.map recvProp) (answersOf hstep c h (B.map recvProp)))
            { st with remoteNoMsgs := false }) [] g' h
            (.wrote (fsLine (answersOf hstep c h (B.map recvProp)) ++ [13]) :: (evs ++ e))) := by
  rw [rest_recv_eq c fuel n st hq hs]
  obtain ⟨evs, ho, hu⟩ := upto_inboundLoop_block c fuel st B h e hw hne hline hfuel hbl
  obtain ⟨k, g', he⟩ := seg_right' _ (afterLoop c fuel n st) (blockOut B) g h e a ha _ _ _ _ hu
    (fsLine (answersOf hstep c h (B.map recvProp)) ++ [13]) (by simp only [outBytes, outBytes_append, ho, List.append_nil])
  exact ⟨k, g', evs, ho, he⟩

/-- **The receiver reads the frames**: every accepted payload is handed over; its turn to send. -/
theorem step_recv_frames (c : Cfg) (fuel n : Nat) (st : SState) (m : Nat) (hm1 : 1 ≤ m) (hm2 : m ≤ 255) (dataOf : Proposal → Bytes)
    (B : List Proposal) (as : List UInt8) (hframe : ∀ p ∈ B, FrameOK fuel dataOf p) (h : HState) (e : List Ev) (g : Nat)
    (hall : AllOK hstep h (acceptedData dataOf B as)) (a : Side) (ha : a.ended = none) :
    ∃ k g', PairExec (a, mkSide (progFetch c fuel n (List.zipWith setAns (B.map recvProp) as) st) (framesBytes m B as) g h e) k
      (a, mkSide (restOfSession c fuel n true { st with received := st.received ++ acceptedMids B as, quitReceived := false }) [] g'
        ((acceptedData dataOf B as).foldl (deliverStep hstep) h) (deliverEvs (acceptedData dataOf B as) ++ e)) := by
  unfold progFetch
  rw [Proc.bind_assoc]
  obtain ⟨k, g', he⟩ := seg_right' (fetchAll fuel (List.zipWith setAns (B.map recvProp) as) st)
    (fun r => (Proc.ret (false, r.1, r.2)).bind (rcvK c fuel n)) (framesBytes m B as) g h e a ha
    _ _ _ _ (upto_fetchAll_frames m hm1 hm2 fuel dataOf B as hframe st h e hall) []
    (by rw [outBytes_append, deliverEvs_silent])
  rw [push_nil] at he
  exact ⟨k, g', he⟩

/-- the receiver reads `FF`: its turn to send, and it knows the peer has nothing -/
theorem step_recv_FF (c : Cfg) (fuel n : Nat) (st : SState) (h : HState) (e : List Ev) (g : Nat)
    (hq : st.quitReceived = false) (hs : st.quitSent = false) (hfuel : 5 < fuel) (a : Side) (ha : a.ended = none) :
    ∃ k g', PairExec (a, mkSide (restOfSession c fuel (n + 1) false st) [70, 70, 13] g h e) k
      (a, mkSide (restOfSession c fuel n true { st with remoteNoMsgs := true, quitReceived := false }) [] g' h e) := by
  rw [rest_recv_eq c fuel n st hq hs]
  obtain ⟨k, g', he⟩ := seg_right' _ (afterLoop c fuel n st) [70, 70, 13] g h e a ha _ _ _ _
    (upto_inboundLoop_FF c fuel st h e hfuel) [] (by simp)
  rw [push_nil] at he
  exact ⟨k, g', he⟩

/-- the receiver reads `FQ`: the session is over -/
theorem step_recv_FQ (c : Cfg) (fuel n : Nat) (st : SState) (h : HState) (e : List Ev) (g : Nat)
    (hq : st.quitReceived = false) (hs : st.quitSent = false) (hfuel : 5 < fuel) (a : Side) (ha : a.ended = none) :
    ∃ k g', PairExec (a, mkSide (restOfSession c fuel (n + 2) false st) [70, 81, 13] g h e) k
      (a, mkSide (.ret { err := .nil, sent := st.sent, received := st.received }) [] g' h e) := by
  rw [rest_recv_eq c fuel (n + 1) st hq hs]
  obtain ⟨k, g', he⟩ := seg_right' _ (afterLoop c fuel (n + 1) st) [70, 81, 13] g h e a ha _ _ _ _
    (upto_inboundLoop_FQ c fuel st h e hfuel) [] (by simp)
  rw [push_nil] at he
  refine ⟨k, g', ?_⟩
  have : afterLoop c fuel (n + 1) st (Except.ok (true, [], st)) =
      .ret { err := .nil, sent := st.sent, received := st.received } := by
    simp only [afterLoop, inTail, fetchAll, Proc.bind, rcvK, afterInbound]
    rw [restOfSession_quit c fuel n true _ (Or.inl rfl)]
  rw [this] at he
  exact he

/-! ### the sender of the turn, on the left -/

/-- **The sender reads the `FS` line**: frames of the accepted proposals, `SetDeferred` / `SetSent(_, true)`
for the others; then it waits for the byte that confirms. -/
theorem step_send_answer (c : Cfg) (fuel n : Nat) (st : SState) (B : List Proposal) (as : List UInt8) (h : HState) (e : List Ev)
    (g : Nat) (hlen : as.length = B.length) (hne : as ≠ []) (hpl : ∀ a ∈ as, PlainAnswer a)
    (hf : (fsLine as).length < fuel) (hbig : ∀ p ∈ B, 6 ≤ p.csize) (b : Side) (hb : b.ended = none) :
    ∃ k g' evs, outBytes evs = framesBytes c.maxMsgLen B as ∧
      PairExec (mkSide (progAwait c fuel n st B) (fsLine as ++ [13]) g h e, b) k
        (mkSide (progPeek c fuel n st ((transferRes B as []).filter (!·.2))) [] g'
          (hSent (hDefer h (deferredMids B as)) true (((transferRes B as []).filter (·.2)).map (·.1))) (evs ++ e),
          b.push (framesBytes c.maxMsgLen B as)) := by
  have hprog : progAwait c fuel n st B =
      ((awaitAnswer fuel fuel).bind (sendTail c B)).bind fun r => (sendDone fuel st r).bind (sndK c fuel n st) := by
    unfold progAwait
    rw [Proc.bind_assoc]
  rw [hprog]
  obtain ⟨ev1, hu, ho⟩ := upto_sendRest c fuel B as h e hlen hne hpl hf hbig
  obtain ⟨k1, g1, he1⟩ := seg_left' ((awaitAnswer fuel fuel).bind (sendTail c B))
    (fun r => (sendDone fuel st r).bind (sndK c fuel n st)) (fsLine as ++ [13]) g h e b hb
    _ _ _ _ hu (framesBytes c.maxMsgLen B as) (by rw [outBytes_append, ho])
  have hprog2 : (sendDone fuel st (Except.ok (transferRes B as []))).bind (sndK c fuel n st) =
      (callAll (((transferRes B as []).filter (·.2)).map fun y : Bytes × Bool => Call.setSent y.1 true)).bind fun _ =>
        progPeek c fuel n st ((transferRes B as []).filter (!·.2)) := by
    simp only [sendDone, progPeek]
    rw [Proc.bind_assoc]
  rw [hprog2] at he1
  obtain ⟨k2, g2, he2⟩ := seg_left' (callAll (((transferRes B as []).filter (·.2)).map fun y : Bytes × Bool => Call.setSent y.1 true))
    (fun _ => progPeek c fuel n st ((transferRes B as []).filter (!·.2))) [] g1
    (hDefer h (deferredMids B as)) (ev1 ++ e) (b.push (framesBytes c.maxMsgLen B as)) (by simp [Side.push, hb]) _ _ _ _
    (upto_callAll hstep [] _ _ _) [] (by
      rw [outBytes_append, ← List.map_reverse, outBytes_calls])
  rw [push_nil, foldl_setSent] at he2
  refine ⟨k1 + k2, g2,
    ((((transferRes B as []).filter (·.2)).map fun y : Bytes × Bool => Call.setSent y.1 true).map Ev.called).reverse ++ ev1, ?_, ?_⟩
  · rw [outBytes_append, ho, ← List.map_reverse, outBytes_calls]; simp
  · have := he1.trans he2
    simpa [List.append_assoc] using this

/-- **The sender sees the peer's next 'F'**: it reports the accepted proposals sent; its turn to receive. -/
theorem step_send_confirm (c : Cfg) (fuel n : Nat) (st : SState) (acc : List (Bytes × Bool)) (x : UInt8) (r : Bytes) (h : HState)
    (e : List Ev) (g : Nat) (hx : isGo x = true) (b : Side) (hb : b.ended = none) :
    ∃ k g' evs, outBytes evs = [] ∧
      PairExec (mkSide (progPeek c fuel n st acc) (x :: r) g h e, b) k
        (mkSide (restOfSession c fuel n false { st with sent := st.sent ++ acc.map (·.1), quitSent := false }) (x :: r) g'
          (hSent h false (acc.map (·.1))) (evs ++ e), b) := by
  unfold progPeek
  obtain ⟨evs, ho, hu⟩ := upto_outTail_go fuel st acc x r h e hx
  obtain ⟨k, g', he⟩ := seg_left' (outTail fuel st acc) (sndK c fuel n st) (x :: r) g h e b hb _ _ _ _ hu []
    (by rw [outBytes_append, ho])
  rw [push_nil] at he
  exact ⟨k, g', evs, ho, he⟩

end Wl2k.B2F
