import Wl2kVerif.Proofs.Term
/-
Fuel monotonicity: giving any loop of the session MORE fuel only changes runs that ended in `panic "fuel"`.
`Ref p q`: `q` is `p` with some `panic "fuel"` leaves replaced by other programs.
-/
namespace Wl2k.B2F
open Wl2k Wl2k.Str Wl2k.Strconv

inductive Ref {α : Type} : Proc α → Proc α → Prop
  | fuel (q : Proc α) : Ref (.panic "fuel") q
  | refl (p : Proc α) : Ref p p
  | readByte {k k' : Option UInt8 → Proc α} : (∀ o, Ref (k o) (k' o)) → Ref (.readByte k) (.readByte k')
  | peek {k k' : Option UInt8 → Proc α} : (∀ o, Ref (k o) (k' o)) → Ref (.peek k) (.peek k')
  | write {bs : Bytes} {k k' : Proc α} : Ref k k' → Ref (.write bs k) (.write bs k')
  | call {c : Call} {k k' : Reply → Proc α} : (∀ r, Ref (k r) (k' r)) → Ref (.call c k) (.call c k')

theorem Ref.bind_right {α β : Type} (p : Proc α) {f f' : α → Proc β} (hf : ∀ a, Ref (f a) (f' a)) :
    Ref (Proc.bind p f) (Proc.bind p f') := by
  induction p with
  | ret a => exact hf a
  | readByte k ih => exact Ref.readByte ih
  | peek k ih => exact Ref.peek ih
  | write bs k ih => exact Ref.write ih
  | call c k ih => exact Ref.call ih
  | panic s => exact Ref.refl _

theorem Ref.bind {α β : Type} {p p' : Proc α} {f f' : α → Proc β} (hp : Ref p p') (hf : ∀ a, Ref (f a) (f' a)) :
    Ref (Proc.bind p f) (Proc.bind p' f') := by
  induction hp with
  | fuel q => exact Ref.fuel _
  | refl p => exact Ref.bind_right p hf
  | readByte _ ih => exact Ref.readByte ih
  | peek _ ih => exact Ref.peek ih
  | write _ ih => exact Ref.write ih
  | call _ ih => exact Ref.call ih

/-- a run of the refined program is the same run, unless the original ran out of fuel -/
theorem run_ref {α H : Type} (hstep : H → Call → H × Reply) {p q : Proc α} (hr : Ref p q) :
    ∀ (inp : Bytes) (h : H) (tr : List Ev),
      (Proc.run hstep p inp h tr).1 = .panicked "fuel" ∨ Proc.run hstep p inp h tr = Proc.run hstep q inp h tr := by
  induction hr with
  | fuel q => intro inp h tr; exact Or.inl rfl
  | refl p => intro inp h tr; exact Or.inr rfl
  | readByte _ ih =>
    intro inp h tr
    cases inp with
    | nil => simp only [Proc.run]; exact ih none [] h tr
    | cons b t => simp only [Proc.run]; exact ih (some b) t h tr
  | peek _ ih =>
    intro inp h tr
    cases inp with
    | nil => simp only [Proc.run]; exact ih none [] h tr
    | cons b t => simp only [Proc.run]; exact ih (some b) (b :: t) h _
  | write _ ih => intro inp h tr; simp only [Proc.run]; exact ih inp h _
  | call _ ih => intro inp h tr; simp only [Proc.run]; exact ih _ inp _ _

theorem readString_ref (delim : UInt8) : ∀ (fuel fuel' : Nat) (acc : Bytes), fuel ≤ fuel' →
    Ref (readString delim fuel acc) (readString delim fuel' acc) := by
  intro fuel
  induction fuel with
  | zero => intro fuel' acc _; exact Ref.fuel _
  | succ fuel ih =>
    intro fuel' acc hf
    cases fuel' with
    | zero => omega
    | succ fuel' =>
      unfold readString
      refine Ref.readByte ?_
      intro o
      cases o with
      | none => exact Ref.refl _
      | some b =>
        simp only
        split
        · exact Ref.refl _
        · exact ih _ _ (by omega)

theorem nextLineRemoteErr_ref (pe : Bool) (fuel fuel' : Nat) (hf : fuel ≤ fuel') :
    Ref (nextLineRemoteErr pe fuel) (nextLineRemoteErr pe fuel') := by
  unfold nextLineRemoteErr
  simp only [bind_eq, pure_eq]
  exact Ref.bind (readString_ref 13 fuel fuel' [] hf) (fun _ => Ref.refl _)

theorem nextLine_ref (fuel fuel' : Nat) (hf : fuel ≤ fuel') : Ref (nextLine fuel) (nextLine fuel') :=
  nextLineRemoteErr_ref true fuel fuel' hf

/-- descend through the (identical) case structure of both sides -/
macro "ref_walk" ih:term : tactic => `(tactic|
  repeat' (first | exact Ref.refl _ | exact $ih | split))

theorem readHandshake_ref (master : Bool) (fuel fuel' : Nat) (hf : fuel ≤ fuel') : ∀ (k k' : Nat) (data : HsData),
    k ≤ k' → Ref (readHandshake master fuel k data) (readHandshake master fuel' k' data) := by
  intro k
  induction k with
  | zero => intro k' data _; exact Ref.fuel _
  | succ k ih =>
    intro k' data hk
    cases k' with
    | zero => omega
    | succ k' =>
      unfold readHandshake
      refine Ref.peek ?_
      intro o
      cases o with
      | none => exact Ref.refl _
      | some b =>
        simp only
        split
        · exact Ref.refl _
        · simp only [bind_eq, pure_eq]
          refine Ref.bind (nextLineRemoteErr_ref false fuel fuel' hf) ?_
          intro r
          ref_walk (ih _ _ (by omega))

theorem handshake_ref (c : Cfg) (fuel fuel' : Nat) (hf : fuel ≤ fuel') : Ref (handshake c fuel) (handshake c fuel') := by
  have tail : ∀ (f : Except SErr HsData → Proc (Except SErr HsData)),
      Ref ((readHandshake c.hs.master fuel fuel { }).bind f) ((readHandshake c.hs.master fuel' fuel' { }).bind f) :=
    fun f => Ref.bind (readHandshake_ref _ _ _ hf _ _ _ hf) (fun _ => Ref.refl _)
  unfold handshake
  simp only [bind_eq, pure_eq]
  split
  · refine Ref.bind (Ref.refl _) ?_
    intro _
    refine Ref.bind (Ref.refl _) ?_
    intro r
    cases r with
    | error e => exact Ref.refl _
    | ok u => exact tail _
  · exact tail _

theorem awaitAnswer_ref (fuel fuel' : Nat) (hf : fuel ≤ fuel') : ∀ (k k' : Nat), k ≤ k' →
    Ref (awaitAnswer fuel k) (awaitAnswer fuel' k') := by
  intro k
  induction k with
  | zero => intro k' _; exact Ref.fuel _
  | succ k ih =>
    intro k' hk
    cases k' with
    | zero => omega
    | succ k' =>
      unfold awaitAnswer
      simp only [bind_eq, pure_eq]
      refine Ref.bind (nextLine_ref fuel fuel' hf) ?_
      intro r
      ref_walk (ih _ (by omega))

theorem sendOutbound_ref (c : Cfg) (fuel fuel' : Nat) (hf : fuel ≤ fuel') (out : List Proposal) :
    Ref (sendOutbound c fuel out) (sendOutbound c fuel' out) := by
  unfold sendOutbound
  simp only [bind_eq, pure_eq]
  refine Ref.bind (Ref.refl _) ?_
  intro _
  refine Ref.bind (Ref.refl _) ?_
  intro _
  exact Ref.bind (awaitAnswer_ref fuel fuel' hf _ _ hf) (fun _ => Ref.refl _)

theorem handleOutbound_ref (c : Cfg) (fuel fuel' : Nat) (hf : fuel ≤ fuel') (st : SState) :
    Ref (handleOutbound c fuel st) (handleOutbound c fuel' st) := by
  unfold handleOutbound
  simp only [bind_eq, pure_eq]
  refine Ref.bind (Ref.refl _) ?_
  intro out
  split
  · exact Ref.refl _
  · refine Ref.bind (sendOutbound_ref c fuel fuel' hf out) ?_
    intro r
    cases r with
    | error e => exact Ref.refl _
    | ok sent =>
      simp only
      refine Ref.bind (Ref.refl _) ?_
      intro _
      refine Ref.peek ?_
      intro o
      cases o with
      | none => exact Ref.refl _
      | some b =>
        simp only
        split
        · exact Ref.bind (nextLine_ref fuel fuel' hf) (fun _ => Ref.refl _)
        · exact Ref.refl _

theorem readBlocks_ref (csize : Int) : ∀ (k k' : Nat) (buf : Bytes) (sum : Nat), k ≤ k' →
    Ref (readBlocks csize k buf sum) (readBlocks csize k' buf sum) := by
  intro k
  induction k with
  | zero => intro k' _ _ _; exact Ref.fuel _
  | succ k ih =>
    intro k' buf sum hk
    cases k' with
    | zero => omega
    | succ k' =>
      unfold readBlocks
      refine Ref.readByte ?_
      intro o
      cases o with
      | none => exact Ref.refl _
      | some c =>
        simp only
        split
        · refine Ref.readByte ?_
          intro o
          refine Ref.bind (Ref.refl _) ?_
          intro r
          cases r with
          | none => exact Ref.refl _
          | some blk => exact ih _ _ _ (by omega)
        · exact Ref.refl _

theorem readCompressed_ref (fuel fuel' : Nat) (hf : fuel ≤ fuel') (p : Proposal) :
    Ref (readCompressed fuel p) (readCompressed fuel' p) := by
  unfold readCompressed
  refine Ref.readByte ?_
  intro o
  cases o with
  | none => exact Ref.refl _
  | some c =>
    simp only
    split
    · exact Ref.bind (nextLine_ref fuel fuel' hf) (fun _ => Ref.refl _)
    · split
      · exact Ref.refl _
      · refine Ref.readByte ?_
        intro o
        cases o with
        | none => exact Ref.refl _
        | some hl =>
          simp only [bind_eq, pure_eq]
          refine Ref.bind (readString_ref 0 fuel fuel' [] hf) ?_
          intro r1
          obtain ⟨title, eof1⟩ := r1
          split
          · exact Ref.refl _
          · refine Ref.bind (readString_ref 0 fuel fuel' [] hf) ?_
            intro r2
            obtain ⟨off, eof2⟩ := r2
            ref_walk (readBlocks_ref _ _ _ _ _ hf)

theorem fetchAll_ref (fuel fuel' : Nat) (hf : fuel ≤ fuel') : ∀ (ps : List Proposal) (st : SState),
    Ref (fetchAll fuel ps st) (fetchAll fuel' ps st) := by
  intro ps
  induction ps with
  | nil => intro st; exact Ref.refl _
  | cons p ps ih =>
    intro st
    unfold fetchAll
    split
    · exact ih _
    · simp only [bind_eq, pure_eq]
      refine Ref.bind (readCompressed_ref fuel fuel' hf p) ?_
      intro r
      cases r with
      | error e => exact Ref.refl _
      | ok cdata =>
        simp only
        refine Ref.bind (Ref.refl _) ?_
        intro d
        cases d with
        | none => exact Ref.refl _
        | some data =>
          simp only
          refine Ref.call ?_
          intro r
          split
          · exact Ref.refl _
          · refine Ref.call ?_
            intro r
            split
            · exact Ref.refl _
            · exact ih _

theorem inboundLoop_ref (c : Cfg) (fuel fuel' : Nat) (hf : fuel ≤ fuel') :
    ∀ (k k' : Nat) (props : List Proposal) (sum : Nat) (st : SState), k ≤ k' →
      Ref (inboundLoop c fuel k props sum st) (inboundLoop c fuel' k' props sum st) := by
  intro k
  induction k with
  | zero => intro k' _ _ _ _; exact Ref.fuel _
  | succ k ih =>
    intro k' props sum st hk
    cases k' with
    | zero => omega
    | succ k' =>
      unfold inboundLoop
      simp only [bind_eq, pure_eq]
      refine Ref.bind (nextLine_ref fuel fuel' hf) ?_
      intro r
      ref_walk (ih _ _ _ _ (by omega))

theorem handleInbound_ref (c : Cfg) (fuel fuel' : Nat) (hf : fuel ≤ fuel') (st : SState) :
    Ref (handleInbound c fuel st) (handleInbound c fuel' st) := by
  unfold handleInbound
  simp only [bind_eq, pure_eq]
  refine Ref.bind (inboundLoop_ref c fuel fuel' hf _ _ _ _ _ hf) ?_
  intro r
  cases r with
  | error e => exact Ref.refl _
  | ok v =>
    obtain ⟨quit, props, st'⟩ := v
    simp only
    exact Ref.bind (fetchAll_ref fuel fuel' hf _ _) (fun _ => Ref.refl _)

theorem turns_ref (c : Cfg) (fuel fuel' : Nat) (hf : fuel ≤ fuel') : ∀ (k k' : Nat) (myTurn : Bool) (st : SState),
    k ≤ k' → Ref (turns c fuel k myTurn st) (turns c fuel' k' myTurn st) := by
  intro k
  induction k with
  | zero => intro k' _ _ _; exact Ref.fuel _
  | succ k ih =>
    intro k' myTurn st hk
    cases k' with
    | zero => omega
    | succ k' =>
      unfold turns
      split
      · exact Ref.refl _
      · split
        · simp only [bind_eq, pure_eq]
          refine Ref.bind (handleOutbound_ref c fuel fuel' hf st) ?_
          intro r
          cases r with
          | error e => exact Ref.refl _
          | ok v => exact ih _ _ _ (by omega)
        · simp only [bind_eq, pure_eq]
          refine Ref.bind (handleInbound_ref c fuel fuel' hf st) ?_
          intro r
          obtain ⟨q, st', e⟩ := r
          cases e with
          | some e => exact Ref.refl _
          | none => exact ih _ _ _ (by omega)

/-- more fuel refines `Exchange` -/
theorem exchange_ref (c : Cfg) (fuel fuel' : Nat) (hf : fuel ≤ fuel') : Ref (exchange c fuel) (exchange c fuel') := by
  unfold exchange
  simp only [bind_eq]
  refine Ref.bind (Ref.refl _) ?_
  intro ok
  split
  · exact Ref.refl _
  · refine Ref.bind (handshake_ref c fuel fuel' hf) ?_
    intro r
    cases r with
    | error e => exact Ref.refl _
    | ok hs =>
      simp only
      exact Ref.bind (turns_ref c fuel fuel' hf _ _ _ _ hf) (fun _ => Ref.refl _)

end Wl2k.B2F
