import Wl2kVerif.Proofs.WholeDelivFinal
import Wl2kVerif.Proofs.WholeFinal
import Wl2kVerif.Proofs.WholeSentMon
/-
Generic tools for the accounting argument of `retry_converges` (`Props/C02_retry.lean`):
* `replay`: the reference handler's state is a function of the initial state and the trace — in every run
  (`run_replay`) and in every reachable state of every pair run (`pair_replay`); what `SetSent` / `ProcessInbound`
  calls in a trace do to outbox and inbox (`replay_outbox`, `replay_inbox`);
* `Still`: a trace without `SetSent` (either flag) and without `ProcessInbound`;
* `Acct`: the accounting of one direction of a session (rejections come from the receiver's policy, what was
  handed over are distinct queued messages the policy accepts).
-/
namespace Wl2k.B2F
open Wl2k

/-! ### the handler state as a function of the trace -/

/-- the effect of one event on the reference handler -/
def evStep (h : HState) : Ev → HState
  | .called c => (hstep h c).1
  | _ => h

/-- the reference handler after the events `evs` (newest first), started in `h` -/
def replay (h : HState) : List Ev → HState
  | [] => h
  | e :: es => evStep (replay h es) e

theorem replay_append (h : HState) (a b : List Ev) : replay h (a ++ b) = replay (replay h b) a := by
  induction a with
  | nil => rfl
  | cons e es ih => simp only [List.cons_append, replay, ih]

theorem run_replay {α : Type} (p : Proc α) : ∀ (J : Bytes) (h : HState) (tr : List Ev) (h0 : HState), h = replay h0 tr →
    (Proc.run hstep p J h tr).2.2.1 = replay h0 (Proc.run hstep p J h tr).2.2.2 := by
  induction p with
  | ret a => intro J h tr h0 hh; exact hh
  | readByte k ih =>
    intro J h tr h0 hh
    cases J with
    | nil => exact ih none [] h tr h0 hh
    | cons x t => exact ih (some x) t h tr h0 hh
  | peek k ih =>
    intro J h tr h0 hh
    cases J with
    | nil => exact ih none [] h tr h0 hh
    | cons x t => exact ih (some x) (x :: t) h _ h0 (by simp only [replay, evStep]; exact hh)
  | write bs k ih => intro J h tr h0 hh; exact ih J h _ h0 (by simp only [replay, evStep]; exact hh)
  | call c k ih =>
    intro J h tr h0 hh
    exact ih _ J _ _ h0 (by subst hh; rfl)
  | panic s => intro J h tr h0 hh; exact hh

/-- a run that starts with an empty trace ends in the replay of its trace -/
theorem run_replay_of_eq {α : Type} (p : Proc α) (J : Bytes) (h : HState) (res : Ended α) (J' : Bytes) (h' : HState)
    (evs : List Ev) (hr : Proc.run hstep p J h [] = (res, J', h', evs)) : h' = replay h evs := by
  have := run_replay p J h [] h rfl
  rw [hr] at this
  exact this

/-- … and one that starts with the trace `tr` in the replay of what it adds -/
theorem run_replay_of_eq' {α : Type} (p : Proc α) (J : Bytes) (h : HState) (tr : List Ev) (res : Ended α) (J' : Bytes)
    (h' : HState) (evs : List Ev) (hr : Proc.run hstep p J h tr = (res, J', h', evs ++ tr)) : h' = replay h evs := by
  rw [run_tr] at hr
  simp only [Prod.mk.injEq] at hr
  obtain ⟨_, _, h2, h3⟩ := hr
  have h4 : (Proc.run hstep p J h []).2.2.2 = evs := List.append_cancel_right h3
  have := run_replay p J h [] h rfl
  rw [h2, h4] at this
  exact this

/-- the events a run of a shaped program adds come from permitted nodes -/
theorem new_events_shape {α : Type} {E : Node → Prop} {p : Proc α} (hp : Shape E p) (J : Bytes) (h : HState)
    (tr : List Ev) (res : Ended α) (J' : Bytes) (h' : HState) (evs : List Ev)
    (hr : Proc.run hstep p J h tr = (res, J', h', evs ++ tr)) : ∀ e ∈ evs, E e.node := by
  rw [run_tr] at hr
  simp only [Prod.mk.injEq] at hr
  obtain ⟨_, _, _, h3⟩ := hr
  have h4 : (Proc.run hstep p J h []).2.2.2 = evs := List.append_cancel_right h3
  rw [← h4]
  exact run_shape hstep hp J h [] (by intro e he; cases he)

/-! ### in the pair system -/

theorem stepSelf_replay (h0 : HState) (a a' : Side) (g : Bool) (bs : Bytes) (hs : stepSelf a g = some (a', bs))
    (hh : a.h = replay h0 a.evs) : a'.h = replay h0 a'.evs := by
  unfold stepSelf stepSelfC at hs
  obtain ⟨proc, inq, got, limit, h, evs, ended⟩ := a
  simp only at hh hs
  cases proc with
  | ret r => simp only [Option.some.injEq, Prod.mk.injEq] at hs; obtain ⟨rfl, _⟩ := hs; exact hh
  | panic s => simp only [Option.some.injEq, Prod.mk.injEq] at hs; obtain ⟨rfl, _⟩ := hs; exact hh
  | write ws k =>
    simp only [Option.some.injEq, Prod.mk.injEq] at hs; obtain ⟨rfl, _⟩ := hs
    simp only [replay, evStep]; exact hh
  | call c k =>
    simp only [Option.some.injEq, Prod.mk.injEq] at hs; obtain ⟨rfl, _⟩ := hs
    subst hh; rfl
  | readByte k =>
    simp only at hs
    split at hs
    · simp only [Option.some.injEq, Prod.mk.injEq] at hs; obtain ⟨rfl, _⟩ := hs; exact hh
    · split at hs
      · simp only [Option.some.injEq, Prod.mk.injEq] at hs; obtain ⟨rfl, _⟩ := hs; exact hh
      · split at hs
        · simp only [Option.some.injEq, Prod.mk.injEq] at hs; obtain ⟨rfl, _⟩ := hs; exact hh
        · cases hs
  | peek k =>
    simp only at hs
    split at hs
    · simp only [Option.some.injEq, Prod.mk.injEq] at hs; obtain ⟨rfl, _⟩ := hs; exact hh
    · split at hs
      · simp only [Option.some.injEq, Prod.mk.injEq] at hs; obtain ⟨rfl, _⟩ := hs
        simp only [replay, evStep]; exact hh
      · split at hs
        · simp only [Option.some.injEq, Prod.mk.injEq] at hs; obtain ⟨rfl, _⟩ := hs; exact hh
        · cases hs

theorem recv_h (b : Side) (bs : Bytes) : (recv b bs).h = b.h := by
  unfold recv; split <;> rfl

/-- **In every reachable state of every pair run** (any schedule, any cut) **the reference handler's state is the
replay of the side's trace.** -/
theorem pairExec_replay (hA hB : HState) {s t : Side × Side} {n : Nat} (he : PairExec s n t)
    (ia : s.1.h = replay hA s.1.evs) (ib : s.2.h = replay hB s.2.evs) :
    t.1.h = replay hA t.1.evs ∧ t.2.h = replay hB t.2.evs := by
  induction he with
  | refl s => exact ⟨ia, ib⟩
  | cons i s s' n t hs _ ih =>
    obtain ⟨a, b⟩ := s
    cases i with
    | false =>
      simp only [pairStep] at hs
      obtain ⟨_, a₁, x, hsa, rfl⟩ := moveSide_some a b s' hs
      exact ih (stepSelf_replay hA a a₁ _ x hsa ia) (by rw [recv_h, recv_evs]; exact ib)
    | true =>
      simp only [pairStep] at hs
      cases e2 : moveSide b a with
      | none => rw [e2] at hs; simp at hs
      | some u =>
        rw [e2] at hs
        simp only [Option.map_some, Option.some.injEq] at hs
        subst hs
        obtain ⟨_, b₁, y, hsb, rfl⟩ := moveSide_some b a u e2
        exact ih (by simp only [Prod.swap]; rw [recv_h, recv_evs]; exact ia) (stepSelf_replay hB b b₁ _ y hsb ib)

theorem pair_replay (PA PB : Proc Result) (hA hB : HState) (limA limB : Option Nat) {n : Nat} {t : Side × Side}
    (he : PairExec (initPair PA PB hA hB limA limB) n t) :
    t.1.h = replay hA t.1.evs ∧ t.2.h = replay hB t.2.evs :=
  pairExec_replay hA hB he rfl rfl

/-! ### what a trace does to outbox, inbox and policy -/

/-- the MIDs of the `SetSent` calls (either flag) of a trace, in call order -/
def repOf (evs : List Ev) : List Bytes :=
  evs.reverse.filterMap fun e => match e with
    | .called (.setSent m _) => some m
    | _ => none

theorem repOf_cons (e : Ev) (tr : List Ev) :
    repOf (e :: tr) = repOf tr ++ (match e with | .called (.setSent m _) => [m] | _ => []) := by
  unfold repOf
  rw [List.reverse_cons, List.filterMap_append]
  congr 1
  cases e with
  | called c => cases c <;> rfl
  | _ => rfl

theorem mem_repOf (evs : List Ev) (m : Bytes) : m ∈ repOf evs ↔ ∃ r, Ev.called (.setSent m r) ∈ evs := by
  induction evs with
  | nil => simp [repOf]
  | cons e t ih =>
    rw [repOf_cons, List.mem_append, ih]
    constructor
    · rintro (⟨r, hr⟩ | hm)
      · exact ⟨r, List.mem_cons_of_mem _ hr⟩
      · cases e with
        | called c =>
          cases c with
          | setSent m' r' =>
            simp only [List.mem_singleton] at hm
            subst hm
            exact ⟨r', List.mem_cons_self⟩
          | _ => cases hm
        | _ => cases hm
    · rintro ⟨r, hr⟩
      rcases List.mem_cons.mp hr with h | h
      · subst h; exact Or.inr (by simp)
      · exact Or.inl ⟨r, h⟩

theorem replay_policy (h : HState) (evs : List Ev) : (replay h evs).policy = h.policy := by
  induction evs with
  | nil => rfl
  | cons e t ih =>
    simp only [replay]
    cases e with
    | called c => cases c <;> simpa [evStep, hstep] using ih
    | _ => exact ih

theorem replay_failAt (h : HState) (evs : List Ev) : (replay h evs).failAt = h.failAt := by
  induction evs with
  | nil => rfl
  | cons e t ih =>
    simp only [replay]
    cases e with
    | called c => cases c <;> simpa [evStep, hstep] using ih
    | _ => exact ih

/-- the outbox after a trace: what was queued, minus the MIDs `SetSent` was called for -/
theorem replay_outbox (h : HState) (evs : List Ev) :
    (replay h evs).outbox = h.outbox.filter fun msg => !(repOf evs).contains msg.mid := by
  induction evs with
  | nil => simp [replay, repOf, filter_const_true]
  | cons e t ih =>
    simp only [replay, repOf_cons]
    cases e with
    | called c =>
      cases c with
      | setSent m r =>
        simp only [evStep, hstep, ih, List.filter_filter]
        apply List.filter_congr
        intro msg _
        by_cases h1 : msg.mid ∈ repOf t <;> by_cases h2 : msg.mid = m <;> simp [h1, h2]
      | _ => simpa [evStep, hstep] using ih
    | _ => simpa [evStep] using ih

/-- the inbox after a trace when no storage error is configured: the payloads of the `ProcessInbound` calls -/
theorem replay_inbox (h : HState) (hf : h.failAt = none) (evs : List Ev) :
    (replay h evs).inbox = h.inbox ++ procOf evs := by
  induction evs with
  | nil => simp [replay, procOf]
  | cons e t ih =>
    simp only [replay, procOf_cons]
    cases e with
    | called c =>
      cases c with
      | processInbound d =>
        have hf' : (replay h t).failAt = none := by rw [replay_failAt, hf]
        simp [evStep, hstep, hf', ih]
      | _ => simpa [evStep, hstep] using ih
    | _ => simpa [evStep] using ih

theorem replay_outbox_sublist (h : HState) (evs : List Ev) : (replay h evs).outbox.Sublist h.outbox := by
  rw [replay_outbox]; exact List.filter_sublist

theorem replay_hle (h : HState) (evs : List Ev) : HLe (replay h evs) h := by
  induction evs with
  | nil => exact HLe.refl h
  | cons e t ih =>
    simp only [replay]
    cases e with
    | called c => exact (hstep_hle _ c).trans ih
    | _ => exact ih

/-! ### quiet traces -/

/-- nodes other than `SetSent` and `ProcessInbound` calls -/
def QuietN : Node → Prop
  | .call (.setSent _ _) => False
  | .call (.processInbound _) => False
  | _ => True

/-- a trace without `SetSent` (either flag) and without `ProcessInbound` -/
def Still (evs : List Ev) : Prop := ∀ e ∈ evs, QuietN e.node

theorem still_nil : Still [] := fun _ he => by cases he

theorem still_append {a b : List Ev} (ha : Still a) (hb : Still b) : Still (a ++ b) := by
  intro e he
  rcases List.mem_append.mp he with h | h
  · exact ha e h
  · exact hb e h

theorem Still.of_suffix {a b : List Ev} (hb : Still b) (hs : a <:+ b) : Still a := fun e he => hb e (hs.subset he)

theorem still_cons {e : Ev} {a : List Ev} (he : QuietN e.node) (ha : Still a) : Still (e :: a) := by
  intro x hx
  rcases List.mem_cons.mp hx with rfl | h
  · exact he
  · exact ha x h

theorem Still.noSent {evs : List Ev} (h : Still evs) (m : Bytes) (r : Bool) : Ev.called (.setSent m r) ∉ evs :=
  fun hm => h _ hm

theorem Still.noProc {evs : List Ev} (h : Still evs) (d : Bytes) : Ev.called (.processInbound d) ∉ evs :=
  fun hm => h _ hm

/-- no `ProcessInbound` in the trace -/
def NoProc (evs : List Ev) : Prop := ∀ d, Ev.called (.processInbound d) ∉ evs

/-- no `SetSent` (either flag) in the trace -/
def NoSent (evs : List Ev) : Prop := ∀ m r, Ev.called (.setSent m r) ∉ evs

theorem Still.toNoProc {evs : List Ev} (h : Still evs) : NoProc evs := h.noProc
theorem Still.toNoSent {evs : List Ev} (h : Still evs) : NoSent evs := h.noSent

theorem NoProc.of_suffix {a b : List Ev} (hb : NoProc b) (hs : a <:+ b) : NoProc a := fun d hd => hb d (hs.subset hd)
theorem NoSent.of_suffix {a b : List Ev} (hb : NoSent b) (hs : a <:+ b) : NoSent a := fun m r hd => hb m r (hs.subset hd)

theorem noProc_append {a b : List Ev} (ha : NoProc a) (hb : NoProc b) : NoProc (a ++ b) := by
  intro d hd
  rcases List.mem_append.mp hd with h | h
  · exact ha d h
  · exact hb d h

theorem noSent_append {a b : List Ev} (ha : NoSent a) (hb : NoSent b) : NoSent (a ++ b) := by
  intro m r hd
  rcases List.mem_append.mp hd with h | h
  · exact ha m r h
  · exact hb m r h

theorem procOf_append (a b : List Ev) : procOf (a ++ b) = procOf b ++ procOf a := by
  unfold procOf
  rw [List.reverse_append, List.filterMap_append]

theorem procOf_eq_nil {evs : List Ev} (h : NoProc evs) : procOf evs = [] := by
  induction evs with
  | nil => rfl
  | cons e t ih =>
    rw [procOf_cons, ih (fun d hd => h d (List.mem_cons_of_mem _ hd)), List.nil_append]
    cases e with
    | called c =>
      cases c with
      | processInbound d => exact absurd List.mem_cons_self (h d)
      | _ => rfl
    | _ => rfl

theorem mem_procOf (evs : List Ev) (d : Bytes) : d ∈ procOf evs ↔ Ev.called (.processInbound d) ∈ evs := by
  induction evs with
  | nil => simp [procOf]
  | cons e t ih =>
    rw [procOf_cons, List.mem_append, ih]
    constructor
    · rintro (h | h)
      · exact List.mem_cons_of_mem _ h
      · cases e with
        | called c =>
          cases c with
          | processInbound d' =>
            simp only [List.mem_singleton] at h
            subst h
            exact List.mem_cons_self
          | _ => cases h
        | _ => cases h
    · intro h
      rcases List.mem_cons.mp h with h | h
      · subst h; exact Or.inr (by simp)
      · exact Or.inl h

/-- the earlier part of a trace has handed over an initial segment of what the whole trace has -/
theorem procOf_prefix_of_suffix {a b : List Ev} (hs : a <:+ b) : procOf a <+: procOf b := by
  obtain ⟨pre, rfl⟩ := hs
  rw [procOf_append]
  exact List.prefix_append _ _

theorem procOf_deliverEvs (ds : List Bytes) : procOf (deliverEvs ds) = ds := by
  induction ds with
  | nil => rfl
  | cons d t ih =>
    rw [deliverEvs_cons, procOf_append, ih]
    simp [procOf]

/-! ### the inbox along a trace -/

theorem evStep_inbox_mono (h : HState) (e : Ev) : ∀ d ∈ h.inbox, d ∈ (evStep h e).inbox := by
  intro d hd
  cases e with
  | called c =>
    cases c with
    | processInbound x =>
      simp only [evStep, hstep]
      split
      · exact hd
      · exact List.mem_append_left _ hd
    | _ => exact hd
  | _ => exact hd

/-- the inbox only grows -/
theorem replay_inbox_mono (h : HState) (a b : List Ev) : ∀ d ∈ (replay h b).inbox, d ∈ (replay h (a ++ b)).inbox := by
  induction a with
  | nil => intro d hd; exact hd
  | cons e t ih => intro d hd; exact evStep_inbox_mono _ e d (ih d hd)

/-- what is stored along a trace is a sub-list of what was handed over (a storage error drops a payload) -/
theorem replay_inbox_sub (h : HState) (evs : List Ev) :
    ∃ l, (replay h evs).inbox = h.inbox ++ l ∧ l.Sublist (procOf evs) := by
  induction evs with
  | nil => exact ⟨[], by simp [replay], by simp [procOf]⟩
  | cons e t ih =>
    obtain ⟨l, h1, h2⟩ := ih
    simp only [replay, procOf_cons]
    cases e with
    | called c =>
      cases c with
      | processInbound d =>
        simp only [evStep, hstep]
        split
        · exact ⟨l, h1, h2.trans (List.sublist_append_left _ _)⟩
        · exact ⟨l ++ [d], by rw [h1, List.append_assoc], List.Sublist.append h2 (List.Sublist.refl _)⟩
      | _ => exact ⟨l, by simpa [evStep, hstep] using h1, by simpa using h2⟩
    | _ => exact ⟨l, by simpa [evStep] using h1, by simpa using h2⟩

/-- the part of the handler state that determines how the inbox evolves -/
def inboxKey (h : HState) : List Bytes × Option Nat × Nat := (h.inbox, h.failAt, h.nProcessed)

theorem evStep_key (h1 h2 : HState) (e : Ev) (hk : inboxKey h1 = inboxKey h2) : inboxKey (evStep h1 e) = inboxKey (evStep h2 e) := by
  simp only [inboxKey, Prod.mk.injEq] at hk
  obtain ⟨k1, k2, k3⟩ := hk
  cases e with
  | called c => cases c <;> simp [evStep, hstep, inboxKey, k1, k2, k3]
  | _ => simp [evStep, inboxKey, k1, k2, k3]

theorem replay_key (h1 h2 : HState) (evs : List Ev) (hk : inboxKey h1 = inboxKey h2) :
    inboxKey (replay h1 evs) = inboxKey (replay h2 evs) := by
  induction evs with
  | nil => exact hk
  | cons e t ih => exact evStep_key _ _ e ih

theorem replay_key_of_noProc (h : HState) (evs : List Ev) (hn : NoProc evs) : inboxKey (replay h evs) = inboxKey h := by
  induction evs with
  | nil => rfl
  | cons e t ih =>
    have ht := ih (fun d hd => hn d (List.mem_cons_of_mem _ hd))
    simp only [replay]
    cases e with
    | called c =>
      cases c with
      | processInbound d => exact absurd List.mem_cons_self (hn d)
      | _ => simpa [evStep, hstep, inboxKey] using ht
    | _ => simpa [evStep, inboxKey] using ht

/-- a part of a trace without `ProcessInbound` does not matter for the inbox -/
theorem replay_inbox_skip (h : HState) (a b b' : List Ev) (hb : NoProc b) (hb' : NoProc b') :
    (replay h (a ++ b)).inbox = (replay h (a ++ b')).inbox := by
  rw [replay_append, replay_append]
  have := replay_key (replay h b) (replay h b') a ((replay_key_of_noProc h b hb).trans (replay_key_of_noProc h b' hb').symm)
  simp only [inboxKey, Prod.mk.injEq] at this
  exact this.1

theorem replay_deliverEvs (h : HState) (ds : List Bytes) : replay h (deliverEvs ds) = ds.foldl (deliverStep hstep) h := by
  induction ds generalizing h with
  | nil => rfl
  | cons d t ih =>
    rw [deliverEvs_cons, replay_append, List.foldl_cons, ← ih]
    rfl

theorem foldl_deliver_inbox_mono (ds : List Bytes) : ∀ (h : HState), ∀ d ∈ h.inbox, d ∈ (ds.foldl (deliverStep hstep) h).inbox := by
  intro h d hd
  rw [← replay_deliverEvs]
  have := replay_inbox_mono h (deliverEvs ds) [] d hd
  rwa [List.append_nil] at this

/-- deliveries that all succeeded are all stored -/
theorem allOK_stored : ∀ (ds : List Bytes) (h : HState), AllOK hstep h ds → ∀ d ∈ ds, d ∈ (ds.foldl (deliverStep hstep) h).inbox
  | [], _, _, d, hd => by cases hd
  | x :: t, h, hall, d, hd => by
    obtain ⟨⟨_, o2⟩, hall'⟩ := hall
    rw [List.foldl_cons]
    rcases List.mem_cons.mp hd with rfl | hd
    · apply foldl_deliver_inbox_mono
      unfold deliverStep
      generalize (hstep h (.parseMessage d)).1 = h2 at o2 ⊢
      by_cases hf : h2.failAt = some h2.nProcessed
      · simp [hstep, hf, Reply.isErr] at o2
      · simp [hstep, hf]
    · exact allOK_stored t _ hall' d hd

/-! ### the accounting of one direction -/

/-- every `SetSent(m, true)` of the sender's trace is the MID of a queued message the receiver's policy rejects -/
def RejOK (hS hR : HState) (eS : List Ev) : Prop :=
  ∀ m, Ev.called (.setSent m true) ∈ eS → ∃ msg ∈ hS.outbox, msg.mid = m ∧ hR.answerFor m = ansReject

/-- what the receiver's handler was handed, in order, are the bytes of distinct queued messages of the sender
that the receiver's policy accepts -/
def ProcOK (hS hR : HState) (eR : List Ev) : Prop :=
  ∃ L : List OutMsg, procOf eR = L.map (·.data) ∧ (∀ msg ∈ L, msg ∈ hS.outbox ∧ hR.answerFor msg.mid = ansAccept) ∧
    (L.map (·.mid)).Nodup

/-- the `SetSent` calls (either flag) of the sender's trace are for DISTINCT MIDs, each the MID of a queued message -/
def RepOK (hS : HState) (eS : List Ev) : Prop := (repOf eS).Nodup ∧ ∀ m ∈ repOf eS, m ∈ hS.outbox.map (·.mid)

/-- every `SetSent(m, false)` of the sender's trace is the MID of a queued message whose bytes the receiver's handler
has STORED (they are in its inbox; `replay hR eR` = its state after the trace `eR`) — not merely been handed -/
def Stored (hS hR : HState) (eS eR : List Ev) : Prop :=
  ∀ m, Ev.called (.setSent m false) ∈ eS → ∃ msg ∈ hS.outbox, msg.mid = m ∧ msg.data ∈ (replay hR eR).inbox

def Acct (hS hR : HState) (eS eR : List Ev) : Prop := RejOK hS hR eS ∧ ProcOK hS hR eR ∧ RepOK hS eS ∧ Stored hS hR eS eR

theorem Stored.of_noConf {hS hR : HState} {eS eR : List Ev} (h : NoConf eS) : Stored hS hR eS eR :=
  fun m hm => (h m hm).elim

theorem NoSent.toNoConf {evs : List Ev} (h : NoSent evs) : NoConf evs := fun m hm => h m false hm

theorem repOf_append (a b : List Ev) : repOf (a ++ b) = repOf b ++ repOf a := by
  unfold repOf
  rw [List.reverse_append, List.filterMap_append]

theorem repOf_eq_nil {evs : List Ev} (h : NoSent evs) : repOf evs = [] := by
  cases hr : repOf evs with
  | nil => rfl
  | cons m t =>
    exfalso
    have : m ∈ repOf evs := by rw [hr]; exact List.mem_cons_self
    obtain ⟨r, hm⟩ := (mem_repOf evs m).mp this
    exact h m r hm

theorem repOf_prefix_of_suffix {a b : List Ev} (hs : a <:+ b) : repOf a <+: repOf b := by
  obtain ⟨pre, rfl⟩ := hs
  rw [repOf_append]
  exact List.prefix_append _ _

theorem RejOK.of_noSent {hS hR : HState} {eS : List Ev} (h : NoSent eS) : RejOK hS hR eS :=
  fun m hm => (h m true hm).elim

theorem ProcOK.of_noProc {hS hR : HState} {eR : List Ev} (h : NoProc eR) : ProcOK hS hR eR :=
  ⟨[], by rw [procOf_eq_nil h]; rfl, (by intro m hm; cases hm), List.nodup_nil⟩

theorem RepOK.of_noSent {hS : HState} {eS : List Ev} (h : NoSent eS) : RepOK hS eS := by
  rw [RepOK, repOf_eq_nil h]
  exact ⟨List.nodup_nil, by intro m hm; cases hm⟩

theorem RepOK.of_suffix {hS : HState} {a b : List Ev} (h : RepOK hS b) (hs : a <:+ b) : RepOK hS a :=
  ⟨(repOf_prefix_of_suffix hs).sublist.nodup h.1, fun m hm => h.2 m ((repOf_prefix_of_suffix hs).subset hm)⟩

theorem Acct.of_quiet {hS hR : HState} {eS eR : List Ev} (h1 : NoSent eS) (h2 : NoProc eR) : Acct hS hR eS eR :=
  ⟨RejOK.of_noSent h1, ProcOK.of_noProc h2, RepOK.of_noSent h1, Stored.of_noConf h1.toNoConf⟩

theorem prefix_map_take {α β : Type} (f : α → β) : ∀ (L : List α) (l : List β), l <+: L.map f → l = (L.take l.length).map f
  | _, [], _ => by simp
  | [], _ :: _, h => by simp at h
  | a :: L, b :: l, h => by
    simp only [List.map_cons] at h
    obtain ⟨h1, h2⟩ := List.cons_prefix_cons.mp h
    simp only [List.length_cons, List.take_succ_cons, List.map_cons, h1]
    congr 1
    exact prefix_map_take f L l h2

/-- what was handed over is an initial segment of the bytes of a list of distinct acceptable queued messages -/
theorem ProcOK.of_prefix {hS hR : HState} {eR : List Ev} (L : List OutMsg) (hp : procOf eR <+: L.map (·.data))
    (hL : ∀ msg ∈ L, msg ∈ hS.outbox ∧ hR.answerFor msg.mid = ansAccept) (hnd : (L.map (·.mid)).Nodup) :
    ProcOK hS hR eR :=
  ⟨L.take (procOf eR).length, prefix_map_take _ L _ hp, fun msg hm => hL msg (List.mem_of_mem_take hm),
    ((List.take_sublist _ _).map _).nodup hnd⟩

end Wl2k.B2F
