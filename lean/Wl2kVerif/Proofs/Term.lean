import Wl2kVerif.Proofs.SessionSafe
import Wl2kVerif.Proofs.Run
import Wl2kVerif.Proofs.TermTrim
/-
Termination of the session program: the artificial `panic "fuel"` node is unreachable when the fuel is
large enough relative to the number of input bytes, because every loop iteration consumes input (or ends
the loop).  `NF p n Q`: run on ANY input of exactly `n` remaining bytes and ANY handler replies, `p`
never reaches `panic "fuel"`, and if it returns `a` with `m` bytes remaining then `Q a m`.
-/
namespace Wl2k.B2F
open Wl2k Wl2k.Str Wl2k.Strconv

def NF {α : Type} : Proc α → Nat → (α → Nat → Prop) → Prop
  | .ret a, n, Q => Q a n
  | .readByte k, n, Q => (n = 0 → NF (k none) 0 Q) ∧ (∀ b, 0 < n → NF (k (some b)) (n - 1) Q)
  | .peek k, n, Q => (n = 0 → NF (k none) 0 Q) ∧ (∀ b, 0 < n → NF (k (some b)) n Q)
  | .write _ k, n, Q => NF k n Q
  | .call _ k, n, Q => ∀ r, NF (k r) n Q
  | .panic s, _, _ => s ≠ "fuel"

theorem NF.mono {α : Type} {p : Proc α} : ∀ {n : Nat} {Q Q' : α → Nat → Prop},
    NF p n Q → (∀ a m, Q a m → Q' a m) → NF p n Q' := by
  induction p with
  | ret a => intro n Q Q' h hq; exact hq _ _ h
  | readByte k ih =>
    intro n Q Q' h hq
    exact ⟨fun h0 => ih none (h.1 h0) hq, fun b hb => ih (some b) (h.2 b hb) hq⟩
  | peek k ih =>
    intro n Q Q' h hq
    exact ⟨fun h0 => ih none (h.1 h0) hq, fun b hb => ih (some b) (h.2 b hb) hq⟩
  | write bs k ih => intro n Q Q' h hq; exact ih h hq
  | call c k ih => intro n Q Q' h hq r; exact ih r (h r) hq
  | panic s => intro n Q Q' h _; exact h

theorem NF.bind {α β : Type} {p : Proc α} {f : α → Proc β} : ∀ {n : Nat} {Q' : α → Nat → Prop} {Q : β → Nat → Prop},
    NF p n Q' → (∀ a m, Q' a m → NF (f a) m Q) → NF (Proc.bind p f) n Q := by
  induction p with
  | ret a => intro n Q' Q h hf; exact hf _ _ h
  | readByte k ih =>
    intro n Q' Q h hf
    exact ⟨fun h0 => ih none (h.1 h0) hf, fun b hb => ih (some b) (h.2 b hb) hf⟩
  | peek k ih =>
    intro n Q' Q h hf
    exact ⟨fun h0 => ih none (h.1 h0) hf, fun b hb => ih (some b) (h.2 b hb) hf⟩
  | write bs k ih => intro n Q' Q h hf; exact ih h hf
  | call c k ih => intro n Q' Q h hf r; exact ih r (h r) hf
  | panic s => intro n Q' Q h _; exact h

/-- soundness of `NF` for `Proc.run` -/
theorem run_nf {α H : Type} (hstep : H → Call → H × Reply) {p : Proc α} :
    ∀ {Q : α → Nat → Prop} (inp : Bytes) (h : H) (tr : List Ev), NF p inp.length Q →
      match (Proc.run hstep p inp h tr) with
      | (.done a, inp', _) => Q a inp'.length
      | (.panicked s, _) => s ≠ "fuel"
      | (.blocked, _) => True := by
  induction p with
  | ret a => intro Q inp h tr hn; simp only [Proc.run]; exact hn
  | readByte k ih =>
    intro Q inp h tr hn
    cases inp with
    | nil => simp only [Proc.run]; exact ih none [] h tr (hn.1 rfl)
    | cons b t =>
      simp only [Proc.run]
      exact ih (some b) t h tr (by simpa using hn.2 b (by simp))
  | peek k ih =>
    intro Q inp h tr hn
    cases inp with
    | nil => simp only [Proc.run]; exact ih none [] h tr (hn.1 rfl)
    | cons b t =>
      simp only [Proc.run]
      exact ih (some b) (b :: t) h _ (hn.2 b (by simp))
  | write bs k ih => intro Q inp h tr hn; simp only [Proc.run]; exact ih inp h _ hn
  | call c k ih => intro Q inp h tr hn; simp only [Proc.run]; exact ih _ inp _ _ (hn _)
  | panic s => intro Q inp h tr hn; simp only [Proc.run]; exact hn

/-! ### introduction rules -/

theorem NF.ret {α : Type} {a : α} {n : Nat} {Q : α → Nat → Prop} (h : Q a n) : NF (.ret a) n Q := h
theorem NF.readByte {α : Type} {k : Option UInt8 → Proc α} {n : Nat} {Q : α → Nat → Prop}
    (h0 : n = 0 → NF (k none) 0 Q) (h1 : ∀ b, 0 < n → NF (k (some b)) (n - 1) Q) : NF (.readByte k) n Q := ⟨h0, h1⟩
theorem NF.peek {α : Type} {k : Option UInt8 → Proc α} {n : Nat} {Q : α → Nat → Prop}
    (h0 : n = 0 → NF (k none) 0 Q) (h1 : ∀ b, 0 < n → NF (k (some b)) n Q) : NF (.peek k) n Q := ⟨h0, h1⟩
theorem NF.write {α : Type} {bs : Bytes} {k : Proc α} {n : Nat} {Q : α → Nat → Prop}
    (h : NF k n Q) : NF (.write bs k) n Q := h
theorem NF.call {α : Type} {c : Call} {k : Reply → Proc α} {n : Nat} {Q : α → Nat → Prop}
    (h : ∀ r, NF (k r) n Q) : NF (.call c k) n Q := h
theorem NF.panic {α : Type} {s : String} {n : Nat} {Q : α → Nat → Prop} (h : s ≠ "fuel") : NF (.panic s : Proc α) n Q := h

/-- the postcondition of the line readers: an `.ok` result has consumed at least one byte -/
def okLt {α : Type} (n : Nat) (r : Except SErr α) (m : Nat) : Prop :=
  match r with
  | .ok _ => m < n
  | .error _ => m ≤ n

theorem okLt.le {α : Type} {n m : Nat} {r : Except SErr α} (h : okLt n r m) : m ≤ n := by
  cases r <;> simp only [okLt] at h <;> omega

theorem okLt.mono {α β : Type} {n n' m : Nat} {r : Except SErr α} {r' : Except SErr β}
    (h : okLt n r m) (hn : n ≤ n') (hr : ∀ x, r' = .ok x → ∃ y, r = .ok y) : okLt n' r' m := by
  cases r' with
  | error e => have := h.le; simp only [okLt]; omega
  | ok x =>
    obtain ⟨y, rfl⟩ := hr x rfl
    simp only [okLt] at h ⊢; omega

/-! ### the session, function by function -/

theorem readString_nf (delim : UInt8) : ∀ (fuel : Nat) (n : Nat) (acc : Bytes), n < fuel →
    NF (readString delim fuel acc) n (fun r m => m ≤ n ∧
      (r.2 = false → m < n ∧ r.1.length = acc.length + (n - m) ∧ r.1.getLast? = some delim)) := by
  intro fuel
  induction fuel with
  | zero => intro n acc h; omega
  | succ fuel ih =>
    intro n acc hf
    unfold readString
    refine NF.readByte ?_ ?_
    · intro h0; exact NF.ret ⟨by omega, by simp⟩
    · intro b hb
      simp only
      split
      · rename_i hbd
        refine NF.ret ⟨by omega, fun _ => ⟨by omega, ?_, ?_⟩⟩
        · simp only [List.length_reverse, List.length_cons]; omega
        · simp only [List.getLast?_reverse, List.head?_cons, hbd]
      · refine NF.mono (ih (n - 1) _ (by omega)) ?_
        intro r m h
        refine ⟨by omega, fun e => ?_⟩
        have := h.2 e
        simp only [List.length_cons] at this
        exact ⟨by omega, by omega, this.2.2⟩

/-- postcondition of `nextLine`: an `.ok` line has consumed its own (cleaned) length plus the CR -/
def lineLt (n : Nat) (r : Except SErr Bytes) (m : Nat) : Prop :=
  match r with
  | .ok line => m + line.length + 1 ≤ n
  | .error _ => m ≤ n

theorem lineLt.toOk {n m : Nat} {r : Except SErr Bytes} (h : lineLt n r m) : okLt n r m := by
  cases r <;> simp only [lineLt, okLt] at h ⊢ <;> omega

theorem nextLineRemoteErr_nf_len (pe : Bool) (fuel n : Nat) (hf : n < fuel) :
    NF (nextLineRemoteErr pe fuel) n (lineLt n) := by
  unfold nextLineRemoteErr
  simp only [bind_eq, pure_eq]
  refine NF.bind (readString_nf 13 fuel n [] hf) ?_
  intro a m h
  obtain ⟨line, eof⟩ := a
  simp only [cleanStringC_eq, errLineC_eq]
  split
  · exact NF.ret (by simp only [lineLt]; omega)
  · rename_i he
    obtain ⟨hm, hlen, hlast⟩ := h.2 (by simpa using he)
    simp only [List.length_nil] at hlen hlast
    have hc := cleanString_cr line hlast
    split
    · cases errLine (cleanString line) <;> exact NF.ret (by simp only [lineLt]; omega)
    · exact NF.ret (by simp only [lineLt]; omega)

theorem nextLine_nf_len (fuel n : Nat) (hf : n < fuel) : NF (nextLine fuel) n (lineLt n) :=
  nextLineRemoteErr_nf_len true fuel n hf

theorem nextLineRemoteErr_nf (pe : Bool) (fuel n : Nat) (hf : n < fuel) :
    NF (nextLineRemoteErr pe fuel) n (okLt n) :=
  NF.mono (nextLineRemoteErr_nf_len pe fuel n hf) (fun _ _ h => h.toOk)

theorem nextLine_nf (fuel n : Nat) (hf : n < fuel) : NF (nextLine fuel) n (okLt n) := nextLineRemoteErr_nf true fuel n hf

theorem readHandshake_nf (master : Bool) (fuel : Nat) : ∀ (k n : Nat) (data : HsData), n < fuel → n < k →
    NF (readHandshake master fuel k data) n
      (fun r m => m ≤ n ∧ (∀ d, r = .ok d → m < n ∨ d.sid = data.sid)) := by
  intro k
  induction k with
  | zero => intro n data _ h; omega
  | succ k ih =>
    intro n data hf hk
    have next : ∀ m d, m < n → NF (readHandshake master fuel k d) m
        (fun r m => m ≤ n ∧ (∀ d, r = .ok d → m < n ∨ d.sid = data.sid)) := fun m d hm =>
      NF.mono (ih m d (by omega) (by omega)) (fun _ m' h => ⟨by omega, fun _ _ => Or.inl (by omega)⟩)
    have err : ∀ (e : SErr) m, m ≤ n → NF (Proc.ret (Except.error e : Except SErr HsData)) m
        (fun r m => m ≤ n ∧ (∀ d, r = .ok d → m < n ∨ d.sid = data.sid)) := fun e m hm =>
      NF.ret ⟨hm, fun _ h => by cases h⟩
    unfold readHandshake
    refine NF.peek (fun _ => err _ _ (by omega)) ?_
    intro b hb
    simp only
    split
    · exact NF.ret ⟨Nat.le_refl _, fun d h => by cases h; exact Or.inr rfl⟩
    · simp only [bind_eq, pure_eq]
      refine NF.bind (nextLineRemoteErr_nf false fuel n hf) ?_
      intro r m hr
      cases r with
      | error e => exact err _ _ hr.le
      | ok line =>
        have hm : m < n := hr
        have hle : m ≤ n := by omega
        simp only [parseFWC_eq, challengeC_eq]
        split
        · cases parseSID line with
          | none => exact err _ _ hle
          | some sid =>
            simp only
            split
            · exact err _ _ hle
            · exact next _ _ hm
        · split
          · cases parseFW line with
            | none => exact err _ _ hle
            | some fw => exact next _ _ hm
          · split
            · by_cases h5 : line.length < 5
              · simp only [h5, if_true]; exact err _ _ hle
              · simp only [h5, if_false]; exact next _ _ hm
            · split
              · exact NF.ret ⟨hle, fun _ _ => Or.inl hm⟩
              · exact next _ _ hm

/-- postcondition of the programs that do not read: the input is untouched -/
abbrev Same {α : Type} (n : Nat) : α → Nat → Prop := fun _ m => m = n

theorem askPasswords_nf (c : Cfg) (ch : Bytes) (n : Nat) : ∀ (is : List Nat) (acc : List CbView),
    NF (askPasswords c ch is acc) n (Same n) := by
  intro is
  induction is with
  | nil => intro acc; exact NF.ret rfl
  | cons i is ih =>
    intro acc
    unfold askPasswords
    refine NF.call ?_
    intro r
    cases r <;> exact ih _

theorem sendHandshakeP_nf (c : Cfg) (ch : Bytes) (n : Nat) : NF (sendHandshakeP c ch) n (Same n) := by
  unfold sendHandshakeP
  split
  · exact NF.ret rfl
  · split
    · cases sendHandshakeV c.hs ch [] with
      | none => exact NF.ret rfl
      | some bs => exact NF.write (NF.ret rfl)
    · simp only [bind_eq]
      refine NF.bind (askPasswords_nf c ch n _ _) ?_
      intro aux m hm
      cases hm
      refine NF.bind (askPasswords_nf c ch n _ _) ?_
      intro main m hm
      cases hm
      cases sendHandshakeV c.hs ch (main ++ aux) with
      | none => exact NF.ret rfl
      | some bs => exact NF.write (NF.ret rfl)

theorem writeLines_nf (n : Nat) : ∀ (ls : List Bytes), NF (writeLines ls) n (Same n) := by
  intro ls
  induction ls with
  | nil => exact NF.ret rfl
  | cons l ls ih => exact NF.write ih

theorem handshake_tail_nf (c : Cfg) (fuel n : Nat) (hf : n < fuel) :
    NF ((readHandshake c.hs.master fuel fuel { }).bind fun r =>
      match r with
      | Except.error e => Proc.ret (Except.error e)
      | Except.ok hs =>
        if List.isEmpty hs.sid = true then Proc.ret (Except.error (SErr.proto "no-sid"))
        else
          if (!c.hs.master) = true then
            (sendHandshakeP c hs.challenge).bind fun r =>
              match r with
              | Except.error e => Proc.ret (Except.error e)
              | Except.ok PUnit.unit => Proc.ret (Except.ok hs)
          else Proc.ret (Except.ok hs)) n (okLt n) := by
  refine NF.bind (readHandshake_nf _ _ _ _ _ hf hf) ?_
  intro r m hm
  cases r with
  | error e => exact NF.ret hm.1
  | ok hs =>
    simp only
    split
    · exact NF.ret hm.1
    · rename_i hsid
      have hlt : m < n := by
        rcases hm.2 hs rfl with h | h
        · exact h
        · exact absurd (by rw [h]; rfl) hsid
      split
      · refine NF.bind (sendHandshakeP_nf _ _ m) ?_
        intro r m' hm'
        cases hm'
        cases r
        · exact NF.ret hm.1
        · exact NF.ret hlt
      · exact NF.ret hlt

/-- a successful handshake has consumed input (it has seen the remote's SID line) -/
theorem handshake_nf (c : Cfg) (fuel n : Nat) (hf : n < fuel) : NF (handshake c fuel) n (okLt n) := by
  unfold handshake
  simp only [bind_eq, pure_eq]
  split
  · refine NF.bind (writeLines_nf n _) ?_
    intro _ m hm
    cases hm
    refine NF.bind (sendHandshakeP_nf _ _ n) ?_
    intro r m hm
    cases hm
    cases r with
    | error e => exact NF.ret (Nat.le_refl _)
    | ok u => exact handshake_tail_nf c fuel n hf
  · exact handshake_tail_nf c fuel n hf

theorem outbound_nf (c : Cfg) (st : SState) (n : Nat) : NF (outbound c st) n (Same n) := by
  unfold outbound
  split
  · exact NF.ret rfl
  · refine NF.call ?_
    intro r
    cases r <;> exact NF.ret rfl

theorem writeBlocks_nf (n : Nat) : ∀ (bs : List Bytes), NF (writeBlocks bs) n (Same n) := by
  intro bs
  induction bs with
  | nil => exact NF.ret rfl
  | cons b bs ih => exact NF.write ih

theorem writeCompressed_nf (c : Cfg) (p : Proposal) (n : Nat) : NF (writeCompressed c p) n (Same n) := by
  unfold writeCompressed
  refine NF.write ?_
  split
  · exact NF.ret rfl
  · rw [payloadFromC_eq]
    by_cases h : p.offset < 0 ∨ p.offset > (p.cdata.length : Int)
    · simp only [h, if_true]; exact NF.ret rfl
    · simp only [h, if_false]
      refine NF.bind (writeBlocks_nf n _) ?_
      intro _ m hm
      cases hm
      exact NF.write (NF.ret rfl)

theorem awaitAnswer_nf (fuel : Nat) : ∀ (k n : Nat), n < fuel → n < k → NF (awaitAnswer fuel k) n (okLt n) := by
  intro k
  induction k with
  | zero => intro n _ h; omega
  | succ k ih =>
    intro n hf hk
    unfold awaitAnswer
    simp only [bind_eq, pure_eq]
    refine NF.bind (nextLine_nf fuel n hf) ?_
    intro r m hr
    cases r with
    | error e => exact NF.ret hr
    | ok line =>
      have hm : m < n := hr
      have next : NF (awaitAnswer fuel k) m (okLt n) :=
        NF.mono (ih m (by omega) (by omega)) (fun r m' h => h.mono (by omega) (fun x hx => ⟨x, hx⟩))
      simp only
      split
      · exact NF.ret hm
      · split
        · exact next
        · split
          · exact next
          · exact NF.ret (show m ≤ n by omega)

theorem transferAll_nf (c : Cfg) (n : Nat) : ∀ (ps : List Proposal) (sent : List (Bytes × Bool)),
    NF (transferAll c ps sent) n (Same n) := by
  intro ps
  induction ps with
  | nil => intro sent; exact NF.ret rfl
  | cons p ps ih =>
    intro sent
    unfold transferAll
    split
    · exact NF.call (fun _ => ih _)
    · split
      · exact ih _
      · split
        · simp only [bind_eq, pure_eq]
          refine NF.bind (writeCompressed_nf c p n) ?_
          intro r m hm
          cases hm
          cases r with
          | error e => exact NF.ret rfl
          | ok u => exact ih _
        · exact ih _

theorem sendOutbound_nf (c : Cfg) (fuel : Nat) (out : List Proposal) (n : Nat) (hf : n < fuel) :
    NF (sendOutbound c fuel out) n (okLt n) := by
  unfold sendOutbound
  simp only [bind_eq, pure_eq]
  refine NF.bind (writeLines_nf n _) ?_
  intro _ m hm
  cases hm
  refine NF.bind (Q' := Same n) (NF.write (NF.ret rfl)) ?_
  intro _ m hm
  cases hm
  refine NF.bind (awaitAnswer_nf fuel fuel n hf hf) ?_
  intro r m hr
  cases r with
  | error e => exact NF.ret hr
  | ok reply =>
    have hm : m < n := hr
    simp only [parseProposalAnswerC_eq]
    cases parseProposalAnswer c.offsetLimit reply (List.take c.maxBlock out).length with
    | none => exact NF.ret (show m ≤ n by omega)
    | some ans =>
      refine NF.mono (transferAll_nf _ m _ _) ?_
      intro r m' hm'
      cases hm'
      cases r <;> simp only [okLt] <;> omega

theorem callAll_nf (n : Nat) : ∀ (cs : List Call), NF (callAll cs) n (Same n) := by
  intro cs
  induction cs with
  | nil => exact NF.ret rfl
  | cons x xs ih => exact NF.call (fun _ => ih)

theorem handleOutbound_nf (c : Cfg) (fuel : Nat) (st : SState) (n : Nat) (hf : n < fuel) :
    NF (handleOutbound c fuel st) n (fun _ m => m ≤ n) := by
  unfold handleOutbound
  simp only [bind_eq, pure_eq]
  refine NF.bind (outbound_nf c st n) ?_
  intro out m hm
  cases hm
  split
  · refine NF.bind (Q' := Same n) (NF.write (NF.ret rfl)) ?_
    intro _ m hm
    cases hm
    exact NF.ret (Nat.le_refl _)
  · refine NF.bind (sendOutbound_nf c fuel out n hf) ?_
    intro r m hr
    have hle : m ≤ n := hr.le
    cases r with
    | error e => exact NF.ret hle
    | ok sent =>
      simp only
      refine NF.bind (callAll_nf m _) ?_
      intro _ m' hm'
      cases hm'
      refine NF.peek (fun _ => NF.ret (by omega)) ?_
      intro b hb
      simp only
      split
      · refine NF.bind (nextLine_nf fuel m (by omega)) ?_
        intro r m' hr'
        have := hr'.le
        cases r <;> exact NF.ret (show m' ≤ n by omega)
      · refine NF.bind (callAll_nf m _) ?_
        intro _ m' hm'
        cases hm'
        exact NF.ret hle

theorem askEach_nf (n : Nat) : ∀ (ps acc : List Proposal), NF (askEach ps acc) n (Same n) := by
  intro ps
  induction ps with
  | nil => intro acc; exact NF.ret rfl
  | cons p ps ih =>
    intro acc
    unfold askEach
    split
    · exact ih _
    · refine NF.call ?_
      intro r
      cases r <;> exact ih _

theorem writeProposalsAnswer_nf (c : Cfg) (ps : List Proposal) (n : Nat) :
    NF (writeProposalsAnswer c ps) n (Same n) := by
  unfold writeProposalsAnswer
  simp only [bind_eq, pure_eq]
  have hw : ∀ ps : List Proposal, NF (Proc.write (sb "FS " ++ ps.map (·.answer) ++ [13]) (Proc.ret ps)) n (Same n) :=
    fun ps => NF.write (NF.ret rfl)
  split
  · refine NF.bind (Q' := Same n) ?_ ?_
    · refine NF.call ?_
      intro r
      cases r with
      | answers as =>
        simp only
        cases assignAnswers (preAnswer c.hasHandler ps []) as with
        | none => exact NF.panic (by decide)
        | some ps' => exact NF.ret rfl
      | _ => exact NF.panic (by decide)
    · intro ps' m hm; cases hm; exact hw ps'
  · refine NF.bind (askEach_nf n _ _) ?_
    intro ps' m hm
    cases hm
    exact hw ps'

theorem readN_nf : ∀ (len n : Nat) (acc : Bytes), NF (readN len acc) n (fun _ m => m ≤ n) := by
  intro len
  induction len with
  | zero => intro n acc; exact NF.ret (Nat.le_refl _)
  | succ len ih =>
    intro n acc
    unfold readN
    refine NF.readByte (fun _ => NF.ret (by omega)) ?_
    intro b hb
    exact NF.mono (ih (n - 1) _) (fun _ m h => Nat.le_trans h (by omega))

theorem readBlocks_nf (csize : Int) : ∀ (k n : Nat) (buf : Bytes) (sum : Nat), n < k →
    NF (readBlocks csize k buf sum) n (fun _ m => m ≤ n) := by
  intro k
  induction k with
  | zero => intro n _ _ h; omega
  | succ k ih =>
    intro n buf sum hk
    unfold readBlocks
    refine NF.readByte (fun _ => NF.ret (by omega)) ?_
    intro c hc
    simp only
    split
    · refine NF.readByte ?_ ?_
      · intro h0
        refine NF.bind (readN_nf _ 0 _) ?_
        intro r m hm
        cases r with
        | none => exact NF.ret (by omega)
        | some blk => exact NF.mono (ih m _ _ (by omega)) (fun _ m' h => Nat.le_trans h (by omega))
      · intro l hl
        refine NF.bind (readN_nf _ (n - 1 - 1) _) ?_
        intro r m hm
        cases r with
        | none => exact NF.ret (by omega)
        | some blk => exact NF.mono (ih m _ _ (by omega)) (fun _ m' h => Nat.le_trans h (by omega))
    · split
      · refine NF.readByte ?_ ?_
        · intro _
          exact NF.ret (by omega)
        · intro x _
          simp only
          split
          · exact NF.ret (by omega)
          · split <;> exact NF.ret (by omega)
      · exact NF.ret (by omega)

theorem readCompressed_nf (fuel : Nat) (p : Proposal) (n : Nat) (hf : n < fuel) :
    NF (readCompressed fuel p) n (fun _ m => m ≤ n) := by
  unfold readCompressed
  refine NF.readByte (fun _ => NF.ret (by omega)) ?_
  intro c hc
  simp only
  split
  · refine NF.bind (nextLine_nf fuel (n - 1) (by omega)) ?_
    intro _ m hm
    have := hm.le
    exact NF.ret (show m ≤ n by omega)
  · split
    · exact NF.ret (by omega)
    · refine NF.readByte (fun _ => NF.ret (by omega)) ?_
      intro hl hhl
      simp only [bind_eq, pure_eq]
      refine NF.bind (readString_nf 0 fuel (n - 1 - 1) [] (by omega)) ?_
      intro r1 m1 h1
      obtain ⟨title, eof1⟩ := r1
      have hm1 : m1 ≤ n := by have := h1.1; omega
      split
      · exact NF.ret hm1
      · refine NF.bind (readString_nf 0 fuel m1 [] (by omega)) ?_
        intro r2 m2 h2
        obtain ⟨off, eof2⟩ := r2
        have hm2 : m2 ≤ n := by have := h2.1; omega
        split
        · exact NF.ret hm2
        · split
          · split
            · exact NF.ret hm2
            · split
              · exact NF.ret hm2
              · split
                · exact NF.ret hm2
                · exact NF.mono (readBlocks_nf _ fuel m2 _ _ (by omega)) (fun _ m' h => Nat.le_trans h hm2)
          · exact NF.panic (by decide)

theorem fetchAll_nf (fuel : Nat) : ∀ (ps : List Proposal) (st : SState) (n : Nat), n < fuel →
    NF (fetchAll fuel ps st) n (fun _ m => m ≤ n) := by
  intro ps
  induction ps with
  | nil => intro st n _; exact NF.ret (Nat.le_refl _)
  | cons p ps ih =>
    intro st n hf
    unfold fetchAll
    split
    · exact ih _ _ hf
    · simp only [bind_eq, pure_eq]
      refine NF.bind (readCompressed_nf fuel p n hf) ?_
      intro r m hm
      cases r with
      | error e => exact NF.ret hm
      | ok cdata =>
        simp only
        refine NF.bind (Q' := Same m) ?_ ?_
        · split
          · exact NF.call (fun _ => NF.ret rfl)
          · exact NF.ret rfl
        · intro d m' hm'
          cases hm'
          cases d with
          | none => exact NF.ret hm
          | some data =>
            simp only
            refine NF.call ?_
            intro r
            split
            · exact NF.ret hm
            · refine NF.call ?_
              intro r
              split
              · exact NF.ret hm
              · exact NF.mono (ih _ m (by omega)) (fun _ m' h => Nat.le_trans h hm)

/-- postcondition of the inbound command loop: success has consumed at least the three bytes of the
final `FF`/`FQ`/`F>` line -/
def ok3 {α : Type} (n : Nat) (r : Except SErr α) (m : Nat) : Prop :=
  match r with
  | .ok _ => m + 3 ≤ n
  | .error _ => m ≤ n

theorem ok3.mono {α : Type} {n n' m : Nat} {r : Except SErr α} (h : ok3 n r m) (hn : n ≤ n') : ok3 n' r m := by
  cases r <;> simp only [ok3] at h ⊢ <;> omega

theorem inboundLoop_nf (c : Cfg) (fuel : Nat) : ∀ (k n : Nat) (props : List Proposal) (sum : Nat) (st : SState),
    n < fuel → n < k → NF (inboundLoop c fuel k props sum st) n (ok3 n) := by
  intro k
  induction k with
  | zero => intro n _ _ _ _ h; omega
  | succ k ih =>
    intro n props sum st hf hk
    unfold inboundLoop
    simp only [bind_eq, pure_eq]
    refine NF.bind (nextLine_nf_len fuel n hf) ?_
    intro r m hr
    cases r with
    | error e => exact NF.ret hr
    | ok line =>
      have hlen : m + line.length + 1 ≤ n := hr
      have hle : m ≤ n := by omega
      have next : ∀ props sum st, NF (inboundLoop c fuel k props sum st) m (ok3 n) := fun props sum st =>
        NF.mono (ih m props sum st (by omega) (by omega)) (fun r m' h => h.mono hle)
      simp only
      split
      · exact next _ _ _
      · split
        · exact next _ _ _
        · split
          · exact NF.ret hle
          · rename_i hl2
            have h2 : 2 ≤ line.length := by
              by_cases h : line.length < 2
              · exact absurd (Or.inl h) hl2
              · omega
            have hm : m + 3 ≤ n := by omega
            rw [cmdByteC_eq line h2, parseProposalC_eq line h2, promptFieldC_eq line h2]
            simp only
            split
            · cases parseProposal line with
              | none => exact NF.ret hle
              | some f => exact next _ _ _
            · split
              · exact NF.ret hm
              · split
                · exact NF.ret hm
                · split
                  · split
                    · exact NF.ret hle
                    · split
                      · exact NF.ret hm
                      · refine NF.bind (writeProposalsAnswer_nf c props m) ?_
                        intro _ m' hm'
                        cases hm'
                        exact NF.ret hm
                  · exact NF.ret hle

theorem handleInbound_nf (c : Cfg) (fuel : Nat) (st : SState) (n : Nat) (hf : n < fuel) :
    NF (handleInbound c fuel st) n (fun r m => m ≤ n ∧ (r.2.2 = none → m + 3 ≤ n)) := by
  unfold handleInbound
  simp only [bind_eq, pure_eq]
  refine NF.bind (inboundLoop_nf c fuel fuel n [] 0 st hf hf) ?_
  intro r m hr
  cases r with
  | error e => exact NF.ret ⟨hr, fun h => by cases h⟩
  | ok v =>
    have hm : m + 3 ≤ n := hr
    obtain ⟨quit, props, st'⟩ := v
    simp only
    refine NF.bind (fetchAll_nf fuel props st' m (by omega)) ?_
    intro r m' hm'
    exact NF.ret ⟨by omega, fun _ => by omega⟩

/-- The turn loop: the remote's turn, when it succeeds, consumes at least three bytes; my turn may consume
nothing (nothing to send: `FF`/`FQ` is written without reading); the turns alternate. So `k` turns need
`3 * k ≥ 2 * n + 6` (starting with my turn) resp. `2 * n + 3` (starting with the remote's). -/
theorem turns_nf (c : Cfg) (fuel : Nat) : ∀ (k n : Nat) (myTurn : Bool) (st : SState),
    n < fuel → 2 * n + (if myTurn then 6 else 3) ≤ 3 * k → NF (turns c fuel k myTurn st) n (fun _ _ => True) := by
  intro k
  induction k with
  | zero => intro n myTurn _ _ h; cases myTurn <;> simp at h
  | succ k ih =>
    intro n myTurn st hf hk
    unfold turns
    split
    · exact NF.ret trivial
    · split
      · rename_i hmy
        subst hmy
        simp only [bind_eq, pure_eq]
        refine NF.bind (handleOutbound_nf c fuel st n hf) ?_
        intro r m hm
        cases r with
        | error e => exact NF.ret trivial
        | ok v => exact ih m _ _ (by omega) (by simp at hk ⊢; omega)
      · rename_i hmy
        have hmy : myTurn = false := by simpa using hmy
        subst hmy
        simp only [bind_eq, pure_eq]
        refine NF.bind (handleInbound_nf c fuel st n hf) ?_
        intro r m hm
        obtain ⟨q, st', e⟩ := r
        cases e with
        | some e => exact NF.ret trivial
        | none =>
          have : m + 3 ≤ n := hm.2 rfl
          exact ih m _ _ (by omega) (by simp at hk ⊢; omega)

theorem finish_nf (st : SState) (named : Bool) (e : Option SErr) (n : Nat) : NF (finish st named e) n (fun _ _ => True) := by
  unfold finish
  split
  · exact NF.ret trivial
  · exact NF.ret trivial
  · exact NF.write (NF.ret trivial)
  · exact NF.write (NF.ret trivial)

/-- **`Exchange` never runs out of fuel** when the fuel exceeds `n`, the number of bytes the remote sends
before the connection ends. -/
theorem exchange_nf (c : Cfg) (fuel n : Nat) (hf : n < fuel) : NF (exchange c fuel) n (fun _ _ => True) := by
  unfold exchange
  simp only [bind_eq]
  refine NF.bind (Q' := Same n) ?_ ?_
  · split
    · refine NF.call ?_
      intro r; cases r <;> (try split) <;> exact NF.ret rfl
    · exact NF.ret rfl
  · intro ok m hm
    cases hm
    split
    · exact finish_nf _ _ _ _
    · refine NF.bind (handshake_nf c fuel n hf) ?_
      intro r m hm
      cases r with
      | error e => exact finish_nf _ _ _ _
      | ok hs =>
        have hlt : m < n := hm
        simp only
        refine NF.bind (turns_nf c fuel fuel m _ _ (by omega) (by split <;> omega)) ?_
        intro r _ _
        exact finish_nf _ _ _ _

end Wl2k.B2F
