import Wl2kVerif.Proofs.Bits
import Wl2kVerif.Props.C07
/-
C06 — bit-level round trip of the match POSITION: `decodePosition ∘ encodePosition = id`.
`posBits c` is the bit string `encodePosition c` appends (`Bits.encodePosition_bits`): the `pLen`-bit prefix
code of the upper six bits of `c`, then the lower six bits verbatim.  The reader takes 8 bits, looks the
prefix up in `dCode/dLen`, reads the `dLen − 2` missing bits and reassembles `c`.
-/
namespace Wl2k.Lzhuf
open Wl2k.Bits

/-- the bits `encodePosition c` appends -/
def posBits (c : Nat) : List Bool :=
  topBits (tbl Gen.pLen (c >>> 6)) (tbl Gen.pCode (c >>> 6) * 256) ++ topBits 6 ((c &&& 0x3f) * 1024)

theorem ofBits_append (a b : List Bool) : ofBits (a ++ b) = ofBits a * 2 ^ b.length + ofBits b := by
  induction a with
  | nil => simp [ofBits]
  | cons x t ih =>
    rw [List.cons_append, ofBits_cons, ofBits_cons, ih, List.length_append, Nat.pow_add, Nat.add_mul,
      Nat.mul_assoc]
    omega

theorem topBits_eq_lowBits (n v : Nat) (hn : n ≤ 16) : topBits n v = lowBits n (v >>> (16 - n)) := by
  apply List.map_congr_left
  intro k hk
  rw [List.mem_range] at hk
  rw [Nat.testBit_shiftRight]
  congr 1; omega

theorem ofBits_topBits (n v : Nat) (hn : n ≤ 16) : ofBits (topBits n v) = (v / 2 ^ (16 - n)) % 2 ^ n := by
  rw [topBits_eq_lowBits n v hn, ofBits_lowBits, Nat.shiftRight_eq_div_pow]

theorem plen_ge : ∀ i, i < 64 → 3 ≤ tbl Gen.pLen i := by decide +kernel

/-- the arithmetic of the reassembly, for each of the six prefix lengths -/
theorem pos_arith (pl pc lo : Nat) (h3 : 3 ≤ pl) (h8 : pl ≤ 8) (hpc : pc < 256)
    (hz : pc * 256 % 2 ^ (16 - pl) = 0) (hlo : lo < 64) :
    (pc * 256 / 2 ^ (16 - pl)) % 2 ^ pl * 2 ^ (8 - pl) = pc ∧
    (lo * 1024 / 2 ^ (16 - (8 - pl))) % 2 ^ (8 - pl) < 2 ^ (8 - pl) ∧
    ((pc + (lo * 1024 / 2 ^ (16 - (8 - pl))) % 2 ^ (8 - pl)) * 2 ^ (pl - 2)
      + (lo * 1024 * 2 ^ (8 - pl)) / 2 ^ (16 - (pl - 2)) % 2 ^ (pl - 2)) % 64 = lo := by
  have : pl = 3 ∨ pl = 4 ∨ pl = 5 ∨ pl = 6 ∨ pl = 7 ∨ pl = 8 := by omega
  rcases this with h | h | h | h | h | h <;> subst h <;> simp only [Nat.reducePow, Nat.reduceSub] at hz ⊢ <;>
    omega

/-- **`position_roundtrip`** — for a 12-bit position `c` and a reader whose unread bits are the bits
`encodePosition c` appends followed by `rest`: `decodePosition` returns `c` and leaves exactly `rest`;
the bit-layer invariant is kept, no error flag is touched, `pulled` only grows, and nothing outside the
bit layer (in particular the Huffman state) changes. -/
theorem position_roundtrip (d : Reader) (c : Nat) (hc : c < 4096) (inv : RInv d) (rest : List Bool)
    (hu : unreadBits d = posBits c ++ rest) :
    d.decodePosition.2 = c ∧ unreadBits d.decodePosition.1 = rest ∧ RInv d.decodePosition.1 ∧
    d.decodePosition.1.berr = d.berr ∧ d.pulled ≤ d.decodePosition.1.pulled ∧
    rSameRest d d.decodePosition.1 := by
  have hi : c >>> 6 < 64 := by rw [Nat.shiftRight_eq_div_pow]; omega
  have hlo : c &&& 0x3f < 64 := by
    rw [show (0x3f : Nat) = 2 ^ 6 - 1 from rfl, Nat.and_two_pow_sub_one_eq_mod]; omega
  have hcc : c = (c >>> 6) * 64 + (c &&& 0x3f) := by
    rw [show (0x3f : Nat) = 2 ^ 6 - 1 from rfl, Nat.and_two_pow_sub_one_eq_mod, Nat.shiftRight_eq_div_pow]
    omega
  obtain ⟨h8, hpc, hz⟩ := ptable_codes _ hi
  have h3 := plen_ge _ hi
  have hdt := (Wl2k.Props.C07.dtable_inverts_ptable).1 _ hi
  unfold posBits at hu
  generalize c &&& 0x3f = lo at hlo hcc hu
  generalize c >>> 6 = i at hi hcc hu hpc hz h3 h8 hdt
  generalize tbl Gen.pCode i = pc at hpc hz hdt hu
  generalize tbl Gen.pLen i = pl at h3 h8 hz hdt hu
  obtain ⟨a1, a2, a3⟩ := pos_arith pl pc lo h3 h8 hpc hz hlo
  -- split the six verbatim bits at the byte boundary
  have e6 : (6 : Nat) = (8 - pl) + (pl - 2) := by omega
  have hL : topBits 6 (lo * 1024) =
      topBits (8 - pl) (lo * 1024) ++ topBits (pl - 2) ((lo * 1024) <<< (8 - pl)) := by
    conv => lhs; rw [e6]
    exact topBits_add _ _ _ (by omega)
  rw [hL, ← List.append_assoc, List.append_assoc] at hu
  -- the first eight bits
  have hv : ofBits (topBits pl (pc * 256) ++ topBits (8 - pl) (lo * 1024)) =
      pc + (lo * 1024 / 2 ^ (16 - (8 - pl))) % 2 ^ (8 - pl) := by
    rw [ofBits_append, topBits_length, ofBits_topBits _ _ (by omega), ofBits_topBits _ _ (by omega), a1]
  obtain ⟨u1, v1, i1, b1, p1, f1⟩ := readBits_eight d inv _ _ (by simp; omega) hu
  rw [hv] at v1
  obtain ⟨t1, t2⟩ := hdt _ a2
  -- the remaining `pl − 2` bits
  obtain ⟨u2, v2, i2, b2, p2, f2⟩ := reader_lowBits_spec (pl - 2) (d.readBits 8).1 (d.readBits 8).2 _ rest i1
    (topBits_length _ _) u1
  have hdef : d.decodePosition =
      (((d.readBits 8).1.lowBits (d.readBits 8).2 (tbl Gen.dLen (d.readBits 8).2 - 2)).1,
        (tbl Gen.dCode (d.readBits 8).2 <<< 6) |||
          (((d.readBits 8).1.lowBits (d.readBits 8).2 (tbl Gen.dLen (d.readBits 8).2 - 2)).2 &&& 0x3f)) := rfl
  rw [hdef, v1, t1, t2]
  rw [v1] at v2 u2 i2 b2 p2 f2
  refine ⟨?_, u2, i2, b2.trans b1, Nat.le_trans p1 p2, ?_⟩
  · dsimp only
    rw [v2, ofBits_topBits _ _ (by omega), Nat.shiftLeft_eq (lo * 1024),
      show (0x3f : Nat) = 2 ^ 6 - 1 from rfl, Nat.and_two_pow_sub_one_eq_mod, a3,
      ← Nat.shiftLeft_add_eq_or_of_lt (by omega), Nat.shiftLeft_eq]
    omega
  · obtain ⟨x1, x2, x3, x4, x5, x6, x7, x8, x9, x10, x11⟩ := f1
    obtain ⟨y1, y2, y3, y4, y5, y6, y7, y8, y9, y10, y11⟩ := f2
    exact ⟨y1.trans x1, y2.trans x2, y3.trans x3, y4.trans x4, y5.trans x5, y6.trans x6, y7.trans x7,
      y8.trans x8, y9.trans x9, y10.trans x10, y11.trans x11⟩

/-- the writer side in the same vocabulary -/
theorem encodePosition_posBits (w : Writer) (c : Nat) (inv : BitsInv w) (hc : c < 4096) :
    bitsOf (w.encodePosition c) = bitsOf w ++ posBits c ∧ BitsInv (w.encodePosition c) := by
  obtain ⟨h1, h2⟩ := encodePosition_bits w c inv hc
  exact ⟨by rw [h1, posBits, List.append_assoc], h2⟩

end Wl2k.Lzhuf
