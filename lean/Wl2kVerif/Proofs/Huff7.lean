import Wl2kVerif.Proofs.Huff6
import Wl2kVerif.Proofs.Bits
/-
Encoder/decoder agreement at symbol level: the 64-bit accumulator of `encodeChar` spells `codeBits`, the
decoder's walk along `codeBits` ends at the symbol's leaf, every code has at most 21 bits (Fibonacci
argument), and the glue to the bit layer of `Proofs/Bits.lean`.
-/
namespace Wl2k.Lzhuf
open Wl2k.Bits

/-! ### the code of a symbol: leaf-to-root parities -/

/-- parities of the nodes on the way from node `k` up to (excluding) the root, leaf side first -/
def upBits (prnt : Array Nat) (k : Nat) : Nat → List Bool
  | 0 => []
  | fuel + 1 => (k % 2 == 1) :: (if rd prnt k = R then [] else upBits prnt (rd prnt k) fuel)

/-- the Huffman code of symbol `c` in state `h`, root side first -/
def codeBits (h : Huff) (c : Nat) : List Bool := (upBits h.prnt (rd h.prnt (c + T)) (T + 1)).reverse

theorem bits64_succ (j : Nat) (v : Nat) : bits64 (j + 1) v = v.testBit 63 :: (List.range j).map (fun k => v.testBit (62 - k)) := by
  unfold bits64
  rw [List.range_succ_eq_map, List.map_cons, List.map_map]
  congr 1
  apply List.map_congr_left
  intro k _
  show v.testBit (63 - (k + 1)) = v.testBit (62 - k)
  congr 1; omega

theorem shr1_or_bit (i : UInt64) (b : Bool) (t : Nat) (ht : t < 64) :
    ((if b then (i >>> 1) ||| ((1 : UInt64) <<< 63) else i >>> 1)).toNat.testBit t =
      if t = 63 then b else i.toNat.testBit (t + 1) := by
  have e1 : (1 : UInt64).toNat % 64 = 1 := by decide
  have e2 : ((1 : UInt64) <<< 63).toNat = 2 ^ 63 := by decide
  have hi : (i >>> 1).toNat.testBit t = if t = 63 then false else i.toNat.testBit (t + 1) := by
    rw [UInt64.toNat_shiftRight, e1, Nat.testBit_shiftRight]
    split
    · rename_i h; subst h; exact u64_bit_hi i 64 (Nat.le_refl _)
    · rw [Nat.add_comm]
  cases b
  · simp only [Bool.false_eq_true, if_false]; rw [hi]
  · simp only [if_true]
    rw [UInt64.toNat_or, Nat.testBit_or, hi, e2, Nat.testBit_two_pow]
    by_cases h : t = 63
    · simp [h]
    · simp [h]; omega

/-- **the 64-bit accumulator of `encodeChar` spells the code**: the walk adds one bit per node, and as
long as the length stays `≤ 64` the top `j` bits of `i` are the parities, root side first. -/
theorem codeWalk64_bits (prnt : Array Nat) : ∀ fuel k (i : UInt64) j,
    (codeWalk64 prnt k i j fuel).2 = j + (upBits prnt k fuel).length ∧
    ((codeWalk64 prnt k i j fuel).2 ≤ 64 →
      bits64 (codeWalk64 prnt k i j fuel).2 (codeWalk64 prnt k i j fuel).1.toNat =
        (upBits prnt k fuel).reverse ++ bits64 j i.toNat) := by
  intro fuel
  induction fuel with
  | zero => intro k i j; simp [codeWalk64, upBits]
  | succ fuel ih =>
    intro k i j
    have step : ∀ (hj : j + 1 ≤ 64),
        bits64 (j + 1) (if k % 2 = 1 then (i >>> 1) ||| ((1 : UInt64) <<< 63) else i >>> 1).toNat =
          (k % 2 == 1) :: bits64 j i.toNat := by
      intro hj
      have key := shr1_or_bit i (k % 2 == 1)
      have ee : (if (k % 2 == 1) = true then (i >>> 1) ||| ((1 : UInt64) <<< 63) else i >>> 1) =
          (if k % 2 = 1 then (i >>> 1) ||| ((1 : UInt64) <<< 63) else i >>> 1) := by
        by_cases c : k % 2 = 1 <;> simp [c]
      rw [ee] at key
      rw [bits64_succ, key 63 (by omega), if_pos rfl]
      congr 1
      unfold bits64
      apply List.map_congr_left
      intro t ht
      rw [List.mem_range] at ht
      rw [key (62 - t) (by omega), if_neg (by omega)]
      congr 1; omega
    by_cases hR : rd prnt k = R
    · simp only [codeWalk64, upBits, hR, if_true, List.length_cons, List.length_nil, List.reverse_cons,
        List.reverse_nil, List.nil_append, List.singleton_append]
      exact ⟨trivial, fun hj => step hj⟩
    · simp only [codeWalk64, upBits, hR, if_false]
      have ⟨a1, a2⟩ := ih (rd prnt k) (if k % 2 = 1 then (i >>> 1) ||| ((1 : UInt64) <<< 63) else i >>> 1) (j + 1)
      refine ⟨by rw [a1]; simp only [List.length_cons]; omega, ?_⟩
      intro hj
      rw [a2 hj, step (by rw [a1] at hj; omega)]
      simp

/-- `follows son cur bits leaf`: starting with the child pointer `cur`, each bit selects a child and the
pointer found there is internal, until after the last bit the leaf pointer `leaf` is reached -/
def follows (son : Array Nat) : Nat → List Bool → Nat → Prop
  | cur, [], leaf => cur = leaf ∧ T ≤ leaf
  | cur, b :: bs, leaf => cur < T ∧ follows son (rd son (cur + b.toNat)) bs leaf

theorem bool_parity (k : Nat) : k - k % 2 + (k % 2 == 1).toNat = k := by
  by_cases c : k % 2 = 1
  · simp [c]; omega
  · have : k % 2 = 0 := by omega
    simp [this]

/-- climbing from `k` to the root and descending again along the recorded parities returns to `son k` -/
theorem follows_up {h : Huff} (s : HuffS h) : ∀ fuel k bs leaf, k < R → R ≤ k + fuel →
    follows h.son (rd h.son k) bs leaf →
    follows h.son (rd h.son R) ((upBits h.prnt k fuel).reverse ++ bs) leaf := by
  intro fuel
  induction fuel with
  | zero => intro k bs leaf hk hf; omega
  | succ fuel ih =>
    intro k bs leaf hk hf hfo
    have ⟨p1, p2⟩ := s.prnt_lt k hk
    have gt := s.prnt_gt k hk
    have down : follows h.son (rd h.son (rd h.prnt k)) ((k % 2 == 1) :: bs) leaf := by
      refine ⟨by rw [p2]; simp only [R_eq, T_eq] at *; omega, ?_⟩
      rw [p2, bool_parity]; exact hfo
    simp only [upBits]
    by_cases hR : rd h.prnt k = R
    · simp only [hR, if_true, List.reverse_cons, List.reverse_nil, List.nil_append, List.singleton_append]
      rw [hR] at down; exact down
    · simp only [hR, if_false, List.reverse_cons, List.append_assoc, List.singleton_append]
      exact ih (rd h.prnt k) _ leaf (by simp only [R_eq, T_eq] at *; omega) (by omega) down

theorem upBits_length_le (prnt : Array Nat) : ∀ fuel k, (upBits prnt k fuel).length ≤ fuel := by
  intro fuel
  induction fuel with
  | zero => intro k; simp [upBits]
  | succ fuel ih =>
    intro k
    simp only [upBits]
    split
    · simp
    · have := ih (rd prnt k); simp only [List.length_cons]; omega

/-- **the decoder's path for the code of `c` ends at `c`'s leaf** -/
theorem codeBits_follows {h : Huff} (s : HuffS h) (c : Nat) (hc : c < NCHAR) :
    follows h.son (rd h.son R) (codeBits h c) (c + T) := by
  have ⟨p1, p2⟩ := s.prnt_leaf c hc
  have r := s.son_root
  have hk : rd h.prnt (c + T) < R := by
    have : rd h.prnt (c + T) ≠ R := by intro e; rw [e] at p2; omega
    simp only [R_eq, T_eq] at *; omega
  have := follows_up s (T + 1) (rd h.prnt (c + T)) [] (c + T) hk (by simp only [R_eq, T_eq] at *; omega)
    ⟨p2, by omega⟩
  rw [List.append_nil] at this
  exact this

/-- the walk of `decodeChar` along a given bit string -/
theorem Reader.walk_follows : ∀ (bs : List Bool) (d : Reader) (cur leaf fuel : Nat), HuffS d.h →
    (cur < T → cur + 1 < T) → follows d.h.son cur bs leaf →
    (d.takeBits bs.length).2 = bs.map Bool.toNat → bs.length < fuel →
    d.walk cur fuel = ((d.takeBits bs.length).1, leaf) := by
  intro bs
  induction bs with
  | nil =>
    intro d cur leaf fuel s hcur hf _ hfuel
    obtain ⟨e1, e2⟩ := hf
    obtain ⟨fuel, rfl⟩ : ∃ f, fuel = f + 1 := ⟨fuel - 1, by simp at hfuel; omega⟩
    rw [Reader.walk, if_neg (by omega), e1]; rfl
  | cons b bs ih =>
    intro d cur leaf fuel s hcur hf htk hfuel
    obtain ⟨e1, e2⟩ := hf
    obtain ⟨fuel, rfl⟩ : ∃ f, fuel = f + 1 := ⟨fuel - 1, by simp at hfuel; omega⟩
    simp only [List.length_cons, Reader.takeBits, List.map_cons, List.cons.injEq] at htk ⊢
    have hb : (d.readBits 1).2 ≤ 1 := Reader.readBits_one_le d
    have e : (d.readBits 1).1.h = d.h := Reader.readBits_h d 1
    have hlt := hcur e1
    rw [Reader.walk_succ d cur fuel e1 (by rw [s.sz_son]; omega), htk.1]
    rw [htk.1] at hb
    apply ih (d.readBits 1).1 _ leaf fuel (by rw [e]; exact s)
    · intro h'
      have := s.son_int (cur + b.toNat) (by omega) h'; omega
    · rw [e]; exact e2
    · exact htk.2
    · simp only [List.length_cons] at hfuel; omega

/-! ### depth bound: the Fibonacci argument -/

def fib : Nat → Nat
  | 0 => 0
  | 1 => 1
  | n + 2 => fib n + fib (n + 1)

theorem fib_succ_ge (n : Nat) : fib n ≤ fib (n + 1) := by
  cases n with
  | zero => decide
  | succ n => show fib (n + 1) ≤ fib n + fib (n + 1); omega

theorem fib_mono {n m : Nat} (h : n ≤ m) : fib n ≤ fib m := by
  induction m with
  | zero => have : n = 0 := by omega
            subst this; exact Nat.le_refl _
  | succ m ih =>
    by_cases e : n = m + 1
    · subst e; exact Nat.le_refl _
    · exact Nat.le_trans (ih (by omega)) (fib_succ_ge m)

/-- a parent weighs its child plus the child's sibling, and the sibling of `p` is at least as heavy as
any child of `p` (it sits at a higher index): `w(grandparent) ≥ w(parent) + w(child)` -/
theorem HuffWF.parent_weight {h : Huff} (w : HuffWF h) (k : Nat) (hk : k < R) :
    rd h.freq (rd h.prnt k) = rd h.freq (k - k % 2) + rd h.freq (k - k % 2 + 1) := by
  have ⟨p1, p2⟩ := w.prnt_lt k hk
  have := w.sum _ p1 (by rw [p2]; simp only [R_eq, T_eq] at *; omega)
  rw [p2] at this; exact this

theorem HuffWF.parent_ge {h : Huff} (w : HuffWF h) (k : Nat) (hk : k < R) :
    rd h.freq k + 1 ≤ rd h.freq (rd h.prnt k) := by
  have e := w.parent_weight k hk
  have a := w.pos (k - k % 2) (by simp only [R_eq, T_eq] at *; omega)
  have b := w.pos (k - k % 2 + 1) (by simp only [R_eq, T_eq] at *; omega)
  by_cases par : k % 2 = 0
  · rw [show k - k % 2 = k by omega] at e a b; omega
  · rw [show k - k % 2 + 1 = k by omega] at e b; omega

theorem HuffWF.grand_weight {h : Huff} (w : HuffWF h) (k : Nat) (hk : k < R) (hp : rd h.prnt k < R) :
    rd h.freq (rd h.prnt k) + rd h.freq k ≤ rd h.freq (rd h.prnt (rd h.prnt k)) := by
  have ⟨p1, p2⟩ := w.prnt_lt k hk
  have si := w.son_int _ p1 (by rw [p2]; simp only [R_eq, T_eq] at *; omega)
  rw [p2] at si
  generalize hpp : rd h.prnt k = p at *
  have e := w.parent_weight p hp
  have hT : p + 1 ≤ T := by omega
  by_cases par : p % 2 = 0
  · rw [show p - p % 2 = p by omega] at e
    have := sorted_mono h.freq T w.sorted (p + 1) k (by omega) hT
    omega
  · rw [show p - p % 2 + 1 = p by omega] at e
    have := sorted_mono h.freq T w.sorted (p - p % 2) k (by omega) (by omega)
    omega

theorem fib_depth {h : Huff} (w : HuffWF h) : ∀ fuel k t, k < R → fib (t + 2) ≤ rd h.freq k →
    fib (t + 3) ≤ rd h.freq (rd h.prnt k) →
    fib (t + 2 + (upBits h.prnt k fuel).length) ≤ rd h.freq R := by
  intro fuel
  induction fuel with
  | zero =>
    intro k t hk h1 _
    have := sorted_mono h.freq T w.sorted R k (by omega) (by simp only [R_eq, T_eq]; omega)
    simp only [upBits, List.length_nil, Nat.add_zero]; omega
  | succ fuel ih =>
    intro k t hk h1 h2
    have ⟨p1, _⟩ := w.prnt_lt k hk
    simp only [upBits]
    by_cases hR : rd h.prnt k = R
    · simp only [hR, if_true, List.length_cons, List.length_nil]
      rw [hR] at h2; exact h2
    · simp only [hR, if_false, List.length_cons]
      have hp : rd h.prnt k < R := by simp only [R_eq, T_eq] at *; omega
      have g := w.grand_weight k hk hp
      have := ih (rd h.prnt k) (t + 1) hp h2 (by show fib (t + 2) + fib (t + 3) ≤ _; omega)
      rw [show t + 2 + ((upBits h.prnt (rd h.prnt k) fuel).length + 1) =
        t + 1 + 2 + (upBits h.prnt (rd h.prnt k) fuel).length by omega]
      exact this

/-- **every code is at most 21 bits long** (`freq[R] ≤ MAX_FREQ = 0x8000 < fib 24`) -/
theorem codeBits_length_le {h : Huff} (w : HuffWF h) (c : Nat) (hc : c < NCHAR) : (codeBits h c).length ≤ 21 := by
  have ⟨p1, p2⟩ := w.prnt_leaf c hc
  have r := w.toHuffS.son_root
  have hk : rd h.prnt (c + T) < R := by
    have : rd h.prnt (c + T) ≠ R := by intro e; rw [e] at p2; omega
    simp only [R_eq, T_eq] at *; omega
  have a := w.pos _ p1
  have b := w.parent_ge _ hk
  have d := fib_depth w (T + 1) _ 0 hk (by show 1 ≤ _; exact a) (by show 2 ≤ _; omega)
  unfold codeBits; rw [List.length_reverse]
  apply Nat.le_of_not_lt; intro hlt
  have m := fib_mono (n := 24) (m := 0 + 2 + (upBits h.prnt (rd h.prnt (c + T)) (T + 1)).length) (by omega)
  have f24 : fib 24 = 46368 := by decide
  have := w.root_le; simp only [MAXFREQ_eq] at this
  omega

/-! ### encoder and decoder agree on every symbol -/

/-- **`encodeChar` side**: on a well-formed tree the leaf-to-root walk for symbol `c` yields a code of
`j ≤ 21` bits (so the 64-bit accumulator never overflows) and the top `j` bits of `i`, MSB first, are
exactly `codeBits h c`. -/
theorem codeWalk64_code {h : Huff} (w : HuffWF h) (c : Nat) (hc : c < NCHAR) :
    (codeWalk64 h.prnt (rd h.prnt (c + T)) 0 0 (T + 1)).2 = (codeBits h c).length ∧
    (codeWalk64 h.prnt (rd h.prnt (c + T)) 0 0 (T + 1)).2 ≤ 21 ∧
    bits64 (codeWalk64 h.prnt (rd h.prnt (c + T)) 0 0 (T + 1)).2
      (codeWalk64 h.prnt (rd h.prnt (c + T)) 0 0 (T + 1)).1.toNat = codeBits h c := by
  have ⟨a1, a2⟩ := codeWalk64_bits h.prnt (T + 1) (rd h.prnt (c + T)) 0 0
  have len := codeBits_length_le w c hc
  have e : (codeWalk64 h.prnt (rd h.prnt (c + T)) 0 0 (T + 1)).2 = (codeBits h c).length := by
    rw [a1, codeBits, List.length_reverse]; omega
  refine ⟨e, by omega, ?_⟩
  rw [a2 (by omega)]
  simp [codeBits, bits64]

/-- **`decodeChar` side**: if the next bits delivered by the bit reader are the code of `c`, `decodeChar`
consumes exactly those bits, returns `c`, and applies the same `update` as the encoder. -/
theorem Reader.decodeChar_of_code (d : Reader) (w : HuffWF d.h) (c : Nat) (hc : c < NCHAR)
    (htk : (d.takeBits (codeBits d.h c).length).2 = (codeBits d.h c).map Bool.toNat) :
    d.decodeChar = ({ (d.takeBits (codeBits d.h c).length).1 with h := update d.h c }, c) := by
  have r := w.toHuffS.son_root
  have q := w.son_int R R_lt_T r
  have len := codeBits_length_le w c hc
  have wk := Reader.walk_follows (codeBits d.h c) d (rd d.h.son R) (c + T) (T + 1) w.toHuffS
    (by intro _; simp only [R_eq, T_eq] at *; omega) (codeBits_follows w.toHuffS c hc) htk
    (by simp only [T_eq]; omega)
  have e : d.decodeChar = ({ (d.walk (rd d.h.son R) (T + 1)).1 with
      h := update (d.walk (rd d.h.son R) (T + 1)).1.h ((d.walk (rd d.h.son R) (T + 1)).2 - T) },
      (d.walk (rd d.h.son R) (T + 1)).2 - T) := rfl
  rw [e, wk]
  simp only [Reader.takeBits_h, Nat.add_sub_cancel]

/-- glue to the bit layer (`Proofs/Bits.lean`): `takeBits` on a reader whose unread bits start with `bs` -/
theorem Reader.takeBits_unread : ∀ (bs : List Bool) (d : Reader) (rest : List Bool), RInv d →
    unreadBits d = bs ++ rest →
    (d.takeBits bs.length).2 = bs.map Bool.toNat ∧ unreadBits (d.takeBits bs.length).1 = rest ∧
    RInv (d.takeBits bs.length).1 ∧ (d.takeBits bs.length).1.berr = d.berr ∧
    d.pulled ≤ (d.takeBits bs.length).1.pulled ∧ rSameRest d (d.takeBits bs.length).1 := by
  intro bs
  induction bs with
  | nil => intro d rest inv hu; exact ⟨rfl, hu, inv, rfl, Nat.le_refl _, rSameRest_refl d⟩
  | cons b bs ih =>
    intro d rest inv hu
    obtain ⟨a1, a2, a3, a4, a5, a6⟩ := readBits_one d inv b (bs ++ rest) hu
    obtain ⟨b1, b2, b3, b4, b5, b6⟩ := ih (d.readBits 1).1 rest a3 a1
    simp only [List.length_cons, Reader.takeBits, List.map_cons]
    refine ⟨by rw [a2, b1], b2, b3, by rw [b4, a4], by omega, ?_⟩
    obtain ⟨x1, x2, x3, x4, x5, x6, x7, x8, x9, x10, x11⟩ := a6
    obtain ⟨y1, y2, y3, y4, y5, y6, y7, y8, y9, y10, y11⟩ := b6
    exact ⟨y1.trans x1, y2.trans x2, y3.trans x3, y4.trans x4, y5.trans x5, y6.trans x6, y7.trans x7,
      y8.trans x8, y9.trans x9, y10.trans x10, y11.trans x11⟩

theorem Writer.encodeChar_eq (w : Writer) (c : Nat) :
    w.encodeChar c =
      { w.putPieces (codeWalk64 w.h.prnt (rd w.h.prnt (c + T)) 0 0 (T + 1)).1
          (codeWalk64 w.h.prnt (rd w.h.prnt (c + T)) 0 0 (T + 1)).2
          ((codeWalk64 w.h.prnt (rd w.h.prnt (c + T)) 0 0 (T + 1)).2 + 1) with
        h := update (w.putPieces (codeWalk64 w.h.prnt (rd w.h.prnt (c + T)) 0 0 (T + 1)).1
          (codeWalk64 w.h.prnt (rd w.h.prnt (c + T)) 0 0 (T + 1)).2
          ((codeWalk64 w.h.prnt (rd w.h.prnt (c + T)) 0 0 (T + 1)).2 + 1)).h c } := rfl

theorem Writer.encodeChar_h (w : Writer) (c : Nat) : (w.encodeChar c).h = update w.h c := by
  rw [Writer.encodeChar_eq]
  generalize codeWalk64 w.h.prnt (rd w.h.prnt (c + T)) 0 0 (T + 1) = p
  have := (putPieces_frame (p.2 + 1) w p.1 p.2).2.1
  generalize w.putPieces p.1 p.2 (p.2 + 1) = w' at *
  dsimp only
  rw [this]

theorem unreadBits_with_h (d : Reader) (h : Huff) : unreadBits { d with h := h } = unreadBits d := rfl
theorem rinv_with_h (d : Reader) (h : Huff) (inv : RInv d) : RInv { d with h := h } :=
  ⟨inv.bbits_lt, inv.bpos_le, inv.pulled_le⟩

/-- **symbol-level round trip**: the writer appends `codeBits h c`; a reader with the same Huffman state
whose unread bits start with that code decodes `c`, consumes exactly the code, and both sides end with
the same Huffman state `update h c`. -/
theorem symbol_roundtrip (wr : Writer) (d : Reader) (c : Nat) (hc : c < NCHAR) (w : HuffWF wr.h)
    (hh : d.h = wr.h) (winv : BitsInv wr) (rinv : RInv d) (rest : List Bool)
    (hu : unreadBits d = codeBits wr.h c ++ rest) :
    bitsOf (wr.encodeChar c) = bitsOf wr ++ codeBits wr.h c ∧ BitsInv (wr.encodeChar c) ∧
    d.decodeChar.2 = c ∧ unreadBits d.decodeChar.1 = rest ∧ RInv d.decodeChar.1 ∧
    d.decodeChar.1.h = (wr.encodeChar c).h ∧ HuffWF d.decodeChar.1.h := by
  have cw := codeWalk64_code w c hc
  have enc := encodeChar_bits wr c winv (by omega)
  rw [cw.2.2] at enc
  have tk := Reader.takeBits_unread (codeBits wr.h c) d rest rinv hu
  have w' : HuffWF d.h := by rw [hh]; exact w
  have dc := Reader.decodeChar_of_code d w' c hc (by rw [hh]; exact tk.1)
  rw [hh] at dc
  rw [dc, Writer.encodeChar_h]
  refine ⟨enc.1, enc.2, rfl, ?_, ?_, by dsimp only, by dsimp only; exact update_preserves w c hc⟩
  · exact (unreadBits_with_h _ _).trans tk.2.1
  · exact rinv_with_h _ _ tk.2.2.1

end Wl2k.Lzhuf
