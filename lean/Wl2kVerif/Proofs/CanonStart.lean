import Wl2kVerif.Proofs.CanonEnc
/-
C07 (reverse direction) — the start of the CANONICAL `Encode()`: the look-ahead is filled first (`prefill`),
THEN the 60 pre-start nodes `r−1 … r−F` are inserted (`insertBack`) and finally `r` — unlike the library,
which inserts `r − len` after every pre-filled byte.  Result `canon_stream`: the body `Canon.encodeBody x`
spells `encTokens Huff.init ts ++ pad` for well-formed tokens `ts` with `lzDecode ts = x`, provided the longest
code stayed within 16 bits.
-/
namespace Wl2k.Lzhuf
open Wl2k.Bits Wl2k.Lzhuf.Canon

/-! ### the pre-fill loop -/

theorem prefill_text {H : Bytes} {m : Nat} {z : Tree} (t : TextInv H m z) (hm : m < 60) (b : UInt8)
    (hb : b = H.getD (2048 + m) 0) :
    TextInv H (m + 1) { z with textBuf := z.textBuf.setIfInBounds (1988 + m) b } := by
  have tb : ∀ k, ({ z with textBuf := z.textBuf.setIfInBounds (1988 + m) b } : Tree).tb k =
      if 1988 + m = k ∧ 1988 + m < z.textBuf.size then b else z.tb k := fun k => getD_set _ _ _ _
  have hsz := t.tbsz
  refine ⟨by rw [← hsz]; simp, ?_, ?_⟩
  · intro j h1 h2
    rw [tb]
    by_cases hj : j = 2048 + m
    · rw [if_pos ⟨by omega, by omega⟩, hb, hj]
    · rw [if_neg (by omega)]
      exact t.win j (by omega) (by omega)
  · intro k _ h2; omega

/-- the state after `n` rounds of the pre-fill loop, relative to the start state `e0` -/
structure PFInv (x : Bytes) (e0 : Enc) (n : Nat) (e : Enc) : Prop where
  inp : e.inp = x.toArray
  ipos : e.ipos = e.w.len
  len : e.w.len = min n x.length
  r : e.w.r = 1988
  s : e.w.s = e0.w.s
  text : TextInv (masterH x) e.w.len e.w.z
  dad : e.w.z.dad = e0.w.z.dad
  lson : e.w.z.lson = e0.w.z.lson
  rson : e.w.z.rson = e0.w.z.rson
  mp : e.w.z.matchPosition = e0.w.z.matchPosition
  out : e.w.out = e0.w.out
  putbuf : e.w.putbuf = e0.w.putbuf
  putlen : e.w.putlen = e0.w.putlen
  h : e.w.h = e0.w.h
  maxLen : e.maxLen = e0.maxLen

theorem prefill_succ (e : Enc) (n : Nat) :
    prefill e (n + 1) =
      if (prefill e n).ipos < (prefill e n).inp.size ∧ (prefill e n).w.len = n then
        { prefill e n with
          w := { (prefill e n).w with
                 z := { (prefill e n).w.z with
                        textBuf := (prefill e n).w.z.textBuf.setIfInBounds ((prefill e n).w.r + (prefill e n).w.len)
                          ((prefill e n).inp.getD (prefill e n).ipos 0) },
                 len := (prefill e n).w.len + 1 },
          ipos := (prefill e n).ipos + 1 }
      else prefill e n := rfl

theorem prefill_inv {x : Bytes} {e0 : Enc} (h0 : PFInv x e0 0 e0) : ∀ n, n ≤ 60 → PFInv x e0 n (prefill e0 n) := by
  intro n
  induction n with
  | zero => intro _; exact h0
  | succ n ih =>
    intro hn
    have p := ih (by omega)
    rw [prefill_succ]
    generalize prefill e0 n = e at p
    have hsz : e.inp.size = x.length := by rw [p.inp]; simp
    have hlen := p.len
    have hip := p.ipos
    by_cases hc : e.ipos < e.inp.size ∧ e.w.len = n
    · rw [if_pos hc]
      obtain ⟨c1, c2⟩ := hc
      rw [hsz, hip] at c1
      refine ⟨p.inp, ?_, ?_, p.r, p.s, ?_, p.dad, p.lson, p.rson, p.mp, p.out, p.putbuf, p.putlen, p.h, p.maxLen⟩
      · show e.ipos + 1 = e.w.len + 1
        rw [hip]
      · show e.w.len + 1 = min (n + 1) x.length
        omega
      · show TextInv (masterH x) (e.w.len + 1)
          { e.w.z with textBuf := e.w.z.textBuf.setIfInBounds (e.w.r + e.w.len) (e.inp.getD e.ipos 0) }
        rw [p.r]
        exact prefill_text p.text (by omega) _ (by rw [hip, p.inp, masterH_input])
    · rw [if_neg hc]
      refine ⟨p.inp, p.ipos, ?_, p.r, p.s, p.text, p.dad, p.lson, p.rson, p.mp, p.out, p.putbuf, p.putlen, p.h,
        p.maxLen⟩
      rw [hsz, hip] at hc
      omega

/-! ### the 60 pre-start nodes -/

theorem insertBack_inv {x : Bytes} {m : Nat} {z : Tree} (text : TextInv (masterH x) m z) (hm : m ≤ 60)
    (tree : ∃ rank, TreeInv z (klOf (masterH x) 0) rank) (dead : ∀ p, p < 2048 → rd z.dad p = 2048)
    (mp : z.matchPosition < N) : ∀ i, i ≤ 60 →
    TextInv (masterH x) m (insertBack z 1988 i) ∧
    (∃ rank, TreeInv (insertBack z 1988 i) (klOf (masterH x) 0) rank) ∧
    (∀ p, p < 2048 → rd (insertBack z 1988 i).dad p ≠ 2048 → 1988 - i ≤ p ∧ p < 1988) ∧
    (insertBack z 1988 i).matchPosition < N := by
  intro i
  induction i with
  | zero =>
    intro _
    exact ⟨text, tree, fun p hp hl => absurd (dead p hp) hl, mp⟩
  | succ i ih =>
    intro hi
    obtain ⟨t1, ⟨rank, t2⟩, t3, t4⟩ := ih (by omega)
    show TextInv (masterH x) m (insertNode (insertBack z 1988 i) (1988 - (i + 1))) ∧
      (∃ rank, TreeInv (insertNode (insertBack z 1988 i) (1988 - (i + 1))) (klOf (masterH x) 0) rank) ∧
      (∀ p, p < 2048 → rd (insertNode (insertBack z 1988 i) (1988 - (i + 1))).dad p ≠ 2048 →
        1988 - (i + 1) ≤ p ∧ p < 1988) ∧
      (insertNode (insertBack z 1988 i) (1988 - (i + 1))).matchPosition < N
    generalize insertBack z 1988 i = zb at *
    have hdead : rd zb.dad (1988 - (i + 1)) = 2048 := by
      apply Decidable.byContradiction
      intro h
      have := t3 _ (by omega) h
      omega
    have hcur : zb.tb (1988 - (i + 1)) = (masterH x).getD (2047 - i) 0 :=
      t1.lookup (2047 - i) _ (by omega) (by omega) (by omega) (by omega) (by omega)
    obtain ⟨rank', u1, live, tbe, mok⟩ := insertNode_inv t2 (1988 - (i + 1)) (by omega) hdead t4
      (fun c _ => klOf_root _ 0 c)
    have hkl : (fun y => if y = 1988 - (i + 1) then (zb.tb (1988 - (i + 1))).toNat else klOf (masterH x) 0 y)
        = klOf (masterH x) 0 := by
      funext y
      by_cases hy : y = 1988 - (i + 1)
      · rw [if_pos hy, hy, hcur]
        unfold klOf
        rw [if_pos (by omega)]
        have : gpos 0 (1988 - (i + 1)) = 2047 - i := by unfold gpos; omega
        rw [this]
      · rw [if_neg hy]
    rw [hkl] at u1
    refine ⟨t1.congr tbe, ⟨rank', u1⟩, ?_, mok.pos_lt⟩
    intro p hp hl
    by_cases hpr : p = 1988 - (i + 1)
    · omega
    · have := t3 p hp (live p hp hpr hl)
      omega

/-! ### the whole run -/

attribute [local irreducible] mainLoop prefill insertBack insertNode

theorem new_cbits : CBits (Writer.new false) [] :=
  ⟨new_bits false, rfl, huffWF_init, Wl2k.Bits.new_inv false, fun _ h => nomatch h⟩

theorem encodeBody_ne (x : Bytes) (hx : x ≠ []) :
    encodeBody x =
      (((mainLoop
          { prefill { w := Writer.new false, inp := x.toArray } F with
            w := { (prefill { w := Writer.new false, inp := x.toArray } F).w with
                   z := insertNode (insertBack (prefill { w := Writer.new false, inp := x.toArray } F).w.z
                          (prefill { w := Writer.new false, inp := x.toArray } F).w.r F)
                        (prefill { w := Writer.new false, inp := x.toArray } F).w.r } }
          (x.length + 1)).w.encodeEnd).out.toList,
       (mainLoop
          { prefill { w := Writer.new false, inp := x.toArray } F with
            w := { (prefill { w := Writer.new false, inp := x.toArray } F).w with
                   z := insertNode (insertBack (prefill { w := Writer.new false, inp := x.toArray } F).w.z
                          (prefill { w := Writer.new false, inp := x.toArray } F).w.r F)
                        (prefill { w := Writer.new false, inp := x.toArray } F).w.r } }
          (x.length + 1)).maxLen) := by
  unfold encodeBody
  have : x.isEmpty = false := by cases x with
    | nil => exact absurd rfl hx
    | cons _ _ => rfl
  rw [this]
  simp only [Bool.false_eq_true, if_false]

/-- **the canonical encoder's output is a token stream that stands for its input**: if the longest Huffman
code emitted during the run has at most 16 bits (the capacity of LZHUF.C's code accumulator) — which is always
so for inputs of at most 3866 bytes — the body bits are `encTokens Huff.init ts` for a list `ts` of well-formed
tokens, followed by fewer than 8 zero bits, and `lzDecode ts = x`. -/
theorem canon_stream (x : Bytes) (hl : (encodeBody x).2 ≤ 16 ∨ x.length ≤ 3866) :
    (encodeBody x).2 ≤ 16 ∧
    ∃ (ts : List Token) (pad : List Bool), pad.length < 8 ∧ (∀ b ∈ pad, b = false) ∧
      bytesBits (encodeBody x).1 = encTokens Huff.init ts ++ pad ∧ (∀ t ∈ ts, t.ok) ∧ lzDecode ts = x := by
  by_cases hx : x = []
  · subst hx
    refine ⟨by decide, [], [], ?_, ?_, ?_, ?_, ?_⟩
    · decide
    · intro b hb; cases hb
    · rfl
    · intro t ht; cases ht
    · rw [lzDecode, List.foldl_nil, ← initHist_length]; simp
  · rw [encodeBody_ne x hx] at hl ⊢
    dsimp only at hl ⊢
    have hxl : 0 < x.length := List.length_pos_iff.mpr hx
    -- the start state
    have w0 := new_winv false x
    obtain ⟨f1, f2, f3, f4, f5⟩ := new_fields_w false
    have hz := new_z false
    have h0 : PFInv x { w := Writer.new false, inp := x.toArray } 0 { w := Writer.new false, inp := x.toArray } :=
      ⟨rfl, by show 0 = (Writer.new false).len; rw [f3], by show (Writer.new false).len = _; rw [f3]; omega,
       by show (Writer.new false).r = _; rw [f1]; rfl, rfl,
       by show TextInv (masterH x) (Writer.new false).len (Writer.new false).z; rw [f3]; exact w0.text,
       rfl, rfl, rfl, rfl, rfl, rfl, rfl, rfl, rfl⟩
    have p := prefill_inv h0 F (by decide)
    generalize prefill { w := Writer.new false, inp := x.toArray } F = e1 at p hl ⊢
    have hlen : e1.w.len = min 60 x.length := p.len
    -- the forest of the start state is empty
    obtain ⟨ti, hd⟩ := init_treeInv (klOf (masterH x) 0) (fun _ => 0)
    have hdad : e1.w.z.dad = Tree.init.dad := by rw [p.dad]; show (Writer.new false).z.dad = _; rw [hz]
    have hlson : e1.w.z.lson = Tree.init.lson := by rw [p.lson]; show (Writer.new false).z.lson = _; rw [hz]
    have hrson : e1.w.z.rson = Tree.init.rson := by rw [p.rson]; show (Writer.new false).z.rson = _; rw [hz]
    have hmp : e1.w.z.matchPosition < N := by
      rw [p.mp]; exact w0.mp
    obtain ⟨b1, b2, b3, b4⟩ := insertBack_inv p.text (by omega) ⟨_, ti.ofArrays hdad hlson hrson⟩
      (by rw [hdad]; exact hd) hmp 60 (Nat.le_refl _)
    have st := insert_stage' (a := 0) b1 (by intro q hq hlv; have := b3 q hq hlv; omega) b2 b4 (by omega) (by omega)
    have e1988 : (1988 + 0) % 2048 = 1988 := rfl
    rw [e1988] at st
    rw [p.r, F_eq]
    rw [p.r, F_eq] at hl
    have c : CLoop x e1.w.len 0
        { e1 with w := { e1.w with z := insertNode (insertBack e1.w.z 1988 60) 1988, r := 1988 } } [] :=
      ⟨p.inp, p.ipos, rfl, by show e1.w.s = _; rw [p.s]; exact f2, rfl, by show e1.w.len ≤ 60; omega, by omega,
       fun h => by have : e1.w.len < 60 := h; omega, fun _ => st,
       new_cbits.frame p.out p.putbuf p.putlen p.h⟩
    obtain ⟨r0, ts, r1, r2⟩ := mainLoop_inv (x.length + 1) _ e1.w.len 0 [] c (by show 1 ≤ e1.w.len; omega)
      (by
        rw [List.foldl_nil, masterH]
        have := initHist_length
        simp only [N_eq] at this
        rw [Nat.add_zero, List.take_left' this])
      (by omega)
      (by
        rcases hl with h | h
        · exact Or.inl h
        · exact Or.inr ⟨h, Nat.le_refl _, by show e1.maxLen ≤ 16; rw [p.maxLen]; exact Nat.zero_le _⟩)
    have e := encodeEnd_bits _ r1.binv
    rw [r1.bits] at e
    refine ⟨r0, ts, _, ?_, ?_, e, r1.ok, ?_⟩
    · rw [List.length_replicate]; omega
    · intro b hb; exact (List.mem_replicate.mp hb).2
    · rw [lzDecode, r2, masterH]
      have := initHist_length
      rw [List.drop_left' this]

end Wl2k.Lzhuf
