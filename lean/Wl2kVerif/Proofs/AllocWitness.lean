import Wl2kVerif.Proofs.LzTok
/-
Witness for the non-vacuity examples of `Props/C03_alloc.lean`: the 7-byte stream
`compress false (60 × ' ') = 3c 00 00 00 c5 1d 80` decodes to 60 bytes.

The kernel cannot evaluate a match on a fresh reader directly (the 2048-byte window is a 1988-fold nested
`setIfInBounds`; one `getD` on it exhausts the memory), so the witness goes through the token-level
semantics (`decode_tokens`): the body spells the encoding of the single token `mat 60 59` under the initial
Huffman state — the 8-bit code `11000101` of symbol 313, the 9 position bits `000111011`, 7 padding bits —
and that token stands for 60 spaces.
-/
namespace Wl2k.Lzhuf
open Wl2k Wl2k.Bits

/-- `compress false (60 × ' ')` -/
def bombStream : Bytes := [60, 0, 0, 0, 197, 29, 128]

set_option maxRecDepth 10000 in
theorem bomb_bits :
    bytesBits [197, 29, 128] = encTokens Huff.init [.mat 60 59] ++ List.replicate 7 false := by
  decide +kernel

theorem bomb_decode : lzDecode [.mat 60 59] = List.replicate 60 32 := by decide +kernel

/-- the reader `NewReader` returns for `bombStream` -/
def bombReader : Reader :=
  { h := Huff.init
    textBuf := fillBytes (Array.replicate (N + F - 1) 0) 32 (N - F)
    src := #[197, 29, 128]
    crc16 := false
    hcrc := 60
    size := 60
    sizeBytes := [60, 0, 0, 0]
    r := N - F }

end Wl2k.Lzhuf
