import Wl2kVerif.Proofs.Safe
import Wl2kVerif.Proofs.Run
/-
What a session buffers is bounded by what it has read (C03, "memory in proportion to the bytes received").
`Rcv p n Q`: run on ANY input of exactly `n` remaining bytes and ANY handler replies, if `p` returns `a`
with `m` bytes remaining then `Q a m`.  (`NF` of `Proofs/Term.lean` without the fuel clause: a panic —
the artificial "fuel" one included — returns nothing, so the statements hold for EVERY fuel value.)
-/
namespace Wl2k.B2F
open Wl2k

def Rcv {α : Type} : Proc α → Nat → (α → Nat → Prop) → Prop
  | .ret a, n, Q => Q a n
  | .readByte k, n, Q => (n = 0 → Rcv (k none) 0 Q) ∧ (∀ b, 0 < n → Rcv (k (some b)) (n - 1) Q)
  | .peek k, n, Q => (n = 0 → Rcv (k none) 0 Q) ∧ (∀ b, 0 < n → Rcv (k (some b)) n Q)
  | .write _ k, n, Q => Rcv k n Q
  | .call _ k, n, Q => ∀ r, Rcv (k r) n Q
  | .panic _, _, _ => True

theorem Rcv.mono {α : Type} {p : Proc α} : ∀ {n : Nat} {Q Q' : α → Nat → Prop},
    Rcv p n Q → (∀ a m, Q a m → Q' a m) → Rcv p n Q' := by
  induction p with
  | ret a => intro n Q Q' h hq; exact hq _ _ h
  | readByte k ih =>
    intro n Q Q' h hq
    exact ⟨fun h0 => ih none (h.1 h0) hq, fun b hb => ih (some b) (h.2 b hb) hq⟩
  | peek k ih =>
    intro n Q Q' h hq
    exact ⟨fun h0 => ih none (h.1 h0) hq, fun b hb => ih (some b) (h.2 b hb) hq⟩
  | write bs k ih => intro n Q Q' h hq; exact ih h hq
  | call c k ih => intro n Q Q' h hq r; exact ih r (h r) hq
  | panic s => intro n Q Q' _ _; trivial

theorem Rcv.bind {α β : Type} {p : Proc α} {f : α → Proc β} : ∀ {n : Nat} {Q' : α → Nat → Prop} {Q : β → Nat → Prop},
    Rcv p n Q' → (∀ a m, Q' a m → Rcv (f a) m Q) → Rcv (Proc.bind p f) n Q := by
  induction p with
  | ret a => intro n Q' Q h hf; exact hf _ _ h
  | readByte k ih =>
    intro n Q' Q h hf
    exact ⟨fun h0 => ih none (h.1 h0) hf, fun b hb => ih (some b) (h.2 b hb) hf⟩
  | peek k ih =>
    intro n Q' Q h hf
    exact ⟨fun h0 => ih none (h.1 h0) hf, fun b hb => ih (some b) (h.2 b hb) hf⟩
  | write bs k ih => intro n Q' Q h hf; exact ih h hf
  | call c k ih => intro n Q' Q h hf r; exact ih r (h r) hf
  | panic s => intro n Q' Q _ _; trivial

/-- soundness of `Rcv` for `Proc.run` -/
theorem run_rcv {α H : Type} (hstep : H → Call → H × Reply) {p : Proc α} :
    ∀ {Q : α → Nat → Prop} (inp : Bytes) (h : H) (tr : List Ev), Rcv p inp.length Q →
      match (Proc.run hstep p inp h tr) with
      | (.done a, inp', _) => Q a inp'.length
      | (.panicked _, _) => True
      | (.blocked, _) => True := by
  induction p with
  | ret a => intro Q inp h tr hn; simp only [Proc.run]; exact hn
  | readByte k ih =>
    intro Q inp h tr hn
    cases inp with
    | nil => simp only [Proc.run]; exact ih none [] h tr (hn.1 rfl)
    | cons b t =>
      simp only [Proc.run]
      exact ih (some b) t h tr (by simpa using hn.2 b (by simp))
  | peek k ih =>
    intro Q inp h tr hn
    cases inp with
    | nil => simp only [Proc.run]; exact ih none [] h tr (hn.1 rfl)
    | cons b t =>
      simp only [Proc.run]
      exact ih (some b) (b :: t) h _ (hn.2 b (by simp))
  | write bs k ih => intro Q inp h tr hn; simp only [Proc.run]; exact ih inp h _ hn
  | call c k ih => intro Q inp h tr hn; simp only [Proc.run]; exact ih _ inp _ _ (hn _)
  | panic s => intro Q inp h tr _; simp only [Proc.run]

theorem Rcv.ret {α : Type} {a : α} {n : Nat} {Q : α → Nat → Prop} (h : Q a n) : Rcv (.ret a) n Q := h
theorem Rcv.readByte {α : Type} {k : Option UInt8 → Proc α} {n : Nat} {Q : α → Nat → Prop}
    (h0 : n = 0 → Rcv (k none) 0 Q) (h1 : ∀ b, 0 < n → Rcv (k (some b)) (n - 1) Q) : Rcv (.readByte k) n Q := ⟨h0, h1⟩

/-- **No program un-reads**: whatever `p` is, it leaves at most the bytes it was given. -/
theorem Rcv.le {α : Type} (p : Proc α) : ∀ n, Rcv p n (fun _ m => m ≤ n) := by
  induction p with
  | ret a => intro n; exact Nat.le_refl n
  | readByte k ih =>
    intro n
    exact ⟨fun h0 => Rcv.mono (ih none 0) (fun _ m h => by omega),
      fun b _ => Rcv.mono (ih (some b) (n - 1)) (fun _ m h => by omega)⟩
  | peek k ih =>
    intro n
    exact ⟨fun h0 => Rcv.mono (ih none 0) (fun _ m h => by omega), fun b _ => ih (some b) n⟩
  | write bs k ih => intro n; exact ih n
  | call c k ih => intro n r; exact ih r n
  | panic s => intro n; trivial

/-- `readN len`: a block that was returned was read, byte for byte -/
theorem readN_rcv : ∀ (len n : Nat) (acc : Bytes),
    Rcv (readN len acc) n (fun r m => ∀ blk, r = some blk → blk.length + m = acc.length + n) := by
  intro len
  induction len with
  | zero =>
    intro n acc
    refine Rcv.ret ?_
    intro blk h
    cases h
    simp
  | succ len ih =>
    intro n acc
    unfold readN
    refine Rcv.readByte (fun _ => Rcv.ret (fun blk h => by cases h)) ?_
    intro b hb
    refine Rcv.mono (ih (n - 1) (b :: acc)) ?_
    intro r m h blk e
    have := h blk e
    simp only [List.length_cons] at this
    omega

/-- the postcondition of the block loop: the payload returned has been received (on top of what was
already in `buf`, and with at least the EOT byte), and it has exactly the declared compressed size -/
def blocksPost (csize : Int) (base n : Nat) (r : Except SErr Bytes) (m : Nat) : Prop :=
  ∀ pl, r = .ok pl → pl.length + m + 1 ≤ base + n ∧ csize = pl.length

theorem readBlocks_rcv (csize : Int) : ∀ (k n : Nat) (buf : Bytes) (sum : Nat),
    Rcv (readBlocks csize k buf sum) n (blocksPost csize buf.length n) := by
  intro k
  induction k with
  | zero => intro n buf sum; unfold readBlocks fuelOut; trivial
  | succ k ih =>
    intro n buf sum
    unfold readBlocks
    refine Rcv.readByte (fun _ => Rcv.ret (fun pl h => by cases h)) ?_
    intro c hc
    simp only
    have hblk : ∀ (len n' : Nat), n' ≤ n - 1 →
        Rcv (Proc.bind (readN len []) fun r =>
          match r with
          | none => .ret (.error .eof)
          | some blk => readBlocks csize k (buf ++ blk) ((sum + Wl2k.B2F.dataSum blk) % 256)) n'
          (blocksPost csize buf.length n) := by
      intro len n' hn'
      refine Rcv.bind (readN_rcv len n' []) ?_
      intro r m hm
      cases r with
      | none => exact Rcv.ret (fun pl h => by cases h)
      | some blk =>
        have hl := hm blk rfl
        simp only [List.length_nil] at hl
        refine Rcv.mono (ih m (buf ++ blk) _) ?_
        intro r' m' h pl e
        have := h pl e
        simp only [List.length_append] at this
        exact ⟨by omega, this.2⟩
    split
    · refine Rcv.readByte ?_ ?_
      · intro _; exact hblk _ 0 (Nat.zero_le _)
      · intro l _; exact hblk _ (n - 1 - 1) (by omega)
    · split
      · have hfin : ∀ (ck n' : Nat), n' ≤ n - 1 →
            Rcv (if (sum + ck) % 256 ≠ 0 then Proc.ret (Except.error (SErr.proto "bad-checksum"))
              else if csize ≠ (buf.length : Int) then .ret (.error (.proto "length-mismatch-after-eot"))
              else .ret (.ok buf)) n' (blocksPost csize buf.length n) := by
          intro ck n' hn'
          split
          · exact Rcv.ret (fun pl h => by cases h)
          · split
            · exact Rcv.ret (fun pl h => by cases h)
            · rename_i hcs
              refine Rcv.ret ?_
              intro pl h
              cases h
              exact ⟨by omega, Decidable.of_not_not hcs⟩
        refine Rcv.readByte ?_ ?_
        · intro _; exact Rcv.ret (fun pl h => by cases h)
        · intro x _; exact hfin _ (n - 1 - 1) (by omega)
      · exact Rcv.ret (fun pl h => by cases h)

/-- **`readCompressed`**: a payload that is returned has been received in full — plus at least SOH, the
header-length byte and EOT — whatever compressed size the proposal declared; and the size it declared is
the size it sent. -/
theorem readCompressed_rcv (fuel : Nat) (p : Proposal) (n : Nat) :
    Rcv (readCompressed fuel p) n (fun r m => ∀ pl, r = .ok pl → pl.length + m + 3 ≤ n ∧ p.csize = pl.length) := by
  unfold readCompressed
  refine Rcv.readByte (fun _ => Rcv.ret (fun pl h => by cases h)) ?_
  intro c hc
  simp only
  split
  · refine Rcv.bind (Rcv.le (nextLine fuel) (n - 1)) ?_
    intro _ m _
    exact Rcv.ret (fun pl h => by cases h)
  · split
    · exact Rcv.ret (fun pl h => by cases h)
    · refine Rcv.readByte (fun _ => Rcv.ret (fun pl h => by cases h)) ?_
      intro hl hhl
      simp only [bind_eq, pure_eq]
      refine Rcv.bind (Rcv.le (readString 0 fuel []) (n - 1 - 1)) ?_
      intro r1 m1 h1
      obtain ⟨title, eof1⟩ := r1
      split
      · exact Rcv.ret (fun pl h => by cases h)
      · refine Rcv.bind (Rcv.le (readString 0 fuel []) m1) ?_
        intro r2 m2 h2
        obtain ⟨off, eof2⟩ := r2
        split
        · exact Rcv.ret (fun pl h => by cases h)
        · split
          · split
            · exact Rcv.ret (fun pl h => by cases h)
            · split
              · exact Rcv.ret (fun pl h => by cases h)
              · split
                · exact Rcv.ret (fun pl h => by cases h)
                · refine Rcv.mono (readBlocks_rcv p.csize fuel m2 [] 0) ?_
                  intro r m h pl e
                  have := h pl e
                  simp only [List.length_nil] at this
                  exact ⟨by omega, this.2⟩
          · trivial

end Wl2k.B2F
