import Wl2kVerif.Proofs.Message3
import Wl2kVerif.Proofs.Date
namespace Wl2k.Msg
open Wl2k Wl2k.Textproto

/-! ### sections -/

theorem readString_crlf (r : Bytes) : readString (13 :: 10 :: r) = ([13, 10], r, false) := by
  have := splitLF_append [13] r (by decide)
  simp only [List.cons_append, List.nil_append] at this
  simp [readString, this]

theorem readSection_crlf (d r : Bytes) : readSection (d ++ 13 :: 10 :: r) (d.length : Int) = (d, none, r) := by
  have h0 : ¬ ((d.length : Int) < 0) := by omega
  simp [readSection, h0, readString_crlf, crlf9]

theorem readSection_eof (d : Bytes) : readSection d (d.length : Int) = (d, none, []) := by
  have h0 : ¬ ((d.length : Int) < 0) := by omega
  simp [readSection, h0, readString, splitLF]

def fileBytes (f : File) : Bytes := f.data ++ crlf9

theorem readFiles_ok (X : Ext) : ∀ (vs : List Bytes) (fs : List File), filesOK X vs fs = true →
    readFiles X (vs.map trimString) (fs.flatMap fileBytes) none = (fs, none)
  | [], [], _ => rfl
  | [], _ :: _, h => by simp [filesOK] at h
  | _ :: _, [], h => by simp [filesOK] at h
  | v :: vs, f :: fs, h => by
    simp only [filesOK, Bool.and_eq_true] at h
    obtain ⟨hf, hrest⟩ := h
    unfold fileOK at hf
    split at hf
    · rename_i sz nm hsp
      simp only [Bool.and_eq_true, beq_iff_eq] at hf
      obtain ⟨⟨hsz, hnm⟩, herr⟩ := hf
      have e : (f :: fs).flatMap fileBytes = f.data ++ 13 :: 10 :: fs.flatMap fileBytes := by
        simp [fileBytes, crlf9]
      simp only [List.map_cons, readFiles, hsp, hsz, e, readSection_crlf, readFiles_ok X vs fs hrest]
      cases f
      simp_all
    · simp at hf

/-! ### the written header is a list of well-formed lines -/

theorem mem_others {h : Header} {e : Bytes × List Bytes} : e ∈ others h ↔ e ∈ h ∧ isMidFold e.1 = false := by
  unfold others
  rw [(sortKeys_perm _).mem_iff, List.mem_filter]
  simp

theorem nodup_keys_others {h : Header} (hnd : (keys h).Nodup) : (keys (others h)).Nodup := by
  unfold others
  have hp : (keys (sortKeys (h.filter fun e => !isMidFold e.1))).Perm (keys (h.filter fun e => !isMidFold e.1)) :=
    (sortKeys_perm _).map _
  exact hp.nodup_iff.2 (nodup_keys_filter hnd)

theorem kMid_not_mem_others (h : Header) : kMid ∉ keys (others h) := by
  intro hm
  obtain ⟨vs, hvs⟩ := mem_of_mem_keys hm
  have := (mem_others.1 hvs).2
  simp only at this
  revert this; decide

theorem lookup_others (h : Header) (hnd : (keys h).Nodup) (k : Bytes) (hk : isMidFold k = false) :
    lookup (others h) k = lookup h k := by
  unfold others
  rw [← lookup_perm (sortKeys_perm _).symm ?_ k]
  · rw [show (h.filter fun e => !isMidFold e.1) = h.filter (fun e => (fun k => !isMidFold k) e.1) from rfl,
      lookup_filter (fun k => !isMidFold k) h k]
    simp [hk]
  · exact nodup_keys_filter hnd

theorem lookup_norm (h : Header) (hnd : (keys h).Nodup) (k : Bytes) (hk : isMidFold k = false) :
    lookup (normHeader h) k = (lookup h k).map trimString := by
  have hne : kMid ≠ k := by intro e; subst e; revert hk; decide
  simp only [normHeader, lookup, hne, if_false]
  rw [lookup_map_trim, lookup_others h hnd k hk]

theorem getRaw_norm (h : Header) (hnd : (keys h).Nodup) (k : Bytes) (hk : isMidFold k = false) :
    getRaw (normHeader h) k = trimString (getRaw h k) := by
  simp only [getRaw, lookup_norm h hnd k hk]
  cases lookup h k with
  | nil => rfl
  | cons a t => rfl

theorem length_le_flatMap_lineKV : ∀ (L : List (Bytes × Bytes)), L.length ≤ (L.flatMap lineKV).length
  | [] => by simp
  | p :: t => by
    have := length_le_flatMap_lineKV t
    simp only [List.flatMap_cons, List.length_append, List.length_cons]
    have : 1 ≤ (lineKV p).length := by simp [lineKV, line, crlf9]; omega
    omega

end Wl2k.Msg
