import Wl2kVerif.Proofs.AcceptBase
import Wl2kVerif.Proofs.EmitHs
/-
Acceptance proof (C05), WRITE-ONLY parts of the handshake: `sendHandshakeP` (with `askPasswords`) in the
`Emits` logic, and the input-grammar checker's `start` reading a master's MOTD lines and handshake write.
-/
namespace Wl2k.B2F
open Wl2k Wl2k.Str Wl2k.Strconv Wl2k.B2F.InGrammar Wl2k.B2F.Grammar

/-! ### (2) `start` over the master's own writes -/

theorem isPrint_not_ctl : ∀ b : UInt8, isPrint b = true → b ≠ 1 ∧ b ≠ 2 ∧ b ≠ 4 :=
  byte_table (by decide +kernel)

theorem motd_line_keep (l : Bytes) (h : motdOK l = true) :
    (!((l ++ [13]).head? == some 1 || (l ++ [13]).head? == some 2 || (l ++ [13]).head? == some 4)) = true := by
  cases l with
  | nil => decide
  | cons a t =>
    simp only [motdOK, Bool.and_eq_true, List.all_cons] at h
    obtain ⟨h1, h2, h4⟩ := isPrint_not_ctl a h.1.1.1.1.1
    simp [h1, h2, h4]

theorem getLast?_eq_head?_reverse (l : Bytes) : l.getLast? = l.reverse.head? := by
  simp

theorem motd_line_noprompt (l : Bytes) (h : motdOK l = true) : endsPrompt (l ++ [13]) = false := by
  simp only [motdOK, Bool.and_eq_true] at h
  have hl : l.getLast? ≠ some 62 := by simpa using h.1.1.1.2
  rw [getLast?_eq_head?_reverse] at hl
  simp only [endsPrompt, List.reverse_append, List.reverse_cons, List.reverse_nil, List.nil_append, List.cons_append]
  cases hr : l.reverse with
  | nil => decide
  | cons z r =>
    rw [hr] at hl
    simp only [List.head?_cons, ne_eq, Option.some.injEq] at hl
    simp [List.take, hl]

theorem head59_keep (w : Bytes) (hw : w.head? = some 59) :
    (!(w.head? == some 1 || w.head? == some 2 || w.head? == some 4)) = true := by
  rw [hw]; decide

theorem master_start (g : InCfg) (hm : g.master = true) (motd : List Bytes) (hmotd : ∀ l ∈ motd, motdOK l = true) (w : Bytes)
    (hw : w.head? = some 59) (hp : endsPrompt w = true) (W : List Bytes) :
    start g (lineWrites (motd.map (· ++ [13]) ++ [w] ++ W)) = .next (.hs false) (lineWrites W) := by
  induction motd with
  | nil =>
    simp only [List.map_nil, List.nil_append, List.cons_append]
    simp only [start, hm, if_true, lineWrites, List.filter_cons, head59_keep w hw, List.dropWhile_cons, hp, Bool.not_true,
      Bool.false_eq_true, if_false]
  | cons l t ih =>
    have ih := ih (fun x hx => hmotd x (by simp [hx]))
    have hl := hmotd l (by simp)
    simp only [start, hm, if_true] at ih ⊢
    simp only [List.map_cons, List.cons_append, lineWrites, List.filter_cons, motd_line_keep l hl, if_true,
      List.dropWhile_cons, motd_line_noprompt l hl, Bool.not_false] at ih ⊢
    exact ih
/-! ### (1) `sendHandshakeP` writes one handshake block -/

theorem endsPrompt_append (x : Bytes) : endsPrompt (x ++ [62, 13]) = true := by
  simp [endsPrompt, List.reverse_append]

theorem trailer_master (c : HsCfg) (hm : c.master = true) : ∃ x, trailer c = x ++ [62, 13] := by
  refine ⟨strBytes "; " ++ c.targetcall ++ strBytes " DE " ++ c.mycall ++ strBytes " (" ++ c.locator ++ strBytes ")", ?_⟩
  simp only [trailer, hm, if_true, lit_gtcr]

theorem sendHandshakeV_shape (c : HsCfg) (ch : Bytes) (views : List CbView) (bs : Bytes)
    (h : sendHandshakeV c ch views = some bs) :
    bs.head? = some 59 ∧ (c.master = true → endsPrompt bs = true) := by
  simp only [sendHandshakeV] at h
  split at h
  · cases h
  · split at h
    · cases h
    · simp only [Option.some.injEq] at h
      subst h
      refine ⟨?_, fun hm => ?_⟩
      · simp [fwLine, lit_fw]
      · obtain ⟨x, hx⟩ := trailer_master c hm
        rw [hx, ← List.append_assoc]
        exact endsPrompt_append _

theorem askPasswords_emits (g : InCfg) (c : Cfg) (ch : Bytes) : ∀ (is : List Nat) (acc : List CbView),
    Emits (RA g) (fun _ ws => ws = []) (askPasswords c ch is acc) := by
  intro is
  induction is with
  | nil => intro acc; exact .ret _ rfl
  | cons i is ih =>
    intro acc
    unfold askPasswords
    refine .call _ _ (fun r _ => ?_)
    cases r <;> exact ih _

theorem askPasswords_main_emits (g : InCfg) (hs : g.secure = true) (c : Cfg) (ch : Bytes) :
    Emits (RA g) (fun vs ws => ws = [] ∧ ∃ v, vs = [v] ∧ v.isErr = false) (askPasswords c ch [0] []) := by
  unfold askPasswords
  refine .call _ _ (fun r hr => ?_)
  obtain ⟨p, rfl⟩ := hr.2 hs rfl
  simp only [askPasswords]
  exact .ret _ ⟨rfl, _, rfl, rfl⟩

theorem sendHandshakeP_emits (g : InCfg) (c : Cfg) (ch : Bytes) (hsec : ch ≠ [] → g.secure = true ∧ c.hs.hasCb = true) :
    Emits (RA g) (fun r ws => r = .ok () ∧ ∃ w, ws = [w] ∧ w.head? = some 59 ∧ (c.hs.master = true → endsPrompt w = true))
      (sendHandshakeP c ch) := by
  unfold sendHandshakeP
  by_cases hch : ch = []
  · subst hch
    simp only [List.isEmpty_nil, Bool.not_true, Bool.false_eq_true, false_and, if_false, if_true]
    cases hv : sendHandshakeV c.hs [] [] with
    | none => simp [sendHandshakeV] at hv
    | some bs =>
      obtain ⟨h1, h2⟩ := sendHandshakeV_shape c.hs [] [] bs hv
      exact .write _ _ (.ret _ ⟨rfl, bs, rfl, h1, h2⟩)
  · obtain ⟨hg, hcb⟩ := hsec hch
    have hemp : ch.isEmpty = false := by cases ch with | nil => exact absurd rfl hch | cons _ _ => rfl
    simp only [hemp, hcb, Bool.not_true, Bool.false_eq_true, and_false, if_false, bind_eq]
    refine Emits.bind (askPasswords_emits g c ch _ []) (fun aux ws1 h1 => ?_)
    subst h1
    refine Emits.bind (askPasswords_main_emits g hg c ch) (fun main ws2 h2 => ?_)
    obtain ⟨rfl, v, rfl, hv⟩ := h2
    cases hs : sendHandshakeV c.hs ch ([v] ++ aux) with
    | none => simp [sendHandshakeV, hemp, hcb, hv] at hs
    | some bs =>
      obtain ⟨h1, h2⟩ := sendHandshakeV_shape c.hs ch _ bs hs
      exact .write _ _ (.ret _ ⟨rfl, bs, rfl, h1, h2⟩)
end Wl2k.B2F
