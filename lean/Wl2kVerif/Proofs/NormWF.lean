import Wl2kVerif.Proofs.Builder4
/-
The normal form of a well-formed message is well-formed (so the round trip can be iterated: what
`ReadFrom` returns for a serialised wf message is again in the domain of the theorems), and `norm`
is idempotent on it.
-/
namespace Wl2k.Msg
open Wl2k Wl2k.Textproto

theorem valueOK_trim {v : Bytes} (h : valueOK v = true) : valueOK (trimString v) = true := by
  simp only [valueOK, List.all_eq_true] at h ⊢
  intro b hb; exact h b (mem_trimWith hb)

theorem entryOK_trim {e : Bytes × List Bytes} (h : entryOK e = true) : entryOK (trimEntry e) = true := by
  simp only [entryOK, trimEntry, Bool.and_eq_true, List.all_eq_true, List.mem_map] at h ⊢
  refine ⟨⟨h.1.1, ?_⟩, ?_⟩
  · cases h2 : e.2 with
    | nil => simp [h2] at h
    | cons a t => simp
  · rintro x ⟨v, hv, rfl⟩; exact valueOK_trim (h.2 v hv)

theorem filesOK_trim (X : Ext) : ∀ (vs : List Bytes) (fs : List File), filesOK X vs fs = true →
    filesOK X (vs.map trimString) fs = true
  | [], [], _ => rfl
  | [], _ :: _, h => by simp [filesOK] at h
  | _ :: _, [], h => by simp [filesOK] at h
  | v :: vs, f :: fs, h => by
    simp only [filesOK, Bool.and_eq_true] at h
    simp only [List.map_cons, filesOK, Bool.and_eq_true]
    refine ⟨?_, filesOK_trim X vs fs h.2⟩
    have := h.1
    unfold fileOK at this ⊢
    rw [trimString_idem]; exact this

theorem norm_WFfacts {X : Ext} {m : Msg} (F : WFfacts X m) : WFfacts X (norm m) := by
  obtain ⟨v, hv, hne⟩ := F.mid
  have hg : getRaw m.header kMid = v := by simp [getRaw, hv]
  refine ⟨?_, ?_, ?_, ?_, ?_, ?_, ?_⟩
  · simp only [norm, normHeader, keys, List.map_cons, List.nodup_cons]
    have := keys_map_trim (others m.header)
    simp only [keys] at this
    rw [this]
    exact ⟨kMid_not_mem_others _, nodup_keys_others F.nodup⟩
  · intro e he
    simp only [norm, normHeader, List.mem_cons, List.mem_map] at he
    rcases he with rfl | ⟨e', he', rfl⟩
    · obtain ⟨vs, h1, h2⟩ := mem_lookup (h := m.header) (k := kMid) (v := v) (by simp [hv])
      have := F.entries _ h1
      simp only [entryOK, Bool.and_eq_true, List.all_eq_true] at this
      rw [hg]
      exact entryOK_single (by decide) (valueOK_trim (this.2 v h2))
    · exact entryOK_trim (F.entries _ (mem_others.1 he').1)
  · intro e he hm
    simp only [norm, normHeader, List.mem_cons, List.mem_map] at he
    rcases he with rfl | ⟨e', he', rfl⟩
    · rfl
    · have := (mem_others.1 he').2
      simp only [trimEntry] at hm
      simp [hm] at this
  · refine ⟨trimString v, by simp [norm, normHeader, lookup, hg], ?_⟩
    rw [trimString_idem]; exact hne
  · have := F.body
    simp only [norm, getRaw_norm _ F.nodup _ (by decide : isMidFold kBody = false), trimString_idem]
    exact this
  · simp only [norm, lookup_norm _ F.nodup _ (by decide : isMidFold kFile = false)]
    exact filesOK_trim X _ _ F.files
  · simp only [norm, getRaw_norm _ F.nodup _ (by decide : isMidFold kDate = false)]
    have hd := F.date
    simp only [dateWF, Bool.or_eq_true] at hd ⊢
    rcases hd with hd | hd
    · have : getRaw m.header kDate = [] := by simpa using hd
      left; rw [this]; rfl
    · obtain ⟨c, hc⟩ := Option.isSome_iff_exists.1 hd
      right; rw [parsePrimary_trimmed hc]; exact hd

theorem map_trimEntry_idem (h : Header) : (h.map trimEntry).map trimEntry = h.map trimEntry := by
  simp [List.map_map, Function.comp_def, trimEntry, trimString_idem]

theorem norm_idem {X : Ext} {m : Msg} (F : WFfacts X m) : norm (norm m) = norm m := by
  obtain ⟨v, hv, _⟩ := F.mid
  have hg : getRaw m.header kMid = v := by simp [getRaw, hv]
  have hg' : getRaw (normHeader m.header) kMid = trimString v := by simp [normHeader, getRaw, lookup, hv]
  simp only [norm]
  congr 1
  simp only [normHeader, hg', hg, trimString_idem]
  have := others_norm m.header
  simp only [normHeader, hg] at this
  rw [this, map_trimEntry_idem]
  simp [getRaw, lookup, trimString_idem]

end Wl2k.Msg
