import Wl2kVerif.Proofs.PairFetch
import Wl2kVerif.Proofs.PairPrefix
import Wl2kVerif.Proofs.FrameRT
import Wl2kVerif.Proofs.WireRT
import Wl2kVerif.Proofs.PairWire
/-
Forward simulation of one block (one sender turn against one receiver turn) at the level of `Proc.run`,
stated prefix-robustly: the input is the expected byte string or ANY PREFIX of it (link cut anywhere).
-/
namespace Wl2k.B2F
open Wl2k Wl2k.Fmt Wl2k.Str Wl2k.Strconv

variable {H : Type} (hstep : H → Call → H × Reply)

/-! ### lines -/

/-- `ReadString(delim)` on input that ends before the delimiter: everything, and EOF -/
theorem run_readString_eof (delim : UInt8) : ∀ (pre : Bytes) (fuel : Nat) (acc : Bytes) (h : H) (tr : List Ev),
    delim ∉ pre → pre.length < fuel →
    Proc.run hstep (readString delim fuel acc) pre h tr = (.done (acc.reverse ++ pre, true), [], h, tr) := by
  intro pre
  induction pre with
  | nil =>
    intro fuel acc h tr _ hf
    cases fuel with
    | zero => omega
    | succ f => simp [readString, Proc.run]
  | cons b t ih =>
    intro fuel acc h tr hn hf
    cases fuel with
    | zero => simp at hf
    | succ f =>
      simp only [List.mem_cons, not_or] at hn
      have hb : ¬ b = delim := fun e => hn.1 e.symm
      simp only [readString, Proc.run, hb, if_false]
      rw [ih f (b :: acc) h tr hn.2 (by simp at hf; omega)]
      simp

/-- `nextLine` on a complete line that is not a remote error line -/
theorem run_nextLine_ok (line rest : Bytes) (fuel : Nat) (h : H) (tr : List Ev) (h13 : (13 : UInt8) ∉ line)
    (hf : line.length < fuel) (herr : errLine (cleanString (line ++ [13])) = none) :
    Proc.run hstep (nextLine fuel) (line ++ 13 :: rest) h tr = (.done (.ok (cleanString (line ++ [13]))), rest, h, tr) := by
  unfold nextLine nextLineRemoteErr
  simp only [bind_eq, pure_eq]
  rw [run_bind, run_readString hstep 13 line fuel [] rest h tr h13 hf]
  simp [cleanStringC_eq, errLineC_eq, herr, Proc.run]

/-- `nextLine` on an incomplete line: the connection is lost -/
theorem run_nextLine_eof (pre : Bytes) (fuel : Nat) (h : H) (tr : List Ev) (h13 : (13 : UInt8) ∉ pre)
    (hf : pre.length < fuel) :
    Proc.run hstep (nextLine fuel) pre h tr = (.done (.error .eof), [], h, tr) := by
  unfold nextLine nextLineRemoteErr
  simp only [bind_eq, pure_eq]
  rw [run_bind, run_readString_eof hstep 13 pre fuel [] h tr h13 hf]
  simp [Proc.run]

/-- a prefix of `line ++ [13] ++ rest` either contains the whole line or is a prefix of `line` -/
theorem prefix_line_cases (line rest J : Bytes) (hJ : J <+: line ++ 13 :: rest) :
    (∃ J', J = line ++ 13 :: J' ∧ J' <+: rest) ∨ (J <+: line) := by
  by_cases hl : J.length ≤ line.length
  · right
    have h1 : line <+: line ++ 13 :: rest := List.prefix_append _ _
    exact List.prefix_of_prefix_length_le hJ h1 hl
  · left
    obtain ⟨sfx, hs⟩ := hJ
    have h1 : line ++ [13] <+: line ++ 13 :: rest := ⟨rest, by simp⟩
    have h2 : line ++ [13] <+: J := List.prefix_of_prefix_length_le h1 ⟨sfx, hs⟩ (by simp; omega)
    obtain ⟨J', hJ'⟩ := h2
    refine ⟨J', by rw [← hJ']; simp, ?_⟩
    refine ⟨sfx, ?_⟩
    have : line ++ 13 :: (J' ++ sfx) = line ++ 13 :: rest := by rw [← hs, ← hJ']; simp
    simpa using this

theorem not_mem_of_prefix {x : UInt8} {J line : Bytes} (hJ : J <+: line) (h : x ∉ line) : x ∉ J :=
  fun hx => h (hJ.subset hx)

/-! ### the receiver's line loop on a proposal block -/

/-- the proposal line the sender writes for `p` (without the CR) -/
def pl (p : Proposal) : Bytes := proposalLine p.code p.msgType p.mid p.size p.csize

/-- what the receiver reconstructs from that line -/
def recvProp (p : Proposal) : Proposal :=
  { code := p.code, msgType := p.msgType, mid := p.mid, size := p.size, csize := p.csize }

/-- wire validity of one proposal: its line survives `ReadString('\r')`, and
`parseProposal` (true for type-C proposals whose MID contains no blank/CR — the element lemma
`proposal_line_roundtrip`, here a hypothesis on the concrete block) -/
structure LineOK (p : Proposal) : Prop where
  code : p.code = 67
  no13 : (13 : UInt8) ∉ pl p
  parse : parseProposal (pl p) =
    some { code := p.code, msgType := p.msgType, mid := p.mid, size := p.size, csize := p.csize }

theorem pl_eq (p : Proposal) : ∃ t, pl p = 70 :: p.code :: 32 :: t := by
  refine ⟨p.msgType ++ [32] ++ p.mid ++ [32] ++ decInt p.size ++ [32] ++ decInt p.csize ++ [32, 48], ?_⟩
  simp [pl, proposalLine]

theorem pl_clean (p : Proposal) : cleanString (pl p ++ [13]) = pl p := by
  have : pl p = 70 :: ((p.code :: 32 :: (p.msgType ++ [32] ++ p.mid ++ [32] ++ decInt p.size ++ [32] ++ decInt p.csize ++ [32])) ++ [48]) := by
    simp [pl, proposalLine]
  rw [this]
  exact cleanString_line 70 _ 48 solid_F solid_0

theorem sb_PM : sb ";PM" = [59, 80, 77] := by decide +kernel
theorem sb_semi : sb ";" = [59] := by decide +kernel

theorem errLine_F (t : Bytes) : errLine (70 :: t) = none := by
  simp [errLine]

variable (c : Cfg) (fuel : Nat)

theorem inboundLoop_step_eof (n : Nat) (props : List Proposal) (sum : Nat) (st : SState) (J : Bytes) (h : H) (tr : List Ev)
    (h13 : (13 : UInt8) ∉ J) (hf : J.length < fuel) :
    Proc.run hstep (inboundLoop c fuel (n + 1) props sum st) J h tr = (.done (.error .eof), [], h, tr) := by
  unfold inboundLoop
  simp only [bind_eq, pure_eq]
  rw [run_bind, run_nextLine_eof hstep J fuel h tr h13 hf]
  simp [Proc.run]

theorem inboundLoop_step_prop (n : Nat) (props : List Proposal) (sum : Nat) (st : SState) (p : Proposal) (rest : Bytes)
    (h : H) (tr : List Ev) (hp : LineOK p) (hf : (pl p).length < fuel) :
    Proc.run hstep (inboundLoop c fuel (n + 1) props sum st) (pl p ++ 13 :: rest) h tr =
      Proc.run hstep (inboundLoop c fuel n (props ++ [recvProp p]) (sum + lineSum (pl p)) st) rest h tr := by
  obtain ⟨t, ht⟩ := pl_eq p
  have hlen : 2 ≤ (pl p).length := by rw [ht]; simp
  conv => lhs; unfold inboundLoop
  simp only [bind_eq, pure_eq]
  rw [run_bind, run_nextLine_ok hstep (pl p) rest fuel h tr hp.no13 hf (by rw [pl_clean, ht]; exact errLine_F _)]
  simp only [pl_clean]
  rw [cmdByteC_eq _ hlen, parseProposalC_eq _ hlen, hp.parse]
  have h1 : (sb ";PM").isPrefixOf (pl p) = false := by rw [sb_PM, ht]; simp [List.isPrefixOf]
  have h2 : ¬ ((pl p).isEmpty = true ∨ (pl p).head? = some 59) := by rw [ht]; simp
  have h3 : ¬ ((pl p).length < 2 ∨ (pl p).head? ≠ some 70) := by rw [ht]; simp
  have h4 : (pl p).getD 1 0 = 67 := by rw [ht]; simp [hp.code]
  simp only [h1, Bool.false_eq_true, if_false, h2, h3, h4]
  simp [recvProp]

/-- the prompt line without its CR -/
def promptBody (n : Nat) : Bytes := [70, 62, 32] ++ hex02 n

set_option maxRecDepth 100000 in
theorem prompt_facts : ∀ n, n < 256 → ((13 : UInt8) ∉ promptBody n ∧ cleanString (promptBody n ++ [13]) = promptBody n ∧
    (parseHex64 (trimSpaceU ((promptBody n).drop 2))).1 = (n : Int) ∧ (promptBody n).length = 5) := by
  decide +kernel

theorem negMod256_lt (s : Nat) : negMod256 s < 256 := by unfold negMod256; omega

theorem promptLine_eq (sum : Nat) : promptLine sum = promptBody (negMod256 sum) ++ [13] := by
  simp [promptLine, promptBody]

theorem inboundLoop_step_prompt (n : Nat) (props : List Proposal) (sum : Nat) (st : SState) (rest : Bytes)
    (h : H) (tr : List Ev) (hne : props ≠ []) (hf : 5 < fuel) :
    Proc.run hstep (inboundLoop c fuel (n + 1) props sum st) (promptLine sum ++ rest) h tr =
      Proc.run hstep ((writeProposalsAnswer c props).bind fun ps =>
        Proc.ret (Except.ok (false, ps, { st with remoteNoMsgs := false }))) rest h tr := by
  obtain ⟨f1, f2, f3, f4⟩ := prompt_facts (negMod256 sum) (negMod256_lt sum)
  have ht : ∃ t, promptBody (negMod256 sum) = 70 :: 62 :: 32 :: t := ⟨_, rfl⟩
  obtain ⟨t, ht⟩ := ht
  have hlen : 2 ≤ (promptBody (negMod256 sum)).length := by omega
  conv => lhs; unfold inboundLoop
  simp only [bind_eq, pure_eq]
  rw [promptLine_eq, List.append_assoc, List.singleton_append, run_bind,
    run_nextLine_ok hstep _ rest fuel h tr f1 (by omega) (by rw [f2, ht]; exact errLine_F _)]
  simp only [f2]
  rw [cmdByteC_eq _ hlen, promptFieldC_eq _ hlen]
  have h1 : (sb ";PM").isPrefixOf (promptBody (negMod256 sum)) = false := by rw [sb_PM, ht]; simp [List.isPrefixOf]
  have h2 : ¬ ((promptBody (negMod256 sum)).isEmpty = true ∨ (promptBody (negMod256 sum)).head? = some 59) := by
    rw [ht]; simp
  have h3 : ¬ ((promptBody (negMod256 sum)).length < 2 ∨ (promptBody (negMod256 sum)).head? ≠ some 70) := by
    rw [ht]; simp
  have h4 : (promptBody (negMod256 sum)).getD 1 0 = 62 := by rw [ht]; simp
  have h5 : props.isEmpty = false := by cases props <;> simp_all
  simp only [h1, Bool.false_eq_true, if_false, h2, h3, h4, f3, h5]
  simp

/-- the bytes of the proposal lines, each with its CR -/
def blockBytes (ps : List Proposal) : Bytes := (ps.map fun p => pl p ++ [13]).flatten

/-- the running block checksum after the lines of `ps` -/
def blockSum (sum : Nat) (ps : List Proposal) : Nat := (ps.map fun p => lineSum (pl p)).foldl (· + ·) sum

/-- what the line loop continues with once the block and its prompt have been read -/
def answerTail (props : List Proposal) (st : SState) : Proc (Except SErr (Bool × List Proposal × SState)) :=
  (writeProposalsAnswer c props).bind fun ps => Proc.ret (Except.ok (false, ps, { st with remoteNoMsgs := false }))

/-- **The receiver's line loop on (any prefix of) a proposal block**: on the whole block + prompt it goes
on to answer exactly the proposals sent; on any shorter prefix it reports a lost connection without
having produced any event. -/
theorem run_inboundLoop_block (st : SState) (h : H) (tr : List Ev) (hfuel : 5 < fuel) :
    ∀ (ps props : List Proposal) (sum n : Nat), (∀ p ∈ ps, LineOK p ∧ (pl p).length < fuel) → ps.length < n →
      props ++ ps ≠ [] → ∀ (rest J : Bytes), J <+: blockBytes ps ++ (promptLine (blockSum sum ps) ++ rest) →
      (∃ J2, J = blockBytes ps ++ (promptLine (blockSum sum ps) ++ J2) ∧ J2 <+: rest ∧
        Proc.run hstep (inboundLoop c fuel n props sum st) J h tr =
          Proc.run hstep (answerTail c (props ++ ps.map recvProp) st) J2 h tr) ∨
      (J.length < (blockBytes ps ++ promptLine (blockSum sum ps)).length ∧
        Proc.run hstep (inboundLoop c fuel n props sum st) J h tr = (.done (.error .eof), [], h, tr)) := by
  intro ps
  induction ps with
  | nil =>
    intro props sum n _ hn hne rest J hJ
    cases n with
    | zero => simp at hn
    | succ n =>
      simp only [blockBytes, List.map_nil, List.flatten_nil, List.nil_append, blockSum, List.foldl_nil] at hJ ⊢
      obtain ⟨f1, _, _, f4⟩ := prompt_facts (negMod256 sum) (negMod256_lt sum)
      rw [promptLine_eq, List.append_assoc, List.singleton_append] at hJ
      rcases prefix_line_cases _ _ _ hJ with ⟨J', rfl, hJ'⟩ | hJ'
      · left
        refine ⟨J', by rw [promptLine_eq]; simp, hJ', ?_⟩
        have := inboundLoop_step_prompt hstep c fuel n props sum st J' h tr (by simpa using hne) hfuel
        rw [promptLine_eq, List.append_assoc, List.singleton_append] at this
        simpa [answerTail] using this
      · right
        refine ⟨?_, inboundLoop_step_eof hstep c fuel n props sum st J h tr (not_mem_of_prefix hJ' f1)
          (by have := hJ'.length_le; omega)⟩
        have := hJ'.length_le
        rw [promptLine_eq]
        simp only [List.length_append, List.length_cons, List.length_nil]
        omega
  | cons p ps ih =>
    intro props sum n hok hn hne rest J hJ
    cases n with
    | zero => simp at hn
    | succ n =>
      obtain ⟨hp, hpf⟩ := hok p (by simp)
      have hb : blockBytes (p :: ps) = pl p ++ 13 :: blockBytes ps := by simp [blockBytes]
      have hs : blockSum sum (p :: ps) = blockSum (sum + lineSum (pl p)) ps := by simp [blockSum]
      rw [hb, hs, List.append_assoc, List.cons_append] at hJ
      rcases prefix_line_cases _ _ _ hJ with ⟨J', rfl, hJ'⟩ | hJ'
      · rw [inboundLoop_step_prop hstep c fuel n props sum st p J' h tr hp hpf]
        rcases ih (props ++ [recvProp p]) (sum + lineSum (pl p)) n (fun q hq => hok q (by simp [hq]))
          (by simp at hn; omega) (by simp) rest J' hJ' with ⟨J2, rfl, hJ2, hrun⟩ | ⟨hlt, hrun⟩
        · left
          refine ⟨J2, by rw [hb, hs]; simp, hJ2, ?_⟩
          rw [hrun]; simp
        · right
          refine ⟨?_, hrun⟩
          rw [hb, hs]
          simp only [List.length_append, List.length_cons] at hlt ⊢
          omega
      · right
        refine ⟨?_, inboundLoop_step_eof hstep c fuel n props sum st J h tr (not_mem_of_prefix hJ' hp.no13)
          (by have := hJ'.length_le; omega)⟩
        have := hJ'.length_le
        rw [hb]
        simp only [List.length_append, List.length_cons]
        omega

/-! ### the receiver's answers -/

def setAns (p : Proposal) (a : UInt8) : Proposal := { p with answer := a }

/-- in state `h` the handler answers every proposal with '+', '-' or '=' (and does not change state doing so) -/
def AnswersPlainAt (h : H) : Prop := ∀ (v : PropView), ∃ a, hstep h (.getInboundAnswer v) = (h, .answer a) ∧ PlainAnswer a

theorem preAnswer_zip (hh : Bool) : ∀ (ps : List Proposal) (seen : List Bytes),
    ∃ as0 : List UInt8, as0.length = ps.length ∧ preAnswer hh ps seen = List.zipWith setAns ps as0 ∧
      ∀ a ∈ as0, a = 0 ∨ a = ansDefer := by
  intro ps
  induction ps with
  | nil => intro seen; exact ⟨[], rfl, rfl, by intro a ha; cases ha⟩
  | cons p ps ih =>
    intro seen
    obtain ⟨as0, h1, h2, h3⟩ := ih (p.mid :: seen)
    refine ⟨_ :: as0, by simp [h1], by simp only [preAnswer, List.zipWith_cons_cons, h2]; rfl, ?_⟩
    intro a ha
    simp only [List.mem_cons] at ha
    rcases ha with rfl | ha
    · split
      · exact Or.inr rfl
      · split
        · exact Or.inr rfl
        · split
          · exact Or.inr rfl
          · exact Or.inl rfl
    · exact h3 a ha

theorem askEach_run (J : Bytes) (h : H) (hans : AnswersPlainAt hstep h) : ∀ (ps acc : List Proposal) (tr : List Ev),
    (∀ p ∈ ps, p.answer = 0 ∨ PlainAnswer p.answer) →
    ∃ (as : List UInt8) (evs : List Ev), as.length = ps.length ∧ (∀ a ∈ as, PlainAnswer a) ∧
      (∀ e ∈ evs, e.isAnswerCall = true) ∧
      Proc.run hstep (askEach ps acc) J h tr = (.done (acc.reverse ++ List.zipWith setAns ps as), J, h, evs ++ tr) := by
  intro ps
  induction ps with
  | nil =>
    intro acc tr _
    exact ⟨[], [], rfl, (by intro a ha; cases ha), (by intro e he; cases he), (by simp [askEach, Proc.run])⟩
  | cons p ps ih =>
    intro acc tr hp
    have hp' : ∀ q ∈ ps, q.answer = 0 ∨ PlainAnswer q.answer := fun q hq => hp q (by simp [hq])
    unfold askEach
    by_cases h0 : p.answer = 0
    · obtain ⟨a, ha1, ha2⟩ := hans (viewOf p)
      obtain ⟨as, evs, h1, h2, h3, h4⟩ := ih (setAns p a :: acc) (.called (.getInboundAnswer (viewOf p)) :: tr) hp'
      refine ⟨a :: as, evs ++ [.called (.getInboundAnswer (viewOf p))], by simp [h1], ?_, ?_, ?_⟩
      · intro x hx
        simp only [List.mem_cons] at hx
        rcases hx with rfl | hx
        · exact ha2
        · exact h2 x hx
      · intro e he
        simp only [List.mem_append, List.mem_singleton] at he
        rcases he with he | rfl
        · exact h3 e he
        · rfl
      · have hne : ¬ (p.answer ≠ 0) := by simpa using h0
        simp only [hne, if_false, Proc.run, ha1]
        have := h4
        simp only [setAns] at this ⊢
        rw [this]
        simp [setAns]
    · have hpl : PlainAnswer p.answer := by
        rcases hp p (by simp) with h | h
        · exact absurd h h0
        · exact h
      obtain ⟨as, evs, h1, h2, h3, h4⟩ := ih (p :: acc) tr hp'
      refine ⟨p.answer :: as, evs, by simp [h1], ?_, h3, ?_⟩
      · intro x hx
        simp only [List.mem_cons] at hx
        rcases hx with rfl | hx
        · exact hpl
        · exact h2 x hx
      · have hne : p.answer ≠ 0 := h0
        rw [if_pos hne, h4]
        simp [setAns]

theorem zipWith_setAns_twice : ∀ (ps : List Proposal) (as0 as : List UInt8),
    List.zipWith setAns (List.zipWith setAns ps as0) as = List.zipWith setAns ps (List.zipWith (fun _ a => a) as0 as) := by
  intro ps
  induction ps with
  | nil => intro as0 as; simp
  | cons p ps ih =>
    intro as0 as
    cases as0 with
    | nil => simp
    | cons a0 as0 =>
      cases as with
      | nil => simp
      | cons a as => simp [ih, setAns]

theorem zipWith_snd {α : Type} : ∀ (xs : List α) (ys : List UInt8), xs.length = ys.length →
    List.zipWith (fun _ a => a) xs ys = ys := by
  intro xs
  induction xs with
  | nil => intro ys h; cases ys <;> simp_all
  | cons x xs ih =>
    intro ys h
    cases ys with
    | nil => simp at h
    | cons y ys => simp at h; simp [ih ys h]

theorem map_answer_zip : ∀ (ps : List Proposal) (as : List UInt8), as.length = ps.length →
    (List.zipWith setAns ps as).map (·.answer) = as := by
  intro ps
  induction ps with
  | nil => intro as h; cases as <;> simp_all
  | cons p ps ih =>
    intro as h
    cases as with
    | nil => simp at h
    | cons a as => simp at h; simp [setAns, ih as h]

/-- **`writeProposalsAnswer`, unbatched**: the handler is asked, one `FS` line with one plain answer per
proposal is written, and the proposals come back unchanged except for their answers. -/
theorem run_writeProposalsAnswer (hnb : c.batched = false) (props : List Proposal)
    (J : Bytes) (h : H) (hans : AnswersPlainAt hstep h) (tr : List Ev) :
    ∃ (as : List UInt8) (evs : List Ev), as.length = props.length ∧ (∀ a ∈ as, PlainAnswer a) ∧
      (∀ e ∈ evs, e.isAnswerCall = true) ∧
      Proc.run hstep (writeProposalsAnswer c props) J h tr =
        (.done (List.zipWith setAns props as), J, h, .wrote (fsPrefix ++ as ++ [13]) :: (evs ++ tr)) := by
  obtain ⟨as0, h01, h02, h03⟩ := preAnswer_zip c.hasHandler props []
  have hpre : ∀ p ∈ preAnswer c.hasHandler props [], p.answer = 0 ∨ PlainAnswer p.answer := by
    intro p hp
    rw [h02] at hp
    obtain ⟨i, hi, rfl⟩ := List.getElem_of_mem hp
    simp only [List.getElem_zipWith, setAns]
    rcases h03 (as0[i]'(by simp at hi; omega)) (List.getElem_mem _) with h | h
    · exact Or.inl h
    · exact Or.inr (Or.inr (Or.inr h))
  obtain ⟨as, evs, h1, h2, h3, h4⟩ := askEach_run hstep J h hans (preAnswer c.hasHandler props []) [] tr hpre
  have hlen : as.length = props.length := by rw [h1, h02]; simp [h01]
  refine ⟨as, evs, hlen, h2, h3, ?_⟩
  unfold writeProposalsAnswer
  simp only [bind_eq, pure_eq, hnb, Bool.false_eq_true, false_and, if_false]
  rw [run_bind, h4]
  simp only [List.reverse_nil, List.nil_append, Proc.run, sb_FS]
  rw [h02, zipWith_setAns_twice, zipWith_snd as0 as (by omega), map_answer_zip props as hlen]

end Wl2k.B2F
