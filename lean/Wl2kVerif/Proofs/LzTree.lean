import Wl2kVerif.Proofs.LzTok
/-
C06 — the LZSS search tree (`Lzhuf/Tree.lean`): what `insertNode` / `deleteNode` do, independent of any
tree invariant.  `insertLoop_spec`: the descent never changes the arrays; it ends by attaching `r` below the
last node visited, or by replacing a node whose string matched in full length, and the match it reports
refers to a node it visited, with bytes `1 .. matchLength−1` equal (byte 0 is never compared).
-/
namespace Wl2k.Lzhuf

/-! ### `compareFrom` -/

theorem compareFrom_spec (z : Tree) (r p : Nat) : ∀ (fuel i0 i : Nat) (cmp : Int),
    compareFrom z r p i0 fuel = (i, cmp) →
    i0 ≤ i ∧ (i0 ≤ F → i ≤ F) ∧ ∀ k, i0 ≤ k → k < i → z.tb (r + k) = z.tb (p + k) := by
  intro fuel
  induction fuel with
  | zero =>
    intro i0 i cmp h
    simp only [compareFrom, Prod.mk.injEq] at h
    exact ⟨by omega, fun _ => by omega, fun k h1 h2 => by omega⟩
  | succ fuel ih =>
    intro i0 i cmp h
    unfold compareFrom at h
    by_cases hi : i0 < F
    · rw [if_pos hi] at h
      dsimp only at h
      by_cases hc : ((z.tb (r + i0)).toNat : Int) - ((z.tb (p + i0)).toNat : Int) ≠ 0
      · rw [if_pos hc] at h
        simp only [Prod.mk.injEq] at h
        exact ⟨by omega, fun _ => by omega, fun k h1 h2 => by omega⟩
      · rw [if_neg hc] at h
        obtain ⟨a1, a2, a3⟩ := ih (i0 + 1) i cmp h
        refine ⟨by omega, fun _ => a2 (by omega), ?_⟩
        intro k h1 h2
        by_cases hk : k = i0
        · subst hk
          have : (z.tb (r + k)).toNat = (z.tb (p + k)).toNat := by omega
          exact UInt8.toNat_inj.mp this
        · exact a3 k (by omega) h2
    · rw [if_neg hi] at h
      simp only [Prod.mk.injEq] at h
      exact ⟨by omega, fun _ => by omega, fun k h1 h2 => by omega⟩

/-! ### the final steps of `insertLoop` -/

def attachR (z : Tree) (r p : Nat) : Tree := { z with rson := wr z.rson p r, dad := wr z.dad r p }
def attachL (z : Tree) (r p : Nat) : Tree := { z with lson := wr z.lson p r, dad := wr z.dad r p }

/-- same arrays; only `matchLength` / `matchPosition` may differ -/
structure SameArr (z z' : Tree) : Prop where
  dad : z'.dad = z.dad
  lson : z'.lson = z.lson
  rson : z'.rson = z.rson
  textBuf : z'.textBuf = z.textBuf

theorem SameArr.refl (z : Tree) : SameArr z z := ⟨rfl, rfl, rfl, rfl⟩
theorem SameArr.trans {a b c : Tree} (x : SameArr a b) (y : SameArr b c) : SameArr a c :=
  ⟨y.dad.trans x.dad, y.lson.trans x.lson, y.rson.trans x.rson, y.textBuf.trans x.textBuf⟩

theorem SameArr.tb {z z' : Tree} (s : SameArr z z') (i : Nat) : z'.tb i = z.tb i := by
  unfold Tree.tb; rw [s.textBuf]

/-- the reported match: length at most `F`, position below `N`, and — when longer than `THRESHOLD` — it
refers to a node `q` satisfying `G` whose bytes `1 .. matchLength−1` equal those at `r` -/
structure MatchOK (r : Nat) (G : Nat → Prop) (z : Tree) : Prop where
  len_le : z.matchLength ≤ F
  pos_lt : z.matchPosition < N
  valid : THRESHOLD < z.matchLength → ∃ q, G q ∧ z.matchPosition = (r + N - q) % N - 1 ∧
    ∀ i, 1 ≤ i → i < z.matchLength → z.tb (r + i) = z.tb (q + i)

/-- how the descent can end -/
inductive InsertEnd (r p0 : Nat) (G : Nat → Prop) (z : Tree) (res : Tree) : Prop
  /-- fuel exhausted (never happens on a well-formed tree; harmless: `r` is simply not inserted) -/
  | fuel (zf : Tree) : SameArr z zf → MatchOK r G zf → res = zf → InsertEnd r p0 G z res
  | right (zf : Tree) (p : Nat) : SameArr z zf → MatchOK r G zf → (p = p0 ∨ G p) → rd z.rson p = NIL →
      res = attachR zf r p → InsertEnd r p0 G z res
  | left (zf : Tree) (p : Nat) : SameArr z zf → MatchOK r G zf → G p → rd z.lson p = NIL →
      res = attachL zf r p → InsertEnd r p0 G z res
  | replace (zf : Tree) (p : Nat) : SameArr z zf → MatchOK r G zf → G p → res = replaceNode zf r p →
      InsertEnd r p0 G z res

theorem InsertEnd.ofSame {r p0 : Nat} {G : Nat → Prop} {z z1 res : Tree} (s : SameArr z z1)
    (e : InsertEnd r p0 G z1 res) : InsertEnd r p0 G z res := by
  cases e with
  | fuel zf a b c => exact .fuel zf (s.trans a) b c
  | right zf p a b c d e => exact .right zf p (s.trans a) b c (by rw [← s.rson]; exact d) e
  | left zf p a b c d e => exact .left zf p (s.trans a) b c (by rw [← s.lson]; exact d) e
  | replace zf p a b c d => exact .replace zf p (s.trans a) b c d

theorem step_good (z : Tree) (p0 p q : Nat) (cmp : Int) (G : Nat → Prop)
    (hR : ∀ a, (a = p0 ∨ G a) → rd z.rson a ≠ NIL → G (rd z.rson a))
    (hL : ∀ a, G a → rd z.lson a ≠ NIL → G (rd z.lson a))
    (hp : (p = p0 ∧ cmp ≥ 0) ∨ G p)
    (hs : (if cmp ≥ 0 then (if rd z.rson p ≠ NIL then some (rd z.rson p) else none)
           else (if rd z.lson p ≠ NIL then some (rd z.lson p) else none)) = some q) : G q := by
  by_cases hc : cmp ≥ 0
  · rw [if_pos hc] at hs
    by_cases h : rd z.rson p ≠ NIL
    · rw [if_pos h] at hs
      injection hs with e
      subst e
      exact hR p (hp.elim (fun h => Or.inl h.1) Or.inr) h
    · rw [if_neg h] at hs; cases hs
  · rw [if_neg hc] at hs
    have hg : G p := hp.elim (fun h => absurd h.2 hc) id
    by_cases h : rd z.lson p ≠ NIL
    · rw [if_pos h] at hs
      injection hs with e
      subst e
      exact hL p hg h
    · rw [if_neg h] at hs; cases hs

theorem insertLoop_spec (r p0 : Nat) (G : Nat → Prop) (z : Tree) (p : Nat) (cmp : Int) (fuel : Nat)
    (hR : ∀ a, (a = p0 ∨ G a) → rd z.rson a ≠ NIL → G (rd z.rson a))
    (hL : ∀ a, G a → rd z.lson a ≠ NIL → G (rd z.lson a))
    (hp : (p = p0 ∧ cmp ≥ 0) ∨ G p) (hm : MatchOK r G z) :
    InsertEnd r p0 G z (insertLoop z r p cmp fuel) := by
  fun_induction insertLoop z r p cmp fuel with
  | case1 z p cmp => exact .fuel z (SameArr.refl z) hm rfl
  | case2 z p cmp n step hs hc =>
    have hn : rd z.rson p = NIL := by
      simp only [step, if_pos hc] at hs
      by_cases h : rd z.rson p ≠ NIL
      · rw [if_pos h] at hs; cases hs
      · exact Decidable.of_not_not h
    exact .right z p (SameArr.refl z) hm (hp.elim (fun h => Or.inl h.1) Or.inr) hn rfl
  | case3 z p cmp n step hs hc =>
    have hn : rd z.lson p = NIL := by
      simp only [step, if_neg hc] at hs
      by_cases h : rd z.lson p ≠ NIL
      · rw [if_pos h] at hs; cases hs
      · exact Decidable.of_not_not h
    have hg : G p := hp.elim (fun h => absurd h.2 hc) id
    exact .left z p (SameArr.refl z) hm hg hn rfl
  | case4 z p cmp n step q hs i cmp' hcf hi pos hgt z1 hF =>
    have hq : G q := step_good z p0 p q cmp G hR hL hp hs
    obtain ⟨c1, c2, c3⟩ := compareFrom_spec z r q F 1 i cmp' hcf
    refine .replace z1 q ⟨rfl, rfl, rfl, rfl⟩ ⟨c2 (by decide), ?_, ?_⟩ hq rfl
    · show (r + N - q) % N - 1 < N
      have := Nat.mod_lt (r + N - q) (show 0 < N by decide); omega
    · intro _
      exact ⟨q, hq, rfl, fun k h1 h2 => c3 k h1 h2⟩
  | case5 z p cmp n step q hs i cmp' hcf hi pos hgt z1 hF ih =>
    have hq : G q := step_good z p0 p q cmp G hR hL hp hs
    obtain ⟨c1, c2, c3⟩ := compareFrom_spec z r q F 1 i cmp' hcf
    refine InsertEnd.ofSame (z1 := z1) ⟨rfl, rfl, rfl, rfl⟩ (ih hR hL (Or.inr hq) ⟨c2 (by decide), ?_, ?_⟩)
    · show (r + N - q) % N - 1 < N
      have := Nat.mod_lt (r + N - q) (show 0 < N by decide); omega
    · intro _
      exact ⟨q, hq, rfl, fun k h1 h2 => c3 k h1 h2⟩
  | case6 z p cmp n step q hs i cmp' hcf hi pos hle heq ih =>
    have hq : G q := step_good z p0 p q cmp G hR hL hp hs
    obtain ⟨c1, c2, c3⟩ := compareFrom_spec z r q F 1 i cmp' hcf
    refine InsertEnd.ofSame (z1 := { z with matchPosition := pos }) ⟨rfl, rfl, rfl, rfl⟩
      (ih hR hL (Or.inr hq) ⟨hm.len_le, ?_, ?_⟩)
    · show (r + N - q) % N - 1 < N
      have := Nat.mod_lt (r + N - q) (show 0 < N by decide); omega
    · intro _
      exact ⟨q, hq, rfl, fun k h1 h2 => c3 k h1 (by rw [heq.1]; exact h2)⟩
  | case7 z p cmp n step q hs i cmp' hcf hi pos hle hne ih =>
    exact ih hR hL (Or.inr (step_good z p0 p q cmp G hR hL hp hs)) hm
  | case8 z p cmp n step q hs i cmp' hcf hi ih =>
    exact ih hR hL (Or.inr (step_good z p0 p q cmp G hR hL hp hs)) hm

/-- `insertNode` with the trivial node predicate: the text is untouched and the reported match is within bounds -/
theorem insertNode_basic (z : Tree) (r : Nat) (hq : z.matchPosition < N) :
    (insertNode z r).textBuf = z.textBuf ∧ (insertNode z r).matchLength ≤ F ∧ (insertNode z r).matchPosition < N := by
  have e := insertLoop_spec r (N + 1 + (z.tb r).toNat) (fun _ => True)
    { z with rson := wr z.rson r NIL, lson := wr z.lson r NIL, matchLength := 0 }
    (N + 1 + (z.tb r).toNat) 1 (N + 2) (fun _ _ _ => trivial) (fun _ _ _ => trivial)
    (Or.inl ⟨rfl, by decide⟩) ⟨Nat.zero_le _, hq, fun h => by simp [THRESHOLD] at h⟩
  have hdef : insertNode z r = insertLoop { z with rson := wr z.rson r NIL, lson := wr z.lson r NIL, matchLength := 0 } r
    (N + 1 + (z.tb r).toNat) 1 (N + 2) := rfl
  rw [hdef]
  generalize insertLoop { z with rson := wr z.rson r NIL, lson := wr z.lson r NIL, matchLength := 0 } r
    (N + 1 + (z.tb r).toNat) 1 (N + 2) = res at e
  cases e with
  | fuel zf a b c => subst c; exact ⟨a.textBuf, b.len_le, b.pos_lt⟩
  | right zf p a b c d e => subst e; exact ⟨a.textBuf, b.len_le, b.pos_lt⟩
  | left zf p a b c d e => subst e; exact ⟨a.textBuf, b.len_le, b.pos_lt⟩
  | replace zf p a b c d =>
    subst d
    unfold replaceNode
    dsimp only
    split <;> exact ⟨a.textBuf, b.len_le, b.pos_lt⟩

theorem deleteNode_frame (z : Tree) (p : Nat) :
    (deleteNode z p).textBuf = z.textBuf ∧ (deleteNode z p).matchLength = z.matchLength ∧
    (deleteNode z p).matchPosition = z.matchPosition := by
  unfold deleteNode
  split
  · exact ⟨rfl, rfl, rfl⟩
  · dsimp only
    split
    · split <;> exact ⟨rfl, rfl, rfl⟩
    · split
      · split <;> exact ⟨rfl, rfl, rfl⟩
      · split
        · split <;> exact ⟨rfl, rfl, rfl⟩
        · split <;> exact ⟨rfl, rfl, rfl⟩

end Wl2k.Lzhuf
