import Wl2kVerif.Proofs.Message4
namespace Wl2k.Msg
open Wl2k Wl2k.Textproto

structure WFfacts (X : Ext) (m : Msg) : Prop where
  nodup : (keys m.header).Nodup
  entries : ∀ e ∈ m.header, entryOK e = true
  midU : ∀ e ∈ m.header, isMidFold e.1 = true → e.1 = kMid
  mid : ∃ v, lookup m.header kMid = [v] ∧ trimString v ≠ []
  body : atoi (trimString (getRaw m.header kBody)) = (m.body.length : Int)
  files : filesOK X (lookup m.header kFile) m.files = true
  date : dateWF (getRaw m.header kDate) = true

theorem wf_facts {X : Ext} {m : Msg} (h : wf X m = true) : WFfacts X m := by
  simp only [wf, Bool.and_eq_true, decide_eq_true_eq, List.all_eq_true, beq_iff_eq] at h
  obtain ⟨⟨⟨⟨⟨⟨h1, h2⟩, h3⟩, h4⟩, h5⟩, h6⟩, h7⟩ := h
  refine ⟨h1, h2, ?_, ?_, h5, h6, h7⟩
  · intro e he hm
    have := h3 e he
    simpa [hm] using this
  · unfold midWF at h4
    split at h4
    · rename_i v hv
      exact ⟨v, hv, by simpa using h4⟩
    · simp at h4

theorem mem_lookup {h : Header} {k : Bytes} : ∀ {v : Bytes}, v ∈ lookup h k → ∃ vs, (k, vs) ∈ h ∧ v ∈ vs := by
  induction h with
  | nil => intro v hv; simp [lookup] at hv
  | cons e t ih =>
    intro v hv
    obtain ⟨k', vs'⟩ := e
    simp only [lookup] at hv
    by_cases hk : k' = k
    · subst hk; simp only [if_true] at hv; exact ⟨vs', by simp, hv⟩
    · simp only [hk, if_false] at hv
      obtain ⟨vs, h1, h2⟩ := ih hv
      exact ⟨vs, by simp [h1], h2⟩

/-- the header block written for a well-formed message, as key/value lines -/
theorem write_lines {X : Ext} {m : Msg} (F : WFfacts X m) :
    ∃ v, lookup m.header kMid = [v] ∧ trimString v ≠ [] ∧
      m.header.write = some (((kMid, v) :: groupLines (others m.header)).flatMap lineKV) := by
  obtain ⟨v, hv, hne⟩ := F.mid
  refine ⟨v, hv, hne, ?_⟩
  have hg : getRaw m.header kMid = v := by simp [getRaw, hv]
  have hve : v.isEmpty = false := by
    cases v with
    | nil => exact absurd rfl hne
    | cons a t => rfl
  simp [Header.write, hg, hve, flatMap_groupLines, lineKV]

theorem serial_shape {X : Ext} {m : Msg} (F : WFfacts X m) :
    ∃ v, lookup m.header kMid = [v] ∧ trimString v ≠ [] ∧
      serial m = ((kMid, v) :: groupLines (others m.header)).flatMap lineKV ++ crlf9 ++
        (m.body ++ ((if m.files.isEmpty then [] else crlf9) ++ m.files.flatMap fileBytes)) := by
  obtain ⟨v, hv, hne, hw⟩ := write_lines F
  refine ⟨v, hv, hne, ?_⟩
  simp only [serial, hw, Option.getD_some, List.append_assoc]
  rfl

theorem lines_ok {X : Ext} {m : Msg} (F : WFfacts X m) (v : Bytes) (hv : lookup m.header kMid = [v]) :
    ∀ p ∈ (kMid, v) :: groupLines (others m.header), keyOK p.1 = true ∧ valueOK p.2 = true := by
  have hent : ∀ k vs, (k, vs) ∈ m.header → keyOK k = true ∧ ∀ x ∈ vs, valueOK x = true := by
    intro k vs hm
    have := F.entries _ hm
    simp only [entryOK, Bool.and_eq_true, List.all_eq_true] at this
    exact ⟨this.1.1, this.2⟩
  intro p hp
  simp only [List.mem_cons] at hp
  rcases hp with rfl | hp
  · obtain ⟨vs, h1, h2⟩ := mem_lookup (h := m.header) (k := kMid) (v := v) (by simp [hv])
    exact ⟨(by decide : keyOK kMid = true), (hent _ _ h1).2 _ h2⟩
  · simp only [groupLines, List.mem_flatMap, List.mem_map] at hp
    obtain ⟨e, he, x, hx, rfl⟩ := hp
    have := hent e.1 e.2 (mem_others.1 he).1
    exact ⟨this.1, this.2 x hx⟩

theorem read_header {X : Ext} {m : Msg} (F : WFfacts X m) (tail : Bytes) (v : Bytes)
    (hv : lookup m.header kMid = [v]) :
    readMIMEHeader (((kMid, v) :: groupLines (others m.header)).flatMap lineKV ++ crlf9 ++ tail) =
      .ok (normHeader m.header, tail) := by
  have hL := lines_ok F v hv
  generalize hLdef : (kMid, v) :: groupLines (others m.header) = L at hL
  have hhead : ∀ b, (L.flatMap lineKV ++ crlf9 ++ tail).head? = some b → isBlank b = false :=
    head_lines_notBlank L tail hL
  have hlen : L.length < (L.flatMap lineKV ++ crlf9 ++ tail).length + 1 := by
    have := length_le_flatMap_lineKV L
    simp only [List.length_append]; omega
  have hloop := readHeaderLoop_lines L ((L.flatMap lineKV ++ crlf9 ++ tail).length + 1) [] tail hlen hL
  have hfold : L.foldl (fun h p => addRaw h p.1 (trimString p.2)) [] = normHeader m.header := by
    have hE : L = groupLines ((kMid, [v]) :: others m.header) := by
      rw [← hLdef]; simp [groupLines]
    rw [hE, fold_groups ((kMid, [v]) :: others m.header) []]
    · have hg : getRaw m.header kMid = v := by simp [getRaw, hv]
      simp [normHeader, trimEntry, hg]
    · simp only [keys, List.map_cons, List.nodup_cons]
      exact ⟨kMid_not_mem_others _, nodup_keys_others F.nodup⟩
    · intro k _; simp [keys]
    · intro e he
      simp only [List.mem_cons] at he
      rcases he with rfl | he
      · simp
      · have := F.entries _ (mem_others.1 he).1
        simp only [entryOK, Bool.and_eq_true] at this
        intro h0; simp [h0] at this
  rw [hfold] at hloop
  cases hs : L.flatMap lineKV ++ crlf9 ++ tail with
  | nil =>
    have : (L.flatMap lineKV ++ crlf9 ++ tail).length = 0 := by rw [hs]; rfl
    simp [crlf9] at this
  | cons b t =>
    rw [hs] at hhead hloop
    simp only [readMIMEHeader, hhead b rfl]
    exact hloop

end Wl2k.Msg
