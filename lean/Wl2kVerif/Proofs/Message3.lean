import Wl2kVerif.Proofs.Message2
namespace Wl2k.Msg
open Wl2k Wl2k.Textproto

/-! ### sorting -/

def sortedB : Header → Bool
  | [] => true
  | [_] => true
  | a :: b :: t => bytesLe a.1 b.1 && sortedB (b :: t)

theorem bytesLe_total : ∀ (a b : Bytes), bytesLe a b = false → bytesLe b a = true
  | [], _, h => by simp [bytesLe] at h
  | _ :: _, [], _ => by simp [bytesLe]
  | a :: s, b :: t, h => by
    unfold bytesLe at h ⊢
    by_cases h1 : a < b
    · simp [h1] at h
    · by_cases h2 : b < a
      · simp [h2]
      · simp only [h1, h2, if_false] at h ⊢
        exact bytesLe_total s t h

theorem insertKey_perm (e : Bytes × List Bytes) : ∀ (l : Header), (insertKey e l).Perm (e :: l)
  | [] => List.Perm.refl _
  | x :: t => by
    unfold insertKey
    by_cases h : bytesLe e.1 x.1
    · simp [h]
    · simp only [h]
      exact ((insertKey_perm e t).cons x).trans (List.Perm.swap e x t)

theorem sortKeys_perm : ∀ (l : Header), (sortKeys l).Perm l
  | [] => List.Perm.refl _
  | e :: t => (insertKey_perm e (sortKeys t)).trans ((sortKeys_perm t).cons e)

theorem sorted_insert_aux : ∀ (t : Header) (x e : Bytes × List Bytes), bytesLe x.1 e.1 = true →
    sortedB (x :: t) = true → sortedB (x :: insertKey e t) = true
  | [], x, e, hxe, _ => by simp [insertKey, sortedB, hxe]
  | y :: t', x, e, hxe, hs => by
    simp only [sortedB, Bool.and_eq_true] at hs
    unfold insertKey
    by_cases h : bytesLe e.1 y.1
    · simp [h, sortedB, hxe, hs.2]
    · simp only [h, Bool.false_eq_true, if_false, sortedB, Bool.and_eq_true]
      refine ⟨hs.1, sorted_insert_aux t' y e (bytesLe_total _ _ (by simpa using h)) hs.2⟩

theorem insertKey_sorted (e : Bytes × List Bytes) : ∀ (l : Header), sortedB l = true → sortedB (insertKey e l) = true
  | [], _ => by simp [insertKey, sortedB]
  | x :: t, hs => by
    unfold insertKey
    by_cases h : bytesLe e.1 x.1
    · simp [h, sortedB, hs]
    · simp only [h]
      exact sorted_insert_aux t x e (bytesLe_total _ _ (by simpa using h)) hs

theorem sortKeys_sorted : ∀ (l : Header), sortedB (sortKeys l) = true
  | [] => rfl
  | e :: t => insertKey_sorted e _ (sortKeys_sorted t)

theorem sortedB_tail {a : Bytes × List Bytes} {t : Header} (h : sortedB (a :: t) = true) : sortedB t = true := by
  cases t with
  | nil => rfl
  | cons b t => simp only [sortedB, Bool.and_eq_true] at h; exact h.2

theorem sortKeys_id : ∀ (l : Header), sortedB l = true → sortKeys l = l
  | [], _ => rfl
  | e :: t, hs => by
    simp only [sortKeys, sortKeys_id t (sortedB_tail hs)]
    cases t with
    | nil => rfl
    | cons b t =>
      simp only [sortedB, Bool.and_eq_true] at hs
      simp [insertKey, hs.1]

theorem sortedB_map_trim : ∀ (l : Header), sortedB (l.map trimEntry) = sortedB l
  | [] => rfl
  | [_] => rfl
  | a :: b :: t => by
    have := sortedB_map_trim (b :: t)
    simp only [List.map_cons] at this ⊢
    simp only [sortedB, this]
    rfl

/-! ### lookups -/

theorem lookup_of_not_mem : ∀ (h : Header) (k : Bytes), k ∉ keys h → lookup h k = []
  | [], _, _ => rfl
  | (k', vs) :: t, k, hk => by
    have h1 : k' ≠ k := fun e => hk (by simp [keys, e])
    have h2 : k ∉ keys t := fun e => hk (by simp only [keys, List.map_cons, List.mem_cons]; exact Or.inr e)
    simp [lookup, h1, lookup_of_not_mem t k h2]

theorem lookup_of_mem : ∀ (h : Header) (k : Bytes) (vs : List Bytes), (keys h).Nodup → (k, vs) ∈ h → lookup h k = vs
  | [], _, _, _, hm => by simp at hm
  | (k', vs') :: t, k, vs, hnd, hm => by
    have hnd' : k' ∉ keys t ∧ (keys t).Nodup := by simpa [keys] using hnd
    simp only [List.mem_cons] at hm
    rcases hm with e | hm
    · cases e; simp [lookup]
    · have : k' ≠ k := by
        intro e; subst e
        exact hnd'.1 (List.mem_map.2 ⟨(k', vs), hm, rfl⟩)
      simp [lookup, this, lookup_of_mem t k vs hnd'.2 hm]

theorem mem_of_mem_keys {h : Header} {k : Bytes} (hk : k ∈ keys h) : ∃ vs, (k, vs) ∈ h := by
  simp only [keys, List.mem_map] at hk
  obtain ⟨e, he, rfl⟩ := hk
  exact ⟨e.2, he⟩

theorem lookup_perm {h h' : Header} (hp : h.Perm h') (hnd : (keys h).Nodup) (k : Bytes) : lookup h k = lookup h' k := by
  have hkp : (keys h).Perm (keys h') := hp.map _
  have hnd' : (keys h').Nodup := hkp.nodup_iff.1 hnd
  by_cases hk : k ∈ keys h
  · obtain ⟨vs, hm⟩ := mem_of_mem_keys hk
    rw [lookup_of_mem h k vs hnd hm, lookup_of_mem h' k vs hnd' (hp.mem_iff.1 hm)]
  · rw [lookup_of_not_mem h k hk, lookup_of_not_mem h' k (fun e => hk (hkp.mem_iff.2 e))]

theorem lookup_filter (q : Bytes → Bool) : ∀ (h : Header) (k : Bytes),
    lookup (h.filter (fun e => q e.1)) k = if q k then lookup h k else []
  | [], k => by simp [lookup]
  | (k', vs) :: t, k => by
    have ih := lookup_filter q t k
    by_cases hq : q k' = true
    · simp only [List.filter_cons, hq, if_true, lookup]
      by_cases hk : k' = k
      · subst hk; simp [hq]
      · simp [hk, ih]
    · simp only [List.filter_cons, hq, lookup]
      by_cases hk : k' = k
      · subst hk; simp [hq, ih]
      · simp [hk, ih]

theorem lookup_map_trim : ∀ (h : Header) (k : Bytes), lookup (h.map trimEntry) k = (lookup h k).map trimString
  | [], _ => rfl
  | (k', vs) :: t, k => by
    simp only [List.map_cons, trimEntry, lookup]
    by_cases hk : k' = k
    · simp [hk]
    · simp only [hk, if_false]; exact lookup_map_trim t k

theorem keys_map_trim (h : Header) : keys (h.map trimEntry) = keys h := by
  simp [keys, trimEntry, List.map_map, Function.comp_def]

theorem keys_filter_sub {q : Bytes × List Bytes → Bool} {h : Header} {k : Bytes} (hk : k ∈ keys (h.filter q)) : k ∈ keys h := by
  simp only [keys, List.mem_map, List.mem_filter] at hk ⊢
  obtain ⟨e, ⟨he, _⟩, rfl⟩ := hk
  exact ⟨e, he, rfl⟩

theorem nodup_keys_filter {q : Bytes × List Bytes → Bool} {h : Header} (hnd : (keys h).Nodup) : (keys (h.filter q)).Nodup := by
  have : (keys (h.filter q)).Sublist (keys h) := (List.filter_sublist).map _
  exact this.nodup hnd

end Wl2k.Msg
