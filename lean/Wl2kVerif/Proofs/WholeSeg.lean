import Wl2kVerif.Proofs.WholeOp
/-
The segments of a turn in `upto` form with EXACT results (what is returned, what is left in the queue, the
handler state, what was written), for the fault-free delivery argument: a segment is a piece of a side's
program that runs from one point at which it needs input the peer has yet to write to the next.
-/
namespace Wl2k.B2F
open Wl2k Wl2k.Fmt Wl2k.Str Wl2k.Strconv

/-! ### the transfer loop, exactly -/

/-- what `transferAll` returns: (mid, rejected) in proposal order -/
def transferRes : List Proposal → List UInt8 → List (Bytes × Bool) → List (Bytes × Bool)
  | p :: ps, a :: as, sent =>
    if a = ansDefer then transferRes ps as sent
    else if a = ansReject then transferRes ps as (sent.filter (·.1 ≠ p.mid) ++ [(p.mid, true)])
    else if a = ansAccept then transferRes ps as (sent.filter (·.1 ≠ p.mid) ++ [(p.mid, false)])
    else transferRes ps as sent
  | _, _, sent => sent

/-- the MIDs `transferAll` reports deferred, in order -/
def deferredMids : List Proposal → List UInt8 → List Bytes
  | p :: ps, a :: as => (if a = ansDefer then [p.mid] else []) ++ deferredMids ps as
  | _, _ => []

/-- the reference handler after `SetDeferred` for each of `ms` -/
def hDefer (h : HState) (ms : List Bytes) : HState := ms.foldl (fun h m => (hstep h (.setDeferred m)).1) h

theorem run_transferAll_exact (c : Cfg) (J : Bytes) : ∀ (ps : List Proposal) (as : List UInt8) (sent : List (Bytes × Bool))
    (h : HState) (tr : List Ev), (∀ p ∈ ps, 6 ≤ p.csize) → (∀ a ∈ as, PlainAnswer a) →
    ∃ evs : List Ev,
      Proc.run hstep (transferAll c (List.zipWith withAns ps as) sent) J h tr =
        (.done (.ok (transferRes ps as sent)), J, hDefer h (deferredMids ps as), evs ++ tr) ∧
      outBytes evs = framesBytes c.maxMsgLen ps as := by
  intro ps
  induction ps with
  | nil =>
    intro as sent h tr _ _
    exact ⟨[], by simp [transferAll, Proc.run, transferRes, deferredMids, hDefer], by simp [framesBytes, outBytes]⟩
  | cons p ps ih =>
    intro as sent h tr hbig hpl
    cases as with
    | nil => exact ⟨[], by simp [transferAll, Proc.run, transferRes, deferredMids, hDefer], by simp [framesBytes, outBytes]⟩
    | cons a as =>
      have hbig' : ∀ q ∈ ps, 6 ≤ q.csize := fun q hq => hbig q (by simp [hq])
      have hpl' : ∀ x ∈ as, PlainAnswer x := fun x hx => hpl x (by simp [hx])
      simp only [List.zipWith_cons_cons]
      unfold transferAll
      have hans : (withAns p a).answer = a := rfl
      have hmid : (withAns p a).mid = p.mid := rfl
      rcases hpl a (by simp) with rfl | rfl | rfl
      · -- accept
        have e1 : ¬ (ansAccept = ansDefer) := by decide
        have e2 : ¬ (ansAccept = ansReject) := by decide
        simp only [hans, e1, e2, if_false, if_true, bind_eq, pure_eq, hmid]
        rw [run_bind]
        obtain ⟨ev1, w1, w2, _⟩ := run_writeCompressed hstep c p ansAccept (hbig p (by simp)) J h tr
        rw [w1]
        simp only
        obtain ⟨evs, r1, r2⟩ := ih as (sent.filter (·.1 ≠ p.mid) ++ [(p.mid, false)]) h (ev1 ++ tr) hbig' hpl'
        refine ⟨evs ++ ev1, ?_, ?_⟩
        · rw [r1]; simp [transferRes, deferredMids, e1, e2]
        · rw [outBytes_append, w2, r2]; simp [framesBytes]
      · -- reject
        have e1 : ¬ (ansReject = ansDefer) := by decide
        simp only [hans, e1, if_false, if_true, hmid]
        obtain ⟨evs, r1, r2⟩ := ih as (sent.filter (·.1 ≠ p.mid) ++ [(p.mid, true)]) h tr hbig' hpl'
        refine ⟨evs, ?_, ?_⟩
        · rw [r1]; simp [transferRes, deferredMids, e1]
        · rw [r2]; simp [framesBytes, ansReject, ansAccept]
      · -- defer
        simp only [hans, if_true, hmid, Proc.run]
        obtain ⟨evs, r1, r2⟩ := ih as sent (hstep h (.setDeferred p.mid)).1 (.called (.setDeferred p.mid) :: tr) hbig' hpl'
        refine ⟨evs ++ [.called (.setDeferred p.mid)], ?_, ?_⟩
        · rw [r1]; simp [transferRes, deferredMids, hDefer]
        · rw [outBytes_append, r2]; simp [framesBytes, outBytes, ansDefer, ansAccept]

/-! ### `sendOutbound` in two segments -/

/-- what `sendOutbound` does with the answer line -/
def sendTail (c : Cfg) (outbound : List Proposal) : Except SErr Bytes → Proc (Except SErr (List (Bytes × Bool)))
  | .error e => .ret (.error e)
  | .ok reply =>
    match parseProposalAnswerC c.offsetLimit reply outbound.length with
    | none => .panic "parseProposalAnswer"
    | some none => .ret (.error (.proto "unable-to-parse-proposal-answer"))
    | some (some ans) =>
      transferAll c ((outbound.zip ans).map fun (p, a) => { p with answer := a.1, offset := a.2 }) []

/-- the first segment: the proposal lines and the prompt -/
def sendHead (block : List Proposal) : Proc Unit :=
  (writeLines (block.map fun p => proposalLine p.code p.msgType p.mid p.size p.csize)).bind fun _ =>
    .write (promptLine (((block.map fun p => proposalLine p.code p.msgType p.mid p.size p.csize).map lineSum).foldl (· + ·) 0))
      (.ret ())

theorem sendOutbound_eq (c : Cfg) (fuel : Nat) (out : List Proposal) :
    sendOutbound c fuel out =
      (sendHead (out.take c.maxBlock)).bind fun _ => (awaitAnswer fuel fuel).bind (sendTail c (out.take c.maxBlock)) := by
  unfold sendOutbound sendHead
  simp only [bind_eq, pure_eq]
  rw [Proc.bind_assoc]
  congr

/-- the first segment reads nothing and writes the block -/
theorem upto_sendHead (block : List Proposal) (J : Bytes) (h : HState) (tr : List Ev) :
    ∃ evs, Proc.upto hstep (sendHead block) J h tr = (.ret (), J, h, evs ++ tr) ∧ outBytes evs = blockOut block := by
  unfold sendHead
  rw [upto_bind_ret hstep _ _ J h tr () J h _ (upto_writeLines hstep J h _ tr)]
  refine ⟨.wrote (promptLine (blockSum 0 block)) ::
    ((block.map fun p => proposalLine p.code p.msgType p.mid p.size p.csize).map fun l => Ev.wrote (l ++ [13])).reverse, ?_, ?_⟩
  · simp [Proc.upto, ← blockSum_eq]
  · simp only [outBytes, blockOut]
    congr 1
    rw [← blockBytes_eq]
    generalize (block.map fun p => proposalLine p.code p.msgType p.mid p.size p.csize) = ls
    induction ls with
    | nil => rfl
    | cons l ls ih => simp [outBytes_append, outBytes, ih]

/-- the second segment on exactly the `FS` line: the answers are parsed, the accepted proposals transferred -/
theorem run_sendRest (c : Cfg) (fuel : Nat) (block : List Proposal) (as : List UInt8) (rest : Bytes) (h : HState) (tr : List Ev)
    (hlen : as.length = block.length) (hne : as ≠ []) (hpl : ∀ a ∈ as, PlainAnswer a)
    (hf : (fsLine as).length < fuel) (hbig : ∀ p ∈ block, 6 ≤ p.csize) :
    ∃ evs : List Ev,
      Proc.run hstep ((awaitAnswer fuel fuel).bind (sendTail c block)) (fsLine as ++ 13 :: rest) h tr =
        (.done (.ok (transferRes block as [])), rest, hDefer h (deferredMids block as), evs ++ tr) ∧
      outBytes evs = framesBytes c.maxMsgLen block as := by
  cases fuel with
  | zero => omega
  | succ f =>
    rw [run_bind, run_awaitAnswer_fs hstep (f + 1) f as rest h tr hne hpl hf]
    simp only [sendTail, parseProposalAnswerC_eq]
    have hparse := answers_roundtrip c.offsetLimit as hpl
    rw [hlen] at hparse
    simp only [fsLine, hparse, zip_map_withAns]
    exact run_transferAll_exact c rest block as [] h tr hbig hpl

theorem sendRest_shape (c : Cfg) (fuel : Nat) (block : List Proposal) :
    Shape NoPeek ((awaitAnswer fuel fuel).bind (sendTail c block)) := by
  apply Shape.bind (awaitAnswer_shape (E := NoPeek) ⟨trivial, fun _ => trivial⟩ fuel fuel)
  intro r
  cases r with
  | error e => exact Shape.ret _
  | ok reply =>
    simp only [sendTail]
    split
    · exact Shape.panic _ trivial
    · exact Shape.ret _
    · exact transferAll_shape (E := NoPeek) ⟨fun _ => trivial⟩ (fun _ => trivial) c _ _

/-- … in `upto` form: exactly the `FS` line is consumed -/
theorem upto_sendRest (c : Cfg) (fuel : Nat) (block : List Proposal) (as : List UInt8) (h : HState) (tr : List Ev)
    (hlen : as.length = block.length) (hne : as ≠ []) (hpl : ∀ a ∈ as, PlainAnswer a)
    (hf : (fsLine as).length < fuel) (hbig : ∀ p ∈ block, 6 ≤ p.csize) :
    ∃ evs : List Ev,
      Proc.upto hstep ((awaitAnswer fuel fuel).bind (sendTail c block)) (fsLine as ++ [13]) h tr =
        (.ret (.ok (transferRes block as [])), [], hDefer h (deferredMids block as), evs ++ tr) ∧
      outBytes evs = framesBytes c.maxMsgLen block as := by
  obtain ⟨evs, h1, h2⟩ := run_sendRest c fuel block as [0] h tr hlen hne hpl hf hbig
  refine ⟨evs, ?_, h2⟩
  apply upto_of_run_sentinel hstep (sendRest_shape c fuel block) (fsLine as ++ [13]) 0
  rw [← h1]
  simp

/-! ### the receiver's answers, exactly (reference handler) -/

theorem preAnswer_fresh : ∀ (ps : List Proposal) (seen : List Bytes), (∀ p ∈ ps, p.code = 67) →
    (∀ p ∈ ps, p.mid ∉ seen) → (ps.map (·.mid)).Nodup → preAnswer true ps seen = ps.map fun p => setAns p 0 := by
  intro ps
  induction ps with
  | nil => intro seen _ _ _; rfl
  | cons p ps ih =>
    intro seen hc hs hnd
    simp only [List.map_cons, List.nodup_cons] at hnd
    simp only [preAnswer, List.map_cons]
    have h1 : p.mid ∉ seen := hs p (by simp)
    have h2 : ¬ (p.code ≠ 67 ∧ p.code ≠ 68) := by simp [hc p (by simp)]
    rw [ih (p.mid :: seen) (fun q hq => hc q (by simp [hq])) ?_ hnd.2]
    · simp [h1, h2, setAns]
    · intro q hq
      simp only [List.mem_cons, not_or]
      refine ⟨?_, hs q (by simp [hq])⟩
      intro e
      exact hnd.1 (by rw [← e]; exact List.mem_map_of_mem hq)

theorem run_askEach_ref (J : Bytes) (h : HState) : ∀ (ps acc : List Proposal) (tr : List Ev),
    ∃ evs : List Ev, (∀ e ∈ evs, e.isAnswerCall = true) ∧
      Proc.run hstep (askEach (ps.map fun p => setAns p 0) acc) J h tr =
        (.done (acc.reverse ++ ps.map fun p => setAns p (h.answerFor p.mid)), J, h, evs ++ tr) := by
  intro ps
  induction ps with
  | nil => intro acc tr; exact ⟨[], (by intro e he; cases he), (by simp [askEach, Proc.run])⟩
  | cons p ps ih =>
    intro acc tr
    obtain ⟨evs, h1, h2⟩ := ih (setAns p (h.answerFor p.mid) :: acc) (.called (.getInboundAnswer (viewOf p)) :: tr)
    refine ⟨evs ++ [.called (.getInboundAnswer (viewOf p))], ?_, ?_⟩
    · intro e he
      simp only [List.mem_append, List.mem_singleton] at he
      rcases he with he | rfl
      · exact h1 e he
      · rfl
    · simp only [List.map_cons]
      unfold askEach
      have hne : ¬ ((setAns p 0).answer ≠ 0) := by simp [setAns]
      simp only [hne, if_false, Proc.run, hstep]
      have := h2
      simp only [setAns, viewOf] at this ⊢
      rw [this]
      simp

theorem assignAnswers_fresh (f : Proposal → UInt8) : ∀ (ps : List Proposal),
    assignAnswers (ps.map fun p => setAns p 0) (ps.map f) = some (ps.map fun p => setAns p (f p))
  | [] => rfl
  | p :: ps => by
    have hne : ¬ ((setAns p 0).answer ≠ 0) := by simp [setAns]
    simp only [List.map_cons, assignAnswers, hne, if_false, assignAnswers_fresh f ps, Option.map_some]
    rfl

/-- **The answers of the reference handler** to a block of type-C proposals with distinct MIDs: its policy,
proposal by proposal (unbatched, or batched and complete). -/
theorem answersOf_ref (c : Cfg) (hh : c.hasHandler = true) (h : HState) (hnb : c.batched = false ∨ h.batchedShort = none)
    (ps : List Proposal) (hc : ∀ p ∈ ps, p.code = 67) (hnd : (ps.map (·.mid)).Nodup) :
    answersOf hstep c h ps = ps.map fun p => h.answerFor p.mid := by
  unfold answersOf writeProposalsAnswer
  cases hcb : c.batched with
  | false =>
    simp only [bind_eq, pure_eq, Bool.false_eq_true, false_and, if_false, hh]
    rw [preAnswer_fresh ps [] hc (by intro p _ hm; cases hm) hnd, run_bind]
    obtain ⟨evs, _, h2⟩ := run_askEach_ref [] h ps [] []
    rw [h2]
    simp [Proc.run, setAns, List.map_map, Function.comp_def]
  | true =>
    have hs : h.batchedShort = none := by
      rcases hnb with hb | hb
      · rw [hcb] at hb; cases hb
      · exact hb
    simp only [bind_eq, pure_eq, hh, and_self, if_true]
    rw [preAnswer_fresh ps [] hc (by intro p _ hm; cases hm) hnd, run_bind]
    have hfilt : (ps.map fun p => setAns p 0).filter (fun x => decide (x.answer = 0)) = ps.map fun p => setAns p 0 := by
      rw [List.filter_eq_self]
      intro x hx
      obtain ⟨p, _, rfl⟩ := List.mem_map.mp hx
      simp [setAns]
    have hviews : ((ps.map fun p => setAns p 0).map viewOf).map (fun p : PropView => h.answerFor p.mid) =
        ps.map fun p => h.answerFor p.mid := by
      simp [List.map_map, Function.comp_def, viewOf, setAns]
    simp only [Proc.run, hstep, hs, hfilt, hviews, assignAnswers_fresh]
    simp [setAns, List.map_map, Function.comp_def]

/-! ### the receiver's two segments -/

/-- what `handleInbound` does with the result of the line loop -/
def inTail (fuel : Nat) (st : SState) : Except SErr (Bool × List Proposal × SState) → Proc (Bool × SState × Option SErr)
  | .error e => .ret (false, st, some e)
  | .ok (quit, props, st') => (fetchAll fuel props st').bind fun r => .ret (quit, r.1, r.2)

theorem handleInbound_eq (c : Cfg) (fuel : Nat) (st : SState) :
    handleInbound c fuel st = (inboundLoop c fuel fuel [] 0 st).bind (inTail fuel st) := by
  unfold handleInbound
  simp only [bind_eq, pure_eq]
  congr

/-- **The line loop on exactly the block**: the proposals are answered, the `FS` line is written. -/
theorem upto_inboundLoop_block (c : Cfg) (fuel : Nat) (st : SState) (block : List Proposal) (h : HState) (tr : List Ev)
    (hw : WpaOK hstep c h) (hne : block ≠ [])
    (hline : ∀ p ∈ block, LineOK p ∧ (pl p).length < fuel) (hfuel : 5 < fuel) (hbl : block.length < fuel) :
    ∃ evs : List Ev, outBytes evs = [] ∧
      Proc.upto hstep (inboundLoop c fuel fuel [] 0 st) (blockOut block) h tr =
        (.ret (.ok (false, List.zipWith setAns (block.map recvProp) (answersOf hstep c h (block.map recvProp)),
            { st with remoteNoMsgs := false })), [], h,
          .wrote (fsLine (answersOf hstep c h (block.map recvProp)) ++ [13]) :: (evs ++ tr)) := by
  obtain ⟨_, _, evs, hev, hrun⟩ := run_wpa_canon hstep c h hw (block.map recvProp)
  refine ⟨evs, answer_evs_silent evs hev, ?_⟩
  apply upto_of_run_sentinel hstep (inboundLoop_shape (E := NoPeek) ⟨trivial, fun _ => trivial⟩ ⟨fun _ => trivial⟩
    (fun _ => trivial) (fun _ => trivial) c fuel fuel [] 0 st) (blockOut block) 0
  have hJ : blockOut block ++ [0] <+: blockBytes block ++ (promptLine (blockSum 0 block) ++ [0]) := by
    simp [blockOut, List.append_assoc]
  rcases run_inboundLoop_block hstep c fuel st h tr hfuel block [] 0 fuel hline hbl (by simpa using hne) [0] _ hJ with
    ⟨J2, hJ2eq, _, hrun1⟩ | ⟨hlt, _⟩
  · have : J2 = [0] := by
      simp only [blockOut, List.append_assoc] at hJ2eq
      exact (List.append_cancel_left (List.append_cancel_left hJ2eq)).symm
    subst this
    rw [hrun1]
    simp only [answerTail, List.nil_append]
    rw [run_bind, hrun]
    simp [Proc.run, fsLine]
  · simp only [blockOut, List.length_append, List.length_cons, List.length_nil] at hlt
    omega

/-- **The fetch loop on exactly the frames of the accepted proposals** (the handler reports no error): every
accepted payload is handed over, in order. -/
theorem upto_fetchAll_frames (m : Nat) (hm1 : 1 ≤ m) (hm2 : m ≤ 255) (fuel : Nat) (dataOf : Proposal → Bytes)
    (ps : List Proposal) (as : List UInt8) (hframe : ∀ p ∈ ps, FrameOK fuel dataOf p) (st : SState) (h : HState) (tr : List Ev)
    (hall : AllOK hstep h (acceptedData dataOf ps as)) :
    Proc.upto hstep (fetchAll fuel (List.zipWith setAns (ps.map recvProp) as) st) (framesBytes m ps as) h tr =
      (.ret ({ st with received := st.received ++ acceptedMids ps as }, none), [],
        (acceptedData dataOf ps as).foldl (deliverStep hstep) h, deliverEvs (acceptedData dataOf ps as) ++ tr) := by
  apply upto_of_run_sentinel hstep (fetchAll_shape (E := NoPeek) ⟨trivial, fun _ => trivial⟩ (fun _ => trivial) (fun _ => trivial)
    fuel _ st) (framesBytes m ps as) 0
  exact fetchAll_run_ok hstep m hm1 hm2 fuel dataOf [0] ps as hframe st h tr hall

/-- the line loop on exactly `FF` -/
theorem upto_inboundLoop_FF (c : Cfg) (fuel : Nat) (st : SState) (h : HState) (tr : List Ev) (hf : 5 < fuel) :
    Proc.upto hstep (inboundLoop c fuel fuel [] 0 st) [70, 70, 13] h tr =
      (.ret (.ok (false, [], { st with remoteNoMsgs := true })), [], h, tr) := by
  cases fuel with
  | zero => omega
  | succ f =>
    apply upto_of_run_sentinel hstep (inboundLoop_shape (E := NoPeek) ⟨trivial, fun _ => trivial⟩ ⟨fun _ => trivial⟩
      (fun _ => trivial) (fun _ => trivial) c (f + 1) (f + 1) [] 0 st) [70, 70, 13] 0
    exact inboundLoop_FF c (f + 1) f st [0] h tr hf

/-- the line loop on exactly `FQ` -/
theorem upto_inboundLoop_FQ (c : Cfg) (fuel : Nat) (st : SState) (h : HState) (tr : List Ev) (hf : 5 < fuel) :
    Proc.upto hstep (inboundLoop c fuel fuel [] 0 st) [70, 81, 13] h tr = (.ret (.ok (true, [], st)), [], h, tr) := by
  cases fuel with
  | zero => omega
  | succ f =>
    apply upto_of_run_sentinel hstep (inboundLoop_shape (E := NoPeek) ⟨trivial, fun _ => trivial⟩ ⟨fun _ => trivial⟩
      (fun _ => trivial) (fun _ => trivial) c (f + 1) (f + 1) [] 0 st) [70, 81, 13] 0
    exact inboundLoop_FQ c (f + 1) f st [0] h tr hf

/-! ### the confirming peek -/

/-- the reference handler after `SetSent(m, rejected)` for each of `ms` -/
def hSent (h : HState) (rej : Bool) (ms : List Bytes) : HState := ms.foldl (fun h m => (hstep h (.setSent m rej)).1) h

theorem foldl_setSent (l : List (Bytes × Bool)) (rej : Bool) (h : HState) :
    (l.map fun y : Bytes × Bool => Call.setSent y.1 rej).foldl (fun h c => (hstep h c).1) h = hSent h rej (l.map (·.1)) := by
  unfold hSent
  induction l generalizing h with
  | nil => rfl
  | cons x xs ih => simp [ih]

/-- **The tail of `handleOutbound` when the next byte is 'F' or ';'**: the byte is peeked (not consumed), the
accepted proposals are reported sent. -/
theorem upto_outTail_go (fuel : Nat) (st : SState) (rest : List (Bytes × Bool)) (x : UInt8) (r : Bytes) (h : HState)
    (tr : List Ev) (hx : isGo x = true) :
    ∃ evs : List Ev, outBytes evs = [] ∧
      Proc.upto hstep (outTail fuel st rest) (x :: r) h tr =
        (.ret (.ok (false, { st with sent := st.sent ++ rest.map (·.1) })), x :: r, hSent h false (rest.map (·.1)), evs ++ tr) := by
  have hgo : ¬ (x ≠ 70 ∧ x ≠ 59) := by
    simp only [isGo, Bool.or_eq_true, beq_iff_eq] at hx
    rcases hx with h | h <;> simp [h]
  unfold outTail
  simp only [Proc.upto, if_neg hgo, bind_eq, pure_eq]
  rw [upto_bind_ret hstep _ _ _ _ _ () _ _ _ (upto_callAll hstep (x :: r) _ h _)]
  refine ⟨((rest.map fun y : Bytes × Bool => Call.setSent y.1 false).map Ev.called).reverse ++ [.peeked x], ?_, ?_⟩
  · rw [outBytes_append]
    simp only [outBytes, List.nil_append]
    rw [← List.map_reverse]
    exact outBytes_calls _
  · simp [Proc.upto, foldl_setSent]

end Wl2k.B2F
