import Wl2kVerif.Proofs.WholeFinal
/-
Operational tools for the fault-free delivery argument (`Proofs/WholeDeliv*.lean`):
* `upto` through `bind`; a complete run that returns with input left over, or — for a program without peeks —
  with a sentinel byte left over, never saw the end of its input, so `upto` returns there too;
* the pair system executes a program SEGMENT by segment: if a side's program is `P.bind K` and `P` returns on
  what is queued, some execution of the pair system takes that side to `K v` (`seg_left`, `seg_right`).
-/
namespace Wl2k.B2F
open Wl2k

section generic
variable {H : Type} (hstep : H → Call → H × Reply)

theorem run_nil_rest {α : Type} (p : Proc α) : ∀ (h : H) (tr : List Ev), (Proc.run hstep p [] h tr).2.1 = [] := by
  induction p with
  | ret a => intro h tr; rfl
  | readByte k ih => intro h tr; exact ih none h tr
  | peek k ih => intro h tr; exact ih none h tr
  | write bs k ih => intro h tr; exact ih h _
  | call c k ih => intro h tr; exact ih _ _ _
  | panic s => intro h tr; rfl

/-- `upto` through `bind` -/
theorem upto_bind {α β : Type} (p : Proc α) (f : α → Proc β) : ∀ (inp : Bytes) (h : H) (tr : List Ev),
    Proc.upto hstep (p.bind f) inp h tr =
      match Proc.upto hstep p inp h tr with
      | (.ret a, inp', h', tr') => Proc.upto hstep (f a) inp' h' tr'
      | (r, inp', h', tr') => (r.bind f, inp', h', tr') := by
  induction p with
  | ret a => intro inp h tr; simp [Proc.bind, Proc.upto]
  | readByte k ih =>
    intro inp h tr
    cases inp with
    | nil => simp [Proc.bind, Proc.upto]
    | cons b t => simp only [Proc.bind, Proc.upto]; exact ih (some b) t h tr
  | peek k ih =>
    intro inp h tr
    cases inp with
    | nil => simp [Proc.bind, Proc.upto]
    | cons b t => simp only [Proc.bind, Proc.upto]; exact ih (some b) (b :: t) h _
  | write bs k ih => intro inp h tr; simp only [Proc.bind, Proc.upto]; exact ih inp h _
  | call c k ih => intro inp h tr; simp only [Proc.bind, Proc.upto]; exact ih _ inp _ _
  | panic s => intro inp h tr; simp [Proc.bind, Proc.upto]

theorem upto_bind_ret {α β : Type} (p : Proc α) (f : α → Proc β) (inp : Bytes) (h : H) (tr : List Ev) (a : α) (inp' : Bytes)
    (h' : H) (tr' : List Ev) (hu : Proc.upto hstep p inp h tr = (.ret a, inp', h', tr')) :
    Proc.upto hstep (p.bind f) inp h tr = Proc.upto hstep (f a) inp' h' tr' := by
  rw [upto_bind, hu]

/-- **A run that returns with input left over never saw the end of its input**: `upto` returns there too. -/
theorem upto_of_run_rest {α : Type} (p : Proc α) (J : Bytes) (h : H) (tr : List Ev) (v : α) (J' : Bytes) (h' : H)
    (tr' : List Ev) (hr : Proc.run hstep p J h tr = (.done v, J', h', tr')) (hne : J' ≠ []) :
    Proc.upto hstep p J h tr = (.ret v, J', h', tr') := by
  have h1 := run_upto hstep p J h tr
  have h2 := upto_stops hstep p J h tr
  generalize Proc.upto hstep p J h tr = u at h1 h2
  obtain ⟨R, r, h1', t1⟩ := u
  simp only at h1 h2
  rw [hr] at h1
  rcases h2 with ht | ⟨_, hr0⟩
  · cases R with
    | ret a =>
      simp only [Proc.run, Prod.mk.injEq, Ended.done.injEq] at h1
      obtain ⟨rfl, rfl, rfl, rfl⟩ := h1
      rfl
    | panic s => simp [Proc.run] at h1
    | _ => simp [Proc.terminal] at ht
  · subst hr0
    have := run_nil_rest hstep R h1' t1
    rw [← h1] at this
    exact absurd this hne

/-- alphabet: no peek -/
def NoPeek : Node → Prop
  | .peek => False
  | _ => True

/-- the residual program of `upto` keeps the shape -/
theorem upto_shape {α : Type} {E : Node → Prop} {p : Proc α} (hp : Shape E p) : ∀ (inp : Bytes) (h : H) (tr : List Ev),
    Shape E (Proc.upto hstep p inp h tr).1 := by
  induction hp with
  | ret a => intro inp h tr; exact Shape.ret a
  | readByte k hk hs ih =>
    intro inp h tr
    cases inp with
    | nil => exact Shape.readByte k hk hs
    | cons b t => exact ih (some b) t h tr
  | peek k hk hs ih =>
    intro inp h tr
    cases inp with
    | nil => exact Shape.peek k hk hs
    | cons b t => exact ih (some b) (b :: t) h _
  | write bs k _ _ ih => intro inp h tr; exact ih inp h _
  | call c k _ _ ih => intro inp h tr; exact ih _ inp _ _
  | panic s hk => intro inp h tr; exact Shape.panic s hk

/-- **A peek-free program that returns leaving exactly a sentinel byte has consumed exactly what precedes it**:
`upto` on the input without the sentinel returns the same value with nothing left. -/
theorem upto_of_run_sentinel {α : Type} {p : Proc α} (hp : Shape NoPeek p) (I : Bytes) (z : UInt8) (h : H) (tr : List Ev)
    (v : α) (h' : H) (tr' : List Ev) (hr : Proc.run hstep p (I ++ [z]) h tr = (.done v, [z], h', tr')) :
    Proc.upto hstep p I h tr = (.ret v, [], h', tr') := by
  have h1 := run_append hstep p I [z] h tr
  have h2 := upto_stops hstep p I h tr
  have h3 := upto_shape hstep hp I h tr
  generalize Proc.upto hstep p I h tr = u at h1 h2 h3
  obtain ⟨R, r, h1', t1⟩ := u
  simp only at h1 h2 h3
  rw [hr] at h1
  rcases h2 with ht | ⟨hw, hr0⟩
  · cases R with
    | ret a =>
      simp only [Proc.run, Prod.mk.injEq, Ended.done.injEq] at h1
      obtain ⟨rfl, h12, rfl, rfl⟩ := h1
      have : r = [] := by
        have := congrArg List.length h12
        simp only [List.length_append, List.length_cons, List.length_nil] at this
        exact List.eq_nil_of_length_eq_zero (by omega)
      subst this
      rfl
    | panic s => simp [Proc.run] at h1
    | _ => simp [Proc.terminal] at ht
  · subst hr0
    cases R with
    | readByte k =>
      simp only [List.nil_append, Proc.run] at h1
      have := run_nil_rest hstep (k (some z)) h1' t1
      rw [← h1] at this
      cases this
    | peek k =>
      cases h3 with
      | peek _ hk _ => exact hk.elim
    | _ => simp [Proc.waiting] at hw

/-- **A program that returns leaving exactly a sentinel byte, with the same result, handler state and trace for
two different sentinels, has consumed exactly what precedes it** (a peek at the sentinel would show in the
trace). -/
theorem upto_of_run_two {α : Type} (p : Proc α) (I : Bytes) (h : H) (tr : List Ev) (v : α) (h' : H) (tr' : List Ev)
    (hr0 : Proc.run hstep p (I ++ [0]) h tr = (.done v, [0], h', tr'))
    (hr1 : Proc.run hstep p (I ++ [1]) h tr = (.done v, [1], h', tr')) :
    Proc.upto hstep p I h tr = (.ret v, [], h', tr') := by
  have h0 := run_append hstep p I [0] h tr
  have h1 := run_append hstep p I [1] h tr
  have h2 := upto_stops hstep p I h tr
  generalize Proc.upto hstep p I h tr = u at h0 h1 h2
  obtain ⟨R, r, h1', t1⟩ := u
  simp only at h0 h1 h2
  rw [hr0] at h0
  rw [hr1] at h1
  rcases h2 with ht | ⟨hw, hr0'⟩
  · cases R with
    | ret a =>
      simp only [Proc.run, Prod.mk.injEq, Ended.done.injEq] at h0
      obtain ⟨rfl, h12, rfl, rfl⟩ := h0
      have : r = [] := by
        have := congrArg List.length h12
        simp only [List.length_append, List.length_cons, List.length_nil] at this
        exact List.eq_nil_of_length_eq_zero (by omega)
      subst this
      rfl
    | panic s => simp [Proc.run] at h0
    | _ => simp [Proc.terminal] at ht
  · subst hr0'
    cases R with
    | readByte k =>
      simp only [List.nil_append, Proc.run] at h0
      have := run_nil_rest hstep (k (some 0)) h1' t1
      rw [← h0] at this
      cases this
    | peek k =>
      exfalso
      simp only [List.nil_append, Proc.run] at h0 h1
      obtain ⟨E0, hE0⟩ := run_trace hstep (k (some 0)) [0] h1' (.peeked 0 :: t1)
      obtain ⟨E1, hE1⟩ := run_trace hstep (k (some 1)) [1] h1' (.peeked 1 :: t1)
      rw [← h0] at hE0
      rw [← h1] at hE1
      simp only at hE0 hE1
      have e : (E0 ++ [Ev.peeked 0]) ++ t1 = (E1 ++ [Ev.peeked 1]) ++ t1 := by
        rw [List.append_assoc, List.append_assoc]
        exact hE0.symm.trans hE1
      have e' := List.append_cancel_right e
      have := (List.append_inj' e' rfl).2
      simp at this
    | _ => simp [Proc.waiting] at hw

/-- once `upto` has returned, more input is just left over -/
theorem upto_ret_append {α : Type} (p : Proc α) (I T : Bytes) (h : H) (tr : List Ev) (v : α) (r : Bytes) (h' : H) (tr' : List Ev)
    (hu : Proc.upto hstep p I h tr = (.ret v, r, h', tr')) :
    Proc.upto hstep p (I ++ T) h tr = (.ret v, r ++ T, h', tr') := by
  rw [upto_append, hu]
  rfl

/-- `writeLines` reads nothing -/
theorem upto_writeLines (J : Bytes) (h : H) : ∀ (ls : List Bytes) (tr : List Ev),
    Proc.upto hstep (writeLines ls) J h tr = (.ret (), J, h, (ls.map fun l => Ev.wrote (l ++ [13])).reverse ++ tr) := by
  intro ls
  induction ls with
  | nil => intro tr; rfl
  | cons l ls ih =>
    intro tr
    simp only [writeLines, Proc.upto]
    rw [ih]
    simp

/-- `callAll` reads nothing -/
theorem upto_callAll (J : Bytes) : ∀ (cs : List Call) (h : H) (tr : List Ev),
    Proc.upto hstep (callAll cs) J h tr =
      (.ret (), J, cs.foldl (fun h c => (hstep h c).1) h, (cs.map Ev.called).reverse ++ tr) := by
  intro cs
  induction cs with
  | nil => intro h tr; rfl
  | cons c cs ih =>
    intro h tr
    simp only [callAll, Proc.upto]
    rw [ih]
    simp

end generic

/-! ### the pair system, segment by segment -/

/-- a side that is alive on a fault-free link -/
def mkSide (P : Proc Result) (inq : Bytes) (g : Nat) (h : HState) (evs : List Ev) : Side :=
  { proc := P, inq := inq, got := g, limit := none, h := h, evs := evs, ended := none }

theorem push_push (b : Side) (x y : Bytes) : (b.push x).push y = b.push (x ++ y) := by
  simp [Side.push, List.append_assoc]

theorem pairStep_left (a b a' : Side) (bs : Bytes) (ha : a.ended = none) (hb : b.ended = none)
    (hs : stepSelf a false = some (a', bs)) : pairStep false (a, b) = some (a', b.push bs) := by
  simp only [pairStep, moveSide_eq, ha, Option.isSome_none, Bool.false_eq_true, if_false, hb, hs, Option.map_some]
  rw [recv_of_live b bs (by simp [hb])]

/-- the pair system is symmetric -/
theorem pairExec_swap {s t : Side × Side} {n : Nat} (he : PairExec s n t) : PairExec s.swap n t.swap := by
  induction he with
  | refl s => exact Confl.Exec.refl _
  | cons i s s' n t hs _ ih =>
    obtain ⟨a, b⟩ := s
    refine Confl.Exec.cons (!i) _ s'.swap n _ ?_ ih
    cases i with
    | false =>
      simp only [pairStep, Bool.not_false, Prod.swap] at hs ⊢
      rw [hs]; rfl
    | true =>
      simp only [pairStep, Bool.not_true, Prod.swap] at hs ⊢
      cases hm : moveSide b a with
      | none => rw [hm] at hs; cases hs
      | some u =>
        rw [hm] at hs
        simp only [Option.map_some, Option.some.injEq] at hs
        rw [← hs]; rfl

/-- **A segment on the left**: if the left side's program is `P.bind K` and `P` returns `v` on what is
queued, some execution takes the left side to `K v` with the unread rest queued; the right side (alive) gets
what `P` wrote. -/
theorem seg_left {α : Type} (P : Proc α) : ∀ (K : α → Proc Result) (inq : Bytes) (g : Nat) (h : HState) (evs : List Ev)
    (b : Side), b.ended = none → ∀ (v : α) (rest : Bytes) (h' : HState) (e' : List Ev),
    Proc.upto hstep P inq h evs = (.ret v, rest, h', e') →
    ∃ n g' bs, PairExec (mkSide (P.bind K) inq g h evs, b) n (mkSide (K v) rest g' h' e', b.push bs) ∧
      outBytes e' = outBytes evs ++ bs := by
  induction P with
  | ret a =>
    intro K inq g h evs b _ v rest h' e' hu
    simp only [Proc.upto, Prod.mk.injEq, Proc.ret.injEq] at hu
    obtain ⟨rfl, rfl, rfl, rfl⟩ := hu
    exact ⟨0, g, [], by rw [push_nil]; exact Confl.Exec.refl _, by simp⟩
  | readByte k ih =>
    intro K inq g h evs b hb v rest h' e' hu
    cases inq with
    | nil => simp [Proc.upto] at hu
    | cons x t =>
      simp only [Proc.upto] at hu
      obtain ⟨n, g', bs, he, ho⟩ := ih (some x) K t (g + 1) h evs b hb v rest h' e' hu
      refine ⟨n + 1, g', bs, ?_, ho⟩
      refine Confl.Exec.cons false _ (mkSide ((k (some x)).bind K) t (g + 1) h evs, b) n _ ?_ he
      have := pairStep_left (mkSide ((Proc.readByte k).bind K) (x :: t) g h evs) b
        (mkSide ((k (some x)).bind K) t (g + 1) h evs) [] rfl hb (by simp [stepSelf, stepSelfC, mkSide, Side.cutNow, Proc.bind])
      rw [this, push_nil]
  | peek k ih =>
    intro K inq g h evs b hb v rest h' e' hu
    cases inq with
    | nil => simp [Proc.upto] at hu
    | cons x t =>
      simp only [Proc.upto] at hu
      obtain ⟨n, g', bs, he, ho⟩ := ih (some x) K (x :: t) g h (.peeked x :: evs) b hb v rest h' e' hu
      refine ⟨n + 1, g', bs, ?_, by simpa [outBytes] using ho⟩
      refine Confl.Exec.cons false _ (mkSide ((k (some x)).bind K) (x :: t) g h (.peeked x :: evs), b) n _ ?_ he
      have := pairStep_left (mkSide ((Proc.peek k).bind K) (x :: t) g h evs) b
        (mkSide ((k (some x)).bind K) (x :: t) g h (.peeked x :: evs)) [] rfl hb
        (by simp [stepSelf, stepSelfC, mkSide, Side.cutNow, Proc.bind])
      rw [this, push_nil]
  | write ws k ih =>
    intro K inq g h evs b hb v rest h' e' hu
    simp only [Proc.upto] at hu
    obtain ⟨n, g', bs, he, ho⟩ := ih K inq g h (.wrote ws :: evs) (b.push ws) hb v rest h' e' hu
    refine ⟨n + 1, g', ws ++ bs, ?_, by rw [ho]; simp [outBytes]⟩
    rw [push_push] at he
    refine Confl.Exec.cons false _ (mkSide (k.bind K) inq g h (.wrote ws :: evs), b.push ws) n _ ?_ he
    exact pairStep_left (mkSide ((Proc.write ws k).bind K) inq g h evs) b
      (mkSide (k.bind K) inq g h (.wrote ws :: evs)) ws rfl hb (by simp [stepSelf, stepSelfC, mkSide, Proc.bind])
  | call c k ih =>
    intro K inq g h evs b hb v rest h' e' hu
    simp only [Proc.upto] at hu
    obtain ⟨n, g', bs, he, ho⟩ := ih (hstep h c).2 K inq g (hstep h c).1 (.called c :: evs) b hb v rest h' e' hu
    refine ⟨n + 1, g', bs, ?_, by simpa [outBytes] using ho⟩
    refine Confl.Exec.cons false _ (mkSide ((k (hstep h c).2).bind K) inq g (hstep h c).1 (.called c :: evs), b) n _ ?_ he
    have := pairStep_left (mkSide ((Proc.call c k).bind K) inq g h evs) b
      (mkSide ((k (hstep h c).2).bind K) inq g (hstep h c).1 (.called c :: evs)) [] rfl hb
      (by simp [stepSelf, stepSelfC, mkSide, Proc.bind])
    rw [this, push_nil]
  | panic s =>
    intro K inq g h evs b _ v rest h' e' hu
    simp [Proc.upto] at hu

/-- **A segment on the right.** -/
theorem seg_right {α : Type} (P : Proc α) (K : α → Proc Result) (inq : Bytes) (g : Nat) (h : HState) (evs : List Ev)
    (a : Side) (ha : a.ended = none) (v : α) (rest : Bytes) (h' : HState) (e' : List Ev)
    (hu : Proc.upto hstep P inq h evs = (.ret v, rest, h', e')) :
    ∃ n g' bs, PairExec (a, mkSide (P.bind K) inq g h evs) n (a.push bs, mkSide (K v) rest g' h' e') ∧
      outBytes e' = outBytes evs ++ bs := by
  obtain ⟨n, g', bs, he, ho⟩ := seg_left P K inq g h evs a ha v rest h' e' hu
  exact ⟨n, g', bs, pairExec_swap he, ho⟩

/-- a side whose program has returned ends -/
theorem ret_left (r : Result) (inq : Bytes) (g : Nat) (h : HState) (evs : List Ev) (b : Side) :
    PairExec (mkSide (.ret r) inq g h evs, b) 1 ({ mkSide (.ret r) inq g h evs with ended := some (.done r) }, b) := by
  refine Confl.Exec.single (i := false) ?_
  simp only [pairStep, moveSide_eq, mkSide, Option.isSome_none, Bool.false_eq_true, if_false, stepSelf, stepSelfC, Option.map_some,
    recv_nil]

theorem ret_right (r : Result) (inq : Bytes) (g : Nat) (h : HState) (evs : List Ev) (a : Side) :
    PairExec (a, mkSide (.ret r) inq g h evs) 1 (a, { mkSide (.ret r) inq g h evs with ended := some (.done r) }) :=
  pairExec_swap (ret_left r inq g h evs a)

end Wl2k.B2F
