import Wl2kVerif.Proofs.LzValid
import Wl2kVerif.Proofs.Crc
/-
C06 — composition: reading `compress crc16 x` to the end returns `lzDecode (tokensOf crc16 x)` and `Close`
reports success (`roundtrip_of_tokens`); with token validity `lzDecode (tokensOf crc16 x) = x` this is the
round trip.
-/
namespace Wl2k.Lzhuf
open Wl2k.Bits

theorem int32OfLE_le32 (n : Nat) (h : n < 2147483648) : int32OfLE (le32 n) = (n : Int) := by
  have e : ((le32 n).getD 0 0).toNat + 256 * ((le32 n).getD 1 0).toNat + 65536 * ((le32 n).getD 2 0).toNat
      + 16777216 * ((le32 n).getD 3 0).toNat = n := by
    simp only [le32, List.getD_cons_zero, List.getD_cons_succ, UInt8.toNat_ofNat']
    omega
  unfold int32OfLE
  simp only [e]
  rw [if_neg (by omega)]

theorem crc_lt' (p : Bytes) : crc p < 65536 := by
  rw [Wl2k.Crc.crc_eq_xmodem]; exact Wl2k.Crc.xmodemFrom_lt 0 (by decide) p

/-- `NewReader` accepts the compressor's output and finds the body, the size and the CRC where they are. -/
theorem new_compress (crc16 : Bool) (x : Bytes) (hx : x.length < 2147483648) :
    ∃ d, Reader.new crc16 (compress crc16 x) = .ok d ∧ d.src.toList = bodyOf crc16 x ∧
      d.size = (x.length : Int) ∧ (crc16 = true → d.hcrc = crc (d.sizeBytes ++ d.src.toList)) := by
  have hmod : x.length % 4294967296 = x.length := Nat.mod_eq_of_lt (by omega)
  rw [compress_eq, hmod]
  generalize bodyOf crc16 x = body
  have l4 : (le32 x.length).length = 4 := rfl
  cases crc16 with
  | false =>
    have h2 : ¬ ((le32 x.length ++ body).drop 0).length < 4 := by simp [l4]
    refine ⟨_, by
      unfold Reader.new
      simp only [Bool.false_eq_true, false_and, if_false, List.nil_append]
      rw [if_neg h2], ?_, ?_, ?_⟩
    · simp [l4]
    · show int32OfLE (((le32 x.length ++ body).drop 0).take 4) = _
      simp only [List.drop_zero]
      rw [List.take_left' l4, int32OfLE_le32 _ hx]
    · intro h; cases h
  | true =>
    have hc := crc_lt' (le32 x.length ++ body)
    generalize hcdef : crc (le32 x.length ++ body) = c at hc
    have l2 : (le16 c).length = 2 := rfl
    have hd : (le16 c ++ le32 x.length ++ body).drop 2 = le32 x.length ++ body := by
      rw [List.append_assoc, List.drop_left' l2]
    have h1 : ¬ (True ∧ (le16 c ++ le32 x.length ++ body).length < 2) := by
      simp [l2]
    have h2 : ¬ ((le16 c ++ le32 x.length ++ body).drop 2).length < 4 := by rw [hd]; simp [l4]
    refine ⟨_, by
      unfold Reader.new
      simp only [if_true]
      rw [if_neg h1, if_neg h2], ?_, ?_, ?_⟩
    · show (((le16 c ++ le32 x.length ++ body).drop 2).drop 4).toArray.toList = body
      rw [hd, List.drop_left' l4]
    · show int32OfLE (((le16 c ++ le32 x.length ++ body).drop 2).take 4) = _
      rw [hd, List.take_left' l4, int32OfLE_le32 _ hx]
    · intro _
      show ((le16 c ++ le32 x.length ++ body).getD 0 0).toNat + 256 * ((le16 c ++ le32 x.length ++ body).getD 1 0).toNat
        = crc (((le16 c ++ le32 x.length ++ body).drop 2).take 4 ++ (((le16 c ++ le32 x.length ++ body).drop 2).drop 4).toArray.toList)
      rw [hd, List.take_left' l4, List.drop_left' l4, hcdef]
      simp only [le16, List.cons_append, List.getD_cons_zero, List.getD_cons_succ, UInt8.toNat_ofNat']
      omega

/-- **Reading the compressor's output yields what its tokens stand for.**  For every input `x` below 2 GiB
and either header format, `NewReader` accepts `compress crc16 x`, and any sequence of `Read`s (any buffer
sizes) that reaches an error return (`io.EOF` included) has returned exactly `lzDecode (tokensOf crc16 x)`;
`Close` then reports success. -/
theorem roundtrip_of_tokens (crc16 : Bool) (x : Bytes) (hx : x.length < 2147483648)
    (hlen : (lzDecode (tokensOf crc16 x)).length = x.length) :
    ∃ d, Reader.new crc16 (compress crc16 x) = .ok d ∧
      ∀ ns : List Nat, (∃ e, some e ∈ errsWith d ns) →
        (readsWith d ns).2 = lzDecode (tokensOf crc16 x) ∧ (readsWith d ns).1.close = none := by
  obtain ⟨d, h1, h2, h3, h4⟩ := new_compress crc16 x hx
  obtain ⟨pad, p1, -, p3, p4⟩ := compress_bits crc16 x
  refine ⟨d, h1, fun ns hend => ?_⟩
  exact decode_tokens crc16 _ d h1 (tokensOf crc16 x) p4 pad p1 (by rw [h2, p3]) (by rw [h3, hlen]) h4 ns hend

/-- **Round trip, given token validity.**  The remaining hypothesis `hv` says that the match tokens the
encoder emits refer to bytes equal to the look-ahead (the search-tree invariant). -/
theorem roundtrip_partial (crc16 : Bool) (x : Bytes) (hx : x.length < 2147483648)
    (hv : lzDecode (tokensOf crc16 x) = x) :
    ∃ d, Reader.new crc16 (compress crc16 x) = .ok d ∧
      ∀ ns : List Nat, (∃ e, some e ∈ errsWith d ns) →
        (readsWith d ns).2 = x ∧ (readsWith d ns).1.close = none := by
  obtain ⟨d, h1, h2⟩ := roundtrip_of_tokens crc16 x hx (by rw [hv])
  refine ⟨d, h1, fun ns hend => ?_⟩
  have := h2 ns hend
  rw [hv] at this
  exact this

/-- **Round trip.**  For every input `x` below 2 GiB and either header format: `NewReader` accepts
`compress crc16 x`, and any sequence of `Read`s (ANY buffer sizes) that reaches an error return (`io.EOF`
included) has returned exactly `x`; `Close` then reports success. -/
theorem roundtrip_full (crc16 : Bool) (x : Bytes) (hx : x.length < 2147483648) :
    ∃ d, Reader.new crc16 (compress crc16 x) = .ok d ∧ d.size = (x.length : Int) ∧
      ∀ ns : List Nat, (∃ e, some e ∈ errsWith d ns) →
        (readsWith d ns).2 = x ∧ (readsWith d ns).1.close = none := by
  obtain ⟨d, h1, h2⟩ := roundtrip_partial crc16 x hx (tokens_valid crc16 x)
  obtain ⟨d', h1', -, h3, -⟩ := new_compress crc16 x hx
  have : d' = d := by rw [h1] at h1'; exact (Except.ok.inj h1').symm
  subst this
  exact ⟨d', h1, h3, h2⟩

/-! ### one `Read` into a buffer that holds everything -/

/-- the decode loop follows a finite token stream to its end when the buffer has room for all of it -/
theorem fill_of_run {d c : Reader} {bs : Bytes} (hrun : Run d c bs) :
    ∀ (out : Bytes) (room fuel : Nat), d.pending = [] → (d.err = none ∨ (d.pos : Int) ≥ d.size) →
      bs.length ≤ room → room < fuel → d.fill out room fuel = (c, bs.reverse ++ out) := by
  induction hrun with
  | done d hnl =>
    intro out room fuel _ he _ _
    rw [fill_dead]
    · rfl
    · intro ⟨_, h2, h3⟩
      rcases he with he | he
      · exact hnl ⟨he, by simpa using h2, h3⟩
      · omega
  | step d c bs hl _ ih =>
    intro out room fuel hq _ hlen hf
    have t := tok_acc d
    have hprog := t.progress hl.2.2
    rw [List.length_append] at hlen
    obtain ⟨fuel', rfl⟩ : ∃ f, fuel = f + 1 := ⟨fuel - 1, by omega⟩
    rw [fill_step d out room fuel' (by omega) hl.2.1 hl.2.2, hq, List.nil_append,
      List.drop_eq_nil_of_le (by omega), List.take_of_length_le (by omega),
      setPending_self _ _ (t.pending.trans hq)]
    rw [ih _ _ _ (t.pending.trans hq) ?_ (by omega) (by omega)]
    · simp
    · rcases t.err with h | h
      · exact Or.inl (h.trans hl.1)
      · exact Or.inr h.2

/-- a `Read` with room for the whole remaining token stream returns all of it -/
theorem read_of_run {d c : Reader} {bs : Bytes} (hrun : Run d c bs) (hq : d.pending = [])
    (he : d.err = none) (hb : d.berr = false) (m : Nat) (hm : bs.length ≤ m) :
    (d.read m).2.1 = bs ∧ ((d.read m).1 = c ∨ (bs = [] ∧ (d.read m).1 = d)) := by
  rw [read_eq, norm_of_not_berr d hb]
  by_cases h1 : (!d.berr) = true ∧ (d.pos : Int) ≥ d.size ∧ d.pending.isEmpty = true
  · rw [if_pos h1]
    have hnl : ¬ d.live := fun hl => by have := hl.2.2; omega
    cases hrun with
    | done _ _ => exact ⟨rfl, Or.inl rfl⟩
    | step _ _ _ hl _ => exact absurd hl hnl
  · rw [if_neg h1, if_neg (by rw [he]; simp)]
    unfold Reader.readFill
    have e : ({ d with pending := [] } : Reader) = d := setPending_self d _ hq
    rw [hq]
    simp only [List.drop_nil, List.take_nil, List.reverse_nil, List.length_nil, Nat.sub_zero]
    rw [e, fill_of_run hrun [] m (m + 1) hq (Or.inl he) hm (by omega)]
    simp

theorem run_nil_eq {d c : Reader} {bs : Bytes} (h : Run d c bs) (hb : bs = []) : c = d := by
  cases h with
  | done _ _ => rfl
  | step _ _ bs' hl hr =>
    have := (tok_acc d).progress hl.2.2
    have hl0 := congrArg List.length hb
    simp only [List.length_append, List.length_nil] at hl0
    omega

/-- the token stream of the compressor's output ends in a state that passes `Close`, having produced `x` -/
theorem compress_run (crc16 : Bool) (x : Bytes) (hx : x.length < 2147483648) :
    ∃ d c, Reader.new crc16 (compress crc16 x) = .ok d ∧ d.size = (x.length : Int) ∧ d.pending = [] ∧
      d.err = none ∧ d.berr = false ∧ Run d c x ∧ c.close = none := by
  obtain ⟨d, hnew, h2, h3, h4⟩ := new_compress crc16 x hx
  obtain ⟨pad, p1, -, p3, ok⟩ := compress_bits crc16 x
  have hv := tokens_valid crc16 x
  obtain ⟨n1, n2, n3, n4⟩ := new_rinv crc16 _ d hnew
  obtain ⟨m1, m2, m3, -⟩ := new_fields crc16 _ d hnew
  obtain ⟨k1, k2, k3, -⟩ := new_fields2 crc16 _ d hnew
  have hh := Reader.new_h crc16 _ d hnew
  obtain ⟨c, r1, r2, r3, r4, r5, r6, r7, -⟩ := run_tokens (tokensOf crc16 x) d initHist pad ok
    (by rw [hh]; exact huffWF_init) n1 (new_win d k1 k2) m3 n3 (by rw [n2, h2, p3, hh])
    (by rw [h3, m1, ← lzOut_length (tokensOf crc16 x) initHist, ← lzDecode_eq, hv]; simp)
  rw [← lzDecode_eq, hv] at r1
  refine ⟨d, c, hnew, h3, m2, m3, n3, r1, ?_⟩
  apply close_of_end c r2 r3 (r7.pending.trans m2) r4 r6 (by rw [r5]; exact p1)
  intro hc
  rw [r7.crc16, k3] at hc
  rw [r7.hcrc, r7.sizeBytes, r7.src]
  exact h4 hc

/-- **One `Read` of everything**: a single `Read` into a buffer of at least `|x|` bytes returns `x`, and
`Close` right after it reports success. -/
theorem roundtrip_one_read (crc16 : Bool) (x : Bytes) (hx : x.length < 2147483648) (m : Nat)
    (hm : x.length ≤ m) :
    ∃ d, Reader.new crc16 (compress crc16 x) = .ok d ∧ (d.read m).2.1 = x ∧ (d.read m).1.close = none := by
  obtain ⟨d, c, h1, h2, h3, h4, h5, h6, h7⟩ := compress_run crc16 x hx
  obtain ⟨e1, e2⟩ := read_of_run h6 h3 h4 h5 m hm
  refine ⟨d, h1, e1, ?_⟩
  rcases e2 with e | ⟨e, e'⟩
  · rw [e]; exact h7
  · -- the empty input: the read returned EOF at once and left the state alone
    rw [e', ← run_nil_eq h6 e]; exact h7

/-- if the state after a sequence of reads carries no error, every error any of them returned was `io.EOF` -/
theorem errs_eof_of_final : ∀ (ns : List Nat) (d : Reader), (readsWith d ns).1.err = none →
    ∀ e, some e ∈ errsWith d ns → e = .eof := by
  intro ns
  induction ns with
  | nil => intro d _ e he; simp [errsWith] at he
  | cons m ns ih =>
    intro d hf e he
    simp only [errsWith, List.mem_cons] at he
    have hf' : (readsWith (d.read m).1 ns).1.err = none := hf
    rcases he with he | he
    · have hr : (d.read m).2.2 = some e := he.symm
      obtain ⟨-, f2, f3⟩ := read_err_fix d m e hr
      have fz := (readsWith_frozen (d.read m).1 f3 ns).1
      rw [fz, f2] at hf'
      rw [read_eq] at hr
      split at hr
      · exact (Option.some.inj hr).symm
      · split at hr
        · have hr' : d.norm.err = some e := hr
          rw [hf'] at hr'; cases hr'
        · cases hr
    · exact ih (d.read m).1 hf' e he

/-- while reading the compressor's output to the end, the only error any `Read` returns is `io.EOF` -/
theorem roundtrip_only_eof (crc16 : Bool) (x : Bytes) (hx : x.length < 2147483648) (d : Reader)
    (hd : Reader.new crc16 (compress crc16 x) = .ok d) (ns : List Nat) (hend : ∃ e, some e ∈ errsWith d ns) :
    ∀ e, some e ∈ errsWith d ns → e = .eof := by
  obtain ⟨d', h1, -, h3⟩ := roundtrip_full crc16 x hx
  have : d' = d := by rw [hd] at h1; exact (Except.ok.inj h1).symm
  subst this
  have hc := (h3 ns hend).2
  apply errs_eof_of_final ns d'
  cases he : (readsWith d' ns).1.err with
  | none => rfl
  | some e => exact absurd hc (close_ne_none_of_err _ (by rw [he]; rfl))

end Wl2k.Lzhuf
