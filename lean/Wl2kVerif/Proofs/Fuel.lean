import Wl2kVerif.Proofs.Textproto
/-
The fuel arguments of the reader model never run out: any fuel above the length of the remaining
input gives the same result (so the `0` branches are unreachable from `readMIMEHeader`).
-/
namespace Wl2k.Textproto
open Wl2k

theorem splitLF_length : ∀ (s l r : Bytes), splitLF s = (l, some r) → r.length < s.length
  | [], _, _, h => by simp [splitLF] at h
  | b :: t, l, r, h => by
    simp only [splitLF] at h
    split at h
    · simp only [Prod.mk.injEq, Option.some.injEq] at h; rw [← h.2]; simp
    · simp only [Prod.mk.injEq] at h
      have := splitLF_length t (splitLF t).1 r (by rw [← h.2])
      simp only [List.length_cons]; omega

theorem readLine_length {s l r : Bytes} (h : readLine s = some (l, r)) : r.length < s.length := by
  cases s with
  | nil => simp [readLine] at h
  | cons a t =>
    simp only [readLine] at h
    split at h
    · rename_i l' r' hs
      simp only [Option.some.injEq, Prod.mk.injEq] at h
      rw [← h.2]; exact splitLF_length _ _ _ hs
    · simp only [Option.some.injEq, Prod.mk.injEq] at h
      rw [← h.2]; simp

theorem dropWhile_length_le (p : UInt8 → Bool) (s : Bytes) : (s.dropWhile p).length ≤ s.length :=
  (List.dropWhile_sublist p).length_le

theorem contLoop_fuel : ∀ (n : Nat) (s buf : Bytes) (f1 f2 : Nat), s.length ≤ n → n ≤ f1 → n ≤ f2 →
    contLoop f1 buf s = contLoop f2 buf s
  | n, [], buf, f1, f2, _, _, _ => by cases f1 <;> cases f2 <;> rfl
  | 0, _ :: _, _, _, _, h, _, _ => by simp at h
  | n + 1, b :: t, buf, f1, f2, hs, h1, h2 => by
    obtain ⟨g1, rfl⟩ : ∃ g, f1 = g + 1 := ⟨f1 - 1, by omega⟩
    obtain ⟨g2, rfl⟩ : ∃ g, f2 = g + 1 := ⟨f2 - 1, by omega⟩
    simp only [contLoop]
    split
    · cases hr : readLine (t.dropWhile isBlank) with
      | none => rfl
      | some p =>
        obtain ⟨l, r⟩ := p
        have h3 := readLine_length hr
        have h4 := dropWhile_length_le isBlank t
        simp only [List.length_cons] at hs
        exact contLoop_fuel n r _ g1 g2 (by omega) (by omega) (by omega)
    · rfl

theorem contLoop_length : ∀ (f : Nat) (buf s : Bytes), (contLoop f buf s).2.length ≤ s.length
  | 0, _, _ => by simp [contLoop]
  | f + 1, buf, [] => by simp [contLoop]
  | f + 1, buf, b :: t => by
    simp only [contLoop]
    split
    · cases hr : readLine (t.dropWhile isBlank) with
      | none => simp
      | some p =>
        obtain ⟨l, r⟩ := p
        have h3 := readLine_length hr
        have h4 := dropWhile_length_le isBlank t
        have := contLoop_length f (buf ++ [32] ++ trim l) r
        simp only [List.length_cons]; omega
    · simp

theorem readContinued_length {s kv rest : Bytes} (h : readContinued s = .ok (kv, rest)) : rest.length < s.length := by
  unfold readContinued at h
  cases hr : readLine s with
  | none => simp [hr] at h
  | some p =>
    obtain ⟨line, r⟩ := p
    have h3 := readLine_length hr
    simp only [hr] at h
    split at h
    · simp only [Except.ok.injEq, Prod.mk.injEq] at h; rw [← h.2]; exact h3
    · split at h
      · simp at h
      · simp only [Except.ok.injEq] at h
        have := contLoop_length r.length (trim line) r
        rw [h] at this; simp only at this; omega

/-- **Fuel suffices**: with any fuel above the input length the header loop computes the same. -/
theorem readHeaderLoop_fuel : ∀ (n : Nat) (s : Bytes) (h : MIMEHeader) (f1 f2 : Nat), s.length ≤ n → n < f1 → n < f2 →
    readHeaderLoop f1 h s = readHeaderLoop f2 h s
  | n, s, h, f1, f2, hs, h1, h2 => by
    obtain ⟨g1, rfl⟩ : ∃ g, f1 = g + 1 := ⟨f1 - 1, by omega⟩
    obtain ⟨g2, rfl⟩ : ∃ g, f2 = g + 1 := ⟨f2 - 1, by omega⟩
    simp only [readHeaderLoop]
    cases hc : readContinued s with
    | error e => rfl
    | ok p =>
      obtain ⟨kv, rest⟩ := p
      have hl := readContinued_length hc
      simp only
      split
      · rfl
      · cases addLine h kv with
        | error e => rfl
        | ok h' =>
          simp only
          cases n with
          | zero => omega
          | succ n => exact readHeaderLoop_fuel n rest h' g1 g2 (by omega) (by omega) (by omega)

end Wl2k.Textproto
