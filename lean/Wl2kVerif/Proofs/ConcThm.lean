import Wl2kVerif.Proofs.ConcInv
/-
Consequences of the invariants: what a performed access looks like, exact micro-steps, solo runs.
-/
namespace Wl2k.Url.Conc

/-- If the slot given to `t` performed a map access (appended an `access` event `e`), then it was `t`'s
access, `t` held the mutex, and the registry changed exactly by the sequential semantics of the call. -/
theorem access_step (progs : List (List COp)) (st : State) (t : Nat) (hm : MutexInv st) (e : Ev)
    (htr : (stepThread progs st t).trace = st.trace ++ [e]) (hk : e.kind = .access) :
    e.tid = t ∧ st.holder = some t ∧ (stepThread progs st t).reg = (e.op.apply st.reg).1 := by
  revert htr
  refine stepThread_cases progs st t
    (fun s' => s'.trace = st.trace ++ [e] → e.tid = t ∧ st.holder = some t ∧ s'.reg = (e.op.apply st.reg).1)
    ?_ ?_ ?_ ?_ ?_ ?_
  · intro h
    have := congrArg List.length h
    simp at this
  · intro op _ _ _ h
    have := List.append_cancel_left h
    simp only [List.cons.injEq, and_true] at this
    subst this; simp at hk
  · intro op _ hpc h
    have := List.append_cancel_left h
    simp only [List.cons.injEq, and_true] at this
    subst this
    exact ⟨rfl, (hm t).2 (by rw [hpc]; rfl), rfl⟩
  · intro o res _ _ h
    have := List.append_cancel_left h
    simp only [List.cons.injEq, and_true] at this
    subst this; simp at hk
  · intro s res _ _ h
    have := List.append_cancel_left h
    simp only [List.cons.injEq, and_true] at this
    subst this; simp at hk
  · intro op res _ _ h
    have := List.append_cancel_left h
    simp only [List.cons.injEq, and_true] at this
    subst this; simp at hk

/-! ### Exact micro-steps -/

theorem step_lock (progs : List (List COp)) (st : State) (t : Nat) (op : COp)
    (hop : curOp progs st t = some op) (hpc : (st.threads t).pc = .idle) (hh : st.holder = none) :
    stepThread progs st t =
      ⟨st.reg, some t, setThread st.threads t ⟨(st.threads t).idx, .locked⟩,
        st.trace ++ [⟨t, (st.threads t).idx, op, .lock, none⟩]⟩ := by
  unfold stepThread
  simp only [hop, hpc, hh]

theorem step_access (progs : List (List COp)) (st : State) (t : Nat) (op : COp)
    (hop : curOp progs st t = some op) (hpc : (st.threads t).pc = .locked) :
    stepThread progs st t =
      ⟨(op.apply st.reg).1, st.holder,
        setThread st.threads t ⟨(st.threads t).idx, .accessed (op.apply st.reg).2⟩,
        st.trace ++ [⟨t, (st.threads t).idx, op, .access, none⟩]⟩ := by
  unfold stepThread
  simp only [hop, hpc]

theorem step_unlock_reg (progs : List (List COp)) (st : State) (t : Nat) (o : RegOp) (res : Res)
    (hop : curOp progs st t = some (.reg o)) (hpc : (st.threads t).pc = .accessed res) :
    stepThread progs st t =
      ⟨st.reg, none, setThread st.threads t ⟨(st.threads t).idx + 1, .idle⟩,
        st.trace ++ [⟨t, (st.threads t).idx, .reg o, .unlock, some res⟩]⟩ := by
  unfold stepThread
  simp only [hop, hpc]

theorem step_unlock_dial (progs : List (List COp)) (st : State) (t : Nat) (s : Bytes) (res : Res)
    (hop : curOp progs st t = some (.dial s)) (hpc : (st.threads t).pc = .accessed res) :
    stepThread progs st t =
      ⟨st.reg, none, setThread st.threads t ⟨(st.threads t).idx, .unlocked res⟩,
        st.trace ++ [⟨t, (st.threads t).idx, .dial s, .unlock, none⟩]⟩ := by
  unfold stepThread
  simp only [hop, hpc]

theorem step_dispatch (progs : List (List COp)) (st : State) (t : Nat) (op : COp) (res : Res)
    (hop : curOp progs st t = some op) (hpc : (st.threads t).pc = .unlocked res) :
    stepThread progs st t =
      ⟨st.reg, st.holder, setThread st.threads t ⟨(st.threads t).idx + 1, .idle⟩,
        st.trace ++ [⟨t, (st.threads t).idx, op, .dispatch, some res⟩]⟩ := by
  unfold stepThread
  simp only [hop, hpc]


/-! ### A call run without interruption -/

theorem setThread_setThread (f : Nat → Thread) (t : Nat) (a b : Thread) :
    setThread (setThread f t a) t b = setThread f t b := by
  funext u; simp only [setThread]; split <;> rfl

/-- Three consecutive slots complete a register/unregister call that finds the mutex free. -/
theorem solo_reg (progs : List (List COp)) (st : State) (j : Nat) (o : RegOp)
    (hop : curOp progs st j = some (.reg o)) (hpc : (st.threads j).pc = .idle) (hh : st.holder = none) :
    execFrom progs st [j, j, j] =
      ⟨st.reg.step o, none, setThread st.threads j ⟨(st.threads j).idx + 1, .idle⟩,
        st.trace ++ [⟨j, (st.threads j).idx, .reg o, .lock, none⟩,
          ⟨j, (st.threads j).idx, .reg o, .access, none⟩,
          ⟨j, (st.threads j).idx, .reg o, .unlock, some .unit⟩]⟩ := by
  simp only [execFrom]
  rw [step_lock progs st j _ hop hpc hh]
  refine Eq.trans (congrArg (fun s => stepThread progs s j) (step_access progs _ j (.reg o) ?_ ?_)) ?_
  · simpa [curOp] using hop
  · simp
  refine Eq.trans (step_unlock_reg progs _ j o .unit ?_ ?_) ?_
  · simpa [curOp] using hop
  · simp [apply_reg]
  simp [setThread_setThread, apply_reg]

/-- Four consecutive slots complete a dial that finds the mutex free; it dispatches to the dialer
registered at that moment. -/
theorem solo_dial (progs : List (List COp)) (st : State) (j : Nat) (s : Bytes)
    (hop : curOp progs st j = some (.dial s)) (hpc : (st.threads j).pc = .idle) (hh : st.holder = none) :
    execFrom progs st [j, j, j, j] =
      ⟨st.reg, none, setThread st.threads j ⟨(st.threads j).idx + 1, .idle⟩,
        st.trace ++ [⟨j, (st.threads j).idx, .dial s, .lock, none⟩,
          ⟨j, (st.threads j).idx, .dial s, .access, none⟩,
          ⟨j, (st.threads j).idx, .dial s, .unlock, none⟩,
          ⟨j, (st.threads j).idx, .dial s, .dispatch, some (.dialed (st.reg.dial s))⟩]⟩ := by
  simp only [execFrom]
  rw [step_lock progs st j _ hop hpc hh]
  refine Eq.trans (congrArg (fun s => stepThread progs (stepThread progs s j) j)
    (step_access progs _ j (.dial s) ?_ ?_)) ?_
  · simpa [curOp] using hop
  · simp
  refine Eq.trans (congrArg (fun s => stepThread progs s j)
    (step_unlock_dial progs _ j s (.dialed (st.reg.dial s)) ?_ ?_)) ?_
  · simpa [curOp] using hop
  · simp [apply_dial]
  refine Eq.trans (step_dispatch progs _ j (.dial s) (.dialed (st.reg.dial s)) ?_ ?_) ?_
  · simpa [curOp] using hop
  · simp
  simp [setThread_setThread, apply_dial]
/-- The holder of the mutex releases it within two of its own slots. -/
theorem holder_releases (progs : List (List COp)) (st : State) (k : Nat) (hm : MutexInv st)
    (hp : PendInv progs st) (hh : st.holder = some k) :
    (execFrom progs st [k]).holder = none ∨ (execFrom progs st [k, k]).holder = none := by
  have hcs := (hm k).1 hh
  cases hpc : (st.threads k).pc with
  | idle => rw [hpc] at hcs; simp [inCS] at hcs
  | unlocked r => rw [hpc] at hcs; simp [inCS] at hcs
  | accessed res =>
    left
    obtain ⟨op, hop⟩ := hp k (by rw [hpc]; simp)
    simp only [execFrom]
    cases op with
    | reg o => rw [step_unlock_reg progs st k o res hop hpc]
    | dial s => rw [step_unlock_dial progs st k s res hop hpc]
  | locked =>
    right
    obtain ⟨op, hop⟩ := hp k (by rw [hpc]; simp)
    simp only [execFrom]
    rw [step_access progs st k op hop hpc]
    cases op with
    | reg o => rw [step_unlock_reg progs _ k o _ (by simpa [curOp] using hop) (by simp; rfl)]
    | dial s => rw [step_unlock_dial progs _ k s _ (by simpa [curOp] using hop) (by simp; rfl)]

/-- No deadlock: if some thread is unfinished, some thread's slot performs a micro-step. -/
theorem some_thread_moves (progs : List (List COp)) (st : State) (hm : MutexInv st)
    (hp : PendInv progs st) (u : Nat) (hu : nextKind progs st u ≠ none) :
    ∃ t e, (stepThread progs st t).trace = st.trace ++ [e] := by
  cases hh : st.holder with
  | none =>
    unfold nextKind at hu
    cases hop : curOp progs st u with
    | none => rw [hop] at hu; simp at hu
    | some op =>
      cases hpc : (st.threads u).pc with
      | idle => exact ⟨u, _, by rw [step_lock progs st u op hop hpc hh]⟩
      | locked => exact ⟨u, _, by rw [step_access progs st u op hop hpc]⟩
      | accessed res =>
        cases op with
        | reg o => exact ⟨u, _, by rw [step_unlock_reg progs st u o res hop hpc]⟩
        | dial s => exact ⟨u, _, by rw [step_unlock_dial progs st u s res hop hpc]⟩
      | unlocked res => exact ⟨u, _, by rw [step_dispatch progs st u op res hop hpc]⟩
  | some k =>
    have hcs := (hm k).1 hh
    cases hpc : (st.threads k).pc with
    | idle => rw [hpc] at hcs; simp [inCS] at hcs
    | unlocked r => rw [hpc] at hcs; simp [inCS] at hcs
    | locked =>
      obtain ⟨op, hop⟩ := hp k (by rw [hpc]; simp)
      exact ⟨k, _, by rw [step_access progs st k op hop hpc]⟩
    | accessed res =>
      obtain ⟨op, hop⟩ := hp k (by rw [hpc]; simp)
      cases op with
      | reg o => exact ⟨k, _, by rw [step_unlock_reg progs st k o res hop hpc]⟩
      | dial s => exact ⟨k, _, by rw [step_unlock_dial progs st k s res hop hpc]⟩

end Wl2k.Url.Conc
