import Wl2kVerif.Proofs.AcceptOutbound
import Wl2kVerif.Proofs.AcceptTerm
import Wl2kVerif.Proofs.AcceptHs
import Wl2kVerif.Proofs.AcceptDual
/-
Assembly helpers for Props/C05_accept.lean.
-/
namespace Wl2k.B2F
open Wl2k Wl2k.B2F.InGrammar Wl2k.B2F.Grammar

theorem verdict_of_conforms (g : InCfg) (ws : List Bytes) (script : List RUnit) (tail : Bytes)
    (h : conforms g ws script tail = true) : verdictOK g tail (conf g (start g (lineWrites ws)) script) := by
  unfold conforms at h
  unfold verdictOK
  split at h <;> simp_all

/-- `session_terminates` (Props/C03_term.lean), re-derived from the copy `Proofs/AcceptTerm.lean` -/
theorem no_fuel_panic {H : Type} (hstep : H → Call → H × Reply) (c : Cfg) (input : Bytes) (h : H)
    (fuel : Nat) (hf : input.length < fuel) :
    ∀ s, (Proc.run hstep (exchange c fuel) input h []).1 = .panicked s → s ≠ "fuel" := by
  intro s hs
  have := AT.run_nf hstep input h [] (AT.exchange_nf c fuel input.length hf)
  revert this hs
  generalize Proc.run hstep (exchange c fuel) input h [] = r
  obtain ⟨e, rest⟩ := r
  intro hs
  simp only at hs
  subst hs
  exact id

/-- from `resGood` and the absence of the fuel panic to the statement of the property -/
theorem result_of_resGood {e : Ended Result} (hg : resGood e) (hnf : ∀ s, e = .panicked s → s ≠ "fuel") :
    ∃ r, e = .done r ∧ (r.err = .nil ∨ r.err = .connLost) := by
  cases e with
  | done r =>
    refine ⟨r, rfl, ?_⟩
    have : r.err ≠ .other := hg
    cases hr : r.err with
    | nil => exact Or.inl rfl
    | connLost => exact Or.inr rfl
    | other => exact absurd hr this
  | panicked s => exact absurd hg (hnf s rfl)
  | blocked => exact hg.elim

theorem ra_of {H : Type} (hstep : H → Call → H × Reply) (g : InCfg) (hR : ∀ h c, HandlerOK c (hstep h c).2)
    (hA : ∀ h c, HandlerAccepts g c (hstep h c).2) : ∀ h c, RA g c (hstep h c).2 := fun h c => ⟨hR h c, hA h c⟩

end Wl2k.B2F
