import Wl2kVerif.Proofs.WholeBatch
/-
The receiver's turn inside the REAL rest of a session (`restOfSession c fuel (n+1) false st`), reference
handler: the complete trace on every prefix of what the sender writes, with the residual program, residual
input and handler state when the turn completes.
-/
namespace Wl2k.B2F
open Wl2k Wl2k.Fmt Wl2k.Str Wl2k.Strconv

theorem noConf_of_fetch (evs : List Ev) (h : ∀ e ∈ evs, FetchAlpha e.node) : NoConf evs := by
  intro m hm
  have := h _ hm
  simp [Ev.node, FetchAlpha, isFetchCall] at this

theorem noConf_of_answer (evs : List Ev) (h : ∀ e ∈ evs, e.isAnswerCall = true) : NoConf evs := by
  intro m hm
  have := h _ hm
  simp [Ev.isAnswerCall, isAnswerCall] at this

/-- **The receiver's turn, then the rest of the session, on any prefix `J` of what the sender writes**
(`blockOut block`, then `Rr`). Either nothing at all happens (the block did not arrive completely), or the
trace is — latest first — `X` (what follows the turn), `fev` (`parseMessage`/`processInbound` calls), the `FS`
line with one plain answer per proposal, the answer calls `evs`; and if what arrived after the block is a
prefix of the frames of the accepted proposals followed by `rest'`, then EITHER the session ended there
(`X` reports nothing sent and writes nothing, or something starting with '*'), OR every accepted payload
was handed over and `X` is the trace of the rest of the session (a sender turn next) on a prefix of `rest'`. -/
theorem recv_block (c : Cfg) (fuel n : Nat) (st : SState) (hq : st.quitReceived = false) (hs : st.quitSent = false)
    (block : List Proposal) (m : Nat) (hm1 : 1 ≤ m) (hm2 : m ≤ 255) (dataOf : Proposal → Bytes) (Rr J : Bytes) (h : HState)
    (hwpa : WpaOK hstep c h) (hne : block ≠ [])
    (hline : ∀ p ∈ block, LineOK p ∧ (pl p).length < fuel) (hframe : ∀ p ∈ block, FrameOK fuel dataOf p)
    (hfuel : 5 < fuel) (hbl : block.length < fuel) (hJ : J <+: blockOut block ++ Rr) :
    trOf (restOfSession c fuel (n + 1) false st) J h = [] ∨
    ∃ (as : List UInt8) (evs fev X : List Ev) (J2 : Bytes), J = blockOut block ++ J2 ∧ J2 <+: Rr ∧
      as.length = block.length ∧ (∀ a ∈ as, PlainAnswer a) ∧ (∀ e ∈ evs, e.isAnswerCall = true) ∧
      outBytes fev = [] ∧ NoConf fev ∧
      trOf (restOfSession c fuel (n + 1) false st) J h = X ++ (fev ++ .wrote (fsLine as ++ [13]) :: evs) ∧
      (∀ rest', J2 <+: framesBytes m block as ++ rest' →
        (NoConf X ∧ (outBytes X = [] ∨ ∃ t, outBytes X = 42 :: t)) ∨
        (fev = deliverEvs (acceptedData dataOf block as) ∧
          ∃ J3 h' st', J3 <+: rest' ∧ HLe h' h ∧ X = trOf (restOfSession c fuel n true st') J3 h')) := by
  rw [restOfSession_recv c fuel n st hq hs]
  unfold trOf
  rw [run_bind]
  unfold handleInbound
  simp only [bind_eq, pure_eq]
  rw [run_bind]
  have hJ' : J <+: blockBytes block ++ (promptLine (blockSum 0 block) ++ Rr) := by
    simpa [blockOut, List.append_assoc] using hJ
  rcases run_inboundLoop_block hstep c fuel st h [] hfuel block [] 0 fuel hline hbl (by simpa using hne) Rr J hJ' with
    ⟨J2, rfl, hJ2, hrun⟩ | ⟨_, hrun⟩
  · right
    rw [hrun]
    simp only [answerTail, List.nil_append]
    rw [run_bind]
    obtain ⟨as, evs, a1, a2, a3, a4⟩ := hwpa (block.map recvProp) J2 []
    rw [a4]
    simp only [Proc.run]
    rw [run_bind]
    have hlen : as.length = block.length := by simpa using a1
    -- the fetch loop
    have htr := run_tr hstep (fetchAll fuel (List.zipWith setAns (block.map recvProp) as) { st with remoteNoMsgs := false }) J2 h
      (.wrote (fsPrefix ++ as ++ [13]) :: (evs ++ []))
    have hsh := run_shape hstep (fetchAll_shape (E := FetchAlpha) ⟨trivial, fun _ => trivial⟩ (fun _ => rfl) (fun _ => rfl) fuel
      (List.zipWith setAns (block.map recvProp) as) { st with remoteNoMsgs := false }) J2 h [] (by intro e he; cases he)
    have hle := run_hle (fetchAll fuel (List.zipWith setAns (block.map recvProp) as) { st with remoteNoMsgs := false }) J2 h []
    generalize hfa0 : Proc.run hstep (fetchAll fuel (List.zipWith setAns (block.map recvProp) as) { st with remoteNoMsgs := false })
      J2 h [] = fa0 at htr hsh hle
    obtain ⟨res, J3, h3, fev⟩ := fa0
    simp only at htr hsh hle
    rw [htr]
    have hfev : outBytes fev = [] := fetch_evs_silent fev hsh
    have hfevc : NoConf fev := noConf_of_fetch fev hsh
    refine ⟨as, evs, fev, ?_⟩
    cases res with
    | panicked s =>
      refine ⟨[], J2, by simp [blockOut], hJ2, hlen, a2, a3, hfev, hfevc, by simp [fsLine],
        fun _ _ => Or.inl ⟨noConf_nil, Or.inl rfl⟩⟩
    | blocked =>
      refine ⟨[], J2, by simp [blockOut], hJ2, hlen, a2, a3, hfev, hfevc, by simp [fsLine],
        fun _ _ => Or.inl ⟨noConf_nil, Or.inl rfl⟩⟩
    | done r =>
      obtain ⟨st', e⟩ := r
      simp only [Proc.run]
      cases e with
      | some e =>
        obtain ⟨X, hX, hXo⟩ := run_finish_err hstep st' e J3 h3 (fev ++ .wrote (fsPrefix ++ as ++ [13]) :: (evs ++ []))
        have hXc : NoConf X := by
          have h1 := trOf_finish_err st' e J3 h3
          have h2 : X = trOf (finish st' false (some e)) J3 h3 := by
            have := run_tr hstep (finish st' false (some e)) J3 h3 (fev ++ .wrote (fsPrefix ++ as ++ [13]) :: (evs ++ []))
            rw [this] at hX
            exact (List.append_cancel_right hX).symm
          rw [h2]; exact h1
        refine ⟨X, J2, by simp [blockOut], hJ2, hlen, a2, a3, hfev, hfevc,
          by simp only [afterInbound]; rw [hX]; simp [fsLine], fun _ _ => Or.inl ⟨hXc, hXo⟩⟩
      | none =>
        refine ⟨trOf (restOfSession c fuel n true { st' with quitReceived := false }) J3 h3, J2, by simp [blockOut], hJ2, hlen,
          a2, a3, hfev, hfevc, ?_, ?_⟩
        · simp only [afterInbound]
          rw [run_tr]
          simp [fsLine, trOf]
        · intro rest' hJ2f
          right
          have := fetchAll_prefix_ok hstep m hm1 hm2 fuel dataOf rest' block as hframe { st with remoteNoMsgs := false } J2 h
            [] hJ2f st' J3 h3 fev hfa0
          refine ⟨by simpa using this.1, J3, h3, _, this.2.1, hle, rfl⟩
  · left
    rw [hrun]
    simp [Proc.run, afterInbound, finish]

theorem clean_FF : cleanString ([70, 70] ++ [13]) = [70, 70] := cleanString_line 70 [] 70 solid_F solid_F
theorem clean_FQ : cleanString ([70, 81] ++ [13]) = [70, 81] := cleanString_line 70 [] 81 solid_F (by decide)

/-- one line of the receiver's loop: `FF` -/
theorem inboundLoop_FF (c : Cfg) (fuel n : Nat) (st : SState) (rest : Bytes) (h : HState) (tr : List Ev) (hf : 5 < fuel) :
    Proc.run hstep (inboundLoop c fuel (n + 1) [] 0 st) ([70, 70] ++ 13 :: rest) h tr =
      (.done (.ok (false, [], { st with remoteNoMsgs := true })), rest, h, tr) := by
  conv => lhs; unfold inboundLoop
  simp only [bind_eq, pure_eq]
  rw [run_bind, run_nextLine_ok hstep [70, 70] rest fuel h tr (by decide) (by simp; omega) (by rw [clean_FF]; exact errLine_F _)]
  simp only [clean_FF]
  rw [cmdByteC_eq _ (by simp)]
  have h1 : (sb ";PM").isPrefixOf ([70, 70] : Bytes) = false := by rw [sb_PM]; decide
  simp [h1, Proc.run]

/-- one line of the receiver's loop: `FQ` -/
theorem inboundLoop_FQ (c : Cfg) (fuel n : Nat) (st : SState) (rest : Bytes) (h : HState) (tr : List Ev) (hf : 5 < fuel) :
    Proc.run hstep (inboundLoop c fuel (n + 1) [] 0 st) ([70, 81] ++ 13 :: rest) h tr =
      (.done (.ok (true, [], st)), rest, h, tr) := by
  conv => lhs; unfold inboundLoop
  simp only [bind_eq, pure_eq]
  rw [run_bind, run_nextLine_ok hstep [70, 81] rest fuel h tr (by decide) (by simp; omega) (by rw [clean_FQ]; exact errLine_F _)]
  simp only [clean_FQ]
  rw [cmdByteC_eq _ (by simp)]
  have h1 : (sb ";PM").isPrefixOf ([70, 81] : Bytes) = false := by rw [sb_PM]; decide
  simp [h1, Proc.run]

/-- **The receiver's turn on (a prefix of) `FF`**: nothing happens until the line is complete; then the
session goes on with the sender turn on what follows. -/
theorem recv_FF (c : Cfg) (fuel n : Nat) (st : SState) (hq : st.quitReceived = false) (hs : st.quitSent = false)
    (Rr J : Bytes) (h : HState) (hfuel : 5 < fuel) (hJ : J <+: [70, 70] ++ 13 :: Rr) :
    trOf (restOfSession c fuel (n + 1) false st) J h = [] ∨
    ∃ J3, J = [70, 70] ++ 13 :: J3 ∧ J3 <+: Rr ∧
      trOf (restOfSession c fuel (n + 1) false st) J h =
        trOf (restOfSession c fuel n true { st with remoteNoMsgs := true, quitReceived := false }) J3 h := by
  rw [restOfSession_recv c fuel n st hq hs]
  unfold trOf
  rw [run_bind]
  unfold handleInbound
  simp only [bind_eq, pure_eq]
  rw [run_bind]
  cases fuel with
  | zero => omega
  | succ f =>
    rcases prefix_line_cases _ _ _ hJ with ⟨J3, rfl, hJ3⟩ | hJ'
    · right
      refine ⟨J3, rfl, hJ3, ?_⟩
      rw [inboundLoop_FF c (f + 1) f st J3 h [] hfuel]
      simp [fetchAll, Proc.bind, Proc.run, afterInbound]
    · left
      rw [inboundLoop_step_eof hstep c (f + 1) f [] 0 st J h [] (not_mem_of_prefix hJ' (by decide))
        (by have := hJ'.length_le; simp at this; omega)]
      simp [Proc.run, afterInbound, finish]

/-- **The receiver's turn on (a prefix of) `FQ`**: the session ends without any event. -/
theorem recv_FQ (c : Cfg) (fuel n : Nat) (st : SState) (hq : st.quitReceived = false) (hs : st.quitSent = false)
    (Rr J : Bytes) (h : HState) (hfuel : 5 < fuel) (hJ : J <+: [70, 81] ++ 13 :: Rr) :
    trOf (restOfSession c fuel (n + 1) false st) J h = [] := by
  rw [restOfSession_recv c fuel n st hq hs]
  unfold trOf
  rw [run_bind]
  unfold handleInbound
  simp only [bind_eq, pure_eq]
  rw [run_bind]
  cases fuel with
  | zero => omega
  | succ f =>
    rcases prefix_line_cases _ _ _ hJ with ⟨J3, rfl, hJ3⟩ | hJ'
    · rw [inboundLoop_FQ c (f + 1) f st J3 h [] hfuel]
      simp only [fetchAll, Proc.bind, Proc.run, afterInbound]
      cases n with
      | zero => rfl
      | succ n => rw [restOfSession_quit c (f + 1) n true { st with quitReceived := true } (Or.inl rfl)]; rfl
    · rw [inboundLoop_step_eof hstep c (f + 1) f [] 0 st J h [] (not_mem_of_prefix hJ' (by decide))
        (by have := hJ'.length_le; simp at this; omega)]
      simp [Proc.run, afterInbound, finish]

end Wl2k.B2F
