import Wl2kVerif.B2F.Checked
namespace Wl2k.B2F
open Wl2k Wl2k.Str Wl2k.Strconv

theorem at?_ok (s : Bytes) (i : Nat) (h : i < s.length) : at? s (i : Int) = some (s.getD i 0) := by
  unfold at?
  have : (0 : Int) ≤ (i : Int) ∧ (i : Int) < (s.length : Int) := ⟨by omega, by omega⟩
  simp [this, List.getD_eq_getElem?_getD, h]

theorem slice?_ok (s : Bytes) (i j : Nat) (h1 : i ≤ j) (h2 : j ≤ s.length) :
    slice? s (i : Int) (j : Int) = some ((s.take j).drop i) := by
  unfold slice?
  have : (0 : Int) ≤ (i : Int) ∧ (i : Int) ≤ (j : Int) ∧ (j : Int) ≤ (s.length : Int) := ⟨by omega, by omega, by omega⟩
  simp [this]

theorem from?_ok (s : Bytes) (i : Nat) (h : i ≤ s.length) : from? s (i : Int) = some (s.drop i) := by
  unfold from?
  rw [slice?_ok s i s.length h (Nat.le_refl _)]
  simp

theorem stripFirstNulC_eq (a : UInt8) (r : Bytes) :
    stripFirstNulC (a :: r) = some (if a = 0 then r else a :: r) := by
  unfold stripFirstNulC
  have e0 := at?_ok (a :: r) 0 (by simp)
  have e1 := from?_ok (a :: r) 1 (by simp)
  simp only [Int.natCast_zero, List.getD_cons_zero] at e0
  simp only [Int.natCast_one, List.drop_succ_cons, List.drop_zero] at e1
  rw [e0]
  simp only [Option.bind_eq_bind, Option.bind_some, e1]
  by_cases ha : a = 0 <;> simp [ha]

theorem stripLastNulC_nil : stripLastNulC [] = some [] := by simp [stripLastNulC]

theorem stripLastNulC_concat (t : Bytes) (x : UInt8) :
    stripLastNulC (t ++ [x]) = some (if x = 0 then t else t ++ [x]) := by
  unfold stripLastNulC
  have el := at?_ok (t ++ [x]) t.length (by simp)
  have es := slice?_ok (t ++ [x]) 0 t.length (by omega) (by simp)
  have ec : (((t ++ [x]).length : Nat) : Int) - 1 = (t.length : Int) := by simp
  simp only [Int.natCast_zero, List.drop_zero, List.take_left'] at es
  have eg : (t ++ [x]).getD t.length 0 = x := by simp [List.getD_eq_getElem?_getD]
  rw [eg] at el
  rw [ec, el]
  have hpos : (t ++ [x]).length > 0 := by simp
  simp only [hpos, if_true, Option.bind_eq_bind, Option.bind_some, es]
  by_cases hx : x = 0 <;> simp [hx]

theorem stripLastNulC_eq (s : Bytes) :
    stripLastNulC s = some (if s.length > 0 ∧ s.getLast? = some 0 then s.dropLast else s) := by
  rcases List.eq_nil_or_concat s with rfl | ⟨t, x, rfl⟩
  · simp [stripLastNulC_nil]
  · rw [List.concat_eq_append, stripLastNulC_concat]
    by_cases hx : x = 0
    · simp [hx]
    · simp [hx]

/-- **cleanString never panics** and computes the plain version (for ALL inputs). -/
theorem cleanStringC_eq (str : Bytes) : cleanStringC str = some (cleanString str) := by
  unfold cleanStringC cleanString
  generalize trimSpaceU str = t
  cases t with
  | nil => simp
  | cons a r =>
    have h0 : ¬ (a :: r).length < 1 := by simp
    simp only [h0, if_false, stripFirstNulC_eq, Option.bind_some, stripLastNulC_eq, List.head?_cons]
    by_cases ha : a = 0
    · simp [ha]
    · simp [ha]

theorem lastIndexByte_lt (s : Bytes) (c : UInt8) (i : Nat) (h : lastIndexByte s c = some i) : i < s.length := by
  unfold lastIndexByte at h
  split at h
  · rename_i j hj
    have hjl : j < s.reverse.length := by
      have := List.findIdx?_eq_some_iff_findIdx_eq.mp hj
      exact this.1
    simp at hjl
    simp at h; omega
  · simp at h

theorem cast5 : ((5 : Nat) : Int) = 5 := rfl
theorem cast3 : ((3 : Nat) : Int) = 3 := rfl
theorem cast2 : ((2 : Nat) : Int) = 2 := rfl
theorem cast1 : ((1 : Nat) : Int) = 1 := rfl
theorem cast0 : ((0 : Nat) : Int) = 0 := rfl

/-- **errLine never panics** and computes the plain version (for ALL inputs). -/
theorem errLineC_eq (str : Bytes) : errLineC str = some (errLine str) := by
  unfold errLineC errLine
  cases str with
  | nil => simp
  | cons a r =>
    have e0 := at?_ok (a :: r) 0 (by simp)
    rw [cast0] at e0
    simp only [List.getD_cons_zero] at e0
    have hlen : ¬ ((a :: r).length = 0) := by simp
    simp only [hlen, if_false, Option.bind_eq_bind, e0, Option.bind_some, List.head?_cons, false_or]
    by_cases ha : a = 42
    · subst ha
      simp only [ne_eq, not_true_eq_false, if_false, Option.pure_def]
      cases hli : lastIndexByte ((42 : UInt8) :: r) 42 with
      | none =>
        have : ((-1 : Int) + 1 ≥ ((((42 : UInt8) :: r).length : Nat) : Int)) = False := by simp
        simp only [this, if_false]
        have ef := from?_ok ((42 : UInt8) :: r) 0 (by simp)
        rw [cast0] at ef
        -- LastIndex cannot be absent: the string starts with '*'
        exfalso
        unfold lastIndexByte at hli
        split at hli
        · simp at hli
        · rename_i hnone
          have : (42 : UInt8) ∈ ((42 : UInt8) :: r).reverse := by simp
          rw [List.findIdx?_eq_none_iff] at hnone
          have := hnone 42 this
          simp at this
      | some i =>
        have hi := lastIndexByte_lt _ _ _ hli
        simp only
        by_cases hge : i + 1 ≥ ((42 : UInt8) :: r).length
        · have : ((i : Int) + 1 ≥ ((((42 : UInt8) :: r).length : Nat) : Int)) := by omega
          simp only [this, if_true, hge]
        · have hn : ¬ ((i : Int) + 1 ≥ ((((42 : UInt8) :: r).length : Nat) : Int)) := by omega
          have ef := from?_ok ((42 : UInt8) :: r) (i + 1) (by omega)
          have ec : (((i + 1 : Nat)) : Int) = (i : Int) + 1 := by omega
          rw [ec] at ef
          simp only [hn, if_false, ef, Option.bind_some, hge]
    · have h1 : (a ≠ 42) := ha
      have h2 : ¬ (some a = some (42 : UInt8)) := by simpa using ha
      simp [h1, h2]

theorem challengeC_eq (line : Bytes) :
    challengeC line = some (if line.length < 5 then none else some (line.drop 5)) := by
  unfold challengeC
  by_cases h : line.length < 5
  · simp [h]
  · have := from?_ok line 5 (by omega)
    rw [cast5] at this
    simp [h, this]

theorem cmdByteC_eq (line : Bytes) (h : 2 ≤ line.length) : cmdByteC line = some (line.getD 1 0) := by
  unfold cmdByteC
  have e1 := slice?_ok line 0 2 (by omega) h
  have e2 := at?_ok line 1 (by omega)
  rw [cast0, cast2] at e1
  rw [cast1] at e2
  simp only [Option.bind_eq_bind, e1, Option.bind_some, e2]

theorem promptFieldC_eq (line : Bytes) (h : 2 ≤ line.length) : promptFieldC line = some (line.drop 2) := by
  unfold promptFieldC
  have := from?_ok line 2 h
  rw [cast2] at this
  exact this

theorem proposalFieldsC_eq (line : Bytes) :
    proposalFieldsC line = some (if line.length < 4 then none else some (line.drop 3)) := by
  unfold proposalFieldsC
  by_cases h : line.length < 4
  · simp [h]
  · have := from?_ok line 3 (by omega)
    rw [cast3] at this
    simp [h, this]

theorem isPrefixOf_length {p l : Bytes} (h : p.isPrefixOf l = true) : p.length ≤ l.length := by
  induction p generalizing l with
  | nil => simp
  | cons a t ih =>
    cases l with
    | nil => simp [List.isPrefixOf] at h
    | cons b r =>
      simp only [List.isPrefixOf, Bool.and_eq_true] at h
      have := ih h.2
      simp; omega

theorem fwFieldC_eq (line : Bytes) :
    fwFieldC line = some (if !fwPrefix.isPrefixOf line then none else some (line.drop 5)) := by
  unfold fwFieldC
  by_cases h : fwPrefix.isPrefixOf line = true
  · have hl := isPrefixOf_length h
    have h5 : fwPrefix.length = 5 := rfl
    have := from?_ok line 5 (by omega)
    rw [cast5] at this
    simp [h, this]
  · simp [h]

theorem stripDelimC_eq (s : Bytes) (h : 0 < s.length) : stripDelimC s = some s.dropLast := by
  unfold stripDelimC
  have := slice?_ok s 0 (s.length - 1) (by omega) (by omega)
  have ec : ((s.length - 1 : Nat) : Int) = (s.length : Int) - 1 := by omega
  rw [cast0, ec] at this
  simp only [List.drop_zero] at this
  rw [this, List.dropLast_eq_take]

theorem payloadFromC_eq (cdata : Bytes) (offset : Int) :
    payloadFromC cdata offset =
      some (if offset < 0 ∨ offset > cdata.length then none else some (cdata.drop offset.toNat)) := by
  unfold payloadFromC
  by_cases h : offset < 0 ∨ offset > cdata.length
  · simp [h]
  · have hn : 0 ≤ offset ∧ offset ≤ cdata.length := by omega
    have := from?_ok cdata offset.toNat (by omega)
    have ec : ((offset.toNat : Nat) : Int) = offset := by omega
    rw [ec] at this
    simp [h, this]

theorem headTailC_eq (a : UInt8) (t : Bytes) : headTailC (a :: t) = some (a, t) := by
  unfold headTailC
  have e0 := at?_ok (a :: t) 0 (by simp)
  have e1 := from?_ok (a :: t) 1 (by simp)
  rw [cast0] at e0
  rw [cast1] at e1
  simp only [List.getD_cons_zero] at e0
  simp only [List.drop_succ_cons, List.drop_zero] at e1
  simp only [Option.bind_eq_bind, e0, Option.bind_some, e1, Option.pure_def]

theorem takeWhile_length_le (p : UInt8 → Bool) (l : Bytes) : (l.takeWhile p).length ≤ l.length := by
  induction l with
  | nil => simp
  | cons a r ih => by_cases ha : p a = true <;> simp [List.takeWhile_cons, ha] <;> omega

theorem take_takeWhile_length (p : UInt8 → Bool) (l : Bytes) : l.take (l.takeWhile p).length = l.takeWhile p := by
  induction l with
  | nil => simp
  | cons a r ih => by_cases ha : p a = true <;> simp [List.takeWhile_cons, ha, ih]

theorem digitsSplitC_eq (str : Bytes) :
    digitsSplitC str = some (str.takeWhile isDigit, str.drop (str.takeWhile isDigit).length) := by
  unfold digitsSplitC
  have hle := takeWhile_length_le isDigit str
  have e1 := slice?_ok str 0 (str.takeWhile isDigit).length (by omega) hle
  have e2 := from?_ok str (str.takeWhile isDigit).length hle
  rw [cast0] at e1
  simp only [List.drop_zero, take_takeWhile_length] at e1
  simp only [Option.bind_eq_bind, e1, Option.bind_some, e2, Option.pure_def]

theorem parseAnswersAuxC_eq (limit n : Nat) : ∀ (fuel : Nat) (str : Bytes) (i : Nat) (acc : List (UInt8 × Int)),
    parseAnswersAuxC limit n fuel str i acc = some (parseAnswersAux limit n fuel str i acc) := by
  intro fuel
  induction fuel with
  | zero => intro str i acc; rfl
  | succ fuel ih =>
    intro str i acc
    cases str with
    | nil => simp [parseAnswersAuxC, parseAnswersAux]
    | cons c rest =>
      simp only [parseAnswersAuxC, parseAnswersAux, List.length_cons, Nat.add_one_ne_zero, if_false, headTailC_eq,
        digitsSplitC_eq]
      by_cases hi : i ≥ n
      · simp [hi]
      · simp only [hi, if_false]
        split
        · exact ih _ _ _
        · split
          · exact ih _ _ _
          · split
            · exact ih _ _ _
            · split
              · split
                · rfl
                · exact ih _ _ _
              · rfl

/-- **parseProposalAnswer never panics** (for ALL reply lines). -/
theorem parseProposalAnswerC_eq (limit : Nat) (reply : Bytes) (n : Nat) :
    parseProposalAnswerC limit reply n = some (parseProposalAnswer limit reply n) := by
  unfold parseProposalAnswerC parseProposalAnswer
  exact parseAnswersAuxC_eq _ _ _ _ _ _

/-- **parseProposal never panics** on lines of length ≥ 2 (the caller's guard). -/
theorem parseProposalC_eq (line : Bytes) (h : 2 ≤ line.length) : parseProposalC line = some (parseProposal line) := by
  unfold parseProposalC parseProposal
  have e1 := at?_ok line 1 (by omega)
  rw [cast1] at e1
  simp only [e1, proposalFieldsC_eq]
  split
  · rfl
  · split
    · by_cases h4 : line.length < 4
      · simp [h4]
      · simp only [h4, if_false]
        split <;> (try rfl)
        split <;> (try rfl)
        split <;> (try rfl)
        split <;> rfl
    · rfl

theorem parseFWC_eq (line : Bytes) : parseFWC line = some (parseFW line) := by
  unfold parseFWC parseFW
  rw [fwFieldC_eq]
  by_cases h : fwPrefix.isPrefixOf line = true <;> simp [h]

end Wl2k.B2F
