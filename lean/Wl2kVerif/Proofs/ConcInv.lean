import Wl2kVerif.Proofs.ConcBase
/-
Invariants of the concurrent registry model, each preserved by `stepThread`.
-/
namespace Wl2k.Url.Conc

/-- Number of calls of a thread whose map access has been performed. -/
def accCount (th : Thread) : Nat :=
  match th.pc with
  | .accessed _ | .unlocked _ => th.idx + 1
  | _ => th.idx

/-- `res` is the value call `x` has in the sequential run of `l`. -/
def Explains (l : List LinOp) (x : LinOp) (res : Res) : Prop :=
  ∃ n, l[n]? = some x ∧ res = (x.op.apply (seqRun (opsOf (l.take n)))).2

/-! ### Mutex -/

def MutexInv (st : State) : Prop := ∀ u, st.holder = some u ↔ inCS (st.threads u).pc = true

theorem mutexInv_init : MutexInv init := by
  intro u; simp [init, inCS]

theorem mutexInv_step (progs : List (List COp)) (st : State) (t : Nat) (h : MutexInv st) :
    MutexInv (stepThread progs st t) := by
  refine stepThread_cases progs st t MutexInv h ?_ ?_ ?_ ?_ ?_
  · intro op _ hpc hh u
    by_cases hu : u = t
    · subst hu; simp [inCS]
    · have := h u
      simp only [setThread_other _ _ _ _ hu]
      rw [hh] at this
      simp only [Option.some.injEq]
      constructor
      · intro e; exact absurd e.symm hu
      · intro e; exact absurd (this.2 e) (by simp)
  · intro op _ hpc u
    by_cases hu : u = t
    · subst hu
      have := h u
      rw [hpc] at this
      simpa [inCS] using this
    · simp only [setThread_other _ _ _ _ hu]; exact h u
  · intro o res _ hpc u
    have ht := (h t).2 (by rw [hpc]; rfl)
    by_cases hu : u = t
    · subst hu; simp [inCS]
    · simp only [setThread_other _ _ _ _ hu]
      constructor
      · intro e; exact absurd e (by simp)
      · intro e
        have := (h u).2 e
        rw [ht] at this
        exact absurd (Option.some.inj this).symm hu
  · intro s res _ hpc u
    have ht := (h t).2 (by rw [hpc]; rfl)
    by_cases hu : u = t
    · subst hu; simp [inCS]
    · simp only [setThread_other _ _ _ _ hu]
      constructor
      · intro e; exact absurd e (by simp)
      · intro e
        have := (h u).2 e
        rw [ht] at this
        exact absurd (Option.some.inj this).symm hu
  · intro op res _ hpc u
    by_cases hu : u = t
    · subst hu
      have := h u
      rw [hpc] at this
      simpa [inCS] using this
    · simp only [setThread_other _ _ _ _ hu]; exact h u


/-! ### Per-thread projection of the linearisation -/

def projOf (l : List LinOp) (t : Nat) : List LinOp := l.filter (fun x => decide (x.tid = t))

theorem projOf_append_same (l : List LinOp) (x : LinOp) : projOf (l ++ [x]) x.tid = projOf l x.tid ++ [x] := by
  simp [projOf, List.filter_append]

theorem projOf_append_other (l : List LinOp) (x : LinOp) (u : Nat) (h : x.tid ≠ u) :
    projOf (l ++ [x]) u = projOf l u := by
  simp [projOf, List.filter_append, h]

/-- The accesses of thread `u`, in access order, are exactly its first `accCount` calls, numbered 0,1,2,… -/
def LinInv (progs : List (List COp)) (st : State) : Prop :=
  ∀ u, opsOf (projOf (lin st.trace) u) = (progs.getD u []).take (accCount (st.threads u))
     ∧ (projOf (lin st.trace) u).map (·.idx) = List.range (accCount (st.threads u))

theorem linInv_init (progs : List (List COp)) : LinInv progs init := by
  intro u; simp [init, accCount, projOf, opsOf]

/-- Threads keep their `accCount` ⇒ a step that adds no access keeps `LinInv`. -/
theorem linInv_keep (progs : List (List COp)) (st : State) (t : Nat) (h : LinInv progs st)
    (r : Registry) (ho : Option Nat) (th : Thread) (e : Ev)
    (hk : e.kind ≠ .access) (hc : accCount th = accCount (st.threads t)) :
    LinInv progs ⟨r, ho, setThread st.threads t th, st.trace ++ [e]⟩ := by
  intro u
  show opsOf (projOf (lin (st.trace ++ [e])) u) = _ ∧ _
  rw [lin_append_other _ _ hk]
  by_cases hu : u = t
  · subst hu
    simp only [setThread_same, hc]; exact h u
  · simp only [setThread_other _ _ _ _ hu]; exact h u

theorem linInv_step (progs : List (List COp)) (st : State) (t : Nat) (h : LinInv progs st) :
    LinInv progs (stepThread progs st t) := by
  refine stepThread_cases progs st t (LinInv progs) h ?_ ?_ ?_ ?_ ?_
  · intro op _ hpc _
    exact linInv_keep progs st t h _ _ _ _ (by simp) (by simp [accCount, hpc])
  · intro op hop hpc u
    show opsOf (projOf (lin (st.trace ++ [_])) u) = _ ∧ _
    rw [lin_append_access _ _ rfl]
    by_cases hu : u = t
    · subst hu
      have hh := h u
      have hcnt : accCount (st.threads u) = (st.threads u).idx := by simp [accCount, hpc]
      rw [hcnt] at hh
      have := projOf_append_same (lin st.trace) (Ev.id ⟨u, (st.threads u).idx, op, .access, none⟩)
      simp only [Ev.id] at this ⊢
      rw [this]
      simp only [setThread_same, accCount, opsOf, List.map_append, List.map_cons, List.map_nil]
      simp only [opsOf] at hh
      rw [hh.1, hh.2, List.range_succ, List.take_add_one]
      unfold curOp at hop
      rw [hop]
      simp
    · have hne : (Ev.id ⟨t, (st.threads t).idx, op, .access, none⟩).tid ≠ u := fun e => hu e.symm
      rw [projOf_append_other _ _ _ hne]
      simp only [setThread_other _ _ _ _ hu]; exact h u
  · intro o res _ hpc
    exact linInv_keep progs st t h _ _ _ _ (by simp) (by simp [accCount, hpc])
  · intro s res _ hpc
    exact linInv_keep progs st t h _ _ _ _ (by simp) (by simp [accCount, hpc])
  · intro op res _ hpc
    exact linInv_keep progs st t h _ _ _ _ (by simp) (by simp [accCount, hpc])

/-- Every linearised call of thread `x.tid` has a number below that thread's `accCount`. -/
theorem idx_lt_of_mem (progs : List (List COp)) (st : State) (h : LinInv progs st) (x : LinOp)
    (hx : x ∈ lin st.trace) : x.idx < accCount (st.threads x.tid) := by
  have hm : x ∈ projOf (lin st.trace) x.tid := by simp [projOf, hx]
  have : x.idx ∈ (projOf (lin st.trace) x.tid).map (·.idx) := List.mem_map.2 ⟨x, hm, rfl⟩
  rw [(h x.tid).2] at this
  simpa using this


/-! ### Registry content and returned values -/

theorem explains_append (l : List LinOp) (x y : LinOp) (res : Res) (h : Explains l x res) :
    Explains (l ++ [y]) x res := by
  obtain ⟨n, hn, hr⟩ := h
  have hlt : n < l.length := (List.getElem?_eq_some_iff.1 hn).1
  refine ⟨n, ?_, ?_⟩
  · rw [List.getElem?_append_left hlt]; exact hn
  · rw [List.take_append_of_le_length (Nat.le_of_lt hlt)]; exact hr

theorem explains_last (l : List LinOp) (x : LinOp) :
    Explains (l ++ [x]) x (x.op.apply (seqRun (opsOf l))).2 := by
  refine ⟨l.length, by simp, ?_⟩
  rw [List.take_left']
  rfl

def RegInv (st : State) : Prop := st.reg = seqRun (opsOf (lin st.trace))

theorem regInv_init : RegInv init := rfl

theorem regInv_step (progs : List (List COp)) (st : State) (t : Nat) (h : RegInv st) :
    RegInv (stepThread progs st t) := by
  refine stepThread_cases progs st t RegInv h ?_ ?_ ?_ ?_ ?_
  · intro op _ _ _
    show st.reg = seqRun (opsOf (lin (st.trace ++ [_])))
    rw [lin_append_other _ _ (by simp)]; exact h
  · intro op _ _
    show (op.apply st.reg).1 = seqRun (opsOf (lin (st.trace ++ [_])))
    rw [lin_append_access _ _ rfl, opsOf, List.map_append, ← opsOf]
    show _ = seqRun (opsOf (lin st.trace) ++ [op])
    rw [seqRun_append, ← h]
  · intro o res _ _
    show st.reg = seqRun (opsOf (lin (st.trace ++ [_])))
    rw [lin_append_other _ _ (by simp)]; exact h
  · intro s res _ _
    show st.reg = seqRun (opsOf (lin (st.trace ++ [_])))
    rw [lin_append_other _ _ (by simp)]; exact h
  · intro op res _ _
    show st.reg = seqRun (opsOf (lin (st.trace ++ [_])))
    rw [lin_append_other _ _ (by simp)]; exact h

/-- A thread past its access holds the value its call has in the sequential run of `lin`. -/
def ResInv (progs : List (List COp)) (st : State) : Prop :=
  ∀ u res op, ((st.threads u).pc = .accessed res ∨ (st.threads u).pc = .unlocked res) →
    curOp progs st u = some op → Explains (lin st.trace) ⟨u, (st.threads u).idx, op⟩ res

theorem resInv_init (progs : List (List COp)) : ResInv progs init := by
  intro u res op h; simp [init] at h

theorem resInv_step (progs : List (List COp)) (st : State) (t : Nat) (hr : RegInv st)
    (h : ResInv progs st) : ResInv progs (stepThread progs st t) := by
  refine stepThread_cases progs st t (ResInv progs) h ?_ ?_ ?_ ?_ ?_
  · intro op _ hpc _ u res op' hp hop
    show Explains (lin (st.trace ++ [_])) _ _
    rw [lin_append_other _ _ (by simp)]
    by_cases hu : u = t
    · subst hu; simp at hp
    · simp only [curOp, setThread_other _ _ _ _ hu] at hp hop ⊢
      exact h u res op' hp hop
  · intro op hopt hpc u res op' hp hop
    show Explains (lin (st.trace ++ [_])) _ _
    rw [lin_append_access _ _ rfl]
    by_cases hu : u = t
    · subst hu
      simp only [curOp, setThread_same] at hp hop ⊢
      simp only [curOp] at hopt
      rw [hopt] at hop
      cases hop
      rcases hp with hp | hp
      · cases hp
        rw [hr]
        exact explains_last (lin st.trace) ⟨u, (st.threads u).idx, op⟩
      · cases hp
    · simp only [curOp, setThread_other _ _ _ _ hu] at hp hop ⊢
      exact explains_append _ _ _ _ (h u res op' hp hop)
  · intro o res' _ hpc u res op' hp hop
    show Explains (lin (st.trace ++ [_])) _ _
    rw [lin_append_other _ _ (by simp)]
    by_cases hu : u = t
    · subst hu; simp at hp
    · simp only [curOp, setThread_other _ _ _ _ hu] at hp hop ⊢
      exact h u res op' hp hop
  · intro s res' hopt hpc u res op' hp hop
    show Explains (lin (st.trace ++ [_])) _ _
    rw [lin_append_other _ _ (by simp)]
    by_cases hu : u = t
    · subst hu
      simp only [curOp, setThread_same] at hp hop ⊢
      rcases hp with hp | hp
      · cases hp
      · cases hp
        exact h u res' op' (Or.inl hpc) hop
    · simp only [curOp, setThread_other _ _ _ _ hu] at hp hop ⊢
      exact h u res op' hp hop
  · intro op res' _ hpc u res op' hp hop
    show Explains (lin (st.trace ++ [_])) _ _
    rw [lin_append_other _ _ (by simp)]
    by_cases hu : u = t
    · subst hu; simp at hp
    · simp only [curOp, setThread_other _ _ _ _ hu] at hp hop ⊢
      exact h u res op' hp hop

/-- Every response recorded in the trace is the value of that call in the sequential run of `lin`. -/
def RetInv (st : State) : Prop :=
  ∀ e ∈ st.trace, ∀ res, e.ret = some res → Explains (lin st.trace) e.id res

theorem retInv_init : RetInv init := by
  intro e he; simp [init] at he

theorem retInv_step (progs : List (List COp)) (st : State) (t : Nat) (hres : ResInv progs st)
    (h : RetInv st) : RetInv (stepThread progs st t) := by
  refine stepThread_cases progs st t RetInv h ?_ ?_ ?_ ?_ ?_
  · intro op _ hpc _ e he res hret
    show Explains (lin (st.trace ++ [_])) _ _
    rw [lin_append_other _ _ (by simp)]
    rcases List.mem_append.1 he with he | he
    · exact h e he res hret
    · simp only [List.mem_singleton] at he; subst he; simp at hret
  · intro op _ hpc e he res hret
    show Explains (lin (st.trace ++ [_])) _ _
    rw [lin_append_access _ _ rfl]
    rcases List.mem_append.1 he with he | he
    · exact explains_append _ _ _ _ (h e he res hret)
    · simp only [List.mem_singleton] at he; subst he; simp at hret
  · intro o res' hop hpc e he res hret
    show Explains (lin (st.trace ++ [_])) _ _
    rw [lin_append_other _ _ (by simp)]
    rcases List.mem_append.1 he with he | he
    · exact h e he res hret
    · simp only [List.mem_singleton] at he; subst he
      simp only [Option.some.injEq] at hret; subst hret
      exact hres t res' (.reg o) (Or.inl hpc) hop
  · intro s res' _ hpc e he res hret
    show Explains (lin (st.trace ++ [_])) _ _
    rw [lin_append_other _ _ (by simp)]
    rcases List.mem_append.1 he with he | he
    · exact h e he res hret
    · simp only [List.mem_singleton] at he; subst he; simp at hret
  · intro op res' hop hpc e he res hret
    show Explains (lin (st.trace ++ [_])) _ _
    rw [lin_append_other _ _ (by simp)]
    rcases List.mem_append.1 he with he | he
    · exact h e he res hret
    · simp only [List.mem_singleton] at he; subst he
      simp only [Option.some.injEq] at hret; subst hret
      exact hres t res' op (Or.inr hpc) hop


/-! ### Real-time order and uniqueness -/

theorem getElem?_snoc_cases {α : Type} (l : List α) (e x : α) (q : Nat) (h : (l ++ [e])[q]? = some x) :
    (q < l.length ∧ l[q]? = some x) ∨ (q = l.length ∧ x = e) := by
  by_cases hq : q < l.length
  · left; rw [List.getElem?_append_left hq] at h; exact ⟨hq, h⟩
  · right
    have hlt : q < (l ++ [e]).length := (List.getElem?_eq_some_iff.1 h).1
    simp only [List.length_append, List.length_cons, List.length_nil] at hlt
    have hq' : q = l.length := by omega
    subst hq'
    simp at h
    exact ⟨rfl, h.symm⟩

/-- A call whose response precedes another call's invocation in the trace precedes it in `lin`
(and is in `lin`). -/
def RtInv (st : State) : Prop :=
  ∀ (p q : Nat) (eA eB : Ev), p < q → st.trace[p]? = some eA → eA.ret.isSome = true → st.trace[q]? = some eB →
    eB.kind = .lock →
    ∃ m : Nat, (lin st.trace)[m]? = some eA.id ∧ ∀ n : Nat, (lin st.trace)[n]? = some eB.id → m < n

theorem rtInv_init : RtInv init := by
  intro p q eA eB _ h; simp [init] at h

theorem rtInv_keep (st : State) (h : RtInv st) (r : Registry) (ho : Option Nat) (ths : Nat → Thread)
    (e : Ev) (hk : e.kind ≠ .access) (hl : e.kind ≠ .lock) :
    RtInv ⟨r, ho, ths, st.trace ++ [e]⟩ := by
  intro p q eA eB hpq hA hret hB hkB
  show ∃ m, (lin (st.trace ++ [e]))[m]? = _ ∧ ∀ n, (lin (st.trace ++ [e]))[n]? = _ → _
  rw [lin_append_other _ _ hk]
  rcases getElem?_snoc_cases _ _ _ _ hB with ⟨hq, hB'⟩ | ⟨_, hB'⟩
  · rcases getElem?_snoc_cases _ _ _ _ hA with ⟨_, hA'⟩ | ⟨hp', _⟩
    · exact h p q eA eB hpq hA' hret hB' hkB
    · omega
  · subst hB'; exact absurd hkB hl

theorem rtInv_step (progs : List (List COp)) (st : State) (t : Nat) (hlin : LinInv progs st)
    (hret : RetInv st) (h : RtInv st) : RtInv (stepThread progs st t) := by
  refine stepThread_cases progs st t RtInv h ?_ ?_ ?_ ?_ ?_
  · intro op _ hpc _ p q eA eB hpq hA hr hB hkB
    show ∃ m, (lin (st.trace ++ [_]))[m]? = _ ∧ ∀ n, (lin (st.trace ++ [_]))[n]? = _ → _
    rw [lin_append_other _ _ (by simp)]
    rcases getElem?_snoc_cases _ _ _ _ hB with ⟨hq, hB'⟩ | ⟨hq, hB'⟩
    · rcases getElem?_snoc_cases _ _ _ _ hA with ⟨_, hA'⟩ | ⟨hp', _⟩
      · exact h p q eA eB hpq hA' hr hB' hkB
      · omega
    · rcases getElem?_snoc_cases _ _ _ _ hA with ⟨_, hA'⟩ | ⟨hp', _⟩
      · have hmem : eA ∈ st.trace := List.mem_of_getElem? hA'
        cases hres : eA.ret with
        | none => rw [hres] at hr; simp at hr
        | some res =>
          obtain ⟨m, hm, _⟩ := hret eA hmem res hres
          refine ⟨m, hm, ?_⟩
          intro n hn
          exfalso
          have hx := idx_lt_of_mem progs st hlin _ (List.mem_of_getElem? hn)
          subst hB'
          simp [Ev.id, accCount, hpc] at hx
      · omega
  · intro op _ hpc p q eA eB hpq hA hr hB hkB
    show ∃ m, (lin (st.trace ++ [_]))[m]? = _ ∧ ∀ n, (lin (st.trace ++ [_]))[n]? = _ → _
    rw [lin_append_access _ _ rfl]
    rcases getElem?_snoc_cases _ _ _ _ hB with ⟨hq, hB'⟩ | ⟨_, hB'⟩
    · rcases getElem?_snoc_cases _ _ _ _ hA with ⟨_, hA'⟩ | ⟨hp', _⟩
      · obtain ⟨m, hm, hlt⟩ := h p q eA eB hpq hA' hr hB' hkB
        have hmlt : m < (lin st.trace).length := (List.getElem?_eq_some_iff.1 hm).1
        refine ⟨m, by rw [List.getElem?_append_left hmlt]; exact hm, ?_⟩
        intro n hn
        rcases getElem?_snoc_cases _ _ _ _ hn with ⟨_, hn'⟩ | ⟨hn', _⟩
        · exact hlt n hn'
        · omega
      · omega
    · subst hB'; simp at hkB
  · intro o res _ _; exact rtInv_keep st h _ _ _ _ (by simp) (by simp)
  · intro s res _ _; exact rtInv_keep st h _ _ _ _ (by simp) (by simp)
  · intro op res _ _; exact rtInv_keep st h _ _ _ _ (by simp) (by simp)

/-- No call is linearised twice. -/
def NodupInv (st : State) : Prop := ((lin st.trace).map (fun x => (x.tid, x.idx))).Nodup

theorem nodupInv_init : NodupInv init := by simp [NodupInv, init]

theorem nodupInv_step (progs : List (List COp)) (st : State) (t : Nat) (hlin : LinInv progs st)
    (h : NodupInv st) : NodupInv (stepThread progs st t) := by
  refine stepThread_cases progs st t NodupInv h ?_ ?_ ?_ ?_ ?_
  · intro op _ _ _
    show ((lin (st.trace ++ [_])).map _).Nodup
    rw [lin_append_other _ _ (by simp)]; exact h
  · intro op _ hpc
    show ((lin (st.trace ++ [_])).map _).Nodup
    rw [lin_append_access _ _ rfl, List.map_append, List.nodup_append]
    refine ⟨h, by simp, ?_⟩
    intro a ha b hb
    simp only [List.map_cons, List.map_nil, List.mem_singleton, Ev.id] at hb
    subst hb
    obtain ⟨x, hx, rfl⟩ := List.mem_map.1 ha
    intro e
    have hlt := idx_lt_of_mem progs st hlin x hx
    simp only [Prod.mk.injEq] at e
    rw [e.1, e.2] at hlt
    simp [accCount, hpc] at hlt
  · intro o res _ _
    show ((lin (st.trace ++ [_])).map _).Nodup
    rw [lin_append_other _ _ (by simp)]; exact h
  · intro s res _ _
    show ((lin (st.trace ++ [_])).map _).Nodup
    rw [lin_append_other _ _ (by simp)]; exact h
  · intro op res _ _
    show ((lin (st.trace ++ [_])).map _).Nodup
    rw [lin_append_other _ _ (by simp)]; exact h


/-! ### A thread inside a call has that call -/

def PendInv (progs : List (List COp)) (st : State) : Prop :=
  ∀ u, (st.threads u).pc ≠ .idle → ∃ op, curOp progs st u = some op

theorem pendInv_init (progs : List (List COp)) : PendInv progs init := by
  intro u h; simp [init] at h

theorem pendInv_step (progs : List (List COp)) (st : State) (t : Nat) (h : PendInv progs st) :
    PendInv progs (stepThread progs st t) := by
  refine stepThread_cases progs st t (PendInv progs) h ?_ ?_ ?_ ?_ ?_
  · intro op hop _ _ u hu
    by_cases e : u = t
    · subst e; exact ⟨op, by simpa [curOp] using hop⟩
    · simp only [curOp, setThread_other _ _ _ _ e] at hu ⊢; exact h u hu
  · intro op hop _ u hu
    by_cases e : u = t
    · subst e; exact ⟨op, by simpa [curOp] using hop⟩
    · simp only [curOp, setThread_other _ _ _ _ e] at hu ⊢; exact h u hu
  · intro o res hop _ u hu
    by_cases e : u = t
    · subst e; simp at hu
    · simp only [curOp, setThread_other _ _ _ _ e] at hu ⊢; exact h u hu
  · intro s res hop _ u hu
    by_cases e : u = t
    · subst e; exact ⟨_, by simpa [curOp] using hop⟩
    · simp only [curOp, setThread_other _ _ _ _ e] at hu ⊢; exact h u hu
  · intro op res hop _ u hu
    by_cases e : u = t
    · subst e; simp at hu
    · simp only [curOp, setThread_other _ _ _ _ e] at hu ⊢; exact h u hu

/-! ### All together -/

structure Inv (progs : List (List COp)) (st : State) : Prop where
  mutex : MutexInv st
  linv : LinInv progs st
  reg : RegInv st
  res : ResInv progs st
  ret : RetInv st
  rt : RtInv st
  nodup : NodupInv st
  pend : PendInv progs st

theorem inv_init (progs : List (List COp)) : Inv progs init :=
  ⟨mutexInv_init, linInv_init progs, regInv_init, resInv_init progs, retInv_init, rtInv_init,
    nodupInv_init, pendInv_init progs⟩

theorem inv_step (progs : List (List COp)) (st : State) (t : Nat) (h : Inv progs st) :
    Inv progs (stepThread progs st t) :=
  ⟨mutexInv_step progs st t h.mutex, linInv_step progs st t h.linv, regInv_step progs st t h.reg,
    resInv_step progs st t h.reg h.res, retInv_step progs st t h.res h.ret,
    rtInv_step progs st t h.linv h.ret h.rt, nodupInv_step progs st t h.linv h.nodup,
    pendInv_step progs st t h.pend⟩

/-- Every state reached by any schedule satisfies all invariants. -/
theorem inv_exec (progs : List (List COp)) (sched : List Nat) : Inv progs (exec progs sched) :=
  exec_induction progs (Inv progs) (inv_init progs) (inv_step progs) sched

end Wl2k.Url.Conc
