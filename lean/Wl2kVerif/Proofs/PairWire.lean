import Wl2kVerif.B2F.Wire
import Wl2kVerif.Proofs.Fmt
/-
`cleanString` on a protocol line: a CR-terminated line whose first and last bytes are ASCII, not white
space and not NUL comes back without the CR and otherwise unchanged.
-/
namespace Wl2k.B2F
open Wl2k Wl2k.Str Wl2k.Utf8

/-- an ASCII byte that `TrimSpace` and `cleanString` leave alone -/
def Solid (b : UInt8) : Prop := b < 0x80 ∧ isSpaceRune b.toNat = false ∧ b ≠ 0

instance (b : UInt8) : Decidable (Solid b) := by unfold Solid; infer_instance

theorem trimLeftU_solid (f : Nat) (b : UInt8) (t : Bytes) (hb : Solid b) : trimLeftU f (b :: t) = b :: t := by
  cases f with
  | zero => rfl
  | succ f =>
    have h1 : decodeRune (b :: t) = (b.toNat, 1) := by simp [decodeRune, hb.1]
    simp [trimLeftU, h1, hb.2.1]

theorem getD_last (s : Bytes) (b : UInt8) : (s ++ [b]).getD ((s ++ [b]).length - 1) 0 = b := by
  simp

theorem decodeLastRune_ascii (s : Bytes) (b : UInt8) (hb : b < 0x80) : decodeLastRune (s ++ [b]) = (b.toNat, 1) := by
  unfold decodeLastRune
  have h0 : ¬ (s ++ [b]).length = 0 := by simp
  simp only [h0, if_false, getD_last, hb, if_true]

theorem trimRightU_solid (f : Nat) (s : Bytes) (b : UInt8) (hb : Solid b) : trimRightU f (s ++ [b]) = s ++ [b] := by
  cases f with
  | zero => rfl
  | succ f =>
    have h1 : (s ++ [b]).isEmpty = false := by simp
    simp [trimRightU, h1, decodeLastRune_ascii s b hb.1, hb.2.1]

theorem trimRightU_cr (f : Nat) (s : Bytes) (b : UInt8) (hb : Solid b) : trimRightU (f + 1) (s ++ [b] ++ [13]) = s ++ [b] := by
  have h1 : (s ++ [b] ++ [13]).isEmpty = false := by simp
  have h2 : decodeLastRune (s ++ [b] ++ [13]) = (13, 1) := decodeLastRune_ascii (s ++ [b]) 13 (by decide)
  have h3 : isSpaceRune 13 = true := by decide
  have h4 : (s ++ [b] ++ [13]).take ((s ++ [b] ++ [13]).length - max 1 1) = s ++ [b] := by
    have : (s ++ [b] ++ [13]).length - max 1 1 = (s ++ [b]).length := by simp
    rw [this, List.take_left']
    rfl
  simp only [trimRightU, h1, Bool.false_eq_true, if_false, h2, h3, if_true, h4]
  exact trimRightU_solid f s b hb

/-- every non-empty list is `init ++ [last]` -/
theorem exists_snoc (s : Bytes) (h : s ≠ []) : ∃ t b, s = t ++ [b] :=
  ⟨s.dropLast, s.getLast h, (List.dropLast_concat_getLast h).symm⟩

/-- **A CR-terminated line with solid first and last byte is cleaned to the line itself.** -/
theorem cleanString_line (b0 : UInt8) (t : Bytes) (bl : UInt8) (h0 : Solid b0) (hl : Solid bl) :
    cleanString (b0 :: (t ++ [bl]) ++ [13]) = b0 :: (t ++ [bl]) := by
  unfold cleanString
  have e1 : trimSpaceU (b0 :: (t ++ [bl]) ++ [13]) = b0 :: (t ++ [bl]) := by
    unfold trimSpaceU
    rw [show (b0 :: (t ++ [bl]) ++ [13]) = b0 :: ((t ++ [bl]) ++ [13]) from rfl, trimLeftU_solid _ _ _ h0]
    have : b0 :: (t ++ [bl] ++ [13]) = (b0 :: t) ++ [bl] ++ [13] := by simp
    rw [this]
    have hlen : ((b0 :: t) ++ [bl] ++ [13]).length = (t.length + 1) + 1 + 0 + 1 := by simp
    rw [hlen, trimRightU_cr _ _ _ hl]
    simp
  simp only [e1]
  have hne0 : ¬ (b0 :: (t ++ [bl])).length < 1 := by simp
  have hh : ¬ ((b0 :: (t ++ [bl])).head? = some 0) := by simp [h0.2.2]
  have hlast : (b0 :: (t ++ [bl])).getLast? = some bl := by
    have : b0 :: (t ++ [bl]) = (b0 :: t) ++ [bl] := by simp
    rw [this, List.getLast?_append]; simp
  have hb0 : ¬ b0 = 0 := h0.2.2
  have hbl : ¬ bl = 0 := hl.2.2
  simp [hb0, hlast, hbl]

/-- the single-byte version (line of one byte) is not needed; lines here have ≥ 2 bytes -/
theorem solid_F : Solid 70 := by decide
theorem solid_0 : Solid 48 := by decide
theorem solid_plus : Solid 43 := by decide
theorem solid_minus : Solid 45 := by decide
theorem solid_eq : Solid 61 := by decide

/-! ### `proposal_line_roundtrip`: `parseProposal (proposalLine …)` -/

open Wl2k.Fmt Wl2k.Strconv

theorem splitOn_nosep (sep : UInt8) : ∀ (a : Bytes), sep ∉ a → splitOn sep a = [a] := by
  intro a
  induction a with
  | nil => intro _; rfl
  | cons b t ih =>
    intro h
    simp only [List.mem_cons, not_or] at h
    have hb : ¬ b = sep := fun e => h.1 e.symm
    simp [splitOn, hb, ih h.2]

theorem splitOn_append_sep (sep : UInt8) (rest : Bytes) : ∀ (a : Bytes), sep ∉ a →
    splitOn sep (a ++ sep :: rest) = a :: splitOn sep rest := by
  intro a
  induction a with
  | nil => intro _; simp [splitOn]
  | cons b t ih =>
    intro h
    simp only [List.mem_cons, not_or] at h
    have hb : ¬ b = sep := fun e => h.1 e.symm
    simp [splitOn, hb, ih h.2]

theorem digit_isDigit (n : Nat) : isDigit (digit n) = true := by
  have h : n % 10 < 10 := Nat.mod_lt _ (by decide)
  have : ∀ k, k < 10 → isDigit (UInt8.ofNat (48 + k)) = true := by decide
  exact this _ h

theorem digit_val (n : Nat) : (digit n).toNat - 48 = n % 10 := by
  have h : n % 10 < 10 := Nat.mod_lt _ (by decide)
  have : ∀ k, k < 10 → (UInt8.ofNat (48 + k)).toNat - 48 = k := by decide
  exact this _ h

theorem dec_spec : ∀ (n : Nat), (∀ c ∈ dec n, isDigit c = true) ∧ digitsVal (dec n) = n := by
  intro n
  induction n using Nat.strongRecOn with
  | _ n ih =>
    by_cases h : n < 10
    · rw [dec_lt n h]
      refine ⟨by intro c hc; simp only [List.mem_singleton] at hc; subst hc; exact digit_isDigit n, ?_⟩
      simp only [digitsVal, List.foldl_cons, List.foldl_nil, Nat.zero_mul, Nat.zero_add, digit_val]
      omega
    · rw [dec_ge n (by omega)]
      obtain ⟨i1, i2⟩ := ih (n / 10) (by omega)
      refine ⟨?_, ?_⟩
      · intro c hc
        simp only [List.mem_append, List.mem_singleton] at hc
        rcases hc with hc | rfl
        · exact i1 c hc
        · exact digit_isDigit n
      · have : digitsVal (dec (n / 10) ++ [digit n]) = digitsVal (dec (n / 10)) * 10 + ((digit n).toNat - 48) := by
          simp [digitsVal, List.foldl_append]
        rw [this, i2, digit_val]
        omega

theorem isDigit_ne {c : UInt8} (h : isDigit c = true) : c ≠ 45 ∧ c ≠ 43 ∧ c ≠ 32 ∧ c ≠ 13 := by
  simp only [isDigit, Bool.and_eq_true, decide_eq_true_eq] at h
  refine ⟨?_, ?_, ?_, ?_⟩ <;> (intro e; subst e; exact absurd h (by decide))

theorem atoi_cons (c : UInt8) (t : Bytes) (n45 : c ≠ 45) (n43 : c ≠ 43) :
    atoi (c :: t) = (if (c :: t).all isDigit then clamp false (digitsVal (c :: t))
      else if digitsVal ((c :: t).takeWhile isDigit) > 18446744073709551615 then (maxInt64, true) else (0, true)) := by
  unfold atoi
  split
  · rename_i x neg body heq
    split at heq
    · rename_i h1; simp only [List.cons.injEq] at h1; exact absurd h1.1 n45
    · rename_i h1; simp only [List.cons.injEq] at h1; exact absurd h1.1 n43
    · simp only [Prod.mk.injEq] at heq
      obtain ⟨rfl, rfl⟩ := heq
      simp

/-- `Atoi(Itoa(n)) = n` for `0 ≤ n < 2^63` -/
theorem atoi_decInt (n : Nat) (h : (n : Int) ≤ maxInt64) : atoi (decInt (n : Int)) = ((n : Int), false) := by
  obtain ⟨d1, d2⟩ := dec_spec n
  have hdi : decInt (n : Int) = dec n := by simp [decInt]
  rw [hdi]
  have hpos := dec_length_pos n
  cases hd : dec n with
  | nil => rw [hd] at hpos; simp at hpos
  | cons c t =>
    have hc : isDigit c = true := d1 c (by rw [hd]; simp)
    obtain ⟨n45, n43, _, _⟩ := isDigit_ne hc
    have hall : (c :: t).all isDigit = true := by
      rw [← hd]; simpa [List.all_eq_true] using d1
    rw [atoi_cons c t n45 n43, hall, if_pos rfl, ← hd, d2]
    have hgt : ¬ ((n : Int) > maxInt64) := by omega
    simp [clamp, hgt]

theorem dec_no (n : Nat) : (32 : UInt8) ∉ dec n ∧ (13 : UInt8) ∉ dec n := by
  obtain ⟨d1, _⟩ := dec_spec n
  exact ⟨fun h => (isDigit_ne (d1 _ h)).2.2.1 rfl, fun h => (isDigit_ne (d1 _ h)).2.2.2 rfl⟩

theorem decInt_nat (n : Nat) : decInt (n : Int) = dec n := by simp [decInt]

theorem sb_EM : sb "EM" = [69, 77] := by decide +kernel
theorem sb_CM : sb "CM" = [67, 77] := by decide +kernel

/-- **`proposal_line_roundtrip`**: a type-C "EM" proposal whose MID contains no blank parses back to
exactly its fields (sizes non-negative and below 2^63). -/
theorem proposal_line_roundtrip (mid : Bytes) (size csize : Nat) (hmid : (32 : UInt8) ∉ mid)
    (hs : (size : Int) ≤ maxInt64) (hc : (csize : Int) ≤ maxInt64) :
    parseProposal (proposalLine 67 (sb "EM") mid (size : Int) (csize : Int)) =
      some { code := 67, msgType := sb "EM", mid := mid, size := (size : Int), csize := (csize : Int) } := by
  have hline : proposalLine 67 (sb "EM") mid (size : Int) (csize : Int) =
      70 :: 67 :: 32 :: ([69, 77] ++ 32 :: (mid ++ 32 :: (dec size ++ 32 :: (dec csize ++ 32 :: [48])))) := by
    simp [proposalLine, sb_EM, decInt_nat]
  have hsplit : splitOn 32 ([69, 77] ++ 32 :: (mid ++ 32 :: (dec size ++ 32 :: (dec csize ++ 32 :: [48])))) =
      [[69, 77], mid, dec size, dec csize, [48]] := by
    rw [splitOn_append_sep 32 _ [69, 77] (by decide), splitOn_append_sep 32 _ mid hmid,
      splitOn_append_sep 32 _ (dec size) (dec_no size).1, splitOn_append_sep 32 _ (dec csize) (dec_no csize).1,
      splitOn_nosep 32 [48] (by decide)]
  unfold parseProposal
  rw [hline]
  simp only [List.getD_cons_succ, List.getD_cons_zero, List.drop_succ_cons, List.drop_zero, hsplit]
  have a1 := atoi_decInt size hs
  have a2 := atoi_decInt csize hc
  rw [decInt_nat] at a1 a2
  simp [sb_EM, sb_CM, a1, a2]

theorem proposalLine_no13 (mid : Bytes) (size csize : Nat) (hmid : (13 : UInt8) ∉ mid) :
    (13 : UInt8) ∉ proposalLine 67 (sb "EM") mid (size : Int) (csize : Int) := by
  intro h
  simp only [proposalLine, sb_EM, decInt_nat, List.mem_append, List.mem_cons, List.not_mem_nil, or_false] at h
  have d1 := (dec_no size).2
  have d2 := (dec_no csize).2
  have e : ∀ x : UInt8, x ∈ [70, 67, 32, 69, 77, 48] → (13 : UInt8) ≠ x := by decide
  rcases h with ((((((((h | h | h) | h | h) | h) | h) | h) | h) | h) | h) | h | h
  all_goals first
    | exact hmid h
    | exact d1 h
    | exact d2 h
    | exact e _ (by simp) h

end Wl2k.B2F
