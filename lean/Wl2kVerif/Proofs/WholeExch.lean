import Wl2kVerif.Proofs.WholeTurns
/-
`sent_implies_received` for two WHOLE `exchange` programs: the handshake is peeled off both sides (what
each handshake does on every prefix of the other's handshake bytes is the interface `MasterHs` / `SlaveHs`,
proved for all well-formed configurations in `Proofs/WholeHs.lean`), after which both sides stand at
complementary turn boundaries (`turns_sir`).
-/
namespace Wl2k.B2F
open Wl2k

/-- what follows the handshake in `Exchange` -/
def afterHs (c : Cfg) (fuel : Nat) : Except SErr HsData → Proc Result
  | .error e => finish {} true (some e)
  | .ok hs => restOfSession c fuel fuel (!c.hs.master) { remoteSID := hs.sid, remoteFW := hs.fw }

theorem exchange_eq (c : Cfg) (fuel : Nat) (hh : c.hasHandler = true) :
    exchange c fuel = Proc.call .prepare fun r =>
      match r with
      | .err true => finish {} true (some (.proto "prepare-failed"))
      | _ => (handshake c fuel).bind (afterHs c fuel) := by
  unfold exchange
  simp only [hh, if_true, bind_eq, Proc.bind]
  congr
  funext r
  cases r with
  | err b =>
    cases b with
    | true => rfl
    | false =>
      simp only [Proc.bind, Bool.not_true, Bool.false_eq_true, if_false]
      congr
  | _ =>
      simp only [Proc.bind, Bool.not_true, Bool.false_eq_true, if_false]
      congr

/-- the trace of `Exchange` when `Prepare` succeeds: the `prepare` call, then the handshake and what follows -/
theorem trOf_exchange (c : Cfg) (fuel : Nat) (hh : c.hasHandler = true) (h : HState) (hp : h.prepareFails = false) (J : Bytes) :
    trOf (exchange c fuel) J h = trOf ((handshake c fuel).bind (afterHs c fuel)) J h ++ [.called .prepare] := by
  unfold trOf
  rw [exchange_eq c fuel hh]
  simp only [Proc.run, hstep, hp]
  rw [run_tr]

/-- **The master's handshake** (it writes `HM` first; `HS` is what the slave answers): on every prefix of
`HS` it reports a lost connection; on `HS` followed by an 'F' it returns, leaving the 'F' unread. -/
structure MasterHs (c : Cfg) (fuel : Nat) (HM HS : Bytes) : Prop where
  master : c.hs.master = true
  out : ∀ (J : Bytes) (h : HState), ∃ W Rr, (Proc.run hstep (handshake c fuel) J h []).2.2.2 = W ∧ outBytes W = HM ++ Rr
  short : ∀ (J : Bytes) (h : HState), J <+: HS →
    ∃ W, Proc.run hstep (handshake c fuel) J h [] = (.done (.error .eof), [], h, W) ∧ outBytes W = HM ∧ NoConf W
  full : ∀ (r : Bytes) (h : HState),
    ∃ hs W, Proc.run hstep (handshake c fuel) (HS ++ 70 :: r) h [] = (.done (.ok hs), 70 :: r, h, W) ∧
      outBytes W = HM ∧ NoConf W

/-- **The slave's handshake**: on every proper prefix of the master's `HM` it reports a lost connection
without having written anything; on `HM` it writes `HS` and returns, consuming exactly `HM`. -/
structure SlaveHs (c : Cfg) (fuel : Nat) (HM HS : Bytes) : Prop where
  slave : c.hs.master = false
  short : ∀ (J : Bytes) (h : HState), J <+: HM → J ≠ HM →
    ∃ W, Proc.run hstep (handshake c fuel) J h [] = (.done (.error .eof), [], h, W) ∧ outBytes W = [] ∧ NoConf W
  full : ∀ (rest : Bytes) (h : HState),
    ∃ hs W, Proc.run hstep (handshake c fuel) (HM ++ rest) h [] = (.done (.ok hs), rest, h, W) ∧
      outBytes W = HS ∧ NoConf W

theorem noConf_prepare : NoConf [Ev.called .prepare] := by
  intro m hm; simp at hm

theorem outBytes_prepare : outBytes [Ev.called .prepare] = [] := rfl

theorem prefix_append_split {α : Type} (a b J : List α) (hJ : J <+: a ++ b) :
    J <+: a ∨ ∃ J', J = a ++ J' ∧ J' <+: b := by
  by_cases hl : J.length ≤ a.length
  · left
    exact List.prefix_of_prefix_length_le hJ (List.prefix_append _ _) hl
  · right
    have h2 : a <+: J := List.prefix_of_prefix_length_le (List.prefix_append _ _) hJ (by omega)
    obtain ⟨J', rfl⟩ := h2
    exact ⟨J', rfl, (List.prefix_append_right_inj _).mp hJ⟩

/-- **`sent_implies_received`, whole sessions, stream form.** -/
theorem exchange_sir (cM cS : Cfg) (fuel : Nat) (hM hS : HState) (HM HS : Bytes)
    (gM : Good cM fuel hM) (gS : Good cS fuel hS) (pM : hM.prepareFails = false) (pS : hS.prepareFails = false)
    (mh : MasterHs cM fuel HM HS) (sh : SlaveHs cS fuel HM HS) (eM eS : List Ev)
    (hcon : Con (exchange cM fuel) hM (exchange cS fuel) hS eM eS) :
    SIR hM eM eS ∧ SIR hS eS eM := by
  obtain ⟨JM, JS, h1, h2, h3, h4⟩ := hcon
  rw [trOf_exchange cM fuel gM.hh hM pM] at h1
  rw [trOf_exchange cS fuel gS.hh hS pS] at h2
  -- whatever it reads the master writes `HM` first
  have hMout : ∃ Rr, outBytes (trOf ((handshake cM fuel).bind (afterHs cM fuel)) JM hM ++ [Ev.called .prepare]) = HM ++ Rr := by
    obtain ⟨W, Rr, hW, hWo⟩ := mh.out JM hM
    obtain ⟨evB, hB⟩ := run_bind_trace hstep (handshake cM fuel) (afterHs cM fuel) JM hM []
    unfold trOf
    rw [hB, hW, outBytes_append, outBytes_prepare, List.nil_append, outBytes_append, hWo]
    exact ⟨Rr ++ outBytes evB, by simp⟩
  obtain ⟨Rr, hRr⟩ := hMout
  have hJS : JS <+: HM ++ Rr := by
    have := h4.trans (outBytes_suffix h1)
    rwa [hRr] at this
  -- the master's side when it got no more than the slave's handshake
  have hMshort : JM <+: HS → NoConf eM ∧ outBytes eM <+: HM := by
    intro hJM
    obtain ⟨W, hrun, hWo, hWc⟩ := mh.short JM hM hJM
    rw [trace_bind_done _ _ JM hM _ _ _ _ hrun] at h1
    have hfin : trOf (afterHs cM fuel (.error .eof)) [] hM = [] := rfl
    rw [hfin, List.nil_append] at h1
    refine ⟨NoConf.of_suffix (noConf_append hWc noConf_prepare) h1, ?_⟩
    have := outBytes_suffix h1
    rwa [outBytes_append, outBytes_prepare, List.nil_append, hWo] at this
  have hcases : (JS <+: HM ∧ JS ≠ HM) ∨ ∃ J', JS = HM ++ J' := by
    rcases prefix_append_split HM Rr JS hJS with hshort | ⟨J', rfl, _⟩
    · by_cases hne : JS = HM
      · exact Or.inr ⟨[], by simp [hne]⟩
      · exact Or.inl ⟨hshort, hne⟩
    · exact Or.inr ⟨J', rfl⟩
  rcases hcases with ⟨hshort, hne⟩ | ⟨J', rfl⟩
  · -- the slave has not got the master's handshake: it wrote nothing, so the master read nothing
    obtain ⟨W, hrun, hWo, hWc⟩ := sh.short JS hS hshort hne
    rw [trace_bind_done _ _ JS hS _ _ _ _ hrun] at h2
    have hfin : trOf (afterHs cS fuel (.error .eof)) [] hS = [] := rfl
    rw [hfin, List.nil_append] at h2
    have hJM : JM = [] := by
      have := h3.trans (outBytes_suffix h2)
      rw [outBytes_append, outBytes_prepare, List.nil_append, hWo] at this
      exact prefix_nil this
    subst hJM
    obtain ⟨c1, _⟩ := hMshort List.nil_prefix
    exact ⟨SIR.of_noConf c1, SIR.of_noConf (NoConf.of_suffix (noConf_append hWc noConf_prepare) h2)⟩
  · obtain ⟨hs, W, hrun, hWo, hWc⟩ := sh.full J' hS
    rw [trace_bind_done _ _ _ hS _ _ _ _ hrun] at h2
    simp only [afterHs, sh.slave, Bool.not_false] at h2
    rw [List.append_assoc] at h2
    have hJM : JM <+: HS ++ outBytes (trOf (restOfSession cS fuel fuel true { remoteSID := hs.sid, remoteFW := hs.fw }) J' hS) := by
      have := h3.trans (outBytes_suffix h2)
      rwa [outBytes_append, outBytes_append, outBytes_prepare, List.nil_append, hWo] at this
    -- if the master got no more than `HS`, the slave got no more than `HM`
    have hboth : JM <+: HS → SIR hM eM eS ∧ SIR hS eS eM := by
      intro hs1
      obtain ⟨c1, c2⟩ := hMshort hs1
      have hJ' : J' = [] := by
        have := (h4.trans c2).length_le
        simp only [List.length_append] at this
        exact List.eq_nil_of_length_eq_zero (by omega)
      subst hJ'
      refine ⟨SIR.of_noConf c1, SIR.of_noConf (NoConf.of_suffix ?_ h2)⟩
      exact noConf_append (noConf_rest_nil _ _ _ _ _ _) (noConf_append hWc noConf_prepare)
    rcases prefix_append_split HS _ JM hJM with hs1 | ⟨JM', rfl, hJM'⟩
    · exact hboth hs1
    · cases JM' with
      | nil => exact hboth (by simp)
      | cons x r =>
        have hx : x = 70 := by
          rcases send_out_head cS fuel fuel { remoteSID := hs.sid, remoteFW := hs.fw } hS gS.hh gS.mb J' with ho | ⟨t, ho⟩
          · rw [ho] at hJM'; simp at hJM'
          · rw [ho] at hJM'; exact (List.cons_prefix_cons.mp hJM').1
        subst hx
        obtain ⟨hsM, WM, hrunM, hWMo, hWMc⟩ := mh.full r hM
        rw [trace_bind_done _ _ _ hM _ _ _ _ hrunM] at h1
        simp only [afterHs, mh.master, Bool.not_true] at h1
        rw [List.append_assoc] at h1
        -- the slave's trace contains its whole handshake: it has written the byte the master peeked
        have hSsplit : ∃ eS', eS = eS' ++ (W ++ [Ev.called .prepare]) ∧
            eS' <:+ trOf (restOfSession cS fuel fuel true { remoteSID := hs.sid, remoteFW := hs.fw }) J' hS := by
          rcases suffix_append_split h2 with hin | hx
          · exfalso
            have l1 := h3.length_le
            have l2 := (outBytes_suffix hin).length_le
            rw [outBytes_append, outBytes_prepare, List.nil_append, hWo] at l2
            simp only [List.length_append, List.length_cons] at l1
            omega
          · exact hx
        obtain ⟨eS', rfl, heS'⟩ := hSsplit
        have hJM'' : 70 :: r <+: outBytes eS' := by
          have := h3
          rw [outBytes_append, outBytes_append, outBytes_prepare, List.nil_append, hWo] at this
          exact (List.prefix_append_right_inj _).mp this
        have fin : ∀ eM', eM' <:+ trOf (restOfSession cM fuel fuel false { remoteSID := hsM.sid, remoteFW := hsM.fw }) (70 :: r) hM →
            J' <+: outBytes eM' → (∀ e ∈ eM, e ∈ eM' ∨ e ∈ WM ++ [Ev.called .prepare]) → (∀ e ∈ eM', e ∈ eM) →
            SIR hM eM (eS' ++ (W ++ [Ev.called .prepare])) ∧ SIR hS (eS' ++ (W ++ [Ev.called .prepare])) eM := by
          intro eM' ha hb hc hd
          obtain ⟨i1, i2⟩ := turns_sir fuel (fuel + fuel) fuel fuel (Nat.le_refl _) cS cM _ _
            hS hM eS' eM' gS gM ⟨J', 70 :: r, heS', ha, hb, hJM''⟩
          constructor
          · intro m hm
            rcases hc _ hm with hm | hm
            · obtain ⟨msg, g1, g2, g3⟩ := i2 m hm
              exact ⟨msg, g1, g2, List.mem_append_left _ g3⟩
            · exact (noConf_append hWMc noConf_prepare m hm).elim
          · intro m hm
            rcases List.mem_append.mp hm with hm | hm
            · obtain ⟨msg, g1, g2, g3⟩ := i1 m hm
              exact ⟨msg, g1, g2, hd _ g3⟩
            · exact (noConf_append hWc noConf_prepare m hm).elim
        rcases suffix_append_split h1 with hin | ⟨eM', rfl, heM'⟩
        · have hJ' : J' = [] := by
            have l2 := (h4.trans (outBytes_suffix hin)).length_le
            rw [outBytes_append, outBytes_prepare, List.nil_append, hWMo] at l2
            simp only [List.length_append] at l2
            exact List.eq_nil_of_length_eq_zero (by omega)
          subst hJ'
          exact fin [] List.nil_suffix List.nil_prefix (fun e he => Or.inr (hin.subset he)) (by intro e he; cases he)
        · refine fin eM' heM' ?_ (fun e he => List.mem_append.mp he) (fun e he => List.mem_append_left _ he)
          have := h4
          rw [outBytes_append, outBytes_append, outBytes_prepare, List.nil_append, hWMo] at this
          exact (List.prefix_append_right_inj _).mp this

end Wl2k.B2F
