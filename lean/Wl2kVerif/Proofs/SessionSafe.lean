import Wl2kVerif.Proofs.Safe
/-
No-panic proof for the whole session program: every `panic` node reachable in `exchange` is either
"fuel" (excluded separately by the fuel bound) or the index panic caused by a LOCAL batched handler
that returns fewer answers than proposals. No remote input can reach any other panic site.
-/
namespace Wl2k.B2F
open Wl2k Wl2k.Str Wl2k.Strconv

/-- the panic sites that are not excluded by this proof: running out of fuel, and — only for a
BATCHED local handler — the index panic when it returns fewer answers than it was asked for -/
def Allowed (batched : Bool) (s : String) : Prop :=
  s = "fuel" ∨ (batched = true ∧ s = "answers-index-out-of-range")

variable {b : Bool}

/-- what may be handed to the inbound handler: only the result of a SUCCESSFUL decompression
(NewB2Reader + read to EOF + Close() = nil, i.e. CRC-16 and size verified) of a received payload -/
def InboundOK : Call → Prop
  | .processInbound data => ∃ cdata, lzDecode cdata = some data
  | _ => True

abbrev T {α : Type} : α → Prop := fun _ => True

/-- one structural step of a `Safe` proof -/
macro "safe_step" : tactic => `(tactic| first
  | exact Safe.ret _ trivial
  | (apply Safe.readByte; intro _)
  | (apply Safe.peek; intro _)
  | apply Safe.write
  | (refine Safe.call _ _ trivial ?_; intro _)
  | exact Safe.panic _ (Or.inl rfl))

theorem fuelOut_safe {α : Type} {Q : α → Prop} : Safe (Allowed b) InboundOK Q (fuelOut : Proc α) := Safe.panic _ (Or.inl rfl)

theorem readString_safe (delim : UInt8) : ∀ (fuel : Nat) (acc : Bytes),
    Safe (Allowed b) InboundOK (fun r : Bytes × Bool => r.2 = false → 0 < r.1.length) (readString delim fuel acc) := by
  intro fuel
  induction fuel with
  | zero => intro acc; exact fuelOut_safe
  | succ fuel ih =>
    intro acc
    unfold readString
    apply Safe.readByte
    intro o
    cases o with
    | none => exact Safe.ret _ (by simp)
    | some b =>
      simp only
      split
      · exact Safe.ret _ (by simp)
      · exact ih _

theorem nextLineRemoteErr_safe (pe : Bool) (fuel : Nat) : Safe (Allowed b) InboundOK T (nextLineRemoteErr pe fuel) := by
  unfold nextLineRemoteErr
  simp only [bind_eq, pure_eq]
  apply Safe.bind (readString_safe 13 fuel [])
  intro a _
  obtain ⟨line, eof⟩ := a
  simp only [cleanStringC_eq, errLineC_eq]
  split
  · safe_step
  · split
    · cases errLine (cleanString line) <;> exact Safe.ret _ trivial
    · safe_step

theorem nextLine_safe (fuel : Nat) : Safe (Allowed b) InboundOK T (nextLine fuel) := nextLineRemoteErr_safe true fuel

theorem readHandshake_safe (master : Bool) (fuel : Nat) : ∀ (n : Nat) (data : HsData),
    Safe (Allowed b) InboundOK T (readHandshake master fuel n data) := by
  intro n
  induction n with
  | zero => intro data; exact fuelOut_safe
  | succ n ih =>
    intro data
    unfold readHandshake
    apply Safe.peek
    intro o
    cases o with
    | none => safe_step
    | some b =>
      simp only
      split
      · safe_step
      · simp only [bind_eq, pure_eq]
        apply Safe.bind (nextLineRemoteErr_safe false fuel)
        intro r _
        cases r with
        | error e => safe_step
        | ok line =>
          simp only [parseFWC_eq, challengeC_eq]
          split
          · cases parseSID line with
            | none => safe_step
            | some sid =>
              simp only
              split
              · safe_step
              · exact ih _
          · split
            · cases parseFW line with
              | none => safe_step
              | some fw => exact ih _
            · split
              · by_cases h5 : line.length < 5
                · simp only [h5, if_true]; safe_step
                · simp only [h5, if_false]; exact ih _
              · split
                · safe_step
                · exact ih _

theorem askPasswords_safe (c : Cfg) (ch : Bytes) : ∀ (is : List Nat) (acc : List CbView),
    Safe (Allowed b) InboundOK T (askPasswords c ch is acc) := by
  intro is
  induction is with
  | nil => intro acc; exact Safe.ret _ trivial
  | cons i is ih =>
    intro acc
    unfold askPasswords
    apply Safe.call
    · trivial
    intro r
    cases r <;> exact ih _

theorem sendHandshakeP_safe (c : Cfg) (ch : Bytes) : Safe (Allowed b) InboundOK T (sendHandshakeP c ch) := by
  unfold sendHandshakeP
  split
  · safe_step
  · split
    · cases sendHandshakeV c.hs ch [] with
      | none => safe_step
      | some bs => exact Safe.write _ _ (Safe.ret _ trivial)
    · simp only [bind_eq, pure_eq]
      apply Safe.bind (askPasswords_safe c ch _ _)
      intro aux _
      apply Safe.bind (askPasswords_safe c ch _ _)
      intro main _
      cases sendHandshakeV c.hs ch (main ++ aux) with
      | none => safe_step
      | some bs => exact Safe.write _ _ (Safe.ret _ trivial)

theorem writeLines_safe : ∀ (ls : List Bytes), Safe (Allowed b) InboundOK T (writeLines ls) := by
  intro ls
  induction ls with
  | nil => exact Safe.ret _ trivial
  | cons l ls ih => exact Safe.write _ _ ih

theorem handshake_tail_safe (c : Cfg) (fuel : Nat) :
    Safe (Allowed b) InboundOK T ((readHandshake c.hs.master fuel fuel { }).bind fun r =>
      match r with
      | Except.error e => Proc.ret (Except.error e)
      | Except.ok hs =>
        if List.isEmpty hs.sid = true then Proc.ret (Except.error (SErr.proto "no-sid"))
        else
          if (!c.hs.master) = true then
            (sendHandshakeP c hs.challenge).bind fun r =>
              match r with
              | Except.error e => Proc.ret (Except.error e)
              | Except.ok PUnit.unit => Proc.ret (Except.ok hs)
          else Proc.ret (Except.ok hs)) := by
  apply Safe.bind (readHandshake_safe _ _ _ _)
  intro r _
  cases r with
  | error e => safe_step
  | ok hs =>
    simp only
    split
    · safe_step
    · split
      · apply Safe.bind (sendHandshakeP_safe _ _)
        intro r _
        cases r <;> safe_step
      · safe_step

theorem handshake_safe (c : Cfg) (fuel : Nat) : Safe (Allowed b) InboundOK T (handshake c fuel) := by
  unfold handshake
  simp only [bind_eq, pure_eq]
  split
  · apply Safe.bind (writeLines_safe _)
    intro _ _
    apply Safe.bind (sendHandshakeP_safe _ _)
    intro r _
    cases r with
    | error e => safe_step
    | ok u => exact handshake_tail_safe c fuel
  · exact handshake_tail_safe c fuel

theorem outbound_safe (c : Cfg) (st : SState) : Safe (Allowed b) InboundOK T (outbound c st) := by
  unfold outbound
  split
  · safe_step
  · apply Safe.call
    · trivial
    intro r
    cases r <;> safe_step

theorem writeBlocks_safe : ∀ (bs : List Bytes), Safe (Allowed b) InboundOK T (writeBlocks bs) := by
  intro bs
  induction bs with
  | nil => exact Safe.ret _ trivial
  | cons b bs ih => exact Safe.write _ _ ih

theorem writeCompressed_safe (c : Cfg) (p : Proposal) : Safe (Allowed b) InboundOK T (writeCompressed c p) := by
  unfold writeCompressed
  apply Safe.write
  split
  · safe_step
  · rw [payloadFromC_eq]
    by_cases h : p.offset < 0 ∨ p.offset > (p.cdata.length : Int)
    · simp only [h, if_true]; safe_step
    · simp only [h, if_false]
      apply Safe.bind (writeBlocks_safe _)
      intro _ _
      exact Safe.write _ _ (Safe.ret _ trivial)

theorem awaitAnswer_safe (fuel : Nat) : ∀ (n : Nat), Safe (Allowed b) InboundOK T (awaitAnswer fuel n) := by
  intro n
  induction n with
  | zero => exact fuelOut_safe
  | succ n ih =>
    unfold awaitAnswer
    simp only [bind_eq, pure_eq]
    apply Safe.bind (nextLine_safe fuel)
    intro r _
    cases r with
    | error e => safe_step
    | ok line =>
      simp only
      split
      · safe_step
      · split
        · exact ih
        · split
          · exact ih
          · safe_step

theorem transferAll_safe (c : Cfg) : ∀ (ps : List Proposal) (sent : List (Bytes × Bool)),
    Safe (Allowed b) InboundOK T (transferAll c ps sent) := by
  intro ps
  induction ps with
  | nil => intro sent; exact Safe.ret _ trivial
  | cons p ps ih =>
    intro sent
    unfold transferAll
    split
    · exact Safe.call _ _ trivial (fun _ => ih _)
    · split
      · exact ih _
      · split
        · simp only [bind_eq, pure_eq]
          apply Safe.bind (writeCompressed_safe c p)
          intro r _
          cases r with
          | error e => safe_step
          | ok u => exact ih _
        · exact ih _

theorem sendOutbound_safe (c : Cfg) (fuel : Nat) (out : List Proposal) : Safe (Allowed b) InboundOK T (sendOutbound c fuel out) := by
  unfold sendOutbound
  simp only [bind_eq, pure_eq]
  apply Safe.bind (writeLines_safe _)
  intro _ _
  apply Safe.bind (Safe.write _ _ (Safe.ret (Q := T) _ trivial))
  intro _ _
  apply Safe.bind (awaitAnswer_safe fuel fuel)
  intro r _
  cases r with
  | error e => safe_step
  | ok reply =>
    simp only [parseProposalAnswerC_eq]
    cases parseProposalAnswer c.offsetLimit reply (List.take c.maxBlock out).length with
    | none => safe_step
    | some ans => exact transferAll_safe _ _ _

theorem callAll_safe : ∀ (cs : List Call), (∀ c ∈ cs, InboundOK c) → Safe (Allowed b) InboundOK T (callAll cs) := by
  intro cs
  induction cs with
  | nil => intro _; exact Safe.ret _ trivial
  | cons x xs ih =>
    intro h
    exact Safe.call _ _ (h x (by simp)) (fun _ => ih (fun c hc => h c (by simp [hc])))

theorem setSent_calls_ok (l : List (Bytes × Bool)) (r : Bool) :
    ∀ c ∈ l.map (fun x : Bytes × Bool => Call.setSent x.1 r), InboundOK c := by
  intro c hc
  simp only [List.mem_map] at hc
  obtain ⟨x, _, rfl⟩ := hc
  trivial

theorem handleOutbound_safe (c : Cfg) (fuel : Nat) (st : SState) : Safe (Allowed b) InboundOK T (handleOutbound c fuel st) := by
  unfold handleOutbound
  simp only [bind_eq, pure_eq]
  apply Safe.bind (outbound_safe c st)
  intro out _
  split
  · apply Safe.bind (Safe.write _ _ (Safe.ret (Q := T) _ trivial))
    intro _ _
    safe_step
  · apply Safe.bind (sendOutbound_safe c fuel out)
    intro r _
    cases r with
    | error e => safe_step
    | ok sent =>
      simp only
      apply Safe.bind (callAll_safe _ (setSent_calls_ok _ _))
      intro _ _
      apply Safe.peek
      intro o
      cases o with
      | none => safe_step
      | some b =>
        simp only
        split
        · apply Safe.bind (nextLine_safe fuel)
          intro r _
          cases r <;> safe_step
        · apply Safe.bind (callAll_safe _ (setSent_calls_ok _ _))
          intro _ _
          safe_step

theorem askEach_safe : ∀ (ps acc : List Proposal), Safe (Allowed b) InboundOK T (askEach ps acc) := by
  intro ps
  induction ps with
  | nil => intro acc; exact Safe.ret _ trivial
  | cons p ps ih =>
    intro acc
    unfold askEach
    split
    · exact ih _
    · apply Safe.call
      · trivial
      intro r
      cases r <;> exact ih _

theorem writeProposalsAnswer_safe (c : Cfg) (ps : List Proposal) :
    Safe (Allowed c.batched) InboundOK T (writeProposalsAnswer c ps) := by
  unfold writeProposalsAnswer
  simp only [bind_eq, pure_eq]
  have hw : ∀ ps : List Proposal, Safe (Allowed c.batched) InboundOK T
      (Proc.write (sb "FS " ++ ps.map (·.answer) ++ [13]) (Proc.ret ps)) :=
    fun ps => Safe.write _ _ (Safe.ret _ trivial)
  split
  · rename_i hb
    have hb' : c.batched = true := by
      have := hb.1
      simpa using this
    apply Safe.bind (Q := T)
    · apply Safe.call
      · trivial
      intro r
      cases r with
      | answers as =>
        simp only
        cases assignAnswers (preAnswer c.hasHandler ps []) as with
        | none => exact Safe.panic _ (Or.inr ⟨hb', rfl⟩)
        | some ps' => exact Safe.ret _ trivial
      | _ => exact Safe.panic _ (Or.inr ⟨hb', rfl⟩)
    · intro ps' _; exact hw ps'
  · apply Safe.bind (askEach_safe _ _)
    intro ps' _
    exact hw ps'

theorem readN_safe : ∀ (n : Nat) (acc : Bytes), Safe (Allowed b) InboundOK T (readN n acc) := by
  intro n
  induction n with
  | zero => intro acc; exact Safe.ret _ trivial
  | succ n ih =>
    intro acc
    unfold readN
    apply Safe.readByte
    intro o
    cases o with
    | none => safe_step
    | some b => exact ih _

theorem readBlocks_safe (csize : Int) : ∀ (fuel : Nat) (buf : Bytes) (sum : Nat),
    Safe (Allowed b) InboundOK T (readBlocks csize fuel buf sum) := by
  intro fuel
  induction fuel with
  | zero => intro buf sum; exact fuelOut_safe
  | succ fuel ih =>
    intro buf sum
    unfold readBlocks
    apply Safe.readByte
    intro o
    cases o with
    | none => safe_step
    | some c =>
      simp only
      split
      · apply Safe.readByte
        intro o
        apply Safe.bind (readN_safe _ _)
        intro r _
        cases r with
        | none => safe_step
        | some blk => exact ih _ _
      · split
        · apply Safe.readByte
          intro o
          cases o with
          | none => safe_step
          | some x => simp only; split <;> (first | safe_step | (split <;> safe_step))
        · safe_step

theorem readCompressed_safe (fuel : Nat) (p : Proposal) : Safe (Allowed b) InboundOK T (readCompressed fuel p) := by
  unfold readCompressed
  apply Safe.readByte
  intro o
  cases o with
  | none => safe_step
  | some c =>
    simp only
    split
    · apply Safe.bind (nextLine_safe fuel)
      intro _ _
      safe_step
    · split
      · safe_step
      · apply Safe.readByte
        intro o
        cases o with
        | none => safe_step
        | some hl =>
          simp only [bind_eq, pure_eq]
          apply Safe.bind (readString_safe 0 fuel [])
          intro r1 h1
          obtain ⟨title, eof1⟩ := r1
          split
          · safe_step
          · rename_i he1
            apply Safe.bind (readString_safe 0 fuel [])
            intro r2 h2
            obtain ⟨off, eof2⟩ := r2
            split
            · safe_step
            · rename_i he2
              have ht : 0 < title.length := h1 (by simpa using he1)
              have ho : 0 < off.length := h2 (by simpa using he2)
              rw [stripDelimC_eq title ht, stripDelimC_eq off ho]
              simp only
              split
              · safe_step
              · split
                · safe_step
                · split
                  · safe_step
                  · exact readBlocks_safe _ _ _ _

theorem fetchAll_safe (fuel : Nat) : ∀ (ps : List Proposal) (st : SState),
    Safe (Allowed b) InboundOK T (fetchAll fuel ps st) := by
  intro ps
  induction ps with
  | nil => intro st; exact Safe.ret _ trivial
  | cons p ps ih =>
    intro st
    unfold fetchAll
    split
    · exact ih _
    · simp only [bind_eq, pure_eq]
      apply Safe.bind (readCompressed_safe fuel p)
      intro r _
      cases r with
      | error e => safe_step
      | ok cdata =>
        simp only
        apply Safe.bind (Q := fun d => ∀ data, d = some data → ∃ cd, lzDecode cd = some data)
        · split
          · exact Safe.call _ _ trivial (fun _ => Safe.ret _ (by intro data h; cases h))
          · exact Safe.ret _ (fun data h => ⟨cdata, h⟩)
        · intro d hd
          cases d with
          | none => safe_step
          | some data =>
            simp only
            refine Safe.call _ _ trivial ?_
            intro r
            split
            · safe_step
            · refine Safe.call _ _ (hd data rfl) ?_
              intro r
              split
              · safe_step
              · exact ih _

theorem inboundLoop_safe (c : Cfg) (fuel : Nat) : ∀ (n : Nat) (props : List Proposal) (sum : Nat) (st : SState),
    Safe (Allowed c.batched) InboundOK T (inboundLoop c fuel n props sum st) := by
  intro n
  induction n with
  | zero => intro props sum st; exact fuelOut_safe
  | succ n ih =>
    intro props sum st
    unfold inboundLoop
    simp only [bind_eq, pure_eq]
    apply Safe.bind (nextLine_safe fuel)
    intro r _
    cases r with
    | error e => safe_step
    | ok line =>
      simp only
      split
      · exact ih _ _ _
      · split
        · exact ih _ _ _
        · split
          · safe_step
          · rename_i hlen
            have h2 : 2 ≤ line.length := by
              by_cases h : line.length < 2
              · exact absurd (Or.inl h) hlen
              · omega
            rw [cmdByteC_eq line h2, parseProposalC_eq line h2, promptFieldC_eq line h2]
            simp only
            split
            · cases parseProposal line with
              | none => safe_step
              | some f => exact ih _ _ _
            · split
              · safe_step
              · split
                · safe_step
                · split
                  · split
                    · safe_step
                    · split
                      · safe_step
                      · apply Safe.bind (writeProposalsAnswer_safe c props)
                        intro _ _
                        safe_step
                  · safe_step

theorem handleInbound_safe (c : Cfg) (fuel : Nat) (st : SState) : Safe (Allowed c.batched) InboundOK T (handleInbound c fuel st) := by
  unfold handleInbound
  simp only [bind_eq, pure_eq]
  apply Safe.bind (inboundLoop_safe c fuel fuel [] 0 st)
  intro r _
  cases r with
  | error e => safe_step
  | ok v =>
    obtain ⟨quit, props, st'⟩ := v
    simp only
    apply Safe.bind (fetchAll_safe fuel props st')
    intro r _
    safe_step

theorem turns_safe (c : Cfg) (fuel : Nat) : ∀ (n : Nat) (myTurn : Bool) (st : SState),
    Safe (Allowed c.batched) InboundOK T (turns c fuel n myTurn st) := by
  intro n
  induction n with
  | zero => intro _ _; exact fuelOut_safe
  | succ n ih =>
    intro myTurn st
    unfold turns
    split
    · safe_step
    · split
      · simp only [bind_eq, pure_eq]
        apply Safe.bind (handleOutbound_safe c fuel st)
        intro r _
        cases r with
        | error e => safe_step
        | ok v => exact ih _ _
      · simp only [bind_eq, pure_eq]
        apply Safe.bind (handleInbound_safe c fuel st)
        intro r _
        obtain ⟨q, st', e⟩ := r
        cases e with
        | some e => safe_step
        | none => exact ih _ _

theorem finish_safe (st : SState) (named : Bool) (e : Option SErr) : Safe (Allowed b) InboundOK T (finish st named e) := by
  unfold finish
  split
  · safe_step
  · safe_step
  · exact Safe.write _ _ (Safe.ret _ trivial)
  · exact Safe.write _ _ (Safe.ret _ trivial)

/-- **The whole `Exchange` program is safe**: for every configuration and fuel, the only panic sites
reachable — under ANY remote byte stream and ANY handler replies — are "fuel" and the local
batched-handler index panic. -/
theorem exchange_safe (c : Cfg) (fuel : Nat) : Safe (Allowed c.batched) InboundOK T (exchange c fuel) := by
  unfold exchange
  simp only [bind_eq, pure_eq]
  apply Safe.bind (Q := T)
  · split
    · apply Safe.call
      · trivial
      intro r; cases r <;> (try split) <;> safe_step
    · safe_step
  · intro ok _
    split
    · exact finish_safe _ _ _
    · apply Safe.bind (handshake_safe c fuel)
      intro r _
      cases r with
      | error e => exact finish_safe _ _ _
      | ok hs =>
        simp only
        apply Safe.bind (turns_safe c fuel fuel _ _)
        intro r _
        exact finish_safe _ _ _

end Wl2k.B2F
