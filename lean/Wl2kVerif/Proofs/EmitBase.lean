import Wl2kVerif.B2F.Grammar
import Wl2kVerif.Proofs.PairGuard
/-
`AcceptsR δ R Q s p`: as `Accepts` (Proofs/PairGuard.lean) — from monitor state `s`, along every path of
program `p` every event is accepted by the monitor `δ`, and a returned value `a` in monitor state `s'`
satisfies `Q a s'` — but quantifying only over handler replies that satisfy `R call reply`.
`R` is where the hypotheses on the LOCAL handler live (the remote's bytes stay arbitrary).
-/
namespace Wl2k.B2F
open Wl2k

inductive AcceptsR {α S : Type} (δ : S → Ev → Option S) (R : Call → Reply → Prop) (Q : α → S → Prop) : S → Proc α → Prop
  | ret (a : α) (s : S) : Q a s → AcceptsR δ R Q s (.ret a)
  | readByte (k : Option UInt8 → Proc α) (s : S) : (∀ o, AcceptsR δ R Q s (k o)) → AcceptsR δ R Q s (.readByte k)
  | peek (k : Option UInt8 → Proc α) (s : S) (f : UInt8 → S) : AcceptsR δ R Q s (k none) →
      (∀ b, δ s (.peeked b) = some (f b)) → (∀ b, AcceptsR δ R Q (f b) (k (some b))) → AcceptsR δ R Q s (.peek k)
  | write (bs : Bytes) (k : Proc α) (s s' : S) : δ s (.wrote bs) = some s' → AcceptsR δ R Q s' k →
      AcceptsR δ R Q s (.write bs k)
  | call (c : Call) (k : Reply → Proc α) (s s' : S) : δ s (.called c) = some s' →
      (∀ r, R c r → AcceptsR δ R Q s' (k r)) → AcceptsR δ R Q s (.call c k)
  | panic (site : String) (s : S) : AcceptsR δ R Q s (.panic site)

theorem AcceptsR.bind {α β S : Type} {δ : S → Ev → Option S} {R : Call → Reply → Prop} {Q : α → S → Prop}
    {Q' : β → S → Prop} {s : S} {p : Proc α} {f : α → Proc β} (hp : AcceptsR δ R Q s p)
    (hf : ∀ a s', Q a s' → AcceptsR δ R Q' s' (f a)) : AcceptsR δ R Q' s (Proc.bind p f) := by
  induction hp with
  | ret a s ha => exact hf a s ha
  | readByte k s _ ih => exact AcceptsR.readByte _ _ (fun o => ih o)
  | peek k s g _ hg _ ih0 ih => exact AcceptsR.peek _ _ g ih0 hg (fun b => ih b)
  | write bs k s s' hs _ ih => exact AcceptsR.write _ _ _ _ hs ih
  | call c k s s' hs _ ih => exact AcceptsR.call _ _ _ _ hs (fun r hr => ih r hr)
  | panic site s => exact AcceptsR.panic _ _

theorem AcceptsR.mono {α S : Type} {δ : S → Ev → Option S} {R : Call → Reply → Prop} {Q Q' : α → S → Prop} {s : S}
    {p : Proc α} (hp : AcceptsR δ R Q s p) (h : ∀ a s', Q a s' → Q' a s') : AcceptsR δ R Q' s p := by
  induction hp with
  | ret a s ha => exact AcceptsR.ret _ _ (h a s ha)
  | readByte k s _ ih => exact AcceptsR.readByte _ _ ih
  | peek k s g _ hg _ ih0 ih => exact AcceptsR.peek _ _ g ih0 hg ih
  | write bs k s s' hs _ ih => exact AcceptsR.write _ _ _ _ hs ih
  | call c k s s' hs _ ih => exact AcceptsR.call _ _ _ _ hs ih
  | panic site s => exact AcceptsR.panic _ _

/-- an unconditional `Accepts` is an `AcceptsR` for every reply predicate -/
theorem AcceptsR.of_accepts {α S : Type} {δ : S → Ev → Option S} {R : Call → Reply → Prop} {Q : α → S → Prop} {s : S}
    {p : Proc α} (hp : Accepts δ Q s p) : AcceptsR δ R Q s p := by
  induction hp with
  | ret a s ha => exact AcceptsR.ret _ _ ha
  | readByte k s _ ih => exact AcceptsR.readByte _ _ ih
  | peek k s g _ hg _ ih0 ih => exact AcceptsR.peek _ _ g ih0 hg ih
  | write bs k s s' hs _ ih => exact AcceptsR.write _ _ _ _ hs ih
  | call c k s s' hs _ ih => exact AcceptsR.call _ _ _ _ hs (fun r _ => ih r)
  | panic site s => exact AcceptsR.panic _ _

/-- **Every run of an accepted program against a handler whose replies satisfy `R` is accepted by the
monitor**: if the trace so far leads the monitor from `s0` to `s`, the trace after the run leads it to
some `s'` (no event was refused), and a returned value satisfies `Q _ s'`. -/
theorem run_acceptsR {α H S : Type} (hstep : H → Call → H × Reply) {δ : S → Ev → Option S} {R : Call → Reply → Prop}
    (hR : ∀ h c, R c (hstep h c).2) {Q : α → S → Prop}
    {s : S} {p : Proc α} (hp : AcceptsR δ R Q s p) : ∀ (inp : Bytes) (h : H) (tr : List Ev) (s0 : S),
      mon δ tr s0 = some s →
      ∃ s', mon δ (Proc.run hstep p inp h tr).2.2.2 s0 = some s' ∧
        ∀ a, (Proc.run hstep p inp h tr).1 = .done a → Q a s' := by
  induction hp with
  | ret a s ha =>
    intro inp h tr s0 hm
    refine ⟨s, by simpa [Proc.run] using hm, ?_⟩
    intro a' e
    simp only [Proc.run] at e
    cases e
    exact ha
  | readByte k s _ ih =>
    intro inp h tr s0 hm
    cases inp with
    | nil => simpa [Proc.run] using ih none [] h tr s0 hm
    | cons b t => simpa [Proc.run] using ih (some b) t h tr s0 hm
  | peek k s g _ hg _ ih0 ih =>
    intro inp h tr s0 hm
    cases inp with
    | nil => simpa [Proc.run] using ih0 [] h tr s0 hm
    | cons b t =>
      have := ih b (b :: t) h (.peeked b :: tr) s0 (by simp [mon, hm, hg])
      simpa [Proc.run] using this
  | write bs k s s' hs _ ih =>
    intro inp h tr s0 hm
    have := ih inp h (.wrote bs :: tr) s0 (by simp [mon, hm, hs])
    simpa [Proc.run] using this
  | call c k s s' hs _ ih =>
    intro inp h tr s0 hm
    simp only [Proc.run]
    exact ih (hstep h c).2 (hR h c) inp (hstep h c).1 (.called c :: tr) s0 (by simp [mon, hm, hs])
  | panic site s =>
    intro inp h tr s0 hm
    refine ⟨s, by simpa [Proc.run] using hm, ?_⟩
    intro a e
    simp [Proc.run] at e

/-- the writes of a trace (stored newest first), oldest first -/
def writesOf (tr : List Ev) : List Bytes :=
  tr.reverse.filterMap fun e => match e with | .wrote bs => some bs | _ => none

open Grammar in
/-- the event monitor over a trace is the write monitor over its writes -/
theorem mon_outGrammar (tr : List Ev) (s : GState) :
    mon outGrammarδ tr s = acceptsWrites s (writesOf tr) := by
  let F : Option GState → Ev → Option GState := fun o e => o.bind (outGrammarδ · e)
  have hnone : ∀ l : List Ev, l.foldl F none = none := by
    intro l; induction l with
    | nil => rfl
    | cons _ _ ih => exact ih
  have key : ∀ (l : List Ev) (s : GState),
      acceptsWrites s (l.filterMap fun e => match e with | .wrote bs => some bs | _ => none) =
        l.foldl F (some s) := by
    intro l
    induction l with
    | nil => intro s; rfl
    | cons e t ih =>
      intro s
      cases e with
      | wrote bs =>
        show (step s bs).bind _ = t.foldl F (step s bs)
        cases step s bs with
        | none => rw [hnone]; rfl
        | some s1 => exact ih s1
      | called c => exact ih s
      | peeked b => exact ih s
  unfold writesOf
  rw [key]
  induction tr with
  | nil => rfl
  | cons e t ih =>
    rw [List.reverse_cons, List.foldl_append, ← ih]
    rfl

end Wl2k.B2F
