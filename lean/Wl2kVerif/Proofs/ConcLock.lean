import Wl2kVerif.Proofs.ConcInv
/-
The access order IS the lock-acquisition order: `lockOrder trace = lin trace`, plus the one call that has
locked but not yet accessed (if any).
-/
namespace Wl2k.Url.Conc

theorem lockOrder_append_lock (tr : List Ev) (e : Ev) (h : e.kind = .lock) :
    lockOrder (tr ++ [e]) = lockOrder tr ++ [e.id] := by
  simp [lockOrder, List.filterMap_append, h]

theorem lockOrder_append_other (tr : List Ev) (e : Ev) (h : e.kind ≠ .lock) :
    lockOrder (tr ++ [e]) = lockOrder tr := by
  simp [lockOrder, List.filterMap_append, h]

def LockInv (progs : List (List COp)) (st : State) : Prop :=
  (∀ t op, (st.threads t).pc = .locked → curOp progs st t = some op →
      lockOrder st.trace = lin st.trace ++ [⟨t, (st.threads t).idx, op⟩])
  ∧ ((∀ t, (st.threads t).pc ≠ .locked) → lockOrder st.trace = lin st.trace)

theorem lockInv_init (progs : List (List COp)) : LockInv progs init := by
  refine ⟨?_, ?_⟩
  · intro t op h; simp [init] at h
  · intro _; rfl

/-- A step of `t` that is neither lock nor access and leaves `t` outside `locked`. -/
theorem lockInv_keep (progs : List (List COp)) (st : State) (t : Nat) (h : LockInv progs st)
    (r : Registry) (ho : Option Nat) (th : Thread) (e : Ev)
    (hk : e.kind ≠ .access) (hl : e.kind ≠ .lock) (hold : (st.threads t).pc ≠ .locked)
    (hnew : th.pc ≠ .locked) :
    LockInv progs ⟨r, ho, setThread st.threads t th, st.trace ++ [e]⟩ := by
  refine ⟨?_, ?_⟩
  · intro u op hu hop
    show lockOrder (st.trace ++ [e]) = lin (st.trace ++ [e]) ++ _
    rw [lockOrder_append_other _ _ hl, lin_append_other _ _ hk]
    by_cases e' : u = t
    · subst e'; simp only [setThread_same] at hu; exact absurd hu hnew
    · simp only [curOp, setThread_other _ _ _ _ e'] at hu hop ⊢
      exact h.1 u op hu hop
  · intro hall
    show lockOrder (st.trace ++ [e]) = lin (st.trace ++ [e])
    rw [lockOrder_append_other _ _ hl, lin_append_other _ _ hk]
    apply h.2
    intro u
    by_cases e' : u = t
    · subst e'; exact hold
    · have := hall u
      simp only [setThread_other _ _ _ _ e'] at this
      exact this

theorem lockInv_step (progs : List (List COp)) (st : State) (t : Nat) (hm : MutexInv st)
    (h : LockInv progs st) : LockInv progs (stepThread progs st t) := by
  refine stepThread_cases progs st t (LockInv progs) h ?_ ?_ ?_ ?_ ?_
  · intro op hop hpc hh
    have hnone : ∀ u, (st.threads u).pc ≠ .locked := by
      intro u hu
      have := (hm u).2 (by rw [hu]; rfl)
      rw [hh] at this; simp at this
    have hold := h.2 hnone
    refine ⟨?_, ?_⟩
    · intro u op' hu hop'
      show lockOrder (st.trace ++ [_]) = lin (st.trace ++ [_]) ++ _
      rw [lockOrder_append_lock _ _ rfl, lin_append_other _ _ (by simp), hold]
      by_cases e' : u = t
      · subst e'
        simp only [curOp, setThread_same] at hop' ⊢
        simp only [curOp] at hop
        rw [hop] at hop'; cases hop'
        rfl
      · simp only [setThread_other _ _ _ _ e'] at hu
        exact absurd hu (hnone u)
    · intro hall
      have := hall t
      simp at this
  · intro op hop hpc
    have hone : ∀ u, (st.threads u).pc = .locked → u = t := by
      intro u hu
      have a := (hm u).2 (by rw [hu]; rfl)
      have b := (hm t).2 (by rw [hpc]; rfl)
      rw [a] at b; exact Option.some.inj b
    refine ⟨?_, ?_⟩
    · intro u op' hu hop'
      by_cases e' : u = t
      · subst e'; simp at hu
      · simp only [setThread_other _ _ _ _ e'] at hu
        exact absurd (hone u hu) e'
    · intro _
      show lockOrder (st.trace ++ [_]) = lin (st.trace ++ [_])
      rw [lockOrder_append_other _ _ (by simp), lin_append_access _ _ rfl]
      exact h.1 t op hpc hop
  · intro o res _ hpc
    exact lockInv_keep progs st t h _ _ _ _ (by simp) (by simp) (by rw [hpc]; simp) (by simp)
  · intro s res _ hpc
    exact lockInv_keep progs st t h _ _ _ _ (by simp) (by simp) (by rw [hpc]; simp) (by simp)
  · intro op res _ hpc
    exact lockInv_keep progs st t h _ _ _ _ (by simp) (by simp) (by rw [hpc]; simp) (by simp)

theorem lockInv_exec (progs : List (List COp)) (sched : List Nat) : LockInv progs (exec progs sched) := by
  have : MutexInv (exec progs sched) ∧ LockInv progs (exec progs sched) :=
    exec_induction progs (fun st => MutexInv st ∧ LockInv progs st) ⟨mutexInv_init, lockInv_init progs⟩
      (fun st t h => ⟨mutexInv_step progs st t h.1, lockInv_step progs st t h.1 h.2⟩) sched
  exact this.2

/-- The access order is the lock order: `lin` is `lockOrder` minus at most one trailing call (the one
that holds the lock and has not accessed yet). -/
theorem lin_prefix_lockOrder (progs : List (List COp)) (sched : List Nat) :
    lin (exec progs sched).trace <+: lockOrder (exec progs sched).trace
    ∧ (lockOrder (exec progs sched).trace).length ≤ (lin (exec progs sched).trace).length + 1 := by
  have h := lockInv_exec progs sched
  have hp := (inv_exec progs sched).pend
  by_cases hall : ∀ t, ((exec progs sched).threads t).pc ≠ .locked
  · rw [h.2 hall]; exact ⟨List.prefix_refl _, Nat.le_succ _⟩
  · have : ∃ t, ((exec progs sched).threads t).pc = .locked := by
      apply Classical.byContradiction
      intro hn
      exact hall (fun t ht => hn ⟨t, ht⟩)
    obtain ⟨t, ht⟩ := this
    obtain ⟨op, hop⟩ := hp t (by rw [ht]; simp)
    rw [h.1 t op ht hop]
    exact ⟨List.prefix_append _ _, by simp⟩

end Wl2k.Url.Conc
