import Wl2kVerif.B2F.Session
import Wl2kVerif.Proofs.Checked
/-
`Safe P R Q p`: every `panic s` node reachable in program `p` — for ANY input bytes and ANY replies of
the handler — satisfies `P s`, and every value `p` can return satisfies `Q`.
-/
namespace Wl2k.B2F

inductive Safe {α : Type} (P : String → Prop) (R : Call → Prop) (Q : α → Prop) : Proc α → Prop
  | ret (a : α) : Q a → Safe P R Q (.ret a)
  | readByte (k : Option UInt8 → Proc α) : (∀ o, Safe P R Q (k o)) → Safe P R Q (.readByte k)
  | peek (k : Option UInt8 → Proc α) : (∀ o, Safe P R Q (k o)) → Safe P R Q (.peek k)
  | write (bs : Bytes) (k : Proc α) : Safe P R Q k → Safe P R Q (.write bs k)
  | call (c : Call) (k : Reply → Proc α) : R c → (∀ r, Safe P R Q (k r)) → Safe P R Q (.call c k)
  | panic (s : String) : P s → Safe P R Q (.panic s)

theorem Safe.bind {α β : Type} {P : String → Prop} {R : Call → Prop} {Q : α → Prop} {Q' : β → Prop} {p : Proc α} {f : α → Proc β}
    (hp : Safe P R Q p) (hf : ∀ a, Q a → Safe P R Q' (f a)) : Safe P R Q' (Proc.bind p f) := by
  induction hp with
  | ret a ha => exact hf a ha
  | readByte k _ ih => exact Safe.readByte _ (fun o => ih o)
  | peek k _ ih => exact Safe.peek _ (fun o => ih o)
  | write bs k _ ih => exact Safe.write _ _ ih
  | call c k hc _ ih => exact Safe.call _ _ hc (fun r => ih r)
  | panic s hs => exact Safe.panic s hs

theorem Safe.mono {α : Type} {P : String → Prop} {R : Call → Prop} {Q Q' : α → Prop} {p : Proc α}
    (hp : Safe P R Q p) (h : ∀ a, Q a → Q' a) : Safe P R Q' p := by
  induction hp with
  | ret a ha => exact Safe.ret a (h a ha)
  | readByte k _ ih => exact Safe.readByte _ ih
  | peek k _ ih => exact Safe.peek _ ih
  | write bs k _ ih => exact Safe.write _ _ ih
  | call c k hc _ ih => exact Safe.call _ _ hc ih
  | panic s hs => exact Safe.panic s hs

theorem bind_eq {α β : Type} (p : Proc α) (f : α → Proc β) : (p >>= f) = Proc.bind p f := rfl
theorem pure_eq {α : Type} (a : α) : (pure a : Proc α) = Proc.ret a := rfl

/-- Whatever the input and the handler do, a run of a safe program ends in `done` with a value satisfying
`Q`, or in a panic whose site satisfies `P`; and every handler call it makes satisfies `R`. -/
theorem run_safe {α H : Type} (hstep : H → Call → H × Reply) {P : String → Prop} {R : Call → Prop} {Q : α → Prop}
    {p : Proc α} (hp : Safe P R Q p) : ∀ (inp : Bytes) (h : H) (tr : List Ev),
      (∀ e ∈ tr, ∀ c, e = .called c → R c) →
      (match (Proc.run hstep p inp h tr).1 with
      | .done a => Q a
      | .panicked s => P s
      | .blocked => False) ∧
      (∀ e ∈ (Proc.run hstep p inp h tr).2.2.2, ∀ c, e = .called c → R c) := by
  induction hp with
  | ret a ha => intro inp h tr htr; exact ⟨by simpa [Proc.run] using ha, by simpa [Proc.run] using htr⟩
  | readByte k _ ih =>
    intro inp h tr htr
    cases inp with
    | nil => simpa [Proc.run] using ih none [] h tr htr
    | cons b t => simpa [Proc.run] using ih (some b) t h tr htr
  | peek k _ ih =>
    intro inp h tr htr
    cases inp with
    | nil => simpa [Proc.run] using ih none [] h tr htr
    | cons b t =>
      have := ih (some b) (b :: t) h (.peeked b :: tr) (by
        intro e he c hc
        simp only [List.mem_cons] at he
        rcases he with rfl | he
        · cases hc
        · exact htr e he c hc)
      simpa [Proc.run] using this
  | write bs k _ ih =>
    intro inp h tr htr
    have := ih inp h (.wrote bs :: tr) (by
      intro e he c hc
      simp only [List.mem_cons] at he
      rcases he with rfl | he
      · cases hc
      · exact htr e he c hc)
    simpa [Proc.run] using this
  | call c k hc _ ih =>
    intro inp h tr htr
    simp only [Proc.run]
    exact ih (hstep h c).2 inp (hstep h c).1 (.called c :: tr) (by
      intro e he c' hc'
      simp only [List.mem_cons] at he
      rcases he with rfl | he
      · cases hc'; exact hc
      · exact htr e he c' hc')
  | panic s hs => intro inp h tr htr; exact ⟨by simpa [Proc.run] using hs, by simpa [Proc.run] using htr⟩

end Wl2k.B2F
