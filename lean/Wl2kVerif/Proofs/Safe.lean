import Wl2kVerif.B2F.Session
import Wl2kVerif.Proofs.Checked
/-
`Safe P Q p`: every `panic s` node reachable in program `p` — for ANY input bytes and ANY replies of
the handler — satisfies `P s`, and every value `p` can return satisfies `Q`.
-/
namespace Wl2k.B2F

inductive Safe {α : Type} (P : String → Prop) (Q : α → Prop) : Proc α → Prop
  | ret (a : α) : Q a → Safe P Q (.ret a)
  | readByte (k : Option UInt8 → Proc α) : (∀ o, Safe P Q (k o)) → Safe P Q (.readByte k)
  | peek (k : Option UInt8 → Proc α) : (∀ o, Safe P Q (k o)) → Safe P Q (.peek k)
  | write (bs : Bytes) (k : Proc α) : Safe P Q k → Safe P Q (.write bs k)
  | call (c : Call) (k : Reply → Proc α) : (∀ r, Safe P Q (k r)) → Safe P Q (.call c k)
  | panic (s : String) : P s → Safe P Q (.panic s)

theorem Safe.bind {α β : Type} {P : String → Prop} {Q : α → Prop} {Q' : β → Prop} {p : Proc α} {f : α → Proc β}
    (hp : Safe P Q p) (hf : ∀ a, Q a → Safe P Q' (f a)) : Safe P Q' (Proc.bind p f) := by
  induction hp with
  | ret a ha => exact hf a ha
  | readByte k _ ih => exact Safe.readByte _ (fun o => ih o)
  | peek k _ ih => exact Safe.peek _ (fun o => ih o)
  | write bs k _ ih => exact Safe.write _ _ ih
  | call c k _ ih => exact Safe.call _ _ (fun r => ih r)
  | panic s hs => exact Safe.panic s hs

theorem Safe.mono {α : Type} {P : String → Prop} {Q Q' : α → Prop} {p : Proc α}
    (hp : Safe P Q p) (h : ∀ a, Q a → Q' a) : Safe P Q' p := by
  induction hp with
  | ret a ha => exact Safe.ret a (h a ha)
  | readByte k _ ih => exact Safe.readByte _ ih
  | peek k _ ih => exact Safe.peek _ ih
  | write bs k _ ih => exact Safe.write _ _ ih
  | call c k _ ih => exact Safe.call _ _ ih
  | panic s hs => exact Safe.panic s hs

theorem bind_eq {α β : Type} (p : Proc α) (f : α → Proc β) : (p >>= f) = Proc.bind p f := rfl
theorem pure_eq {α : Type} (a : α) : (pure a : Proc α) = Proc.ret a := rfl

/-- Whatever the input and the handler do, a run of a safe program ends in `done` with a value satisfying
`Q`, or in a panic whose site satisfies `P`. -/
theorem run_safe {α H : Type} (hstep : H → Call → H × Reply) {P : String → Prop} {Q : α → Prop} {p : Proc α}
    (hp : Safe P Q p) : ∀ (inp : Bytes) (h : H) (tr : List Ev),
      match (Proc.run hstep p inp h tr).1 with
      | .done a => Q a
      | .panicked s => P s
      | .blocked => False := by
  induction hp with
  | ret a ha => intro inp h tr; simpa [Proc.run] using ha
  | readByte k _ ih =>
    intro inp h tr
    cases inp with
    | nil => simpa [Proc.run] using ih none [] h tr
    | cons b t => simpa [Proc.run] using ih (some b) t h tr
  | peek k _ ih =>
    intro inp h tr
    cases inp with
    | nil => simpa [Proc.run] using ih none [] h tr
    | cons b t => simpa [Proc.run] using ih (some b) (b :: t) h (.peeked b :: tr)
  | write bs k _ ih => intro inp h tr; simpa [Proc.run] using ih inp h (.wrote bs :: tr)
  | call c k _ ih =>
    intro inp h tr
    simp only [Proc.run]
    exact ih (hstep h c).2 inp (hstep h c).1 (.called c :: tr)
  | panic s hs => intro inp h tr; simpa [Proc.run] using hs

end Wl2k.B2F
